/-
Executable model (generic in `Num α`) of the physics-table calculators and the helpers of
property C14:

  src/corecel/grid/UniformGridData.hh (`from_bounds`), UniformGrid.hh (`operator[]`, `find`),
  NonuniformGrid.hh (`find` = binary `lower_bound` + step back), Interpolator.hh (linear/linear),
  src/celeritas/grid/XsCalculator.hh (= EnergyLossCalculator), RangeCalculator.hh,
  InverseRangeCalculator.hh, GenericCalculator.hh,
  src/celeritas/phys/PhysicsStepUtils.hh (`calc_mean_energy_loss`),
  PhysicsTrackView.hh (`range_to_step`),
  src/celeritas/em/msc/detail/MscStepToGeo.hh, MscStepFromGeo.hh, UrbanMscHelper.hh
  (`calc_msc_mfp`, `calc_inverse_range`).

Expression trees (association, `std::fma` in the interpolator) follow the C++ exactly so that
the `Float` instance is bit-identical.  Things `Num` does not provide are explicit arguments:
  * `toIdx : α → Nat`   — `static_cast<size_type>(double)` (truncation; `Nat.floor` at ℝ);
  * constants (`min_step`, `dtrl`, `small_step_alpha`, `sqrt_tol`, `no_scaling`) come from
    Generated/CalcConsts.lean, regenerated from the source text by tools/gen/calc.py;
  * `expm1`, `log1p`    — libm functions missing from Lean's `Float` API: at `Float` the driver
                          passes the libm result given on the op line (oracle input), at ℝ the
                          theorems assume `expm1 x = exp x − 1`, `log1p x = log (1 + x)`.
Tables live in a shared `reals` array (Collection<real_type>) and are addressed by an item
range (`off`, `size`); a read outside the array is `none` (the release build does no bounds
check: `XsCalculator::get` would read whatever follows).
No Mathlib.
-/
import CelerVerif.Num.Basic
import CelerVerif.Generated.CalcConsts

namespace CelerVerif.Calc
open CelerVerif
open scoped CelerVerif.Num

variable {α : Type} [Num α]

/-! ### UniformGridData / UniformGrid -/

/-- `UniformGridData` -/
structure UGrid (α : Type) where
  size : Nat
  front : α
  back : α
  delta : α
deriving Repr, Inhabited

/-- `UniformGridData::from_bounds(front, back, size)`:
    `delta = (back - front) / (size - 1)` (size_type → double conversion) -/
def UGrid.fromBounds (front back : α) (size : Nat) : UGrid α :=
  ⟨size, front, back, (back - front) / Num.ofNat (size - 1)⟩

/-- `UniformGridData::operator bool`: `size >= 2 && delta > 0 && front < back` -/
def UGrid.valid (g : UGrid α) : Bool :=
  decide (g.size ≥ 2) && Num.gt g.delta (0 : α) && Num.lt g.front g.back

/-- `UniformGrid::operator[](i)`: `front + delta * i` -/
def UGrid.at (g : UGrid α) (i : Nat) : α := g.front + g.delta * Num.ofNat i

/-- `UniformGrid::find(value)`: `bin = static_cast<size_type>((value - front) / delta);
    if (bin + 1 >= size) bin = size - 2;` (roundoff just below `back`, /repo commit f1d81dd) -/
def UGrid.find (toIdx : α → Nat) (g : UGrid α) (value : α) : Nat :=
  let bin := toIdx ((value - g.front) / g.delta)
  if bin + 1 ≥ g.size then g.size - 2 else bin

/-! ### LinearInterpolator (Interpolator<linear, linear>) -/

/-- members `intercept_`, `slope_`, `offset_` -/
structure LinInterp (α : Type) where
  intercept : α
  slope : α
  offset : α
deriving Repr, Inhabited

/-- constructor: `intercept = y_l; slope = (-y_l + y_r) / (-x_l + x_r); offset = -x_l` -/
def LinInterp.mk' (xl yl xr yr : α) : LinInterp α :=
  ⟨yl, (-yl + yr) / (-xl + xr), -xl⟩

/-- `operator()(x)`: `fma(slope, offset + x, intercept)` -/
def LinInterp.eval (p : LinInterp α) (x : α) : α :=
  Num.fma p.slope (p.offset + x) p.intercept

/-- the whole two-point interpolation -/
def lerp (xl yl xr yr x : α) : α := (LinInterp.mk' xl yl xr yr).eval x

/-! ### XsGridData / XsCalculator (= EnergyLossCalculator) -/

/-- `XsGridData::no_scaling()` = `size_type(-1)` (64-bit `size_type` in this build) -/
def noScaling : Nat := Generated.CalcConsts.noScaling

/-- `XsGridData` + the `reals` collection it points into -/
structure XsGrid (α : Type) where
  grid : UGrid α
  prime : Nat
  off : Nat
  size : Nat
  reals : Array α
deriving Repr, Inhabited

/-- `XsGridData::operator bool` -/
def XsGrid.valid (d : XsGrid α) : Bool :=
  d.grid.valid && decide (d.size ≥ 2) && (decide (d.prime < d.grid.size) || d.prime == noScaling)
    && d.grid.size == d.size

/-- `XsCalculator::get(index)`: `reals_[data_.value[index]]`, unchecked in a release build -/
def XsGrid.get (d : XsGrid α) (index : Nat) : Option α := d.reals[d.off + index]?

/-- lambda `calc_extrapolated(idx)` -/
def XsGrid.calcExtrapolated (d : XsGrid α) (energy : α) (idx : Nat) : Option α :=
  (d.get idx).map fun result => if idx ≥ d.prime then result / energy else result

/-- the interpolation inside bin `lower` once the two table values are read -/
def xsBin (g : UGrid α) (prime lower : Nat) (lowerXs upperXs0 energy : α) : α :=
  let upperEnergy := Num.exp (g.at (lower + 1))
  let upperXs := if lower + 1 = prime then upperXs0 / upperEnergy else upperXs0
  let result := lerp (Num.exp (g.at lower)) lowerXs upperEnergy upperXs energy
  if lower ≥ prime then result / energy else result

/-- `XsCalculator::operator()(energy)` -/
def XsGrid.calc (toIdx : α → Nat) (d : XsGrid α) (energy : α) : Option α :=
  let loge := Num.log energy
  if Num.le loge d.grid.front then d.calcExtrapolated energy 0
  else if Num.ge loge d.grid.back then d.calcExtrapolated energy (d.grid.size - 1)
  else
    let lower := d.grid.find toIdx loge
    match d.get (lower + 1), d.get lower with
    | some upperXs0, some lowerXs => some (xsBin d.grid d.prime lower lowerXs upperXs0 energy)
    | _, _ => none

/-- `XsCalculator::operator[](index)`: unscaled tabulated value -/
def XsGrid.atIndex (d : XsGrid α) (index : Nat) : Option α :=
  let energy := Num.exp (d.grid.at index)
  (d.get index).map fun result => if index ≥ d.prime then result / energy else result

/-! ### RangeCalculator -/

/-- `RangeCalculator::operator()(energy)` -/
def XsGrid.range (toIdx : α → Nat) (d : XsGrid α) (energy : α) : Option α :=
  let loge := Num.log energy
  if Num.le loge d.grid.front then
    (d.get 0).map fun result => result * Num.exp ((0.5 : α) * (loge - d.grid.front))
  else if Num.ge loge d.grid.back then d.get (d.grid.size - 1)
  else
    let idx := d.grid.find toIdx loge
    match d.get idx, d.get (idx + 1) with
    | some yl, some yr =>
      some (lerp (Num.exp (d.grid.at idx)) yl (Num.exp (d.grid.at (idx + 1))) yr energy)
    | _, _ => none

/-! ### NonuniformGrid (own copy of the bracket search; the order theory is C18's) -/

/-- `lower_bound_impl` on `storage[off .. off+size)` with `comp = v[i] < value`:
    `while (len != 0) { half = len / 2; m = first + half;
       if (v[m] < value) { first = ++m; len -= half + 1; } else len = half; }` -/
def lowerBoundLoop (rd : Nat → Option α) (value : α) (first len : Nat) : Option Nat :=
  if len = 0 then some first
  else
    match rd (first + len / 2) with
    | none => none
    | some m =>
      if Num.lt m value then lowerBoundLoop rd value (first + len / 2 + 1) (len - (len / 2 + 1))
      else lowerBoundLoop rd value first (len / 2)
termination_by len
decreasing_by all_goals omega

/-- `NonuniformGrid::find(value)`: `iter = lower_bound(...); if (value != v[*iter]) --iter;` -/
def nonuniformFind (rd : Nat → Option α) (size : Nat) (value : α) : Option Nat :=
  match lowerBoundLoop rd value 0 size with
  | none => none
  | some it =>
    match rd it with
    | none => none
    | some x => if Num.ne value x then some (it - 1) else some it

/-! ### InverseRangeCalculator -/

/-- `InverseRangeCalculator::operator()(range)` (the "loge" local of the C++ is an energy) -/
def XsGrid.invRange (d : XsGrid α) (range : α) : Option α :=
  match d.get 0, d.get (d.size - 1) with
  | some rFront, some rBack =>
    if Num.lt range rFront then
      some (Num.exp d.grid.front * Num.sq (range / rFront))
    else if Num.ge range rBack then some (Num.exp d.grid.back)
    else
      match nonuniformFind d.get d.size range with
      | none => none
      | some idx =>
        match d.get idx, d.get (idx + 1) with
        | some rl, some rr =>
          some (lerp rl (Num.exp (d.grid.at idx)) rr (Num.exp (d.grid.at (idx + 1))) range)
        | _, _ => none
  | _, _ => none

/-! ### GenericCalculator -/

/-- `GenericGridRecord` + storage: x grid at `xoff`, values at `yoff`, both of length `size` -/
structure GenGrid (α : Type) where
  xoff : Nat
  yoff : Nat
  size : Nat
  reals : Array α
deriving Repr, Inhabited

def GenGrid.x (d : GenGrid α) (i : Nat) : Option α := d.reals[d.xoff + i]?
def GenGrid.y (d : GenGrid α) (i : Nat) : Option α := d.reals[d.yoff + i]?

/-- `GenericCalculator::make_inverse` / `from_inverse`: x and y flipped -/
def GenGrid.inverse (d : GenGrid α) : GenGrid α := { d with xoff := d.yoff, yoff := d.xoff }

/-- `GenericCalculator::operator()(x)` -/
def GenGrid.calc (d : GenGrid α) (x : α) : Option α :=
  match d.x 0, d.x (d.size - 1) with
  | some xFront, some xBack =>
    if Num.le x xFront then d.y 0
    else if Num.ge x xBack then d.y (d.size - 1)
    else
      match nonuniformFind d.x d.size x with
      | none => none
      | some lower =>
        match d.x lower, d.y lower, d.x (lower + 1), d.y (lower + 1) with
        | some xl, some yl, some xr, some yr => some (lerp xl yl xr yr x)
        | _, _, _, _ => none
  | _, _ => none

/-! ### calc_mean_energy_loss, range_to_step -/

/-- `calc_mean_energy_loss(particle, physics, step)`; `energy` = pre-step energy,
    `range` = `physics.dedx_range()`, `linLossLimit` = `scalars.linear_loss_limit` -/
def meanEnergyLoss (toIdx : α → Nat) (loss rng : XsGrid α) (linLossLimit energy range step : α) :
    Option α :=
  match loss.calc toIdx energy with
  | none => none
  | some rate =>
    let eloss := step * rate
    if Num.ge eloss (energy * linLossLimit) then
      if Num.eq step range then some energy
      else (rng.invRange (range - step)).map fun e => energy - e
    else some eloss

/-- `celeritas::sqrt_tol()` for double -/
def sqrtTol : α :=
  Num.ofSci Generated.CalcConsts.sqrtTolM true Generated.CalcConsts.sqrtTolE

/-- `PhysicsTrackView::range_to_step(range)`; `rho = min_range`, `alpha = max_step_over_range` -/
def rangeToStep (rho alpha range : α) : α :=
  if Num.lt range (rho * ((1 : α) + sqrtTol)) then range
  else alpha * range + rho * ((1 : α) - alpha) * ((2 : α) - rho / range)

/-! ### Urban MSC true path ↔ geometrical path -/

/-- `UrbanMscParameters::min_step()` = 1 nm in CGS -/
def mscMinStep : α :=
  Num.ofSci Generated.CalcConsts.minStepM true Generated.CalcConsts.minStepE
/-- `UrbanMscParameters::dtrl()` -/
def mscDtrl : α := Num.ofSci Generated.CalcConsts.dtrlM true Generated.CalcConsts.dtrlE
/-- `MscStep::small_step_alpha()` -/
def smallStepAlpha : α :=
  Num.ofSci Generated.CalcConsts.smallStepAlphaM true Generated.CalcConsts.smallStepAlphaE

/-- `std::fmin` (NaN-ignoring; ties return the first argument) -/
def fmin (a b : α) : α :=
  if Num.ne a a then b else if Num.ne b b then a else if Num.le a b then a else b
/-- `std::fmax` -/
def fmax (a b : α) : α :=
  if Num.ne a a then b else if Num.ne b b then a else if Num.ge a b then a else b
/-- `celeritas::clamp(v, lo, hi)`: `v < lo ? lo : hi < v ? hi : v` -/
def clamp (v lo hi : α) : α := if Num.lt v lo then lo else if Num.lt hi v then hi else v
/-- `fastpow(a, b)` = `exp(b * log(a))` -/
def fastpow (a b : α) : α := Num.exp (b * Num.log a)

/-- `UrbanMscHelper::calc_msc_mfp(energy)`: `1 / (xs(energy) / energy²)` -/
def mscMfp (toIdx : α → Nat) (xs : XsGrid α) (energy : α) : Option α :=
  (xs.calc toIdx energy).map fun s => (1 : α) / (s / Num.sq energy)

/-- `MscStepToGeo::result_type` -/
structure GeoResult (α : Type) where
  step : α
  alpha : α
deriving Repr, Inhabited

/-- Eq 8.10 tail of `MscStepToGeo::operator()` -/
def geoFromSlope (lambda alpha mfpSlope : α) : α :=
  let w := (1 : α) + (1 : α) / (alpha * lambda)
  ((1 : α) - fastpow mfpSlope w) / (alpha * w)

/-- `MscStepToGeo::operator()(tstep)`; `emass` = `shared.electron_mass`, `rng` the range table
    used by `helper.calc_inverse_range`, `mxs` the scaled MSC cross-section table used by
    `helper.calc_msc_mfp`. -/
def mscStepToGeo (toIdx : α → Nat) (expm1 : α → α) (rng mxs : XsGrid α)
    (emass energy lambda range tstep : α) : Option (GeoResult α) :=
  let fin (r : GeoResult α) : GeoResult α := { r with step := fmin r.step tstep }
  if Num.lt tstep (mscMinStep : α) then some (fin ⟨tstep, smallStepAlpha⟩)
  else if Num.lt tstep (range * (mscDtrl : α)) then
    some (fin ⟨-lambda * expm1 (-tstep / lambda), smallStepAlpha⟩)
  else if Num.lt energy emass || Num.eq tstep range then
    let alpha := (1 : α) / range
    let mfpSlope := fmax ((1 : α) - alpha * tstep) (0 : α)
    some (fin ⟨geoFromSlope lambda alpha mfpSlope, alpha⟩)
  else
    let rfinal := range - tstep
    match rng.invRange rfinal with
    | none => none
    | some endpointEnergy =>
      match mscMfp toIdx mxs endpointEnergy with
      | none => none
      | some lambda1 =>
        let alpha := (lambda - lambda1) / (lambda * tstep)
        let mfpSlope := lambda1 / lambda
        some (fin ⟨geoFromSlope lambda alpha mfpSlope, alpha⟩)

/-- `MscStepFromGeo::operator()(gstep)`; `trueStep`, `alpha` from the `MscStep` -/
def mscStepFromGeo (log1p : α → α) (trueStep alpha range lambda gstep : α) : α :=
  if Num.lt gstep (mscMinStep : α) then gstep
  else
    let tstep :=
      if Num.eq alpha (smallStepAlpha : α) then
        let tstep := -lambda * log1p (-gstep / lambda)
        if Num.lt tstep (mscMinStep : α) then gstep else tstep
      else
        let w := (1 : α) + (1 : α) / (alpha * lambda)
        let x := fmin (alpha * w * gstep) (1 : α)
        let temp := (1 : α) - fastpow ((1 : α) - x) ((1 : α) / w)
        fmin (temp / alpha) range
    clamp tstep gstep trueStep

/-! ### ValueGridXsBuilder / ValueGridLogBuilder / ValueGridInserter (ValueGridBuilder.cc) -/

/-- `SoftEqualTraits<double>::rel_prec()`, `abs_thresh()` -/
def relPrec : α := Num.ofSci Generated.CalcConsts.relPrecM true Generated.CalcConsts.relPrecE
def absThresh : α :=
  Num.ofSci Generated.CalcConsts.absThreshM true Generated.CalcConsts.absThreshE

/-- `soft_equal(a, b)` = `SoftEqual<double>()(a, b)`:
    `rel = rel_ * fmax(fabs(a), fabs(b)); return fabs(a - b) < fmax(abs_, rel);` -/
def softEqual (a b : α) : Bool :=
  let rel := (relPrec : α) * fmax (Num.abs a) (Num.abs b)
  Num.lt (Num.abs (a - b)) (fmax (absThresh : α) rel)

/-- members of `ValueGridXsBuilder` after its constructor
    (`log_emin_ = log(emin)`, `log_eprime_ = log(eprime)`, `log_emax_ = log(emax)`) -/
structure XsBuilder (α : Type) where
  logEmin : α
  logEprime : α
  logEmax : α
  xs : Array α
deriving Repr, Inhabited

def XsBuilder.mk' (emin eprime emax : α) (xs : Array α) : XsBuilder α :=
  ⟨Num.log emin, Num.log eprime, Num.log emax, xs⟩

/-- the prime-index search of `ValueGridXsBuilder::build`:
    `prime_index = grid.find(log_eprime_);
     if (soft_equal(grid[prime_index + 1], log_eprime_)) ++prime_index;` -/
def XsBuilder.primeIndex (toIdx : α → Nat) (b : XsBuilder α) : Nat :=
  let g := UGrid.fromBounds b.logEmin b.logEmax b.xs.size
  let p := g.find toIdx b.logEprime
  if softEqual (g.at (p + 1)) b.logEprime then p + 1 else p

/-- `ValueGridXsBuilder::build(insert)` with `ValueGridInserter::operator()`: the grid is
    `from_bounds(log_emin_, log_emax_, xs_.size())`, the values are appended to `reals`
    unchanged (the caller supplies the part at/above `eprime` already multiplied by E) -/
def XsBuilder.build (toIdx : α → Nat) (b : XsBuilder α) (reals : Array α) : XsGrid α :=
  ⟨UGrid.fromBounds b.logEmin b.logEmax b.xs.size, b.primeIndex toIdx, reals.size, b.xs.size,
   reals ++ b.xs⟩

/-- `ValueGridLogBuilder(emin, emax, value).build(insert)`: no 1/E scaling -/
def logBuild (emin emax : α) (value reals : Array α) : XsGrid α :=
  ⟨UGrid.fromBounds (Num.log emin) (Num.log emax) value.size, noScaling, reals.size, value.size,
   reals ++ value⟩

/-! ### calc_physics_step_limit (PhysicsStepUtils.hh) for one process with macro-xs, energy-loss
    and range tables (no integral-xs, no hardwired model) -/

/-- which limit won: `discrete_action`, `range_action`, `fixed_step_action` -/
inductive StepAction | discrete | range | fixed
deriving DecidableEq, Repr, Inhabited

/-- `StepLimit` -/
structure StepLimit (α : Type) where
  step : α
  action : StepAction
deriving Repr, Inhabited

/-- the per-track values `calc_physics_step_limit` caches for later use in the same step:
    `PhysicsTrackState::dedx_range` (read by `calc_mean_energy_loss`, MSC) and `macro_xs`
    (read by `select_discrete_interaction`); they persist in the track slot between steps -/
structure PhysTrack (α : Type) where
  dedxRange : α
  macroXs : α
deriving Repr, Inhabited

/-- `calc_physics_step_limit(material, particle, physics, pstep)`;
    `rho`/`alpha` = `min_range`/`max_step_over_range`, `fixedLimit` = `fixed_step_limiter`,
    `mfp` = `physics.interaction_mfp()` -/
def physicsStepLimit (toIdx : α → Nat) (mxs rng : XsGrid α) (rho alpha fixedLimit : α)
    (st : PhysTrack α) (energy mfp : α) : Option (StepLimit α × PhysTrack α) :=
  match mxs.calc toIdx energy with
  | none => none
  | some processXs =>
    let total := (0 : α) + processXs
    let st1 : PhysTrack α := { st with macroXs := total }
    if Num.eq energy (0 : α) then some (⟨(0 : α), .discrete⟩, st1)
    else
      let step0 := mfp / total
      match rng.range toIdx energy with
      | none => none
      | some range =>
        -- "Save range for the current step and reuse it elsewhere"
        let st2 : PhysTrack α := { st1 with dedxRange := range }
        let elossStep := rangeToStep rho alpha range
        let lim1 : StepLimit α :=
          if Num.le elossStep step0 then ⟨elossStep, .range⟩ else ⟨step0, .discrete⟩
        let lim2 : StepLimit α :=
          if Num.gt fixedLimit (0 : α) && Num.lt fixedLimit lim1.step then ⟨fixedLimit, .fixed⟩
          else lim1
        some (lim2, st2)

end CelerVerif.Calc
