/-
Executable model (generic in `Num α`) of ORANGE navigation, AS WRITTEN in
  src/orange/OrangeTrackView.hh           (initialize, find_next_step[max], find_next_step_impl,
                                            move_to_boundary, move_internal(dist/pos),
                                            cross_boundary, set_dir incl. the rotate-up loop over
                                            the levels `surface_level-1 … 0`, reentrant flag)
  src/orange/univ/SimpleUnitTracker.hh    (initialize, cross_boundary: neighbour list vs BIH,
                                            intersect with/without max, simple_/complex_/
                                            background_intersect, normal)
  src/orange/univ/RectArrayTracker.hh     (initialize, intersect, cross_boundary, normal, index maps)
  src/orange/univ/detail/SenseCalculator.hh, LogicEvaluator.hh, SurfaceFunctors.hh
                                           (CalcIntersections bookkeeping incl. the on-face skip),
                                           Utils.hh (IsFinite, IsNotFurtherThan, BumpCalculator)
  src/orange/detail/BIHTraverser.hh, UniverseIndexer.hh, transform/TransformVisitor.hh.
Surfaces and transforms come from Model/Surf.lean (C12; bit-exact at `Float`).

The unit-tracker *control logic* (`gatherHits`, `minHit`, `sortHits`, `firstExit`, `firstEntered`,
`Valid.ok`) is written over plain lists of per-face answers — the geometric sub-queries are
inputs to it (recorded oracles in the sense of DESIGN §2.3); `SimpleUnit.intersect` feeds it with
the answers of the surface model.

`no_intersection()` (= +∞) is `none : Option α` everywhere (the `Num ℝ` instance has no ∞).
-/
import CelerVerif.Model.Surf

namespace CelerVerif.Nav
open CelerVerif CelerVerif.Surf
open scoped CelerVerif.Num

variable {α : Type} [Num α]

/-- default element for out-of-range reads (never reached on well-formed data) -/
local instance (priority := low) numInhabited : Inhabited α := ⟨Num.ofNat 0⟩

/-! ### distances with a +∞ sentinel -/

/-- `a < b` on distances, `none` = +∞ -/
def dlt : Option α → Option α → Bool
  | some a, some b => Num.lt a b
  | some _, none => true
  | none, _ => false

/-- `a <= b` on distances, `none` = +∞ -/
def dle : Option α → Option α → Bool
  | some a, some b => Num.le a b
  | _, none => true
  | none, some _ => false

/-- value used when a distance enters arithmetic (`axpy`) -/
def dval (d : Option α) : α := d.getD Num.inf

/-- `numeric_limits<double>::max()` -/
def maxFinite : α := 1.7976931348623157e308

/-- the validity predicate `F` of `intersect_impl` -/
inductive Valid (α : Type) where
  | finite                          -- `IsFinite`: distance < max()
  | notFurther (max : Option α)     -- `IsNotFurtherThan{max}`: distance <= max
deriving Inhabited

def Valid.ok : Valid α → Option α → Bool
  | .finite, some d => Num.lt d (maxFinite : α)
  | .finite, none => false
  | .notFurther m, d => dle d m

/-! ### unit-tracker control logic over recorded per-face answers -/

/-- one saved intersection: `temp_next.face[i]`, `temp_next.distance[i]` -/
structure Hit (α : Type) where
  face : Nat
  dist : Option α
deriving Inhabited

/-- `CalcIntersections::operator()` for one face: `none` = skipped (on a single-intersection
    surface), otherwise the slots returned by `calc_intersections` -/
def hitsOfFace (v : Valid α) (face : Nat) : Option (List (Option α)) → List (Hit α)
  | none => []
  | some ds => (ds.filter v.ok).map fun d => ⟨face, d⟩

/-- all faces in order (face index = position) -/
def gatherHitsFrom (v : Valid α) : Nat → List (Option (List (Option α))) → List (Hit α)
  | _, [] => []
  | i, f :: fs => hitsOfFace v i f ++ gatherHitsFrom v (i + 1) fs

def gatherHits (v : Valid α) (perFace : List (Option (List (Option α)))) : List (Hit α) :=
  gatherHitsFrom v 0 perFace

/-- `min_element(…, Less{})`: the first minimal element -/
def minHit : List (Hit α) → Option (Hit α)
  | [] => none
  | h :: t =>
    match minHit t with
    | none => some h
    | some m => if dlt m.dist h.dist then some m else some h

/-- insertion of an element that came EARLIER in the original order into an ascending list:
    it goes before equal elements (stability) -/
def insertHit (h : Hit α) : List (Hit α) → List (Hit α)
  | [] => [h]
  | x :: xs => if dlt x.dist h.dist then x :: insertHit h xs else h :: x :: xs

/-- `celeritas::sort` of the index array by distance (host: `std::sort`; modelled as a stable
    insertion sort, which is what libstdc++ does for ≤ 16 elements) -/
def sortHits : List (Hit α) → List (Hit α)
  | [] => []
  | h :: t => insertHit h (sortHits t)

/-- `complex_intersect` loop: flip the sense of each crossed face in order; the first crossing
    after which the logic is false is the exit.  Returns the hit and the pre-crossing sense. -/
def firstExit (inside : Array Bool → Bool) : Array Bool → List (Hit α) → Option (Hit α × Bool)
  | _, [] => none
  | s, h :: t =>
    let old := s.getD h.face false
    let s' := s.setIfInBounds h.face (!old)
    if !inside s' then some (h, old) else firstExit inside s' t

/-- `background_intersect` loop: first hit (in sorted order) for which some neighbour volume
    is entered; `entered h` returns the pre-crossing sense if so -/
def firstEntered (entered : Hit α → Option Bool) : List (Hit α) → Option (Hit α × Bool)
  | [] => none
  | h :: t =>
    match entered h with
    | some s => some (h, s)
    | none => firstEntered entered t

/-- `LogicEvaluator` (stack as a list; the 32-bit `LogicStack` refinement is C10's theorem).
    Tokens: `logic_int` = 32-bit; ltrue = 2^32-5, lor, land, lnot = 2^32-2. -/
def ltrue : Nat := 4294967291
def lor : Nat := 4294967292
def land : Nat := 4294967293
def lnot : Nat := 4294967294
def lbegin : Nat := 4294967289

def evalLogicStep (senses : Array Bool) (st : List Bool) (tok : Nat) : List Bool :=
  if tok < lbegin then senses.getD tok false :: st
  else if tok == ltrue then true :: st
  else if tok == lor then
    match st with
    | a :: b :: r => (b || a) :: r
    | _ => st
  else if tok == land then
    match st with
    | a :: b :: r => (b && a) :: r
    | _ => st
  else if tok == lnot then
    match st with
    | a :: r => (!a) :: r
    | _ => st
  else st

def evalLogic (logic : List Nat) (senses : Array Bool) : Bool :=
  (logic.foldl (evalLogicStep senses) []).headD false

/-! ### geometry data (what the trackers read from `OrangeParamsData`) -/

structure Volume (α : Type) where
  faces : List Nat            -- LocalSurfaceId, sorted
  logic : List Nat
  flags : Nat
  daughter : Option Nat
  bbLo : Vec3 α
  bbHi : Vec3 α
deriving Inhabited

def Volume.internalSurfaces (v : Volume α) : Bool := v.flags % 2 == 1
def Volume.implicitVol (v : Volume α) : Bool := (v.flags / 2) % 2 == 1
def Volume.simpleIntersection (v : Volume α) : Bool := v.flags % 4 == 0

structure BihInner (α : Type) where
  parent : Option Nat
  axis : Nat
  lpos : α
  lchild : Option Nat
  rpos : α
  rchild : Option Nat
deriving Inhabited

structure BihLeaf where
  parent : Option Nat
  vols : List Nat
deriving Inhabited

structure SimpleUnit (α : Type) where
  surfaces : Array (Surface α)
  conn : Array (List Nat)
  volumes : Array (Volume α)
  background : Option Nat
  inner : Array (BihInner α)
  leaves : Array BihLeaf
  infVols : List Nat
deriving Inhabited

/-- surface / volume accessors (out-of-range reads give a default, never reached on valid data) -/
def SimpleUnit.surf (u : SimpleUnit α) (sid : Nat) : Surface α := u.surfaces.getD sid default
def SimpleUnit.vol (u : SimpleUnit α) (id : Nat) : Volume α := u.volumes.getD id default
/-- BIH node accessors: node ids `< inner.size` are inner nodes, the others leaves -/
def SimpleUnit.innerNode (u : SimpleUnit α) (n : Nat) : BihInner α := u.inner.getD n default
def SimpleUnit.leafNode (u : SimpleUnit α) (n : Nat) : BihLeaf :=
  u.leaves.getD (n - u.inner.size) default

structure RectArray (α : Type) where
  dims : Array Nat            -- 3
  grid : Array (Array α)      -- 3 axes
  offsets : Array Nat         -- 4 (RaggedRightIndexerData)
  daughters : Array (Option Nat)
deriving Inhabited

inductive Universe (α : Type) where
  | simple (u : SimpleUnit α)
  | rect (r : RectArray α)
deriving Inhabited

inductive Transform (α : Type) where
  | none
  | translation (t : Vec3 α)
  | transformation (t : Transformation α)
deriving Inhabited

def Transform.down : Transform α → Vec3 α → Vec3 α
  | .none, p => p
  | .translation t, p => translateDown t p
  | .transformation t, p => t.down p
def Transform.rotDown : Transform α → Vec3 α → Vec3 α
  | .transformation t, d => t.rotDown d
  | _, d => d
def Transform.rotUp : Transform α → Vec3 α → Vec3 α
  | .transformation t, d => t.rotUp d
  | _, d => d
def Transform.isRotation : Transform α → Bool
  | .transformation _ => true
  | _ => false

structure Geo (α : Type) where
  tolRel : α
  tolAbs : α
  universes : Array (Universe α)
  daughters : Array (Nat × Nat)       -- (universe, transform)
  transforms : Array (Transform α)
  surfOff : Array Nat
  volOff : Array Nat
deriving Inhabited

/-- a signed local surface (`OnLocalSurface`); the sense is kept even when the id is null -/
structure OnSurf where
  id : Option Nat
  sense : Bool          -- false = inside, true = outside
deriving Inhabited, BEq

structure Isect (α : Type) where
  surf : OnSurf
  dist : Option α
deriving Inhabited

def Isect.none' : Isect α := ⟨⟨none, false⟩, none⟩

structure LocalState (α : Type) where
  pos : Vec3 α
  dir : Vec3 α
  volume : Option Nat
  surface : OnSurf
deriving Inhabited

/-! ### SimpleUnitTracker -/

def numIntersections : Surface α → Nat
  | .planeAligned .. => 1
  | .plane .. => 1
  | _ => 2

def isectSlots (s : Surface α) (pos dir : Vec3 α) (on : Bool) : List (Option α) :=
  let r := s.calcIntersections pos dir on
  if numIntersections s == 1 then [r.1] else [r.1, r.2]

def findFace (vol : Volume α) (surf : Option Nat) : Option Nat :=
  match surf with
  | none => none
  | some s => let i := vol.faces.idxOf s; if i < vol.faces.length then some i else none

/-- `SenseCalculator::operator()(vol, face)`: senses of all faces + first face we are "on" -/
def calcSensesFrom (u : SimpleUnit α) (pos : Vec3 α) (onFace : Option (Nat × Bool)) :
    Nat → List Nat → Option (Nat × Bool) → List Bool × Option (Nat × Bool)
  | _, [], face => ([], face)
  | i, sid :: rest, face =>
    let known := match onFace with
      | some (f, s) => if f == i then some s else none
      | none => none
    match known with
    | some s =>
      let (ss, f') := calcSensesFrom u pos onFace (i + 1) rest face
      (s :: ss, f')
    | none =>
      let sg := (u.surf sid).calcSense pos
      let cur := sg != SignedSense.inside
      let face' := if face.isNone && sg == SignedSense.on then some (i, cur) else face
      let (ss, f') := calcSensesFrom u pos onFace (i + 1) rest face'
      (cur :: ss, f')

def calcSenses (u : SimpleUnit α) (vol : Volume α) (pos : Vec3 α) (onFace : Option (Nat × Bool)) :
    Array Bool × Option (Nat × Bool) :=
  let (ss, f) := calcSensesFrom u pos onFace 0 vol.faces onFace
  (ss.toArray, f)

def toOnFace (vol : Volume α) (s : OnSurf) : Option (Nat × Bool) :=
  (findFace vol s.id).map fun f => (f, s.sense)

/-- bbox containment test `is_inside(bbox, point)` -/
def inBBox (v : Volume α) (p : Vec3 α) : Bool :=
  Num.le v.bbLo.x p.x && Num.le p.x v.bbHi.x && Num.le v.bbLo.y p.y && Num.le p.y v.bbHi.y
    && Num.le v.bbLo.z p.z && Num.le p.z v.bbHi.z

/-- `BIHTraverser::next_node` -/
def bihNext (u : SimpleUnit α) (cur : Nat) (prev : Option Nat) (p : Vec3 α) : Option Nat :=
  if cur < u.inner.size then
    let nd := u.innerNode cur
    let pp := p.get nd.axis
    if prev == nd.parent then
      if Num.lt pp nd.lpos then nd.lchild else nd.rchild
    else if prev == nd.lchild then
      if Num.lt nd.rpos pp then nd.rchild else nd.parent
    else nd.parent
  else prev

/-- candidate volumes in the order `BIHTraverser::operator()` offers them to the predicate
    (leaf volumes whose bbox contains the point, then `inf_volids`); the traversal order does
    not depend on the predicate's answers -/
def bihLoop (u : SimpleUnit α) (p : Vec3 α) : Nat → Nat → Option Nat → List Nat
  | 0, _, _ => []
  | fuel + 1, cur, prev =>
    let here : List Nat :=
      if cur < u.inner.size then []
      else ((u.leafNode cur).vols).filter fun v =>
        inBBox (u.vol v) p
    match bihNext u cur prev p with
    | none => here
    | some nxt => here ++ bihLoop u p fuel nxt (some cur)

def bihCandidates (u : SimpleUnit α) (p : Vec3 α) : List Nat :=
  bihLoop u p (3 * (u.inner.size + u.leaves.size) + 3) 0 none ++ u.infVols

/-- `initialize`: first candidate whose logic is true; `on_surface` is the flag of the LAST
    candidate evaluated (as written) -/
def initScan (u : SimpleUnit α) (pos : Vec3 α) : List Nat → Bool → Option Nat × Bool
  | [], on => (none, on)
  | id :: rest, _ =>
    let vol := u.vol id
    let (senses, face) := calcSenses u vol pos none
    if evalLogic vol.logic senses then (some id, face.isSome)
    else initScan u pos rest face.isSome

def SimpleUnit.initialize (u : SimpleUnit α) (pos : Vec3 α) : Option Nat :=
  let (id, on) := initScan u pos (bihCandidates u pos) false
  if on then none
  else match id with
    | none => u.background
    | some i => some i

/-- the `is_inside` lambda of `cross_boundary` -/
def crossInside (u : SimpleUnit α) (st : LocalState α) (id : Nat) : Bool :=
  if some id == st.volume then false
  else
    let vol := u.vol id
    let (senses, _) := calcSenses u vol st.pos (toOnFace vol st.surface)
    evalLogic vol.logic senses

def SimpleUnit.crossBoundary (u : SimpleUnit α) (st : LocalState α) : Option Nat :=
  let neighbors := u.conn.getD (st.surface.id.getD 0) []
  let cands := if neighbors.length < 3 then neighbors else bihCandidates u st.pos
  match cands.find? (crossInside u st) with
  | some id => some id
  | none => u.background

/-- per-face answers of the surface model for `CalcIntersections` -/
def faceAnswers (u : SimpleUnit α) (st : LocalState α) (onFace : Option Nat) :
    Nat → List Nat → List (Option (List (Option α)))
  | _, [] => []
  | i, sid :: rest =>
    let s := u.surf sid
    let on := onFace == some i
    (if numIntersections s == 1 && on then none else some (isectSlots s st.pos st.dir on))
      :: faceAnswers u st onFace (i + 1) rest

/-- `BumpCalculator` -/
def bumpDist (g : Geo α) (pos : Vec3 α) : α :=
  let r := g.tolAbs
  let r := Num.max r (g.tolRel * Num.abs pos.x)
  let r := Num.max r (g.tolRel * Num.abs pos.y)
  Num.max r (g.tolRel * Num.abs pos.z)

/-- inner loop of `background_intersect` for one hit -/
def bgEntered (g : Geo α) (u : SimpleUnit α) (st : LocalState α) (h : Hit α) : Option Bool :=
  let surface := h.face       -- "Inside the background volume, Face and Surface are the same"
  let pos := Vec3.axpy (dval h.dist + bumpDist g st.pos) st.dir st.pos
  let test (vid : Nat) : Option Bool :=
    let vol := u.vol vid
    let (senses, _) := calcSenses u vol pos none
    if evalLogic vol.logic senses then
      some (!(senses.getD ((findFace vol (some surface)).getD 0) false))
    else none
  (u.conn.getD surface []).findSome? test

/-- `simple_intersect`: the nearest saved intersection; its pre-crossing sense -/
def SimpleUnit.pickSimple (u : SimpleUnit α) (st : LocalState α) (vol : Volume α)
    (hits : List (Hit α)) : Isect α :=
  match minHit hits with
  | none => Isect.none'
  | some h =>
    let surface := vol.faces.getD h.face 0
    let cur :=
      if some surface == st.surface.id then st.surface.sense
      else (u.surf surface).calcSense st.pos != SignedSense.inside
    ⟨⟨some surface, cur⟩, h.dist⟩

/-- `complex_intersect` on the sorted intersections -/
def SimpleUnit.pickComplex (u : SimpleUnit α) (st : LocalState α) (vol : Volume α)
    (sorted : List (Hit α)) : Isect α :=
  match firstExit (evalLogic vol.logic) (calcSenses u vol st.pos (toOnFace vol st.surface)).1
      sorted with
  | some (h, old) => ⟨⟨some (vol.faces.getD h.face 0), old⟩, h.dist⟩
  | none => Isect.none'

/-- `background_intersect` on the sorted intersections -/
def SimpleUnit.pickBackground (g : Geo α) (u : SimpleUnit α) (st : LocalState α)
    (sorted : List (Hit α)) : Isect α :=
  match firstEntered (bgEntered g u st) sorted with
  | some (h, s) => ⟨⟨some h.face, s⟩, h.dist⟩
  | none => Isect.none'

/-- the choice among the saved intersections (`simple_intersect` / sort + `complex_intersect` /
    sort + `background_intersect`) -/
def SimpleUnit.pickHit (g : Geo α) (u : SimpleUnit α) (st : LocalState α) (vol : Volume α)
    (hits : List (Hit α)) : Isect α :=
  if hits.isEmpty then Isect.none'
  else if vol.simpleIntersection then u.pickSimple st vol hits
  else if vol.internalSurfaces then u.pickComplex st vol (sortHits hits)
  else u.pickBackground g st (sortHits hits)

/-- `intersect_impl(state, is_valid)` -/
def SimpleUnit.intersectImpl (g : Geo α) (u : SimpleUnit α) (st : LocalState α) (v : Valid α) :
    Isect α :=
  let vol := u.vol (st.volume.getD 0)
  let onFace := findFace vol st.surface.id
  u.pickHit g st vol (gatherHits v (faceAnswers u st onFace 0 vol.faces))

def SimpleUnit.normal (u : SimpleUnit α) (pos : Vec3 α) (surf : Nat) : Vec3 α :=
  (u.surf surf).calcNormal pos

/-! ### RectArrayTracker -/

/-- `NonuniformGrid::find`: lower_bound then step back unless exactly on a grid point -/
def lowerBound (g : List α) (v : α) : Nat :=
  match g with
  | [] => 0
  | x :: xs => if Num.lt x v then 1 + lowerBound xs v else 0

def gridFind (g : Array α) (v : α) : Nat :=
  let i := lowerBound g.toList v
  if Num.ne v (g.getD i (Num.ofNat 0)) then i - 1 else i

/-- `HyperslabIndexer<3>` / inverse -/
def toIndex (dims : Array Nat) (c : Array Nat) : Nat :=
  (dims.getD 2 1) * ((dims.getD 1 1) * (c.getD 0 0) + c.getD 1 0) + c.getD 2 0

def toCoords (dims : Array Nat) (index : Nat) : Array Nat :=
  let d2 := dims.getD 2 1
  let d1 := dims.getD 1 1
  let c2 := index % d2
  let index := (index - c2) / d2
  let c1 := index % d1
  let index := (index - c1) / d1
  #[index, c1, c2]

/-- `RaggedRightInverseIndexer<3>` : surface id → (axis, index along axis) -/
def surfAxis (offsets : Array Nat) (index : Nat) : Nat × Nat :=
  if index < offsets.getD 1 0 then (0, index - offsets.getD 0 0)
  else if index < offsets.getD 2 0 then (1, index - offsets.getD 1 0)
  else (2, index - offsets.getD 2 0)

def RectArray.initAxis (r : RectArray α) (pos : Vec3 α) (ax : Nat) : Option Nat :=
  let g := r.grid.getD ax #[]
  let p := pos.get ax
  if Num.lt p (g.getD 0 (Num.ofNat 0)) || Num.gt p (g.getD (g.size - 1) (Num.ofNat 0)) then none
  else
    let i := gridFind g p
    if Num.eq (g.getD i (Num.ofNat 0)) p then none else some i

def RectArray.initialize (r : RectArray α) (pos : Vec3 α) : Option Nat :=
  match r.initAxis pos 0, r.initAxis pos 1, r.initAxis pos 2 with
  | some i, some j, some k => some (toIndex r.dims #[i, j, k])
  | _, _, _ => none

def RectArray.crossBoundary (r : RectArray α) (st : LocalState α) : Option Nat :=
  let coords := toCoords r.dims (st.volume.getD 0)
  let ax := (surfAxis r.offsets (st.surface.id.getD 0)).1
  let c := coords.getD ax 0
  let c' := if st.surface.sense then c + 1 else c - 1
  some (toIndex r.dims (coords.setIfInBounds ax c'))

/-- the candidate crossing of one axis in `intersect_impl`: the grid plane ahead along that
    axis, if the direction has a component along it and the distance is positive -/
def RectArray.axisCand (r : RectArray α) (st : LocalState α) (coords : Array Nat) (ax : Nat) :
    Option (Isect α) :=
  let dir := st.dir.get ax
  if Num.eq dir (Num.ofNat 0) then none
  else
    let target := coords.getD ax 0 + (if Num.gt dir (Num.ofNat 0) then 1 else 0)
    let value := (r.grid.getD ax #[]).getD target (Num.ofNat 0)
    let dist := (value - st.pos.get ax) / dir
    if Num.gt dist (Num.ofNat 0) then
      some ⟨⟨some (r.offsets.getD ax 0 + target), !(Num.gt dir (Num.ofNat 0))⟩, some dist⟩
    else none

/-- `if (dist > 0 && is_valid(dist) && dist < result.distance) result = candidate` -/
def stepCand (v : Valid α) (res : Isect α) : Option (Isect α) → Isect α
  | none => res
  | some c => if v.ok c.dist && dlt c.dist res.dist then c else res

def RectArray.intersectImpl (r : RectArray α) (st : LocalState α) (v : Valid α) : Isect α :=
  let coords := toCoords r.dims (st.volume.getD 0)
  stepCand v (stepCand v (stepCand v Isect.none' (r.axisCand st coords 0)) (r.axisCand st coords 1))
    (r.axisCand st coords 2)

def RectArray.normal (r : RectArray α) (surf : Nat) : Vec3 α :=
  (⟨Num.ofNat 0, Num.ofNat 0, Num.ofNat 0⟩ : Vec3 α).set (surfAxis r.offsets surf).1 (Num.ofNat 1)

/-! ### TrackerVisitor dispatch -/

def Geo.univ (g : Geo α) (uid : Nat) : Universe α := g.universes.getD uid default

def Geo.initialize (g : Geo α) (uid : Nat) (pos : Vec3 α) : Option Nat :=
  match g.univ uid with
  | .simple u => u.initialize pos
  | .rect r => r.initialize pos

def Geo.crossBoundary (g : Geo α) (uid : Nat) (st : LocalState α) : Option Nat :=
  match g.univ uid with
  | .simple u => u.crossBoundary st
  | .rect r => r.crossBoundary st

def Geo.intersectImpl (g : Geo α) (uid : Nat) (st : LocalState α) (v : Valid α) : Isect α :=
  match g.univ uid with
  | .simple u => u.intersectImpl g st v
  | .rect r => r.intersectImpl st v

/-- `intersect(state)` -/
def Geo.intersect (g : Geo α) (uid : Nat) (st : LocalState α) : Isect α :=
  g.intersectImpl uid st .finite

/-- `intersect(state, max_dist)`: not found ⇒ distance := max_dist -/
def Geo.intersectMax (g : Geo α) (uid : Nat) (st : LocalState α) (max : Option α) : Isect α :=
  let r := g.intersectImpl uid st (.notFurther max)
  if r.surf.id.isNone then { r with dist := max } else r

def Geo.normal (g : Geo α) (uid : Nat) (pos : Vec3 α) (surf : Nat) : Vec3 α :=
  match g.univ uid with
  | .simple u => u.normal pos surf
  | .rect r => r.normal surf

def Geo.daughter (g : Geo α) (uid : Nat) (vol : Nat) : Option Nat :=
  match g.univ uid with
  | .simple u => (u.vol vol).daughter
  | .rect r => r.daughters.getD vol none

def Geo.daughterInfo (g : Geo α) (d : Nat) : Nat × Transform α :=
  let (u, t) := g.daughters.getD d (0, 0)
  (u, g.transforms.getD t .none)

/-- universe 0 seen as "the first simple unit" (`SimpleUnitId{0}`) -/
def Geo.topUnit (g : Geo α) : Nat :=
  (g.universes.toList.findIdx? fun u => match u with | .simple _ => true | .rect _ => false).getD 0

/-! ### OrangeTrackView -/

structure LevelState (α : Type) where
  vol : Nat
  pos : Vec3 α
  dir : Vec3 α
  uid : Nat
deriving Inhabited

structure State (α : Type) where
  levels : Array (LevelState α)      -- entries 0 … level
  level : Option Nat
  surfaceLevel : Option Nat
  surf : Option Nat
  sense : Bool
  boundary : Bool                    -- true = exiting, false = reentrant
  nextLevel : Option Nat
  nextStep : Option α                -- `none` = +∞, `some 0` = cleared
  nextSurf : Option Nat
  nextSense : Bool
  failed : Bool
deriving Inhabited

def State.init : State α :=
  { levels := #[], level := none, surfaceLevel := none, surf := none, sense := false,
    boundary := false, nextLevel := none, nextStep := some (Num.ofNat 0), nextSurf := none,
    nextSense := false, failed := false }

def State.lvl (s : State α) : Nat := s.level.getD 0
/-- the per-level data of level `k` -/
def State.lev (s : State α) (k : Nat) : LevelState α := s.levels.getD k default
def State.isOnBoundary (s : State α) : Bool := s.surfaceLevel.isSome
def State.hasNextStep (s : State α) : Bool :=
  match s.nextStep with
  | some d => Num.ne d (Num.ofNat 0)
  | none => true
def State.clearNext (s : State α) : State α :=
  { s with nextStep := some (Num.ofNat 0), nextSurf := none }
def State.clearSurface (s : State α) : State α := { s with surfaceLevel := none }

def State.localState (s : State α) (lev : Nat) : LocalState α :=
  let l := s.lev lev
  { pos := l.pos, dir := l.dir, volume := some l.vol,
    surface := if s.surfaceLevel == some lev then ⟨s.surf, s.sense⟩ else ⟨none, false⟩ }

/-- descend into daughters, *initializing* at each level (shared by `operator=` and
    `cross_boundary`); returns the levels appended and the failure flag -/
def descend (g : Geo α) : Nat → Nat → Vec3 α → Vec3 α → Array (LevelState α) → Bool →
    Array (LevelState α) × Bool
  | 0, _, _, _, acc, failed => (acc, failed)
  | fuel + 1, uid, pos, dir, acc, failed =>
    let (vol, failed) := match g.initialize uid pos with
      | some v => (v, failed)
      | none => (0, true)
    let acc := acc.push ⟨vol, pos, dir, uid⟩
    match g.daughter uid vol with
    | none => (acc, failed)
    | some d =>
      let (u', t) := g.daughterInfo d
      descend g fuel u' (t.down pos) (t.rotDown dir) acc failed

/-- `operator=(Initializer_t)` -/
def initTrack (g : Geo α) (s : State α) (pos dir : Vec3 α) : State α :=
  let (levels, failed) := descend g (g.universes.size + 1) 0 pos dir #[] false
  { s with levels := levels, level := some (levels.size - 1), failed := failed,
           boundary := true, surfaceLevel := none,
           nextStep := some (Num.ofNat 0), nextSurf := none }

/-- `find_next_step_impl` loop over the deeper levels, generic in the per-level limited search
    `limited lev max` (= `t.intersect(local_state(lev), max)`): each level is searched up to the
    best distance so far; strict `<` so the shallowest level wins ties -/
def findImplLoopG (limited : Nat → Option α → Isect α) : List Nat → Isect α → Nat → Isect α × Nat
  | [], isect, minLevel => (isect, minLevel)
  | lev :: rest, isect, minLevel =>
    let loc := limited lev isect.dist
    if dlt loc.dist isect.dist then findImplLoopG limited rest loc lev
    else findImplLoopG limited rest isect minLevel

/-- the per-level limited search of the current state -/
def levelLimited (g : Geo α) (s : State α) (lev : Nat) (max : Option α) : Isect α :=
  g.intersectMax (s.lev lev).uid (s.localState lev) max

def findImplLoop (g : Geo α) (s : State α) : List Nat → Isect α → Nat → Isect α × Nat :=
  findImplLoopG (levelLimited g s)

/-- `find_next_step()` (max = none) / `find_next_step(max_step)`; returns the Propagation too -/
def findNextStep (g : Geo α) (s : State α) (max : Option α) : State α × Option α × Bool :=
  if !s.boundary then (s, some (Num.ofNat 0), true)
  else
    let top := match max with
      | none => g.intersect g.topUnit (s.localState 0)
      | some m => g.intersectMax g.topUnit (s.localState 0) (some m)
    let (isect, minLevel) := findImplLoop g s ((List.range (s.lvl + 1)).drop 1) top 0
    let s := { s with nextStep := isect.dist, nextSurf := isect.surf.id,
                      nextSense := isect.surf.sense }
    let s := if isect.surf.id.isSome then { s with nextLevel := some minLevel } else s
    (s, isect.dist, isect.surf.id.isSome)

def moveLevels (s : State α) (dist : α) : Array (LevelState α) :=
  s.levels.map fun l => { l with pos := Vec3.axpy dist l.dir l.pos }

/-- `move_to_boundary` -/
def moveToBoundary (s : State α) : State α :=
  let s := { s with levels := moveLevels s (dval s.nextStep) }
  let s := { s with surfaceLevel := s.nextLevel, surf := s.nextSurf, sense := s.nextSense }
  s.clearNext

/-- `move_internal(dist)` -/
def moveInternal (s : State α) (dist : α) : State α :=
  let s := { s with levels := moveLevels s dist,
                    nextStep := s.nextStep.map fun d => d - dist }
  s.clearSurface

/-- transform a global point / direction down through the current levels -/
def posDown (g : Geo α) (s : State α) : List Nat → Vec3 α → Array (LevelState α) →
    Array (LevelState α)
  | [], _, acc => acc
  | lev :: rest, p, acc =>
    let l := acc.getD lev default
    let acc := acc.setIfInBounds lev { l with pos := p }
    match g.daughter l.uid l.vol with
    | some d => posDown g s rest ((g.daughterInfo d).2.down p) acc
    | none => posDown g s rest p acc

/-- `move_internal(pos)` -/
def moveInternalPos (g : Geo α) (s : State α) (pos : Vec3 α) : State α :=
  let s := { s with levels := posDown g s (List.range (s.lvl + 1)) pos s.levels }
  s.clearSurface.clearNext

def dirDown (g : Geo α) : List Nat → Vec3 α → Array (LevelState α) → Array (LevelState α)
  | [], _, acc => acc
  | lev :: rest, d, acc =>
    let l := acc.getD lev default
    let acc := acc.setIfInBounds lev { l with dir := d }
    match g.daughter l.uid l.vol with
    | some dau => dirDown g rest ((g.daughterInfo dau).2.rotDown d) acc
    | none => dirDown g rest d acc

/-- the transform leading from level `lev` to the one below (`get_transform(LevelId)`) -/
def levelTransform (g : Geo α) (s : State α) (lev : Nat) : Transform α :=
  let l := s.lev lev
  match g.daughter l.uid l.vol with
  | some d => (g.daughterInfo d).2
  | none => .none

/-- rotate a vector up through the levels `n-1, …, 0` -/
def rotateUpFrom (g : Geo α) (s : State α) : Nat → Vec3 α → Vec3 α
  | 0, n => n
  | k + 1, n => rotateUpFrom g s k ((levelTransform g s k).rotUp n)

/-- the normal of the current surface in the frame of `surface_level` -/
def localNormal (g : Geo α) (s : State α) (sl : Nat) : Vec3 α :=
  let l := s.lev sl
  g.normal l.uid l.pos (s.surf.getD 0)

/-- does `set_dir(newdir)` flip the boundary flag?  The normal is a vector of the
    `surface_level` frame; it is rotated up through the levels `surface_level-1 … 0`
    (`range<int>(surface_level).step(-1)`, the code after the repair aba3908) and compared
    with the global directions. -/
def setDirFlips (g : Geo α) (s : State α) (newdir : Vec3 α) (sl : Nat) : Bool :=
  let normal := rotateUpFrom g s sl (localNormal g s sl)
  let old := (s.lev 0).dir
  (Num.ge (Vec3.dot normal newdir) (Num.ofNat 0)) != (Num.ge (Vec3.dot normal old) (Num.ofNat 0))

/-- the loop as it was written BEFORE the repair: `range<int>(level).step(-1)`, i.e. the
    normal was rotated up from the *current* level although it lives in the frame of
    `surface_level` (kept to state and prove the defect: Props/C03 `setDir_allLevels_wrong`) -/
def setDirFlipsAllLevels (g : Geo α) (s : State α) (newdir : Vec3 α) (sl : Nat) : Bool :=
  let normal := rotateUpFrom g s s.lvl (localNormal g s sl)
  let old := (s.lev 0).dir
  (Num.ge (Vec3.dot normal newdir) (Num.ofNat 0)) != (Num.ge (Vec3.dot normal old) (Num.ofNat 0))

/-- `set_dir` -/
def setDir (g : Geo α) (s : State α) (newdir : Vec3 α) : State α :=
  let s := match s.surfaceLevel with
    | some sl => if setDirFlips g s newdir sl then { s with boundary := !s.boundary } else s
    | none => s
  let s := { s with levels := dirDown g (List.range (s.lvl + 1)) newdir s.levels }
  s.clearNext

/-- `cross_boundary` -/
def crossBoundary (g : Geo α) (s : State α) : State α :=
  if !s.boundary then { s with boundary := true }
  else
    let s := { s with sense := !s.sense, boundary := true }
    let level := s.surfaceLevel.getD 0
    let l := s.lev level
    let loc : LocalState α := { pos := l.pos, dir := l.dir, volume := some l.vol, surface := ⟨s.surf, s.sense⟩ }
    let (vol, failed) := match g.crossBoundary l.uid loc with
      | some v => (v, s.failed)
      | none => (0, true)
    let kept := (s.levels.extract 0 level).push { l with vol := vol }
    match g.daughter l.uid vol with
    | none => { s with levels := kept, level := some level, failed := failed }
    | some d =>
      let (u', t) := g.daughterInfo d
      let (levels, failed) :=
        descend g (g.universes.size + 1) u' (t.down l.pos) (t.rotDown l.dir) kept failed
      { s with levels := levels, level := some (levels.size - 1), failed := failed }

/-- `UniverseIndexer::global_volume` / `global_surface` -/
def globalVolume (g : Geo α) (s : State α) : Nat :=
  let l := s.lev s.lvl
  g.volOff.getD l.uid 0 + l.vol
def globalSurface (g : Geo α) (s : State α) : Option Nat :=
  s.surfaceLevel.map fun sl =>
    g.surfOff.getD (s.lev sl).uid 0 + s.surf.getD 0

end CelerVerif.Nav
