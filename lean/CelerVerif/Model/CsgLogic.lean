/-
Executable model (C10) of the logic encodings built from a CSG tree and their evaluators:
`detail/PostfixLogicBuilder.cc`, `univ/detail/LogicEvaluator.hh` + `LogicStack.hh` (32-bit
stack, exactly as written, release build), the list-stack reference evaluator,
`calc_max_depth` of `orange/detail/UnitInserter.cc`, `detail/InternalSurfaceFlagger.cc`,
`detail/InfixStringBuilder.hh`.  No Mathlib import.
-/
import CelerVerif.Model.Csg

namespace CelerVerif.Csg
open CelerVerif.Generated.Csg

/-- `logic::is_operator_token` -/
def isOperatorToken (v : Nat) : Bool := decide (lbegin ≤ v)

def opToken : Op → Nat
  | .and => land
  | .or => lor

/-! ### PostfixLogicBuilder -/

/-- position of `s` in the sorted vector `m` (`find_sorted(...) - begin()`; `m.length` when
    absent, which the release build does not check) -/
def indexIn (m : List Nat) (s : Nat) : Nat := m.findIdx (· == s)

/-- the token pushed for surface `s`: the id itself, or its position in the optional mapping -/
def surfTok : Option (List Nat) → Nat → Nat
  | none, s => s
  | some m, s => indexIn m s

/-- one step of the `while (iter != end)` loop of the `Joined` visitor -/
def postfixStep (tok : Nat) (acc : Option (List Nat)) (sub : Option (List Nat)) :
    Option (List Nat) :=
  match acc, sub with
  | some a, some l => some (a ++ l ++ [tok])
  | _, _ => none

/-- `PostfixLogicBuilderImpl::operator()(NodeId)`: logic in surface ids (or mapped indices).
    `none`: recursion budget exhausted (cyclic tree), a `False` node or an empty join — all
    undefined behaviour in the release build. -/
def buildPostfix (t : Tree) (mapping : Option (List Nat)) : Nat → Nat → Option (List Nat)
  | 0, _ => none
  | f + 1, n =>
    match t.get n with
    | .tru => some [ltrue]
    | .fls => none
    | .surface s => some [surfTok mapping s]
    | .aliased a => buildPostfix t mapping f a
    | .negated a => (buildPostfix t mapping f a).map (· ++ [lnot])
    | .joined _ [] => none
    | .joined op (x :: xs) =>
      xs.foldl (fun acc c => postfixStep (opToken op) acc (buildPostfix t mapping f c))
        (buildPostfix t mapping f x)

/-- `PostfixLogicBuilder::operator()(NodeId)`: (faces, logic in face indices) -/
def postfixOf (t : Tree) (mapping : Option (List Nat)) (n : Nat) :
    Option (List Nat × List Nat) :=
  match buildPostfix t mapping (t.size + 1) n with
  | none => none
  | some lgc =>
    let faces := sortU (lgc.filter (fun v => !isOperatorToken v))
    some (faces, lgc.map (fun v => if isOperatorToken v then v else indexIn faces v))

/-! ### LogicEvaluator, reference (list stack) and as written (32-bit word) -/

/-- reference evaluator: explicit stack, `none` on underflow, unknown token or final size ≠ 1 -/
def evalRefLoop (vals : Nat → Bool) : List Nat → List Bool → Option (List Bool)
  | [], st => some st
  | tok :: rest, st =>
    if !isOperatorToken tok then evalRefLoop vals rest (vals tok :: st)
    else if tok = ltrue then evalRefLoop vals rest (true :: st)
    else if tok = lor then
      match st with
      | a :: b :: st' => evalRefLoop vals rest ((b || a) :: st')
      | _ => none
    else if tok = land then
      match st with
      | a :: b :: st' => evalRefLoop vals rest ((b && a) :: st')
      | _ => none
    else if tok = lnot then
      match st with
      | a :: st' => evalRefLoop vals rest ((!a) :: st')
      | _ => none
    else none

def evalRef (logic : List Nat) (vals : Nat → Bool) : Option Bool :=
  match evalRefLoop vals logic [] with
  | some [b] => some b
  | _ => none

/-- `LogicStack` state: `data_`, `size_` (both `size_type`, arithmetic mod 2^32) -/
structure BitStack where
  data : Nat
  size : Nat
  deriving Repr, DecidableEq, Inhabited

def word : Nat := 2 ^ wordBits

namespace BitStack
/-- `data_ = shl(data_) | lsb(v); ++size_` -/
def push (s : BitStack) (v : Bool) : BitStack :=
  ⟨((s.data <<< 1) % word) ||| (if v then 1 else 0), (s.size + 1) % word⟩
/-- `data_ ^= 1` -/
def applyNot (s : BitStack) : BitStack := ⟨s.data ^^^ 1, s.size⟩
/-- `temp = lsb(data_); data_ = shr(data_) & (temp | ~size_type(1)); --size_` -/
def applyAnd (s : BitStack) : BitStack :=
  ⟨(s.data >>> 1) &&& ((s.data &&& 1) ||| (word - 2)), (s.size + word - 1) % word⟩
/-- `data_ = shr(data_) | lsb(data_); --size_` -/
def applyOr (s : BitStack) : BitStack :=
  ⟨(s.data >>> 1) ||| (s.data &&& 1), (s.size + word - 1) % word⟩
/-- `lsb(data_)` -/
def top (s : BitStack) : Bool := s.data &&& 1 = 1
end BitStack

/-- the loop of `LogicEvaluator::operator()`; tokens other than true/or/and/not hit
    `CELER_ASSERT_UNREACHABLE` (modelled as no-op, excluded by well-formedness) -/
def evalBitsLoop (vals : Nat → Bool) : List Nat → BitStack → BitStack
  | [], st => st
  | tok :: rest, st =>
    if !isOperatorToken tok then evalBitsLoop vals rest (st.push (vals tok))
    else if tok = ltrue then evalBitsLoop vals rest (st.push true)
    else if tok = lor then evalBitsLoop vals rest st.applyOr
    else if tok = land then evalBitsLoop vals rest st.applyAnd
    else if tok = lnot then evalBitsLoop vals rest st.applyNot
    else evalBitsLoop vals rest st

/-- `LogicEvaluator{logic}(values)` -/
def evalBits (logic : List Nat) (vals : Nat → Bool) : Bool :=
  (evalBitsLoop vals logic ⟨0, 0⟩).top

/-! ### calc_max_depth (UnitInserter.cc) -/

def depthLoop : List Nat → Int → Int → Int × Int
  | [], maxD, cur => (maxD, cur)
  | tok :: rest, maxD, cur =>
    if !isOperatorToken tok || tok = ltrue then depthLoop rest maxD (cur + 1)
    else if tok = land || tok = lor then depthLoop rest (max cur maxD) (cur - 1)
    else depthLoop rest maxD cur

/-- `calc_max_depth(logic)`; `invalidMaxDepth` when the operators do not balance -/
def calcMaxDepth (logic : List Nat) : Int :=
  let (m, c) := depthLoop logic 1 0
  if c ≠ 1 then invalidMaxDepth else m

/-! ### InternalSurfaceFlagger (the cache is a memo of this pure function) -/

/-- `for d in nodes: if flag(d) == internal return internal` (short circuit) -/
def flagStep (acc : Option Bool) (sub : Unit → Option Bool) : Option Bool :=
  match acc with
  | none => none
  | some true => some true
  | some false => sub ()

/-- `true` = `Status::internal`.  `none`: budget exhausted / `False` node (UB in release). -/
def flagInternal (t : Tree) : Nat → Nat → Option Bool
  | 0, _ => none
  | f + 1, n =>
    match t.get n with
    | .tru => some false
    | .fls => none
    | .surface _ => some false
    | .aliased a => flagInternal t f a
    | .negated a =>
      match t.get a with
      | .joined _ _ => some true
      | _ => flagInternal t f a
    | .joined .or _ => some true
    | .joined .and ns =>
      ns.foldl (fun acc d => flagStep acc (fun _ => flagInternal t f d)) (some false)

def flag (t : Tree) (n : Nat) : Option Bool := flagInternal t (t.size + 1) n

/-! ### InfixStringBuilder -/

def infixStep (acc : Option (String × Bool)) (sub : Bool → Option (String × Bool)) :
    Option (String × Bool) :=
  match acc with
  | none => none
  | some (a, neg) =>
    match sub neg with
    | none => none
    | some (s, neg') => some (a ++ ", " ++ s, neg')

/-- returns the text appended and the value of `negated_` afterwards -/
def buildInfix (t : Tree) : Nat → Nat → Bool → Option (String × Bool)
  | 0, _, _ => none
  | f + 1, n, neg =>
    match t.get n with
    | .tru => some (if neg then "F" else "T", false)
    | .fls => none
    | .surface s => some ((if neg then "-" else "+") ++ toString s, false)
    | .aliased a => buildInfix t f a neg
    | .negated a =>
      match buildInfix t f a true with
      | none => none
      | some (s, neg') => some ((if neg then "!" else "") ++ s, neg')
    | .joined _ [] => none
    | .joined op (x :: xs) =>
      let head := (if neg then "!" else "") ++ (if op = .and then "all" else "any") ++ "("
      match buildInfix t f x false with
      | none => none
      | some (s, neg') =>
        (xs.foldl (fun acc c => infixStep acc (fun ng => buildInfix t f c ng))
          (some (head ++ s, neg'))).map (fun r => (r.1 ++ ")", r.2))

/-- `build_infix_string(tree, n)` -/
def infixString (t : Tree) (n : Nat) : Option String :=
  (buildInfix t (t.size + 1) n false).map (·.1)

end CelerVerif.Csg
