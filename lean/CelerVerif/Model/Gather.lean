/-
Model (as written) of the user scoring path of celeritas:

* `StepParams::StepParams`          (union of selections, detector-map merge, filter `and`,
                                     the three CELER_VALIDATE failures)            `mergeParams`
* `StepGatherExecutor<pre/post>`    (celeritas/user/detail/StepGatherExecutor.hh)  `gatherPreSlot`
                                                                                   `gatherPostSlot`
* `launch_action` + `TrackExecutor` (thread → slot indirection)                    `launch`
* `StepGatherAction<post>::step`    (callback fan-out)                             `fanOut`
* `copy_steps<host>`                (celeritas/user/DetectorSteps.cc)              `copySteps`
* `SimpleCaloExecutor` / `simple_calo_accum`                                       `caloAccum`
* `ActionDiagnosticExecutor`, `StepDiagnosticExecutor` (+ `AppliesValid`)          `adiagStep`
                                                                                   `sdiagStep`
* `accumulate_over_streams`                                                        `overStreams`

Values (`real_type`, energies) are an arbitrary type `α` with a law-free class `DepVal`
(zero, `== 0`, `+`): the model is executed at `Float` (bit patterns cross the protocol) and
the theorems hold for every `α`, in particular for IEEE doubles with their non-associative `+`.
OpaqueIds are `Option Nat` (`none` = the invalid id).  No Mathlib.
-/
namespace CelerVerif.Gather

class DepVal (α : Type) where
  zero : α
  /-- `x == zero_quantity()` -/
  isZero : α → Bool
  add : α → α → α

instance : DepVal Float := ⟨0.0, fun x => x == 0.0, fun a b => a + b⟩
/-- exact instance used by the non-vacuity examples -/
instance : DepVal Nat := ⟨0, fun x => x == 0, fun a b => a + b⟩

abbrev Id := Option Nat

structure V3 (α : Type) where
  x : α
  y : α
  z : α
deriving Repr, DecidableEq

/-! ### TrackStatus (values cross-checked against Generated/GatherEnums.lean in Props/C17) -/
def stInactive : Nat := 0
def stInitializing : Nat := 1
def stAlive : Nat := 2
def stErrored : Nat := 3
def stKilled : Nat := 4

/-- `is_track_valid` -/
def isTrackValid (st : Nat) : Bool := st != stInactive && st != stErrored

/-! ### selections and parameters -/

structure PointSel where
  time : Bool := false
  pos : Bool := false
  dir : Bool := false
  volume : Bool := false
  energy : Bool := false
deriving Repr, DecidableEq

structure Selection where
  pre : PointSel := {}
  post : PointSel := {}
  eventId : Bool := false
  parentId : Bool := false
  trackStepCount : Bool := false
  actionId : Bool := false
  stepLength : Bool := false
  particle : Bool := false
  edep : Bool := false
deriving Repr, DecidableEq

def PointSel.any (s : PointSel) : Bool := s.time || s.pos || s.dir || s.volume || s.energy

/-- `explicit operator bool` of StepSelection -/
def Selection.any (s : Selection) : Bool :=
  s.pre.any || s.post.any || s.eventId || s.parentId || s.trackStepCount || s.actionId
    || s.stepLength || s.particle || s.edep

def PointSel.union (a b : PointSel) : PointSel :=
  ⟨a.time || b.time, a.pos || b.pos, a.dir || b.dir, a.volume || b.volume, a.energy || b.energy⟩

/-- `operator|=` -/
def Selection.union (a b : Selection) : Selection :=
  ⟨a.pre.union b.pre, a.post.union b.post, a.eventId || b.eventId, a.parentId || b.parentId,
   a.trackStepCount || b.trackStepCount, a.actionId || b.actionId, a.stepLength || b.stepLength,
   a.particle || b.particle, a.edep || b.edep⟩

/-- `StepParamsData`: `detector = none` is the empty collection (no detectors in use),
    otherwise one entry per volume -/
structure Params where
  sel : Selection
  detector : Option (List Id)
  nz : Bool
deriving Repr, DecidableEq

/-- `StepInterface::Filters` + `selection()` of one callback: detectors as (volume, detector)
    pairs (a `std::map`: keys distinct) -/
structure Iface where
  sel : Selection
  dets : List (Nat × Nat)
  nz : Bool
deriving Repr, DecidableEq

inductive MergeErr where
  | noData
  | dupVolume
  | mixing
deriving Repr, DecidableEq

/-- insert one callback's map into the merged map, `none` on a duplicate volume -/
def insertDets : List (Nat × Nat) → List (Nat × Nat) → Option (List (Nat × Nat))
  | acc, [] => some acc
  | acc, (v, d) :: rest =>
    if acc.any (fun kv => kv.1 == v) then none else insertDets (acc ++ [(v, d)]) rest

/-- loop of the StepParams constructor: (selection, detector map, nz, has_det) -/
def mergeLoop : List Iface → Selection → List (Nat × Nat) → Bool → Option Bool →
    Except MergeErr (Selection × List (Nat × Nat) × Bool)
  | [], sel, dm, nz, _ => .ok (sel, dm, nz)
  | i :: rest, sel, dm, nz, hasDet =>
    if !i.sel.any then .error .noData else
    match insertDets dm i.dets with
    | none => .error .dupVolume
    | some dm' =>
      let nz' := nz && i.nz
      let this := !i.dets.isEmpty
      let hasDet' := match hasDet with | none => this | some h => h
      if this != hasDet' then .error .mixing else
      mergeLoop rest (sel.union i.sel) dm' nz' (some hasDet')

/-- volume → detector table (`temp_det`) -/
def detTable (nvol : Nat) (dm : List (Nat × Nat)) : List Id :=
  dm.foldl (fun t kv => t.set kv.1 (some kv.2)) (List.replicate nvol none)

/-- `StepParams::StepParams` -/
def mergeParams (nvol : Nat) (ifs : List Iface) : Except MergeErr Params :=
  match mergeLoop ifs {} [] true none with
  | .error e => .error e
  | .ok (sel, dm, nz) =>
    if dm.isEmpty then .ok ⟨sel, none, false⟩
    else .ok ⟨sel, some (detTable nvol dm), nz⟩

/-- `SimpleCalo::filters()` / `selection()` for a calorimeter built on the volume list `vols`:
    `result.detectors[volume_ids_[didx]] = DetectorId{didx}` — detector ids are numbered from 0
    PER CALORIMETER (a later duplicate label overwrites; `std::map`: keys sorted), the non-zero
    filter is on, the selection is {energy_deposition, pre-step volume}. -/
def insertNat (x : Nat) : List Nat → List Nat
  | [] => [x]
  | y :: ys => if x ≤ y then x :: y :: ys else y :: insertNat x ys

def caloDets (vols : List Nat) : List (Nat × Nat) :=
  let pairs := vols.zipIdx
  let keys := (vols.foldl (fun acc v => if acc.contains v then acc else acc ++ [v]) [])
  let sorted := keys.foldr insertNat []
  sorted.map fun v => (v, ((pairs.filter (fun p => p.1 == v)).map (·.2)).getLastD 0)

def caloIface (vols : List Nat) : Iface :=
  ⟨{ edep := true, pre := { volume := true } }, caloDets vols, true⟩

/-- whether StepCollector registers a pre-step gather action -/
def hasPreAction (p : Params) : Bool := p.sel.pre.any || p.detector.isSome

/-! ### what the executors read from the core state of one slot (`none` = inactive slot) -/

structure PointRead (α : Type) where
  /-- `geo.volume_id()` -/
  volRaw : Id
  /-- `geo.is_outside()` -/
  outside : Bool
  time : α
  pos : V3 α
  dir : V3 α
  energy : α

structure PostRead (α : Type) where
  trackId : Id
  eventId : Id
  parentId : Id
  numSteps : Nat
  action : Id
  stepLength : α
  particle : Id
  edep : α
  pt : PointRead α
  /-- TrackStatus of the (active) slot -/
  status : Nat

/-! ### StepStateDataImpl at one slot -/

structure PointData (α : Type) where
  time : α
  pos : V3 α
  dir : V3 α
  volume : Id
  energy : α
deriving DecidableEq

structure SlotData (α : Type) where
  trackId : Id
  detector : Id
  eventId : Id
  parentId : Id
  actionId : Id
  stepCount : Nat
  stepLength : α
  particle : Id
  edep : α
  pre : PointData α
  post : PointData α
deriving DecidableEq

variable {α : Type} [DepVal α]

def PointData.init : PointData α :=
  ⟨DepVal.zero, ⟨DepVal.zero, DepVal.zero, DepVal.zero⟩, ⟨DepVal.zero, DepVal.zero, DepVal.zero⟩,
   none, DepVal.zero⟩

/-- value-initialised collections (`resize`) -/
def SlotData.init : SlotData α :=
  ⟨none, none, none, none, none, 0, DepVal.zero, none, DepVal.zero, PointData.init, PointData.init⟩

/-- `params.detector[vol]` -/
def detOf (p : Params) (vol : Id) : Id :=
  match p.detector, vol with
  | some tbl, some v => tbl.getD v none
  | _, _ => none

/-- the `SGL_SET_IF_SELECTED(points[P]. …)` group -/
def writePoint (s : PointSel) (r : PointRead α) (d : PointData α) : PointData α :=
  { time := if s.time then r.time else d.time
    pos := if s.pos then r.pos else d.pos
    dir := if s.dir then r.dir else d.dir
    volume := if s.volume then (if r.outside then none else r.volRaw) else d.volume
    energy := if s.energy then r.energy else d.energy }

/-- `StepGatherExecutor<StepPoint::pre>::operator()` on one slot -/
def gatherPreSlot (p : Params) (r : Option (PointRead α)) (s : SlotData α) : SlotData α :=
  match r with
  | none =>
    -- inactive: clear detector ID if detectors are in use; no more data written
    if p.detector.isSome then { s with detector := none } else s
  | some r =>
    if p.detector.isSome then
      let s1 := { s with detector := detOf p r.volRaw }
      if s1.detector.isNone then s1
      else { s1 with pre := writePoint p.sel.pre r s1.pre }
    else { s with pre := writePoint p.sel.pre r s.pre }

/-- the post-step writes once the filters have passed -/
def writePost (sel : Selection) (r : PostRead α) (s : SlotData α) : SlotData α :=
  { s with
    eventId := if sel.eventId then r.eventId else s.eventId
    parentId := if sel.parentId then r.parentId else s.parentId
    stepCount := if sel.trackStepCount then r.numSteps else s.stepCount
    actionId := if sel.actionId then r.action else s.actionId
    stepLength := if sel.stepLength then r.stepLength else s.stepLength
    edep := if sel.edep then r.edep else s.edep
    particle := if sel.particle then r.particle else s.particle
    post := writePoint sel.post r.pt s.post }

/-- `StepGatherExecutor<StepPoint::post>::operator()` on one slot -/
def gatherPostSlot (p : Params) (r : Option (PostRead α)) (s : SlotData α) : SlotData α :=
  match r with
  | none => { s with trackId := none }
  | some r =>
    let s0 := { s with trackId := r.trackId }
    if p.detector.isSome then
      if s0.detector.isNone then s0
      else if p.nz && DepVal.isZero r.edep then { s0 with detector := none }
      else writePost p.sel r s0
    else writePost p.sel r s0

/-! ### launching over threads with the thread → slot indirection -/

/-- `launch_action(TrackExecutor{…})`: thread `t` handles slot `slots[t]`, threads in order -/
def launch {ρ σ : Type} (f : ρ → σ → σ) (reads : Nat → ρ) (slots : List Nat) (st : List σ) :
    List σ :=
  slots.foldl (fun st s => st.modify s (f (reads s))) st

/-- the same action applied slot by slot (identity indirection) -/
def mapSlots {ρ σ : Type} (f : ρ → σ → σ) (reads : Nat → ρ) (st : List σ) : List σ :=
  st.mapIdx (fun i s => f (reads i) s)

abbrev StepState (α : Type) := List (SlotData α)

def gatherPre (p : Params) (reads : List (Option (PointRead α))) (st : StepState α) :
    StepState α :=
  if hasPreAction p then mapSlots (gatherPreSlot p) (fun i => reads.getD i none) st else st

def gatherPost (p : Params) (reads : List (Option (PostRead α))) (st : StepState α) :
    StepState α :=
  mapSlots (gatherPostSlot p) (fun i => reads.getD i none) st

/-- one stepping-loop iteration as seen by the step collector -/
def gatherStep (p : Params) (pre : List (Option (PointRead α))) (post : List (Option (PostRead α)))
    (st : StepState α) : StepState α :=
  gatherPost p post (gatherPre p pre st)

/-- whether a slot of the gathered state is delivered: the slot is marked by a valid track id,
    and, when detectors are in use, by a valid detector id (`copy_steps`, `SimpleCaloExecutor`) -/
def delivered (p : Params) (s : SlotData α) : Bool :=
  s.trackId.isSome && (p.detector.isNone || s.detector.isSome)

/-! ### DetectorSteps::copy_steps -/

structure DetPoint (α : Type) where
  time : List α
  pos : List (V3 α)
  dir : List (V3 α)
  energy : List α

structure DetOut (α : Type) where
  detector : List Id
  trackId : List Id
  eventId : List Id
  parentId : List Id
  stepCount : List Nat
  stepLength : List α
  particle : List Id
  edep : List α
  pre : DetPoint α
  post : DetPoint α

/-- slots copied by `assign_field`, in order -/
def validSlots (st : StepState α) : List (SlotData α) := st.filter (fun s => s.detector.isSome)

/-- `if (detector[tid])` -/
def validAt (st : StepState α) (i : Nat) : Bool :=
  match st[i]? with
  | some s => s.detector.isSome
  | none => false

/-- indices of those slots -/
def validIdx (st : StepState α) : List Nat := (List.range st.length).filter (validAt st)

/-- `assign_field`: cleared when the source collection is empty (field not selected) -/
def assignField {β : Type} (selected : Bool) (f : SlotData α → β) (st : StepState α) : List β :=
  if selected then (validSlots st).map f else []

def copyPoint (s : PointSel) (f : SlotData α → PointData α) (st : StepState α) : DetPoint α :=
  ⟨assignField s.time (fun x => (f x).time) st, assignField s.pos (fun x => (f x).pos) st,
   assignField s.dir (fun x => (f x).dir) st, assignField s.energy (fun x => (f x).energy) st⟩

/-- `copy_steps<MemSpace::host>` (volume ids and action ids are not copied) -/
def copySteps (sel : Selection) (st : StepState α) : DetOut α :=
  { detector := assignField true (·.detector) st
    trackId := assignField true (·.trackId) st
    eventId := assignField sel.eventId (·.eventId) st
    parentId := assignField sel.parentId (·.parentId) st
    stepCount := assignField sel.trackStepCount (·.stepCount) st
    stepLength := assignField sel.stepLength (·.stepLength) st
    particle := assignField sel.particle (·.particle) st
    edep := assignField sel.edep (·.edep) st
    pre := copyPoint sel.pre (·.pre) st
    post := copyPoint sel.post (·.post) st }

/-! ### SimpleCalo -/

/-- `SimpleCaloExecutor` on one slot (`atomic_add(&calo[det], edep)`) -/
def caloSlot (calo : List α) (s : SlotData α) : List α :=
  match s.detector with
  | none => calo
  | some d => calo.modify d (fun x => DepVal.add x s.edep)

/-- `simple_calo_accum`: slots in order (no thread → slot remapping) -/
def caloAccum (st : StepState α) (calo : List α) : List α := st.foldl caloSlot calo

/-- `accumulate_over_streams`: `result[i] += data[i]` for each allocated stream in order -/
def overStreams (zero : List α) (streams : List (Option (List α))) : List α :=
  streams.foldl (fun acc s => match s with
    | none => acc
    | some d => List.zipWith DepVal.add acc d) zero

/-! ### diagnostics -/

def bump (counts : List Nat) (bin : Nat) : List Nat := counts.modify bin (· + 1)

/-- `ActionDiagnosticExecutor` under `make_active_track_executor` (AppliesValid) -/
def adiagSlot (nbins : Nat) (counts : List Nat) (r : Option (PostRead α)) : List Nat :=
  match r with
  | none => counts
  | some r =>
    if isTrackValid r.status then
      match r.particle, r.action with
      | some p, some a => bump counts (p * nbins + a)
      | _, _ => counts
    else counts

def adiagStep (nbins : Nat) (reads : List (Option (PostRead α))) (counts : List Nat) : List Nat :=
  reads.foldl (adiagSlot nbins) counts

/-- `ActionSequence::step` on host (global/ActionSequence.cc, `skip_post_action`): when the state
    has exactly ONE track slot, every action of order `StepActionOrder::post` whose id differs
    from that slot's `post_step_action` is skipped.  `ActionDiagnostic::order()` is `post` and its
    id is never a track's post-step action, so with one slot it is never executed (its
    per-stream counters are never even allocated). -/
def adiagSeqStep (nslots nbins : Nat) (reads : List (Option (PostRead α))) (counts : List Nat) :
    List Nat :=
  if nslots == 1 then counts else adiagStep nbins reads counts

/-- `StepDiagnosticExecutor` under `make_active_track_executor` -/
def sdiagSlot (nbins : Nat) (counts : List Nat) (r : Option (PostRead α)) : List Nat :=
  match r with
  | none => counts
  | some r =>
    if isTrackValid r.status && r.status == stKilled then
      match r.particle with
      | some p => bump counts (p * nbins + min r.numSteps (nbins - 1))
      | none => counts
    else counts

def sdiagStep (nbins : Nat) (reads : List (Option (PostRead α))) (counts : List Nat) : List Nat :=
  reads.foldl (sdiagSlot nbins) counts

/-- sum of per-stream count arrays (`accumulate_over_streams` on size_type) -/
def sumStreams (zero : List Nat) (streams : List (Option (List Nat))) : List Nat :=
  streams.foldl (fun acc s => match s with
    | none => acc
    | some d => List.zipWith (· + ·) acc d) zero

/-! ### callbacks and fan-out -/

inductive CbKind where
  | raw
  | det
  | calo (ndet : Nat)
deriving Repr, DecidableEq

/-- what one callback gets / produces in `process_steps` -/
inductive View (α : Type) where
  | raw (st : StepState α)
  | det (out : DetOut α)
  | calo (tally : List α)

/-- `for (auto const& sp_callback : callbacks_) sp_callback->process_steps(cb_state)`:
    every callback is invoked exactly once with the same gathered state; the calorimeters'
    per-stream tallies are threaded through -/
def fanOut (sel : Selection) (st : StepState α) :
    List CbKind → List (List α) → List (View α) × List (List α)
  | [], tallies => ([], tallies)
  | .raw :: cbs, tallies =>
    let (vs, ts) := fanOut sel st cbs tallies
    (View.raw st :: vs, ts)
  | .det :: cbs, tallies =>
    let (vs, ts) := fanOut sel st cbs tallies
    (View.det (copySteps sel st) :: vs, ts)
  | .calo n :: cbs, tallies =>
    let t := caloAccum st (tallies.headD (List.replicate n DepVal.zero))
    let (vs, ts) := fanOut sel st cbs tallies.tail
    (View.calo t :: vs, t :: ts)

/-! ### field inventories of the model (compared with the regenerated lists in Props/C17) -/

/-- fields written by `writePoint`, in order -/
def pointWrites : List String := ["time", "pos", "dir", "volume_id", "energy"]
/-- fields written by `writePost` besides the point, in source order -/
def postWrites : List String :=
  ["event_id", "parent_id", "track_step_count", "action_id", "step_length", "energy_deposition",
   "particle"]
/-- fields copied by `copySteps`, in source order -/
def copyFieldNames : List String :=
  ["detector", "track_id", "points[sp].time", "points[sp].pos", "points[sp].dir",
   "points[sp].energy", "event_id", "parent_id", "track_step_count", "step_length", "particle",
   "energy_deposition"]

end CelerVerif.Gather
