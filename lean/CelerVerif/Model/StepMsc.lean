/-
Executable model (generic in `Num α`) of the Urban MSC step-limit selection and of the lateral
displacement cap:
  src/celeritas/em/msc/detail/UrbanMscSafetyStepLimit.hh   (constructor + `operator()`)
  src/celeritas/em/msc/detail/UrbanMscMinimalStepLimit.hh  (constructor + `operator()`)
  src/celeritas/em/msc/UrbanMsc.hh                         (`limit_step` early returns)
  src/celeritas/em/msc/detail/UrbanMscScatter.hh           (displacement length cap)
  src/corecel/math/Algorithms.hh (`clamp`), random/distribution/NormalDistribution.hh
  (`fma(z, stddev, mean)`; the standard normal `z` is an INPUT, replayed from the track's RNG)
`calc_limit_min` (polynomial in the energy, material data) is an INPUT (`limMinNew`).
`range_init = +∞` (minimal algorithm, first step) is `none`.
-/
import CelerVerif.Num.Basic
import CelerVerif.Model.Step

namespace CelerVerif.Step
open CelerVerif
open scoped CelerVerif.Num

variable {α : Type} [Num α]

/-- `MscRange` (persistent per volume) -/
structure MscRange (α : Type) where
  rangeInit : Option α
  rangeFactor : α
  limitMin : α
deriving Repr, Inhabited

/-- `MscRange::operator bool` -/
def MscRange.valid (r : MscRange α) : Bool :=
  (match r.rangeInit with
   | none => true
   | some ri => Num.gt ri (0 : α))
  && Num.gt r.rangeFactor (0 : α) && Num.gt r.limitMin (0 : α)

structure MscScalars (α : Type) where
  rangeFactor : α
  lambdaLimit : α
  safetyFactor : α
  limitMinFix : α

/-- `celeritas::clamp(v, lo, hi)` -/
def clamp (v lo hi : α) : α := if Num.lt v lo then lo else if Num.lt hi v then hi else v

/-- `operator()(rng)` of both step-limit classes with finite `limit_` -/
def mscSample (maxStep limit limitMin z : α) : α :=
  if Num.le maxStep limit then maxStep
  else if Num.eq limit limitMin then limitMin
  else clamp (Num.fma z ((0.1 : α) * (limit - limitMin)) limit) limitMin maxStep

/-- … with `limit_` possibly +∞ -/
def mscSampleInf (maxStep : α) (limit : Option α) (limitMin z : α) : α :=
  match limit with
  | none => maxStep
  | some l => mscSample maxStep l limitMin z

/-- MscRange after the `UrbanMscSafetyStepLimit` constructor -/
def safetyRange (sc : MscScalars α) (plus onBoundary : Bool) (range mfp : α) (r0 : MscRange α)
    (limMinNew : α) : MscRange α :=
  if !r0.valid || onBoundary then
    let c : α := if plus then 0.84 else 0.75
    ⟨some (if plus then range else Num.max range mfp),
     if Num.gt mfp sc.lambdaLimit then
       sc.rangeFactor * (c + ((1 : α) - c) * mfp / sc.lambdaLimit)
     else sc.rangeFactor,
     limMinNew⟩
  else r0

/-- `limit_` of `UrbanMscSafetyStepLimit` -/
def safetyLimit (sc : MscScalars α) (range safety : α) (r : MscRange α) : α :=
  let ri : α := match r.rangeInit with
    | some x => x
    | none => range
  let l0 := if Num.lt safety range then Num.max (r.rangeFactor * ri) (sc.safetyFactor * safety)
            else range
  Num.max l0 r.limitMin

/-- `max_step_` of `UrbanMscSafetyStepLimit` (safety_plus rescales it) -/
def safetyMaxStep (plus : Bool) (physStep range : α) : α :=
  if plus && Num.gt range (1e-3 : α) then
    Num.min physStep ((0.35 : α) * range
      + (1e-3 : α) * ((1 : α) - (0.35 : α)) * ((2 : α) - (1e-3 : α) / range))
  else physStep

/-- `UrbanMscSafetyStepLimit{...}(rng)`: (true path, MscRange after) -/
def mscSafetyStepLimit (sc : MscScalars α) (plus onBoundary : Bool)
    (physStep range mfp safety : α) (r0 : MscRange α) (limMinNew z : α) : α × MscRange α :=
  let r := safetyRange sc plus onBoundary range mfp r0 limMinNew
  (mscSample (safetyMaxStep plus physStep range) (safetyLimit sc range safety r) r.limitMin z, r)

/-- MscRange after the `UrbanMscMinimalStepLimit` constructor -/
def minimalRange (sc : MscScalars α) (onBoundary : Bool) (range mfp : α) (r0 : MscRange α) :
    MscRange α :=
  let r1 : MscRange α := if !r0.valid then ⟨none, sc.rangeFactor, (10 : α) * sc.limitMinFix⟩ else r0
  if onBoundary then
    ⟨some (Num.max (r1.rangeFactor * Num.max range mfp) r1.limitMin), r1.rangeFactor, r1.limitMin⟩
  else r1

/-- `UrbanMscMinimalStepLimit{...}(rng)` -/
def mscMinimalStepLimit (sc : MscScalars α) (onBoundary : Bool) (physStep range mfp : α)
    (r0 : MscRange α) (z : α) : α × MscRange α :=
  let r := minimalRange sc onBoundary range mfp r0
  (mscSampleInf physStep r.rangeInit r.limitMin z, r)

/-- the true-path selection of `UrbanMsc::limit_step` incl. its early returns (`evaluated` =
    a step limiter was built: step > limit_min_fix and safety < helper.max_step()) -/
def mscTruePath (evaluated : Bool) (physStep limited : α) : α :=
  if evaluated then limited else physStep

/-- displacement length of `UrbanMscScatter`: `min(calcLen, (1 − safety_tol)·safety)`, applied only
    when it is at least `geom_limit` (`none` = no displacement) -/
def mscDisplacement (calcLen safety safetyTol geomLimit : α) : Option α :=
  let len := Num.min calcLen (((1 : α) - safetyTol) * safety)
  if Num.ge len geomLimit then some len else none

end CelerVerif.Step
