/-
Executable model (generic in `Num α`, random numbers from an explicit script) of the discrete
interaction samplers
  src/celeritas/em/interactor/KleinNishinaInteractor.hh, EPlusGGInteractor.hh,
  MollerBhabhaInteractor.hh, MuHadIonizationInteractor.hh (BetheBloch distribution),
  detail/IoniFinalStateHelper.hh, detail/BremFinalStateHelper.hh, BetheHeitlerInteractor.hh
  (E < 2 MeV branch in full; energy split for the screened branch), CoulombScatteringInteractor.hh
  (recoil bookkeeping), RayleighInteractor.hh (final state), LivermorePEInteractor.hh (bookkeeping),
  src/celeritas/em/distribution/{Moller,Bhabha,BetheBloch}EnergyDistribution.hh,
  TsaiUrbanDistribution.hh, src/celeritas/phys/InteractionUtils.hh, Interaction.hh,
  src/corecel/math/ArrayUtils.hh (`from_spherical`, `rotate`, `make_unit_vector`),
  src/celeritas/random/distribution/{Bernoulli,Reciprocal,UniformReal,InverseSquare,Isotropic}
  Distribution.hh, RejectionSampler.hh, src/corecel/data/StackAllocator.hh (`operator()`).
Expression trees (association, fma placement, order of draws) follow the C++ exactly so that the
`Float` instance is bit-identical.  A script that runs out is `none` (harness: ScriptExhausted).
No Mathlib import.
-/
import CelerVerif.Num.Basic

namespace CelerVerif.Interact
open CelerVerif
open scoped CelerVerif.Num

variable {α : Type} [Num α]

/-! ### random script -/

/-- canonical uniforms consumed front to back (`generate_canonical<real_type>(rng)`) -/
abbrev Script (α : Type) := List α

def draw : Script α → Option (α × Script α)
  | [] => none
  | u :: r => some (u, r)

/-! ### constants -/

/-- `constants::pi` (corecel/Constants.hh) -/
def pi : α := Num.ofSci 314159265358979323846 true 20
/-- `2 * constants::pi` -/
def twoPi : α := (2 : α) * pi
/-- `KleinNishinaInteractor::secondary_cutoff()` [MeV] -/
def knSecondaryCutoff : α := 1e-4
/-- `RealVecTraits<double>::min_accurate_sintheta()` -/
def minAccurateSintheta : α := 0.005

/-! ### elementary distributions -/

/-- `UniformRealDistribution(a, b)` sample: `fma(b - a, ξ, a)` -/
def uniformReal (a b u : α) : α := Num.fma (b - a) u a
/-- `BernoulliDistribution(p)(rng)`: `ξ < p` -/
def bernoulli (p u : α) : Bool := Num.lt u p
/-- `BernoulliDistribution(scaled_true, scaled_false).p()` -/
def bernoulliP2 (t f : α) : α := t / (t + f)
/-- `ReciprocalDistribution(a, b)` sample: `a * exp(log((1/a)*b) * ξ)` -/
def reciprocal (a b u : α) : α := a * Num.exp (Num.log (((1 : α) / a) * b) * u)
/-- `RejectionSampler(f, fmax)(rng)`: reject iff `f < fmax * ξ` -/
def rejection (f fmax u : α) : Bool := Num.lt f (fmax * u)
/-- `InverseSquareDistribution(a, b)` sample: `(a*b) / fma(b-a, ξ, a)` -/
def inverseSquare (a b u : α) : α := (a * b) / uniformReal a b u

/-! ### vectors: ArrayUtils.hh -/

/-- `make_unit_vector(v)`: `scale = 1 / norm(v)`, each element `*= scale` -/
def makeUnit (v : Vec3 α) : Vec3 α :=
  let s := (1 : α) / Vec3.norm v
  ⟨v.x * s, v.y * s, v.z * s⟩

/-- `from_spherical(costheta, phi)` -/
def fromSpherical (costheta phi : α) : Vec3 α :=
  let sintheta := Num.sqrt ((1 : α) - costheta * costheta)
  ⟨sintheta * Num.cos phi, sintheta * Num.sin phi, costheta⟩

/-- the (sinθ, cosφ, sinφ) decomposition of the rotation axis inside `rotate` -/
def rotAngles (rot : Vec3 α) : α × α × α :=
  let sintheta := Num.sqrt ((1 : α) - rot.z * rot.z)
  if Num.ge sintheta (minAccurateSintheta : α) then
    let inv := (1 : α) / sintheta
    (sintheta, rot.x * inv, rot.y * inv)
  else if Num.gt sintheta (0 : α) then
    -- normalise the x/y components (AS WRITTEN: sin φ = +sqrt(1 − cos²φ), the sign of y is
    -- lost); both components zero: numerically on the axis, sinθ := 0, arbitrary angle
    let rho := Num.sqrt (rot.x * rot.x + rot.y * rot.y)
    if Num.gt rho (0 : α) then
      let cosphi := rot.x / rho
      (sintheta, cosphi, Num.sqrt ((1 : α) - cosphi * cosphi))
    else ((0 : α), (1 : α), (0 : α))
  else
    (sintheta, (1 : α), (0 : α))

/-- `rotate(dir, rot)` before the final normalisation -/
def rotateRaw (dir rot : Vec3 α) : Vec3 α :=
  let (sintheta, cosphi, sinphi) := rotAngles rot
  ⟨(rot.z * dir.x + sintheta * dir.z) * cosphi - sinphi * dir.y,
   (rot.z * dir.x + sintheta * dir.z) * sinphi + cosphi * dir.y,
   (-sintheta) * dir.x + rot.z * dir.z⟩

/-- `rotate(dir, rot)` -/
def rotate (dir rot : Vec3 α) : Vec3 α := makeUnit (rotateRaw dir rot)

/-! ### InteractionUtils.hh -/

/-- `calc_exiting_direction({pInc, dInc}, {pOut, dOut})` before normalisation -/
def exitingRaw (pInc : α) (dInc : Vec3 α) (pOut : α) (dOut : Vec3 α) : Vec3 α :=
  ⟨dInc.x * pInc - dOut.x * pOut, dInc.y * pInc - dOut.y * pOut, dInc.z * pInc - dOut.z * pOut⟩

def calcExitingDirection (pInc : α) (dInc : Vec3 α) (pOut : α) (dOut : Vec3 α) : Vec3 α :=
  makeUnit (exitingRaw pInc dInc pOut dOut)

/-- `ExitingDirectionSampler{costheta, direction}(rng)` given its one uniform -/
def exitingDirection (costheta : α) (dir : Vec3 α) (u : α) : Vec3 α :=
  rotate (fromSpherical costheta (uniformReal (0 : α) (twoPi : α) u)) dir

/-! ### Interaction.hh / Secondary.hh / StackAllocator.hh -/

inductive Action | scattered | absorbed | unchanged | failed
deriving DecidableEq, Repr, Inhabited

/-- `Secondary`; `pid = none` is the invalid `ParticleId{}` -/
structure Secondary (α : Type) where
  pid : Option Nat
  energy : α
  dir : Vec3 α
deriving Inhabited

/-- `Interaction` (only the fields an action defines are meaningful) -/
structure Interaction (α : Type) where
  action : Action
  energy : α
  dir : Vec3 α
  secondaries : List (Secondary α)
  deposit : α
deriving Inhabited

/-- result of one interactor call against a scripted stream and an allocator of given
    capacity/size.  `failed` is `Interaction::from_failure()`: nothing else is defined. -/
inductive Outcome (α : Type) where
  | failed (allocSize : Nat)
  | exhausted
  | done (i : Interaction α) (allocSize : Nat) (rest : Script α)
deriving Inhabited

/-- `StackAllocator::operator()(count)`: `start = size; size += count; if start + count >
    capacity then (size = start; nullptr)`.  Returns the new size, `none` for `nullptr`. -/
def alloc (capacity size count : Nat) : Option Nat :=
  if size + count > capacity then none else some (size + count)

/-- particle ids of the fixture's `ParticleParams` (test/celeritas/phys/InteractorHostTestBase) -/
def pidElectron : Nat := 0
def pidPositron : Nat := 1
def pidGamma : Nat := 2

/-- `Secondary{}` (value-initialised) -/
def Secondary.empty : Secondary α := ⟨none, (0 : α), ⟨(0 : α), (0 : α), (0 : α)⟩⟩

/-! ### `ParticleTrackView` kinematics -/

/-- `momentum_sq()`: `ipow<2>(E) + 2 * m * E` -/
def momentumSq (energy mass : α) : α := energy * energy + (2 : α) * mass * energy
/-- `momentum()` -/
def momentum (energy mass : α) : α := Num.sqrt (momentumSq energy mass)
/-- `beta_sq()` -/
def betaSq (energy mass : α) : α :=
  let invGamma := mass / (energy + mass)
  (1 : α) - invGamma * invGamma
/-- `lorentz_factor()` -/
def lorentzFactor (energy mass : α) : α := (1 : α) + energy / mass

/-! ### Klein–Nishina -/

/-- quantities fixed before the rejection loop -/
structure KNSetup (α : Type) where
  k : α          -- inc_energy_per_mecsq
  eps0 : α       -- epsilon_0
  pF1 : α        -- choose_f1.p()
  eps0sq : α     -- ipow<2>(epsilon_0)

def knSetup (incEnergy invMass : α) : KNSetup α :=
  let k := incEnergy * invMass
  let eps0 := (1 : α) / ((1 : α) + (2 : α) * k)
  let eps0sq := eps0 * eps0
  ⟨k, eps0, bernoulliP2 (-(Num.log eps0)) ((0.5 : α) * ((1 : α) - eps0sq)), eps0sq⟩

/-- one trial of the loop body from its three uniforms: (ε, 1 − cos θ, reject?) -/
def knTrial (s : KNSetup α) (u1 u2 u3 : α) : α × α × Bool :=
  let (eps, epsSq) :=
    if bernoulli s.pF1 u1 then
      let eps := reciprocal (1 : α) s.eps0 u2
      (eps, eps * eps)
    else
      let epsSq := uniformReal s.eps0sq (1 : α) u2
      (Num.sqrt epsSq, epsSq)
  let omc := ((1 : α) - eps) / (eps * s.k)
  let sin2 := omc * ((2 : α) - omc)
  let rejectProb := eps * sin2 / ((1 : α) + epsSq)
  (eps, omc, bernoulli rejectProb u3)

/-- the `do … while` loop; `fuel` bounds the iterations by the script length -/
def knLoop (s : KNSetup α) : Nat → Script α → Option ((α × α) × Script α)
  | 0, _ => none
  | fuel + 1, u1 :: u2 :: u3 :: rest =>
    let t := knTrial s u1 u2 u3
    if t.2.2 then knLoop s fuel rest else some ((t.1, t.2.1), rest)
  | _ + 1, _ => none

/-- everything after the loop: ε, 1 − cos θ and the azimuthal uniform are given -/
def knFinal (incEnergy : α) (incDir : Vec3 α) (eps omc uPhi : α) : Interaction α :=
  let outEnergy := eps * incEnergy
  let outDir := exitingDirection ((1 : α) - omc) incDir uPhi
  let secEnergy := incEnergy - outEnergy
  if Num.lt secEnergy (knSecondaryCutoff : α) then
    ⟨.scattered, outEnergy, outDir, [Secondary.empty], secEnergy⟩
  else
    ⟨.scattered, outEnergy, outDir,
      [⟨some pidElectron, secEnergy, calcExitingDirection incEnergy incDir outEnergy outDir⟩],
      (0 : α)⟩

/-- `KleinNishinaInteractor::operator()` -/
def kleinNishina (capacity size : Nat) (incEnergy invMass : α) (incDir : Vec3 α)
    (script : Script α) : Outcome α :=
  match alloc capacity size 1 with
  | none => .failed size
  | some size' =>
    match knLoop (knSetup incEnergy invMass) (script.length + 1) script with
    | none => .exhausted
    | some ((eps, omc), rest) =>
      match rest with
      | [] => .exhausted
      | uPhi :: rest => .done (knFinal incEnergy incDir eps omc uPhi) size' rest

/-! ### e⁺ annihilation in flight / at rest -/

/-- loop of `EPlusGGInteractor`: sample ε, reject with probability
    `ε − (2(τ+1)ε − 1)/(ε τ₂²)` -/
def ggRejectProb (tau tau2 eps : α) : α :=
  eps - ((2 : α) * (tau + (1 : α)) * eps - (1 : α)) / (eps * (tau2 * tau2))

def ggLoop (tau tau2 lo hi : α) : Nat → Script α → Option (α × Script α)
  | 0, _ => none
  | fuel + 1, u1 :: u2 :: rest =>
    let eps := reciprocal lo hi u1
    if bernoulli (ggRejectProb tau tau2 eps) u2 then ggLoop tau tau2 lo hi fuel rest
    else some (eps, rest)
  | _ + 1, _ => none

/-- in-flight final state from the sampled ε and the azimuthal uniform -/
def ggFinal (incEnergy mass : α) (incDir : Vec3 α) (eps uPhi : α) : Interaction α :=
  let tau := incEnergy / mass
  let tau2 := tau + (2 : α)
  let cost := (eps * tau2 - (1 : α)) / (eps * Num.sqrt (tau * tau2))
  let totalEnergy := incEnergy + (2 : α) * mass
  let gammaEnergy := eps * totalEnergy
  let eplusMoment := Num.sqrt (incEnergy * totalEnergy)
  let d0 := exitingDirection cost incDir uPhi
  -- as written: second argument is {inc_energy_, inc_direction_}
  let d1 := calcExitingDirection eplusMoment incDir incEnergy incDir
  ⟨.absorbed, (0 : α), incDir,
    [⟨some pidGamma, gammaEnergy, d0⟩, ⟨some pidGamma, totalEnergy - gammaEnergy, d1⟩], (0 : α)⟩

/-- at-rest final state from the two uniforms of `IsotropicDistribution` -/
def ggAtRest (mass : α) (incDir : Vec3 α) (u1 u2 : α) : Interaction α :=
  let costheta := uniformReal (-(1 : α)) (1 : α) u1
  let phi := uniformReal (0 : α) (twoPi : α) u2
  let d0 := fromSpherical costheta phi
  ⟨.absorbed, (0 : α), incDir,
    [⟨some pidGamma, mass, d0⟩, ⟨some pidGamma, mass, Vec3.neg d0⟩], (0 : α)⟩

/-- `EPlusGGInteractor::operator()` -/
def ePlusGG (capacity size : Nat) (incEnergy mass : α) (incDir : Vec3 α)
    (script : Script α) : Outcome α :=
  match alloc capacity size 2 with
  | none => .failed size
  | some size' =>
    if Num.eq incEnergy (0 : α) then
      match script with
      | u1 :: u2 :: rest => .done (ggAtRest mass incDir u1 u2) size' rest
      | _ => .exhausted
    else
      let tau := incEnergy / mass
      let tau2 := tau + (2 : α)
      let sqgrate := Num.sqrt (tau / tau2) * (0.5 : α)
      match ggLoop tau tau2 ((0.5 : α) - sqgrate) ((0.5 : α) + sqgrate) (script.length + 1) script with
      | none => .exhausted
      | some (eps, rest) =>
        match rest with
        | [] => .exhausted
        | uPhi :: rest => .done (ggFinal incEnergy mass incDir eps uPhi) size' rest

/-! ### ionisation: IoniFinalStateHelper, Møller, Bhabha, Bethe–Bloch -/

/-- `IoniFinalStateHelper::operator()` given the electron energy and the azimuthal uniform -/
def ioniFinal (incEnergy : α) (incDir : Vec3 α) (incMomentum incMass elEnergy elMass : α)
    (uPhi : α) : Interaction α :=
  let mom := Num.sqrt (elEnergy * (elEnergy + (2 : α) * elMass))
  let costheta := elEnergy * (incEnergy + incMass + elMass) / (mom * incMomentum)
  let secDir := exitingDirection costheta incDir uPhi
  ⟨.scattered, incEnergy - elEnergy, calcExitingDirection incMomentum incDir mom secDir,
    [⟨some pidElectron, elEnergy, secDir⟩], (0 : α)⟩

/-- `MollerEnergyDistribution::calc_g_fraction` -/
def mollerG (gamma eps : α) : α :=
  let twoGammaTerm := ((2 : α) * gamma - (1 : α)) / (gamma * gamma)
  let cf := (1 : α) - eps
  (1 : α) - twoGammaTerm * eps
    + (eps * eps) * ((1 : α) - twoGammaTerm + ((1 : α) - twoGammaTerm * cf) / (cf * cf))

/-- `BhabhaEnergyDistribution::calc_g_fraction(epsilon_min, epsilon_max)` -/
def bhabhaG (gamma epsMin epsMax : α) : α :=
  let y := (1 : α) / ((1 : α) + gamma)
  let ySq := y * y
  let om2y := (1 : α) - (2 : α) * y
  let b1 := (2 : α) - ySq
  let b2 := om2y * ((3 : α) + ySq)
  let b4 := om2y * om2y * om2y
  let b3 := om2y * om2y + b4
  let betaSq := (1 : α) - ((1 : α) / (gamma * gamma))
  (1 : α)
    + (((epsMax * epsMax) * (epsMax * epsMax)) * b4 - (epsMin * epsMin * epsMin) * b3
        + (epsMax * epsMax) * b2 - epsMin * b1)
      * betaSq

/-- common loop of the Møller / Bhabha energy distributions: ε = 1 / U(1/εmax, 1/εmin),
    rejected by `RejectionSampler(g ε, gDenom)` -/
def mbLoop (g : α → α) (gDenom invMax invMin : α) : Nat → Script α → Option (α × Script α)
  | 0, _ => none
  | fuel + 1, u1 :: u2 :: rest =>
    let eps := (1 : α) / uniformReal invMax invMin u1
    if rejection (g eps) gDenom u2 then mbLoop g gDenom invMax invMin fuel rest
    else some (eps, rest)
  | _ + 1, _ => none

/-- `MollerBhabhaInteractor::operator()` -/
def mollerBhabha (capacity size : Nat) (isElectron : Bool) (incEnergy mass cutoff : α)
    (incDir : Vec3 α) (script : Script α) : Outcome α :=
  match alloc capacity size 1 with
  | none => .failed size
  | some size' =>
    let minFrac := cutoff / incEnergy
    let gamma := (1 : α) + incEnergy / mass
    let maxFrac : α := if isElectron then 0.5 else 1
    let g : α → α := if isElectron then mollerG gamma else fun e => bhabhaG gamma e e
    let gDenom := if isElectron then mollerG gamma maxFrac else bhabhaG gamma minFrac maxFrac
    match mbLoop g gDenom ((1 : α) / maxFrac) ((1 : α) / minFrac) (script.length + 1) script with
    | none => .exhausted
    | some (eps, rest) =>
      match rest with
      | [] => .exhausted
      | uPhi :: rest =>
        .done (ioniFinal incEnergy incDir (momentum incEnergy mass) mass (incEnergy * eps) mass
                uPhi) size' rest

/-- `detail::calc_max_secondary_energy(particle, electron_mass)` (em/distribution/detail/
    Utils.hh): `2 m τ(τ+2) / (1 + 2 (τ+1) r + r²)`, r = m/M, τ = E/M -/
def maxSecondaryEnergy (incEnergy incMass elMass : α) : α :=
  let massRatio := elMass / incMass
  let tau := incEnergy / incMass
  (2 : α) * elMass * tau * (tau + (2 : α))
    / ((1 : α) + (2 : α) * (tau + (1 : α)) * massRatio + massRatio * massRatio)

/-- `BetheBlochEnergyDistribution::operator()` loop -/
def bbLoop (betaSq minE maxE : α) : Nat → Script α → Option (α × Script α)
  | 0, _ => none
  | fuel + 1, u1 :: u2 :: rest =>
    let e := inverseSquare minE maxE u1
    if rejection ((1 : α) - (betaSq / maxE) * e) (1 : α) u2 then bbLoop betaSq minE maxE fuel rest
    else some (e, rest)
  | _ + 1, _ => none

/-- `MuHadIonizationInteractor<BetheBlochEnergyDistribution>::operator()` -/
def muHadBetheBloch (capacity size : Nat) (incEnergy incMass elMass cutoff : α)
    (incDir : Vec3 α) (script : Script α) : Outcome α :=
  let maxE := maxSecondaryEnergy incEnergy incMass elMass
  if Num.ge cutoff maxE then
    .done ⟨.unchanged, (0 : α), incDir, [], (0 : α)⟩ size script
  else
    match alloc capacity size 1 with
    | none => .failed size
    | some size' =>
      match bbLoop (betaSq incEnergy incMass) cutoff maxE (script.length + 1) script with
      | none => .exhausted
      | some (e, rest) =>
        match rest with
        | [] => .exhausted
        | uPhi :: rest =>
          .done (ioniFinal incEnergy incDir (momentum incEnergy incMass) incMass e elMass uPhi)
            size' rest

/-! ### bremsstrahlung final state -/

/-- `TsaiUrbanDistribution::operator()` -/
def tsaiUrbanLoop (umax : α) : Nat → Script α → Option (α × Script α)
  | 0, _ => none
  | fuel + 1, u1 :: u2 :: u3 :: rest =>
    let uu := -(Num.log (u1 * u2))
    let u := uu * (if bernoulli (0.25 : α) u3 then (1.6 : α) else (1.6 : α) / (3 : α))
    if Num.gt u umax then tsaiUrbanLoop umax fuel rest
    else some ((1 : α) - (2 : α) * ((u / umax) * (u / umax)), rest)
  | _ + 1, _ => none

/-- `TsaiUrbanDistribution(energy, mass)`: `umax = 2 (1 + E/m)` -/
def tsaiUrbanUmax (energy mass : α) : α := (2 : α) * ((1 : α) + energy / mass)

/-- `BremFinalStateHelper::operator()` -/
def bremFinal (incEnergy : α) (incDir : Vec3 α) (incMomentum gammaEnergy costheta uPhi : α) :
    Interaction α :=
  let gDir := exitingDirection costheta incDir uPhi
  ⟨.scattered, incEnergy - gammaEnergy, calcExitingDirection incMomentum incDir gammaEnergy gDir,
    [⟨some pidGamma, gammaEnergy, gDir⟩], (0 : α)⟩

/-- the e± bremsstrahlung interactors (Seltzer–Berger, relativistic, combined) after their
    table-driven energy sampler returned `gammaEnergy`: Tsai–Urban polar angle, then
    `BremFinalStateHelper`.  The energy sampler itself is NOT modelled (imported tables): only
    its contract `cutoff ≤ gammaEnergy ≤ incEnergy` is used by the theorems. -/
def bremTail (incEnergy mass : α) (incDir : Vec3 α) (gammaEnergy : α) (script : Script α) :
    Option (Interaction α × Script α) :=
  match tsaiUrbanLoop (tsaiUrbanUmax incEnergy mass) (script.length + 1) script with
  | none => none
  | some (cost, rest) =>
    match rest with
    | [] => none
    | uPhi :: rest =>
      some (bremFinal incEnergy incDir (momentum incEnergy mass) gammaEnergy cost uPhi, rest)

/-! ### Bethe–Heitler pair production -/

/-- energies of (electron, positron) from ε before the random swap -/
def bhSplit (incEnergy mass eps : α) : α × α :=
  (((1 : α) - eps) * incEnergy - mass, eps * incEnergy - mass)

/-- final state from ε: swap uniform, azimuth uniform, then two Tsai–Urban polar angles -/
def bhTail (incEnergy mass : α) (incDir : Vec3 α) (eps : α) (script : Script α) :
    Option (Interaction α × Script α) :=
  match script with
  | uSwap :: uPhi :: rest =>
    let (e0, e1) := bhSplit incEnergy mass eps
    let (e0, e1) := if bernoulli (0.5 : α) uSwap then (e1, e0) else (e0, e1)
    let phi := uniformReal (0 : α) (twoPi : α) uPhi
    match tsaiUrbanLoop (tsaiUrbanUmax e0 mass) (rest.length + 1) rest with
    | none => none
    | some (cost0, rest) =>
      let d0 := rotate (fromSpherical cost0 phi) incDir
      match tsaiUrbanLoop (tsaiUrbanUmax e1 mass) (rest.length + 1) rest with
      | none => none
      | some (cost1, rest) =>
        let d1 := rotate (fromSpherical cost1 (phi + (pi : α))) incDir
        some (⟨.absorbed, (0 : α), incDir,
                [⟨some pidElectron, e0, d0⟩, ⟨some pidPositron, e1, d1⟩], (0 : α)⟩, rest)
  | _ => none

/-- `BetheHeitlerInteractor::operator()` for `inc_energy < 2 MeV` (uniform ε on [ε₀, ½]) -/
def betheHeitlerLow (capacity size : Nat) (incEnergy mass : α) (incDir : Vec3 α)
    (script : Script α) : Outcome α :=
  match alloc capacity size 2 with
  | none => .failed size
  | some size' =>
    match script with
    | [] => .exhausted
    | uEps :: rest =>
      let eps0 := mass / incEnergy
      let eps := uniformReal eps0 (0.5 : α) uEps
      match bhTail incEnergy mass incDir eps rest with
      | none => .exhausted
      | some (i, rest) => .done i size' rest

/-! ### elastic / absorbing models: bookkeeping only -/

/-- `CoulombScatteringInteractor::calc_recoil_energy(cos_theta)` -/
def coulombRecoil (incEnergy mass targetMass cosTheta : α) : α :=
  let momsq := momentumSq incEnergy mass
  let projMass := mass + incEnergy
  momsq * ((1 : α) - cosTheta) / (targetMass + projMass * ((1 : α) - cosTheta))

/-- `CoulombScatteringInteractor::operator()` after `WentzelDistribution` returned `cosTheta` -/
def coulombFinal (incEnergy mass targetMass : α) (incDir : Vec3 α) (cosTheta uPhi : α) :
    Interaction α :=
  let recoil := coulombRecoil incEnergy mass targetMass cosTheta
  ⟨.scattered, incEnergy - recoil, exitingDirection cosTheta incDir uPhi, [], recoil⟩

/-- `RayleighInteractor::operator()` after the form-factor loop returned `cost` -/
def rayleighFinal (incEnergy : α) (incDir : Vec3 α) (cost uPhi : α) : Interaction α :=
  ⟨.scattered, incEnergy, exitingDirection cost incDir uPhi, [], (0 : α)⟩

/-- `LivermorePEInteractor::operator()` bookkeeping: shell sampled (`binding = none`: all shells
    above the incident energy), photo-electron direction `eDir`, relaxation output
    (`relax = none`: relaxation disabled; else the emitted secondaries and their energy sum) -/
def livermoreFinal (incEnergy : α) (incDir : Vec3 α) (binding : Option α) (eDir : Vec3 α)
    (relax : Option (List (Secondary α) × α)) : Interaction α :=
  match binding with
  | none => ⟨.absorbed, (0 : α), incDir, [], incEnergy⟩
  | some b =>
    let electron : Secondary α := ⟨some pidElectron, incEnergy - b, eDir⟩
    match relax with
    | none => ⟨.absorbed, (0 : α), incDir, [electron], b⟩
    | some (secs, eSum) => ⟨.absorbed, (0 : α), incDir, electron :: secs, b - eSum⟩


/-! ### atomic relaxation (AtomicRelaxation.hh) -/

/-- `AtomicRelaxTransition`: originating shell, Auger shell (`none` = invalid id: radiative),
    probability, energy.  Shell ids ≥ number of shells have no transition data. -/
structure Transition (α : Type) where
  initial : Nat
  auger : Option Nat
  prob : α
  energy : α
deriving Inhabited

/-- `sample_transition`: `accum = -ξ; accum += pᵢ; if accum > 0 return i` -/
def sampleTransitionGo : α → List (Transition α) → Option (Transition α)
  | _, [] => none
  | accum, t :: r =>
    let a := accum + t.prob
    if Num.gt a (0 : α) then some t else sampleTransitionGo a r

def sampleTransition (ts : List (Transition α)) (u : α) : Option (Transition α) :=
  sampleTransitionGo (-u) ts

/-- a relaxation secondary: isotropic direction from two uniforms -/
def relaxSecondary (pid : Nat) (energy u1 u2 : α) : Secondary α :=
  ⟨some pid, energy,
    fromSpherical (uniformReal (-(1 : α)) (1 : α) u1) (uniformReal (0 : α) (twoPi : α) u2)⟩

/-- the `while (!vacancies.empty())` loop of `AtomicRelaxation::operator()`.  `stack` is the
    MiniStack of vacancies (top first), `secs`/`sum` the secondaries written so far and
    `sum_energy`.  Auger transitions are compared with the ELECTRON cut, radiative ones with the
    GAMMA cut; `sum_energy` is accumulated only when a secondary is emitted.  `fuel` bounds the
    iterations (the driver passes 3·|script| + |stack| + 4, enough for any script). -/
def relaxLoop (shells : List (List (Transition α))) (ecut gcut : α) :
    Nat → List Nat → List (Secondary α) → α → Script α →
    Option (List (Secondary α) × α × Script α)
  | 0, _, _, _, _ => none
  | _ + 1, [], secs, sum, s => some (secs, sum, s)
  | fuel + 1, v :: stack, secs, sum, s =>
    match shells[v]? with
    | none => relaxLoop shells ecut gcut fuel stack secs sum s
    | some ts =>
      match s with
      | [] => none
      | u :: s =>
        match sampleTransition ts u with
        | none => relaxLoop shells ecut gcut fuel stack secs sum s
        | some t =>
          match t.auger with
          | some a =>
            if Num.ge t.energy ecut then
              match s with
              | u1 :: u2 :: s =>
                relaxLoop shells ecut gcut fuel (a :: t.initial :: stack)
                  (secs ++ [relaxSecondary pidElectron t.energy u1 u2]) (sum + t.energy) s
              | _ => none
            else relaxLoop shells ecut gcut fuel (a :: t.initial :: stack) secs sum s
          | none =>
            if Num.ge t.energy gcut then
              match s with
              | u1 :: u2 :: s =>
                relaxLoop shells ecut gcut fuel (t.initial :: stack)
                  (secs ++ [relaxSecondary pidGamma t.energy u1 u2]) (sum + t.energy) s
              | _ => none
            else relaxLoop shells ecut gcut fuel (t.initial :: stack) secs sum s

/-- `AtomicRelaxation::operator()`: (secondaries, `result.energy`, unread script) -/
def atomicRelaxation (shells : List (List (Transition α))) (ecut gcut : α) (shell : Nat)
    (script : Script α) : Option (List (Secondary α) × α × Script α) :=
  relaxLoop shells ecut gcut (3 * script.length + 5) [shell] [] (0 : α) script

/-! ### muon bremsstrahlung (MuBremsstrahlungInteractor.hh, xs/MuBremsDiffXsCalculator.hh) -/

/-- element data and compile-time constants entering the differential cross section; they are
    ORACLE INPUTS (the harness prints the values the real code uses: `pow`, `cbrt` are not in
    `Num`): `c0 = 16·α·N_A`, `re = r_electron`, `sqrtEuler = sqrt(e)`, `dN = D'_n`,
    `invCbrtZ = 1/Z^{1/3}`, `z` = atomic number, `amass` = atomic mass [amu], `b`, `bPrime` -/
structure MuBremsConsts (α : Type) where
  c0 : α
  re : α
  sqrtEuler : α
  dN : α
  invCbrtZ : α
  z : α
  amass : α
  b : α
  bPrime : α

/-- `clamp_to_nonneg` -/
def clampNonneg (v : α) : α := if Num.lt v (0 : α) then (0 : α) else v

/-- `MuBremsDiffXsCalculator::operator()(energy)` -/
def muBremsDcs (c : MuBremsConsts α) (incE incM me k : α) : α :=
  if Num.ge k incE then (0 : α) else
  let total := incE + incM
  let massSq := incM * incM
  let v := k / total
  let delta := (0.5 : α) * massSq * v / (total - k)
  let phiN := clampNonneg (Num.log (c.b * c.invCbrtZ * (incM + delta * (c.dN * c.sqrtEuler - (2 : α)))
                / (c.dN * (me + delta * c.sqrtEuler * c.b * c.invCbrtZ))))
  let eMaxPrime := total / ((1 : α) + (0.5 : α) * massSq / (me * total))
  let phiE :=
    if Num.lt k eMaxPrime then
      let iz2 := c.invCbrtZ * c.invCbrtZ
      clampNonneg (Num.log (c.bPrime * iz2 * incM
        / (((1 : α) + delta * incM / ((me * me) * c.sqrtEuler))
           * (me + delta * c.sqrtEuler * c.bPrime * iz2))))
    else (0 : α)
  c.c0 * ((me * c.re) * (me * c.re)) * c.z * (c.z * phiN + phiE)
    * ((1 : α) - v * ((1 : α) - (0.75 : α) * v))
    / ((3 : α) * massSq * k * c.amass)

/-- energy loop: `k = ReciprocalDistribution(cut, T)`, rejected by
    `RejectionSampler(k · dcs(k), envelope)`; `dcs` is a parameter -/
def muBremsLoop (dcs : α → α) (cut incE envelope : α) : Nat → Script α → Option (α × Script α)
  | 0, _ => none
  | fuel + 1, u1 :: u2 :: rest =>
    let k := reciprocal cut incE u1
    if rejection (k * dcs k) envelope u2 then muBremsLoop dcs cut incE envelope fuel rest
    else some (k, rest)
  | _ + 1, _ => none

/-- `sample_cos_theta`: the argument `a` of `sqrt(a / (1 − a))` … -/
def muBremsAngleArg (incE incM k u : α) : α :=
  let gamma := lorentzFactor incE incM
  let m := Num.min (1.0 : α) (gamma * incM / k - (1 : α))
  let r := gamma * (pi : α) * (0.5 : α) * m
  let rMaxSq := r * r
  u * rMaxSq / ((1 : α) + rMaxSq)

/-- … and the cosine -/
def muBremsCosTheta (incE incM k u : α) : α :=
  let a := muBremsAngleArg incE incM k u
  Num.cos (Num.sqrt (a / ((1 : α) - a)) / lorentzFactor incE incM)

/-- `MuBremsstrahlungInteractor::operator()` with the cross section as a parameter -/
def muBremsWith (dcs : α → α) (capacity size : Nat) (incE incM cut : α) (incDir : Vec3 α)
    (script : Script α) : Outcome α :=
  match alloc capacity size 1 with
  | none => .failed size
  | some size' =>
    let envelope := cut * dcs cut
    match muBremsLoop dcs cut incE envelope (script.length + 1) script with
    | none => .exhausted
    | some (k, rest) =>
      match rest with
      | uc :: uPhi :: rest =>
        .done (bremFinal incE incDir (momentum incE incM) k (muBremsCosTheta incE incM k uc) uPhi)
          size' rest
      | _ => .exhausted

def muBrems (c : MuBremsConsts α) (capacity size : Nat) (incE incM me cut : α) (incDir : Vec3 α)
    (script : Script α) : Outcome α :=
  muBremsWith (muBremsDcs c incE incM me) capacity size incE incM cut incDir script

/-! ### Rayleigh scattering (RayleighInteractor.hh): form-factor sampling -/

/-- `fastpow(a, b) = exp(b · log a)` -/
def fastpow (a b : α) : α := Num.exp (b * Num.log a)
/-- `RayleighInteractor::fit_slice()` -/
def fitSlice : α := 0.02

/-- per-element fit parameters `a, b, n` (three terms each) -/
structure RayleighParams (α : Type) where
  a : Vec3 α
  b : Vec3 α
  n : Vec3 α

/-- `evaluate_weight_and_prob`: (factor, weight, prob); `k1 = centimeter/(c·h)`,
    `k2` = MeV in native units (oracle constants) -/
def rayleighInput (p : RayleighParams α) (k1 k2 incE : α) : α × Vec3 α × Vec3 α :=
  let f := k1 * (incE * k2)
  let factor := f * f
  let x := Vec3.axpy factor p.b p.b
  let w (xi ni : α) : α :=
    if Num.gt xi (fitSlice : α) then (1 : α) - fastpow ((1 : α) + xi) (-ni)
    else ni * xi * ((1 : α) - (ni - (1 : α)) / (2 : α) * xi * ((1 : α) - (ni - (2 : α)) / (3 : α) * xi))
  let weight : Vec3 α := ⟨w x.x p.n.x, w x.y p.n.y, w x.z p.n.z⟩
  let prob : Vec3 α := ⟨weight.x * p.a.x / (p.b.x * p.n.x), weight.y * p.a.y / (p.b.y * p.n.y),
                        weight.z * p.a.z / (p.b.z * p.n.z)⟩
  let invSum := (1 : α) / (prob.x + prob.y + prob.z)
  (factor, weight, Vec3.axpy invSum prob ⟨(0 : α), (0 : α), (0 : α)⟩)

/-- `make_selector(prob, 3)(rng)` -/
def select3 (prob : Vec3 α) (u : α) : Nat :=
  let accum := (-(1 : α)) * u + prob.x
  if Num.gt accum (0 : α) then 0
  else if Num.gt (accum + prob.y) (0 : α) then 1 else 2

/-- the sampled `x` (form-factor variable) from `y = w · ξ` -/
def rayleighX (ninv y : α) : α :=
  if Num.lt y (fitSlice : α) then
    y * ninv * ((1 : α) + (0.5 : α) * (ninv + (1 : α)) * y * ((1 : α) - (ninv + (2 : α)) * y / (3 : α)))
  else fastpow ((1 : α) - y) (-ninv) - (1 : α)

/-- one trial of the loop: (cos θ, repeat?) -/
def rayleighTrial (p : RayleighParams α) (factor : α) (weight prob : Vec3 α) (u1 u2 u3 : α) :
    α × Bool :=
  let i := select3 prob u1
  let w := weight.get i
  let ninv := (1 : α) / p.n.get i
  let b := p.b.get i
  let x := rayleighX ninv (w * u2)
  let cost := (1 : α) - (2 : α) * x / (b * factor)
  (cost, Num.gt ((2 : α) * u3) ((1 : α) + cost * cost) || Num.lt cost (-(1 : α)))

def rayleighLoop (p : RayleighParams α) (factor : α) (weight prob : Vec3 α) :
    Nat → Script α → Option (α × Script α)
  | 0, _ => none
  | fuel + 1, u1 :: u2 :: u3 :: rest =>
    let t := rayleighTrial p factor weight prob u1 u2 u3
    if t.2 then rayleighLoop p factor weight prob fuel rest else some (t.1, rest)
  | _ + 1, _ => none

/-- `RayleighInteractor::operator()` (no secondaries, no allocation) -/
def rayleigh (p : RayleighParams α) (k1 k2 incE : α) (incDir : Vec3 α) (script : Script α) :
    Option (Interaction α × Script α) :=
  let (factor, weight, prob) := rayleighInput p k1 k2 incE
  match rayleighLoop p factor weight prob (script.length + 1) script with
  | none => none
  | some (cost, rest) =>
    match rest with
    | [] => none
    | uPhi :: rest => some (rayleighFinal incE incDir cost uPhi, rest)

/-! ### formulas of table-driven samplers (modelled for the theorems; their rejection functions
    — SB tables, RB/LPM cross section, screening + LPM functions — are NOT modelled) -/

/-- photon-energy proposal of `RBEnergySampler` and `SBEnergyDistHelper`:
    `k = sqrt(ReciprocalDistribution(k_min² + k_dc², k_max² + k_dc²)(ξ) − k_dc²)` -/
def bremsProposal (kmin kmax dc u : α) : α :=
  Num.sqrt (reciprocal (kmin * kmin + dc) (kmax * kmax + dc) u - dc)

/-- `RBEnergySampler::operator()` loop with the cross section and its maximum as parameters -/
def rbEnergyLoop (dxs : α → α) (maxv kmin kmax dc : α) : Nat → Script α → Option (α × Script α)
  | 0, _ => none
  | fuel + 1, u1 :: u2 :: rest =>
    let k := bremsProposal kmin kmax dc u1
    if rejection (dxs k) maxv u2 then rbEnergyLoop dxs maxv kmin kmax dc fuel rest
    else some (k, rest)
  | _ + 1, _ => none

/-- Bethe–Heitler above 2 MeV: ε sampled from f₁ (`c = cbrt(ξ)`, oracle value) … -/
def bhEpsF1 (epsMin c : α) : α := (0.5 : α) - ((0.5 : α) - epsMin) * c
/-- … or from f₂ -/
def bhEpsF2 (epsMin u : α) : α := epsMin + ((0.5 : α) - epsMin) * u

/-! ### the property's own bookkeeping -/

/-- Σ kinetic energies of the secondaries, + 2 m_e c² per positron -/
def secondaryEnergy (mass : α) : List (Secondary α) → α
  | [] => (0 : α)
  | s :: r =>
    (s.energy + (if s.pid == some pidPositron then (2 : α) * mass else (0 : α)))
      + secondaryEnergy mass r

/-- outgoing energy of an interaction (the absorbed primary carries none) -/
def Interaction.outEnergy (i : Interaction α) : α :=
  match i.action with
  | .absorbed => (0 : α)
  | _ => i.energy

end CelerVerif.Interact
