/- Line protocol for the algorithm model (C++ side: harness/algo.cc).

   <op> [scalar args] [: list [: list]]      integers in decimal or 0x-hex, optional leading '-'
   comparators C: less | greater | key       (key: elements are indices into the trailing key list)
   predicates  P t: lt t | ge t | odd t      (x < t, x >= t, x odd)
   answers: `ok …`, `precond` (well-formed but outside the modelled preconditions), `bad-op`.
-/
import CelerVerif.Model.Algo
import CelerVerif.Model.Util

namespace CelerVerif.Algo
open CelerVerif.Util

def parseNatTok (s : String) : Option Nat :=
  if s.length > 20 then none
  else if s.startsWith "0x" then parseHex (s.drop 2).toString
  else if s.isEmpty then none
  else s.toList.foldl (fun acc c => match acc with
    | some a => if '0' ≤ c ∧ c ≤ '9' then some (a * 10 + (c.toNat - '0'.toNat)) else none
    | none => none) (some 0)

def parseIntTok (s : String) : Option Int :=
  if s.startsWith "-" then (parseNatTok (s.drop 1).toString).map (fun n => - (Int.ofNat n))
  else (parseNatTok s).map Int.ofNat

def parseAll {γ : Type} (f : String → Option γ) : List String → Option (List γ)
  | [] => some []
  | w :: ws => match f w, parseAll f ws with
    | some x, some xs => some (x :: xs)
    | _, _ => none

/-- split a token list at the `:` tokens -/
def sections (ws : List String) : List (List String) :=
  let (cur, acc) := ws.foldl (fun (st : List String × List (List String)) w =>
    if w == ":" then ([], st.1.reverse :: st.2) else (w :: st.1, st.2)) ([], [])
  (cur.reverse :: acc).reverse

def showInts (xs : List Int) : String := " ".intercalate (xs.map toString)
def showNats (xs : List Nat) : String := " ".intercalate (xs.map toString)
def okInts (xs : List Int) : String := if xs.isEmpty then "ok" else "ok " ++ showInts xs
def okNats (xs : List Nat) : String := if xs.isEmpty then "ok" else "ok " ++ showNats xs

/-- values are restricted to what the harness holds in a `long long` without overflow -/
def small (x : Int) : Bool := decide (-(2 : Int) ^ 62 ≤ x) && decide (x ≤ 2 ^ 62)

/-- comparator from its name, the element list and the optional key list -/
def mkLt (c : String) (xs : List Int) (keys : Option (List Int)) :
    Option (Int → Int → Bool) :=
  match c, keys with
  | "less", none => some (fun a b => decide (a < b))
  | "greater", none => some (fun a b => decide (a > b))
  | "key", some ks =>
    if xs.all (fun x => decide (0 ≤ x) && decide (x.toNat < ks.length)) then
      let ka := ks.toArray
      some (fun a b => decide (ka[a.toNat]! < ka[b.toNat]!))
    else none
  | _, _ => none

def mkPred (p : String) (t : Int) : Option (Int → Bool) :=
  match p with
  | "lt" => some (fun x => decide (x < t))
  | "ge" => some (fun x => decide (x ≥ t))
  | "odd" => some (fun x => x % 2 != 0)
  | _ => none

def isSortedBy (lt : Int → Int → Bool) : List Int → Bool
  | [] => true
  | [_] => true
  | x :: y :: r => !lt y x && isSortedBy lt (y :: r)

/-- element list + optional key list from the sections after the head -/
def getLists (secs : List (List String)) : Option (List Int × Option (List Int)) :=
  match secs with
  | [xs] => (parseAll parseIntTok xs).bind fun l => if l.all small then some (l, none) else none
  | [xs, ks] =>
    match parseAll parseIntTok xs, parseAll parseIntTok ks with
    | some l, some k => if l.all small && k.all small then some (l, some k) else none
    | _, _ => none
  | _ => none

def limitOut (lim : Nat) (xs : List Int) : String :=
  if xs.length > lim then okInts (xs.take lim) ++ " ..." else okInts xs

def prodList (l : List Nat) : Nat := l.foldl (· * ·) 1

/-- ops with a comparator and an element list -/
def cmpOp (op : String) (args : List String) (xs : List Int) (keys : Option (List Int))
    (c : String) : String :=
  match mkLt c xs keys with
  | none => "bad-op"
  | some lt =>
    let a := xs.toArray
    -- a scalar "value" argument for a key comparator is itself an index into the keys
    let valOk (v : Int) : Bool := match keys with
      | some ks => decide (0 ≤ v) && decide (v.toNat < ks.length)
      | none => small v
    match op, args.map parseIntTok with
    | "sort", [] => okInts (heapsort lt a).toList
    | "psort", [some m] =>
      if 0 ≤ m ∧ m.toNat ≤ a.size then okInts (partialSort lt a m.toNat).toList else "precond"
    | "make_heap", [] => okInts (makeHeap lt a a.size).toList
    | "sort_heap", [] => okInts (sortHeap lt a a.size).toList
    | "sift_down", [some len, some start] =>
      if 0 ≤ start ∧ start < len ∧ len.toNat ≤ a.size then
        okInts (siftDown lt a len.toNat start.toNat).toList
      else "precond"
    | "lower_bound", [some v] => if valOk v then s!"ok {lowerBound lt a v}" else "precond"
    | "upper_bound", [some v] => if valOk v then s!"ok {upperBound lt a v}" else "precond"
    | "lower_bound_linear", [some v] =>
      if valOk v then s!"ok {lowerBoundLinear lt a v}" else "precond"
    | "find_sorted", [some v] => if valOk v then s!"ok {findSorted lt a v}" else "precond"
    | "min_element", [] => s!"ok {minElement lt a}"
    | "all_adjacent", [] => if allAdjacent lt a then "ok 1" else "ok 0"
    | _, _ => "bad-op"

def predOp (op : String) (p : String) (t : String) (xs : List Int) : String :=
  match parseIntTok t with
  | none => "bad-op"
  | some t =>
    if !small t then "bad-op" else
    match mkPred p t with
    | none => "bad-op"
    | some pr =>
      let a := xs.toArray
      match op with
      | "partition" => let (b, k) := partition pr a; okInts (Int.ofNat k :: b.toList)
      | "all_of" => if allOf pr a then "ok 1" else "ok 0"
      | "any_of" => if anyOf pr a then "ok 1" else "ok 0"
      | _ => "bad-op"

def u64 : Nat := 2 ^ 64
def i31 (x : Int) : Bool := decide (-(2 : Int) ^ 30 ≤ x) && decide (x ≤ 2 ^ 30)

def scalarOp (ws : List String) : String :=
  match ws with
  | ["clamp", v, lo, hi] =>
    match parseIntTok v, parseIntTok lo, parseIntTok hi with
    | some v, some lo, some hi =>
      if !(small v && small lo && small hi) then "bad-op"
      else if hi < lo then "precond"
      else s!"ok {clamp (fun a b => decide (a < b)) v lo hi}"
    | _, _, _ => "bad-op"
  | ["clamp_nonneg", v] =>
    match parseIntTok v with
    | some v => if small v then s!"ok {clampToNonneg v}" else "bad-op"
    | none => "bad-op"
  | ["signum", v] =>
    match parseIntTok v with
    | some v => if small v then s!"ok {signum v}" else "bad-op"
    | none => "bad-op"
  | ["min", x, y] =>
    match parseIntTok x, parseIntTok y with
    | some x, some y => if small x && small y then s!"ok {minOf (fun a b => decide (a < b)) x y}"
                        else "bad-op"
    | _, _ => "bad-op"
  | ["max", x, y] =>
    match parseIntTok x, parseIntTok y with
    | some x, some y => if small x && small y then s!"ok {maxOf (fun a b => decide (a < b)) x y}"
                        else "bad-op"
    | _, _ => "bad-op"
  | ["ceil_div", t, b] =>
    match parseNatTok t, parseNatTok b with
    | some t, some b => if t ≥ u64 ∨ b ≥ u64 then "bad-op" else if b = 0 then "precond"
                        else s!"ok {ceilDiv t b}"
    | _, _ => "bad-op"
  | ["local_work", t, n, i] =>
    match parseNatTok t, parseNatTok n, parseNatTok i with
    | some t, some n, some i =>
      if t ≥ u64 ∨ n ≥ u64 ∨ i ≥ u64 then "bad-op" else if i ≥ n then "precond"
      else s!"ok {localWork t n i}"
    | _, _, _ => "bad-op"
  | ["ipow", n, v] =>
    match parseNatTok n, parseNatTok v with
    | some n, some v => if n > 64 ∨ v ≥ u64 then "bad-op" else s!"ok {ipowU64 n v}"
    | _, _ => "bad-op"
  | ["range", "i", b, e, s] =>
    match parseIntTok b, parseIntTok e, parseIntTok s with
    | some b, some e, some s =>
      if !(i31 b && i31 e && i31 s) then "bad-op" else if s = 0 then "precond"
      else limitOut 64 (stepRangeSigned 65 b e s)
    | _, _, _ => "bad-op"
  | ["range", "u", b, e, s] =>
    match parseNatTok b, parseNatTok e, parseNatTok s with
    | some b, some e, some s =>
      if b ≥ 2 ^ 32 ∨ e ≥ 2 ^ 32 ∨ s ≥ 2 ^ 32 then "bad-op" else if s = 0 then "precond"
      else limitOut 64 ((stepIterU32 e s 65 b).map Int.ofNat)
    | _, _, _ => "bad-op"
  | ["range1", b, e] =>
    match parseIntTok b, parseIntTok e with
    | some b, some e =>
      if !(i31 b && i31 e) then "bad-op" else if e < b then "precond"
      else limitOut 64 (unitIter e 65 b)
    | _, _ => "bad-op"
  | ["count", b, s, n] =>
    match parseIntTok b, parseIntTok s, parseNatTok n with
    | some b, some s, some n =>
      if !(i31 b && decide (-(2 : Int) ^ 20 ≤ s) && decide (s ≤ 2 ^ 20)) ∨ n > 64 then "bad-op"
      else okInts (countStep b s n)
    | _, _, _ => "bad-op"
  | ["twod_index", ny, ix, iy] =>
    match parseNatTok ny, parseNatTok ix, parseNatTok iy with
    | some ny, some ix, some iy =>
      if ny ≥ 2 ^ 15 ∨ ix ≥ 2 ^ 15 ∨ iy ≥ 2 ^ 15 then "bad-op" else if iy ≥ ny then "precond"
      else s!"ok {twodIndex ny ix iy}"
    | _, _, _ => "bad-op"
  | _ => "bad-op"

def indexerOp (op : String) (l1 l2 : List Nat) : String :=
  match op with
  | "hyperslab" =>
    if l1.length = 0 ∨ l1.length > 5 ∨ l2.length ≠ l1.length then "bad-op"
    else if l1.any (· = 0) ∨ prodList l1 ≥ 2 ^ 32 ∨ (List.zip l2 l1).any (fun (c, d) => c ≥ d)
    then "precond"
    else s!"ok {hyperslabIndex l1.toArray l2.toArray}"
  | "hyperslab_inv" =>
    match l2 with
    | [idx] =>
      if l1.length = 0 ∨ l1.length > 5 then "bad-op"
      else if l1.any (· = 0) ∨ prodList l1 ≥ 2 ^ 32 ∨ idx > prodList l1 then "precond"
      else okNats (hyperslabInverse l1.toArray idx).toList
    | _ => "bad-op"
  | "ragged" =>
    match l2 with
    | [i, j] =>
      if l1.length = 0 ∨ l1.length > 6 then "bad-op"
      else if l1.foldl (· + ·) 0 ≥ 2 ^ 32 ∨ i ≥ l1.length ∨ j ≥ l1.toArray[i]! then "precond"
      else s!"ok {raggedIndex (raggedOffsets l1.toArray) i j}"
    | _ => "bad-op"
  | "ragged_inv" =>
    match l2 with
    | [idx] =>
      if l1.length = 0 ∨ l1.length > 6 then "bad-op"
      else if l1.foldl (· + ·) 0 ≥ 2 ^ 32 ∨ idx ≥ l1.foldl (· + ·) 0 then "precond"
      else let (i, j) := raggedInverse (raggedOffsets l1.toArray) idx; s!"ok {i} {j}"
    | _ => "bad-op"
  | _ => "bad-op"

def isIndexerOp (op : String) : Bool :=
  op == "hyperslab" || op == "hyperslab_inv" || op == "ragged" || op == "ragged_inv"

def driverStep (s : Unit) (line : String) : Unit × String :=
  let ws := words line
  let out : String :=
    match sections ws with
    | [hd] => scalarOp hd
    | (op :: args) :: rest =>
      if isIndexerOp op then
        match rest with
        | [l2] =>
          match parseAll parseNatTok args, parseAll parseNatTok l2 with
          | some d, some c =>
            if d.all (· < 2 ^ 32) && c.all (· < 2 ^ 33) then indexerOp op d c else "bad-op"
          | _, _ => "bad-op"
        | _ => "bad-op"
      else if op == "partition" || op == "all_of" || op == "any_of" then
        match args, getLists rest with
        | [p, t], some (xs, none) => predOp op p t xs
        | _, _ => "bad-op"
      else if op == "nugrid_find" then
        match args.map parseIntTok, getLists rest with
        | [some v], some (xs, none) =>
          if !small v then "bad-op"
          else
            let lt : Int → Int → Bool := fun x y => decide (x < y)
            if xs.length < 2 ∨ !isSortedBy lt xs ∨ v < xs.head! ∨ v ≥ xs.getLast!
                ∨ xs.any (fun x => decide (x.natAbs > 2 ^ 53)) then "precond"
            else s!"ok {nonuniformFind lt (fun x y => x != y) xs.toArray v}"
        | _, _ => "bad-op"
      else
        match args, getLists rest with
        | c :: more, some (xs, keys) => cmpOp op more xs keys c
        | _, _ => "bad-op"
    | _ => "bad-op"
  (s, out)

end CelerVerif.Algo
