/-
Executable model (generic in `Num α`) of the celeritas sampling distributions, AS WRITTEN:
  src/celeritas/random/distribution/{UniformReal,Exponential,Normal,Gamma,Poisson,Reciprocal,
    InverseSquare,Radial,Isotropic,UniformBox,Bernoulli}Distribution.hh, RejectionSampler.hh,
  src/celeritas/random/Selector.hh, src/celeritas/em/distribution/TsaiUrbanDistribution.hh,
  EnergyLossGammaDistribution.hh, EnergyLossGaussianDistribution.hh,
  corecel/math/ArrayUtils.hh (`from_spherical`), corecel/math/Algorithms.hh (`ipow`, `fastpow`,
  `rsqrt`).
Random numbers: every sampler obtains its uniforms through `generate_canonical<real_type>(rng)`
only (none calls `rng()` directly), so the generator is modelled as an explicit list of canonical
uniforms (the *script*).  A sampler maps a script to `some (value, rest of the script)`, or
`none` when the script (or, for the two loops over a normal sampler with a spare value, the
iteration fuel) runs out.  Number of draws = length consumed.
Expression trees (association, fma placement, int→double promotions) follow the C++ so that the
`Float` instance is bit-identical (harness/dist.cc + ScriptedEngine).
-/
import CelerVerif.Num.Basic

namespace CelerVerif.Dist
open CelerVerif
open scoped CelerVerif.Num

/-- operations the samplers need beyond `Num` -/
class NumX (α : Type) where
  /-- `std::cbrt` -/
  cbrt : α → α
  /-- `std::pow` (FluctuationParams.cc) -/
  pow : α → α → α
  /-- double → 64-bit signed integer as x86-64 `cvttsd2si` does it: truncation toward zero;
      NaN and values outside [−2^63, 2^63) give −2^63 ("integer indefinite") -/
  truncI64 : α → Int

variable {α : Type} [Num α] [NumX α]

/-- sampler: script ↦ (value, rest) or `none` = script exhausted -/
abbrev Rng (α β : Type) := List α → Option (β × List α)

/-- `m_pi` / `constants::pi` literal -/
def pi : α := 3.14159265358979323846
/-- `static_cast<RealType>(2 * m_pi)`, `2 * constants::pi` -/
def twopi : α := (2 : α) * (pi : α)

/-- `ipow<3>(v)` = v * ipow<1>(v) * ipow<1>(v)  (ipow<1>(v) = v*1*1 = v exactly) -/
def ipow3 (v : α) : α := v * v * v
/-- `ipow<4>(v)` = ipow<2>(v) * ipow<2>(v) -/
def ipow4 (v : α) : α := (v * v) * (v * v)
/-- `fastpow(a, b)` = exp(b * log(a)) -/
def fastpow (a b : α) : α := Num.exp (b * Num.log a)

/-- `static_cast<unsigned int>(x)` as compiled for x86-64 (64-bit truncating conversion, low
    32 bits kept).  For −1 < x < 2^32 this is the C++-defined value; outside it is what the
    release binary does (the C++ standard leaves it undefined). -/
def castU32 (x : α) : Nat := (NumX.truncI64 x % (2 ^ 32 : Int)).toNat

/-! ### GenerateCanonical (scripted) -/
def draw : Rng α α
  | [] => none
  | u :: us => some (u, us)

/-! ### UniformRealDistribution -/
structure UniformReal (α : Type) where
  a : α
  delta : α
deriving Repr, Inhabited

/-- constructor `(a, b)` : `a_(a), delta_(b - a)` -/
def UniformReal.mk' (a b : α) : UniformReal α := ⟨a, b - a⟩

/-- `std::fma(delta_, generate_canonical(rng), a_)` -/
def UniformReal.sample (d : UniformReal α) : Rng α α
  | [] => none
  | u :: us => some (Num.fma d.delta u d.a, us)

/-! ### ExponentialDistribution -/
/-- `neg_inv_lambda_(real_type{-1} / lambda)`; sample `log(u) * neg_inv_lambda_` -/
def exponential (lambda : α) : Rng α α
  | [] => none
  | u :: us => some (Num.log u * ((-(1 : α)) / lambda), us)

/-! ### NormalDistribution (Box–Muller with a spare value) -/
structure Normal (α : Type) where
  mean : α
  stddev : α
  spare : Option α := none
deriving Repr, Inhabited

def Normal.sample (n : Normal α) : List α → Option (α × Normal α × List α) :=
  match n.spare with
  | some sp => fun s => some (Num.fma sp n.stddev n.mean, { n with spare := none }, s)
  | none => fun s =>
    match s with
    | u1 :: u2 :: rest =>
      let theta := (twopi : α) * u1
      let r := Num.sqrt ((-(2 : α)) * Num.log u2)
      let spare := r * Num.cos theta
      some (Num.fma (r * Num.sin theta) n.stddev n.mean, { n with spare := some spare }, rest)
    | _ => none

/-- k consecutive samples from one distribution object -/
def Normal.sampleN : Nat → Normal α → List α → Option (List α × Normal α × List α)
  | 0, n, s => some ([], n, s)
  | k + 1, n, s =>
    match n.sample s with
    | none => none
    | some (x, n', s') =>
      match Normal.sampleN k n' s' with
      | none => none
      | some (xs, n'', s'') => some (x :: xs, n'', s'')

/-! #### user-written special members of NormalDistribution (cached spare value)
The copy constructor (`mean_{other.mean}, stddev_{other.stddev}`) names members that do not exist
and cannot be instantiated; it is therefore not modelled (see the check's compile probe). -/

/-- move constructor: parameters and spare value taken over, `other.has_spare_ = false`;
    returns (new object, moved-from object) -/
def Normal.moveCtor (other : Normal α) : Normal α × Normal α :=
  (⟨other.mean, other.stddev, other.spare⟩, { other with spare := none })

/-- copy assignment `dst = src`: "keep spare value but change distribution" -/
def Normal.copyAssign (dst src : Normal α) : Normal α :=
  { dst with mean := src.mean, stddev := src.stddev }

/-- move assignment `dst = std::move(src)`: parameters copied; the source's spare value is taken
    only if `dst` has none; returns (dst, src) -/
def Normal.moveAssign (dst src : Normal α) : Normal α × Normal α :=
  let d : Normal α := { dst with mean := src.mean, stddev := src.stddev }
  match dst.spare, src.spare with
  | none, some sp => ({ d with spare := some sp }, { src with spare := none })
  | _, _ => (d, src)

/-- harness op `normop`: `pre1`/`pre2` samples from a and b, then the special member `kind`
    (1 move-construct c from a, 2 copy-assign a = b, 3 move-assign a = move(b)), then `k`
    samples from the first and `k` from the second resulting object -/
def Normal.specialOp (kind pre1 pre2 k : Nat) (a b : Normal α) (s : List α) :
    Option (List α × List α) :=
  match Normal.sampleN pre1 a s with
  | none => none
  | some (xs1, a1, s1) =>
    match Normal.sampleN pre2 b1 s1 with
    | none => none
    | some (xs2, b2, s2) =>
      let (p, q) :=
        match kind with
        | 1 => Normal.moveCtor a1
        | 2 => (Normal.copyAssign a1 b2, b2)
        | _ => Normal.moveAssign a1 b2
      match Normal.sampleN k p s2 with
      | none => none
      | some (xs3, _, s3) =>
        match Normal.sampleN k q s3 with
        | none => none
        | some (xs4, _, s4) => some (xs1 ++ xs2 ++ xs3 ++ xs4, s4)
where b1 := b

/-! ### GammaDistribution (Marsaglia–Tsang) -/
structure Gamma (α : Type) where
  alpha : α
  beta : α
  alphaP : α
  d : α
  c : α
  normal : Normal α
deriving Repr, Inhabited

def Gamma.mk' (alpha beta : α) : Gamma α :=
  let alphaP := if Num.lt alpha (1 : α) then alpha + (1 : α) else alpha
  let d := alphaP - (1 : α) / (3 : α)
  let c := (1 : α) / Num.sqrt ((9 : α) * d)          -- rsqrt(9 * d_)
  ⟨alpha, beta, alphaP, d, c, ⟨(0 : α), (1 : α), none⟩⟩

/-- `do { z = sample_normal_(rng); v = 1 + c_ * z; } while (v <= 0);` -/
def Gamma.inner (c : α) : Nat → Normal α → List α → Option (α × α × Normal α × List α)
  | 0, _, _ => none
  | fuel + 1, n, s =>
    match n.sample s with
    | none => none
    | some (z, n', s') =>
      let v := (1 : α) + c * z
      if Num.le v (0 : α) then Gamma.inner c fuel n' s' else some (z, v, n', s')

/-- the acceptance test of the outer loop (negated loop condition) -/
def Gamma.accept (d z v3 u : α) : Bool :=
  !(Num.gt u ((1 : α) - (0.0331 : α) * ipow4 z)
    && Num.gt (Num.log u) ((0.5 : α) * (z * z) + d * ((1 : α) - v3 + Num.log v3)))

/-- outer loop: returns the accepted `v` (already cubed) -/
def Gamma.outer (g : Gamma α) : Nat → Normal α → List α → Option (α × Normal α × List α)
  | 0, _, _ => none
  | fuel + 1, n, s =>
    match Gamma.inner g.c (fuel + 1) n s with
    | none => none
    | some (z, v, n', s') =>
      let v3 := ipow3 v
      match s' with
      | [] => none
      | u :: s'' =>
        if Gamma.accept g.d z v3 u then some (v3, n', s'') else Gamma.outer g fuel n' s''

def Gamma.sample (g : Gamma α) (fuel : Nat) (s : List α) : Option (α × Gamma α × List α) :=
  match Gamma.outer g fuel g.normal s with
  | none => none
  | some (v3, n', s') =>
    let result := g.d * v3 * g.beta
    if Num.ne g.alpha g.alphaP then
      match s' with
      | [] => none
      | u :: s'' => some (result * fastpow u ((1 : α) / g.alpha), { g with normal := n' }, s'')
    else some (result, { g with normal := n' }, s')

def Gamma.sampleN (fuel : Nat) : Nat → Gamma α → List α → Option (List α × Gamma α × List α)
  | 0, g, s => some ([], g, s)
  | k + 1, g, s =>
    match g.sample fuel s with
    | none => none
    | some (x, g', s') =>
      match Gamma.sampleN fuel k g' s' with
      | none => none
      | some (xs, g'', s'') => some (x :: xs, g'', s'')

/-! ### PoissonDistribution -/
structure Poisson (α : Type) where
  lambda : α
  normal : Normal α
deriving Repr, Inhabited

/-- `lambda_(lambda), sample_normal_(lambda_, std::sqrt(lambda_))` -/
def Poisson.mk' (lambda : α) : Poisson α := ⟨lambda, ⟨lambda, Num.sqrt lambda, none⟩⟩

/-- `lambda_threshold()` -/
def lambdaThreshold : α := 16

/-- direct method: `k` = number of completed iterations; `do { ++k; p *= u; } while (p > 1);
    return k - 1` -/
def Poisson.direct (k : Nat) (p : α) : Rng α Nat
  | [] => none
  | u :: us =>
    let p := p * u
    if Num.gt p (1 : α) then Poisson.direct (k + 1) p us else some (k, us)

def Poisson.sample (d : Poisson α) (s : List α) : Option (Nat × Poisson α × List α) :=
  if Num.le d.lambda (lambdaThreshold : α) then
    match Poisson.direct 0 (Num.exp d.lambda) s with
    | none => none
    | some (k, s') => some (k, d, s')
  else
    match d.normal.sample s with
    | none => none
    | some (x, n', s') =>
      -- `rounded = sample_normal_(rng) + 0.5; return rounded > 0 ? result_type(rounded) : 0`
      let rounded := x + (0.5 : α)
      some (if Num.gt rounded (0 : α) then castU32 rounded else 0, { d with normal := n' }, s')

def Poisson.sampleN : Nat → Poisson α → List α → Option (List Nat × Poisson α × List α)
  | 0, d, s => some ([], d, s)
  | k + 1, d, s =>
    match d.sample s with
    | none => none
    | some (x, d', s') =>
      match Poisson.sampleN k d' s' with
      | none => none
      | some (xs, d'', s'') => some (x :: xs, d'', s'')

/-! ### ReciprocalDistribution -/
/-- `a_(a), logratio_(std::log((1 / a) * b))`; sample `a_ * exp(logratio_ * u)` -/
def reciprocal (a b : α) : Rng α α
  | [] => none
  | u :: us => some (a * Num.exp (Num.log (((1 : α) / a) * b) * u), us)

/-- one-argument constructor `ReciprocalDistribution(a)` = `ReciprocalDistribution(1, a)` -/
def reciprocal1 (a : α) : Rng α α := reciprocal (1 : α) a

/-! ### InverseSquareDistribution -/
/-- `product_{a * b}, sample_denom_{a, b}`; sample `product_ / sample_denom_(rng)` -/
def inverseSquare (a b : α) : Rng α α := fun s =>
  match (UniformReal.mk' a b).sample s with
  | none => none
  | some (x, s') => some ((a * b) / x, s')

/-! ### RadialDistribution -/
def radial (radius : α) : Rng α α
  | [] => none
  | u :: us => some (NumX.cbrt u * radius, us)

/-! ### IsotropicDistribution -/
/-- `from_spherical(costheta, phi)` -/
def fromSpherical (costheta phi : α) : Vec3 α :=
  let sintheta := Num.sqrt ((1 : α) - costheta * costheta)
  ⟨sintheta * Num.cos phi, sintheta * Num.sin phi, costheta⟩

/-- `sample_costheta_(-1, 1), sample_phi_(0, 2 * constants::pi)` -/
def isotropic : Rng α (Vec3 α)
  | u1 :: u2 :: rest =>
    let costheta := Num.fma ((1 : α) - (-(1 : α))) u1 (-(1 : α))
    let phi := Num.fma ((twopi : α) - (0 : α)) u2 (0 : α)
    some (fromSpherical costheta phi, rest)
  | _ => none

/-! ### UniformBoxDistribution -/
def uniformBox (lo hi : Vec3 α) : Rng α (Vec3 α)
  | u1 :: u2 :: u3 :: rest =>
    some (⟨Num.fma (hi.x - lo.x) u1 lo.x, Num.fma (hi.y - lo.y) u2 lo.y,
           Num.fma (hi.z - lo.z) u3 lo.z⟩, rest)
  | _ => none

/-! ### BernoulliDistribution -/
/-- `generate_canonical(rng) < p_true_` -/
def bernoulli (p : α) : Rng α Bool
  | [] => none
  | u :: us => some (Num.lt u p, us)

/-- two-argument constructor: `p_true_(scaled_true / (scaled_true + scaled_false))` -/
def bernoulli2 (t f : α) : Rng α Bool := bernoulli (t / (t + f))

/-! ### Selector -/
/-- the loop over all but the last index -/
def selectLoop (accum : α) (i : Nat) : List α → Nat
  | [] => i
  | w :: ws =>
    let accum := accum + w
    if Num.gt accum (0 : α) then i else selectLoop accum (i + 1) ws

/-- `accum = -total_ * u; for (iter = 0; iter != size-1; ++iter) {accum += f(iter); if (accum > 0)
    return iter;} return size-1;`   (size = `weights.length`, precondition size ≥ 1) -/
def select (weights : List α) (total : α) : Rng α Nat
  | [] => none
  | u :: us => some (selectLoop ((-total) * u) 0 weights.dropLast, us)

/-! ### RejectionSampler -/
/-- `f_ < fmax_ * u` : true = reject (keep looping) -/
def rejectionSampler (f fmax : α) : Rng α Bool
  | [] => none
  | u :: us => some (Num.lt f (fmax * u), us)

/-- the documented usage loop with a uniform proposal on [a,b):
    `do { x = sample(rng); } while (RejectionSampler{f(x), fmax}(rng));` -/
def rejectionLoop (f : α → α) (prop : UniformReal α) (fmax : α) : Rng α α
  | u1 :: u2 :: rest =>
    let x := Num.fma prop.delta u1 prop.a
    if Num.lt (f x) (fmax * u2) then rejectionLoop f prop fmax rest else some (x, rest)
  | _ => none

/-- target functions used by the harness op `rejloop` -/
def target (kind : Nat) (x : α) : α :=
  match kind with
  | 0 => x
  | 1 => x * x
  | _ => (4 : α) * x * ((1 : α) - x)

/-! ### TsaiUrbanDistribution -/
/-- `umax_(2 * (1 + energy / mass))` -/
def tsaiUmax (energy mass : α) : α := (2 : α) * ((1 : α) + energy / mass)

/-- value of `u` computed by one loop iteration -/
def tsaiU (u1 u2 u3 : α) : α :=
  (-(Num.log (u1 * u2))) * (if Num.lt u3 (0.25 : α) then (1.6 : α) else (1.6 : α) / (3 : α))

def tsaiUrban (umax : α) : Rng α α
  | u1 :: u2 :: u3 :: rest =>
    let u := tsaiU u1 u2 u3
    if Num.gt u umax then tsaiUrban umax rest
    else some ((1 : α) - (2 : α) * Num.sq (u / umax), rest)
  | _ => none

/-! ### EnergyLossGammaDistribution / EnergyLossGaussianDistribution -/
/-- `build_gamma(mean, var)`: `k = ipow<2>(mean) / var; GammaDist{k, mean / k}` -/
def elossGamma (mean var : α) : Gamma α :=
  let k := (mean * mean) / var
  Gamma.mk' k (mean / k)

/-- `do { result = sample_normal_(rng); } while (result <= 0 || result > max_loss_);` -/
def elossGaussLoop (maxLoss : α) : Nat → Normal α → List α → Option (α × List α)
  | 0, _, _ => none
  | fuel + 1, n, s =>
    match n.sample s with
    | none => none
    | some (x, n', s') =>
      if Num.le x (0 : α) || Num.gt x maxLoss then elossGaussLoop maxLoss fuel n' s'
      else some (x, s')

/-- `(mean_loss, bohr_stddev)` constructor: `max_loss_(2 * mean)`, normal(mean, stddev) -/
def elossGauss (mean stddev : α) (fuel : Nat) : Rng α α :=
  elossGaussLoop ((2 : α) * mean) fuel ⟨mean, stddev, none⟩

end CelerVerif.Dist
