/-
Executable model (generic in `Num α`) of the step-limit / step-state logic of one track:
  src/celeritas/phys/PhysicsStepUtils.hh     (`calc_physics_step_limit`)
  src/celeritas/phys/PhysicsTrackView.hh     (`range_to_step`)
  src/celeritas/track/SimTrackView.hh        (`step_limit`: only shortens, ties keep the action)
  src/celeritas/global/alongstep/detail/PropagationApplier.hh  (branch logic)
  src/celeritas/field/LinearPropagator.hh + orange `move_internal/move_to_boundary` (axpy)
  src/celeritas/global/alongstep/detail/MscStepLimitApplier.hh, MscApplier.hh   (gates only)
  src/celeritas/global/alongstep/detail/TimeUpdater.hh, TrackUpdater.hh
  src/celeritas/phys/ParticleTrackView.hh    (`beta_sq`, `speed`)
  src/celeritas/phys/detail/PreStepExecutor.hh, DiscreteSelectExecutor.hh
  src/celeritas/geo/detail/BoundaryExecutor.hh, src/celeritas/global/CoreTrackView.hh (`apply_errored`)
  src/celeritas/track/detail/ProcessSecondariesExecutor.hh, InitializeTracks, sort (frame model)
`+∞` step lengths (`mfp / 0`, `reset_step_limit()`) are `none`.
-/
import CelerVerif.Num.Basic
import CelerVerif.Model.Ledger

namespace CelerVerif.Step
open CelerVerif
open CelerVerif.Ledger (Status)
open scoped CelerVerif.Num

variable {α : Type} [Num α]

/-- the post-step actions that matter for step limiting -/
inductive Act
  | none | discrete | range | fixed | boundary | propLimit | trackingCut | failure | rejection
  | msc
  | model (id : Nat)
deriving DecidableEq, Repr, Inhabited

/-- `StepLimit`: `step = none` is +∞ -/
structure StepLimit (α : Type) where
  step : Option α
  action : Act
deriving Repr, Inhabited

/-- `a ≤ b` with `none = +∞` on the right -/
def leInf (a : α) : Option α → Bool
  | none => true
  | some b => Num.le a b
/-- `a < b` with `none = +∞` on the right -/
def ltInf (a : α) : Option α → Bool
  | none => true
  | some b => Num.lt a b

structure Scalars (α : Type) where
  minRange : α            -- rho
  maxStepOverRange : α    -- alpha
  fixedLimiter : α
  sqrtTol : α

/-- `PhysicsTrackView::range_to_step` -/
def rangeToStep (sc : Scalars α) (range : α) : α :=
  if Num.lt range (sc.minRange * ((1 : α) + sc.sqrtTol)) then range
  else sc.maxStepOverRange * range
        + sc.minRange * ((1 : α) - sc.maxStepOverRange) * ((2 : α) - sc.minRange / range)

/-- discrete-interaction distance `interaction_mfp / total_macro_xs` (IEEE: x/0 = +∞ for x > 0) -/
def discreteStep (mfp xs : α) : Option α :=
  if Num.gt xs (0 : α) then some (mfp / xs) else none

/-- `calc_physics_step_limit` (the cross-section loop is an input: `xs` = total macro xs;
    `range` = RangeCalculator result for particles with an energy-loss process) -/
def calcPhysicsStepLimit (sc : Scalars α) (stopped hasEloss noProc : Bool) (mfp xs range : α) :
    StepLimit α :=
  if stopped then ⟨some (0 : α), .discrete⟩
  else if hasEloss then
    if leInf (rangeToStep sc range) (discreteStep mfp xs) then
      -- range-limited
      if Num.gt sc.fixedLimiter (0 : α) && Num.lt sc.fixedLimiter (rangeToStep sc range) then
        ⟨some sc.fixedLimiter, .fixed⟩
      else ⟨some (rangeToStep sc range), .range⟩
    else
      if Num.gt sc.fixedLimiter (0 : α) && ltInf sc.fixedLimiter (discreteStep mfp xs) then
        ⟨some sc.fixedLimiter, .fixed⟩
      else ⟨discreteStep mfp xs, .discrete⟩
  else if noProc then ⟨discreteStep mfp xs, .none⟩
  else ⟨discreteStep mfp xs, .discrete⟩

/-- `SimTrackView::step_limit(sl)`: strictly shorter replaces step and action, otherwise nothing -/
def simStepLimit (cur : StepLimit α) (s : α) (a : Act) : StepLimit α :=
  if ltInf s cur.step then ⟨some s, a⟩ else cur

/-- `Propagation` result of the propagator -/
structure Propagation (α : Type) where
  distance : α
  boundary : Bool
  looping : Bool
deriving Repr, Inhabited

/-- `PropagationApplierBaseImpl::operator()` on (step, action).  `canLoop` =
    `propagate.tracks_can_loop()` (false for the linear propagator); `abandon` = the looping
    track is stable and `sim.is_looping(...)`. -/
def propagationApplier (cur : StepLimit α) (canLoop abandon : Bool) (p : Propagation α) :
    StepLimit α :=
  match cur.step with
  | none =>
    -- infinite physics step: the propagator always reports a finite distance
    if canLoop && p.looping then ⟨some p.distance, if abandon then .trackingCut else .propLimit⟩
    else if p.boundary then ⟨some p.distance, .boundary⟩
    else ⟨some p.distance, .propLimit⟩
  | some s =>
    if Num.eq s (0 : α) then cur
    else if canLoop && p.looping then
      ⟨some p.distance, if abandon then .trackingCut else .propLimit⟩
    else if p.boundary then ⟨some p.distance, .boundary⟩
    else if Num.lt p.distance s then ⟨some p.distance, .propLimit⟩
    else cur

/-- `LinearPropagator::operator()(dist)` given the geometry's answer `toBoundary` =
    `find_next_step(dist)`: distance = min(dist, boundary distance) with the boundary flag -/
def linearPropagate (dist : Option α) (boundaryDist : α) : Propagation α :=
  if leInf boundaryDist dist then ⟨boundaryDist, true, false⟩
  else match dist with
    | some d => ⟨d, false, false⟩
    | none => ⟨boundaryDist, true, false⟩

/-- `move_internal` / `move_to_boundary`: `axpy(dist, dir, &pos)` -/
def move (pos dir : Vec3 α) (dist : α) : Vec3 α := Vec3.axpy dist dir pos

/-- MSC gates: `MscStepLimitApplier` (geom_path := 0 when not applicable) and `MscApplier`
    (only for alive tracks with geom_path > 0) -/
def mscLimitGate (applicable : Bool) (geomPathFromMsc : α) : α :=
  if applicable then geomPathFromMsc else (0 : α)
def mscApplyGate (st : Status) (geomPath : α) : Bool :=
  st == .alive && Num.gt geomPath (0 : α)

/-- `ParticleTrackView::beta_sq` -/
def betaSq (e mass : α) : α :=
  let invGamma := mass / (e + mass)
  (1 : α) - invGamma * invGamma

/-- `constants::c_light` in the native (CGS) unit system: 299792458 · 100 cm/s -/
def cLight : α := 29979245800

/-- `native_value_from(particle.speed())` -/
def speed (e mass : α) : α := Num.sqrt (betaSq e mass) * (cLight : α)

/-- `TimeUpdater::operator()` -/
def timeUpdater (st : Status) (time step e mass : α) : α :=
  if st == .errored then time
  else if Num.gt (speed e mass) (0 : α) then time + step / speed e mass
  else time

/-- `TrackUpdater::operator()`: (interaction mfp, step counter) -/
def trackUpdater (st : Status) (psa : Act) (mfp step xs : α) (nsteps : Nat) : α × Nat :=
  if st == .errored then (mfp, nsteps)
  else if st == .alive && psa != .discrete then (mfp - step * xs, nsteps + 1)
  else (mfp, nsteps + 1)

/-- `DiscreteSelectExecutor`: the MFP counter is reset, the action becomes the selected one -/
def discreteSelect (selected : Act) : α × Act := ((0 : α), selected)

/-! ### status machine -/

/-- `PreStepExecutor` on the status -/
def preStepStatus : Status → Status
  | .initializing => .alive
  | s => s

/-- outcome of the along-step on the status: `apply_errored` during propagation, or
    `ElossApplier` killing a stopped track -/
def alongStatus (st : Status) (errored killedByEloss : Bool) : Status :=
  if st != .alive then st
  else if errored then .errored
  else if killedByEloss then .killed
  else .alive

/-- `BoundaryExecutor`: geometry failure ⇒ errored (+ tracking cut), outside ⇒ killed -/
def boundaryStatus (failed outside noMaterial : Bool) : Status :=
  if failed then .errored
  else if !outside then (if noMaterial then .errored else .alive)
  else .killed

/-- post-step phase on the status, by the action that runs for this track -/
def postStatus (st : Status) (psa : Act) (bFailed bOutside bNoMat absorbed : Bool) : Status :=
  match st, psa with
  | .alive, .boundary =>
    -- boundary crossing; an errored crossing is picked up by the tracking cut in the same phase
    match boundaryStatus bFailed bOutside bNoMat with
    | .errored => .killed
    | s => s
  | .alive, .model _ => if absorbed then .killed else .alive
  | .errored, _ => .killed            -- tracking cut (`apply_errored` set the action)
  | .alive, .trackingCut => .killed
  | s, _ => s

/-- the five sampled statuses of one step iteration (after initialisation, pre-step, along-step,
    discrete select, post-step) -/
def stepStatuses (s0 : Status) (errAlong killedEloss : Bool) (psa : Act)
    (bFailed bOutside bNoMat absorbed : Bool) : List Status :=
  let s1 := preStepStatus s0
  let s2 := alongStatus s1 errAlong killedEloss
  let s3 := s2
  let s4 := postStatus s3 psa bFailed bOutside bNoMat absorbed
  [s0, s1, s2, s3, s4]

/-- volume id reported after the step: within the along-step the geometry only moves inside the
    current volume (`move_internal`) or onto its boundary (`move_to_boundary`); the volume is
    replaced only by `BoundaryExecutor` (`cross_boundary`), which runs for alive tracks whose
    post-step action is the boundary action -/
def stepVolume (vol : Nat) (st : Status) (psa : Act) (entered : Nat) : Nat :=
  if st == .alive && psa == .boundary then entered else vol

/-! ### frame model of the actions between `user_post` of step k and `user_pre` of step k+1 -/

/-- per-slot state: what a step point reports (`β` = position/energy/time/volume bundle) -/
structure Slot (β : Type) where
  status : Status
  trackId : Nat
  point : β
deriving Repr, Inhabited

/-- `ProcessSecondariesExecutor` on one slot: alive tracks are untouched; a killed track's slot
    becomes inactive or is re-initialised in place from its first secondary -/
def processSecondaries {β : Type} (s : Slot β) (inPlace : Option (Nat × β)) : Slot β :=
  match s.status with
  | .alive => s
  | .inactive => s
  | _ =>
    match inPlace with
    | some (tid, pt) => ⟨.initializing, tid, pt⟩
    | none => { s with status := .inactive }

/-- `InitializeTracksAction`: writes the initializers into the listed vacancies -/
def initializeTracks {β : Type} (slots : List (Slot β)) :
    List (Nat × Nat × β) → List (Slot β)
  | [] => slots
  | (v, tid, pt) :: rest => initializeTracks (slots.set v ⟨.initializing, tid, pt⟩) rest

/-- pre-step on a slot: only the status (and step-limit scratch, not modelled) changes -/
def preStepSlot {β : Type} (s : Slot β) : Slot β := { s with status := preStepStatus s.status }

/-- everything that runs between the `user_post` probe of step k and the `user_pre` probe of
    step k+1: end-of-step secondaries processing, initialisation of vacant slots, sorting (a
    permutation of the thread→slot indirection only: slot contents untouched), pre-step -/
def interStep {β : Type} (slots : List (Slot β)) (inPlace : Nat → Option (Nat × β))
    (inits : List (Nat × Nat × β)) : List (Slot β) :=
  let a := slots.mapIdx fun i s => processSecondaries s (inPlace i)
  let b := initializeTracks a inits
  b.map preStepSlot

end CelerVerif.Step
