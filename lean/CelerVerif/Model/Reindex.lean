/-
Model (as written, integers only) of the re-indexing machinery of the stepping loop:

* `detail::sort_tracks`             (track/detail/TrackSortUtils.cc)  `partitionStd`, `sortByKey`
* `detail::count_tracks_per_action`                                     `countTracksPerAction`
* `detail::backfill_action_count`                                       `backfill`
* `CoreState::get_action_range`                                         `actionRange`
* `TrackExecutor` / `CoreTrackView(thread)` thread → slot indirection   `slotOfThread`, `launch`
* `shuffle_track_slots` is std::shuffle with std::mt19937: not modelled (any permutation).

OpaqueIds are `Option Nat` (`none` = invalid id = the largest value of the underlying integer,
so it compares greater than every valid id in `IdLess`).  libstdc++'s `std::partition`
(bidirectional version) is modelled exactly; `std::sort` is modelled by a stable insertion sort,
which is what libstdc++ executes for ≤ 16 elements (larger arrays: same multiset per key, order
within equal keys unspecified).  No Mathlib.
-/
namespace CelerVerif.Reindex

abbrev Id := Option Nat

/-- `ids[a] < ids[b]` on OpaqueId (invalid = max) -/
def idLt : Id → Id → Bool
  | some a, some b => a < b
  | some _, none => true
  | none, _ => false

def idLe (a b : Id) : Bool := !idLt b a

/-- `track_slots[thread]`, or the identity when the indirection array is empty -/
def slotOfThread (trackSlots : List Nat) (t : Nat) : Nat :=
  if trackSlots.isEmpty then t else trackSlots.getD t t

/-! ### std::partition (libstdc++ bidirectional algorithm) on an array of slots -/

/-- `while (first != last && pred(*first)) ++first` (fuel `n`) -/
def pFwd (pred : Nat → Bool) (a : Array Nat) (hi : Nat) : Nat → Nat → Nat
  | 0, lo => lo
  | n + 1, lo => if lo < hi && pred (a.getD lo 0) then pFwd pred a hi n (lo + 1) else lo

/-- `while (first != last && !pred(*last)) --last` (fuel `n`) -/
def pBwd (pred : Nat → Bool) (a : Array Nat) (lo : Nat) : Nat → Nat → Nat
  | 0, h => h
  | n + 1, h => if lo < h && !pred (a.getD h 0) then pBwd pred a lo n (h - 1) else h

/-- one outer iteration; `lo`/`hi` are `first`/`last`; fuel bounds the loop -/
def partitionLoop (pred : Nat → Bool) : Nat → Array Nat → Nat → Nat → Array Nat
  | 0, a, _, _ => a
  | fuel + 1, a, lo, hi =>
    let lo' := pFwd pred a hi a.size lo
    if lo' ≥ hi then a else
    let hi' := pBwd pred a lo' a.size (hi - 1)
    if lo' ≥ hi' then a else
    let x := a.getD lo' 0
    let y := a.getD hi' 0
    partitionLoop pred fuel ((a.setIfInBounds lo' y).setIfInBounds hi' x) (lo' + 1) hi'

def partitionStd (pred : Nat → Bool) (slots : List Nat) : List Nat :=
  (partitionLoop pred (slots.length + 1) slots.toArray 0 slots.length).toList

/-! ### std::sort by key, ≤ 16 elements: insertion sort (stable) -/

def insertSorted (key : Nat → Id) (x : Nat) : List Nat → List Nat
  | [] => [x]
  | y :: ys => if idLt (key x) (key y) then x :: y :: ys else y :: insertSorted key x ys

/-- stable: an element is placed after all elements that are not greater -/
def sortByKey (key : Nat → Id) (slots : List Nat) : List Nat :=
  slots.foldl (fun acc x => insertSorted key x acc) []

/-! ### count_tracks_per_action / backfill -/

/-- `get_action(ThreadId{i})` = action of the slot of thread `i` (null past the end) -/
def keyAt (keys : List Id) (i : Nat) : Id := keys.getD i none

/-- body of `for (size_type i = 1; i < size; ++i)` (the model folds over 0..size-1 and skips 0):
    `if (!current_action) continue; if (current_action != get_action(i-1)) offsets[current] = i` -/
def countLoopBody (keys : List Id) (offs : List (Option Nat)) (i : Nat) : List (Option Nat) :=
  if i == 0 then offs else
  match keyAt keys i with
  | none => offs
  | some a => if keyAt keys i != keyAt keys (i - 1) then offs.set a (some i) else offs

/-- `std::fill(offsets, ThreadId{})`, the loop, then
    `if (ActionId first = get_action(ThreadId{0})) offsets[first] = ThreadId{0}` -/
def countRaw (keys : List Id) (numActions : Nat) : List (Option Nat) :=
  let offs1 := (List.range keys.length).foldl (countLoopBody keys)
    (List.replicate (numActions + 1) none)
  match keyAt keys 0 with
  | some a => offs1.set a (some 0)
  | none => offs1

/-- one iteration `if (!*thread_id) *thread_id = *(thread_id - 1)` at forward index `k` -/
def backfillBody (o : List (Option Nat)) (k : Nat) : List (Option Nat) :=
  match o.getD k none with
  | none => o.set k (o.getD (k + 1) none)
  | some _ => o

/-- `backfill_action_count(offsets, size)`: last entry := size, then right-to-left fill -/
def backfill (offs : List (Option Nat)) (size : Nat) : List (Option Nat) :=
  let n := offs.length - 1
  let offs1 := offs.set n (some size)
  (List.range n).reverse.foldl backfillBody offs1

def countTracksPerAction (keys : List Id) (numActions : Nat) : List (Option Nat) :=
  backfill (countRaw keys numActions) keys.length

/-- `get_action_range(a)` = `[offsets[a], offsets[a+1])` -/
def actionRange (offs : List (Option Nat)) (a : Nat) : Nat × Nat :=
  ((offs.getD a none).getD 0, (offs.getD (a + 1) none).getD 0)

/-- specification of the offsets of a key-sorted thread array: threads whose key is a valid
    action below `a` come first -/
def offsetSpec (keys : List Id) (a : Nat) : Nat :=
  keys.countP (fun k => match k with | some b => b < a | none => false)

/-- the number of threads with a valid action (the trailing unset ones are not counted) -/
def numSet (keys : List Id) : Nat := keys.countP (·.isSome)

/-! ### launching a slot-local update over threads -/

/-- `launch_core`: threads 0..n-1 in order; thread t acts on slot `slotOfThread trackSlots t` -/
def launch {σ : Type} (f : Nat → σ → σ) (trackSlots : List Nat) (st : List σ) : List σ :=
  (List.range st.length).foldl (fun st t =>
    let s := slotOfThread trackSlots t
    st.modify s (f s)) st

/-- the same with the identity indirection -/
def mapSlots {σ : Type} (f : Nat → σ → σ) (st : List σ) : List σ := st.mapIdx f

end CelerVerif.Reindex
