/-
The interaction kernel seen from track initialisation: every valid track, in slot order, asks
the shared secondary StackAllocator (cleared by thread 0 of the pre-step) for the secondaries
its interaction needs — as every interactor does: `allocate(n)`, `if (!p) return
Interaction::from_failure()`.  On failure InteractionApplier leaves the track alive without
secondaries (Model/Stack.lean `applyInteraction`).  No Mathlib.
-/
import CelerVerif.Model.TrackInit
import CelerVerif.Model.Stack

namespace CelerVerif.TrackInit

/-- what the sampled interaction wants to do -/
inductive Kind where
  | scatter     -- Interaction::Action::scattered
  | absorb      -- Interaction::Action::absorbed
  | unchanged   -- Interaction::from_unchanged()
  | error       -- CoreTrackView::apply_errored() during the step
deriving Repr, DecidableEq

structure Request where
  kind : Kind
  secs : List Sec
deriving Repr

/-- outcome of one track: (outcome, did the allocation fail, allocator afterwards) -/
def effOne (x : Slot) (r : Request) (stk : Stack.Stack) : Outcome × Bool × Stack.Stack :=
  if x.status = .inactive ∨ x.status = .errored then (⟨.alive, []⟩, false, stk)
  else match r.kind with
    | .error => (⟨.errored, []⟩, false, stk)
    | .unchanged => (⟨.alive, []⟩, false, stk)
    | k =>
      if r.secs.isEmpty then (⟨if k = .absorb then .killed else .alive, []⟩, false, stk)
      else
        match Stack.alloc r.secs.length stk with
        | (none, stk') => (⟨.alive, []⟩, true, stk')
        | (some _, stk') => (⟨if k = .absorb then .killed else .alive, r.secs⟩, false, stk')

/-- all tracks in slot order; returns outcomes, indices of failed interactions, allocator -/
def effGo : Nat → List Slot → List Request → Stack.Stack → List Outcome × List Nat × Stack.Stack
  | _, [], _, stk => ([], [], stk)
  | _, _ :: _, [], stk => ([], [], stk)
  | i, x :: xs, r :: rs, stk =>
    let a := effOne x r stk
    let b := effGo (i + 1) xs rs a.2.2
    (a.1 :: b.1, (if a.2.1 then [i] else []) ++ b.2.1, b.2.2)

def effectiveOutcomes (slots : List Slot) (reqs : List Request) (stk : Stack.Stack) :
    List Outcome × List Nat × Stack.Stack := effGo 0 slots reqs stk

/-- one Stepper call (no new primaries) with the allocator: pre-step clears the stack, the
    interaction kernel turns requests into outcomes -/
def stepReq (reqs : List Request) (s : State) (stk : Stack.Stack) :
    Except (Err × State) State × Stack.Stack :=
  let s0 := { s with c := { s.c with numGenerated := 0 } }
  let s3 := preStep (initializeTracks (extendFromPrimaries s0))
  let e := effectiveOutcomes s3.slots reqs (Stack.clear stk)
  (extendFromSecondaries (trackingCut (interact e.1 s3)), e.2.2)

end CelerVerif.TrackInit
