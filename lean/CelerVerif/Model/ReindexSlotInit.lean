/-
Per-slot state inventory for C06, built from the lists regenerated from the headers
(`Generated/StateFields.lean`), plus the hand-written justification list.  No Mathlib.
-/
import CelerVerif.Generated.StateFields

namespace CelerVerif.Reindex
open CelerVerif.Generated

def qual (pre : String) (l : List String) : List String := l.map (pre ++ ·)

/-- every per-slot (or per-stream) datum of `CoreStateData`, qualified -/
def allFields : List String :=
  qual "sim." StateFields.sim ++ qual "particles." StateFields.particle
  ++ qual "physics.state." StateFields.physicsTrack
  ++ qual "physics." (StateFields.physics.filter (· != "state"))
  ++ qual "materials.state." StateFields.materialTrack
  ++ qual "materials." (StateFields.material.filter (· != "state"))
  ++ qual "geometry." StateFields.geo ++ qual "rng." StateFields.rng
  ++ qual "init." StateFields.init ++ ["track_slots"]

/-- assigned by `InitTracksExecutor` through the track views' `operator=(Initializer)`;
    geometry fields must be assigned by BOTH initialisation paths (from a position, and from the
    parent's state) -/
def initAssigned : List String :=
  qual "sim." StateFields.simInit ++ qual "particles." StateFields.particleInit
  ++ qual "physics.state." StateFields.physicsInit
  ++ (if StateFields.materialInit.contains "state"
      then qual "materials.state." StateFields.materialTrack else [])
  ++ qual "geometry." (StateFields.geoInit.filter StateFields.geoInitDetailed.contains)

/-- assigned for every slot at the event boundary: `Stepper::reseed` (reseed_rng,
    reset_track_ids) -/
def reseedAssigned : List String := ["rng.state", "init.track_counters"]

/-- Fields that initialisation does NOT assign, each with the code that writes it before any
    read within a step (or guards every read).  This list is the hand-justified part of
    `init_overwrites_every_field`; everything else is regenerated. -/
def writtenBeforeRead : List (String × String) := [
  ("physics.state.macro_xs",
   "PhysicsStepUtils.hh calc_physics_step_limit: `pstep.macro_xs(total_macro_xs)` in pre-step, before select_discrete_interaction / the along-step read it"),
  ("physics.state.energy_deposition",
   "PreStepExecutor.hh: `step.reset_energy_deposition()` for every non-inactive slot at the start of the step"),
  ("physics.state.dedx_range",
   "calc_physics_step_limit: `physics.dedx_range(range)` under `if (auto ppid = physics.eloss_ppid())`; calc_mean_energy_loss reads it under the same condition"),
  ("physics.state.secondaries",
   "PreStepExecutor.hh: `step.secondaries({})` for every non-inactive slot; inactive slots are skipped by the secondary-processing executors (status check first)"),
  ("physics.state.element",
   "PreStepExecutor.hh: `step.element({})`; select_discrete_interaction sets it before the interactor reads it"),
  ("physics.msc_step",
   "MSC step limiter writes `msc_step` in the along-step before the MSC scatter kernel reads it (same action); unused without MSC"),
  ("physics.per_process_xs",
   "calc_physics_step_limit: `pstep.per_process_xs(ppid) = process_xs` for every process of the particle in pre-step, before select_discrete_interaction"),
  ("physics.relaxation",
   "scratch of the atomic relaxation helper: sized and filled inside one interactor call"),
  ("physics.secondaries",
   "the secondary stack: `alloc.clear()` by thread 0 in PreStepExecutor at the start of every step"),
  ("materials.element_scratch",
   "scratch for element selection: filled by the cross-section calculation immediately before the selector reads it"),
  ("geometry.surf",
   "read only while `surface_level` is valid; `OrangeTrackView::surface()` writes surf, sense and surface_level together; init clears surface_level"),
  ("geometry.sense", "as geometry.surf"),
  ("geometry.next_level",
   "read only while `next_surf` is valid (has_next_surface); find_next_step writes next_surf, next_sense and next_level together; init clears next_surf"),
  ("geometry.next_sense", "as geometry.next_level"),
  ("geometry.temp_sense", "scratch: filled by the volume/surface search that reads it"),
  ("geometry.temp_face", "scratch of the intersection search"),
  ("geometry.temp_distance", "scratch of the intersection search"),
  ("geometry.temp_isect", "scratch of the intersection search"),
  ("init.parents",
   "ExtendFromSecondaries (ProcessSecondariesExecutor) writes parents[k] for each new initializer before InitTracksExecutor reads it (only for tid < num_secondaries)"),
  ("init.indices",
   "init_charge only: partition_initializers fills it in the same InitializeTracksAction before the executor reads it"),
  ("init.secondary_counts",
   "LocateAliveExecutor writes the count of every slot before the exclusive scan / ProcessSecondariesExecutor read it"),
  ("init.vacancies",
   "valid entries are [0, num_vacancies): rebuilt by ExtendFromSecondaries (remove_if_alive) every step; CoreState::reset refills the sequence; after a completed event all slots are vacant (C02)"),
  ("init.initializers",
   "valid entries are [0, num_initializers): written by ExtendFromPrimaries / ProcessSecondaries before the counter is raised; counter reset by CoreState::reset"),
  ("track_slots",
   "a permutation of the slots at all times (shuffle / sort / partition only permute it); results do not depend on which permutation (slot_local_map_perm_invariant)")
]

/-- what InitTracksExecutor must assign -/
def requiredInitCalls : List String := ["sim", "particle", "geo", "geoDetailed", "material", "physics"]

end CelerVerif.Reindex
