/-
Bit-level IEEE-754 binary64 arithmetic for KERNEL evaluation (`decide +kernel`): Lean's `Float`
is opaque to the kernel, so Float-level witnesses about the `Num`-generic model of Model/Calc.lean
are stated at `α := B64`, whose `+ − × ÷ fma neg abs < ≤ ==` are computed exactly on bit
patterns (decode → integer arithmetic → round-to-nearest-even → encode, reusing `F64.fmaBits` /
`F64.roundToF64`).  The transcendental operations are NOT modelled at `B64` (they return NaN):
only statements about code that does not use them (the interpolator) are made at `B64`.
The arithmetic is cross-checked against the hardware on every run by the `bitop` op of the
driver (harness/calc.cc answers with the C++ double operations).  No Mathlib.
-/
import CelerVerif.Num.F64

namespace CelerVerif.F64

def oneBits : UInt64 := 0x3ff0000000000000
def zeroBits (neg : Bool) : UInt64 := UInt64.ofNat (signBit neg)
def negBits (a : UInt64) : UInt64 := a ^^^ 0x8000000000000000
def absBits (a : UInt64) : UInt64 := a &&& 0x7fffffffffffffff

def isNanBits (a : UInt64) : Bool :=
  let n := a.toNat
  (n >>> 52) % 2048 == 2047 && n % (2 ^ 52) != 0

def signOf (a : UInt64) : Bool := a.toNat >>> 63 == 1

/-- IEEE addition: `a·1 + b` with one rounding -/
def addBits (a b : UInt64) : UInt64 := fmaBits a oneBits b
def subBits (a b : UInt64) : UInt64 := addBits a (negBits b)
/-- IEEE multiplication: `a·b + (±0)` with the product's sign on the zero -/
def mulBits (a b : UInt64) : UInt64 := fmaBits a b (zeroBits (signOf a != signOf b))

/-- IEEE division: quotient to 120 extra bits + sticky bit, then round-to-nearest-even -/
def divBits (a b : UInt64) : UInt64 :=
  match decode a, decode b with
  | .nan, _ => nanBits
  | _, .nan => nanBits
  | .inf _, .inf _ => nanBits
  | .inf sa, .fin sb _ _ => infBits (sa != sb)
  | .fin sa _ _, .inf sb => zeroBits (sa != sb)
  | .fin sa ma ea, .fin sb mb eb =>
    if mb = 0 then (if ma = 0 then nanBits else infBits (sa != sb))
    else if ma = 0 then zeroBits (sa != sb)
    else
      let num := ma <<< 120
      let q := num / mb
      let n := 2 * q + (if num % mb = 0 then 0 else 1)
      roundToF64 (sa != sb) n (ea - eb - 121)

/-- order key of a non-NaN value (−0 and +0 both 0) -/
def keyOf (a : UInt64) : Int :=
  let m : Int := Int.ofNat (absBits a).toNat
  if signOf a then -m else m

def ltBits (a b : UInt64) : Bool := !isNanBits a && !isNanBits b && decide (keyOf a < keyOf b)
def leBits (a b : UInt64) : Bool := !isNanBits a && !isNanBits b && decide (keyOf a ≤ keyOf b)
def eqBits (a b : UInt64) : Bool := !isNanBits a && !isNanBits b && decide (keyOf a = keyOf b)

end CelerVerif.F64

namespace CelerVerif

/-- a binary64 value as its bit pattern -/
structure B64 where
  bits : UInt64
deriving Repr, Inhabited, DecidableEq

instance : Num B64 where
  add a b := ⟨F64.addBits a.bits b.bits⟩
  sub a b := ⟨F64.subBits a.bits b.bits⟩
  mul a b := ⟨F64.mulBits a.bits b.bits⟩
  div a b := ⟨F64.divBits a.bits b.bits⟩
  neg a := ⟨F64.negBits a.bits⟩
  abs a := ⟨F64.absBits a.bits⟩
  sqrt _ := ⟨F64.nanBits⟩      -- not modelled at B64
  exp _ := ⟨F64.nanBits⟩       -- not modelled at B64
  log _ := ⟨F64.nanBits⟩       -- not modelled at B64
  sin _ := ⟨F64.nanBits⟩       -- not modelled at B64
  cos _ := ⟨F64.nanBits⟩       -- not modelled at B64
  fma a b c := ⟨F64.fmaBits a.bits b.bits c.bits⟩
  lt a b := F64.ltBits a.bits b.bits
  le a b := F64.leBits a.bits b.bits
  eq a b := F64.eqBits a.bits b.bits
  ofNat n := ⟨F64.roundToF64 false n 0⟩
  ofSci m s e :=
    if s then
      -- m / 10^e, correctly rounded (sticky bit as in `divBits`)
      let num := m <<< 1200
      let q := num / 10 ^ e
      ⟨F64.roundToF64 false (2 * q + (if num % 10 ^ e = 0 then 0 else 1)) (-1201)⟩
    else ⟨F64.roundToF64 false (m * 10 ^ e) 0⟩
  inf := ⟨F64.infBits false⟩

end CelerVerif
