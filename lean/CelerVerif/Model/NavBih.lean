/-
The bounding interval hierarchy (BIH) of a simple unit as a tree, and the decidable
well-formedness check of the stored arrays (what BIHBuilder / BIHPartitioner produce:
src/orange/detail/BIHBuilder.cc, BIHPartitioner.cc):
  * node 0 is the root; inner nodes come first, then leaves (`arrange_nodes`);
  * every inner node names two distinct children whose parent pointer is that node;
  * the left bounding plane of an inner node is an upper bound (on the node's axis) of the
    bounding boxes of all volumes stored below the left child, the right plane a lower bound of
    those below the right child (`position = union(bboxes).upper()[ax]` / `.lower()[ax]`);
  * every stored node belongs to the tree;
  * every volume is in some leaf, or in `inf_volids` (infinite bbox), or has a null bbox.
Executable (the driver evaluates it on the real trees dumped by the harness); no Mathlib.
-/
import CelerVerif.Model.Nav

namespace CelerVerif.Nav
open CelerVerif CelerVerif.Surf

variable {α : Type} [Num α]

inductive BTree (α : Type) where
  | leaf (id : Nat) (parent : Option Nat) (vols : List Nat)
  | node (id : Nat) (nd : BihInner α) (l r : BTree α)

def BTree.id : BTree α → Nat
  | .leaf id _ _ => id
  | .node id _ _ _ => id

def BTree.size : BTree α → Nat
  | .leaf _ _ _ => 1
  | .node _ _ l r => 1 + l.size + r.size

/-- all volumes stored in the leaves, left to right -/
def BTree.vols : BTree α → List Nat
  | .leaf _ _ vs => vs
  | .node _ _ l r => l.vols ++ r.vols

/-- read the tree below node `n` out of the arrays by following the child links (`fuel`
    bounds the depth: a cycle or a missing child gives `none`) -/
def bihTree (u : SimpleUnit α) : Nat → Nat → Option (BTree α)
  | 0, _ => none
  | fuel + 1, n =>
    if n < u.inner.size then
      let nd := u.innerNode n
      match nd.lchild, nd.rchild with
      | some l, some r =>
        match bihTree u fuel l, bihTree u fuel r with
        | some tl, some tr => some (.node n nd tl tr)
        | _, _ => none
      | _, _ => none
    else if n - u.inner.size < u.leaves.size then
      some (.leaf n (u.leafNode n).parent (u.leafNode n).vols)
    else none

/-- parent / child links: the node's parent pointer is `parent`, the two children are distinct,
    differ from the parent and point back to this node -/
def linksOK : BTree α → Option Nat → Bool
  | .leaf _ par _, parent => par == parent
  | .node id nd l r, parent =>
    nd.parent == parent && l.id != r.id && some l.id != parent && some r.id != parent
      && linksOK l (some id) && linksOK r (some id)

/-- the bounding planes cover the boxes below: left plane ≥ upper ends, right plane ≤ lower ends
    on the node's axis -/
def coverOK (u : SimpleUnit α) : BTree α → Bool
  | .leaf _ _ _ => true
  | .node _ nd l r =>
    nd.axis < 3
      && l.vols.all (fun v => Num.le ((u.vol v).bbHi.get nd.axis) nd.lpos)
      && r.vols.all (fun v => Num.le nd.rpos ((u.vol v).bbLo.get nd.axis))
      && coverOK u l && coverOK u r

/-- no point is inside a null bounding box -/
def bboxNull (v : Volume α) : Bool :=
  !(Num.le v.bbLo.x v.bbHi.x && Num.le v.bbLo.y v.bbHi.y && Num.le v.bbLo.z v.bbHi.z)

def allVolsPlaced (u : SimpleUnit α) (t : BTree α) : Bool :=
  (List.range u.volumes.size).all fun v =>
    u.infVols.contains v || t.vols.contains v || bboxNull (u.vol v)

def SimpleUnit.numNodes (u : SimpleUnit α) : Nat := u.inner.size + u.leaves.size

/-- ★ the decidable well-formedness predicate of the stored BIH -/
def bihWellFormed (u : SimpleUnit α) : Bool :=
  match bihTree u (u.numNodes + 1) 0 with
  | none => false
  | some t => linksOK t none && coverOK u t && t.size == u.numNodes && allVolsPlaced u t

/-- which part fails (for the report of the check) -/
def bihDiagnose (u : SimpleUnit α) : String :=
  match bihTree u (u.numNodes + 1) 0 with
  | none => "no-tree"
  | some t =>
    if !linksOK t none then "links"
    else if !coverOK u t then "planes"
    else if !(t.size == u.numNodes) then "stray-nodes"
    else if !allVolsPlaced u t then "volume-not-placed"
    else "ok"

/-- candidates of the depth-first traversal, left before right: a leaf offers its volumes whose
    bbox contains the point; an inner node descends into the left child iff `p[axis] < lpos`;
    into the right child iff it did NOT descend left, or `rpos < p[axis]` -/
def BTree.cands (u : SimpleUnit α) (p : Vec3 α) : BTree α → List Nat
  | .leaf _ _ vs => vs.filter fun v => inBBox (u.vol v) p
  | .node _ nd l r =>
    if Num.lt (p.get nd.axis) nd.lpos then
      l.cands u p ++ (if Num.lt nd.rpos (p.get nd.axis) then r.cands u p else [])
    else r.cands u p

/-- loop iterations of `BIHTraverser::operator()` spent in a subtree: a leaf once, an inner
    node once per arrival (from the parent, from the left child, from the right child) -/
def BTree.steps (p : Vec3 α) : BTree α → Nat
  | .leaf _ _ _ => 1
  | .node _ nd l r =>
    if Num.lt (p.get nd.axis) nd.lpos then
      1 + l.steps p + 1 + (if Num.lt nd.rpos (p.get nd.axis) then r.steps p + 1 else 0)
    else 1 + r.steps p + 1

/-! ### BIHBuilder::construct_tree at tree level -/

/-- `calc_union(bboxes, indices).upper()[ax]` / `.lower()[ax]` -/
def maxHi (u : SimpleUnit α) (ax : Nat) : List Nat → α
  | [] => Num.ofNat 0
  | [v] => (u.vol v).bbHi.get ax
  | v :: vs => Num.max ((u.vol v).bbHi.get ax) (maxHi u ax vs)

def minLo (u : SimpleUnit α) (ax : Nat) : List Nat → α
  | [] => Num.ofNat 0
  | [v] => (u.vol v).bbLo.get ax
  | v :: vs => Num.min ((u.vol v).bbLo.get ax) (minLo u ax vs)

/-- the recursion of `construct_tree` with an ARBITRARY partitioner `part` (axis and the two
    index lists, or `none` = make a leaf): the left plane is the upper end of the union of the
    left boxes, the right plane the lower end of the union of the right boxes.  (Node ids,
    parent pointers and the inner-first rearrangement of `arrange_nodes` are not modelled.) -/
def buildTree (u : SimpleUnit α) (part : List Nat → Option (Nat × List Nat × List Nat)) :
    Nat → List Nat → BTree α
  | 0, idx => .leaf 0 none idx
  | fuel + 1, idx =>
    match part idx with
    | some (ax, li, ri) =>
      .node 0 ⟨none, ax, maxHi u ax li, none, minLo u ax ri, none⟩
        (buildTree u part fuel li) (buildTree u part fuel ri)
    | none => .leaf 0 none idx

end CelerVerif.Nav
