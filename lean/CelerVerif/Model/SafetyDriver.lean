/-
Line protocol for the safety model at `Float` (C++ side: harness/safety.cc).

  safety <tag> <data…> | x y z          CalcSafetyDistance{pos}(surf)            → hex double
  flag   <tag> <data…> |                S::simple_safety()                       → 0 / 1
  findmax m x y z / <level> / …         same, through the overload find_safety(max_step = m)
  find x y z / <level> / <level> …      OrangeTrackView::find_safety() on a geometry with one
                                        universe per level, daughter of volume 1 (unit) or of
                                        every cell (rect array) of the previous level
       level := <xf> <geom>
       xf    := n | t tx ty tz | x r00 … r22 tx ty tz          (transform from parent)
       geom  := u <inflags> ; <tag> <data…> ; <tag> <data…> …  (faces of the one volume)
              | r <volid> <nx> gx… <ny> gy… <nz> gz…
    → `flags=<f0>,<s0> <f1>,<s1> … safety=<hex>`  (per unit level: VolumeRecord.flags after
       insert_volume and SimpleUnitRecord.simple_safety; `-` for rect levels), or `init-failed`
       when some face of a unit level is exactly `on` at the local position.
Surface syntax is the one of SurfDriver.lean (type tag + storage data as hex doubles).
-/
import CelerVerif.Model.Safety
import CelerVerif.Model.SurfDriver

namespace CelerVerif.Safety
open CelerVerif CelerVerif.Surf CelerVerif.Util

/-- split a token list at every occurrence of `sep` -/
def splitAt (sep : String) (ws : List String) : List (List String) :=
  let (cur, acc) := ws.foldl (fun (st : List String × List (List String)) w =>
    if w == sep then ([], st.1.reverse :: st.2) else (w :: st.1, st.2)) ([], [])
  (cur.reverse :: acc).reverse

def parseSurf (ws : List String) : Option (Surface Float) :=
  match ws with
  | tag :: ds => (pfs ds).bind (parseSurface tag)
  | [] => none

def parseXf (ws : List String) : Option (LevelXf Float × List String) :=
  match ws with
  | "n" :: rest => some (.noTransformation, rest)
  | "t" :: a :: b :: c :: rest =>
    (pfs [a, b, c]).bind fun
      | [x, y, z] => some (.translation ⟨x, y, z⟩, rest)
      | _ => none
  | "x" :: rest =>
    if rest.length < 12 then none else
    (pfs (rest.take 12)).bind fun
      | [a, b, c, d, e, f, g, h, i, tx, ty, tz] =>
        some (.transformation ⟨⟨⟨a, b, c⟩, ⟨d, e, f⟩, ⟨g, h, i⟩⟩, ⟨tx, ty, tz⟩⟩, rest.drop 12)
      | _ => none
  | _ => none

/-- `<n> v1 … vn` -/
def parseGrid (ws : List String) : Option (List Float × List String) :=
  match ws with
  | n :: rest =>
    match n.toNat? with
    | some k =>
      if rest.length < k || k < 2 then none
      else (pfs (rest.take k)).map fun g => (g, rest.drop k)
    | none => none
  | [] => none

def parseGeom (ws : List String) : Option (LevelGeom Float) :=
  match ws with
  | "u" :: fl :: rest =>
    match fl.toNat?, splitAt ";" rest with
    | some f, [] :: surfs => (surfs.mapM parseSurf).map fun fs => .unit f fs
    | _, _ => none
  | "r" :: v :: rest =>
    match v.toNat? with
    | some vid =>
      (parseGrid rest).bind fun (gx, r1) =>
      (parseGrid r1).bind fun (gy, r2) =>
      (parseGrid r2).bind fun (gz, r3) =>
        if r3.isEmpty && vid < (gx.length - 1) * (gy.length - 1) * (gz.length - 1)
        then some (.rect gx gy gz vid) else none
    | none => none
  | _ => none

def parseLevel (ws : List String) : Option (Level Float) :=
  (parseXf ws).bind fun (xf, rest) => (parseGeom rest).map fun g => ⟨xf, g⟩

/-- a unit level fails to initialise when the point is exactly on one of the volume's faces -/
def levelOnSurface (l : Level Float) (p : Vec3 Float) : Bool :=
  match l.geom with
  | .unit _ faces => faces.any fun s => s.calcSense p == .on
  | .rect .. => false

def levelFlags (l : Level Float) : String :=
  match l.geom with
  | .unit f faces =>
    let fl := insertVolumeFlags f faces
    s!"{fl},{if supportsSimpleSafety fl then 1 else 0}"
  | .rect .. => "-"

def findOp (maxStep : Option Float) (pos : Vec3 Float) (levels : List (Level Float)) : String :=
  let ps := levelPositions levels pos
  if (levels.zip ps).any fun (l, p) => levelOnSurface l p then "init-failed"
  else
    -- the tracker sees the flags *after* insert_volume
    let lv := levels.map fun l =>
      match l.geom with
      | .unit f faces => { l with geom := .unit (insertVolumeFlags f faces) faces }
      | _ => l
    let fl := " ".intercalate (levels.map levelFlags)
    let r := match maxStep with
      | none => findSafety lv pos
      | some m => findSafetyMax m lv pos
    s!"flags={fl} safety={hxo r}"

def isUnit : Option (Level Float) → Bool
  | some ⟨_, .unit ..⟩ => true
  | _ => false

def driverStep (st : Unit) (line : String) : Unit × String :=
  (st, match words line with
  | "safety" :: rest => withSurface rest fun s a =>
      match a with
      | [x, y, z] => hxo (calcSafety s ⟨x, y, z⟩)
      | _ => "bad-op"
  | "flag" :: rest => withSurface rest fun s a =>
      match a with
      | [] => if simpleSafety s then "1" else "0"
      | _ => "bad-op"
  | "find" :: rest =>
      (match splitAt "/" rest with
       | p :: lvls =>
         match pfs p, lvls.mapM parseLevel with
         | some [x, y, z], some ls =>
           -- the global universe and the innermost universe must be units
           if isUnit ls.head? && isUnit ls.getLast? then findOp none ⟨x, y, z⟩ ls else "bad-op"
         | _, _ => "bad-op"
       | [] => "bad-op")
  | "findmax" :: rest =>
      (match splitAt "/" rest with
       | p :: lvls =>
         match pfs p, lvls.mapM parseLevel with
         | some [m, x, y, z], some ls =>
           if isUnit ls.head? && isUnit ls.getLast? then findOp (some m) ⟨x, y, z⟩ ls
           else "bad-op"
         | _, _ => "bad-op"
       | [] => "bad-op")
  | _ => "bad-op")

end CelerVerif.Safety
