/-
(core part: no jump tables, so the period certificates do not depend on them)
Executable model of `celeritas::XorwowRngEngine` (src/celeritas/random/XorwowRngEngine.hh),
`XorwowRngParams` tables, `GenerateCanonical32<double>` and the subsequence formula of
`reseed_rng`.  Words are `BitVec 32` (uint32 wrap-around arithmetic), counts are `Nat`
restricted to `< 2^64` by the callers / theorem hypotheses (`ull_int`).

No Mathlib import (this file is linked into the `celer_model` executable).
-/
import CelerVerif.Generated.XorwowConsts

namespace CelerVerif.Xorwow
open CelerVerif.Generated.Xorwow

abbrev W := BitVec 32

/-- `XorwowState::xorstate` : five 32-bit words. -/
structure XS where
  s0 : W
  s1 : W
  s2 : W
  s3 : W
  s4 : W
deriving DecidableEq, Repr, Inhabited

/-- `XorwowState` : xorshift words plus the Weyl counter. -/
structure State where
  xs : XS
  weyl : W
deriving DecidableEq, Repr, Inhabited

namespace XS
def zero : XS := ⟨0, 0, 0, 0, 0⟩
def xor (a b : XS) : XS := ⟨a.s0 ^^^ b.s0, a.s1 ^^^ b.s1, a.s2 ^^^ b.s2, a.s3 ^^^ b.s3, a.s4 ^^^ b.s4⟩

/-- `XorwowRngEngine::next()` — shift amounts come from the generated constants. -/
def next (s : XS) : XS :=
  let t := s.s0 ^^^ (s.s0 >>> shiftA)
  { s0 := s.s1, s1 := s.s2, s2 := s.s3, s3 := s.s4,
    s4 := (s.s4 ^^^ (s.s4 <<< shiftC)) ^^^ (t ^^^ (t <<< shiftB)) }
end XS

/-- A jump polynomial: `Array<uint_t,5>`, low word first. -/
structure Poly where
  w0 : W
  w1 : W
  w2 : W
  w3 : W
  w4 : W
deriving DecidableEq, Repr, Inhabited

def Poly.word (g : Poly) : Nat → W
  | 0 => g.w0 | 1 => g.w1 | 2 => g.w2 | 3 => g.w3 | _ => g.w4

def Poly.ofList : List Nat → Poly
  | [a, b, c, d, e] => ⟨BitVec.ofNat 32 a, BitVec.ofNat 32 b, BitVec.ofNat 32 c,
                        BitVec.ofNat 32 d, BitVec.ofNat 32 e⟩
  | _ => ⟨0, 0, 0, 0, 0⟩

/-- the bit test `jump_poly[i] & (1 << j)` -/
def Poly.bit (g : Poly) (i j : Nat) : Bool := (g.word i &&& ((1 : W) <<< j)) != 0

/-- One iteration of the inner loop of `jump(JumpPoly const&)`:
    `if (bit) s ^= xorstate; next();` on the pair (accumulator `s`, live state). -/
def polyStep (p : XS × XS) (b : Bool) : XS × XS :=
  (if b then p.1.xor p.2 else p.1, p.2.next)

/-- `XorwowRngEngine::jump(JumpPoly const&)`: the double loop over words and bits. -/
def applyPoly (g : Poly) (x : XS) : XS :=
  ((List.range 5).foldl
      (fun p i => (List.range 32).foldl (fun p j => polyStep p (g.bit i j)) p)
      (XS.zero, x)).1

/-- `jump_poly_arr[jump_idx]`; an index past the table is unreachable for 64-bit counts
    (the `CELER_ASSERT` is compiled out); the model then uses the zero polynomial. -/
def tabGet (tab : List (List Nat)) (i : Nat) : Poly := Poly.ofList (tab.getD i [])

/-- `for (i < num_jump) jump(poly)` -/
def applyN (g : Poly) : Nat → XS → XS
  | 0, x => x
  | n + 1, x => applyN g n (applyPoly g x)

/-- `XorwowRngEngine::jump(ull_int count, ArrayJumpPoly const&)`:
    base-4 digit loop (`count & 3` applications of polynomial `idx`, then `count >>= 2`). -/
def jumpLoop (tab : List (List Nat)) (count idx : Nat) (x : XS) : XS :=
  if h : count = 0 then x
  else
    jumpLoop tab (count >>> digitShift) (idx + 1)
      (applyN (tabGet tab idx) (count &&& maxNumJump) x)
termination_by count
decreasing_by
  simp only [digitShift, Nat.shiftRight_eq_div_pow]
  exact Nat.div_lt_self (Nat.pos_of_ne_zero h) (by decide)

end CelerVerif.Xorwow
