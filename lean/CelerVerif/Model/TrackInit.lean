/-
Model of the track-initialisation machinery of celeritas, as written:
  ExtendFromPrimariesAction.cc (insert, step_impl, ProcessPrimariesExecutor),
  InitializeTracksAction.cc (+ InitTracksExecutor, partition_initializers, index helpers),
  ExtendFromSecondariesAction.cc (+ LocateAliveExecutor, remove_if_alive,
  exclusive_scan_counts, capacity check, ProcessSecondariesExecutor),
  CoreState::reset, Stepper::operator() / reseed,
plus the three neighbouring actions that change `sim.status`: pre-step (initializing → alive),
a *physics oracle* (what the along/post-step actions did to every alive track), and the
tracking cut (errored → killed).

No Mathlib (linked into `celer_model_c02`).  Kernel loops are modelled sequentially in thread
order (this build runs track loops sequentially: CELERITAS_OPENMP = event).
Fields marked *ghost* are not in the C++ state; they record history for the theorems.
-/
namespace CelerVerif.TrackInit

inductive Status where
  | inactive | initializing | alive | errored | killed
deriving Repr, DecidableEq, Inhabited

/-- `TrackOrder`: `none`, `init_charge`, or any of the `reindex_*` orders.  The latter only
    permute the thread→slot map `track_slots`, which none of the track-initialisation kernels
    consults (they address slots directly), and every test in those kernels is
    `== / != TrackOrder::init_charge` (Generated/TrackInitEnums.lean `trackOrderMentions`). -/
inductive Order where
  | none | initCharge | reindex
deriving Repr, DecidableEq, Inhabited

structure Cfg where
  slots : Nat
  capacity : Nat
  maxEvents : Nat
  order : Order
deriving Repr, DecidableEq, Inhabited

/-- `Primary` (only what track initialisation looks at).  `pos` is an abstract position tag;
    tags `≥ outsideTag` lie outside the world (geometry initialisation fails). -/
structure Primary where
  ev : Nat
  particle : Nat
  pos : Nat
deriving Repr, DecidableEq, Inhabited

def outsideTag : Nat := 0x1000

/-- `TrackInitializer` -/
structure Init where
  tid : Nat
  parent : Option Nat
  ev : Nat
  particle : Nat
  pos : Nat
deriving Repr, DecidableEq, Inhabited

/-- one entry of a slot's per-step secondary span; `valid = false` is a cleared secondary -/
structure Sec where
  valid : Bool
  particle : Nat
deriving Repr, DecidableEq, Inhabited

structure Slot where
  status : Status
  tid : Option Nat
  parent : Option Nat
  ev : Nat
  steps : Nat
  particle : Nat
  pos : Nat
  secs : List Sec
deriving Repr, DecidableEq, Inhabited

def Slot.empty : Slot := ⟨.inactive, none, none, 0, 0, 0, 0, []⟩

structure Counters where
  numGenerated : Nat
  numInitializers : Nat
  numVacancies : Nat
  numActive : Nat
  numSecondaries : Nat
  numAlive : Nat
deriving Repr, DecidableEq, Inhabited

/-- *ghost* identity of a track -/
structure Rec where
  ev : Nat
  tid : Nat
  parent : Option Nat
deriving Repr, DecidableEq, Inhabited

structure State where
  cfg : Cfg
  slots : List Slot                -- SimStateData etc., one per track slot
  vacancies : List Nat             -- TrackInitStateData::vacancies (valid, compacted part)
  initializers : List Init         -- storage of size `capacity`; valid part is `take numInitializers`
  parents : List (Option Nat)      -- size `slots`
  indices : List Nat               -- size `slots` (init_charge only)
  secCounts : List Nat             -- size `slots + 1`
  trackCounters : List Nat         -- size `maxEvents`
  c : Counters
  pending : List Primary           -- PrimaryStateData (count = length)
  created : List Rec               -- ghost: every id handed out by make_track_id
  started : List Rec               -- ghost: every track ever placed in a slot
  finished : List Rec              -- ghost: every track whose slot was released/overwritten
deriving Repr, DecidableEq, Inhabited

/-- `ParticleView::charge() == 0` in the test problems: particle 0 is the gamma -/
def isNeutral (particle : Nat) : Bool := particle == 0

def State.init (cfg : Cfg) : State where
  cfg := cfg
  slots := List.replicate cfg.slots Slot.empty
  vacancies := List.range cfg.slots
  initializers := List.replicate cfg.capacity default
  parents := List.replicate cfg.slots none
  indices := List.replicate cfg.slots 0
  secCounts := List.replicate (cfg.slots + 1) 0
  trackCounters := List.replicate cfg.maxEvents 0
  c := ⟨0, 0, cfg.slots, 0, 0, 0⟩
  pending := []
  created := []
  started := []
  finished := []

inductive Err where
  | capacity          -- CELER_VALIDATE(... capacity ...) failed
  | notImplemented    -- "multiple consecutive primary insertions"
  | maxEvents         -- Stepper: "event number ... exceeds max_events"
deriving Repr, DecidableEq

/-! ### index helpers (detail/Utils.hh) -/

def indexBefore (size tid : Nat) : Nat := size - tid - 1
def indexAfter (size tid : Nat) : Nat := size + tid
def indexPartitioned (numNew numVac : Nat) (fromFront : Bool) (tid : Nat) : Nat :=
  if fromFront then indexBefore numNew tid else indexBefore numVac tid

/-- `make_track_id`: atomic_add on the event's counter, returns the old value -/
def makeTrackId (s : State) (ev : Nat) : Nat × State :=
  let t := s.trackCounters.getD ev 0
  (t, { s with trackCounters := s.trackCounters.set ev (t + 1) })

/-! ### ExtendFromPrimariesAction -/

/-- `ExtendFromPrimariesAction::insert` -/
def insertPrimaries (ps : List Primary) (s : State) : Except Err State :=
  if ¬ (ps.length + s.c.numInitializers ≤ s.cfg.capacity) then .error .capacity
  else if s.pending.length ≠ 0 then .error .notImplemented
  else .ok { s with pending := ps }

/-- `ProcessPrimariesExecutor::operator()(tid)`; `n` = number of primaries, counters already
    incremented -/
def processPrimary (n : Nat) (s : State) (tid : Nat) : State :=
  let idx := indexAfter (s.c.numInitializers - n) tid
  let p := s.pending.getD tid default
  let (t, s1) := makeTrackId s p.ev
  let ti : Init := ⟨t, none, p.ev, p.particle, p.pos⟩
  { s1 with initializers := s1.initializers.set idx ti,
            created := s1.created ++ [(⟨p.ev, t, none⟩ : Rec)] }

/-- `ExtendFromPrimariesAction::step_impl` -/
def extendFromPrimaries (s : State) : State :=
  let n := s.pending.length
  let s1 := { s with c := { s.c with numInitializers := s.c.numInitializers + n } }
  let s2 := (List.range n).foldl (processPrimary n) s1
  { s2 with c := { s2.c with numGenerated := s2.c.numGenerated + n },
            pending := [],
            parents := List.replicate s2.parents.length none }

/-! ### InitializeTracksAction -/

/-- `std::stable_partition` of the first `n` indices by neutrality of the initializer
    `stencil[i]`, `stencil = initializers + numInitializers - n` (specification of the
    library algorithm: neutral ones first, both groups in their original order) -/
def partitionIndices (s : State) (n : Nat) : List Nat :=
  let stencil := fun i => isNeutral (s.initializers.getD (s.c.numInitializers - n + i) default).particle
  let front := s.indices.take n
  front.filter stencil ++ front.filter (fun i => !stencil i) ++ s.indices.drop n

/-- the freshly initialised slot: `sim = init.sim`, `particle = init.particle`, geometry either
    copied from the parent's slot (`parentPos`) or initialised from the position (which fails
    outside the world: `apply_errored`, return) -/
def newTrackSlot (ini : Init) (old : Slot) (parentPos : Option Nat) : Slot :=
  let base : Slot := { old with status := .initializing, tid := some ini.tid,
                                parent := ini.parent, ev := ini.ev, steps := 0,
                                particle := ini.particle }
  match parentPos with
  | some pos => { base with pos := pos }
  | none =>
    if ini.pos ≥ outsideTag then { base with status := .errored, pos := ini.pos }
    else { base with pos := ini.pos }

/-- `get_idx(size)` of `InitTracksExecutor` -/
def initGetIdx (s : State) (n tid size : Nat) : Nat :=
  if s.cfg.order = .initCharge then s.indices.getD (indexBefore n tid) 0 + size - n
  else indexBefore size tid

/-- index into the vacancy array used by thread `tid` for initializer `ini` -/
def initVacIdx (s : State) (c : Counters) (n tid : Nat) (ini : Init) : Nat :=
  if s.cfg.order = .initCharge then
    indexPartitioned n c.numVacancies (isNeutral ini.particle) tid
  else indexBefore c.numVacancies tid

/-- `InitTracksExecutor::operator()(tid)`; `c` is the executor's by-value copy of the counters -/
def initTrack (c : Counters) (n : Nat) (s : State) (tid : Nat) : State :=
  let ini := s.initializers.getD (initGetIdx s n tid c.numInitializers) default
  let slot := s.vacancies.getD (initVacIdx s c n tid ini) 0
  let parentSlot : Option Nat :=
    if ¬ (tid < c.numSecondaries) then none
    else s.parents.getD (initGetIdx s n tid s.parents.length) none
  let parentPos := parentSlot.map fun p => (s.slots.getD p Slot.empty).pos
  { s with slots := s.slots.set slot (newTrackSlot ini (s.slots.getD slot Slot.empty) parentPos),
           started := s.started ++ [(⟨ini.ev, ini.tid, ini.parent⟩ : Rec)] }

/-- `InitializeTracksAction::step_impl` (not warming up) -/
def initializeTracks (s : State) : State :=
  let n := min s.c.numVacancies s.c.numInitializers
  let s3 :=
    if n > 0 then
      let s1 :=
        if s.cfg.order = .initCharge then
          -- fill_sequence over the whole `indices` collection, whose size is the number of
          -- track slots (TrackInitData.hh `resize(&data->indices, size)`)
          let s0 := { s with indices := List.range s.slots.length }
          { s0 with indices := partitionIndices s0 n }
        else s
      let s2 := (List.range n).foldl (initTrack s1.c n) s1
      let s2 := { s2 with c := { s2.c with numInitializers := s2.c.numInitializers - n,
                                            numVacancies := s2.c.numVacancies - n } }
      if s.cfg.order = .initCharge then
        { s2 with parents := List.replicate s2.parents.length none }
      else s2
    else s
  { s3 with c := { s3.c with numActive := s3.cfg.slots - s3.c.numVacancies } }

/-! ### neighbours: pre-step, physics oracle, tracking cut -/

/-- pre-step: a non-errored active slot becomes `alive`; the step's secondaries are cleared
    for every non-inactive slot (release build: not for inactive ones) -/
def preStepSlot (x : Slot) : Slot :=
  match x.status with
  | .inactive => x
  | .errored => { x with secs := [] }
  | _ => { x with status := .alive, secs := [] }

def preStep (s : State) : State := { s with slots := s.slots.map preStepSlot }

/-- what the physics did to one track during this step -/
structure Outcome where
  status : Status          -- alive / killed / errored
  secs : List Sec
deriving Repr, DecidableEq, Inhabited

/-- the along/post-step actions apply to valid (non-inactive, non-errored) tracks only -/
def interactSlot (x : Slot) (o : Outcome) : Slot :=
  match x.status with
  | .inactive => x
  | .errored => x
  | _ => { x with status := o.status, secs := o.secs, steps := x.steps + 1 }

def interact (oracle : List Outcome) (s : State) : State :=
  -- slots beyond the oracle's length keep running unchanged
  let pad := oracle ++ List.replicate (s.slots.length - oracle.length) ⟨.alive, []⟩
  { s with slots := List.zipWith interactSlot s.slots pad }

/-- tracking cut: an errored track is killed inside the same step -/
def cutSlot (x : Slot) : Slot :=
  match x.status with
  | .errored => { x with status := .killed }
  | _ => x

def trackingCut (s : State) : State := { s with slots := s.slots.map cutSlot }

/-! ### ExtendFromSecondariesAction -/

def countValid (l : List Sec) : Nat := (l.filter (·.valid)).length

/-- `LocateAliveExecutor`: per slot (vacancy entry, secondary count); `none` = `occupied()` -/
def locateSlot (order : Order) (tid : Nat) (x : Slot) : Option Nat × Nat :=
  let n := if x.status ≠ .inactive then countValid x.secs else 0
  if x.status = .alive then (none, n)
  else if n > 0 ∧ order ≠ .initCharge then (none, n - 1)
  else (some tid, n)

/-- `exclusive_scan_counts` (specification of `std::exclusive_scan`, in place): element `i`
    becomes the sum of the elements before it; returns the array and its last element -/
def exclusiveScan (l : List Nat) : List Nat × Nat :=
  ((List.range l.length).map fun i => (l.take i).sum, (l.take (l.length - 1)).sum)

/-- inner loop of `ProcessSecondariesExecutor` over one slot's secondaries.
    Loop state: (state, offset, initialized); `status0` is `sim.status()` read at each
    iteration (changes to `initializing` after an in-place initialisation). -/
structure PSLoop where
  s : State
  offset : Nat
  initialized : Bool

/-- ghost: identity of the track leaving a slot -/
def finOf (x : Slot) : List Rec :=
  match x.tid with
  | some old => [⟨x.ev, old, x.parent⟩]
  | none => []

/-- `make_track_id` for a secondary of the track in slot content `x` (+ ghost record) -/
def mintSec (s : State) (x : Slot) (parentId : Option Nat) : State :=
  { (makeTrackId s x.ev).2 with
      created := s.created ++ [(⟨x.ev, s.trackCounters.getD x.ev 0, parentId⟩ : Rec)] }

/-- initialise the first secondary in the (dying) parent's slot: `sim = ti.sim`, geometry
    state kept, `particle = ti.particle`, physics state reset -/
def psInplace (s : State) (tid : Nat) (x : Slot) (parentId : Option Nat) (sec : Sec) : State :=
  let t := s.trackCounters.getD x.ev 0
  let s1 := mintSec s x parentId
  let new : Slot := { x with status := .initializing, tid := some t, parent := parentId,
                             steps := 0, particle := sec.particle }
  { s1 with slots := s1.slots.set tid new,
            started := s1.started ++ [(⟨x.ev, t, parentId⟩ : Rec)],
            finished := s1.finished ++ finOf x }

/-- store the track initializer at `num_initializers - offset` and remember the parent slot -/
def psPush (c : Counters) (s : State) (tid : Nat) (x : Slot) (parentId : Option Nat) (sec : Sec)
    (offset : Nat) : State :=
  let t := s.trackCounters.getD x.ev 0
  let s1 := mintSec s x parentId
  let ti : Init := ⟨t, parentId, x.ev, sec.particle, x.pos⟩
  let s2 := { s1 with initializers := s1.initializers.set (c.numInitializers - offset) ti }
  if offset ≤ s2.parents.length ∧ (s.cfg.order ≠ .initCharge ∨ x.status = .alive) then
    { s2 with parents := s2.parents.set (s2.parents.length - offset) (some tid) }
  else s2

def processSecondary (c : Counters) (tid : Nat) (parentId : Option Nat) (l : PSLoop) (sec : Sec) :
    PSLoop :=
  if ¬ sec.valid then l else
  let x := l.s.slots.getD tid Slot.empty
  if ¬ l.initialized ∧ x.status ≠ .alive ∧ l.s.cfg.order ≠ .initCharge then
    { s := psInplace l.s tid x parentId sec, offset := l.offset, initialized := true }
  else
    { s := psPush c l.s tid x parentId sec l.offset, offset := l.offset - 1,
      initialized := l.initialized }

/-- `sim.status(TrackStatus::inactive)`: the track is no longer used as part of transport -/
def releaseSlot (s : State) (tid : Nat) : State :=
  let y := s.slots.getD tid Slot.empty
  { s with slots := s.slots.set tid { y with status := .inactive },
           finished := s.finished ++ finOf y }

/-- `ProcessSecondariesExecutor::operator()(tid)`; `c` = by-value copy of the counters -/
def processSlot (c : Counters) (s : State) (tid : Nat) : State :=
  let x := s.slots.getD tid Slot.empty
  if x.status = .inactive then s else
  let offset := c.numSecondaries - s.secCounts.getD tid 0
  let l := x.secs.foldl (processSecondary c tid x.tid) ⟨s, offset, false⟩
  if ¬ l.initialized ∧ (l.s.slots.getD tid Slot.empty).status = .killed then
    releaseSlot l.s tid
  else l.s

/-- `ExtendFromSecondariesAction::step_impl`.  On a failed capacity check the error carries the
    state as the exception leaves it (counters already updated, no initializer written). -/
def extendFromSecondaries (s : State) : Except (Err × State) State :=
  -- locate_alive
  let loc := (List.range s.slots.length).map fun tid =>
    locateSlot s.cfg.order tid (s.slots.getD tid Slot.empty)
  -- remove_if_alive
  let vac := loc.filterMap (·.1)
  -- exclusive_scan_counts (the last entry of secondary_counts is not rewritten by locate_alive)
  let counts := loc.map (·.2) ++ s.secCounts.drop s.slots.length
  let (scanned, total) := exclusiveScan counts
  let c1 := { s.c with numVacancies := vac.length, numSecondaries := total,
                       numInitializers := s.c.numInitializers + total }
  let s1 := { s with vacancies := vac, secCounts := scanned, c := c1 }
  if ¬ (c1.numInitializers ≤ s.initializers.length) then .error (.capacity, s1)
  else
    let c2 := { c1 with numAlive := s.cfg.slots - c1.numVacancies }
    let s2 := { s1 with c := c2 }
    .ok ((List.range s.slots.length).foldl (processSlot c2) s2)

/-! ### CoreState::reset, Stepper -/

/-- `CoreState::reset` (track counters, pending primaries, parents are *not* touched) -/
def reset (s : State) : State :=
  { s with c := ⟨0, 0, s.cfg.slots, 0, 0, 0⟩,
           slots := s.slots.map fun x => { x with status := .inactive },
           vacancies := List.range s.cfg.slots,
           created := [], started := [], finished := [] }

/-- `Stepper::reseed` (the RNG part is C13): track counters zeroed -/
def reseed (s : State) : State :=
  { s with trackCounters := List.replicate s.trackCounters.length 0,
           created := [], started := [], finished := [] }

/-- `StepperResult` -/
structure Result where
  generated : Nat
  active : Nat
  alive : Nat
  queued : Nat
deriving Repr, DecidableEq

def result (s : State) : Result :=
  ⟨s.c.numGenerated, s.c.numActive, s.c.numAlive, s.c.numInitializers⟩

/-- the part of one `Stepper::operator()()` before the end-of-step action -/
def stepFront (oracle : List Outcome) (s : State) : State :=
  let s := { s with c := { s.c with numGenerated := 0 } }
  trackingCut (interact oracle (preStep (initializeTracks (extendFromPrimaries s))))

/-- the state right after `InitializeTracksAction` inside a step (what `active` counts) -/
def stepMid (s : State) : State :=
  initializeTracks (extendFromPrimaries { s with c := { s.c with numGenerated := 0 } })

/-- one `Stepper::operator()()`: generate, start, pre, (physics oracle), post, end -/
def step (oracle : List Outcome) (s : State) : Except (Err × State) State :=
  extendFromSecondaries (stepFront oracle s)

/-- `Stepper::operator()(primaries)`: the largest event id is validated against `max_events`
    (`CELER_VALIDATE(max_id->event_id < params_->init()->max_events(), ...)`) BEFORE the
    primaries are handed to `ExtendFromPrimariesAction::insert`; only then a step is taken.
    (`make_track_id` indexes `track_counters[event]` without a bounds check in release.) -/
def stepWith (ps : List Primary) (oracle : List Outcome) (s : State) : Except (Err × State) State :=
  if ¬ (ps.all fun p => decide (p.ev < s.cfg.maxEvents)) then .error (.maxEvents, s)
  else
    match insertPrimaries ps s with
    | .error e => .error (e, s)
    | .ok s1 => step oracle s1

end CelerVerif.TrackInit
