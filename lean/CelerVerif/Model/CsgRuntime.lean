/-
Executable model (C10) of the statements that compute the RUNTIME volume flags the tracker reads
(`VolumeRecord::flags`, `VolumeView::internal_surfaces()`):
* `UnitProto::build` (orangeinp/UnitProto.cc): `vi.flags |= internal_surfaces` iff
  `InternalSurfaceFlagger` answers "internal"; background volume `implicit_vol|simple_safety`
  with the `nowhere` logic; the exterior volume of a non-global unit gets `implicit_vol`;
* `UnitInserter::insert_volume` (orange/detail/UnitInserter.cc): `output.flags = v.flags`,
  `|= simple_safety` when every face is simple, replaced by an unreachable volume
  (`nowhere` logic, `implicit_vol|simple_safety`) when the forced scalar limits are exceeded;
* `UnitInserter::process_daughter`: `|= embedded_universe`.
The flag values and the exact text of these statements are regenerated / pattern-checked from the
source on every run (tools/gen/csg.py).  No Mathlib import.
-/
import CelerVerif.Model.CsgLogic

namespace CelerVerif.Csg
open CelerVerif.Generated.Csg

/-- `static logic_int const nowhere_logic[] = {logic::ltrue, logic::lnot};` -/
def nowhereLogic : List Nat := [ltrue, lnot]

/-- flags of a media volume built by `UnitProto::build` from the flagger's answer -/
def protoVolumeFlags (flaggedInternal : Bool) (implicitExterior : Bool) : Nat :=
  let f := if flaggedInternal then flagInternalSurfaces else 0
  if implicitExterior then f ||| flagImplicitVol else f

/-- flags / logic of the background volume built by `UnitProto::build` -/
def protoBackgroundFlags : Nat := flagImplicitVol ||| flagSimpleSafety

/-- `UnitInserter::insert_volume`: stored flags -/
def insertVolumeFlags (inFlags : Nat) (allFacesSimple exceedsLimits : Bool) : Nat :=
  if exceedsLimits then flagImplicitVol ||| flagSimpleSafety
  else if allFacesSimple then inFlags ||| flagSimpleSafety else inFlags

/-- `UnitInserter::insert_volume`: stored logic -/
def insertVolumeLogic (logic : List Nat) (exceedsLimits : Bool) : List Nat :=
  if exceedsLimits then nowhereLogic else logic

/-- `UnitInserter::process_daughter` -/
def processDaughterFlags (flags : Nat) : Nat := flags ||| flagEmbeddedUniverse

/-- flags stored in the `VolumeRecord` of a volume -/
def runtimeFlags (inFlags : Nat) (allFacesSimple exceedsLimits hasDaughter : Bool) : Nat :=
  let f := insertVolumeFlags inFlags allFacesSimple exceedsLimits
  if hasDaughter then processDaughterFlags f else f

/-- `VolumeView::internal_surfaces()` -/
def runtimeInternalSurfaces (flags : Nat) : Bool := (flags &&& flagInternalSurfaces) ≠ 0

end CelerVerif.Csg
