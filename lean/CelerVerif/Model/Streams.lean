/-
Model of the multi-stream design of celeritas (C07):

  global state = immutable problem parameters (`CoreParams` and every `*Params`)
               × per-stream core state (`CoreState`, one per `StreamId`, owned by its Stepper)
               × per-stream stores created lazily on first use (`StreamStore::state(stream, n)`,
                 `AuxStateVec`, the diagnostics' / calorimeters' tallies): absent | present.

A step of stream `i` (one `Stepper::operator()` call, or a reseed, or inserting primaries — the
stream's own script is part of its state) reads the parameters and reads/writes ONLY component
`i`, creating its store if absent.  No Mathlib.
-/
namespace CelerVerif.Streams

structure Global (P S A : Type) where
  params : P
  core : Nat → S
  store : Nat → Option A

/-- what a stream's step may depend on and change -/
structure Sem (P S A : Type) where
  /-- `StreamStore::state(stream, size)` / `create_state`: build the store of a stream -/
  create : P → Nat → A
  /-- the stream-local transition on (core state, store) -/
  next : P → Nat → S × A → S × A

variable {P S A : Type}

def update {β : Type} (f : Nat → β) (i : Nat) (v : β) : Nat → β := fun j => if j = i then v else f j

/-- lazily create the store of stream `i` (no-op when present) -/
def ensure (sem : Sem P S A) (i : Nat) (g : Global P S A) : Global P S A :=
  match g.store i with
  | some _ => g
  | none => { g with store := update g.store i (some (sem.create g.params i)) }

/-- one step of stream `i` -/
def step (sem : Sem P S A) (i : Nat) (g : Global P S A) : Global P S A :=
  let a := (g.store i).getD (sem.create g.params i)
  let r := sem.next g.params i (g.core i, a)
  { g with core := update g.core i r.1, store := update g.store i (some r.2) }

/-- run a schedule: the list of stream ids in the order their steps happen to be executed -/
def exec (sem : Sem P S A) (sched : List Nat) (g : Global P S A) : Global P S A :=
  sched.foldl (fun g i => step sem i g) g

/-- the transition of one stream seen on its own component -/
def localStep (sem : Sem P S A) (p : P) (i : Nat) (c : S × Option A) : S × Option A :=
  let r := sem.next p i (c.1, c.2.getD (sem.create p i))
  (r.1, some r.2)

def iter {β : Type} (f : β → β) : Nat → β → β
  | 0, x => x
  | n + 1, x => iter f n (f x)

/-- run the streams one after the other: all steps of stream 0, then all of stream 1, … -/
def serial (sem : Sem P S A) (counts : List Nat) (g : Global P S A) : Global P S A :=
  exec sem (counts.zipIdx.flatMap (fun (c, i) => List.replicate c i)) g

end CelerVerif.Streams
