/-
Model of the multi-stream design of celeritas (C07):

  global state = immutable problem parameters (`CoreParams` and every `*Params`)
               × per-stream core state (`CoreState`, one per `StreamId`, owned by its Stepper)
               × per-stream stores created lazily on first use (`StreamStore::state(stream, n)`,
                 `AuxStateVec`, the diagnostics' / calorimeters' tallies): absent | present.

A step of stream `i` (one `Stepper::operator()` call, or a reseed, or inserting primaries — the
stream's own script is part of its state) reads the parameters and reads/writes ONLY component
`i`, creating its store if absent.  No Mathlib.
-/
namespace CelerVerif.Streams

structure Global (P S A : Type) where
  params : P
  core : Nat → S
  store : Nat → Option A

/-- what a stream's step may depend on and change -/
structure Sem (P S A : Type) where
  /-- `StreamStore::state(stream, size)` / `create_state`: build the store of a stream -/
  create : P → Nat → A
  /-- the stream-local transition on (core state, store) -/
  next : P → Nat → S × A → S × A

variable {P S A : Type}

def update {β : Type} (f : Nat → β) (i : Nat) (v : β) : Nat → β := fun j => if j = i then v else f j

/-- lazily create the store of stream `i` (no-op when present) -/
def ensure (sem : Sem P S A) (i : Nat) (g : Global P S A) : Global P S A :=
  match g.store i with
  | some _ => g
  | none => { g with store := update g.store i (some (sem.create g.params i)) }

/-- one step of stream `i` -/
def step (sem : Sem P S A) (i : Nat) (g : Global P S A) : Global P S A :=
  let a := (g.store i).getD (sem.create g.params i)
  let r := sem.next g.params i (g.core i, a)
  { g with core := update g.core i r.1, store := update g.store i (some r.2) }

/-- run a schedule: the list of stream ids in the order their steps happen to be executed -/
def exec (sem : Sem P S A) (sched : List Nat) (g : Global P S A) : Global P S A :=
  sched.foldl (fun g i => step sem i g) g

/-- the transition of one stream seen on its own component -/
def localStep (sem : Sem P S A) (p : P) (i : Nat) (c : S × Option A) : S × Option A :=
  let r := sem.next p i (c.1, c.2.getD (sem.create p i))
  (r.1, some r.2)

def iter {β : Type} (f : β → β) : Nat → β → β
  | 0, x => x
  | n + 1, x => iter f n (f x)

/-- run the streams one after the other: all steps of stream 0, then all of stream 1, … -/
def serial (sem : Sem P S A) (counts : List Nat) (g : Global P S A) : Global P S A :=
  exec sem (counts.zipIdx.flatMap (fun (c, i) => List.replicate c i)) g


/-! ## Event level: assignment of events to streams

An event on stream `i` starts with the event boundary (`Stepper::reseed` → `reseed_rng`, zeroed
track counters; `CoreState::reset`; inserting the primaries) and is then transported to
completion.  Component type `C` is everything stream `i` owns (core state and stores).  `view`
is the part of it the transport reads: RNG states, track slots, initializers, counters.  What is
not in the view (accumulated tallies of calorimeters and diagnostics, the stream's step count)
may carry over from one event to the next. -/

structure EvSem (P C V R : Type) where
  /-- event boundary of event `e` on stream `i`; may read the state the previous event left -/
  begin : P → Nat → Nat → C → C
  /-- transport to completion: the event's result (its step stream) and the state left behind -/
  run : P → Nat → C → R × C
  view : C → V
  /-- what the boundary makes of the view: a function of parameters and event id only
      (`reseed_rng`: `init seed (event * size + slot)`, C13) -/
  fresh : P → Nat → V

/-- the isolation contract the C++ is tested against (tools/checks/c07.py, fresh-stream
    reference): the boundary overwrites the whole view, and the result reads nothing else —
    not the stream id, not the rest of the component -/
structure EvSem.Isolated {P C V R : Type} (ev : EvSem P C V R) : Prop where
  begin_view : ∀ p i e c, ev.view (ev.begin p i e c) = ev.fresh p e
  run_view : ∀ p i j c c', ev.view c = ev.view c' → (ev.run p i c).1 = (ev.run p j c').1

variable {C V R : Type}

/-- run event `a.2` on stream `a.1` -/
def evStep (ev : EvSem P C V R) (p : P) (comp : Nat → C) (a : Nat × Nat) : (Nat → C) × R :=
  let r := ev.run p a.1 (ev.begin p a.1 a.2 (comp a.1))
  (update comp a.1 r.2, r.1)

/-- run an assignment: (stream, event) pairs, each stream taking its events in list order
    (by `any_interleaving_equals_serial` the interleaving of the streams' steps is immaterial);
    the log pairs every event with its result -/
def evExec (ev : EvSem P C V R) (p : P) : List (Nat × Nat) → (Nat → C) → List (Nat × R)
  | [], _ => []
  | a :: l, comp => (a.2, (evStep ev p comp a).2) :: evExec ev p l (evStep ev p comp a).1

/-- the reference: event `e` alone on stream 0 starting from component `c0` -/
def evRef (ev : EvSem P C V R) (p : P) (c0 : C) (e : Nat) : R :=
  (ev.run p 0 (ev.begin p 0 e c0)).1

end CelerVerif.Streams
