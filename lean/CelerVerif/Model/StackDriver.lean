/- Line protocol for the StackAllocator model (C++ side: harness/stack.cc). -/
import CelerVerif.Model.Stack
import CelerVerif.Model.Util

namespace CelerVerif.Stack
open CelerVerif.Util

structure DState where
  st : Stack
  sys : Sys

def DState.init : DState := ⟨Stack.new 0, ⟨0, 0, []⟩⟩

def hexList (l : List Nat) : String := " ".intercalate (l.map fun v => toHex 4 v)

def showPc : Pc → String
  | .init => "init"
  | .fetched a => s!"fetched:{a}"
  | .restoring a => s!"restoring:{a}"
  | .ok a => s!"ok:{a}"
  | .failed => "failed"

def showSys (s : Sys) : String :=
  s!"sys cap {s.cap} size {s.size} :" ++ String.join (s.threads.map fun t => s!" {t.n}/{showPc t.pc}")

def parseAll (ws : List String) : Option (List Nat) :=
  ws.foldr (fun w acc => match parseHex w, acc with
    | some v, some l => some (v :: l)
    | _, _ => none) (some [])

/-- one protocol line -> (new state, output line). Numbers are hexadecimal. -/
def driverStep (d : DState) (line : String) : DState × String :=
  match words line with
  | ["new", c] =>
    match parseHex c with
    | some c => if c ≤ 0x10000 then ({ d with st := Stack.new c }, s!"cap {c} size 0")
                else (d, "bad-op")
    | none => (d, "bad-op")
  | ["alloc", n] =>
    match parseHex n with
    | some n =>
      -- size + n ≥ 2^32 would make the real code write out of bounds: both sides refuse
      if 0 < n ∧ d.st.size + n < W then
        match alloc n d.st with
        | (some a, s') => ({ d with st := s' }, s!"ok {a} size {s'.size}")
        | (none, s') => ({ d with st := s' }, s!"null size {s'.size}")
      else (d, "bad-op")
    | none => (d, "bad-op")
  | ["write", i, v] =>
    match parseHex i, parseHex v with
    | some i, some v =>
      if i < d.st.size ∧ i < d.st.cap ∧ v < 0x10000 then
        ({ d with st := { d.st with storage := d.st.storage.set i v } }, "ok")
      else (d, "bad-op")
    | _, _ => (d, "bad-op")
  | ["get"] =>
    if d.st.size ≤ d.st.cap then (d, s!"get {d.st.size} : " ++ hexList (get d.st))
    else (d, s!"get overflow {d.st.size}")
  | ["size"] => (d, s!"size {d.st.size}")
  | ["clear"] => let s' := clear d.st; ({ d with st := s' }, s!"size {s'.size}")
  | ["setsize", n] =>
    match parseHex n with
    | some n => if n < W then ({ d with st := { d.st with size := n } }, s!"size {n}")
                else (d, "bad-op")
    | none => (d, "bad-op")
  -- model-only ops for the interleaving semantics (the harness answers the same text by
  -- running the real allocator only for whole `alloc`s, so these are never diffed)
  | "threads" :: c :: sz :: ns =>
    match parseHex c, parseHex sz, parseAll ns with
    | some c, some sz, some ns =>
      let sys : Sys := ⟨c, sz, ns.map fun n => ⟨n, .init⟩⟩
      ({ d with sys := sys }, showSys sys)
    | _, _, _ => (d, "bad-op")
  | "sched" :: is =>
    match parseAll is with
    | some is => let sys := run d.sys is; ({ d with sys := sys }, showSys sys)
    | none => (d, "bad-op")
  | _ => (d, "bad-op")

end CelerVerif.Stack
