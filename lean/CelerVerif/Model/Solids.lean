/-
Executable model (generic in `Num α`) of the solid-emission half of ORANGE geometry construction:
  src/orange/orangeinp/IntersectRegion.cc   (`build` of Box, Sphere, Cylinder, Cone, Ellipsoid,
                                             Prism, Parallelepiped, InfWedge)
  src/orange/orangeinp/IntersectSurfaceBuilder.{hh,cc} (local clip, transform, simplify, insert,
                                             global clip, sense -> CSG literal, bbox promises)
  src/orange/surf/SurfaceSimplifier.cc, detail/RecursiveSimplifierImpl.hh,
  detail/Quadric{Plane,Sphere,Cyl,Cone}Converter.hh, SurfaceClipper.cc,
  orangeinp/detail/NegatedSurfaceClipper.hh, SoftSurfaceEqual.cc,
  orangeinp/detail/LocalSurfaceInserter.cc + SurfaceGridHash.cc + SurfaceHashPoint.hh (soft
  de-duplication among surfaces filed under a common hash-grid bin; hash collisions ignored),
  detail/IntersectSurfaceState.cc (calc_merged_bzone),
  geocel/BoundingBox.hh, orange/BoundingBoxUtils.hh, corecel/math/SoftEqual.hh.
plus the SPEC: membership predicates of the solids.  Surfaces are `Surf.Surface` (C12's model),
translations are `Surface.translate`.  Expression trees follow the C++ (association, fma in
`dot_product`).  `sincos(Turn)` (sincospi) values are oracle inputs.  No Mathlib import.
-/
import CelerVerif.Model.Surf
import CelerVerif.Model.SurfXform

namespace CelerVerif.Solids
open CelerVerif CelerVerif.Surf
open scoped CelerVerif.Num

variable {α : Type} [Num α]

/-- `Sense`: inside = false (negative quadric), outside = true -/
inductive Sense | inside | outside
deriving DecidableEq, Repr, Inhabited

/-- `flip_sense` -/
def Sense.flip : Sense → Sense | .inside => .outside | .outside => .inside

/-! ### constants and scalar helpers -/
/-- `constants::sqrt_two` -/
def sqrtTwo : α := 1.41421356237309504880
/-- `constants::sqrt_three` -/
def sqrtThree : α := 1.73205080756887729353
/-- `constants::pi` -/
def piC : α := 3.14159265358979323846
/-- `std::numeric_limits<double>::epsilon()` = 2^-52 -/
def epsMach : α := 2.220446049250313e-16

/-- `std::fmax` / `std::fmin` / `celeritas::max` / `celeritas::min` on non-NaN arguments -/
def fmax (a b : α) : α := if Num.lt a b then b else a
def fmin (a b : α) : α := if Num.lt b a then b else a
/-- `negate(v)` = 0 − v (never a signed zero) -/
def negate (v : α) : α := (0 : α) - v

/-- `Tolerance<>` -/
structure Tol (α : Type) where
  rel : α
  abs : α

/-- `Tolerance<>::from_relative(rel, length = 1)` -/
def Tol.fromRelative (rel : α) : Tol α := ⟨rel, rel * (1 : α)⟩

/-- `SoftEqual<>{rel, abs}` -/
structure SoftEq (α : Type) where
  rel : α
  abs : α

/-- `SoftEqual<>{rel}`: abs = rel · (abs_thresh / rel_prec) = rel · (1e-14 / 1e-12) -/
def SoftEq.ofRel (rel : α) : SoftEq α := ⟨rel, rel * ((1.0e-14 : α) / (1.0e-12 : α))⟩

/-- `SoftEqual::operator()(a, b)` -/
def SoftEq.eq (se : SoftEq α) (a b : α) : Bool :=
  let rel := se.rel * fmax (Num.abs a) (Num.abs b)
  Num.lt (Num.abs (a - b)) (fmax se.abs rel)

/-- `SoftZero{abs}(v)` -/
def softZero (abs v : α) : Bool := Num.lt (Num.abs v) abs

/-! ### bounding boxes with explicit infinities -/

/-- bbox coordinate: −∞, a finite value, +∞, or NaN (∞ − ∞ when an unbounded box is rotated) -/
inductive Ext (α : Type) where
  | ninf | fin (a : α) | pinf | nan
deriving Repr, Inhabited

def Ext.lt : Ext α → Ext α → Bool
  | .nan, _ => false
  | _, .nan => false
  | .ninf, .ninf => false
  | .ninf, _ => true
  | .fin _, .ninf => false
  | .fin a, .fin b => Num.lt a b
  | .fin _, .pinf => true
  | .pinf, _ => false

def Ext.le : Ext α → Ext α → Bool
  | .nan, _ => false
  | _, .nan => false
  | .ninf, _ => true
  | .fin _, .ninf => false
  | .fin a, .fin b => Num.le a b
  | .fin _, .pinf => true
  | .pinf, .pinf => true
  | .pinf, _ => false

/-- `celeritas::max(a, b)` = (a < b) ? b : a;  `celeritas::min(a, b)` = (b < a) ? b : a -/
def Ext.max (a b : Ext α) : Ext α := if Ext.lt a b then b else a
def Ext.min (a b : Ext α) : Ext α := if Ext.lt b a then b else a
/-- `std::fmax(p, position)` / `std::fmin` with a non-NaN second argument (a NaN first
    argument is replaced) -/
def Ext.fmax (a b : Ext α) : Ext α := match a with | .nan => b | _ => Ext.max a b
def Ext.fmin (a b : Ext α) : Ext α := match a with | .nan => b | _ => Ext.min a b
/-- translate a coordinate -/
def Ext.add (e : Ext α) (t : α) : Ext α :=
  match e with
  | .fin a => .fin (a + t)
  | e => e
/-- `r * x` for a nonzero finite r -/
def Ext.scale (r : α) (e : Ext α) : Ext α :=
  match e with
  | .fin a => .fin (r * a)
  | .pinf => if Num.lt r (0 : α) then .ninf else .pinf
  | .ninf => if Num.lt r (0 : α) then .pinf else .ninf
  | .nan => .nan
/-- IEEE sum with infinities: ∞ + (−∞) = NaN -/
def Ext.plus (a b : Ext α) : Ext α :=
  match a, b with
  | .nan, _ => .nan
  | _, .nan => .nan
  | .fin x, .fin y => .fin (x + y)
  | .pinf, .ninf => .nan
  | .ninf, .pinf => .nan
  | .pinf, _ => .pinf
  | .ninf, _ => .ninf
  | .fin _, e => e

/-- `BoundingBox<>` -/
structure BBox (α : Type) where
  lo : Vec3 (Ext α)
  hi : Vec3 (Ext α)
deriving Repr, Inhabited

/-- default-constructed (null) box -/
def BBox.null : BBox α := ⟨⟨.pinf, .pinf, .pinf⟩, ⟨.ninf, .ninf, .ninf⟩⟩
/-- `BBox::from_infinite()` -/
def BBox.infinite : BBox α := ⟨⟨.ninf, .ninf, .ninf⟩, ⟨.pinf, .pinf, .pinf⟩⟩
/-- box from finite corner points -/
def BBox.ofPoints (lo hi : Vec3 α) : BBox α :=
  ⟨⟨.fin lo.x, .fin lo.y, .fin lo.z⟩, ⟨.fin hi.x, .fin hi.y, .fin hi.z⟩⟩

/-- `operator bool` -/
def BBox.nonNull (b : BBox α) : Bool :=
  Ext.le b.lo.x b.hi.x && Ext.le b.lo.y b.hi.y && Ext.le b.lo.z b.hi.z

/-- `shrink(Bound::lo, ax, pos)` -/
def BBox.shrinkLo (b : BBox α) (ax : Axis) (pos : α) : BBox α :=
  { b with lo := b.lo.set ax.toNat (Ext.fmax (b.lo.get ax.toNat) (.fin pos)) }
/-- `shrink(Bound::hi, ax, pos)` -/
def BBox.shrinkHi (b : BBox α) (ax : Axis) (pos : α) : BBox α :=
  { b with hi := b.hi.set ax.toNat (Ext.fmin (b.hi.get ax.toNat) (.fin pos)) }

/-- bbox `calc_intersection` -/
def BBox.inter (a b : BBox α) : BBox α :=
  ⟨⟨Ext.max a.lo.x b.lo.x, Ext.max a.lo.y b.lo.y, Ext.max a.lo.z b.lo.z⟩,
   ⟨Ext.min a.hi.x b.hi.x, Ext.min a.hi.y b.hi.y, Ext.min a.hi.z b.hi.z⟩⟩
/-- bbox `calc_union` -/
def BBox.union (a b : BBox α) : BBox α :=
  ⟨⟨Ext.min a.lo.x b.lo.x, Ext.min a.lo.y b.lo.y, Ext.min a.lo.z b.lo.z⟩,
   ⟨Ext.max a.hi.x b.hi.x, Ext.max a.hi.y b.hi.y, Ext.max a.hi.z b.hi.z⟩⟩

/-- the zero-skipping rotation of a corner in `calc_transform(Transformation, bbox)` -/
def rotateCorner (r : Mat3 α) (x : Vec3 (Ext α)) : Vec3 (Ext α) :=
  let row (v : Vec3 α) : Ext α :=
    let step (acc : Ext α) (c : α) (e : Ext α) : Ext α :=
      if Num.ne c (0 : α) then Ext.plus acc (Ext.scale c e) else acc
    step (step (step (.fin (0 : α)) v.x x.x) v.y x.y) v.z x.z
  ⟨row r.r0, row r.r1, row r.r2⟩

/-- `calc_transform(Transformation, bbox)`: box around the 8 rotated corners, then translated -/
def BBox.rotate (t : Transformation α) (b : BBox α) : BBox α :=
  let corner (hx hy hz : Bool) : Vec3 (Ext α) :=
    rotateCorner t.rot ⟨if hx then b.hi.x else b.lo.x, if hy then b.hi.y else b.lo.y,
                        if hz then b.hi.z else b.lo.z⟩
  let step (acc : BBox α) (p : Vec3 (Ext α)) : BBox α :=
    ⟨⟨Ext.min acc.lo.x p.x, Ext.min acc.lo.y p.y, Ext.min acc.lo.z p.z⟩,
     ⟨Ext.max acc.hi.x p.x, Ext.max acc.hi.y p.y, Ext.max acc.hi.z p.z⟩⟩
  let acc := [corner false false false, corner false false true, corner false true false,
              corner false true true, corner true false false, corner true false true,
              corner true true false, corner true true true].foldl step BBox.null
  ⟨⟨acc.lo.x.add t.tra.x, acc.lo.y.add t.tra.y, acc.lo.z.add t.tra.z⟩,
   ⟨acc.hi.x.add t.tra.x, acc.hi.y.add t.tra.y, acc.hi.z.add t.tra.z⟩⟩

/-- `apply_transform(transform, bbox)` -/
def BBox.translate (tra : Xform α) (b : BBox α) : BBox α :=
  match tra with
  | .none => b
  | .tra t => ⟨⟨b.lo.x.add t.x, b.lo.y.add t.y, b.lo.z.add t.z⟩,
               ⟨b.hi.x.add t.x, b.hi.y.add t.y, b.hi.z.add t.z⟩⟩
  | .full t => b.rotate t

/-- `is_inside(bbox, point)` -/
def BBox.contains (b : BBox α) (p : Vec3 α) : Bool :=
  Ext.le b.lo.x (.fin p.x) && Ext.le (.fin p.x) b.hi.x
    && Ext.le b.lo.y (.fin p.y) && Ext.le (.fin p.y) b.hi.y
    && Ext.le b.lo.z (.fin p.z) && Ext.le (.fin p.z) b.hi.z

/-- interior / exterior pair of a (non-negated) `BoundingZone` -/
structure Zone (α : Type) where
  interior : BBox α
  exterior : BBox α
deriving Repr, Inhabited

def Zone.infinite : Zone α := ⟨BBox.infinite, BBox.infinite⟩

/-! ### surface simplification -/

/-- `count_signs(arr, tol)`: (pos, neg, first) -/
def countSigns (a b c tol : α) : Nat × Nat × Int :=
  let step (acc : Nat × Nat × Int) (v : α) : Nat × Nat × Int :=
    if Num.lt (Num.abs v) tol then acc
    else
      let neg := Num.lt v (0 : α)
      let pos' := if neg then acc.1 else acc.1 + 1
      let neg' := if neg then acc.2.1 + 1 else acc.2.1
      let first' := if acc.2.2 == 0 then (if neg then -1 else 1) else acc.2.2
      (pos', neg', first')
  step (step (step (0, 0, 0) a) b) c

def signsAny (s : Nat × Nat × Int) : Bool := s.1 != 0 || s.2.1 != 0
/-- `SignCount::should_flip` -/
def shouldFlip (s : Nat × Nat × Int) : Bool :=
  signsAny s && (decide (s.2.1 > s.1) || (s.2.1 == s.1 && decide (s.2.2 < 0)))

/-- `ZeroSnapper` -/
def zeroSnap (tol v : α) : α := if softZero tol v then (0 : α) else v

/-- `v + 0` ("clear potential signed zeros") -/
def clearZero (v : α) : α := v + (0 : α)

/-- `QuadricPlaneConverter` -/
def sqToPlane (d e f g : α) : Surface α :=
  let nf := (1 : α) / Vec3.norm (⟨d, e, f⟩ : Vec3 α)
  .plane ⟨d * nf, e * nf, f * nf⟩ ((-g) * nf)

/-- `QuadricSphereConverter` -/
def sqToSphere (tol a b c d e f g : α) : Option (Surface α) :=
  let se := SoftEq.ofRel tol
  if !se.eq a b || !se.eq a c then none
  else
    let invNorm := (3 : α) / (a + b + c)
    let k := (-(0.5 : α)) * invNorm
    let o : Vec3 α := ⟨d * k, e * k, f * k⟩
    let r2 := Vec3.dot o o - g * invNorm
    if Num.le r2 (0 : α) then none
    else some (.sphere ⟨clearZero o.x, clearZero o.y, clearZero o.z⟩ r2)

/-- `QuadricCylConverter` along axis `t` -/
def sqToCyl (tol : α) (t : Axis) (sec fst : Vec3 α) (g : α) : Option (Surface α) :=
  let se := SoftEq.ofRel tol
  if !se.eq (0 : α) (sec.ax t) then none
  else if !se.eq (0 : α) (fst.ax t) then none
  else if !se.eq (sec.ax t.U) (sec.ax t.V) then none
  else
    let invNorm := (2 : α) / (sec.ax t.U + sec.ax t.V)
    let ou := (-(0.5 : α)) * invNorm * fst.ax t.U
    let ov := (-(0.5 : α)) * invNorm * fst.ax t.V
    let r2 := Num.sq ou + Num.sq ov - g * invNorm
    if Num.le r2 (0 : α) then none
    else some (.cylAligned t (clearZero ou) (clearZero ov) r2)

/-- `QuadricConeConverter` along axis `t` -/
def sqToCone (tol : α) (t : Axis) (sec fst : Vec3 α) (g : α) : Option (Surface α) :=
  let se := SoftEq.ofRel tol
  if !(Num.lt (sec.ax t) (0 : α)) then none
  else if !se.eq (sec.ax t.U) (sec.ax t.V) then none
  else
    let norm := (sec.ax t.U + sec.ax t.V) / (2 : α)
    let tsq := (-(sec.ax t)) / norm
    let ot := fst.ax t / ((-(2 : α)) * sec.ax t)
    let ou := fst.ax t.U / ((-(2 : α)) * norm)
    let ov := fst.ax t.V / ((-(2 : α)) * norm)
    let expected := (-tsq) * Num.sq ot + Num.sq ou + Num.sq ov
    if !se.eq expected (g / norm) then none
    else
      let o : Vec3 α := (((⟨0, 0, 0⟩ : Vec3 α).set t.toNat (clearZero ot)).set t.U.toNat
        (clearZero ou)).set t.V.toNat (clearZero ov)
      some (.coneAligned t o tsq)

def firstSome {β : Type} : List (Unit → Option β) → Option β
  | [] => none
  | f :: fs => match f () with
    | some b => some b
    | none => firstSome fs

/-- one application of `SurfaceSimplifier` (sense, tol): `none` = `std::monostate`
    (no simplification) -/
def simplifyStep (tol : α) (sense : Sense) (s : Surface α) : Option (Sense × Surface α) :=
  match s with
  | .planeAligned t p =>
    if Num.ne p (0 : α) && softZero tol p then some (sense, .planeAligned t (0 : α)) else none
  | .cylAligned t ou ov r2 =>
    if Num.lt (Num.sq ou + Num.sq ov) (Num.sq tol) then some (sense, .cylCentered t r2) else none
  | .coneAligned t o tsq =>
    let snap (v : α) : α × Bool := if Num.ne v (0 : α) && softZero tol v then ((0 : α), true) else (v, false)
    let (x, bx) := snap o.x
    let (y, by') := snap o.y
    let (z, bz) := snap o.z
    if bx || by' || bz then some (sense, .coneAligned t ⟨x, y, z⟩ tsq) else none
  | .plane n d =>
    let signs := countSigns n.x n.y n.z tol
    if shouldFlip signs then
      some (sense.flip, .plane ⟨negate n.x, negate n.y, negate n.z⟩ (negate d))
    else if signs.1 == 1 && signs.2.1 == 0 then
      if Num.gt n.x tol then some (sense, .planeAligned .x d)
      else if Num.gt n.y tol then some (sense, .planeAligned .y d)
      else some (sense, .planeAligned .z d)
    else
      let m : Vec3 α := ⟨zeroSnap tol n.x, zeroSnap tol n.y, zeroSnap tol n.z⟩
      if Num.ne m.x n.x || Num.ne m.y n.y || Num.ne m.z n.z then
        let nf := (1 : α) / Vec3.norm m
        some (sense, .plane ⟨m.x * nf, m.y * nf, m.z * nf⟩ (d * nf))
      else if Num.ne d (0 : α) && softZero tol d then some (sense, .plane m (0 : α))
      else none
  | .sphere o r2 =>
    if Num.lt (Vec3.dot o o) (Num.sq tol) then some (sense, .sphereCentered r2) else none
  | .simpleQuadric a b c d e f g =>
    let signs := countSigns a b c tol
    if !signsAny signs then some (sense, sqToPlane d e f g)
    else if shouldFlip signs then
      some (sense.flip, .simpleQuadric (negate a) (negate b) (negate c) (negate d) (negate e)
        (negate f) (negate g))
    else if signs.1 == 3 then (sqToSphere tol a b c d e f g).map fun r => (sense, r)
    else if signs.1 == 2 && signs.2.1 == 1 then
      (firstSome [fun _ => sqToCone tol .x ⟨a, b, c⟩ ⟨d, e, f⟩ g,
                  fun _ => sqToCone tol .y ⟨a, b, c⟩ ⟨d, e, f⟩ g,
                  fun _ => sqToCone tol .z ⟨a, b, c⟩ ⟨d, e, f⟩ g]).map fun r => (sense, r)
    else if signs.1 == 2 && signs.2.1 == 0 then
      (firstSome [fun _ => sqToCyl tol .x ⟨a, b, c⟩ ⟨d, e, f⟩ g,
                  fun _ => sqToCyl tol .y ⟨a, b, c⟩ ⟨d, e, f⟩ g,
                  fun _ => sqToCyl tol .z ⟨a, b, c⟩ ⟨d, e, f⟩ g]).map fun r => (sense, r)
    else none
  | .generalQuadric a b c d e f g h i j =>
    let csigns := countSigns d e f tol
    if !signsAny csigns then some (sense, .simpleQuadric a b c g h i j)
    else
      let ssigns := countSigns a b c tol
      if shouldFlip ssigns || (!signsAny ssigns && shouldFlip csigns) then
        some (sense.flip, .generalQuadric (negate a) (negate b) (negate c) (negate d) (negate e)
          (negate f) (negate g) (negate h) (negate i) (negate j))
      else none
  | _ => none

/-- `RecursiveSimplifier`: apply `SurfaceSimplifier` until it returns monostate.  The real
    recursion is unbounded; `none` = the fuel ran out (the real code recurses until the stack
    overflows). -/
def simplify (tol : α) : Nat → Sense → Surface α → Option (Sense × Surface α)
  | 0, _, _ => none
  | fuel + 1, sense, s =>
    match simplifyStep tol sense s with
    | none => some (sense, s)
    | some (sense', s') => simplify tol fuel sense' s'

/-- recursion budget of the model (the deepest legitimate chain is GQ → SQ → flip → plane →
    flip → axis-aligned → snap) -/
def simplifyFuel : Nat := 16

/-! ### bounding-zone clipping by surfaces -/

def BBox.null' : BBox α := BBox.null

/-- `SurfaceClipper{&interior, &exterior}(surf)` (sense inside) -/
def clipInside (z : Zone α) (s : Surface α) : Zone α :=
  let sqrtHalf : α := (sqrtTwo : α) / (2 : α)
  let sqrtThird : α := (sqrtThree : α) / (2 : α)
  let cyl (t : Axis) (o : Vec3 α) (r2 : α) : Zone α :=
    let radius := Num.sqrt r2
    let one (z : Zone α) (ax : Axis) : Zone α :=
      if ax == t then z
      else
        let i := (z.interior.shrinkLo ax (o.ax ax - sqrtHalf * radius)).shrinkHi ax
          (o.ax ax + sqrtHalf * radius)
        let e := (z.exterior.shrinkLo ax (o.ax ax - radius)).shrinkHi ax (o.ax ax + radius)
        ⟨i, e⟩
    one (one (one z .x) .y) .z
  let sph (o : Vec3 α) (r2 : α) : Zone α :=
    let radius := Num.sqrt r2
    let one (z : Zone α) (ax : Axis) : Zone α :=
      let i := (z.interior.shrinkLo ax (o.ax ax - sqrtThird * radius)).shrinkHi ax
        (o.ax ax + sqrtThird * radius)
      let e := (z.exterior.shrinkLo ax (o.ax ax - radius)).shrinkHi ax (o.ax ax + radius)
      ⟨i, e⟩
    one (one (one z .x) .y) .z
  match s with
  | .planeAligned t p => ⟨z.interior.shrinkHi t p, z.exterior.shrinkHi t p⟩
  | .cylCentered t r2 => cyl t ⟨0, 0, 0⟩ r2
  | .cylAligned t ou ov r2 =>
    cyl t (((⟨0, 0, 0⟩ : Vec3 α).set t.U.toNat ou).set t.V.toNat ov) r2
  | .sphereCentered r2 => sph ⟨0, 0, 0⟩ r2
  | .sphere o r2 => sph o r2
  | _ => ⟨BBox.null, z.exterior⟩

/-- `NegatedSurfaceClipper{&zone}(surf)` (sense outside) -/
def clipOutside (z : Zone α) (s : Surface α) : Zone α :=
  match s with
  | .planeAligned t p => ⟨z.interior.shrinkLo t p, z.exterior.shrinkLo t p⟩
  | _ => ⟨BBox.null, z.exterior⟩

/-- `ClipImpl{&zone}(sense, surf)` -/
def clipZone (z : Zone α) (sense : Sense) (s : Surface α) : Zone α :=
  match sense with
  | .inside => clipInside z s
  | .outside => clipOutside z s

/-! ### soft de-duplication of inserted surfaces -/

/-- storage data of a surface (`data()`) with a class tag -/
def surfTagData : Surface α → Nat × List α
  | .planeAligned t p => (t.toNat, [p])
  | .plane n d => (3, [n.x, n.y, n.z, d])
  | .cylCentered t r2 => (4 + t.toNat, [r2])
  | .cylAligned t ou ov r2 => (7 + t.toNat, [ou, ov, r2])
  | .sphereCentered r2 => (10, [r2])
  | .sphere o r2 => (11, [o.x, o.y, o.z, r2])
  | .coneAligned t o tsq => (12 + t.toNat, [o.x, o.y, o.z, tsq])
  | .simpleQuadric a b c d e f g => (15, [a, b, c, d, e, f, g])
  | .generalQuadric a b c d e f g h i j => (16, [a, b, c, d, e, f, g, h, i, j])

def listEq : List α → List α → Bool
  | [], [] => true
  | a :: as, b :: bs => Num.eq a b && listEq as bs
  | _, _ => false

/-- `ExactSurfaceEqual` (same class, all storage values `==`) -/
def exactEq (a b : Surface α) : Bool :=
  (surfTagData a).1 == (surfTagData b).1 && listEq (surfTagData a).2 (surfTagData b).2

/-- `distance(a, b)` -/
def dist3 (a b : Vec3 α) : α :=
  Num.sqrt (Num.sq (b.x - a.x) + Num.sq (b.y - a.y) + Num.sq (b.z - a.z))

/-- `SoftSurfaceEqual::soft_eq_sq` -/
def softEqSq (se : SoftEq α) (a b : α) : Bool := se.eq (Num.sqrt a) (Num.sqrt b)
/-- `SoftSurfaceEqual::soft_eq_distance`: ‖a − b‖ < max(abs, rel·max(‖a‖, ‖b‖)) -/
def softEqDist (se : SoftEq α) (a b : Vec3 α) : Bool :=
  let rel := se.rel * fmax (Vec3.norm a) (Vec3.norm b)
  Num.lt (dist3 a b) (fmax se.abs rel)

/-- `SoftSurfaceEqual{tol}(a, b)` for two surfaces of the same class (false otherwise) -/
def softEq (se : SoftEq α) (a b : Surface α) : Bool :=
  match a, b with
  | .planeAligned t p, .planeAligned t' p' => t == t' && se.eq p p'
  | .cylCentered t r, .cylCentered t' r' => t == t' && softEqSq se r r'
  | .sphereCentered r, .sphereCentered r' => softEqSq se r r'
  | .cylAligned t ou ov r, .cylAligned t' ou' ov' r' =>
    t == t' && softEqSq se r r'
      && softEqDist se (((⟨0, 0, 0⟩ : Vec3 α).set t.U.toNat ou).set t.V.toNat ov)
           (((⟨0, 0, 0⟩ : Vec3 α).set t.U.toNat ou').set t.V.toNat ov')
  | .plane n d, .plane n' d' =>
    if !se.eq d d' then false
    else
      let mu := Vec3.dot n n'
      Num.gt mu (0 : α)
        && Num.le ((1 : α) / Num.sq mu - (1 : α)) (Num.sq se.rel + (epsMach : α))
  | .sphere o r, .sphere o' r' => softEqSq se r r' && softEqDist se o o'
  | .coneAligned t o r, .coneAligned t' o' r' => t == t' && softEqSq se r r' && softEqDist se o o'
  | .simpleQuadric a b c d e f g, .simpleQuadric a' b' c' d' e' f' g' =>
    softEqDist se ⟨a, b, c⟩ ⟨a', b', c'⟩ && softEqDist se ⟨d, e, f⟩ ⟨d', e', f'⟩ && se.eq g g'
  | .generalQuadric a b c d e f g h i j, .generalQuadric a' b' c' d' e' f' g' h' i' j' =>
    softEqDist se ⟨a, b, c⟩ ⟨a', b', c'⟩ && softEqDist se ⟨d, e, f⟩ ⟨d', e', f'⟩
      && softEqDist se ⟨g, h, i⟩ ⟨g', h', i'⟩ && se.eq j j'
  | _, _ => false

/-- the unit's surface vector plus the `merged_` map (source → target) -/
structure SurfStore (α : Type) where
  surfaces : List (Surface α)
  merged : List (Nat × Nat)
deriving Inhabited

def SurfStore.findMerged (st : SurfStore α) (i : Nat) : Nat :=
  match st.merged.find? (fun p => p.1 == i) with
  | some p => p.2
  | none => i

/-- `std::floor` for |x| < 2^52 by the add-and-subtract-2^52 rounding trick (exact in binary64;
    larger magnitudes are already integers).  NOTE: at `α := ℝ` this is the identity, so the
    hash-grid part of de-duplication is only meaningful at `Float`; no theorem depends on it. -/
def floorF (x : α) : α :=
  let big : α := Num.ofNat 4503599627370496
  if Num.ge (Num.abs x) big then x
  else
    let r := if Num.lt x (0 : α) then (x - big) + big else (x + big) - big
    if Num.lt x r then r - (1 : α) else r

/-- `SurfaceHashPoint` -/
def hashPoint : Surface α → α
  | .planeAligned _ p => p
  | .cylCentered _ r2 => Num.sqrt r2
  | .sphereCentered r2 => Num.sqrt r2
  | .cylAligned _ _ _ r2 => Num.sqrt r2
  | .plane _ d => d
  | .sphere _ r2 => Num.sqrt r2
  | .coneAligned _ o _ => Vec3.norm o
  | .simpleQuadric _ _ _ _ _ _ g => Num.sqrt g
  | .generalQuadric _ _ _ _ _ _ _ _ _ j => Num.sqrt j

/-- `SurfaceGridHash{0.01 · abs/rel, 2 rel}`: the grid bins a surface is filed under (the hash
    of the bin number is modelled by the bin number itself: collisions are ignored) -/
def hashBins (tol : Tol α) (s : Surface α) : List α :=
  let gridScale := (0.01 : α) * (tol.abs / tol.rel)
  let eps := (2 : α) * tol.rel
  let off := gridScale / (2 : α)
  let inv := (1 : α) / gridScale
  let bin (h : α) : α := floorF ((h + off) * inv)
  let same (a b : α) : Bool := Num.eq a b || (!Num.eq a a && !Num.eq b b)
  let hp := hashPoint s
  let b0 := bin hp
  let bl := bin (hp - eps)
  let br := bin (hp + eps)
  if !same bl b0 then [b0, bl] else if !same br b0 then [b0, br] else [b0]

def sharesBin (a b : List α) : Bool :=
  a.any fun x => b.any fun y => Num.eq x y || (!Num.eq x x && !Num.eq y y)

/-- test the candidates filed under one hash bin, in the iteration order of
    `std::unordered_multimap::equal_range` (libstdc++ puts a new element in front of its
    equivalents: latest insertion first), for (first near match, exact match) -/
def scanBin (tol : Tol α) (se : SoftEq α) (s : Surface α) (bin : α) :
    List (Nat × Surface α) → Option Nat → Option Nat × Option Nat
  | [], near => (near, none)
  | (i, t) :: ts, near =>
    if sharesBin [bin] (hashBins tol t) && softEq se s t then
      let near' := match near with | some n => some n | none => some i
      if exactEq s t then (near', some i) else scanBin tol se s bin ts near'
    else scanBin tol se s bin ts near

/-- the two hash keys of the source in order, each over the stored surfaces latest-first -/
def scanMatches (tol : Tol α) (se : SoftEq α) (s : Surface α) (surfs : List (Surface α)) :
    Option Nat × Option Nat :=
  let indexed := ((List.range surfs.length).zip surfs).reverse
  let rec go : List α → Option Nat → Option Nat × Option Nat
    | [], near => (near, none)
    | b :: bs, near =>
      match scanBin tol se s b indexed near with
      | (near', some ex) => (near', some ex)
      | (near', none) => go bs near'
  go (hashBins tol s) none

/-- `LocalSurfaceInserter::operator()(surface)` → deduplicated local surface id -/
def SurfStore.insert (st : SurfStore α) (tol : Tol α) (s : Surface α) : SurfStore α × Nat :=
  let se : SoftEq α := ⟨tol.rel, tol.abs⟩
  match scanMatches tol se s st.surfaces with
  | (_, some ex) => (st, st.findMerged ex)
  | (near, none) =>
    let id := st.surfaces.length
    let st' : SurfStore α := { st with surfaces := st.surfaces ++ [s] }
    match near with
    | some n =>
      let target := st.findMerged n
      ({ st' with merged := st'.merged ++ [(id, target)] }, target)
    | none => (st', id)

/-! ### IntersectSurfaceBuilder -/

/-- builder state: unit surfaces, emitted CSG literals (sense, local surface id), zones -/
structure BState (α : Type) where
  store : SurfStore α
  nodes : List (Sense × Nat)
  loc : Zone α
  glob : Zone α
  /-- the simplifier recursion did not terminate within the model's budget -/
  diverged : Bool
deriving Inhabited

def BState.init : BState α := ⟨⟨[], []⟩, [], Zone.infinite, Zone.infinite, false⟩

/-- `apply_transform(transform, surface)` -/
def applyTransform (tra : Xform α) (s : Surface α) : Surface α := tra.applySurf s

/-- `IntersectSurfaceBuilder::operator()(sense, surf)` -/
def BState.insertSurface (st : BState α) (tol : Tol α) (tra : Xform α) (sense : Sense)
    (s : Surface α) : BState α :=
  if st.diverged then st else
  match simplify tol.rel simplifyFuel sense s with
  | none => { st with diverged := true }
  | some (ls, lsurf) =>
    let loc := clipZone st.loc ls lsurf
    match simplify tol.rel simplifyFuel sense (applyTransform tra s) with
    | none => { st with diverged := true }
    | some (fs, fsurf) =>
      let (store, id) := st.store.insert tol fsurf
      let dedup := (store.surfaces.getD id fsurf)
      let glob := clipZone st.glob fs dedup
      { st with store := store, nodes := st.nodes ++ [(fs, id)], loc := loc, glob := glob }

/-- `shrink_exterior(bbox)` (sense inside) -/
def BState.shrinkExterior (st : BState α) (tra : Xform α) (b : BBox α) : BState α :=
  let le := st.loc.exterior.inter b
  let li := if st.loc.interior.nonNull then st.loc.interior.inter le else st.loc.interior
  let ge := st.glob.exterior.inter (b.translate tra)
  let gi := if st.glob.interior.nonNull then st.glob.interior.inter ge else st.glob.interior
  { st with loc := ⟨li, le⟩, glob := ⟨gi, ge⟩ }

/-- `grow_interior(bbox)` (sense outside) -/
def BState.growInterior (st : BState α) (tra : Xform α) (b : BBox α) : BState α :=
  { st with loc := ⟨st.loc.interior.union b, st.loc.exterior⟩,
            glob := ⟨st.glob.interior.union (b.translate tra), st.glob.exterior⟩ }

/-- `calc_merged_bzone(state)` -/
def BState.merged (st : BState α) (tra : Xform α) : Zone α :=
  let ti := if st.loc.interior.nonNull then st.loc.interior.translate tra else BBox.null
  let te := st.loc.exterior.translate tra
  ⟨ti.inter st.glob.interior, te.inter st.glob.exterior⟩

/-- what a region's `build` hands to the builder, in order -/
inductive Op (α : Type) where
  | surf (sense : Sense) (s : Surface α)
  | bbox (sense : Sense) (b : BBox α)
deriving Repr, Inhabited

def BState.apply (st : BState α) (tol : Tol α) (tra : Xform α) : Op α → BState α
  | .surf sense s => st.insertSurface tol tra sense s
  | .bbox .inside b => st.shrinkExterior tra b
  | .bbox .outside b => st.growInterior tra b

def runOps (tol : Tol α) (tra : Xform α) (ops : List (Op α)) : BState α :=
  ops.foldl (fun st op => st.apply tol tra op) BState.init

/-! ### EMISSION: what each `IntersectRegion::build` inserts -/

/-- `Box::build` -/
def emitBox (hw : Vec3 α) : List (Sense × Surface α) :=
  [(.outside, .planeAligned .x (-hw.x)), (.inside, .planeAligned .x hw.x),
   (.outside, .planeAligned .y (-hw.y)), (.inside, .planeAligned .y hw.y),
   (.outside, .planeAligned .z (-hw.z)), (.inside, .planeAligned .z hw.z)]

/-- `Sphere::build` -/
def emitSphere (r : α) : List (Sense × Surface α) := [(.inside, .sphereCentered (Num.sq r))]

/-- `Cylinder::build` -/
def emitCyl (r hh : α) : List (Sense × Surface α) :=
  [(.outside, .planeAligned .z (-hh)), (.inside, .planeAligned .z hh),
   (.inside, .cylCentered .z (Num.sq r))]

/-- cone helper values: tangent and vanishing point -/
def coneTangent (lo hi hh : α) : α := Num.abs (lo - hi) / ((2 : α) * hh)
def coneVanishZ (lo hi hh : α) : α :=
  let tangent := coneTangent lo hi hh
  if Num.gt lo hi then -hh + lo / tangent else hh - hi / tangent

/-- the `ConeZ{{0, 0, vanish_z}, tangent}` of `Cone::build` -/
def coneSurface (lo hi hh : α) : Surface α :=
  .coneAligned .z ⟨0, 0, coneVanishZ lo hi hh⟩ (Num.sq (coneTangent lo hi hh))

/-- non-degenerate branch of `Cone::build` -/
def emitConeProper (lo hi hh : α) : List (Sense × Surface α) :=
  [(.outside, .planeAligned .z (-hh)), (.inside, .planeAligned .z hh),
   (.inside, coneSurface lo hi hh)]

/-- the degenerate test of `Cone::build`: `SoftEqual{tol.rel}(r0, r1)` -/
def coneDegenerate (tol : Tol α) (lo hi : α) : Bool := (SoftEq.ofRel tol.rel).eq lo hi

/-- `Cone::build` -/
def emitCone (tol : Tol α) (lo hi hh : α) : List (Sense × Surface α) :=
  if coneDegenerate tol lo hi then emitCyl ((0.5 : α) * (lo + hi)) hh else emitConeProper lo hi hh

/-- ellipsoid quadric coefficients (a, b, c, g) exactly as the loop computes them -/
def ellipsoidCoeffs (r : Vec3 α) : α × α × α × α :=
  let r0 := Num.sq r.x; let r1 := Num.sq r.y; let r2 := Num.sq r.z
  (r1 * r2, r0 * r2, r0 * r1, ((-r0) * r1) * r2)

/-- the `SimpleQuadric{abc, {0,0,0}, g}` of `Ellipsoid::build` -/
def ellipsoidSurface (r : Vec3 α) : Surface α :=
  let c := ellipsoidCoeffs r
  .simpleQuadric c.1 c.2.1 c.2.2.1 (0 : α) (0 : α) (0 : α) c.2.2.2

/-- `Ellipsoid::build` -/
def emitEllipsoid (r : Vec3 α) : List (Sense × Surface α) := [(.inside, ellipsoidSurface r)]

/-- `x − 4·⌊x/4⌋` for x ≥ 0 by repeated subtraction (every step is exact in binary64, so this
    is `std::fmod(x, 4)` bit for bit) -/
def fmod4 : Nat → α → α
  | 0, x => x
  | fuel + 1, x => if Num.le (4 : α) x then fmod4 fuel (x - (4 : α)) else x

/-- `offset` of `Prism::build`: fmod(3 n + 4 orientation, 4) / 4 -/
def prismOffset (n : Nat) (orient : α) : α :=
  fmod4 (n + 2) ((Num.ofNat (n * 3) : α) + (4 : α) * orient) / (4 : α)

/-- side-plane angle of face `k` -/
def prismTheta (n : Nat) (orient : α) (k : Nat) : α :=
  ((2 : α) * (piC : α) / (Num.ofNat n : α)) * ((Num.ofNat k : α) + prismOffset n orient)

def prismSide (n : Nat) (apothem orient : α) (k : Nat) : Sense × Surface α :=
  let th := prismTheta n orient k
  (.inside, .plane ⟨Num.cos th, Num.sin th, (0 : α)⟩ apothem)

/-- `Prism::build` -/
def emitPrism (n : Nat) (apothem hh orient : α) : List (Sense × Surface α) :=
  [(.outside, .planeAligned .z (-hh)), (.inside, .planeAligned .z hh)]
    ++ (List.range n).map (prismSide n apothem orient)

def cross (x y : Vec3 α) : Vec3 α :=
  ⟨x.y * y.z - x.z * y.y, x.z * y.x - x.x * y.z, x.x * y.y - x.y * y.x⟩

/-- base vectors a, b, c of `Parallelepiped::build` (sin/cos of the three angles given) -/
def ppipedBase (h : Vec3 α) (sa ca st ct sp cp : α) : Vec3 α × Vec3 α × Vec3 α :=
  (⟨(1 : α) * h.x, (0 : α) * h.x, (0 : α) * h.x⟩,
   ⟨sa * h.y, ca * h.y, (0 : α) * h.y⟩,
   ⟨(st * cp) * h.z, (st * sp) * h.z, ct * h.z⟩)

/-- unit normals and offsets of the slanted faces of `Parallelepiped::build`:
    (ynorm, yoffset, xnorm, xoffset) -/
def ppipedFaces (h : Vec3 α) (sa ca st ct sp cp : α) : Vec3 α × α × Vec3 α × α :=
  let (a, b, c) := ppipedBase h sa ca st ct sp cp
  let xnorm := makeUnit (cross b c)
  let ynorm := makeUnit (cross c a)
  (ynorm, Vec3.dot b ynorm, xnorm, Vec3.dot a xnorm)

/-- `Parallelepiped::build` -/
def emitPpiped (h : Vec3 α) (sa ca st ct sp cp : α) : List (Sense × Surface α) :=
  let f := ppipedFaces h sa ca st ct sp cp
  [(.outside, .planeAligned .z (-h.z)), (.inside, .planeAligned .z h.z),
   (.outside, .plane f.1 (-f.2.1)), (.inside, .plane f.1 f.2.1),
   (.outside, .plane f.2.2.1 (-f.2.2.2)), (.inside, .plane f.2.2.1 f.2.2.2)]

/-- `InfWedge::build` (sin/cos of start and of start+interior given) -/
def emitWedge (ss cs se ce : α) : List (Sense × Surface α) :=
  [(.inside, .plane ⟨ss, -cs, (0 : α)⟩ (0 : α)), (.outside, .plane ⟨se, -ce, (0 : α)⟩ (0 : α))]

/-! ### GenPrism / GenTrap -/

abbrev P2 (α : Type) := α × α

/-- `detail::calc_orientation(a, b, c)`: −1 clockwise, 0 collinear, 1 counterclockwise -/
def calcOrientation (a b c : P2 α) : Int :=
  let crossp := (b.1 - a.1) * (c.2 - b.2) - (b.2 - a.2) * (c.1 - b.1)
  if Num.lt crossp (0 : α) then -1 else if Num.gt crossp (0 : α) then 1 else 0

/-- `is_same_orientation(a, b, degen_ok = true)` -/
def sameOrientation (a b : Int) : Bool := if a == 0 || b == 0 then true else a == b

def getP (l : List (P2 α)) (i : Nat) : P2 α := l.getD (i % l.length) ((0 : α), (0 : α))

/-- `detail::is_convex(corners, degen_ok = true)` -/
def isConvex (c : List (P2 α)) : Bool :=
  let step (acc : Int × Bool) (i : Nat) : Int × Bool :=
    let cur := calcOrientation (getP c i) (getP c (i + 1)) (getP c (i + 2))
    let ref := if acc.1 == 0 then cur else acc.1
    (ref, acc.2 && sameOrientation cur ref)
  ((List.range c.length).foldl step (0, true)).2

def p2Eq (a b : P2 α) : Bool := Num.eq a.1 b.1 && Num.eq a.2 b.2

/-- `make_unit_vector` on `Real2` (norm through the fma dot product) -/
def unit2 (v : P2 α) : P2 α :=
  let s := (1 : α) / Num.sqrt (Num.fma v.2 v.2 (Num.fma v.1 v.1 (0 : α)))
  (v.1 * s, v.2 * s)

/-- `GenPrism::calc_twist_cosine(i)` -/
def twistCosine (lo hi : List (P2 α)) (i : Nat) : α :=
  let li := getP lo i; let lj := getP lo (i + 1); let hi_ := getP hi i; let hj := getP hi (i + 1)
  if p2Eq li lj || p2Eq hi_ hj then (1 : α)
  else
    let a := unit2 (lj.1 - li.1, lj.2 - li.2)
    let b := unit2 (hj.1 - hi_.1, hj.2 - hi_.2)
    Num.fma a.2 b.2 (Num.fma a.1 b.1 (0 : α))

/-- normalised state of a `GenPrism`: counter-clockwise polygons and the degenerate flag
    (0 none, 1 lo, 2 hi); `none` = the constructor throws -/
def genPrismNormalize (hz : α) (lo hi : List (P2 α)) :
    Option (List (P2 α) × List (P2 α) × Nat) :=
  if !(Num.gt hz (0 : α)) || lo.length < 3 || hi.length != lo.length then none
  else if !isConvex lo || !isConvex hi then none
  else
    let lor := calcOrientation (getP lo 0) (getP lo 1) (getP lo 2)
    let hir := calcOrientation (getP hi 0) (getP hi 1) (getP hi 2)
    if !sameOrientation lor hir then none
    else if lor == 0 && hir == 0 then none
    else
      let degen : Nat := if lor == 0 then 1 else if hir == 0 then 2 else 0
      let (lo', hi') := if lor == -1 || hir == -1 then (lo.reverse, hi.reverse) else (lo, hi)
      if (List.range lo'.length).all fun i => Num.gt (twistCosine lo' hi' i) (0 : α) then
        some (lo', hi', degen)
      else none

def v3Eq (a b : Vec3 α) : Bool := Num.eq a.x b.x && Num.eq a.y b.y && Num.eq a.z b.z

/-- the "twisted" face of `GenPrism::build` between the vertical edges i (ilo → ihi) and
    j (jlo → jhi): a general quadric with second-order terms z², yz, zx only -/
def twistedFace (hz : α) (li lj hi_ hj : P2 α) : Surface α :=
  let aux := (0.5 : α) / hz
  let txi := aux * (hi_.1 - li.1); let tyi := aux * (hi_.2 - li.2)
  let txj := aux * (hj.1 - lj.1); let tyj := aux * (hj.2 - lj.2)
  let mxi := (0.5 : α) * (li.1 + hi_.1); let myi := (0.5 : α) * (li.2 + hi_.2)
  let mxj := (0.5 : α) * (lj.1 + hj.1); let myj := (0.5 : α) * (lj.2 + hj.2)
  let czz := txj * tyi - txi * tyj
  let eyz := txi - txj
  let fzx := tyj - tyi
  let gx := myj - myi
  let hy := mxi - mxj
  let iz := txj * myi - txi * myj + tyi * mxj - tyj * mxi
  let js := mxj * myi - mxi * myj
  .generalQuadric (0 : α) (0 : α) czz (0 : α) eyz fzx gx hy iz js

/-- side face i of `GenPrism::build` -/
def genPrismSide (tol : Tol α) (hz : α) (lo hi : List (P2 α)) (i : Nat) :
    Sense × Surface α :=
  let li := getP lo i; let lj := getP lo (i + 1); let hi_ := getP hi i; let hj := getP hi (i + 1)
  let ilo : Vec3 α := ⟨li.1, li.2, -hz⟩
  let jlo : Vec3 α := ⟨lj.1, lj.2, -hz⟩
  let jhi : Vec3 α := ⟨hj.1, hj.2, hz⟩
  let ihi : Vec3 α := ⟨hi_.1, hi_.2, hz⟩
  let loN := makeUnit (cross (Vec3.sub jlo ilo) (Vec3.sub ihi ilo))
  let hiN := makeUnit (cross (Vec3.sub ihi jhi) (Vec3.sub jlo jhi))
  if (SoftEq.ofRel tol.rel).eq (Vec3.dot loN hiN) (1 : α) || v3Eq ihi jhi then
    (.inside, .plane loN (Vec3.dot loN ilo))
  else if v3Eq ilo jlo then (.inside, .plane hiN (Vec3.dot hiN ihi))
  else (.inside, twistedFace hz li lj hi_ hj)

/-- `GenPrism::build` on normalised polygons -/
def emitGenPrism (tol : Tol α) (hz : α) (lo hi : List (P2 α)) (degen : Nat) :
    List (Sense × Surface α) :=
  (if degen != 1 then [(Sense.outside, Surface.planeAligned .z (-hz))] else [])
    ++ (if degen != 2 then [(Sense.inside, Surface.planeAligned .z hz)] else [])
    ++ (List.range lo.length).map (genPrismSide tol hz lo hi)

/-- exterior box of `GenPrism::build` -/
def genPrismBox (hz : α) (lo hi : List (P2 α)) : BBox α :=
  let grow (b : BBox α) (q : P2 α) : BBox α :=
    ⟨⟨Ext.fmin b.lo.x (.fin q.1), Ext.fmin b.lo.y (.fin q.2), b.lo.z⟩,
     ⟨Ext.fmax b.hi.x (.fin q.1), Ext.fmax b.hi.y (.fin q.2), b.hi.z⟩⟩
  let b := (lo ++ hi).foldl grow BBox.null
  ⟨⟨b.lo.x, b.lo.y, Ext.fmin b.lo.z (.fin (-hz))⟩, ⟨b.hi.x, b.hi.y, Ext.fmax b.hi.z (.fin hz)⟩⟩

/-- SPEC of the generalised prism: at height z the cross-section is the polygon whose vertices
    are linearly interpolated between the −hz and +hz polygons (counter-clockwise); the side
    faces are the ruled surfaces between corresponding edges -/
def inGenPrism (hz : α) (lo hi : List (P2 α)) (p : Vec3 α) : Bool :=
  let s := (p.z + hz) / ((2 : α) * hz)
  let vert (i : Nat) : P2 α :=
    let a := getP lo i; let b := getP hi i
    (a.1 + (b.1 - a.1) * s, a.2 + (b.2 - a.2) * s)
  Num.le (Num.abs p.z) hz
    && (List.range lo.length).all fun i =>
      let a := vert i; let b := vert (i + 1)
      Num.le (0 : α) ((b.1 - a.1) * (p.y - a.2) - (b.2 - a.2) * (p.x - a.1))

/-! ### bounding boxes promised by each build -/

/-- `make_xyradial_bbox(r)` -/
def xyRadialBox (r : α) : BBox α := ⟨⟨.fin (-r), .fin (-r), .ninf⟩, ⟨.fin r, .fin r, .pinf⟩⟩

/-- exterior (`Sense::inside`) and interior (`Sense::outside`) boxes promised by the
    non-degenerate `Cone::build` -/
def coneBoxes (lo hi hh : α) : BBox α × BBox α :=
  let tangent := coneTangent lo hi hh
  let b := fmax lo hi
  let h := b / tangent
  let z := fmin (h / (2 : α)) ((2 : α) * hh)
  let r := b - tangent * z
  let zmin0 := -hh
  let zmax0 := zmin0 + z
  let (zmin, zmax) := if Num.lt lo hi then (hh - z, hh) else (zmin0, zmax0)
  let rbox := ((sqrtTwo : α) / (2 : α)) * r
  (xyRadialBox (fmax lo hi), BBox.ofPoints ⟨-rbox, -rbox, zmin⟩ ⟨rbox, rbox, zmax⟩)

def ellipsoidBoxes (r : Vec3 α) : BBox α × BBox α :=
  let k := (1 : α) / (sqrtThree : α)
  (BBox.ofPoints ⟨-r.x, -r.y, -r.z⟩ r,
   BBox.ofPoints ⟨-(r.x * k), -(r.y * k), -(r.z * k)⟩ ⟨r.x * k, r.y * k, r.z * k⟩)

def prismBoxes (n : Nat) (apothem hh : α) : BBox α × BBox α :=
  (xyRadialBox (apothem / Num.cos ((piC : α) / (Num.ofNat n : α))),
   ((xyRadialBox apothem).shrinkLo .z (-hh)).shrinkHi .z hh)

def ppipedBox (h : Vec3 α) (sa ca st ct sp cp : α) : BBox α :=
  let (a, b, c) := ppipedBase h sa ca st ct sp cp
  let hd : Vec3 α := ⟨a.x + b.x + c.x, a.y + b.y + c.y, a.z + b.z + c.z⟩
  BBox.ofPoints ⟨-hd.x, -hd.y, -hd.z⟩ hd

/-! ### regions -/

inductive Region (α : Type) where
  | box (hw : Vec3 α)
  | sphere (r : α)
  | cyl (r hh : α)
  | cone (lo hi hh : α)
  | ellipsoid (r : Vec3 α)
  | prism (n : Nat) (apothem hh orient : α)
  | ppiped (h : Vec3 α) (sa ca st ct sp cp : α)
  | wedge (ss cs se ce : α)
  /-- polygons already normalised by `genPrismNormalize` (counter-clockwise; degenerate flag) -/
  | genprism (hz : α) (lo hi : List (P2 α)) (degen : Nat)
deriving Repr, Inhabited

def surfOps (l : List (Sense × Surface α)) : List (Op α) := l.map fun p => .surf p.1 p.2

/-- the sequence of builder calls of `build`, in the code's order -/
def Region.ops (tol : Tol α) : Region α → List (Op α)
  | .box hw => surfOps (emitBox hw)
  | .sphere r => surfOps (emitSphere r)
  | .cyl r hh => surfOps (emitCyl r hh)
  | .cone lo hi hh =>
    if coneDegenerate tol lo hi then surfOps (emitCyl ((0.5 : α) * (lo + hi)) hh)
    else
      let (ext, int) := coneBoxes lo hi hh
      surfOps (emitConeProper lo hi hh) ++ [.bbox .inside ext, .bbox .outside int]
  | .ellipsoid r =>
    let (ext, int) := ellipsoidBoxes r
    surfOps (emitEllipsoid r) ++ [.bbox .inside ext, .bbox .outside int]
  | .prism n a hh o =>
    let (ext, int) := prismBoxes n a hh
    surfOps (emitPrism n a hh o) ++ [.bbox .inside ext, .bbox .outside int]
  | .ppiped h sa ca st ct sp cp =>
    surfOps (emitPpiped h sa ca st ct sp cp) ++ [.bbox .inside (ppipedBox h sa ca st ct sp cp)]
  | .wedge ss cs se ce => surfOps (emitWedge ss cs se ce)
  | .genprism hz lo hi dg =>
    surfOps (emitGenPrism tol hz lo hi dg) ++ [.bbox .inside (genPrismBox hz lo hi)]

/-- the raw (untransformed, unsimplified) emission of a region -/
def Region.emit (tol : Tol α) : Region α → List (Sense × Surface α)
  | .box hw => emitBox hw
  | .sphere r => emitSphere r
  | .cyl r hh => emitCyl r hh
  | .cone lo hi hh => emitCone tol lo hi hh
  | .ellipsoid r => emitEllipsoid r
  | .prism n a hh o => emitPrism n a hh o
  | .ppiped h sa ca st ct sp cp => emitPpiped h sa ca st ct sp cp
  | .wedge ss cs se ce => emitWedge ss cs se ce
  | .genprism hz lo hi dg => emitGenPrism tol hz lo hi dg

/-- constructor validation (`CELER_VALIDATE` in each constructor) -/
def Region.valid : Region α → Bool
  | .box hw => Num.gt hw.x (0 : α) && Num.gt hw.y (0 : α) && Num.gt hw.z (0 : α)
  | .sphere r => Num.gt r (0 : α)
  | .cyl r hh => Num.gt r (0 : α) && Num.gt hh (0 : α)
  | .cone lo hi hh => Num.ge lo (0 : α) && Num.ge hi (0 : α) && Num.gt hh (0 : α)
  | .ellipsoid r => Num.gt r.x (0 : α) && Num.gt r.y (0 : α) && Num.gt r.z (0 : α)
  | .prism n a hh o =>
    decide (n ≥ 3) && Num.gt a (0 : α) && Num.gt hh (0 : α) && Num.ge o (0 : α) && Num.lt o (1 : α)
  | .ppiped h .. => Num.gt h.x (0 : α) && Num.gt h.y (0 : α) && Num.gt h.z (0 : α)
  | .wedge .. => true
  | .genprism .. => true

/-- build of a region against a unit builder that already holds `store` (a second object of the
    same unit: the surface inserter is shared, the bounding zones and the literal list are new) -/
def Region.buildIn (store : SurfStore α) (tol : Tol α) (tra : Xform α) (r : Region α) : BState α :=
  (r.ops tol).foldl (fun st op => st.apply tol tra op) { (BState.init : BState α) with store := store }

/-- standalone build of a region against a fresh unit builder -/
def Region.build (tol : Tol α) (tra : Xform α) (r : Region α) : BState α :=
  runOps tol tra (r.ops tol)

/-! ### SPEC: membership predicates (closed solids) -/

/-- box: |x| ≤ hx ∧ |y| ≤ hy ∧ |z| ≤ hz -/
def inBox (hw p : Vec3 α) : Bool :=
  Num.le (Num.abs p.x) hw.x && Num.le (Num.abs p.y) hw.y && Num.le (Num.abs p.z) hw.z

/-- sphere: x² + y² + z² ≤ r² -/
def inSphere (r : α) (p : Vec3 α) : Bool :=
  Num.le (p.x * p.x + p.y * p.y + p.z * p.z) (r * r)

/-- cylinder along z: |z| ≤ hh ∧ x² + y² ≤ r² -/
def inCyl (r hh : α) (p : Vec3 α) : Bool :=
  Num.le (Num.abs p.z) hh && Num.le (p.x * p.x + p.y * p.y) (r * r)

/-- radius of the cone at height z: linear from `lo` at −hh to `hi` at +hh -/
def coneRadiusAt (lo hi hh z : α) : α := lo + (hi - lo) * (z + hh) / ((2 : α) * hh)

/-- truncated cone along z: |z| ≤ hh ∧ x² + y² ≤ R(z)² -/
def inCone (lo hi hh : α) (p : Vec3 α) : Bool :=
  Num.le (Num.abs p.z) hh
    && Num.le (p.x * p.x + p.y * p.y) (coneRadiusAt lo hi hh p.z * coneRadiusAt lo hi hh p.z)

/-- (x/rx)² + (y/ry)² + (z/rz)² -/
def ellipsoidForm (r p : Vec3 α) : α :=
  (p.x / r.x) * (p.x / r.x) + (p.y / r.y) * (p.y / r.y) + (p.z / r.z) * (p.z / r.z)

/-- ellipsoid: (x/rx)² + (y/ry)² + (z/rz)² ≤ 1 -/
def inEllipsoid (r p : Vec3 α) : Bool := Num.le (ellipsoidForm r p) (1 : α)

/-- regular prism: |z| ≤ hh ∧ every face k < n: x cos θ_k + y sin θ_k ≤ apothem, with the face
    normals at θ_k = (2π/n)(k + offset), offset = ((3 n + 4 orientation) mod 4)/4 as in the code
    (`prismTheta`: the reduction of the offset modulo one face step is `fmod4`; with the code's
    21-digit π literal an unreduced offset would describe a polygon rotated by ~1e-20 rad, which
    is why the SPEC keeps the code's reduced offset — see `fmod4_spec` in Lemmas/Solids) -/
def inPrism (n : Nat) (apothem hh orient : α) (p : Vec3 α) : Bool :=
  Num.le (Num.abs p.z) hh
    && (List.range n).all fun k =>
      Num.le (p.x * Num.cos (prismTheta n orient k) + p.y * Num.sin (prismTheta n orient k)) apothem

/-- edge half-vectors of the parallelepiped AS DOCUMENTED (IntersectRegion.hh, = G4Para): `h` are
    the half-lengths of the *projections* of the edges on x, y, z; alpha is the angle between the
    y-edge direction and the y axis, (theta, phi) the direction of the z-edge:
    a = (hx, 0, 0), b = (hy tan α, hy, 0), c = (hz tan θ cos φ, hz tan θ sin φ, hz) -/
def ppipedEdges (h : Vec3 α) (sa ca st ct sp cp : α) : Vec3 α × Vec3 α × Vec3 α :=
  (⟨h.x, (0 : α), (0 : α)⟩,
   ⟨h.y * (sa / ca), h.y, (0 : α)⟩,
   ⟨h.z * (st / ct) * cp, h.z * (st / ct) * sp, h.z⟩)

/-- parallelepiped: p = u a + v b + w c with |u|, |v|, |w| ≤ 1 (coordinates solved by
    back-substitution; a, b, c as documented, see `ppipedEdges`) -/
def inPpiped (h : Vec3 α) (sa ca st ct sp cp : α) (p : Vec3 α) : Bool :=
  let (a, b, c) := ppipedEdges h sa ca st ct sp cp
  let w := p.z / c.z
  let v := (p.y - w * c.y) / b.y
  let u := (p.x - v * b.x - w * c.x) / a.x
  Num.le (Num.abs u) (1 : α) && Num.le (Num.abs v) (1 : α) && Num.le (Num.abs w) (1 : α)

/-- infinite wedge between the half-planes at the start direction (cs, ss) and the end direction
    (ce, se), interior angle ≤ half a turn: counter-clockwise of start and clockwise of end -/
def inWedge (ss cs se ce : α) (p : Vec3 α) : Bool :=
  Num.le (0 : α) (cs * p.y - ss * p.x) && Num.le (0 : α) (se * p.x - ce * p.y)

/-- membership in a region's solid -/
def Region.mem : Region α → Vec3 α → Bool
  | .box hw, p => inBox hw p
  | .sphere r, p => inSphere r p
  | .cyl r hh, p => inCyl r hh p
  | .cone lo hi hh, p => inCone lo hi hh p
  | .ellipsoid r, p => inEllipsoid r p
  | .prism n a hh o, p => inPrism n a hh o p
  | .ppiped h sa ca st ct sp cp, p => inPpiped h sa ca st ct sp cp p
  | .wedge ss cs se ce, p => inWedge ss cs se ce p
  | .genprism hz lo hi _, p => inGenPrism hz lo hi p

/-- sense of a point w.r.t. one emitted literal: does the point's side agree with the sense? -/
def literalHolds (sense : Sense) (s : Surface α) (p : Vec3 α) : Bool :=
  match s.calcSense p, sense with
  | .inside, .inside => true
  | .outside, .outside => true
  | _, _ => false

/-- the intersection ("all of") of the emitted literals at a point -/
def evalEmit (l : List (Sense × Surface α)) (p : Vec3 α) : Bool :=
  l.all fun q => literalHolds q.1 q.2 p

/-- is the point exactly on one of the surfaces? -/
def onSomeSurface (l : List (Sense × Surface α)) (p : Vec3 α) : Bool :=
  l.any fun q => match q.2.calcSense p with | .on => true | _ => false

/-! ### objects: hollow / sliced solids and boolean combinations -/

/-- CSG objects over regions (`Shape`, `Solid`, `Transformed{Translation}`, `NegatedObject`,
    `AllObjects`, `AnyObjects`; `make_subtraction a b = all [a, neg b]`) -/
inductive Obj (α : Type) where
  | shape (r : Region α)
  | xformed (x : Xform α) (o : Obj α)
  | neg (o : Obj α)
  | all (os : List (Obj α))
  | any (os : List (Obj α))
deriving Inhabited

/-- `make_subtraction(minuend, subtrahend)` -/
def Obj.sub (a b : Obj α) : Obj α := .all [a, .neg b]

/-- `SolidBase::build`: interior ∧ ¬excluded ∧ (wedge | ¬wedge) -/
def Obj.solid (interior : Region α) (excluded : Option (Region α))
    (angle : Option (Sense × Region α)) : Obj α :=
  .all ([.shape interior]
    ++ (match excluded with | some e => [.neg (.shape e)] | none => [])
    ++ (match angle with
        | some (.inside, w) => [.shape w]
        | some (.outside, w) => [.neg (.shape w)]
        | none => []))

/-- `PolyCone::or_solid` / `PolyPrism::or_solid` for ONE axial segment [zlo, zhi]: the solid of
    half-height (zhi − zlo)/2 built about z = 0 and wrapped in `Transformed{Translation{0,0,dz}}`
    whenever dz = (zhi + zlo)/2 is non-zero (of either sign) -/
def Obj.polySingle (zlo zhi : α) (mk : α → Region α) (mkInner : Option (α → Region α))
    (angle : Option (Sense × Region α)) : Obj α :=
  let hh := (zhi - zlo) / (2 : α)
  let dz := (zhi + zlo) / (2 : α)
  let o := Obj.solid (mk hh) (mkInner.map fun f => f hh) angle
  if Num.ne dz (0 : α) then .xformed (.tra ⟨(0 : α), (0 : α), dz⟩) o else o

/-- one segment of `construct_segments` (multi-segment PolyCone / PolyPrism `build`): outer and
    not inner, under `Translation{0, 0, zlo + hz}`, hz = (zhi − zlo)/2 -/
def Obj.polySegment (zlo zhi : α) (mk : α → Region α) (mkInner : Option (α → Region α)) : Obj α :=
  let hz := (zhi - zlo) / (2 : α)
  .xformed (.tra ⟨(0 : α), (0 : α), zlo + hz⟩)
    (.all ([.shape (mk hz)] ++ (match mkInner with | some f => [.neg (.shape (f hz))] | none => [])))

mutual
/-- SPEC membership of an object: pointwise and / or / not; a translated object contains p iff
    the original contains p − t -/
def Obj.mem : Obj α → Vec3 α → Bool
  | .shape r, p => r.mem p
  | .xformed x o, p => o.mem (x.down p)
  | .neg o, p => !o.mem p
  | .all os, p => Obj.memAll os p
  | .any os, p => Obj.memAny os p
def Obj.memAll : List (Obj α) → Vec3 α → Bool
  | [], _ => true
  | o :: os, p => o.mem p && Obj.memAll os p
def Obj.memAny : List (Obj α) → Vec3 α → Bool
  | [], _ => false
  | o :: os, p => o.mem p || Obj.memAny os p
end

mutual
/-- IMPLEMENTATION view: the CSG tree over emitted literals evaluated at a point, with the
    accumulated translation applied to every emitted surface (`Transformed::build` pushes the
    transform; `IntersectSurfaceBuilder` applies it to each surface) -/
def Obj.eval (tol : Tol α) : Xform α → Obj α → Vec3 α → Bool
  | tra, .shape r, p =>
    evalEmit ((r.emit tol).map fun q => (q.1, applyTransform tra q.2)) p
  | tra, .xformed x o, p =>
    -- `VolumeBuilder::push_transform(apply_transform(local_transform, x))`
    Obj.eval tol (tra.compose x) o p
  | tra, .neg o, p => !Obj.eval tol tra o p
  | tra, .all os, p => Obj.evalAll tol tra os p
  | tra, .any os, p => Obj.evalAny tol tra os p
def Obj.evalAll (tol : Tol α) : Xform α → List (Obj α) → Vec3 α → Bool
  | _, [], _ => true
  | tra, o :: os, p => Obj.eval tol tra o p && Obj.evalAll tol tra os p
def Obj.evalAny (tol : Tol α) : Xform α → List (Obj α) → Vec3 α → Bool
  | _, [], _ => false
  | tra, o :: os, p => Obj.eval tol tra o p || Obj.evalAny tol tra os p
end

end CelerVerif.Solids
