/-
Executable model (generic in `Num α`) of field propagation, AS WRITTEN in
  src/celeritas/field/FieldPropagator.hh   (constructor, `operator()(real_type step)`: chord
      construction, `update_length`, the four branches, loop condition, looping flag, tail)
  src/celeritas/field/detail/FieldUtils.hh (`make_chord`, `is_intercept_close`,
      `rel_err_sq`, `distance_chord`)
  src/celeritas/field/FieldDriverOptions.{hh,cc} (`operator bool`, `validate_input`)
  src/corecel/math/Algorithms.hh (`min`/`max` for floating point = `fmin`/`fmax`)
  src/corecel/math/ArrayUtils.hh (`make_unit_vector`, `axpy`, `norm`)
  src/celeritas/field/FieldDriver.hh (`advance`, `find_next_chord`, `accurate_advance`,
      `integrate_step`, `one_good_step`, `new_step_scale`) over an abstract stepper (`namespace Driver`)
  src/celeritas/field/MagFieldEquation.hh, ZHelixStepper.hh (closed form)

The propagator talks to two callees, the field driver and the geometry track view.  Their
ANSWERS are inputs of the model (recorded by harness/fieldprop.cc from the real callees through
template wrappers); the model reproduces every call, every argument and the result.
Expression trees (association, fma placement) follow the C++ so that the `Float` instance is
bit-identical.  No Mathlib import (linked into the driver executable).
-/
import CelerVerif.Num.Basic

namespace CelerVerif.FieldProp
open CelerVerif
open scoped CelerVerif.Num

variable {α : Type} [Num α]

/-! ### small numeric helpers -/

/-- `celeritas::min(a, b)` for floating point = `std::fmin` (a NaN operand is ignored) -/
def fmin (a b : α) : α :=
  if Num.ne a a then b else if Num.ne b b then a else if Num.lt b a then b else a

/-- `celeritas::max(a, b)` for floating point = `std::fmax` -/
def fmax (a b : α) : α :=
  if Num.ne a a then b else if Num.ne b b then a else if Num.lt a b then b else a

/-- `cross_product(x, y)` (ArrayUtils.hh; plain products, no fma) -/
def cross (x y : Vec3 α) : Vec3 α :=
  ⟨x.y * y.z - x.z * y.y, x.z * y.x - x.x * y.z, x.x * y.y - x.y * y.x⟩

/-- `make_unit_vector(v)`: `scale = 1 / norm(v)`, every element `*= scale` -/
def makeUnitVector (v : Vec3 α) : Vec3 α :=
  let sc := (1 : α) / Vec3.norm v
  ⟨v.x * sc, v.y * sc, v.z * sc⟩

/-- `OdeState` (field/Types.hh) -/
structure OdeState (α : Type) where
  pos : Vec3 α
  mom : Vec3 α
deriving Inhabited

/-- `DriverResult` -/
structure DriverResult (α : Type) where
  state : OdeState α
  step : α
deriving Inhabited

/-- `FieldStepperResult` -/
structure StepperResult (α : Type) where
  mid : OdeState α
  fin : OdeState α
  err : OdeState α
deriving Inhabited

/-- what `geo.find_next_step(max)` answers (`Propagation`: boundary flag + distance) -/
structure Linear (α : Type) where
  boundary : Bool
  distance : α
deriving Inhabited

/-! ### `detail::make_chord`, `detail::is_intercept_close` -/

structure Chord (α : Type) where
  length : α
  dir : Vec3 α

/-- `make_chord(src, dst)`: `dir = dst - src; length = norm(dir); dir /= length` -/
def makeChord (src dst : Vec3 α) : Chord α :=
  let d := Vec3.sub dst src
  let len := Vec3.norm d
  ⟨len, ⟨d.x / len, d.y / len, d.z / len⟩⟩

/-- `is_intercept_close(pos, dir, distance, target, tolerance)`:
    `delta_sq += ipow<2>(pos[i] - target[i] + distance * dir[i])` from 0; `<= ipow<2>(tol)` -/
def isInterceptClose (pos dir : Vec3 α) (distance : α) (target : Vec3 α) (tol : α) : Bool :=
  let t (p tg d : α) : α := Num.sq (p - tg + distance * d)
  let dsq := (((0 : α) + t pos.x target.x dir.x) + t pos.y target.y dir.y) + t pos.z target.z dir.z
  Num.le dsq (Num.sq tol)

/-! ### the propagation loop -/

/-- what the loop reads from the driver (accessors) and the caller -/
structure Cfg (α : Type) where
  step : α                 -- requested step (CELER_EXPECT(step > 0), not checked in release)
  minSub : α               -- `minimum_substep()` = `driver_.minimum_step()`
  deltaInt : α             -- `delta_intersection()`
  maxSub : Int             -- `max_substeps()` (short int)

/-- `bump_distance()` = `delta_intersection() * real_type(0.1)` -/
def Cfg.bump (c : Cfg α) : α := c.deltaInt * (0.1 : α)

/-- loop-carried variables of `operator()(real_type step)` -/
structure PState (α : Type) where
  state : OdeState α        -- `state_`
  boundary : Bool           -- `result.boundary`
  distance : α              -- `result.distance`
  remaining : α
  remSub : Int              -- `remaining_substeps`

/-- calls made on the geometry track view (set_dir / find_next_step / move_internal /
    move_to_boundary; the latter carries the position the geometry reports afterwards) -/
inductive GeoOp (α : Type) where
  | setDir (d : Vec3 α)
  | findNext (max : α)
  | moveInternal (p : Vec3 α)
  | moveToBoundary (posAfter : Vec3 α)

/-- constructor: `state_.pos = geo.pos(); state_.mom = momentum * geo.dir()`;
    `result.boundary = geo.is_on_boundary(); result.distance = 0; remaining = step` -/
def PState.init (c : Cfg α) (momentum : α) (gpos gdir : Vec3 α) (onBoundary : Bool) : PState α :=
  { state := ⟨gpos, ⟨gdir.x * momentum, gdir.y * momentum, gdir.z * momentum⟩⟩
    boundary := onBoundary, distance := (0 : α), remaining := c.step, remSub := c.maxSub }

/-- one recorded pair of answers consumed by one loop iteration -/
structure Answer (α : Type) where
  sub : DriverResult α      -- `driver_.advance(remaining, state_)`
  lin : Linear α            -- `geo_.find_next_step(chord.length + delta_intersection())`

inductive Branch | accept | retryHalf | commit | shorten
deriving DecidableEq, Repr

/-- geometry calls made BEFORE the geometry answer is known (they depend on the driver answer
    only): optional `set_dir(chord.dir)`, then `find_next_step(chord.length + delta)` -/
def preOps (c : Cfg α) (s : PState α) (sub : DriverResult α) : List (GeoOp α) :=
  let chord := makeChord s.state.pos sub.state.pos
  (if Num.ge chord.length c.minSub then [GeoOp.setDir chord.dir] else [])
    ++ [GeoOp.findNext (chord.length + c.deltaInt)]

/-- `update_length = substep.step * linear_step.distance / chord.length` -/
def updateLength (s : PState α) (a : Answer α) : α :=
  a.sub.step * a.lin.distance / (makeChord s.state.pos a.sub.state.pos).length

/-- which of the four branches the loop body takes -/
def branchOf (c : Cfg α) (s : PState α) (a : Answer α) : Branch :=
  let chord := makeChord s.state.pos a.sub.state.pos
  let upd := updateLength s a
  if !a.lin.boundary then .accept
  else if s.boundary && Num.lt a.lin.distance c.bump then .retryHalf
  else if Num.le upd c.minSub
        || isInterceptClose s.state.pos chord.dir a.lin.distance a.sub.state.pos c.deltaInt
        || Num.eq chord.length (0 : α) then .commit
  else .shorten

/-- the loop body after both answers: new loop state and the geometry calls it makes -/
def body (c : Cfg α) (s : PState α) (a : Answer α) : PState α × List (GeoOp α) :=
  let chord := makeChord s.state.pos a.sub.state.pos
  let upd := updateLength s a
  match branchOf c s a with
  | .accept =>
    let dist := s.distance + a.sub.step
    ({ state := a.sub.state, boundary := false, distance := dist,
       remaining := c.step - dist, remSub := s.remSub - 1 },
     [GeoOp.moveInternal a.sub.state.pos])
  | .retryHalf =>
    ({ s with remaining := a.sub.step / (2 : α) }, [])
  | .commit =>
    let b := Num.le a.lin.distance chord.length
              || Num.le (s.distance + upd) c.step
              || Num.eq chord.length (0 : α)
    let pos := if b then s.state.pos else a.sub.state.pos
    ({ state := ⟨pos, a.sub.state.mom⟩, boundary := b,
       distance := s.distance + fmin upd a.sub.step, remaining := (0 : α), remSub := s.remSub },
     if b then [] else [GeoOp.moveInternal a.sub.state.pos])
  | .shorten =>
    ({ s with remaining := upd }, [])

/-- `while (remaining > minimum_substep() && remaining_substeps > 0)` -/
def cont (c : Cfg α) (s : PState α) : Bool :=
  Num.gt s.remaining c.minSub && decide (s.remSub > 0)

/-- one executed iteration: state before, answers, state after -/
structure Iter (α : Type) where
  pre : PState α
  ans : Answer α
  post : PState α

/-- the do-while loop over recorded answers.  `none` = the recorded answers ran out while the
    loop still wanted to continue; otherwise the iterations executed, the exit state and the
    unused answers. -/
def loop (c : Cfg α) : PState α → List (Answer α) →
    Option (List (Iter α) × PState α × List (Answer α))
  | _, [] => none
  | s, a :: rest =>
    let s' := (body c s a).1
    if cont c s' then
      match loop c s' rest with
      | some (its, f, left) => some (⟨s, a, s'⟩ :: its, f, left)
      | none => none
    else some ([⟨s, a, s'⟩], s', rest)

/-- the iterations the loop executes on the given answers, also when the answers run out
    (used to state termination: the length of this list is bounded whatever the answers are) -/
def loopIters (c : Cfg α) : PState α → List (Answer α) → List (Iter α)
  | _, [] => []
  | s, a :: rest =>
    let s' := (body c s a).1
    ⟨s, a, s'⟩ :: (if cont c s' then loopIters c s' rest else [])

/-- `Propagation` -/
structure Result (α : Type) where
  distance : α
  boundary : Bool
  looping : Bool

/-- everything after the loop.  `mtbPos` is what `geo.pos()` answers after
    `move_to_boundary()` (only used on that path). -/
def finish (c : Cfg α) (s : PState α) (mtbPos : Vec3 α) :
    Result α × OdeState α × List (GeoOp α) :=
  let looping := decide (s.remSub = 0) && Num.lt s.distance c.step
  -- (distance, state_, ops) after the if / else-if
  let (dist, st, ops1) :=
    if looping then (s.distance, s.state, ([] : List (GeoOp α)))
    else if Num.gt s.distance (0 : α) then
      if s.boundary then
        (s.distance, (⟨mtbPos, s.state.mom⟩ : OdeState α), [GeoOp.moveToBoundary mtbPos])
      else if Num.lt s.distance c.step then (c.step, s.state, [])
      else (s.distance, s.state, [])
    else (s.distance, s.state, [])
  let dir := makeUnitVector st.mom
  if Num.eq dist (0 : α) then
    let d := fmin c.bump c.step
    let p := Vec3.axpy d dir st.pos
    (⟨d, false, looping⟩, ⟨p, st.mom⟩, ops1 ++ [GeoOp.setDir dir, GeoOp.moveInternal p])
  else
    (⟨dist, s.boundary, looping⟩, st, ops1 ++ [GeoOp.setDir dir])

/-- whether the tail will call `move_to_boundary` (so that one recorded position is needed) -/
def needsMtb (c : Cfg α) (s : PState α) : Bool :=
  !(decide (s.remSub = 0) && Num.lt s.distance c.step) && Num.gt s.distance (0 : α) && s.boundary

/-- all geometry calls of the iterations, in order -/
def iterOps (c : Cfg α) (its : List (Iter α)) : List (GeoOp α) :=
  its.flatMap fun it => preOps c it.pre it.ans.sub ++ (body c it.pre it.ans).2

/-- the whole call: loop + tail.  `none` when the answers run out. -/
def propagate (c : Cfg α) (s0 : PState α) (answers : List (Answer α)) (mtbPos : Vec3 α) :
    Option (Result α × OdeState α × List (GeoOp α) × List (Iter α)) :=
  match loop c s0 answers with
  | none => none
  | some (its, f, _) =>
    let (r, st, ops) := finish c f mtbPos
    some (r, st, iterOps c its ++ ops, its)

/-! ### the geometry state as the propagator sees it ("ghost" track view)

`move_internal(pos)` puts the track at `pos` off any boundary, `move_to_boundary()` puts it on
the boundary, `set_dir` sets the direction, `find_next_step` changes nothing observable. -/
structure Ghost (α : Type) where
  pos : Vec3 α
  dir : Vec3 α
  onBoundary : Bool

def Ghost.apply (g : Ghost α) : GeoOp α → Ghost α
  | .setDir d => { g with dir := d }
  | .findNext _ => g
  | .moveInternal p => { g with pos := p, onBoundary := false }
  | .moveToBoundary p => { g with pos := p, onBoundary := true }

def Ghost.run (g : Ghost α) (ops : List (GeoOp α)) : Ghost α := ops.foldl Ghost.apply g

/-! ### `FieldDriverOptions` -/

structure Options (α : Type) where
  minimumStep : α
  deltaChord : α
  deltaIntersection : α
  epsilonStep : α
  epsilonRelMax : α
  errcon : α
  pgrow : α
  pshrink : α
  safety : α
  maxSteppingIncrease : α
  maxSteppingDecrease : α
  maxNsteps : Int          -- short int
  maxSubsteps : Int        -- short int

/-- `FieldDriverOptions::operator bool` (and the conjunction `validate_input` checks) -/
def Options.valid (o : Options α) : Bool :=
  Num.gt o.minimumStep (0 : α)
  && Num.gt o.deltaChord (0 : α)
  && Num.gt o.deltaIntersection o.minimumStep
  && (Num.gt o.epsilonStep (0 : α) && Num.lt o.epsilonStep (1 : α))
  && Num.gt o.epsilonRelMax (0 : α)
  && Num.lt o.pgrow (0 : α)
  && Num.lt o.pshrink (0 : α)
  && (Num.gt o.safety (0 : α) && Num.lt o.safety (1 : α))
  && Num.gt o.maxSteppingIncrease (1 : α)
  && (Num.gt o.maxSteppingDecrease (0 : α) && Num.lt o.maxSteppingDecrease (1 : α))
  && decide (o.maxNsteps > 0) && decide (o.maxSubsteps > 0)

/-- `initial_step_tol = 1e-6` -/
def initialStepTol : α := 1e-6
/-- `dchord_tol = 1e-5 * units::millimeter` (CGS: millimeter = 0.1) -/
def dchordTol : α := (1e-5 : α) * (0.1 : α)
/-- `min_chord_shrink = 0.5` -/
def minChordShrink : α := 0.5

/-- the configuration the propagator reads through the driver's accessors -/
def Options.cfg (o : Options α) (step : α) : Cfg α :=
  ⟨step, o.minimumStep, o.deltaIntersection, o.maxSubsteps⟩

/-! ### `FieldDriver` control flow over an abstract stepper

The stepper is any function threading a state `σ` (for the replay: the list of recorded
answers and the call log; for theorems `σ = Unit` and a pure function). -/
namespace Driver

variable {σ : Type}

abbrev Stepper (σ α : Type) := σ → α → OdeState α → StepperResult α × σ

/-- `detail::rel_err_sq(err_state, step, mom)` -/
def relErrSq (err : OdeState α) (step : α) (mom : Vec3 α) : α :=
  let errpos2 := Vec3.dot err.pos err.pos / Num.sq step
  let errvel2 := Vec3.dot err.mom err.mom / Vec3.dot mom mom
  fmax errpos2 errvel2

/-- `detail::distance_chord(beg, mid, end)` -/
def distanceChord (beg mid fin : Vec3 α) : α :=
  let begMid := Vec3.sub mid beg
  let begEnd := Vec3.sub fin beg
  let cr := cross begEnd begMid
  Num.sqrt (Vec3.dot cr cr / Vec3.dot begEnd begEnd)

/-- `fastpow(a, b) = exp(b * log(a))` -/
def fastpow (a b : α) : α := Num.exp (b * Num.log a)

/-- `new_step_scale(err_sq) = safety * fastpow(err_sq, half * (err_sq > 1 ? pshrink : pgrow))` -/
def newStepScale (o : Options α) (errSq : α) : α :=
  o.safety * fastpow errSq ((0.5 : α) * (if Num.gt errSq (1 : α) then o.pshrink else o.pgrow))

/-- scaled error: `rel_err_sq(...) / ipow<2>(epsilon_rel_max)` -/
def errSqOf (o : Options α) (err : OdeState α) (step : α) (mom : Vec3 α) : α :=
  relErrSq err step mom / Num.sq o.epsilonRelMax

/-- `find_next_chord` do-while; `n` = `remaining_steps`.
    Returns (step, last stepper result, stepper state). -/
def chordLoop (o : Options α) (stp : Stepper σ α) (y : OdeState α) :
    Nat → α → σ → α × StepperResult α × σ
  | n, step, s =>
    let (r, s) := stp s step y
    let dchord := distanceChord y.pos r.mid.pos r.fin.pos
    if Num.gt dchord (o.deltaChord + dchordTol) then
      let step' := step * fmax (Num.sqrt (o.deltaChord / dchord)) minChordShrink
      match n with
      | 0 | 1 => (step', r, s)
      | n' + 2 => chordLoop o stp y (n' + 1) step' s
    else (step, r, s)

structure ChordSearch (α : Type) where
  fin : DriverResult α
  errSq : α

def findNextChord (o : Options α) (stp : Stepper σ α) (step : α) (y : OdeState α) (s : σ) :
    ChordSearch α × σ :=
  let (step', r, s) := chordLoop o stp y o.maxNsteps.toNat step s
  (⟨⟨r.fin, step'⟩, errSqOf o r.err step' y.mom⟩, s)

structure Integration (α : Type) where
  fin : DriverResult α
  proposed : α

/-- `one_good_step` do-while -/
def goodLoop (o : Options α) (stp : Stepper σ α) (y : OdeState α) :
    Nat → α → σ → α × α × StepperResult α × σ
  | n, step, s =>
    let (r, s) := stp s step y
    let e := errSqOf o r.err step y.mom
    if Num.gt e (1 : α) then
      let step' := step * fmax (newStepScale o e) o.maxSteppingDecrease
      match n with
      | 0 | 1 => (step', e, r, s)
      | n' + 2 => goodLoop o stp y (n' + 1) step' s
    else (step, e, r, s)

def oneGoodStep (o : Options α) (stp : Stepper σ α) (step : α) (y : OdeState α) (s : σ) :
    Integration α × σ :=
  let (step', e, r, s) := goodLoop o stp y o.maxNsteps.toNat step s
  (⟨⟨r.fin, step'⟩, step' * fmin (newStepScale o e) o.maxSteppingIncrease⟩, s)

/-- `integrate_step` -/
def integrateStep (o : Options α) (stp : Stepper σ α) (step : α) (y : OdeState α) (s : σ) :
    Integration α × σ :=
  if Num.gt step o.minimumStep then oneGoodStep o stp step y s
  else
    let (r, s) := stp s step y
    let e := errSqOf o r.err step y.mom
    (⟨⟨r.fin, step⟩, step * newStepScale o e⟩, s)

/-- `accurate_advance` do-while; returns (curve_length, last end state, σ) -/
def accLoop (o : Options α) (stp : Stepper σ α) (endLen hThreshold : α) :
    Nat → α → OdeState α → α → σ → α × OdeState α × σ
  | n, h, y, curve, s =>
    let (out, s) := integrateStep o stp h y s
    let curve' := curve + out.fin.step
    if Num.lt h hThreshold || Num.ge curve' endLen then (curve', out.fin.state, s)
    else
      let h' := fmin (fmax out.proposed o.minimumStep) (endLen - curve')
      match n with
      | 0 | 1 => (curve', out.fin.state, s)
      | n' + 2 => accLoop o stp endLen hThreshold (n' + 1) h' out.fin.state curve' s

def accurateAdvance (o : Options α) (stp : Stepper σ α) (step : α) (y : OdeState α)
    (hinitial : α) (s : σ) : DriverResult α × σ :=
  let h := if Num.gt hinitial (initialStepTol * step) && Num.lt hinitial step then hinitial else step
  let hThreshold := o.epsilonStep * step
  let (curve, st, s) := accLoop o stp step hThreshold o.maxNsteps.toNat h y (0 : α) s
  (⟨st, fmin curve step⟩, s)

/-- `advance(step, state)`; `maxChord` is the member `max_chord_` (starts at +∞, `none`) -/
def advance (o : Options α) (stp : Stepper σ α) (maxChord : Option α) (step : α) (y : OdeState α)
    (s : σ) : DriverResult α × Option α × σ :=
  if Num.le step o.minimumStep then
    let (r, s) := stp s step y
    (⟨r.fin, step⟩, maxChord, s)
  else
    let trial := match maxChord with
      | none => step                     -- min(step, +inf)
      | some m => fmin step m
    let (out, s) := findNextChord o stp trial y s
    let maxChord' := if Num.lt out.fin.step step
      then some (out.fin.step * ((1 : α) / minChordShrink)) else maxChord
    if Num.gt out.errSq (1 : α) then
      let nextStep := step * newStepScale o out.errSq
      let (r, s) := accurateAdvance o stp out.fin.step y nextStep s
      (r, maxChord', s)
    else (out.fin, maxChord', s)

end Driver

/-! ### `MagFieldEquation` (uniform field value `b`) and `ZHelixStepper` closed form -/

/-- `MagFieldEquation::operator()`; `coeffi` = charge / momentum unit (native units) -/
def lorentzRhs (coeffi : α) (b : Vec3 α) (y : OdeState α) : OdeState α :=
  let momInv := (1 : α) / Num.sqrt (Vec3.dot y.mom y.mom)         -- rsqrt on the host
  let cr := cross y.mom b
  let k := coeffi * momInv
  ⟨⟨y.mom.x * momInv, y.mom.y * momInv, y.mom.z * momInv⟩, ⟨cr.x * k, cr.y * k, cr.z * k⟩⟩

/-- `ZHelixStepper::move(step, radius, helicity, beg_state, rhs)`; `positive` = `Helicity::positive` -/
def zhelixMove (step radius : α) (positive : Bool) (beg rhs : OdeState α) : OdeState α :=
  let delPhi := if positive then step / radius else (-step) / radius
  let sinPhi := Num.sin delPhi
  let cosPhi := Num.cos delPhi
  let momentum := Vec3.norm beg.mom
  ⟨⟨beg.pos.x * cosPhi - beg.pos.y * sinPhi,
    beg.pos.x * sinPhi + beg.pos.y * cosPhi,
    beg.pos.z + delPhi * radius * rhs.pos.z⟩,
   ⟨(rhs.pos.x * cosPhi - rhs.pos.y * sinPhi) * momentum,
    (rhs.pos.x * sinPhi + rhs.pos.y * cosPhi) * momentum,
    rhs.pos.z * momentum⟩⟩

/-- helix radius as computed by `ZHelixStepper::operator()` -/
def zhelixRadius (beg rhs : OdeState α) : α :=
  Num.sqrt (Vec3.dot beg.mom beg.mom - Num.sq beg.mom.z) / Vec3.norm rhs.mom

/-- `Helicity(rhs.mom[0] / rhs.pos[1] > 0)`: `true` converts to `Helicity::negative` -/
def zhelixPositive (rhs : OdeState α) : Bool := !(Num.gt (rhs.mom.x / rhs.pos.y) (0 : α))

/-- `ZHelixStepper::tolerance()` for double -/
def zhelixTol : α := 1e-10

/-- `ZHelixStepper::operator()(step, beg_state)` in the field (0, 0, bz) -/
def zhelixStep (coeffi bz : α) (step : α) (beg : OdeState α) : StepperResult α :=
  let rhs := lorentzRhs coeffi ⟨(0 : α), (0 : α), bz⟩ beg
  let radius := zhelixRadius beg rhs
  let pos := zhelixPositive rhs
  let t : Vec3 α := ⟨zhelixTol, zhelixTol, zhelixTol⟩
  ⟨zhelixMove ((0.5 : α) * step) radius pos beg rhs, zhelixMove step radius pos beg rhs, ⟨t, t⟩⟩

end CelerVerif.FieldProp
