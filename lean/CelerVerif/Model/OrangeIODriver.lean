/-
Line protocol of the C19 model (C++ side: harness/orangeio.cc; see its header for the CJ
text syntax and the positional "S" struct descriptions).  Each line is `<op> <payload>`:

  enc/enct/rt/rtm <Input S>   dec <J>
  lab2s/s2lab  bbenc/bbdec  logenc/logdec  trenc/trdec  tolenc/toldec
  volenc/voldec  surfenc/surfdec  unitenc/unitdec  rectenc/rectdec

answers `ok <CJ>`, `err <json|validate|debug|ub>` or `bad-op`.
-/
import CelerVerif.Model.OrangeIO

namespace CelerVerif.OrangeIO
open CelerVerif.Json

/-! ### S struct descriptions <-> model structures (adapters, not part of the modelled code) -/

def f64OfS : Json → Option F64
  | .dbl b => some b
  | _ => none

def u64OfS : Json → Option UInt64
  | .int i => if 0 ≤ i ∧ i < 18446744073709551616 then some (UInt64.ofNat i.toNat) else none
  | _ => none

def strOfS : Json → Option String
  | .str s => some s
  | _ => none

def listOfS {α : Type} (f : Json → Option α) : Json → Option (List α)
  | .arr xs => xs.mapM f
  | _ => none

def v3OfS : Json → Option V3
  | .arr [.dbl a, .dbl b, .dbl c] => some ⟨a, b, c⟩
  | _ => none

def labelOfS : Json → Option Label
  | .arr [.str n, .str e] => some ⟨n, e⟩
  | _ => none

def bboxOfS : Json → Option BBox
  | .arr [l, u] => do some ⟨← v3OfS l, ← v3OfS u⟩
  | _ => none

def transformOfS (j : Json) : Option Transform := do
  let d ← listOfS f64OfS j
  match transformOfData d with
  | .ok t => some t
  | .error _ => none

def surfaceOfS : Json → Option Surface
  | .arr [.str n, d] => do
    let data ← listOfS f64OfS d
    let ty := Generated.OrangeIO.surfaceNames.idxOf n
    if ty < numSurfTypes ∧ data.length = surfSize ty then some ⟨ty, data⟩ else none
  | _ => none

def obzOfS : Json → Option OBZ
  | .arr [a, b, t] => do some ⟨← bboxOfS a, ← bboxOfS b, ← u64OfS t⟩
  | _ => none

def volumeOfS : Json → Option Volume
  | .arr [l, f, lg, b, o, fl, z] => do
    some ⟨← labelOfS l, ← listOfS u64OfS f, ← listOfS u64OfS lg, ← bboxOfS b, ← obzOfS o,
          ← u64OfS fl, ← u64OfS z⟩
  | _ => none

def daughterOfS : Json → Option Daughter
  | .arr [u, t] => do some ⟨← u64OfS u, ← transformOfS t⟩
  | _ => none

def mapEntryOfS : Json → Option (UInt64 × Daughter)
  | .arr [k, d] => do some (← u64OfS k, ← daughterOfS d)
  | _ => none

def universeOfS : Json → Option Universe
  | .arr [.str "unit", l, ss, vs, b, ds, sl] => do
    let entries ← listOfS mapEntryOfS ds
    let m := entries.foldl (fun m e => mapEmplace e.1 e.2 m) []
    some (.unit ⟨← labelOfS l, ← listOfS surfaceOfS ss, ← listOfS volumeOfS vs, ← bboxOfS b, m,
                 ← listOfS labelOfS sl⟩)
  | .arr [.str "rect", l, .arr [gx, gy, gz], ds] => do
    some (.rect ⟨← labelOfS l, ← listOfS f64OfS gx, ← listOfS f64OfS gy, ← listOfS f64OfS gz,
                 ← listOfS daughterOfS ds⟩)
  | _ => none

def tolOfS : Json → Option Tol
  | .arr [.dbl r, .dbl a] => some ⟨r, a⟩
  | _ => none

def inputOfS : Json → Option OrangeInput
  | .arr [us, t] => do some ⟨← listOfS universeOfS us, ← tolOfS t⟩
  | _ => none

def v3ToS (v : V3) : Json := .arr [.dbl v.x, .dbl v.y, .dbl v.z]
def labelToS (l : Label) : Json := .arr [.str l.name, .str l.ext]
def bboxToS (b : BBox) : Json := .arr [v3ToS b.lo, v3ToS b.hi]
def transformToS (t : Transform) : Json := .arr (t.data.map .dbl)
def surfaceToS (s : Surface) : Json := .arr [.str (surfName s.ty), .arr (s.data.map .dbl)]
def obzToS (o : OBZ) : Json := .arr [bboxToS o.inner, bboxToS o.outer, u64 o.transformId]
def volumeToS (v : Volume) : Json :=
  .arr [labelToS v.label, .arr (v.faces.map u64), .arr (v.logic.map u64), bboxToS v.bbox,
        obzToS v.obz, u64 v.flags, u64 v.zorder]
def daughterToS (d : Daughter) : Json := .arr [u64 d.univ, transformToS d.transform]
def unitToS (u : UnitInput) : Json :=
  .arr [.str "unit", labelToS u.label, .arr (u.surfaces.map surfaceToS),
        .arr (u.volumes.map volumeToS), bboxToS u.bbox,
        .arr (u.daughters.map fun e => .arr [u64 e.1, daughterToS e.2]),
        .arr (u.surfaceLabels.map labelToS)]
def rectToS (r : RectArray) : Json :=
  .arr [.str "rect", labelToS r.label,
        .arr [.arr (r.gx.map .dbl), .arr (r.gy.map .dbl), .arr (r.gz.map .dbl)],
        .arr (r.daughters.map daughterToS)]
def universeToS : Universe → Json
  | .unit u => unitToS u
  | .rect r => rectToS r
def tolToS (t : Tol) : Json := .arr [.dbl t.rel, .dbl t.abs]
def inputToS (x : OrangeInput) : Json := .arr [.arr (x.universes.map universeToS), tolToS x.tol]

/-! ### ops -/

def answer (r : R Json) : String :=
  match r with
  | .ok j => "ok " ++ j.toCJ
  | .error e => "err " ++ e.toString

/-- op on a payload that must first be converted by an adapter -/
def withS {α : Type} (ofS : Json → Option α) (j : Json) (f : α → R Json) : String :=
  match ofS j with
  | some x => answer (f x)
  | none => "bad-op"

def unitOnly : Json → Option UnitInput := fun j =>
  match universeOfS j with
  | some (.unit u) => some u
  | _ => none
def rectOnly : Json → Option RectArray := fun j =>
  match universeOfS j with
  | some (.rect r) => some r
  | _ => none

def runOp (op : String) (j : Json) : String :=
  match op with
  | "enc" => withS inputOfS j fun x => encode .dbl x
  | "enct" => withS inputOfS j fun x => encode numText x
  | "dec" => answer (bindR (decode j) fun x => .ok (inputToS x))
  | "rt" => withS inputOfS j fun x =>
      bindR (encode numText x) fun j' => bindR (decode j') fun x' => .ok (inputToS x')
  | "rtm" => withS inputOfS j fun x =>
      bindR (encode .dbl x) fun j' => bindR (decode j') fun x' => .ok (inputToS x')
  | "lab2s" => withS labelOfS j fun l => .ok (encodeLabel l)
  | "s2lab" => answer (bindR (decodeLabel j) fun l => .ok (labelToS l))
  | "bbenc" => withS bboxOfS j fun b => .ok (encodeBBox .dbl b)
  | "bbdec" => answer (bindR (decodeBBox j) fun b => .ok (bboxToS b))
  | "logenc" => withS (listOfS u64OfS) j fun l => .ok (.str (logicToString l))
  | "logdec" => answer (bindR (bindR j.getStr stringToLogic) fun l => .ok (.arr (l.map u64)))
  | "trenc" => withS transformOfS j fun t => .ok (exportTransform .dbl t)
  | "trdec" => answer (bindR (importTransform j) fun t => .ok (transformToS t))
  | "tolenc" => withS tolOfS j fun t => .ok (encodeTol .dbl t)
  | "toldec" => answer (bindR (decodeTol j) fun t => .ok (tolToS t))
  | "volenc" => withS volumeOfS j fun v => .ok (encodeVolume .dbl v)
  | "voldec" => answer (bindR (decodeVolume j) fun v => .ok (volumeToS v))
  | "surfenc" => withS (listOfS surfaceOfS) j fun s => .ok (encodeSurfaces .dbl s)
  | "surfdec" => answer (bindR (decodeSurfaces j) fun s => .ok (.arr (s.map surfaceToS)))
  | "unitenc" => withS unitOnly j fun u => .ok (encodeUnit .dbl u)
  | "unitdec" => answer (bindR (decodeUnit j) fun u => .ok (unitToS u))
  | "rectenc" => withS rectOnly j fun r => encodeRect .dbl r
  | "rectdec" => answer (bindR (decodeRect j) fun r => .ok (rectToS r))
  | _ => "bad-op"

/-- one protocol line -> output line (the model is stateless) -/
def driverStep (s : Unit) (line : String) : Unit × String :=
  let cs := (line.trimAscii.toString).toList
  let op := String.ofList (cs.takeWhile (· ≠ ' '))
  let payload := String.ofList ((cs.dropWhile (· ≠ ' ')).drop 1)
  match parseCJ payload with
  | some j => (s, runOp op j)
  | none => (s, "bad-op")

end CelerVerif.OrangeIO
