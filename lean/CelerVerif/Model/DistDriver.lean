/- Line protocol for the sampling-distribution model at `Float` (C++ side: harness/dist.cc).
   `<op> <params> | <script>`  →  `<sample(s)> <draws>` | `script-exhausted` | `bad-op` -/
import CelerVerif.Model.Dist
import CelerVerif.Model.DistEloss
import CelerVerif.Model.DistIoni
import CelerVerif.Num.F64
import CelerVerif.Model.Util

namespace CelerVerif.Dist
open CelerVerif CelerVerif.Util

/-- `Float` versions of the two extra primitives: libm `cbrt`; `cvttsd2si` -/
instance : NumX Float where
  cbrt := Float.cbrt
  pow := Float.pow
  truncI64 x :=
    if x != x || x >= 9223372036854775808.0 || x < -9223372036854775808.0 then -(2 ^ 63 : Int)
    else x.toInt64.toInt

def pbits (s : String) : Option Nat :=
  if s.length > 16 then none else parseHex s
def fl (n : Nat) : Float := Float.ofBits (UInt64.ofNat n)
def hx (x : Float) : String := Float.toHexBits x
def hv (v : Vec3 Float) : String := s!"{hx v.x} {hx v.y} {hx v.z}"

def splitBar (ws : List String) : Option (List String × List String) :=
  if ws.contains "|" then some (ws.takeWhile (· ≠ "|"), (ws.dropWhile (· ≠ "|")).drop 1) else none

/-- finish an answer: value string + draws consumed -/
def fin {β : Type} (script : List Float) (r : Option (β × List Float)) (sh : β → String) : String :=
  match r with
  | none => "script-exhausted"
  | some (b, rest) => s!"{sh b} {script.length - rest.length}"

def boolStr (b : Bool) : String := if b then "1" else "0"
/-- C++ `bool → double` result of RejectionSampler printed as bits -/
def boolHex (b : Bool) : String := if b then hx 1.0 else hx 0.0
def joinSp (xs : List String) : String := " ".intercalate xs

/-- HELPERDATA: eldens e-mass p-mass charge is_electron r_electron energy cutoff mean step -/
def helperIn : List Nat → Option (HelperIn Float)
  | [a, b, c, d, e, f, g, h, i, j] =>
    if e > 1 then none else
    some ⟨fl a, fl b, fl c, fl d, e == 1, fl f, fl g, fl h, fl i, fl j⟩
  | _ => none

/-- MATDATA: I logI f1 f2 E1 E2 logE1 logE2 -/
def urbanMat : List Nat → UrbanMat Float
  | [a, b, c, d, e, f, g, h] => ⟨fl a, fl b, ⟨fl c, fl d, fl e, fl f, fl g, fl h⟩⟩
  | _ => default

def runOp (op : String) (p : List Nat) (s : List Float) : String :=
  let fuel := 2 * s.length + 4
  match op, p with
  | "uniform", [a, b] => fin s ((UniformReal.mk' (fl a) (fl b)).sample s) hx
  | "exp", [l] => fin s (exponential (fl l) s) hx
  | "normal", [m, sd, k] =>
    if k < 1 || k > 64 then "bad-op" else
    fin s ((Normal.sampleN k ⟨fl m, fl sd, none⟩ s).map fun (xs, _, r) => (xs, r))
      fun xs => joinSp (xs.map hx)
  | "normop", [kind, m1, sd1, m2, sd2, p1, p2, k] =>
    if kind < 1 || kind > 3 || p1 > 8 || p2 > 8 || k > 8 then "bad-op" else
    fin s (Normal.specialOp kind p1 p2 k ⟨fl m1, fl sd1, none⟩ ⟨fl m2, fl sd2, none⟩ s)
      fun xs => joinSp (xs.map hx)
  | "gamma", [a, b, k] =>
    if k < 1 || k > 64 then "bad-op" else
    fin s ((Gamma.sampleN fuel k (Gamma.mk' (fl a) (fl b)) s).map fun (xs, _, r) => (xs, r))
      fun xs => joinSp (xs.map hx)
  | "poisson", [l, k] =>
    if k < 1 || k > 64 then "bad-op" else
    fin s ((Poisson.sampleN k (Poisson.mk' (fl l)) s).map fun (xs, _, r) => (xs, r))
      fun xs => joinSp (xs.map toString)
  | "recip", [a, b] => fin s (reciprocal (fl a) (fl b) s) hx
  | "recip1", [a] => fin s (reciprocal1 (fl a) s) hx
  | "invsq", [a, b] => fin s (inverseSquare (fl a) (fl b) s) hx
  | "radial", [r] => fin s (radial (fl r) s) hx
  | "iso", [] => fin s (isotropic s) hv
  | "box", [a, b, c, d, e, f] =>
    fin s (uniformBox ⟨fl a, fl b, fl c⟩ ⟨fl d, fl e, fl f⟩ s) hv
  | "bern", [q] => fin s (bernoulli (fl q) s) boolStr
  | "bern2", [t, f] => fin s (bernoulli2 (fl t) (fl f) s) boolStr
  | "select", total :: w :: ws => fin s (select ((w :: ws).map fl) (fl total) s) toString
  | "reject", [f, fm] => fin s (rejectionSampler (fl f) (fl fm) s) boolHex
  | "reject1", [f] => fin s (rejectionSampler (fl f) (1.0 : Float) s) boolHex
  | "rejloop", [kind, a, b, fm] =>
    if kind > 2 then "bad-op" else
    fin s (rejectionLoop (target kind) (UniformReal.mk' (fl a) (fl b)) (fl fm) s) hx
  | "tsai", [e, m] => fin s (tsaiUrban (tsaiUmax (fl e) (fl m)) s) hx
  | "elgamma", [m, v] =>
    fin s (((elossGamma (fl m) (fl v)).sample fuel s).map fun (x, _, r) => (x, r)) hx
  | "elgauss", [m, sd] => fin s (elossGauss (fl m) (fl sd) fuel s) hx
  | "elgaussv", [m, v] => fin s (elossGauss (fl m) (Float.sqrt (fl v)) fuel s) hx
  | "moller", [em, mn, inc] => fin s ((Moller.mk' (fl em) (fl mn) (fl inc)).sample s) hx
  | "bhabha", [em, mn, inc] => fin s ((Bhabha.mk' (fl em) (fl mn) (fl inc)).sample s) hx
  | "bb", [_, pm, q, em, e, cut] =>
    let d := BetheBloch.mk' ⟨fl pm, fl q, fl e, fl em, fl cut⟩
    s!"{hx d.minEnergy} {hx d.maxEnergy} " ++ fin s (d.sample s) hx
  | "bragg", [_, pm, q, em, e, cut, prm] =>
    let d := Bragg.mk' ⟨fl pm, fl q, fl e, fl em, fl cut⟩ (fl prm)
    s!"{hx d.minEnergy} {hx d.maxEnergy} " ++ fin s (d.sample s) hx
  | "mubb", [_, pm, q, em, e, cut] =>
    let d := MuBB.mk' ⟨fl pm, fl q, fl e, fl em, fl cut⟩
    s!"{hx d.minEnergy} {hx d.maxEnergy} {boolStr d.useRad} {hx d.envelope} " ++ fin s (d.sample s) hx
  | "uparams", [_, a, b, c] =>
    let q := urbanParams (fl a) (fl b) (fl c)
    s!"{hx q.f1} {hx q.f2} {hx q.e1} {hx q.e2} {hx q.logE1} {hx q.logE2}"
  | "helper", _ :: _ :: hd =>
    (match helperIn hd with
     | some i =>
       let h := Helper.mk' i
       s!"{h.model.toNat} {hx h.maxEnergy} {hx h.betaSq} {hx h.twoMebsgs} {hx h.bohrVar}"
     | none => "bad-op")
  | "urbanctor", [_, a0, a1, a2, a3, a4, a5, a6, a7, ml, em, tm, b2] =>
    let u := Urban.mk' (urbanMat [a0, a1, a2, a3, a4, a5, a6, a7]) (fl ml) (fl em) (fl tm) (fl b2)
    s!"{hx u.maxEnergy} {hx u.lossScaling} {hx u.be1} {hx u.be2} {hx u.xs1} {hx u.xs2} {hx u.xsIon}"
  | "urban", [_, a0, a1, a2, a3, a4, a5, a6, a7, ml, em, tm, b2] =>
    let u := Urban.mk' (urbanMat [a0, a1, a2, a3, a4, a5, a6, a7]) (fl ml) (fl em) (fl tm) (fl b2)
    fin s (u.sample fuel s) hx
  | "eloss", _ :: _ :: rest =>
    if rest.length != 18 then "bad-op" else
    (match helperIn (rest.take 10) with
     | some i =>
       let h := Helper.mk' i
       match sampleEnergyLoss h (urbanMat (rest.drop 10)) fuel s with
       | none => "script-exhausted"
       | some (x, r) => s!"{h.model.toNat} {hx x} {s.length - r.length}"
     | none => "bad-op")
  | _, _ => "bad-op"

def driverStep (st : Unit) (line : String) : Unit × String :=
  (st, match words line with
  | ["cbrt", a] => (match pbits a with
      | some n => hx (NumX.cbrt (fl n)) | none => "bad-op")
  | ["pow", a, b] => (match pbits a, pbits b with
      | some x, some y => hx (fastpow (fl x) (fl y)) | _, _ => "bad-op")
  | ["castu", a] => (match pbits a with
      | some n => toString (castU32 (fl n)) | none => "bad-op")
  | ["consts"] =>
      let one : Float := 1.0
      s!"{hx (pi : Float)} {hx (twopi : Float)} {hx (twopi : Float)} {hx (Num.ofSci 16 true 1)} " ++
      s!"{hx ((Num.ofSci 16 true 1 : Float) / Num.ofNat 3)} {hx (Num.ofSci 331 true 4)} " ++
      s!"{hx (one / Num.ofNat 3)} {(lambdaThreshold : Float).toUInt64}"
  | op :: rest =>
      (match splitBar rest with
       | none => "bad-op"
       | some (ps, ss) =>
         match ps.mapM pbits, ss.mapM pbits with
         | some p, some s => runOp op p (s.map fl)
         | _, _ => "bad-op")
  | _ => "bad-op")

end CelerVerif.Dist
