/-
C18 — device-portable algorithms and grid lookups agree with reference semantics.
Property theorems only (helper lemmas: Lemmas/Algo*.lean).  Model: Model/Algo.lean, hand-written
from Algorithms.hh / AlgorithmsImpl.hh / RangeImpl.hh / HyperslabIndexer.hh /
RaggedRightIndexer.hh / NonuniformGrid.hh and tied to the real templates by harness/algo.cc.
Every statement holds for arrays of EVERY length and for EVERY comparator that is a strict weak
order (`StrictWeakOrder`, the C++ `Compare` requirement); `a[i]!` is the i-th element.
The floating-point arithmetic of UniformGrid / Interpolator is not part of this file.
-/
import CelerVerif.Lemmas.AlgoBounds
import CelerVerif.Lemmas.AlgoSimple
import CelerVerif.Lemmas.AlgoPartition
import CelerVerif.Lemmas.AlgoHeapSort
import CelerVerif.Lemmas.AlgoIndex
import CelerVerif.Lemmas.AlgoRange

namespace CelerVerif.Algo
variable {α β : Type} [Inhabited α]

/-! ## sort -/

/-- ★ `celeritas::sort` (heapsort) returns a permutation of its input. -/
theorem heapsort_perm (lt : α → α → Bool) (a : Array α) : (heapsort lt a).Perm a := by
  rw [heapsort_eq]
  exact (sortHeap_perm lt _ a.size (by rw [makeHeap_size]; exact Nat.le_refl _)).trans
    (makeHeap_perm lt a a.size (Nat.le_refl _))

/-- ★ `celeritas::sort` output is sorted (`std::is_sorted` with the same comparator): no later
    element is ordered before an earlier one. -/
theorem heapsort_sorted (lt : α → α → Bool) (h : StrictWeakOrder lt) (a : Array α) :
    SortedBy lt (heapsort lt a) := by
  rw [heapsort_eq]
  apply sortHeap_sorted lt h
  refine ⟨by rw [makeHeap_size]; exact Nat.le_refl _,
    makeHeap_heap lt h a a.size (Nat.le_refl _), ?_, ?_⟩
  · intro i j hi hij hj; rw [makeHeap_size] at hj; omega
  · intro i j hi hj1 hj2; rw [makeHeap_size] at hj2; omega

theorem heapsort_size (lt : α → α → Bool) (a : Array α) : (heapsort lt a).size = a.size := by
  rw [heapsort_eq, sortHeap_size, makeHeap_size]

/-- `make_heap` establishes the heap property on a permutation of the input. -/
theorem makeHeap_spec (lt : α → α → Bool) (h : StrictWeakOrder lt) (a : Array α) :
    (makeHeap lt a a.size).Perm a ∧ HeapFrom lt (makeHeap lt a a.size) a.size 0 :=
  ⟨makeHeap_perm lt a a.size (Nat.le_refl _), makeHeap_heap lt h a a.size (Nat.le_refl _)⟩

example : StrictWeakOrder (fun (a b : Int) => decide (a < b)) := swo_int_lt
example : StrictWeakOrder (fun (a b : Int) => decide (a > b)) := swo_int_gt
/-- the indirect comparator `key[a] < key[b]` of SimpleUnitTracker is a strict weak order -/
example (key : Array Int) : StrictWeakOrder (fun (a b : Nat) => decide (key[a]! < key[b]!)) :=
  swo_comap swo_int_lt (fun i => key[i]!)
example : heapsort (fun (x y : Nat) => decide (x < y)) #[5, 3, 9, 1, 3] = #[1, 3, 3, 5, 9] := by
  decide +kernel

/-! ## binary and linear search -/

/-- ★ `lower_bound` returns exactly the `std::lower_bound` result: on input partitioned with
    respect to `comp(·, v)` (in particular on sorted input) it is the unique index `r ≤ size`
    with `comp(a[i], v)` for all `i < r` and `¬comp(a[i], v)` for all `r ≤ i < size`. -/
theorem lowerBound_spec (cmp : α → β → Bool) (a : Array α) (v : β)
    (hpart : ∀ i j, i ≤ j → j < a.size → cmp a[j]! v = true → cmp a[i]! v = true) :
    lowerBound cmp a v ≤ a.size ∧
    (∀ i, i < lowerBound cmp a v → cmp a[i]! v = true) ∧
    (∀ i, lowerBound cmp a v ≤ i → i < a.size → cmp a[i]! v = false) := by
  have h := lowerBoundLoop_spec cmp a v 0 a.size
    (fun i j _ h2 h3 h4 => hpart i j h2 (by omega) h4)
  refine ⟨by unfold lowerBound; omega, fun i hi => h.2.2.1 i (Nat.zero_le _) hi,
    fun i h1 h2 => h.2.2.2 i h1 (by omega)⟩

/-- ★ `upper_bound` returns exactly the `std::upper_bound` result: the unique `r ≤ size` with
    `¬comp(v, a[i])` for `i < r` and `comp(v, a[i])` for `r ≤ i < size`. -/
theorem upperBound_spec (cmp : β → α → Bool) (a : Array α) (v : β)
    (hpart : ∀ i j, i ≤ j → j < a.size → cmp v a[i]! = true → cmp v a[j]! = true) :
    upperBound cmp a v ≤ a.size ∧
    (∀ i, i < upperBound cmp a v → cmp v a[i]! = false) ∧
    (∀ i, upperBound cmp a v ≤ i → i < a.size → cmp v a[i]! = true) := by
  have h := upperBoundLoop_spec cmp a v 0 a.size
    (fun i j _ h2 h3 h4 => hpart i j h2 (by omega) h4)
  refine ⟨by unfold upperBound; omega, fun i hi => h.2.2.1 i (Nat.zero_le _) hi,
    fun i h1 h2 => h.2.2.2 i h1 (by omega)⟩

/-- `lower_bound_linear` returns, for ANY input, the first index whose element is not ordered
    before `v` (or `size`). -/
theorem lowerBoundLinear_spec (cmp : α → β → Bool) (a : Array α) (v : β) :
    lowerBoundLinear cmp a v ≤ a.size ∧
    (∀ i, i < lowerBoundLinear cmp a v → cmp a[i]! v = true) ∧
    (lowerBoundLinear cmp a v < a.size → cmp a[lowerBoundLinear cmp a v]! v = false) := by
  have h := lowerBoundLinearLoop_spec cmp a v 0 a.size (Nat.zero_le _)
  exact ⟨h.2.1, fun i hi => h.2.2.1 i (Nat.zero_le _) hi, h.2.2.2⟩

/-- on partitioned input the linear and the binary search agree -/
theorem lowerBoundLinear_eq_lowerBound (cmp : α → β → Bool) (a : Array α) (v : β)
    (hpart : ∀ i j, i ≤ j → j < a.size → cmp a[j]! v = true → cmp a[i]! v = true) :
    lowerBoundLinear cmp a v = lowerBound cmp a v := by
  obtain ⟨l1, l2, l3⟩ := lowerBoundLinear_spec cmp a v
  obtain ⟨b1, b2, b3⟩ := lowerBound_spec cmp a v hpart
  rcases Nat.lt_trichotomy (lowerBoundLinear cmp a v) (lowerBound cmp a v) with h | h | h
  · have := b2 _ h
    rw [l3 (by omega)] at this; cases this
  · exact h
  · have := l2 _ h
    rw [b3 _ (Nat.le_refl _) (by omega)] at this; cases this

/-- sorted input (any strict weak order) is partitioned for both searches -/
theorem sorted_partitioned (lt : α → α → Bool) (h : StrictWeakOrder lt) (a : Array α)
    (hs : SortedBy lt a) (v : α) :
    (∀ i j, i ≤ j → j < a.size → lt a[j]! v = true → lt a[i]! v = true) ∧
    (∀ i j, i ≤ j → j < a.size → lt v a[i]! = true → lt v a[j]! = true) := by
  constructor
  · intro i j hij hj hlt
    by_cases he : i = j
    · subst he; exact hlt
    · exact h.lt_of_le_of_lt (hs i j (by omega) hj) hlt
  · intro i j hij hj hlt
    by_cases he : i = j
    · subst he; exact hlt
    · exact h.lt_of_lt_of_le hlt (hs i j (by omega) hj)

/-- ★ `find_sorted` on sorted input: the result is the FIRST index holding an element equivalent
    to `v`, and it is `size` exactly when no element is equivalent to `v`. -/
theorem findSorted_spec (lt : α → α → Bool) (h : StrictWeakOrder lt) (a : Array α)
    (hs : SortedBy lt a) (v : α) :
    (findSorted lt a v < a.size →
      Equiv lt a[findSorted lt a v]! v ∧ ∀ i, i < findSorted lt a v → lt a[i]! v = true) ∧
    (¬ findSorted lt a v < a.size →
      findSorted lt a v = a.size ∧ ∀ i, i < a.size → ¬ Equiv lt a[i]! v) := by
  obtain ⟨hp1, _⟩ := sorted_partitioned lt h a hs v
  obtain ⟨b1, b2, b3⟩ := lowerBound_spec lt a v hp1
  unfold findSorted
  simp only
  split
  · rename_i hc
    simp only [Bool.or_eq_true, beq_iff_eq] at hc
    refine ⟨fun hlt => absurd hlt (Nat.lt_irrefl _), fun _ => ⟨rfl, ?_⟩⟩
    intro i hi heq
    by_cases hil : i < lowerBound lt a v
    · have := b2 i hil; rw [heq.1] at this; cases this
    · have hlb : lowerBound lt a v < a.size := by omega
      have hnlt := b3 _ (Nat.le_refl _) hlb
      rcases hc with (hc | hc) | hc
      · omega
      · rw [hnlt] at hc; cases hc
      · -- v < a[lb] ≤ a[i]
        by_cases hie : i = lowerBound lt a v
        · subst hie; rw [heq.2] at hc; cases hc
        · have := h.lt_of_lt_of_le hc (hs _ i (by omega) hi)
          rw [heq.2] at this; cases this
  · rename_i hc
    simp only [Bool.or_eq_true, beq_iff_eq, not_or, Bool.not_eq_true] at hc
    exact ⟨fun _ => ⟨⟨hc.1.2, hc.2⟩, b2⟩, fun hn => absurd (by omega) hn⟩

example : lowerBound (fun (x y : Nat) => decide (x < y)) #[1, 3, 5, 5, 7] 5 = 2
    ∧ upperBound (fun (x y : Nat) => decide (x < y)) #[1, 3, 5, 5, 7] 5 = 4
    ∧ findSorted (fun (x y : Nat) => decide (x < y)) #[1, 3, 5, 5, 7] 5 = 2
    ∧ findSorted (fun (x y : Nat) => decide (x < y)) #[1, 3, 5, 5, 7] 4 = 5 := by decide +kernel
example : SortedBy (fun (x y : Nat) => decide (x < y)) #[1, 3, 5, 5, 7] := by
  have := heapsort_sorted (fun (x y : Nat) => decide (x < y)) swo_nat_lt #[5, 3, 7, 1, 5]
  rwa [show heapsort (fun (x y : Nat) => decide (x < y)) #[5, 3, 7, 1, 5] = #[1, 3, 5, 5, 7] by
    decide +kernel] at this

/-! ## partition -/

/-- ★ `celeritas::partition` (Hoare style): the result is a permutation of the input, every
    element before the returned index satisfies the predicate, none from it on does, and the
    returned index is the number of elements satisfying the predicate (= `std::partition`). -/
theorem partition_spec (p : α → Bool) (a : Array α) :
    (partition p a).1.Perm a ∧
    (partition p a).2 ≤ a.size ∧
    (∀ i, i < (partition p a).2 → p (partition p a).1[i]! = true) ∧
    (∀ i, (partition p a).2 ≤ i → i < a.size → p (partition p a).1[i]! = false) ∧
    (partition p a).2 = a.toList.countP p := by
  unfold partition
  have h := partitionLoop_spec p a (a.size + 1) a 0 a.size (Nat.zero_le _) (Nat.le_refl _)
    (by omega) (Array.Perm.refl _) (fun i hi => by omega) (fun i h1 h2 => by omega)
  obtain ⟨h1, h2, h3, h4⟩ := h
  refine ⟨h1, h2, h3, h4, ?_⟩
  have hperm := Array.perm_iff_toList_perm.mp h1
  rw [← hperm.countP_eq]
  have hsz := h1.size_eq
  symm
  apply countP_of_split p _ _ (by simpa [hsz] using h2)
  · intro i hi hik
    have := h3 i hik
    rwa [getElem!_eq_toList _ i (by simpa using hi)] at this
  · intro i hi hik
    have := h4 i hik (by simpa [hsz] using hi)
    rwa [getElem!_eq_toList _ i (by simpa using hi)] at this

example : partition (fun (x : Int) => decide (x < 5)) #[9, 1, 8, 2, 7, 3] = (#[3, 1, 2, 8, 7, 9], 3) := by
  decide +kernel

/-! ## min_element and predicates -/

/-- ★ `min_element` returns the FIRST minimal index (`std::min_element`): no element is ordered
    before `a[r]`, and `a[r]` is ordered strictly before every earlier element. -/
theorem minElement_first_min (lt : α → α → Bool) (h : StrictWeakOrder lt) (a : Array α)
    (hne : 0 < a.size) :
    minElement lt a < a.size ∧
    (∀ i, i < a.size → lt a[i]! a[minElement lt a]! = false) ∧
    (∀ i, i < minElement lt a → lt a[minElement lt a]! a[i]! = true) := by
  unfold minElement
  rw [if_neg (by omega)]
  apply minElementLoop_spec lt h a 0 1 a.size (by omega) (by omega)
  · intro i hi
    have : i = 0 := by omega
    subst this; exact h.irrefl _
  · intro i hi; omega

/-- on an empty range `min_element` returns `last` -/
theorem minElement_empty (lt : α → α → Bool) (a : Array α) (h : a.size = 0) :
    minElement lt a = a.size := by
  unfold minElement; rw [if_pos h]

theorem allOf_spec (p : α → Bool) (a : Array α) :
    allOf p a = true ↔ ∀ i, i < a.size → p a[i]! = true := by
  unfold allOf; rw [allOfLoop_spec]
  exact ⟨fun h i hi => h i (Nat.zero_le _) hi, fun h i _ hi => h i hi⟩

theorem anyOf_spec (p : α → Bool) (a : Array α) :
    anyOf p a = true ↔ ∃ i, i < a.size ∧ p a[i]! = true := by
  unfold anyOf; rw [anyOfLoop_spec]
  exact ⟨fun ⟨i, _, h2, h3⟩ => ⟨i, h2, h3⟩, fun ⟨i, h2, h3⟩ => ⟨i, Nat.zero_le _, h2, h3⟩⟩

theorem allAdjacent_spec (p : α → α → Bool) (a : Array α) :
    allAdjacent p a = true ↔ ∀ i, i + 1 < a.size → p a[i]! a[i + 1]! = true := by
  unfold allAdjacent
  split
  · rename_i h0; simp only [true_iff]; intro i hi; omega
  · rw [allAdjacentLoop_spec p a a[0]! 1 a.size (by omega) rfl]
    constructor
    · intro h i hi
      have := h (i + 1) (by omega) hi
      simpa using this
    · intro h i h1 h2
      have := h (i - 1) (by omega)
      have e : i - 1 + 1 = i := by omega
      rwa [e] at this

example : minElement (fun (x y : Nat) => decide (x < y)) #[4, 2, 8, 2] = 1 := by decide +kernel

/-! ## scalar helpers -/

omit [Inhabited α] in
/-- `clamp(v, lo, hi)` lies in `[lo, hi]` and equals `v` when `v` does (precondition `¬ hi < lo`) -/
theorem clamp_spec (lt : α → α → Bool) (h : StrictWeakOrder lt) (v lo hi : α)
    (hpre : lt hi lo = false) :
    lt (clamp lt v lo hi) lo = false ∧ lt hi (clamp lt v lo hi) = false ∧
    (lt v lo = false → lt hi v = false → clamp lt v lo hi = v) := by
  unfold clamp
  by_cases h1 : lt v lo = true
  · rw [if_pos h1]
    exact ⟨h.irrefl _, hpre, fun h' => by rw [h1] at h'; cases h'⟩
  · have h1' : lt v lo = false := by simpa using h1
    rw [if_neg h1]
    by_cases h2 : lt hi v = true
    · rw [if_pos h2]
      exact ⟨hpre, h.irrefl _, fun _ h' => by rw [h2] at h'; cases h'⟩
    · have h2' : lt hi v = false := by simpa using h2
      rw [if_neg h2]
      exact ⟨h1', h2', fun _ _ => rfl⟩

/-- `celeritas::min(a, b)` as written (`b < a ? b : a`): one of its arguments, not above either
    of them, and the FIRST argument when the two are equivalent (the `std::min` convention) -/
theorem minOf_spec (lt : α → α → Bool) (h : StrictWeakOrder lt) (a b : α) :
    (minOf lt a b = a ∨ minOf lt a b = b) ∧ lt a (minOf lt a b) = false ∧
    lt b (minOf lt a b) = false ∧ (lt b a = false → minOf lt a b = a) := by
  unfold minOf
  by_cases h1 : lt b a = true
  · rw [if_pos h1]
    exact ⟨Or.inr rfl, h.asymm h1, h.irrefl _, fun h' => by rw [h1] at h'; cases h'⟩
  · have h1' : lt b a = false := by simpa using h1
    rw [if_neg h1]
    exact ⟨Or.inl rfl, h.irrefl _, h1', fun _ => rfl⟩

/-- `celeritas::max(a, b)` as written (`a < b ? b : a`): one of its arguments, not below either
    of them, and the FIRST argument when the two are equivalent (the `std::max` convention) -/
theorem maxOf_spec (lt : α → α → Bool) (h : StrictWeakOrder lt) (a b : α) :
    (maxOf lt a b = a ∨ maxOf lt a b = b) ∧ lt (maxOf lt a b) a = false ∧
    lt (maxOf lt a b) b = false ∧ (lt a b = false → maxOf lt a b = a) := by
  unfold maxOf
  by_cases h1 : lt a b = true
  · rw [if_pos h1]
    exact ⟨Or.inr rfl, h.asymm h1, h.irrefl _, fun h' => by rw [h1] at h'; cases h'⟩
  · have h1' : lt a b = false := by simpa using h1
    rw [if_neg h1]
    exact ⟨Or.inl rfl, h.irrefl _, h1', fun _ => rfl⟩

/-- on the integers with `<` these are `min` and `max` -/
theorem minOf_maxOf_int (a b : Int) :
    minOf (fun x y => decide (x < y)) a b = min a b ∧
    maxOf (fun x y => decide (x < y)) a b = max a b := by
  unfold minOf maxOf
  constructor <;> (split <;> simp_all <;> omega)

/-- `signum(x)` is the sign of `x`: −1, 0 or 1 -/
theorem signum_spec (x : Int) :
    (0 < x → signum x = 1) ∧ (x = 0 → signum x = 0) ∧ (x < 0 → signum x = -1) ∧
    signum x * x.natAbs = x := by
  unfold signum
  refine ⟨fun h => ?_, fun h => ?_, fun h => ?_, ?_⟩
  · have : ¬ x < 0 := by omega
    simp [h, this]
  · subst h; simp
  · have : ¬ 0 < x := by omega
    simp [h, this]
  · rcases Int.lt_trichotomy x 0 with h | h | h
    · have h' : ¬ 0 < x := by omega
      simp only [h, h', if_true, if_false]; omega
    · subst h; simp
    · have h' : ¬ x < 0 := by omega
      simp only [h, h', if_true, if_false]; omega

/-- `clamp_to_nonneg(v)` is `max(v, 0)`: never negative, the identity on non-negative values -/
theorem clampToNonneg_spec (v : Int) :
    clampToNonneg v = max v 0 ∧ 0 ≤ clampToNonneg v ∧ (0 ≤ v → clampToNonneg v = v) := by
  unfold clampToNonneg
  split <;> omega

/-- ★ `ceil_div(t, b)` is the least `q` with `t ≤ q·b`, i.e. `⌈t / b⌉`, for `b > 0`. -/
theorem ceilDiv_spec (t b : Nat) (hb : 0 < b) :
    t ≤ ceilDiv t b * b ∧ (∀ q, t ≤ q * b → ceilDiv t b ≤ q) ∧ ceilDiv t b = (t + b - 1) / b := by
  refine ⟨ceilDiv_mul_ge t b hb, fun q hq => ceilDiv_minimal t b q hq, ?_⟩
  apply Nat.le_antisymm
  · apply ceilDiv_minimal
    have h1 := Nat.div_add_mod (t + b - 1) b
    have h2 := Nat.mod_lt (t + b - 1) hb
    rw [Nat.mul_comm]; omega
  · have h0 := ceilDiv_mul_ge t b hb
    apply Nat.le_of_lt_succ
    apply Nat.div_lt_of_lt_mul
    rw [Nat.mul_succ, Nat.mul_comm]; omega

/-- `ceil_div` never exceeds its first argument for `b ≥ 1`, so no unsigned wrap can occur -/
theorem ceilDiv_le (t b : Nat) (hb : 0 < b) : ceilDiv t b ≤ t :=
  ceilDiv_minimal t b t (Nat.le_mul_of_pos_right t hb)

/-- `LocalWorkCalculator`: the local work of all workers adds up to the total work -/
theorem localWork_sum (total workers : Nat) (hw : 0 < workers) :
    localWorkSum total workers workers = total := by
  rw [localWorkSum_eq total workers workers (Nat.le_refl _)]
  have h1 := Nat.div_add_mod total workers
  have h2 := Nat.mod_lt total hw
  rw [Nat.min_eq_right (by omega)]; omega

/-- `ipow<N>(v) = v^N` on integers -/
theorem ipow_int (n : Nat) (v : Int) : ipow (· * ·) 1 n v = v ^ n := ipow_eq_pow_int n v

/-- `ipow<N>(v)` on `unsigned long long` (every product wraps) is `v^N mod 2^64` -/
theorem ipow_u64 (n v : Nat) : ipowU64 n v = v ^ n % 2 ^ 64 := ipow_mod (2 ^ 64) n v

example : ceilDiv 7 2 = 4 ∧ ceilDiv 8 2 = 4 ∧ ipowU64 64 3 = 8733086111712066817 := by
  decide +kernel

/-! ## Range / Count -/

/-- ★ `range(b, e).step(s)` for `s > 0` enumerates exactly `b, b+s, b+2s, …` while `< e`
    (`n` = number of such values; no overflow: values are mathematical integers). -/
theorem range_step_enumerates (b e s : Int) (hs : 0 < s) (n fuel : Nat) (hf : n ≤ fuel)
    (hin : ∀ k : Nat, k < n → b + k * s < e) (hout : e ≤ b + n * s) :
    stepRangeSigned fuel b e s = (List.range n).map (fun k : Nat => b + k * s) := by
  unfold stepRangeSigned
  rw [if_neg (by omega)]
  exact stepIter_nonneg e s (by omega) n fuel b hf hin (by omega)

/-- ★ `range(b, e).step(s)` for `s < 0` enumerates exactly `e+s, e+2s, …` while `≥ b`, as written
    (it starts at `e+s`, not at `e-1`: for `|s| ∤ e-b` it is not the reversed forward range). -/
theorem range_negstep_enumerates (b e s : Int) (hs : s < 0) (n fuel : Nat) (hf : n ≤ fuel)
    (hin : ∀ k : Nat, k < n → b ≤ e + (k + 1) * s) (hout : e + (n + 1) * s < b) :
    stepRangeSigned fuel b e s = (List.range n).map (fun k : Nat => e + (k + 1) * s) := by
  unfold stepRangeSigned
  rw [if_pos hs]
  rw [stepIter_neg b s hs n fuel (e + s) hf
    (fun k hk => by have := hin k hk; rw [Int.add_mul] at this; omega)
    (by rw [Int.add_mul] at hout; omega)]
  apply List.map_congr_left
  intro k _
  rw [Int.add_mul]; omega

/-- `count(b).step(s)` enumerates `b, b+s, b+2s, …` -/
theorem count_step_enumerates (b s : Int) (n : Nat) :
    countStep b s n = (List.range n).map (fun k : Nat => b + k * s) := countStep_eq b s n

/-- `range(b, e)` with `b ≤ e` enumerates `b, b+1, …, e-1` -/
theorem range_enumerates (b e : Int) (hbe : b ≤ e) (fuel : Nat) (hf : (e - b).toNat ≤ fuel) :
    unitIter e fuel b = (List.range (e - b).toNat).map (fun k : Nat => b + k) :=
  unitIter_eq e (e - b).toNat fuel b hf (by omega)

example : stepRangeSigned 65 0 10 3 = [0, 3, 6, 9] ∧ stepRangeSigned 65 0 10 (-3) = [7, 4, 1]
    ∧ stepRangeSigned 65 0 6 (-2) = [4, 2, 0] := by decide +kernel

/-! ## indexers -/

/-- ★ `HyperslabInverseIndexer ∘ HyperslabIndexer = id` on the box `coords[i] < dims[i]`, and the
    flat index lies in `[0, hyperslab_size)` (so below `2^32` whenever the size is). -/
theorem hyperslab_inverse_index (dims coords : Array Nat) (hn : 1 ≤ dims.size)
    (hsz : coords.size = dims.size) (hc : ∀ i, i < dims.size → coords[i]! < dims[i]!) :
    hyperslabIndex dims coords < hyperslabSize dims ∧
    hyperslabInverse dims (hyperslabIndex dims coords) = coords := by
  rw [hyperslabIndex_eq dims coords hn, hyperslabSize_eq]
  constructor
  · have := hslabG_lt dims coords (dims.size - 1) (fun j hj => hc j (by omega))
    have e : dims.size - 1 + 1 = dims.size := by omega
    rwa [e] at this
  · unfold hyperslabInverse
    obtain ⟨h1, h2⟩ := hyperslabInvLoop_of_index dims coords (dims.size - 1)
      (Array.replicate dims.size 0) (by simp; omega) (fun j _ hj => hc j (by omega))
    apply Array.ext
    · rw [h1]; simp [hsz]
    · intro k hk1 hk2
      have := h2 k
      rw [if_pos (by omega), getElem!_pos _ k hk1, getElem!_pos _ k hk2] at this
      exact this

/-- ★ `HyperslabIndexer ∘ HyperslabInverseIndexer = id` on `[0, hyperslab_size)`, and the
    coordinates lie in the box.  Together with `hyperslab_inverse_index`: mutually inverse
    bijections between the box and `[0, ∏ dims)`. -/
theorem hyperslab_index_inverse (dims : Array Nat) (hn : 1 ≤ dims.size)
    (hpos : ∀ i, i < dims.size → 0 < dims[i]!) (index : Nat) (hi : index < hyperslabSize dims) :
    (hyperslabInverse dims index).size = dims.size ∧
    (∀ i, i < dims.size → (hyperslabInverse dims index)[i]! < dims[i]!) ∧
    hyperslabIndex dims (hyperslabInverse dims index) = index := by
  rw [hyperslabIndex_eq dims _ hn]
  unfold hyperslabInverse
  obtain ⟨h1, h2, h3, h4⟩ := hyperslabInvLoop_index dims (dims.size - 1)
    (Array.replicate dims.size 0) index (by simp; omega)
  refine ⟨by rw [h1]; simp, ?_, h2⟩
  intro i hi'
  by_cases h0 : i = 0
  · subst h0
    rcases Nat.lt_or_ge (hyperslabInvLoop dims (dims.size - 1) (Array.replicate dims.size 0) index)[0]!
      dims[0]! with h | h
    · exact h
    · have := hslabG_ge dims _ (dims.size - 1) h
      rw [h2] at this
      have e : dims.size - 1 + 1 = dims.size := by omega
      rw [e, ← hyperslabSize_eq] at this
      omega
  · exact h4 i (by omega) (by omega) (hpos i hi')

example : hyperslabIndex #[2, 3, 4] #[1, 2, 3] = 23 ∧ hyperslabInverse #[2, 3, 4] 23 = #[1, 2, 3]
    ∧ hyperslabSize #[2, 3, 4] = 24 := by decide +kernel

/-- ★ `RaggedRightInverseIndexer ∘ RaggedRightIndexer = id`: for offsets built by `from_sizes`,
    a valid pair `(i, j)`, `j < sizes[i]`, maps to a flat index below the total size and back. -/
theorem ragged_inverse_index (sizes : Array Nat) (i j : Nat) (hi : i < sizes.size)
    (hj : j < sizes[i]!) :
    raggedIndex (raggedOffsets sizes) i j < (raggedOffsets sizes)[sizes.size]! ∧
    raggedInverse (raggedOffsets sizes) (raggedIndex (raggedOffsets sizes) i j) = (i, j) := by
  obtain ⟨hsz, hoff⟩ := raggedOffsets_spec sizes
  have hidx : raggedIndex (raggedOffsets sizes) i j = prefixSum sizes i + j := by
    unfold raggedIndex; rw [hoff i (by omega)]
  have hnext : prefixSum sizes (i + 1) = sizes[i]! + prefixSum sizes i := rfl
  have hmono := prefixSum_mono sizes (i + 1) sizes.size (by omega)
  have htot : prefixSum sizes i + j < (raggedOffsets sizes)[sizes.size]! := by
    rw [hoff _ (Nat.le_refl _)]; omega
  refine ⟨by rw [hidx]; exact htot, ?_⟩
  rw [hidx]
  unfold raggedInverse
  obtain ⟨r1, r2, r3, r4⟩ := raggedInvLoop_spec (raggedOffsets sizes) sizes.size
    (prefixSum sizes i + j) (raggedOffsets sizes).size 0 (by omega) (by omega)
    (by rw [hoff 0 (Nat.zero_le _)]; simp [prefixSum]) htot
  generalize raggedInvLoop (raggedOffsets sizes) (prefixSum sizes i + j)
    (raggedOffsets sizes).size 0 = r at *
  rw [hoff r (by omega)] at r3
  rw [hoff (r + 1) (by omega)] at r4
  have hri : r = i := by
    rcases Nat.lt_trichotomy r i with h | h | h
    · have := prefixSum_mono sizes (r + 1) i (by omega); omega
    · exact h
    · have := prefixSum_mono sizes (i + 1) r (by omega); omega
  subst hri
  simp only [Prod.mk.injEq, true_and]
  rw [hoff r (by omega)]; omega

/-- ★ `RaggedRightIndexer ∘ RaggedRightInverseIndexer = id` on `[0, total)`, and the pair is
    valid.  Together with `ragged_inverse_index`: a bijection between valid pairs and flat indices. -/
theorem ragged_index_inverse (sizes : Array Nat) (index : Nat)
    (hidx : index < (raggedOffsets sizes)[sizes.size]!) :
    (raggedInverse (raggedOffsets sizes) index).1 < sizes.size ∧
    (raggedInverse (raggedOffsets sizes) index).2 <
      sizes[(raggedInverse (raggedOffsets sizes) index).1]! ∧
    raggedIndex (raggedOffsets sizes) (raggedInverse (raggedOffsets sizes) index).1
      (raggedInverse (raggedOffsets sizes) index).2 = index := by
  obtain ⟨hsz, hoff⟩ := raggedOffsets_spec sizes
  have hN : 0 < sizes.size := by
    rcases Nat.eq_zero_or_pos sizes.size with h | h
    · rw [h, hoff 0 (Nat.zero_le _)] at hidx; simp [prefixSum] at hidx
    · exact h
  unfold raggedInverse raggedIndex
  obtain ⟨r1, r2, r3, r4⟩ := raggedInvLoop_spec (raggedOffsets sizes) sizes.size index
    (raggedOffsets sizes).size 0 hN (by omega)
    (by rw [hoff 0 (Nat.zero_le _)]; simp [prefixSum]) hidx
  generalize raggedInvLoop (raggedOffsets sizes) index (raggedOffsets sizes).size 0 = r at *
  simp only
  have h4 := r4
  rw [hoff (r + 1) (by omega)] at h4
  have hnext : prefixSum sizes (r + 1) = sizes[r]! + prefixSum sizes r := rfl
  have h3 := r3
  rw [hoff r (by omega)] at h3
  refine ⟨r2, ?_, by omega⟩
  rw [hoff r (by omega)]; omega

example : raggedOffsets #[2, 3, 1] = #[0, 2, 5, 6] ∧ raggedIndex #[0, 2, 5, 6] 1 2 = 4
    ∧ raggedInverse #[0, 2, 5, 6] 4 = (1, 2) := by decide +kernel

/-- `TwodGridData::at(ix, iy)` (row-major `ix * ny + iy`) is a bijection of the index box onto
    `[0, nx·ny)` with inverse `(idx / ny, idx % ny)` -/
theorem twodIndex_spec (nx ny ix iy : Nat) (hx : ix < nx) (hy : iy < ny) :
    twodIndex ny ix iy < nx * ny ∧ twodIndex ny ix iy / ny = ix ∧ twodIndex ny ix iy % ny = iy := by
  unfold twodIndex
  refine ⟨?_, ?_, ?_⟩
  · have : (ix + 1) * ny ≤ nx * ny := Nat.mul_le_mul_right ny hx
    rw [Nat.add_mul, Nat.one_mul] at this
    omega
  · rw [Nat.mul_comm, Nat.mul_add_div (by omega), Nat.div_eq_of_lt hy, Nat.add_zero]
  · rw [Nat.mul_comm, Nat.mul_add_mod, Nat.mod_eq_of_lt hy]

/-! ## NonuniformGrid::find (index logic) -/

/-- ★ `NonuniformGrid::find` brackets the value: for a sorted grid (duplicates allowed) over a
    strict total order (`ne` is disagreement of the order), `size ≥ 2`, `front ≤ v < back`:
    the result `r` satisfies `r + 1 < size` (so FindInterp's upper neighbour exists),
    `a[r] ≤ v ≤ a[r+1]`; off a grid point `a[r] < v < a[r+1]`; on a grid point `r` is the first
    index holding `v`. -/
theorem nonuniformFind_bracket (lt ne : α → α → Bool) (h : StrictWeakOrder lt)
    (hne : ∀ x y, ne x y = (lt x y || lt y x)) (a : Array α) (hs : SortedBy lt a)
    (hsz : 2 ≤ a.size) (v : α) (hfront : lt v a[0]! = false) (hback : lt v a[a.size - 1]! = true) :
    nonuniformFind lt ne a v + 1 < a.size ∧
    lt v a[nonuniformFind lt ne a v]! = false ∧
    lt a[nonuniformFind lt ne a v + 1]! v = false ∧
    (ne v a[nonuniformFind lt ne a v]! = true →
      lt a[nonuniformFind lt ne a v]! v = true ∧ lt v a[nonuniformFind lt ne a v + 1]! = true) ∧
    (ne v a[nonuniformFind lt ne a v]! = false →
      ∀ i, i < nonuniformFind lt ne a v → lt a[i]! v = true) := by
  obtain ⟨hp1, _⟩ := sorted_partitioned lt h a hs v
  obtain ⟨b1, b2, b3⟩ := lowerBound_spec lt a v hp1
  have hlb : lowerBound lt a v < a.size := by
    rcases Nat.lt_or_ge (lowerBound lt a v) a.size with h' | h'
    · exact h'
    · have := b2 (a.size - 1) (by omega)
      rw [h.asymm hback] at this; cases this
  unfold nonuniformFind
  simp only
  by_cases hn : ne v a[lowerBound lt a v]! = true
  · rw [if_pos hn]
    have hor := hn
    rw [hne] at hor
    simp only [Bool.or_eq_true] at hor
    have hvl : lt v a[lowerBound lt a v]! = true := by
      rcases hor with h' | h'
      · exact h'
      · rw [b3 _ (Nat.le_refl _) hlb] at h'; cases h'
    have hpos : 0 < lowerBound lt a v := by
      rcases Nat.eq_zero_or_pos (lowerBound lt a v) with h0 | h0
      · rw [h0, hfront] at hvl; cases hvl
      · exact h0
    have e : lowerBound lt a v - 1 + 1 = lowerBound lt a v := by omega
    have hprev := b2 (lowerBound lt a v - 1) (by omega)
    rw [e]
    refine ⟨hlb, h.asymm hprev, h.asymm hvl, fun _ => ⟨hprev, hvl⟩, ?_⟩
    intro hcontra
    rw [hne, hprev] at hcontra; simp at hcontra
  · have hn' : ne v a[lowerBound lt a v]! = false := by simpa using hn
    rw [if_neg hn]
    have hboth := hn'
    rw [hne] at hboth
    simp only [Bool.or_eq_false_iff] at hboth
    have hlt2 : lowerBound lt a v + 1 < a.size := by
      rcases Nat.lt_or_ge (lowerBound lt a v + 1) a.size with h' | h'
      · exact h'
      · have e : lowerBound lt a v = a.size - 1 := by omega
        rw [e, hback] at hboth; cases hboth.1
    refine ⟨hlt2, hboth.1, b3 _ (by omega) hlt2, fun hc => ?_, fun _ => b2⟩
    rw [hn'] at hc; cases hc

/-- on a strictly increasing grid the upper inequality is strict: `a[r] ≤ v < a[r+1]` -/
theorem nonuniformFind_strict (lt ne : α → α → Bool) (h : StrictWeakOrder lt)
    (hne : ∀ x y, ne x y = (lt x y || lt y x)) (a : Array α)
    (hinc : ∀ i j, i < j → j < a.size → lt a[i]! a[j]! = true)
    (hsz : 2 ≤ a.size) (v : α) (hfront : lt v a[0]! = false) (hback : lt v a[a.size - 1]! = true) :
    lt v a[nonuniformFind lt ne a v]! = false ∧ lt v a[nonuniformFind lt ne a v + 1]! = true := by
  have hs : SortedBy lt a := fun i j hij hj => h.asymm (hinc i j hij hj)
  obtain ⟨r1, r2, r3, r4, r5⟩ := nonuniformFind_bracket lt ne h hne a hs hsz v hfront hback
  refine ⟨r2, ?_⟩
  by_cases hn : ne v a[nonuniformFind lt ne a v]! = true
  · exact (r4 hn).2
  · have hn' : ne v a[nonuniformFind lt ne a v]! = false := by simpa using hn
    rw [hne] at hn'
    simp only [Bool.or_eq_false_iff] at hn'
    exact h.lt_of_le_of_lt hn'.2 (hinc _ _ (Nat.lt_succ_self _) r1)

example : nonuniformFind (fun (x y : Int) => decide (x < y)) (fun x y => x != y) #[0, 1, 3, 3, 7] 3 = 2
    ∧ nonuniformFind (fun (x y : Int) => decide (x < y)) (fun x y => x != y) #[0, 1, 3, 3, 7] 4 = 3
    ∧ nonuniformFind (fun (x y : Int) => decide (x < y)) (fun x y => x != y) #[0, 1, 3, 3, 7] 2 = 1 := by
  decide +kernel
example : ∀ x y : Int, (x != y) = (decide (x < y) || decide (y < x)) := by
  intro x y
  rcases Int.lt_trichotomy x y with h | h | h
  · have : x ≠ y := by omega
    simp [this, h]
  · subst h; simp
  · have : x ≠ y := by omega
    have h' : ¬ x < y := by omega
    simp [this, h, h']

end CelerVerif.Algo
