/-
C18 — device-portable algorithms and grid lookups agree with reference semantics.
Property theorems only (helper lemmas: Lemmas/Algo*.lean).  Model: Model/Algo.lean, hand-written
from Algorithms.hh / AlgorithmsImpl.hh / RangeImpl.hh / HyperslabIndexer.hh /
RaggedRightIndexer.hh / NonuniformGrid.hh and tied to the real templates by harness/algo.cc.
Every statement holds for arrays of EVERY length and for EVERY comparator that is a strict weak
order (`StrictWeakOrder`, the C++ `Compare` requirement); `a[i]!` is the i-th element.
The floating-point arithmetic of UniformGrid / Interpolator is not part of this file.
-/
import CelerVerif.Lemmas.AlgoBounds
import CelerVerif.Lemmas.AlgoSimple
import CelerVerif.Lemmas.AlgoPartition
import CelerVerif.Lemmas.AlgoHeapSort
import CelerVerif.Lemmas.AlgoIndex
import CelerVerif.Lemmas.AlgoRange

namespace CelerVerif.Algo
variable {α β : Type} [Inhabited α]

/-! ## sort -/

/-- ★ `celeritas::sort` (heapsort) returns a permutation of its input. -/
theorem heapsort_perm (lt : α → α → Bool) (a : Array α) : (heapsort lt a).Perm a := by
  rw [heapsort_eq]
  exact (sortHeap_perm lt _ a.size (by rw [makeHeap_size]; exact Nat.le_refl _)).trans
    (makeHeap_perm lt a a.size (Nat.le_refl _))

/-- ★ `celeritas::sort` output is sorted (`std::is_sorted` with the same comparator): no later
    element is ordered before an earlier one. -/
theorem heapsort_sorted (lt : α → α → Bool) (h : StrictWeakOrder lt) (a : Array α) :
    SortedBy lt (heapsort lt a) := by
  rw [heapsort_eq]
  apply sortHeap_sorted lt h
  refine ⟨by rw [makeHeap_size]; exact Nat.le_refl _,
    makeHeap_heap lt h a a.size (Nat.le_refl _), ?_, ?_⟩
  · intro i j hi hij hj; rw [makeHeap_size] at hj; omega
  · intro i j hi hj1 hj2; rw [makeHeap_size] at hj2; omega

theorem heapsort_size (lt : α → α → Bool) (a : Array α) : (heapsort lt a).size = a.size := by
  rw [heapsort_eq, sortHeap_size, makeHeap_size]

/-- `make_heap` establishes the heap property on a permutation of the input. -/
theorem makeHeap_spec (lt : α → α → Bool) (h : StrictWeakOrder lt) (a : Array α) :
    (makeHeap lt a a.size).Perm a ∧ HeapFrom lt (makeHeap lt a a.size) a.size 0 :=
  ⟨makeHeap_perm lt a a.size (Nat.le_refl _), makeHeap_heap lt h a a.size (Nat.le_refl _)⟩

example : StrictWeakOrder (fun (a b : Int) => decide (a < b)) := swo_int_lt
example : StrictWeakOrder (fun (a b : Int) => decide (a > b)) := swo_int_gt
/-- the indirect comparator `key[a] < key[b]` of SimpleUnitTracker is a strict weak order -/
example (key : Array Int) : StrictWeakOrder (fun (a b : Nat) => decide (key[a]! < key[b]!)) :=
  swo_comap swo_int_lt (fun i => key[i]!)
example : heapsort (fun (x y : Nat) => decide (x < y)) #[5, 3, 9, 1, 3] = #[1, 3, 3, 5, 9] := by
  decide +kernel

/-! ## binary and linear search -/

/-- ★ `lower_bound` returns exactly the `std::lower_bound` result: on input partitioned with
    respect to `comp(·, v)` (in particular on sorted input) it is the unique index `r ≤ size`
    with `comp(a[i], v)` for all `i < r` and `¬comp(a[i], v)` for all `r ≤ i < size`. -/
theorem lowerBound_spec (cmp : α → β → Bool) (a : Array α) (v : β)
    (hpart : ∀ i j, i ≤ j → j < a.size → cmp a[j]! v = true → cmp a[i]! v = true) :
    lowerBound cmp a v ≤ a.size ∧
    (∀ i, i < lowerBound cmp a v → cmp a[i]! v = true) ∧
    (∀ i, lowerBound cmp a v ≤ i → i < a.size → cmp a[i]! v = false) := by
  have h := lowerBoundLoop_spec cmp a v 0 a.size
    (fun i j _ h2 h3 h4 => hpart i j h2 (by omega) h4)
  refine ⟨by unfold lowerBound; omega, fun i hi => h.2.2.1 i (Nat.zero_le _) hi,
    fun i h1 h2 => h.2.2.2 i h1 (by omega)⟩

/-- ★ `upper_bound` returns exactly the `std::upper_bound` result: the unique `r ≤ size` with
    `¬comp(v, a[i])` for `i < r` and `comp(v, a[i])` for `r ≤ i < size`. -/
theorem upperBound_spec (cmp : β → α → Bool) (a : Array α) (v : β)
    (hpart : ∀ i j, i ≤ j → j < a.size → cmp v a[i]! = true → cmp v a[j]! = true) :
    upperBound cmp a v ≤ a.size ∧
    (∀ i, i < upperBound cmp a v → cmp v a[i]! = false) ∧
    (∀ i, upperBound cmp a v ≤ i → i < a.size → cmp v a[i]! = true) := by
  have h := upperBoundLoop_spec cmp a v 0 a.size
    (fun i j _ h2 h3 h4 => hpart i j h2 (by omega) h4)
  refine ⟨by unfold upperBound; omega, fun i hi => h.2.2.1 i (Nat.zero_le _) hi,
    fun i h1 h2 => h.2.2.2 i h1 (by omega)⟩

/-- `lower_bound_linear` returns, for ANY input, the first index whose element is not ordered
    before `v` (or `size`). -/
theorem lowerBoundLinear_spec (cmp : α → β → Bool) (a : Array α) (v : β) :
    lowerBoundLinear cmp a v ≤ a.size ∧
    (∀ i, i < lowerBoundLinear cmp a v → cmp a[i]! v = true) ∧
    (lowerBoundLinear cmp a v < a.size → cmp a[lowerBoundLinear cmp a v]! v = false) := by
  have h := lowerBoundLinearLoop_spec cmp a v 0 a.size (Nat.zero_le _)
  exact ⟨h.2.1, fun i hi => h.2.2.1 i (Nat.zero_le _) hi, h.2.2.2⟩

/-- on partitioned input the linear and the binary search agree -/
theorem lowerBoundLinear_eq_lowerBound (cmp : α → β → Bool) (a : Array α) (v : β)
    (hpart : ∀ i j, i ≤ j → j < a.size → cmp a[j]! v = true → cmp a[i]! v = true) :
    lowerBoundLinear cmp a v = lowerBound cmp a v := by
  obtain ⟨l1, l2, l3⟩ := lowerBoundLinear_spec cmp a v
  obtain ⟨b1, b2, b3⟩ := lowerBound_spec cmp a v hpart
  rcases Nat.lt_trichotomy (lowerBoundLinear cmp a v) (lowerBound cmp a v) with h | h | h
  · have := b2 _ h
    rw [l3 (by omega)] at this; cases this
  · exact h
  · have := l2 _ h
    rw [b3 _ (Nat.le_refl _) (by omega)] at this; cases this

/-- sorted input (any strict weak order) is partitioned for both searches -/
theorem sorted_partitioned (lt : α → α → Bool) (h : StrictWeakOrder lt) (a : Array α)
    (hs : SortedBy lt a) (v : α) :
    (∀ i j, i ≤ j → j < a.size → lt a[j]! v = true → lt a[i]! v = true) ∧
    (∀ i j, i ≤ j → j < a.size → lt v a[i]! = true → lt v a[j]! = true) := by
  constructor
  · intro i j hij hj hlt
    by_cases he : i = j
    · subst he; exact hlt
    · exact h.lt_of_le_of_lt (hs i j (by omega) hj) hlt
  · intro i j hij hj hlt
    by_cases he : i = j
    · subst he; exact hlt
    · exact h.lt_of_lt_of_le hlt (hs i j (by omega) hj)

/-- ★ `find_sorted` on sorted input: the result is the FIRST index holding an element equivalent
    to `v`, and it is `size` exactly when no element is equivalent to `v`. -/
theorem findSorted_spec (lt : α → α → Bool) (h : StrictWeakOrder lt) (a : Array α)
    (hs : SortedBy lt a) (v : α) :
    (findSorted lt a v < a.size →
      Equiv lt a[findSorted lt a v]! v ∧ ∀ i, i < findSorted lt a v → lt a[i]! v = true) ∧
    (¬ findSorted lt a v < a.size →
      findSorted lt a v = a.size ∧ ∀ i, i < a.size → ¬ Equiv lt a[i]! v) := by
  obtain ⟨hp1, _⟩ := sorted_partitioned lt h a hs v
  obtain ⟨b1, b2, b3⟩ := lowerBound_spec lt a v hp1
  unfold findSorted
  simp only
  split
  · rename_i hc
    simp only [Bool.or_eq_true, beq_iff_eq] at hc
    refine ⟨fun hlt => absurd hlt (Nat.lt_irrefl _), fun _ => ⟨rfl, ?_⟩⟩
    intro i hi heq
    by_cases hil : i < lowerBound lt a v
    · have := b2 i hil; rw [heq.1] at this; cases this
    · have hlb : lowerBound lt a v < a.size := by omega
      have hnlt := b3 _ (Nat.le_refl _) hlb
      rcases hc with (hc | hc) | hc
      · omega
      · rw [hnlt] at hc; cases hc
      · -- v < a[lb] ≤ a[i]
        by_cases hie : i = lowerBound lt a v
        · subst hie; rw [heq.2] at hc; cases hc
        · have := h.lt_of_lt_of_le hc (hs _ i (by omega) hi)
          rw [heq.2] at this; cases this
  · rename_i hc
    simp only [Bool.or_eq_true, beq_iff_eq, not_or, Bool.not_eq_true] at hc
    exact ⟨fun _ => ⟨⟨hc.1.2, hc.2⟩, b2⟩, fun hn => absurd (by omega) hn⟩

example : lowerBound (fun (x y : Nat) => decide (x < y)) #[1, 3, 5, 5, 7] 5 = 2
    ∧ upperBound (fun (x y : Nat) => decide (x < y)) #[1, 3, 5, 5, 7] 5 = 4
    ∧ findSorted (fun (x y : Nat) => decide (x < y)) #[1, 3, 5, 5, 7] 5 = 2
    ∧ findSorted (fun (x y : Nat) => decide (x < y)) #[1, 3, 5, 5, 7] 4 = 5 := by decide +kernel
example : SortedBy (fun (x y : Nat) => decide (x < y)) #[1, 3, 5, 5, 7] := by
  have := heapsort_sorted (fun (x y : Nat) => decide (x < y)) swo_nat_lt #[5, 3, 7, 1, 5]
  rwa [show heapsort (fun (x y : Nat) => decide (x < y)) #[5, 3, 7, 1, 5] = #[1, 3, 5, 5, 7] by
    decide +kernel] at this

end CelerVerif.Algo
