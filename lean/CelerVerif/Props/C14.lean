/-
C14 — Physics table lookups, continuous loss and MSC path conversions are consistent.
Property theorems only: the ℝ reading of the `Num`-generic model in Model/Calc.lean (which is
run bit-exactly at `Float` against the real classes by harness/calc.cc).
`floorIdx` is `static_cast<size_type>` at ℝ (truncation).  Helper lemmas: Lemmas/Calc*.lean.
Tables: `d.y i` = i-th stored value, `d.en i` = `exp(loge_grid[i])`, `d.knot i` = the unscaled
tabulated value `XsCalculator::operator[](i)`; `d.WF` = what `XsGridData::operator bool`,
`UniformGridData::from_bounds` and the collection builder guarantee (size ≥ 2, front < back,
delta = (back − front)/(size − 1), the item range lies inside `reals`); any size.
-/
import CelerVerif.Lemmas.CalcXsThm

namespace CelerVerif.Calc
open CelerVerif

/-! ## Uniform grid -/

/-- ★ `UniformGrid::find` at ℝ: for `front ≤ v < back` the returned bin brackets `v` and
    `bin + 1` is a grid point (the `CELER_ENSURE` of `find`).  In IEEE arithmetic the last
    conjunct is FALSE a few ulp below `back` (DESIGN.md §8 d; reported by tools/checks/c14.py
    under the key `uniformgrid-find-last-bin`). -/
theorem uniform_find_bracket (g : UGrid ℝ) (w : g.WF) (v : ℝ) (h1 : g.front ≤ v)
    (h2 : v < g.back) :
    g.at (g.find floorIdx v) ≤ v ∧ v < g.at (g.find floorIdx v + 1)
      ∧ g.find floorIdx v + 1 < g.size :=
  w.find_bracket v h1 h2

example : (UGrid.fromBounds (0 : ℝ) 3 4).WF := UGrid.fromBounds_WF 0 3 4 (by norm_num) (by norm_num)

/-- `from_bounds` puts the last grid point exactly on `back` (at ℝ) and the grid is increasing -/
theorem uniform_grid_points (g : UGrid ℝ) (w : g.WF) :
    g.at 0 = g.front ∧ g.at (g.size - 1) = g.back ∧ ∀ i j, i < j → g.at i < g.at j :=
  ⟨UGrid.WF.at_zero, w.at_last, fun _ _ h => w.at_strictMono h⟩

/-! ## XsCalculator / EnergyLossCalculator -/

/-- the table is reproduced at every knot: `calc(exp(loge_grid[i])) = operator[](i)` -/
theorem xs_at_knots (d : XsGrid ℝ) (w : d.WF) (i : ℕ) (hi : i < d.size) :
    d.calc floorIdx (d.en i) = some (d.knot i) := by
  have hlog : Real.log (d.en i) = d.grid.at i := XsGrid.WF.log_en i
  have hsz := w.size_ge
  by_cases h0 : i = 0
  · subst h0
    rw [w.calc_below (by rw [hlog, UGrid.WF.at_zero])]
    rfl
  by_cases hl : i = d.size - 1
  · subst hl
    rw [w.calc_above (by rw [hlog, ← w.gsize, w.grid.at_last])]
    rfl
  · have hlt : d.grid.front < d.grid.at i := by
      rw [← UGrid.WF.at_zero (g := d.grid)]; exact w.grid.at_strictMono (by omega)
    have hgt : d.grid.at i < d.grid.back := by
      rw [← w.grid.at_last, w.gsize]; exact w.grid.at_strictMono (by omega)
    rw [w.calc_bin (by rw [hlog]; exact hlt) (by rw [hlog]; exact hgt), hlog,
      w.grid.find_at i (by rw [w.gsize]; omega),
      XsGrid.WF.xsBin_real, lerp_left]
    rfl

/-- inside a bin the value lies between the two neighbouring (unscaled) knot values — also in
    the bins at and next to the prime index -/
theorem xs_between_neighbours (d : XsGrid ℝ) (w : d.WF) (e : ℝ) (he : 0 < e)
    (h1 : d.grid.front < Real.log e) (h2 : Real.log e < d.grid.back) :
    ∃ k v, k + 1 < d.size ∧ d.en k ≤ e ∧ e < d.en (k + 1) ∧ d.calc floorIdx e = some v ∧
      min (d.knot k) (d.knot (k + 1)) ≤ v ∧ v ≤ max (d.knot k) (d.knot (k + 1)) :=
  calc_between d w e he h1 h2

/-- … in particular finite and positive for a positive table, at every energy -/
theorem xs_pos (d : XsGrid ℝ) (w : d.WF) (hp : d.Pos) (e : ℝ) (he : 0 < e) :
    ∃ v, d.calc floorIdx e = some v ∧ 0 < v :=
  calc_pos d w hp e he

/-- documented extrapolation: below the grid the first value, above it the last value, each
    divided by E when its index is at or above the prime index -/
theorem xs_extrapolation (d : XsGrid ℝ) (w : d.WF) (e : ℝ) :
    (Real.log e ≤ d.grid.front →
      d.calc floorIdx e = some (if 0 ≥ d.prime then d.y 0 / e else d.y 0)) ∧
    (d.grid.back ≤ Real.log e →
      d.calc floorIdx e
        = some (if d.size - 1 ≥ d.prime then d.y (d.size - 1) / e else d.y (d.size - 1))) :=
  ⟨w.calc_below, w.calc_above⟩

end CelerVerif.Calc
