/-
C14 — Physics table lookups, continuous loss and MSC path conversions are consistent.
Property theorems only: the ℝ reading of the `Num`-generic model in Model/Calc.lean (which is
run bit-exactly at `Float` against the real classes by harness/calc.cc).
`floorIdx` is `static_cast<size_type>` at ℝ (truncation).  Helper lemmas: Lemmas/Calc*.lean.
Tables: `d.y i` = i-th stored value, `d.en i` = `exp(loge_grid[i])`, `d.knot i` = the unscaled
tabulated value `XsCalculator::operator[](i)`; `d.WF` = what `XsGridData::operator bool`,
`UniformGridData::from_bounds` and the collection builder guarantee (size ≥ 2, front < back,
delta = (back − front)/(size − 1), the item range lies inside `reals`); `d.Pos` positive
values; `d.Incr` strictly increasing values (range tables).  Every statement is for tables of
ANY size.  Lookups return `Option` (`none` = a read outside the `reals` collection): every
theorem also proves that the result is `some _`, i.e. no out-of-table read happens.
-/
import CelerVerif.Lemmas.CalcExample
import CelerVerif.Lemmas.CalcCont
import CelerVerif.Lemmas.CalcMono
import CelerVerif.Lemmas.CalcMsc
import CelerVerif.Lemmas.CalcBuild
import CelerVerif.Lemmas.CalcFloat

namespace CelerVerif.Calc
open CelerVerif

/-! ## Uniform grid -/

/-- ★ `UniformGrid::find` at ℝ: for `front ≤ v < back` the returned bin brackets `v` and
    `bin + 1` is a grid point (the `CELER_ENSURE` of `find`). -/
theorem uniform_find_bracket (g : UGrid ℝ) (w : g.WF) (v : ℝ) (h1 : g.front ≤ v)
    (h2 : v < g.back) :
    g.at (g.find floorIdx v) ≤ v ∧ v < g.at (g.find floorIdx v + 1)
      ∧ g.find floorIdx v + 1 < g.size :=
  w.find_bracket v h1 h2

example : (UGrid.fromBounds (0 : ℝ) 3 4).WF := UGrid.fromBounds_WF 0 3 4 (by norm_num) (by norm_num)

/-- exact statement for EVERY number type — in particular for the `Float` instance that is run
    bit-for-bit against the C++ — and every input (in or out of range, NaN): with the clamp of
    /repo commit f1d81dd the returned bin always has a right neighbour on the grid.  (Before
    that commit this failed in IEEE arithmetic a few ulp below `back`: DESIGN.md §8 d; the
    check still reports key `uniformgrid-find-last-bin` if the real `find` ever returns
    `size − 1`.) -/
theorem uniform_find_in_range {α : Type} [Num α] (toIdx : α → ℕ) (g : UGrid α) (v : α)
    (h : 2 ≤ g.size) : g.find toIdx v + 1 < g.size :=
  UGrid.find_lt toIdx g v h

example : 2 ≤ (UGrid.fromBounds (0 : ℝ) 3 4).size := by simp [UGrid.fromBounds]

/-- exact statement on the generic model (no real arithmetic): `find` (with its clamp) is
    monotone in the value for every number type whose subtraction, division by a positive
    number and index cast are monotone (`MonoNum`, Lemmas/CalcMono.lean: the comment there
    lists the IEEE-754 facts — monotone rounding of the exact difference / quotient, monotone
    truncation — that instantiate it at `Float`; they are hypotheses here, instantiated at ℝ) -/
theorem uniform_find_monotone {α : Type} [Num α] {toIdx : α → ℕ} (M : MonoNum α toIdx)
    (g : UGrid α) (hd : Num.lt (Num.ofNat 0) g.delta = true) (a b : α)
    (hab : Num.le a b = true) : g.find toIdx a ≤ g.find toIdx b :=
  UGrid.find_mono_of M g hd a b hab

example : MonoNum ℝ floorIdx := monoNum_real

/-- `from_bounds` puts the last grid point exactly on `back` (at ℝ) and the grid is increasing -/
theorem uniform_grid_points (g : UGrid ℝ) (w : g.WF) :
    g.at 0 = g.front ∧ g.at (g.size - 1) = g.back ∧ ∀ i j, i < j → g.at i < g.at j :=
  ⟨UGrid.WF.at_zero, w.at_last, fun _ _ h => w.at_strictMono h⟩

/-! ## XsCalculator / EnergyLossCalculator -/

/-- the table is reproduced at every knot: `calc(exp(loge_grid[i])) = operator[](i)` -/
theorem xs_at_knots (d : XsGrid ℝ) (w : d.WF) (i : ℕ) (hi : i < d.size) :
    d.calc floorIdx (d.en i) = some (d.knot i) := by
  have hlog : Real.log (d.en i) = d.grid.at i := XsGrid.WF.log_en i
  have hsz := w.size_ge
  by_cases h0 : i = 0
  · subst h0
    rw [w.calc_below (by rw [hlog, UGrid.WF.at_zero])]
    rfl
  by_cases hl : i = d.size - 1
  · subst hl
    rw [w.calc_above (by rw [hlog, ← w.gsize, w.grid.at_last])]
    rfl
  · have hlt : d.grid.front < d.grid.at i := by
      rw [← UGrid.WF.at_zero (g := d.grid)]; exact w.grid.at_strictMono (by omega)
    have hgt : d.grid.at i < d.grid.back := by
      rw [← w.grid.at_last, w.gsize]; exact w.grid.at_strictMono (by omega)
    rw [w.calc_bin (by rw [hlog]; exact hlt) (by rw [hlog]; exact hgt), hlog,
      w.grid.find_at i (by rw [w.gsize]; omega),
      XsGrid.WF.xsBin_real, lerp_left]
    rfl

example (p : ℕ) : (exGrid p).WF ∧ 1 < (exGrid p).size := ⟨exGrid_WF p, by simp [exGrid]⟩

/-- inside a bin the value lies between the two neighbouring (unscaled) knot values — also in
    the bins at and next to the prime index -/
theorem xs_between_neighbours (d : XsGrid ℝ) (w : d.WF) (e : ℝ) (he : 0 < e)
    (h1 : d.grid.front < Real.log e) (h2 : Real.log e < d.grid.back) :
    ∃ k v, k + 1 < d.size ∧ d.en k ≤ e ∧ e < d.en (k + 1) ∧ d.calc floorIdx e = some v ∧
      min (d.knot k) (d.knot (k + 1)) ≤ v ∧ v ≤ max (d.knot k) (d.knot (k + 1)) :=
  calc_between d w e he h1 h2

example : (exGrid 1).WF ∧ (0 : ℝ) < Real.exp 1 ∧ (exGrid 1).grid.front < Real.log (Real.exp 1)
    ∧ Real.log (Real.exp 1) < (exGrid 1).grid.back := by
  refine ⟨exGrid_WF 1, Real.exp_pos 1, ?_, ?_⟩ <;> rw [Real.log_exp] <;>
    simp [exGrid, UGrid.fromBounds]

/-- … in particular finite and positive for a positive table, at every energy -/
theorem xs_pos (d : XsGrid ℝ) (w : d.WF) (hp : d.Pos) (e : ℝ) (he : 0 < e) :
    ∃ v, d.calc floorIdx e = some v ∧ 0 < v :=
  calc_pos d w hp e he

example : (exGrid 1).WF ∧ (exGrid 1).Pos := ⟨exGrid_WF 1, exGrid_Pos 1⟩

/-- documented extrapolation: below the grid the first value, above it the last value, each
    divided by E when its index is at or above the prime index -/
theorem xs_extrapolation (d : XsGrid ℝ) (w : d.WF) (e : ℝ) :
    (Real.log e ≤ d.grid.front →
      d.calc floorIdx e = some (if 0 ≥ d.prime then d.y 0 / e else d.y 0)) ∧
    (d.grid.back ≤ Real.log e →
      d.calc floorIdx e
        = some (if d.size - 1 ≥ d.prime then d.y (d.size - 1) / e else d.y (d.size - 1))) :=
  ⟨w.calc_below, w.calc_above⟩

/-- the looked-up value (`d.value e`, the calculator as a total function) is continuous at
    every knot — from both sides, including the knot at the prime index (below it the upper
    point is un-scaled by its energy, above it the scaled interpolant is divided by E) and the
    two ends of the grid (constant or 1/E extrapolation) — and equals the tabulated value there -/
theorem xs_continuous_at_knots (d : XsGrid ℝ) (w : d.WF) (i : ℕ) (hi : i < d.size) :
    ContinuousAt d.value (d.en i) ∧ d.value (d.en i) = d.knot i :=
  ⟨continuousAt_iff_continuous_left_right.mpr
    ⟨w.value_continuous_left hi, w.value_continuous_right hi⟩, w.value_knot hi⟩

example : (exGrid 1).WF ∧ (1 : ℕ) < (exGrid 1).size ∧ (exGrid 1).prime = 1 :=
  ⟨exGrid_WF 1, by simp [exGrid], rfl⟩

/-! ## ValueGridXsBuilder::build (+ ValueGridInserter)

`b.OnGrid j`: at least two values, `log emin < log emax`, `log eprime` is grid point `j` of
`from_bounds(log emin, log emax, n)` with `j + 1 < n`, and the grid spacing is not below what
`soft_equal` resolves (1e-14 absolute / 1e-12 relative). -/

/-- ★ the builder stores the grid point of `eprime` as `prime_index`, and the calculator on the
    built table reproduces the input cross sections at every knot (the caller passes `σᵢ` below
    `eprime` and `σᵢ·Eᵢ` from `eprime` on, as `from_geant` does) -/
theorem xs_builder_at_knots (b : XsBuilder ℝ) (j : ℕ) (h : b.OnGrid j) (reals : Array ℝ)
    (σ : ℕ → ℝ)
    (hxs : ∀ i, i < b.xs.size → b.xs.getD i 0
      = if i ≥ j then σ i * Real.exp ((UGrid.fromBounds b.logEmin b.logEmax b.xs.size).at i)
        else σ i) :
    (b.build floorIdx reals).prime = j ∧ (b.build floorIdx reals).WF ∧
    ∀ i, i < b.xs.size →
      (b.build floorIdx reals).calc floorIdx
        (Real.exp ((UGrid.fromBounds b.logEmin b.logEmax b.xs.size).at i)) = some (σ i) :=
  ⟨h.primeIndex_eq, h.build_WF reals, fun i hi => h.calc_knots reals σ hxs i hi⟩

example : (XsBuilder.mk ((0 : ℝ)) 1 2 #[1, 2, 4]).OnGrid 1 := by
  refine ⟨by simp, by norm_num, by simp, ?_, ?_⟩
  · simp [UGrid.at_real, UGrid.fromBounds_delta, UGrid.fromBounds]
  · simp only [UGrid.at_real, UGrid.fromBounds_delta]
    simp [UGrid.fromBounds]
    norm_num

/-! ## RangeCalculator / InverseRangeCalculator -/

/-- the range is finite, and monotone in the energy (below, inside and above the grid) -/
theorem range_monotone (d : XsGrid ℝ) (w : d.WF) (hp : d.Pos) (hi : d.Incr) (e1 e2 : ℝ)
    (h1 : 0 < e1) (h12 : e1 ≤ e2) :
    ∃ r1 r2, d.range floorIdx e1 = some r1 ∧ d.range floorIdx e2 = some r2 ∧ r1 ≤ r2 :=
  w.range_mono hp hi h1 h12

example : (exGrid noScaling).WF ∧ (exGrid noScaling).Pos ∧ (exGrid noScaling).Incr :=
  ⟨exGrid_WF _, exGrid_Pos _, exGrid_Incr _⟩

/-- the inverse range is finite, non-negative and monotone for `0 ≤ r` -/
theorem invrange_monotone (d : XsGrid ℝ) (w : d.WF) (hp : d.Pos) (hi : d.Incr) (r1 r2 : ℝ)
    (h1 : 0 ≤ r1) (h12 : r1 ≤ r2) :
    ∃ e1 e2, d.invRange r1 = some e1 ∧ d.invRange r2 = some e2 ∧ 0 ≤ e1 ∧ e1 ≤ e2 := by
  obtain ⟨e1, e2, a, b, c⟩ := w.invRange_mono hp hi h1 h12
  obtain ⟨e, he, h0, _⟩ := w.invRange_bounds hp hi h1
  rw [a] at he
  cases he
  exact ⟨e1, e2, a, b, h0, c⟩

/-- ★ inverse-range ∘ range = id for every energy on the table and below it
    (`log e ≤ back`, i.e. `e ≤ E_max`; above the table the range is clamped) -/
theorem invrange_range (d : XsGrid ℝ) (w : d.WF) (hp : d.Pos) (hi : d.Incr) (e : ℝ) (he : 0 < e)
    (hb : Real.log e ≤ d.grid.back) :
    ∃ r, d.range floorIdx e = some r ∧ 0 < r ∧ d.invRange r = some e :=
  w.invRange_range hp hi he hb

example : (0 : ℝ) < 1 ∧ Real.log 1 ≤ (exGrid noScaling).grid.back := by
  refine ⟨one_pos, ?_⟩; rw [Real.log_one]; simp [exGrid, UGrid.fromBounds]

/-- ★ range ∘ inverse-range = id for every `0 < r ≤ r_max` -/
theorem range_invrange (d : XsGrid ℝ) (w : d.WF) (hp : d.Pos) (hi : d.Incr) (r : ℝ) (hr : 0 < r)
    (hmax : r ≤ d.y (d.size - 1)) :
    ∃ e, d.invRange r = some e ∧ 0 < e ∧ d.range floorIdx e = some r :=
  w.range_invRange hp hi hr hmax

example : (0 : ℝ) < 3 ∧ (3 : ℝ) ≤ (exGrid noScaling).y ((exGrid noScaling).size - 1) := by
  have := (exGrid_y noScaling).2.2
  refine ⟨by norm_num, ?_⟩
  show (3 : ℝ) ≤ (exGrid noScaling).y 2
  rw [this]; norm_num

/-! ## calc_mean_energy_loss

`loss` = energy-loss table (any prime index), `rng` = range table, `lim` = `linear_loss_limit`,
`range` = `physics.dedx_range()` which `calc_physics_step_limit` sets to the RangeCalculator
value at the pre-step energy `E` (hypothesis `hrange`).  `0 < lim ≤ 1` is the validated option
range (`PhysicsParams.cc`: `0 ≤ linear_loss_limit ≤ 1`; `PhysicsParamsScalars`: `> 0`). -/

/-- ★ the mean loss is defined, non-negative and never exceeds the particle energy -/
theorem meanLoss_bounds (loss rng : XsGrid ℝ) (wl : loss.WF) (hpl : loss.Pos) (wr : rng.WF)
    (hpr : rng.Pos) (hir : rng.Incr) (lim E range step : ℝ) (hE : 0 < E) (_hlim0 : 0 < lim)
    (hlim1 : lim ≤ 1) (hrange : rng.range floorIdx E = some range) (hs0 : 0 < step)
    (hs1 : step ≤ range) :
    ∃ L, meanEnergyLoss floorIdx loss rng lim E range step = some L ∧ 0 ≤ L ∧ L ≤ E := by
  obtain ⟨rate, hc, hpos⟩ := calc_pos loss wl hpl E hE
  by_cases hbr : E * lim ≤ step * rate
  · by_cases heq : step = range
    · exact ⟨E, meanLoss_full hc hbr heq, le_of_lt hE, le_refl _⟩
    · obtain ⟨e1, e2, he1, _, _, _, hle⟩ :=
        curve_energy wr hpr hir hE hrange (le_refl step) hs1
      obtain ⟨e, he, h0, _⟩ := wr.invRange_bounds hpr hir (show 0 ≤ range - step by linarith)
      rw [he1] at he
      cases he
      refine ⟨E - e1, ?_, by linarith [hle (le_of_lt hs0)], by linarith⟩
      rw [meanLoss_curve hc hbr heq, he1]
      rfl
  · have hlin : step * rate < E * lim := not_le.mp hbr
    refine ⟨step * rate, meanLoss_linear hc hlin, le_of_lt (mul_pos hs0 hpos), ?_⟩
    have : E * lim ≤ E := by nlinarith
    linarith

example : (exGrid 1).WF ∧ (exGrid 1).Pos ∧ (exGrid noScaling).WF ∧ (exGrid noScaling).Incr
    ∧ ∃ r, (exGrid noScaling).range floorIdx 1 = some r ∧ 0 < r := by
  refine ⟨exGrid_WF _, exGrid_Pos _, exGrid_WF _, exGrid_Incr _, ?_⟩
  obtain ⟨r, hr, hpos, _⟩ := (exGrid_WF noScaling).invRange_range (exGrid_Pos _) (exGrid_Incr _)
    (e := 1) one_pos (by rw [Real.log_one]; simp [exGrid, UGrid.fromBounds])
  exact ⟨r, hr, hpos⟩

/-- a step equal to the range loses the full energy — PARTIAL: only when the range-curve branch
    is taken (`hbr`: `range · dE/dx(E) ≥ lim · E`).  Full statement: `step = range → loss = E`.
    The code does not enforce `hbr`; in the linear branch the real code returns
    `range · dE/dx(E) < E` (excluded point replayed by tools/checks/c14.py, key
    `meanloss-step-eq-range-linear-branch`). -/
theorem meanLoss_full_at_range_partial (loss rng : XsGrid ℝ) (lim E range rate : ℝ)
    (hc : loss.calc floorIdx E = some rate) (hbr : E * lim ≤ range * rate) :
    meanEnergyLoss floorIdx loss rng lim E range range = some E :=
  meanLoss_full hc hbr rfl

example : ∃ rate, (exGrid 1).calc floorIdx 1 = some rate :=
  let ⟨v, h, _⟩ := calc_pos (exGrid 1) (exGrid_WF 1) (exGrid_Pos 1) 1 one_pos
  ⟨v, h⟩

/-- the mean loss does not decrease with the step length as long as both steps use the same
    formula (both linear or both on the range curve) -/
theorem meanLoss_monotone_in_step (loss rng : XsGrid ℝ) (wr : rng.WF)
    (hpr : rng.Pos) (hir : rng.Incr) (lim E range rate s1 s2 : ℝ) (hE : 0 < E)
    (hc : loss.calc floorIdx E = some rate) (hrate : 0 < rate)
    (hrange : rng.range floorIdx E = some range) (_h1 : 0 < s1) (h12 : s1 ≤ s2) (h2 : s2 ≤ range)
    (hsame : s2 * rate < E * lim ∨ E * lim ≤ s1 * rate) :
    ∃ L1 L2, meanEnergyLoss floorIdx loss rng lim E range s1 = some L1 ∧
      meanEnergyLoss floorIdx loss rng lim E range s2 = some L2 ∧ L1 ≤ L2 := by
  have hmul : s1 * rate ≤ s2 * rate := mul_le_mul_of_nonneg_right h12 (le_of_lt hrate)
  rcases hsame with hlin | hcur
  · exact ⟨_, _, meanLoss_linear hc (lt_of_le_of_lt hmul hlin), meanLoss_linear hc hlin, hmul⟩
  · have hcur2 : E * lim ≤ s2 * rate := le_trans hcur hmul
    obtain ⟨e1, e2, he1, he2, h0, hle, hE1⟩ := curve_energy wr hpr hir hE hrange h12 h2
    by_cases heq2 : s2 = range
    · by_cases heq1 : s1 = range
      · exact ⟨E, E, meanLoss_full hc hcur heq1, meanLoss_full hc hcur2 heq2, le_refl _⟩
      · refine ⟨E - e1, E, ?_, meanLoss_full hc hcur2 heq2, ?_⟩
        · rw [meanLoss_curve hc hcur heq1, he1]; rfl
        · obtain ⟨e, he, h0', _⟩ := wr.invRange_bounds hpr hir (show 0 ≤ range - s1 by linarith)
          rw [he1] at he
          cases he
          linarith
    · have heq1 : s1 ≠ range := by
        intro h; apply heq2; linarith
      refine ⟨E - e1, E - e2, ?_, ?_, by linarith⟩
      · rw [meanLoss_curve hc hcur heq1, he1]; rfl
      · rw [meanLoss_curve hc hcur2 heq2, he2]; rfl

/-- across the switch from the linear formula (`s1`) to the range curve (`s2`) — PARTIAL.
    Full statement: `s1 ≤ s2 → loss s1 ≤ loss s2`.  Needed in addition (`hsw`): along the range
    curve the step `s2` loses at least the switch energy `lim · E`.  Nothing in the code
    enforces this, and it fails even when the range table is the exact integral of 1/loss if
    dE/dx decreases with energy (then curve loss over s < s · dE/dx(E)); excluded point replayed
    by tools/checks/c14.py, key `meanloss-decreases-across-linear-switch`. -/
theorem meanLoss_monotone_across_switch_partial (loss rng : XsGrid ℝ)
    (lim E range rate s1 s2 L2 : ℝ)
    (hc : loss.calc floorIdx E = some rate) (hlin : s1 * rate < E * lim)
    (_h2 : meanEnergyLoss floorIdx loss rng lim E range s2 = some L2) (hsw : E * lim ≤ L2) :
    ∃ L1, meanEnergyLoss floorIdx loss rng lim E range s1 = some L1 ∧ L1 ≤ L2 :=
  ⟨_, meanLoss_linear hc hlin, by linarith⟩

/-- the hypothesis `hbr` of `meanLoss_full_at_range_partial` cannot be dropped: kernel-checked
    witness satisfying every hypothesis of `meanLoss_bounds` (grid 0..2 with 3 points, loss
    table ½,½,½, range table 1,2,4, limit 1, E = 1, so range = 1) where `step = range` loses
    only ½ < E.  (Replayed on the real code: corpus/C14/meanloss_findings.ops, known finding
    `meanloss-step-eq-range-linear-branch`.) -/
theorem meanLoss_full_at_range_fails :
    ∃ (loss rng : XsGrid ℝ) (lim E range L : ℝ), loss.WF ∧ loss.Pos ∧ rng.WF ∧ rng.Pos ∧
      rng.Incr ∧ 0 < E ∧ 0 < lim ∧ lim ≤ 1 ∧ rng.range floorIdx E = some range ∧
      meanEnergyLoss floorIdx loss rng lim E range range = some L ∧ L < E := by
  refine ⟨exConst (1 / 2), exGrid noScaling, 1, 1, 1, 1 * (1 / 2), exConst_WF _,
    exConst_Pos _ (by norm_num), exGrid_WF _, exGrid_Pos _, exGrid_Incr _, one_pos, one_pos,
    le_refl _, exGrid_range_one, ?_, by norm_num⟩
  exact meanLoss_linear (exConst_calc_one _) (by norm_num)

/-- the hypothesis `hsw` of `meanLoss_monotone_across_switch_partial` cannot be dropped:
    kernel-checked witness (same grid, loss table 4,4,4, range table 1,2,4, limit ½, E = 1,
    range = 1): the step 3/25 (linear formula) loses 12/25, the LONGER step 1/8 (range curve)
    loses only 15/64.  (Real code: known finding `meanloss-decreases-across-linear-switch`.) -/
theorem meanLoss_monotone_across_switch_fails :
    ∃ (loss rng : XsGrid ℝ) (lim E range s1 s2 L1 L2 : ℝ), loss.WF ∧ loss.Pos ∧ rng.WF ∧ rng.Pos ∧
      rng.Incr ∧ 0 < E ∧ 0 < lim ∧ lim ≤ 1 ∧ rng.range floorIdx E = some range ∧
      0 < s1 ∧ s1 < s2 ∧ s2 ≤ range ∧
      meanEnergyLoss floorIdx loss rng lim E range s1 = some L1 ∧
      meanEnergyLoss floorIdx loss rng lim E range s2 = some L2 ∧ L2 < L1 := by
  refine ⟨exConst 4, exGrid noScaling, 1 / 2, 1, 1, 3 / 25, 1 / 8, 3 / 25 * 4, 1 - 49 / 64,
    exConst_WF _, exConst_Pos _ (by norm_num), exGrid_WF _, exGrid_Pos _, exGrid_Incr _, one_pos,
    by norm_num, by norm_num, exGrid_range_one, by norm_num, by norm_num, by norm_num, ?_, ?_,
    by norm_num⟩
  · exact meanLoss_linear (exConst_calc_one _) (by norm_num)
  · rw [meanLoss_curve (exConst_calc_one _) (by norm_num) (by norm_num),
      exGrid_invRange_below _ (by norm_num)]
    simp only [Option.map_some]
    congr 1
    norm_num

/-! ## GenericCalculator

`d.X i` / `d.Y i` = i-th grid point / value, `d.WF` = `GenericGridRecord::operator bool` + item
ranges inside `reals` + strictly increasing x grid (any size); `d.inverse` = `make_inverse()` /
`from_inverse` (x and y flipped), which needs strictly increasing values (`d.YIncr`). -/

/-- the table is reproduced at every grid point -/
theorem generic_at_knots (d : GenGrid ℝ) (w : d.WF) (i : ℕ) (hi : i < d.size) :
    d.calc (d.X i) = some (d.Y i) :=
  w.calc_knot hi

example : exGen.WF ∧ 1 < exGen.size := ⟨exGen_WF, by simp [exGen]⟩

/-- inside the grid the value lies between the two neighbouring tabulated values -/
theorem generic_between_neighbours (d : GenGrid ℝ) (w : d.WF) (x : ℝ) (h1 : d.X 0 < x)
    (h2 : x < d.X (d.size - 1)) :
    ∃ k v, k + 1 < d.size ∧ d.X k ≤ x ∧ x < d.X (k + 1) ∧ d.calc x = some v ∧
      min (d.Y k) (d.Y (k + 1)) ≤ v ∧ v ≤ max (d.Y k) (d.Y (k + 1)) := by
  obtain ⟨k, hk, hb1, hb2, hc⟩ := w.calc_bin h1 h2
  exact ⟨k, _, hk, hb1, hb2, hc,
    lerp_between _ _ _ _ _ (w.xincr k hk) hb1 (le_of_lt hb2)⟩

example : exGen.X 0 < 3 ∧ (3 : ℝ) < exGen.X (exGen.size - 1) := by
  constructor <;> simp [GenGrid.X, exGen] <;> norm_num

/-- outside the grid the end values are extrapolated as constants -/
theorem generic_extrapolation (d : GenGrid ℝ) (w : d.WF) (x : ℝ) :
    (x ≤ d.X 0 → d.calc x = some (d.Y 0)) ∧
    (d.X (d.size - 1) ≤ x → d.calc x = some (d.Y (d.size - 1))) :=
  ⟨w.calc_below, w.calc_above⟩

/-- ★ `make_inverse()` ∘ calc = id on the whole grid, for strictly increasing values -/
theorem generic_inverse_calc (d : GenGrid ℝ) (w : d.WF) (hy : d.YIncr) (x : ℝ) (h1 : d.X 0 ≤ x)
    (h2 : x ≤ d.X (d.size - 1)) :
    ∃ v, d.calc x = some v ∧ d.inverse.calc v = some x :=
  w.inverse_calc hy h1 h2

example : exGen.WF ∧ exGen.YIncr := ⟨exGen_WF, exGen_YIncr⟩

/-! ## calc_physics_step_limit → calc_mean_energy_loss on the same track state -/

/-- ★ whatever limits the step (discrete interaction, range, fixed limiter) and whatever the
    track slot held before (`st`: the previous step's range), after `calc_physics_step_limit`
    at energy `E` the stored `dedx_range` is `RangeCalculator(E)` and the cached cross section
    is the current one: the hypothesis `hrange` of `meanLoss_bounds` is established by the
    code, not assumed -/
theorem stepLimit_stores_current_range (mxs rng : XsGrid ℝ) (rho alpha fixedLimit : ℝ)
    (st st' : PhysTrack ℝ) (E mfp : ℝ) (lim : StepLimit ℝ) (hE : E ≠ 0)
    (h : physicsStepLimit floorIdx mxs rng rho alpha fixedLimit st E mfp = some (lim, st')) :
    rng.range floorIdx E = some st'.dedxRange ∧ mxs.calc floorIdx E = some st'.macroXs :=
  physicsStepLimit_stores mxs rng rho alpha fixedLimit st st' E mfp lim hE h

/-- ★ one step of the loop: for ANY previous track state, the step limit is defined, positive
    and at most the freshly stored range, and the mean energy loss over any step up to that
    limit, computed from the stored range, lies in `[0, E]`
    (`0 < max_step_over_range ≤ 1`: validated only as `> 0` by PhysicsParams) -/
theorem meanLoss_after_stepLimit (mxs loss rng : XsGrid ℝ) (wm : mxs.WF) (hpm : mxs.Pos)
    (wl : loss.WF) (hpl : loss.Pos) (wr : rng.WF) (hpr : rng.Pos) (hir : rng.Incr)
    (rho alpha fixedLimit lim : ℝ) (hrho : 0 < rho) (ha0 : 0 < alpha) (ha1 : alpha ≤ 1)
    (hlim0 : 0 < lim) (hlim1 : lim ≤ 1) (st : PhysTrack ℝ) (E mfp : ℝ) (hE : 0 < E)
    (hmfp : 0 < mfp) :
    ∃ sl st', physicsStepLimit floorIdx mxs rng rho alpha fixedLimit st E mfp = some (sl, st') ∧
      0 < sl.step ∧ sl.step ≤ st'.dedxRange ∧
      ∀ s, 0 < s → s ≤ sl.step →
        ∃ L, meanEnergyLoss floorIdx loss rng lim E st'.dedxRange s = some L ∧ 0 ≤ L ∧ L ≤ E := by
  obtain ⟨sl, st', hsl, hpos, hle⟩ := physicsStepLimit_bounds mxs rng wm hpm wr hpr hir rho alpha
    fixedLimit hrho ha0 ha1 st E mfp hE hmfp
  have hr := (physicsStepLimit_stores mxs rng rho alpha fixedLimit st st' E mfp sl hE.ne' hsl).1
  exact ⟨sl, st', hsl, hpos, hle, fun s hs0 hs1 =>
    meanLoss_bounds loss rng wl hpl wr hpr hir lim E st'.dedxRange s hE hlim0 hlim1 hr hs0
      (le_trans hs1 hle)⟩

example : (exGrid 1).WF ∧ (exGrid 1).Pos ∧ (exConst 4).WF ∧ (exConst 4).Pos
    ∧ (exGrid noScaling).WF ∧ (exGrid noScaling).Incr :=
  ⟨exGrid_WF _, exGrid_Pos _, exConst_WF _, exConst_Pos _ (by norm_num), exGrid_WF _, exGrid_Incr _⟩

/-! ## range_to_step -/

/-- `range_to_step`: a positive step that never exceeds the range (`CELER_ENSURE` of the code),
    for `min_range > 0` and `0 < max_step_over_range ≤ 1` -/
theorem rangeToStep_bounds (rho alpha range : ℝ) (hrho : 0 < rho) (ha0 : 0 < alpha)
    (ha1 : alpha ≤ 1) (hr : 0 < range) :
    0 < rangeToStep rho alpha range ∧ rangeToStep rho alpha range ≤ range := by
  rw [rangeToStep_real]
  split
  · exact ⟨hr, le_refl _⟩
  · rename_i hge
    have hge' : rho * (1 + 1e-6) ≤ range := not_lt.mp hge
    have hrr : rho < range := by
      have : rho < rho * (1 + 1e-6) := by
        have : (0 : ℝ) < 1e-6 := by norm_num
        nlinarith
      linarith
    have hq : rho / range < 1 := by rw [div_lt_one hr]; exact hrr
    have hq0 : 0 < rho / range := div_pos hrho hr
    constructor
    · have : 0 ≤ rho * (1 - alpha) * (2 - rho / range) :=
        mul_nonneg (mul_nonneg (le_of_lt hrho) (by linarith)) (by linarith)
      have := mul_pos ha0 hr
      linarith
    · have key : range - (alpha * range + rho * (1 - alpha) * (2 - rho / range))
          = (1 - alpha) * ((range - rho) * (range - rho) / range) := by
        field_simp; ring
      have : 0 ≤ (1 - alpha) * ((range - rho) * (range - rho) / range) :=
        mul_nonneg (by linarith) (div_nonneg (mul_self_nonneg _) (le_of_lt hr))
      linarith

/-! ## Urban MSC: true path ↔ geometrical path -/

/-- ★ converting a true path to a geometrical path never lengthens it (every exit of
    `MscStepToGeo::operator()`; any `expm1`, any tables) -/
theorem geom_le_true (expm1 : ℝ → ℝ) (rng mxs : XsGrid ℝ) (emass E lam range t : ℝ)
    (res : GeoResult ℝ)
    (h : mscStepToGeo floorIdx expm1 rng mxs emass E lam range t = some res) : res.step ≤ t :=
  mscStepToGeo_le expm1 rng mxs emass E lam range t res h

/-- the small-step exits (`t < min_step` or `t < 0.05·range`) are defined, use
    `alpha = small_step_alpha() = 0`, and give a non-negative geometrical path equal to `t`
    resp. `λ(1 − exp(−t/λ))` (the final `min` is inert); `expm1 x = exp x − 1` is the contract
    of the libm oracle input -/
theorem geom_small_step (expm1 : ℝ → ℝ) (hex : ∀ x, expm1 x = Real.exp x - 1)
    (rng mxs : XsGrid ℝ) (emass E lam range t : ℝ) (hlam : 0 < lam) (ht : 0 ≤ t)
    (hsmall : t < range * mscDtrl) :
    ∃ res, mscStepToGeo floorIdx expm1 rng mxs emass E lam range t = some res ∧
      res.alpha = 0 ∧ 0 ≤ res.step ∧
      (res.step = t ∨ res.step = lam * (1 - Real.exp (-t / lam))) :=
  mscStepToGeo_small expm1 hex rng mxs emass E lam range t hlam ht hsmall

example : ∃ expm1 : ℝ → ℝ, ∀ x, expm1 x = Real.exp x - 1 := ⟨fun x => Real.exp x - 1, fun _ => rfl⟩

/-- ★ converting back returns a value between the geometrical and the original true path
    (precondition of the code: `gstep ≤ true_step`) -/
theorem fromGeo_between (log1p : ℝ → ℝ) (trueStep alpha range lam g : ℝ) (h : g ≤ trueStep) :
    g ≤ mscStepFromGeo log1p trueStep alpha range lam g
      ∧ mscStepFromGeo log1p trueStep alpha range lam g ≤ trueStep :=
  mscStepFromGeo_between log1p trueStep alpha range lam g h

/-- ★ every exit of `MscStepToGeo::operator()` — tiny step, constant cross section, the
    range-limited / low-energy form of Eq. 8.10 and the general Eq. 8.10 with the end-point
    energy from the inverse range and the MSC cross-section table — is defined (no
    out-of-table read) and gives `0 ≤ geom ≤ true` -/
theorem geom_nonneg (expm1 : ℝ → ℝ) (hex : ∀ x, expm1 x = Real.exp x - 1)
    (rng mxs : XsGrid ℝ) (wr : rng.WF) (hpr : rng.Pos) (hir : rng.Incr) (wm : mxs.WF)
    (hpm : mxs.Pos) (emass E lam range t : ℝ) (hlam : 0 < lam) (hrange : 0 < range)
    (ht0 : 0 ≤ t) (ht : t ≤ range) :
    ∃ res, mscStepToGeo floorIdx expm1 rng mxs emass E lam range t = some res ∧
      0 ≤ res.step ∧ res.step ≤ t :=
  mscStepToGeo_nonneg expm1 hex rng mxs wr hpr hir wm hpm emass E lam range t hlam hrange ht0 ht

example : (exGrid noScaling).WF ∧ (exGrid noScaling).Incr ∧ (exGrid 1).WF ∧ (exGrid 1).Pos :=
  ⟨exGrid_WF _, exGrid_Incr _, exGrid_WF _, exGrid_Pos _⟩

/-- closed form of Eq. 8.10 (`geoFromSlope`) for a positive MFP slope `s`:
    `(1 − s^w)/(α w)`, `w = 1 + 1/(α λ)`; and its sign: non-negative whenever `α` and `log s`
    have opposite signs (which is the case on both Eq. 8.10 exits) -/
theorem geom_eq8_10 (lam alpha s : ℝ) (hs : 0 < s) :
    geoFromSlope lam alpha s
        = (1 - s ^ (1 + 1 / (alpha * lam))) / (alpha * (1 + 1 / (alpha * lam))) ∧
      (alpha * Real.log s ≤ 0 → 0 ≤ geoFromSlope lam alpha s) :=
  ⟨geoFromSlope_rpow lam alpha s hs, geoFromSlope_nonneg lam alpha s⟩

/-- the range-limited / low-energy exit in closed form for `t < range`:
    `alpha = 1/range`, `geom = (1 − (1 − t/range)^(1 + range/λ)) / ((1/range)(1 + range/λ))`,
    the final `min(·, t)` being inert (Bernoulli's inequality).  At `t = range` the ℝ reading of
    `fastpow(0, w) = exp(w·log 0)` differs from IEEE (`log 0 = −∞`), hence `t < range`. -/
theorem geom_low_energy (expm1 : ℝ → ℝ) (rng mxs : XsGrid ℝ) (emass E lam range t : ℝ)
    (hlam : 0 < lam) (hrange : 0 < range) (hmin : mscMinStep ≤ t)
    (hbig : range * mscDtrl ≤ t) (ht : t < range) (hE : E < emass) :
    mscStepToGeo floorIdx expm1 rng mxs emass E lam range t
      = some ⟨(1 - (1 - t / range) ^ (1 + range / lam)) / (1 / range * (1 + range / lam)),
              1 / range⟩ :=
  mscStepToGeo_lowEnergy expm1 rng mxs emass E lam range t hlam hrange hmin hbig ht hE

/-- ★ the round trip as ONE statement over the case split the code makes: whichever exit
    `MscStepToGeo` takes, feeding its geometrical path and its `alpha` back into
    `MscStepFromGeo` returns a true path between that geometrical path and the original one -/
theorem msc_roundtrip_between (expm1 log1p : ℝ → ℝ) (rng mxs : XsGrid ℝ)
    (emass E lam range t : ℝ) (res : GeoResult ℝ)
    (h : mscStepToGeo floorIdx expm1 rng mxs emass E lam range t = some res) :
    res.step ≤ mscStepFromGeo log1p t res.alpha range lam res.step ∧
      mscStepFromGeo log1p t res.alpha range lam res.step ≤ t :=
  Calc.msc_roundtrip_between' expm1 log1p rng mxs emass E lam range t res h

/-- … and it is exact (returns the original true path) on the small-step exit and on the
    range-limited / low-energy exit, provided the geometrical path is not below `min_step`
    (below it `MscStepFromGeo` returns the geometrical path unchanged) -/
theorem msc_roundtrip_exact (log1p : ℝ → ℝ) (hl : ∀ x, log1p x = Real.log (1 + x))
    (lam range t : ℝ) (hlam : 0 < lam) (hrange : 0 < range) (ht0 : 0 ≤ t) (ht : t < range) :
    (mscMinStep ≤ lam * (1 - Real.exp (-t / lam)) →
      mscStepFromGeo log1p t 0 range lam (lam * (1 - Real.exp (-t / lam))) = t) ∧
    (mscMinStep ≤ geoFromSlope lam (1 / range) (1 - 1 / range * t) →
      mscStepFromGeo log1p t (1 / range) range lam
        (geoFromSlope lam (1 / range) (1 - 1 / range * t)) = t) :=
  ⟨msc_roundtrip_small log1p hl lam range t hlam,
   msc_roundtrip_lowEnergy log1p lam range t hlam hrange ht0 ht⟩

example : ∃ log1p : ℝ → ℝ, ∀ x, log1p x = Real.log (1 + x) :=
  ⟨fun x => Real.log (1 + x), fun _ => rfl⟩

/-! ## The interpolation formula in floating point

`xs_between_neighbours`, `generic_between_neighbours`, `xs_pos` are exact at ℝ.  In binary64
the formula as written (`slope = (yr − yl)/(xr − xl)`, `fma(slope, x − xl, yl)`) is only within
`C·u·max|y|` of that interpolant, which is far more than an ulp of the SMALLER knot when the
two knot values of a bin differ by many orders of magnitude: the Float result can then leave
the interval of the two knots, and even be negative (known findings
`interp-cancellation-beyond-neighbour[:negative]`, `interp-bin-edge-extrapolation[:negative]`;
tools/checks/c14.py compares every sampled value of the real code with the exact rational
interpolant of the chosen bin and holds it to `8·eps·max|y|`).  `B64` is the bit-level binary64
model of Model/CalcBits.lean (kernel-evaluable, checked against the hardware on every run). -/

/-- kernel-checked binary64 witness (corpus/C14/interp_cancellation_generic.ops): with
    `xl < x < xr` and `yr < yl` the real `LinearInterpolator` returns a value strictly BELOW the
    smaller knot value `yr` -/
theorem interp_float_undershoots :
    Num.lt witXl witX = true ∧ Num.lt witX witXr = true ∧ Num.lt witYr witYl = true ∧
      Num.lt (lerp witXl witYl witXr witYr witX) witYr = true :=
  lerp_float_undershoots

/-- kernel-checked binary64 witness (corpus/C14/interp_negative_xs.ops): evaluated two ulp left
    of its bin — where the rounded log-space bin search of `XsCalculator` puts this energy —
    the interpolator returns a NEGATIVE value from two positive knot values -/
theorem interp_float_negative :
    Num.lt (Num.ofNat 0) negYl = true ∧ Num.lt negYl negYr = true ∧
      (lerp negXl negYl negXr negYr negX).bits = 0xbc863769c4281a67 ∧
      Num.lt (lerp negXl negYl negXr negYr negX) (Num.ofNat 0) = true :=
  lerp_float_negative

/-- ★ what IS true in floating point — the standard model (`fl(a ∘ b) = (a ∘ b)(1 + δ)`,
    `|δ| ≤ u`, one rounding for `std::fma`; binary64: `u = 2⁻⁵³`, absent under/overflow): for a
    point inside the bin and knot values in `[0, M]` the value computed by
    `a = fl(yr − yl), b = fl(xr − xl), s = fl(a/b), d = fl(x − xl), r = fl(s·d + yl)`
    is within `8·u·M` of the exact interpolant.  (The rounding facts `δᵢ` themselves are the
    IEEE-754 hypotheses; they are not derived from the bit-level model.) -/
theorem interp_error_bound_standard_model (xl yl xr yr x M u d1 d2 d3 d4 d5 : ℝ) (hu0 : 0 ≤ u)
    (hu : u ≤ 1 / 16) (h1 : |d1| ≤ u) (h2 : |d2| ≤ u) (h3 : |d3| ≤ u) (h4 : |d4| ≤ u)
    (h5 : |d5| ≤ u) (hlt : xl < xr) (hx1 : xl ≤ x) (hx2 : x ≤ xr) (hyl0 : 0 ≤ yl) (hyl : yl ≤ M)
    (hyr0 : 0 ≤ yr) (hyr : yr ≤ M) :
    |((yr - yl) * (1 + d1) / ((xr - xl) * (1 + d2)) * (1 + d3) * ((x - xl) * (1 + d4)) + yl)
        * (1 + d5) - lerp xl yl xr yr x| ≤ 8 * u * M :=
  interp_error_bound xl yl xr yr x M u d1 d2 d3 d4 d5 hu0 hu h1 h2 h3 h4 h5 hlt hx1 hx2 hyl0 hyl
    hyr0 hyr

example : (0 : ℝ) ≤ 2⁻¹ ^ 53 ∧ (2⁻¹ : ℝ) ^ 53 ≤ 1 / 16 := by
  constructor
  · positivity
  · norm_num

end CelerVerif.Calc
