/-
C10 — CSG logic rewriting and encoding preserve the region's boolean function.
Property theorems only (helper lemmas live in Lemmas/Csg*.lean).
-/
import CelerVerif.Model.Csg
import CelerVerif.Model.CsgLogic

namespace CelerVerif.Csg
open CelerVerif.Generated.Csg

/-- the regenerated token values are pairwise distinct operator tokens, node 0/1 are the
    constants the model hard-codes -/
theorem tokens_consistent :
    trueId = 0 ∧ falseId = 1 ∧ lbegin ≤ ltrue ∧ lbegin ≤ lor ∧ lbegin ≤ land ∧ lbegin ≤ lnot ∧
    ltrue ≠ lor ∧ ltrue ≠ land ∧ ltrue ≠ lnot ∧ lor ≠ land ∧ lor ≠ lnot ∧ land ≠ lnot ∧
    maxStackDepth = wordBits := by decide

end CelerVerif.Csg
