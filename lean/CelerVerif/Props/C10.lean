/-
C10 — CSG logic rewriting and encoding preserve the region's boolean function.
Property theorems only (helper lemmas live in Lemmas/Csg*.lean).

Model: Model/Csg.lean, CsgLogic.lean, CsgDeMorgan.lean (hand-written, tied to the C++ by the
correspondence harness harness/csg.cc) + Generated/CsgConsts.lean (token values, stack width,
replacer lattice order regenerated from the source).

Vocabulary (Lemmas/CsgBasic.lean, CsgInv.lean):
* `denote t σ n`   boolean value of node `n` under the surface senses `σ`;
* `Models t σ v`   `v` satisfies the defining equation of every node (on a sorted tree the only
                   such `v` is `denote t σ`: `models_unique`); statements about `Models` do not
                   need the topological order and therefore hold for EVERY reachable tree;
* `Good t σ v`     `Struct t` (node 0 = true, node 1 = ¬true, child ids and dedup ids in range)
                   ∧ `Models t σ v` ∧ `MapSound t σ v` (every dedup-map key evaluates like the
                   id it maps to);
* `TreeInv t`      `Struct t` ∧ `Sorted t` (children < own id) ∧ dedup map sound for `denote`.
-/
import CelerVerif.Lemmas.CsgInv
import CelerVerif.Lemmas.CsgPostfix
import CelerVerif.Lemmas.CsgFlag
import CelerVerif.Lemmas.CsgBitStack
import CelerVerif.Lemmas.CsgExamples
import CelerVerif.Lemmas.CsgDeMorganD
import CelerVerif.Lemmas.CsgReach
import CelerVerif.Lemmas.CsgDeMorganF
import CelerVerif.Lemmas.CsgInfix
import CelerVerif.Lemmas.CsgRuntime

namespace CelerVerif.Csg
open CelerVerif.Generated.Csg

/-- the regenerated token values are pairwise distinct operator tokens, node 0/1 are the
    constants the model hard-codes, the stack is one machine word -/
theorem tokens_consistent :
    trueId = 0 ∧ falseId = 1 ∧ lbegin ≤ ltrue ∧ lbegin ≤ lor ∧ lbegin ≤ land ∧ lbegin ≤ lnot ∧
    ltrue ≠ lor ∧ ltrue ≠ land ∧ ltrue ≠ lnot ∧ lor ≠ land ∧ lor ≠ lnot ∧ land ≠ lnot ∧
    maxStackDepth = wordBits ∧ wordBits = 32 ∧
    replUnvisited < replUnknown ∧ replUnknown < replKnownFalse ∧ replKnownFalse < replKnownTrue := by
  decide

/-! ### (a) the 32-bit `LogicStack` refines the list-stack reference -/

/-- ★ (a) for every well-formed postfix logic (the reference run neither underflows nor meets an
    unknown token and ends with one value) whose `calc_max_depth` is at most 32, the evaluator
    as written (shifts and masks on one 32-bit word, no checks) returns the reference value.
    `OrangeParams` validates the stricter `max_logic_depth < 32`. -/
theorem logicStack_refines_reference (l : List Nat) (vals : Nat → Bool) (b : Bool)
    (hwf : evalRef l vals = some b) (hdepth : calcMaxDepth l ≤ 32) : evalBits l vals = b :=
  bitstack_refines l vals b hwf hdepth

/-- `calc_max_depth` (which samples the depth only at binary operators) bounds the stack length
    at every point of a well-formed run, and never returns the invalid sentinel for it -/
theorem calcMaxDepth_bounds_stack (l₁ l₂ : List Nat) (vals : Nat → Bool) (b : Bool)
    (hwf : evalRef (l₁ ++ l₂) vals = some b) :
    (∃ mid, evalRefLoop vals l₁ [] = some mid ∧ evalRefLoop vals l₂ mid = some [b] ∧
      (mid.length : Int) ≤ calcMaxDepth (l₁ ++ l₂)) ∧
    1 ≤ calcMaxDepth (l₁ ++ l₂) ∧ calcMaxDepth (l₁ ++ l₂) ≠ invalidMaxDepth :=
  ⟨mid_le_calcMaxDepth hwf, (peak_le_calcMaxDepth hwf).2.1, (peak_le_calcMaxDepth hwf).2.2⟩

/-- the bound 32 is sharp: a well-formed logic of depth 33 on which the word-sized stack gives
    the wrong answer -/
theorem logicStack_wrong_at_depth_33 :
    evalRef deep33 (fun _ => true) = some true ∧ calcMaxDepth deep33 = 33 ∧
    evalBits deep33 (fun _ => true) = false :=
  ⟨by decide, by decide, evalBits_deep33⟩

example : evalBits deep32 (fun _ => true) = true :=
  logicStack_refines_reference deep32 (fun _ => true) true (by decide) (by decide)

/-! ### (b) postfix encoding -/

/-- ★ (b), order-free form: for every model `v` of the tree, the logic returned by
    `PostfixLogicBuilder` for node `n` — without or with the optional sorted surface mapping
    (`MappingOk`: strictly sorted, contains every surface of the tree, as `UnitProto` passes it) —
    evaluated by the reference evaluator with the sense of face `f` taken from surface
    `faces[f]` (through the mapping: surface `m[faces[f]]`), yields `v n`; and so does the real
    32-bit evaluator when `calc_max_depth ≤ 32`.  (`postfixOf … = some` excludes the inputs on
    which the C++ recursion is undefined: cyclic tree, `False` node, empty join.) -/
theorem postfix_correct_models {t : Tree} {σ v : Nat → Bool} (s : Struct t) (hm : Models t σ v)
    (hsurf : ∀ i k, i < t.size → t.get i = .surface k → k < lbegin)
    (mapping : Option (List Nat)) (hmap : MappingOk t mapping) {n : Nat} (hn : n < t.size)
    {faces lgc : List Nat} (h : postfixOf t mapping n = some (faces, lgc)) :
    evalRef lgc (fun f => mapVals σ mapping (faces.getD f 0)) = some (v n) ∧
    (calcMaxDepth lgc ≤ 32 →
      evalBits lgc (fun f => mapVals σ mapping (faces.getD f 0)) = v n) := by
  have h1 := postfixOf_evalRef s hm hsurf mapping hmap hn h
  exact ⟨h1, fun hd => bitstack_refines _ _ _ h1 hd⟩

/-- ★ (b) on a tree satisfying the invariant: evaluating the emitted postfix logic with senses
    taken through the face map equals `denote` -/
theorem postfix_correct {t : Tree} (inv : TreeInv t)
    (hsurf : ∀ i k, i < t.size → t.get i = .surface k → k < lbegin)
    (mapping : Option (List Nat)) (hmap : MappingOk t mapping) (σ : Nat → Bool) {n : Nat}
    (hn : n < t.size) {faces lgc : List Nat} (h : postfixOf t mapping n = some (faces, lgc)) :
    evalRef lgc (fun f => mapVals σ mapping (faces.getD f 0)) = some (denote t σ n) ∧
    (calcMaxDepth lgc ≤ 32 →
      evalBits lgc (fun f => mapVals σ mapping (faces.getD f 0)) = denote t σ n) :=
  postfix_correct_models inv.struct (denote_models inv.sorted σ) hsurf mapping hmap hn h

/-! ### (c) insert / exchange / simplify -/

/-- ★ (c1) `CsgTree::insert` keeps the invariant, keeps the meaning of every existing node and
    returns an id that denotes the inserted node (preconditions = `IsUserNodeValid`, and the
    node count fits `size_type`) -/
theorem insert_preserves {t : Tree} (inv : TreeInv t) {n : Node}
    (hn : ∀ c ∈ n.children, c < t.size) (hsmall : t.size < invalid) :
    TreeInv (insert t n).1 ∧
    (∀ σ i, i < t.size → denote (insert t n).1 σ i = denote t σ i) ∧
    (∀ σ, denote (insert t n).1 σ (insert t n).2.1 = evalNode σ (denote t σ) n) ∧
    (insert t n).2.1 < (insert t n).1.size :=
  insert_inv inv hn hsmall

/-- ★ (c2), order-free form: `CsgTree::exchange` with a node of equal value (`evalNode σ v n =
    v nodeId`; in `replace_and_simplify` this is "equal under the replaced constant") keeps every
    model of the tree a model, keeps the dedup map sound and keeps the structural invariant.
    Holds for every branch, including the swap with a higher duplicate. -/
theorem exchange_preserves_models {t : Tree} {σ v : Nat → Bool} (g : Good t σ v) {nodeId : Nat}
    {n : Node} (h2 : 2 ≤ nodeId) (hi : nodeId < t.size) (hn : ∀ c ∈ n.children, c < t.size)
    (heq : evalNode σ v n = v nodeId) :
    Good (exchange t nodeId n).1 σ v ∧ (exchange t nodeId n).1.size = t.size ∧
    (exchange t nodeId n).1.volumes = t.volumes :=
  ⟨⟨exchange_struct g.struct h2 hi hn, (exchange_models g.struct g.models g.map hi hn heq).1,
    (exchange_models g.struct g.models g.map hi hn heq).2⟩, exchange_size _ _ _,
    exchange_volumes _ _ _⟩

/-- ★ (c2) `exchange` on a tree satisfying the invariant: when the swap-with-higher-duplicate
    branch is ordered (`SwapSafe`), the invariant (including children < own id) is kept and the
    meaning of every node is unchanged.  `SwapSafe` cannot be dropped: see
    `simplify_node_can_break_order`. -/
theorem exchange_preserves {t : Tree} (inv : TreeInv t) {nodeId : Nat} {n : Node}
    (h2 : 2 ≤ nodeId) (hi : nodeId < t.size) (hn : ∀ c ∈ n.children, c < nodeId)
    (heq : ∀ σ, evalNode σ (denote t σ) n = denote t σ nodeId) (hsafe : SwapSafe t nodeId n) :
    TreeInv (exchange t nodeId n).1 ∧
    ∀ σ i, i < t.size → denote (exchange t nodeId n).1 σ i = denote t σ i := by
  have hn' : ∀ c ∈ n.children, c < t.size := fun c hc => Nat.lt_trans (hn c hc) hi
  have hso := exchange_sorted inv.struct inv.sorted h2 hi hn hsafe
  have hg := fun σ => (exchange_preserves_models (inv.good σ) h2 hi hn' (heq σ)).1
  refine ⟨treeInv_of_good hso (fun σ => ⟨_, hg σ⟩), fun σ i hi' => ?_⟩
  exact (models_unique hso (hg σ).models i (by rw [exchange_size]; exact hi')).symm

/-- ★ (c3) `CsgTree::simplify(NodeId)`, order-free form -/
theorem simplifyNode_preserves_models {t : Tree} {σ v : Nat → Bool} (g : Good t σ v)
    {nodeId : Nat} (h2 : 2 ≤ nodeId) (hi : nodeId < t.size) :
    Good (simplifyAt t nodeId).1 σ v ∧ (simplifyAt t nodeId).1.size = t.size ∧
    (simplifyAt t nodeId).1.volumes = t.volumes :=
  ⟨simplifyAt_good g h2 hi, simplifyAt_size _ _, simplifyAt_volumes _ _⟩

/-- ★ (c3) `CsgTree::simplify(NodeId)` keeps the invariant and every node's meaning when the swap
    branch is ordered -/
theorem simplifyNode_preserves {t : Tree} (inv : TreeInv t) {nodeId : Nat} (h2 : 2 ≤ nodeId)
    (hi : nodeId < t.size) (hsafe : SwapSafe t nodeId (t.get nodeId)) :
    TreeInv (simplifyAt t nodeId).1 ∧
    ∀ σ i, i < t.size → denote (simplifyAt t nodeId).1 σ i = denote t σ i := by
  rw [simplifyAt_fst]
  exact exchange_preserves inv h2 hi (inv.sorted nodeId hi)
    (fun σ => (denote_models inv.sorted σ nodeId hi).symm) hsafe

/-- ★ (c4) whole-tree `simplify(tree, start)` (any number of sweeps, any tree size), order-free
    form: every model stays a model — i.e. the value of every node id (hence of every volume)
    is unchanged for every sense assignment — and size/volumes are untouched.  `some t'` = the
    `while (start)` loop ended within the model's sweep budget. -/
theorem simplifyAll_preserves_models {t t' : Tree} {σ v : Nat → Bool} (g : Good t σ v)
    {start : Nat} (h2 : 2 ≤ start) (h : simplifyAll t start = some t') :
    Good t' σ v ∧ t'.size = t.size ∧ t'.volumes = t.volumes :=
  simplifyAllFuel_good _ t start t' g (Or.inr h2) h

/-- (c4) in terms of `denote`.  PARTIAL: the topological order of the result is a hypothesis
    (`Sorted t'`; checked on every dump by tools/checks/c10.py).  It CANNOT be dropped, not even
    for trees reachable through the production API: `replace_twice_breaks_order` (two
    `replace_and_simplify` calls on an insert-built tree), `simplifyAll_can_break_order`,
    `simplify_node_can_break_order` — the topological order is not an invariant of the code.
    The order-free statements (`simplifyAll_preserves_models`, `reachable_preserves`) hold
    unconditionally: node VALUES are always preserved.  Also NOT proved: termination of the
    sweeps (the model's budget `4·size+16` was never exhausted in > 10^5 whole-tree
    simplifications of the correspondence runs).  A stale-dedup-key invariant would be the
    starting point, but `replace_and_simplify` itself leaves alias chains on reachable trees
    (e.g. `8:>6 6:>1`), so "aliases point at non-alias nodes" is not an invariant either. -/
theorem simplifyAll_preserves_partial {t t' : Tree} (inv : TreeInv t) {start : Nat}
    (h2 : 2 ≤ start) (h : simplifyAll t start = some t') (hso : Sorted t') :
    TreeInv t' ∧ ∀ σ i, i < t.size → denote t' σ i = denote t σ i := by
  have hg := fun σ => simplifyAll_preserves_models (inv.good σ) h2 h
  refine ⟨treeInv_of_good hso (fun σ => ⟨_, (hg σ).1⟩), fun σ i hi => ?_⟩
  exact (models_unique hso (hg σ).1.models i (by rw [(hg σ).2.1]; exact hi)).symm

/-! ### (d) replace_and_simplify -/

/-- ★ (d), order-free form: if node `key` really has the value `value` under `σ` (the assignment
    is consistent with the replaced constant), `replace_and_simplify(tree, key, value)` raises no
    contradiction, and every node keeps its value under `σ` (every model stays a model); the
    replacer's "known" states are true facts (`ReplSound`, Lemmas/CsgReplace.lean). -/
theorem replaceAndSimplify_sound {t : Tree} {σ v : Nat → Bool} (g : Good t σ v) {key : Nat}
    (hkey : key < t.size) (value : Bool) (hk : v key = value) :
    match replaceAndSimplify t key value with
    | .ok t' _ => Good t' σ v ∧ t'.size = t.size ∧ t'.volumes = t.volumes
    | .contradiction _ => False
    | .outOfFuel _ => True :=
  replaceAndSimplify_good g hkey value hk

/-- (d) in terms of `denote`; PARTIAL for the same reason as `simplifyAll_preserves_partial`
    (order of the result is a hypothesis) -/
theorem replaceAndSimplify_denote_partial {t t' : Tree} (inv : TreeInv t) {key : Nat}
    (hkey : key < t.size) (value : Bool) {unk : List Nat}
    (h : replaceAndSimplify t key value = .ok t' unk) (hso : Sorted t') (σ : Nat → Bool)
    (hk : denote t σ key = value) : ∀ i, i < t.size → denote t' σ i = denote t σ i := by
  have := replaceAndSimplify_sound (inv.good σ) hkey value hk
  rw [h] at this
  intro i hi
  exact (models_unique hso this.1.models i (by rw [this.2.1]; exact hi)).symm

/-! ### (e) transform_negated_joins (De Morgan) -/

/-- (e), per-node step: under the id-map invariant (`TrOk`: every translation entry that is set
    points at a node of the new tree with the promised value) the opposite join emitted by
    `build_negated_node` for a join denotes the NEGATION of that join, and the copy of a node with
    translated children (`translateNode`) evaluates like its source. -/
theorem deMorgan_step_sound {t r : Tree} {tr : TrMap} (pre : DMPre t) (hso : Sorted t)
    (htr : ∀ i, TrOk t r (tr i) i) :
    (∀ {op : Op} {ns : List Nat} {node : Node}, (∀ n ∈ ns, n < t.size) →
      buildNegatedNode t tr op ns = .ok node →
      ∀ σ, evalNode σ (denote r σ) node = !evalNode σ (denote t σ) (.joined op ns)) ∧
    (∀ {i : Nat} {node : Node}, translateNode tr (t.get i) = .ok node →
      ∀ σ, evalNode σ (denote r σ) node = evalNode σ (denote t σ) (t.get i)) :=
  ⟨fun hns h => (buildNegatedNode_sound pre hso htr hns h).2.2.2,
   fun h => (translateNode_sound pre htr h).2.1⟩

/-- ★ (e) `transform_negated_joins` on any tree satisfying the tree invariant and the documented
    precondition of `DeMorganSimplifier` (`DMPre`: no alias node, no `False` node, no double
    negation), of any size up to (2^32-3)/3 nodes: whenever the transformation returns a tree
    `t'` (`.ok`), `t'` satisfies the tree invariant, has the same number of volumes, volume `k`
    of `t'` denotes exactly what volume `k` of `t` denotes under EVERY sense assignment, and no
    negation of a join remains (every negation in `t'` points at a surface or at `True`).
    Proof: induction over the node ids in increasing order with the explicit old→new id-map
    invariant `TrOk`/`DMInv`; it does not depend on which nodes the first pass decides to keep.
    That `.ok` is always reached under the precondition is `deMorgan_defined`; both together:
    `deMorgan_total`. -/
theorem deMorgan_preserves {t t' : Tree} (pre : DMPre t) (inv : TreeInv t)
    (hsmall : 3 * t.size + 2 ≤ invalid) (h : transformNegatedJoins t = .ok t') :
    TreeInv t' ∧ t'.volumes.length = t.volumes.length ∧
    (∀ k (hk : k < t.volumes.length) (hk' : k < t'.volumes.length) σ,
      denote t' σ (t'.volumes[k]) = denote t σ (t.volumes[k])) ∧
    (∀ i u, i < t'.size → t'.get i = .negated u → isJoined (t'.get u) = false) := by
  rcases transformNegatedJoins_sound pre inv hsmall h with ⟨h1, h2, h3, h4⟩
  refine ⟨h1, h2, h3, fun i u hi hg => ?_⟩
  have := h4 i u hi hg
  cases hgu : t'.get u <;> rw [hgu] at this <;> first | rfl | exact absurd this (by simp [IsLeaf])

/-- ★ (e) definedness: on every tree satisfying the invariant and the documented precondition
    (volume ids in range = `CELER_EXPECT` of `insert_volume`), `transform_negated_joins` returns:
    none of the compiled-out `CELER_ASSERT`s of `DeMorganSimplifier` (null id flowing into
    `insert`, `std::get<Joined>` on a non-join) can fire — this settles the "TODO: is it really
    correct in all cases" of `should_insert_join` for the modelled code.  With
    `deMorgan_preserves` the conclusion is non-vacuous for every such tree (`deMorgan_total`). -/
theorem deMorgan_defined {t : Tree} (pre : DMPre t) (inv : TreeInv t)
    (hvol : ∀ v ∈ t.volumes, v < t.size) (hsmall : 3 * t.size + 2 ≤ invalid) :
    ∃ t', transformNegatedJoins t = .ok t' :=
  transformNegatedJoins_defined pre inv hvol hsmall

/-- ★ (e) total form: the transformed tree exists and preserves every volume -/
theorem deMorgan_total {t : Tree} (pre : DMPre t) (inv : TreeInv t)
    (hvol : ∀ v ∈ t.volumes, v < t.size) (hsmall : 3 * t.size + 2 ≤ invalid) :
    ∃ t', transformNegatedJoins t = .ok t' ∧ TreeInv t' ∧
      t'.volumes.length = t.volumes.length ∧
      (∀ k (hk : k < t.volumes.length) (hk' : k < t'.volumes.length) σ,
        denote t' σ (t'.volumes[k]) = denote t σ (t.volumes[k])) ∧
      (∀ i u, i < t'.size → t'.get i = .negated u → isJoined (t'.get u) = false) := by
  rcases deMorgan_defined pre inv hvol hsmall with ⟨t', h⟩
  exact ⟨t', h, deMorgan_preserves pre inv hsmall h⟩

/-- ★ (e) on trees WITH alias nodes and alias chains of any depth (the model's `dealias` follows
    the whole chain, as `DeMorganSimplifier::dealias` does).  Hypotheses: the tree is structurally
    valid and sorted, has no `False` node and no double negation even through aliases (`DMPreA`),
    volume ids are in range.  Whenever `transform_negated_joins` returns (`.ok`): the new tree
    satisfies the invariant, has the same number of volumes, every volume denotes what it denoted
    (chains resolved), and no negation of a join remains.  Proof: the code reads the tree only
    through `dealias` (since repo commit 9889e64 also in `add_negation_for_operands`), so the run
    equals the run on the resolved tree (`transformNegatedJoins_congr`), to which
    `deMorgan_preserves` applies.  Under the full invariant it always returns
    (`deMorgan_total_alias`); a double negation through an alias (excluded by `DMPreA`) still
    makes the unchanged code fail: `deMorgan_asserts_on_negated_alias_of_negation`. -/
theorem deMorgan_preserves_alias {t t' : Tree} (s : Struct t) (hso : Sorted t) (pre : DMPreA t)
    (hvol : ∀ v ∈ t.volumes, v < t.size) (hsmall : 3 * t.size + 2 ≤ invalid)
    (h : transformNegatedJoins t = .ok t') :
    TreeInv t' ∧ t'.volumes.length = t.volumes.length ∧
    (∀ k (hk : k < t.volumes.length) (hk' : k < t'.volumes.length) σ,
      denote t' σ (t'.volumes[k]) = denote t σ (t.volumes[k])) ∧
    (∀ i u, i < t'.size → t'.get i = .negated u → isJoined (t'.get u) = false) := by
  rcases transformNegatedJoins_sound_alias s hso pre hsmall h hvol with ⟨h1, h2, h3, h4⟩
  refine ⟨h1, h2, h3, fun i u hi hg => ?_⟩
  have := h4 i u hi hg
  cases hgu : t'.get u <;> rw [hgu] at this <;> first | rfl | exact absurd this (by simp [IsLeaf])

/-- ★ (e) total form with alias chains: on every tree satisfying the invariant, without `False`
    nodes and without double negations even through aliases, with volume ids in range,
    `transform_negated_joins` returns and preserves every volume — alias nodes and alias chains of
    any depth, negations of aliases of joins included -/
theorem deMorgan_total_alias {t : Tree} (inv : TreeInv t) (pre : DMPreA t)
    (hvol : ∀ v ∈ t.volumes, v < t.size) (hsmall : 3 * t.size + 2 ≤ invalid) :
    ∃ t', transformNegatedJoins t = .ok t' ∧ TreeInv t' ∧
      t'.volumes.length = t.volumes.length ∧
      (∀ k (hk : k < t.volumes.length) (hk' : k < t'.volumes.length) σ,
        denote t' σ (t'.volumes[k]) = denote t σ (t.volumes[k])) ∧
      (∀ i u, i < t'.size → t'.get i = .negated u → isJoined (t'.get u) = false) := by
  rcases transformNegatedJoins_defined_alias inv pre hvol hsmall with ⟨t', h⟩
  exact ⟨t', h, deMorgan_preserves_alias inv.struct inv.sorted pre hvol hsmall h⟩

set_option maxRecDepth 100000 in
/-- regression (repo commit 9889e64, corpus/C10/findings/demorgan-negated-alias-of-join.ops): a
    `Negated` node pointing at an ALIAS of a join (node 7 = ¬6, 6 = alias of 4 = S0 ∧ S1) used
    to make `add_negation_for_operands` throw `std::bad_variant_access`; now the transformation
    returns and the volume still denotes ¬(S0 ∧ S1) -/
theorem deMorgan_handles_negated_alias_of_join :
    negAliasWitness.get 7 = .negated 6 ∧ negAliasWitness.get 6 = .aliased 4 ∧
    ∃ t', transformNegatedJoins negAliasWitness = .ok t' ∧ t'.volumes.length = 1 ∧
      ∀ σ, denote t' σ (t'.volumes.getD 0 0) = !(σ 0 && σ 1) := by
  have hs : Struct negAliasWitness := struct_of_P (by decide)
  have hso : Sorted negAliasWitness := by decide
  have hpre : DMPreA negAliasWitness := dmPreA_of_P hs hso (by decide)
  refine ⟨by decide, by decide, ?_⟩
  cases h : transformNegatedJoins negAliasWitness with
  | error e =>
    have : dmError (transformNegatedJoins negAliasWitness) = none := by decide
    rw [h] at this; cases this
  | ok t' =>
    have hp := deMorgan_preserves_alias hs hso hpre (by decide) (by decide) h
    have hlen : t'.volumes.length = 1 := hp.2.1
    refine ⟨t', rfl, hlen, fun σ => ?_⟩
    have h0 := hp.2.2.1 0 (by decide) (by omega) σ
    have hv : t'.volumes.getD 0 0 = t'.volumes[0]'(by omega) := by
      rw [List.getD_eq_getElem?_getD, List.getElem?_eq_getElem (by omega)]; rfl
    rw [hv, h0]
    have : negAliasWitness.volumes[0]'(by decide) = 7 := by decide
    rw [this]
    have hnodes : negAliasWitness.nodes = [.tru, .negated 0, .surface 0, .surface 1,
        .joined .and [2, 3], .aliased 0, .aliased 4, .negated 6] := by decide
    unfold denote
    rw [hnodes]
    simp only [denoteFuel, evalNode, List.getD_cons_succ, List.getD_cons_zero, List.all_cons,
      List.all_nil, Bool.and_true]

/-- pre-existing behaviour of the unchanged code (corpus/C10/findings/
    demorgan-crash-outside-precondition.ops; the real code crashes): a `Negated` node pointing at
    an alias of a negation: the alias is not copied, its translation stays null and the
    compiled-out assertion lets the null id reach `CsgTree::insert` (`.error "assert"`) -/
theorem deMorgan_asserts_on_negated_alias_of_negation :
    Sorted negAliasNegWitness ∧ negAliasNegWitness.get 3 = .negated 2 ∧
    negAliasNegWitness.get 2 = .aliased 1 ∧
    transformNegatedJoins negAliasNegWitness = .error "assert" := by
  refine ⟨by decide, by decide, by decide, dmError_some (by decide)⟩

/-- the drivers' executable precondition check implies `DMPre` -/
theorem deMorgan_precondition_checked {t : Tree} (h : demorganPrecondition t = true) : DMPre t :=
  dmPre_of_precondition h

/-! ### (f) InternalSurfaceFlagger -/

/-- ★ (f) a node flagged "no internal surfaces" is, in every model of the tree, a constant times
    a conjunction of surface literals — provided no negation points at an alias node -/
theorem flagSimple_sound {t : Tree} (s : Struct t) (hna : NoNegAlias t) {n : Nat}
    (hn : n < t.size) (h : flag t n = some false) : IsConj t n :=
  flagInternal_simple s hna (t.size + 1) (t.size + 1) (Nat.le_refl _) n hn h

/-- (f) for `denote` on a tree satisfying the invariant -/
theorem flagSimple_sound_denote {t : Tree} (inv : TreeInv t) (hna : NoNegAlias t) {n : Nat}
    (hn : n < t.size) (h : flag t n = some false) :
    ∃ (c : Bool) (L : List Lit), ∀ σ, denote t σ n = (c && litsHold σ L) := by
  rcases flagSimple_sound inv.struct hna hn h with ⟨c, L, hc⟩
  exact ⟨c, L, fun σ => hc σ _ (denote_models inv.sorted σ)⟩

/-- ★ (f) with the weaker hypothesis `NoNegAliasJoin`: negations MAY point at alias nodes as long
    as the alias chain does not end in a join.  This covers the trees production code hands to
    the flagger: `replace_and_simplify` leaves constant alias chains under negations (`~6` with
    `6:>1`, see corpus/C10/findings/replace-order.ops and the `na` example in the check), which
    violate `NoNegAlias` but satisfy `NoNegAliasJoin`.  `flag_unsound_with_negated_alias` shows
    that a chain ending in an and-join really breaks soundness. -/
theorem flagSimple_sound_chain {t : Tree} (s : Struct t) (hch : NoNegAliasJoin t) {n : Nat}
    (hn : n < t.size) (h : flag t n = some false) : IsConj t n :=
  (flagInternal_simple_chain s hch (t.size + 1) (t.size + 1) (Nat.le_refl _) n hn h).1

/-! ### the flag the tracker reads (UnitProto → UnitInserter → VolumeView) -/

/-- ★ `runtimeFlag_sound`: for the modelled `UnitInserter::insert_volume` + `process_daughter`
    (flag values and statement texts regenerated / pattern-checked from the source): if the
    (flags, logic) pair handed to `UnitInserter` satisfies "internal_surfaces unset ⇒ the logic is
    a constant times a conjunction of face literals", so does the pair stored in the
    `VolumeRecord` — for any faces (simple or not), with or without the forced-limit replacement
    (whose `nowhere` logic is constant false), with or without a daughter universe.  In
    particular no step clears the `internal_surfaces` bit (`runtimeInternal_eq`). -/
theorem runtimeFlag_sound (inFlags : Nat) (logic : List Nat) (ss ex dau : Bool)
    (hin : runtimeInternalSurfaces inFlags = false → LogicIsConj logic)
    (hout : runtimeInternalSurfaces (runtimeFlags inFlags ss ex dau) = false) :
    LogicIsConj (insertVolumeLogic logic ex) :=
  runtimeFlag_sound_of_input inFlags logic ss ex dau hin hout

/-- ★ the whole chain for volumes built from a CSG tree: flagger answer → `UnitProto::build` flag
    → `UnitInserter` → `VolumeView::internal_surfaces()`.  If the runtime flag is not set, the
    stored postfix logic of the volume is, in every model of the tree, a constant times a
    conjunction of surface literals (an intersection of half-spaces). -/
theorem runtimeFlag_sound_proto {t : Tree} (s : Struct t) (hch : NoNegAliasJoin t)
    (hsurf : ∀ i k, i < t.size → t.get i = .surface k → k < lbegin)
    (mapping : Option (List Nat)) (hmap : MappingOk t mapping) {n : Nat} (hn : n < t.size)
    {faces lgc : List Nat} (hp : postfixOf t mapping n = some (faces, lgc))
    {fl : Bool} (hfl : flag t n = some fl) (ext ss dau : Bool)
    (hout : runtimeInternalSurfaces
      (runtimeFlags (protoVolumeFlags fl ext) ss false dau) = false) :
    ∃ (c : Bool) (L : List Lit), ∀ σ v, Models t σ v →
      evalRef (insertVolumeLogic lgc false) (fun f => mapVals σ mapping (faces.getD f 0))
        = some (c && litsHold σ L) :=
  runtimeFlag_sound_chain s hch hsurf mapping hmap hn hp hfl ext ss dau hout

/-! ### infix encoding and `InfixEvaluator` -/

/-- ★ `InfixEvaluator::operator()` as written (index loop, `par_depth`, `short_circuit` skip,
    depth-0 `break`) computes the value of every expression of the explicit infix grammar
    `E ::= A | A (| A)+ | A (& A)+`, `A ::= face | ~face | * | ( E )` (`IExpr`/`InG`: any nesting
    depth, any arity, one operator kind per parenthesis level). -/
theorem infixEvaluator_correct {nf : Nat} {e : IExpr} (h : IExpr.InG nf e) (vals : Nat → Bool) :
    infixEval (IExpr.encode e) vals = IExpr.value vals e :=
  infixEval_correct h vals

/-- the grammar check used by the drivers before calling the real evaluator (malformed input is
    undefined behaviour there) accepts exactly the encodings of grammar expressions -/
theorem infixWellFormed_exact (l : List Nat) (nf : Nat) :
    infixWellFormed l nf = true ↔ ∃ e : IExpr, IExpr.InG nf e ∧ IExpr.encode e = l :=
  infixWellFormed_iff l nf

/-- ★ infix encoding of a tree node (`infixOf`: the explicit infix notation of InfixEvaluator.hh;
    this code base has no C++ builder for it, the harness uses the same convention): for every
    model `v` of the tree the evaluator as written returns `v n`, and the encoding is in the
    grammar.  `infixOf … = some` holds exactly for nodes without `False`, without negations of
    anything but a surface, and without degenerate joins — i.e. trees as returned by
    `transform_negated_joins`, "negated joins are not supported by InfixEvaluator". -/
theorem infix_correct_models {t : Tree} {σ v : Nat → Bool} (s : Struct t) (hm : Models t σ v)
    {nf : Nat} (hsurf : ∀ i k, i < t.size → t.get i = .surface k → k < lbegin ∧ k < nf)
    {f n : Nat} (hn : n < t.size) {l : List Nat} (h : infixOf t f n = some l) :
    infixEval l σ = v n ∧ infixWellFormed l nf = true :=
  infixOf_correct s hm hsurf hn h

/-- ★ infix evaluation equals `denote` on a tree satisfying the invariant -/
theorem infix_correct {t : Tree} (inv : TreeInv t) {nf : Nat}
    (hsurf : ∀ i k, i < t.size → t.get i = .surface k → k < lbegin ∧ k < nf)
    {f n : Nat} (hn : n < t.size) {l : List Nat} (h : infixOf t f n = some l) (σ : Nat → Bool) :
    infixEval l σ = denote t σ n ∧ infixWellFormed l nf = true :=
  infixOf_denote inv hsurf hn h σ

/-! ### every tree reachable through the production API -/

/-- ★ END-TO-END, no ordering hypothesis.  `Reach t C V M` (Lemmas/CsgReach.lean) is the closure
    of the empty tree under what production code calls — `CsgTree::insert` (any node whose
    children exist), `insert_volume`, `replace_and_simplify` — plus the public whole-tree
    `simplify(tree, start ≥ 2)` and `transform_negated_joins` (on a sorted tree satisfying its
    documented precondition); raw `exchange` and single-node `simplify` are excluded.  `C σ` =
    "σ is consistent with every constant replaced so far", `V σ i` = intended value of node `i`
    (value of the node when it was inserted), `M σ` = values of the volumes when they were
    declared.  For EVERY reachable tree and every admissible `σ`: `V σ` is a model of the tree,
    the dedup map is sound, the structural invariant holds, and every volume still has exactly
    the value it was declared with. -/
theorem reachable_preserves {t : Tree} {C : Sense → Prop} {V : Sense → Nat → Bool}
    {M : Sense → List Bool} (h : Reach t C V M) (σ : Sense) (hc : C σ) :
    Good t σ (V σ) ∧ (∀ x ∈ t.volumes, x < t.size) ∧ t.volumes.map (V σ) = M σ :=
  ⟨(reach_good h σ hc).good, (reach_good h σ hc).volRange, (reach_good h σ hc).volVals⟩

/-- ★ END-TO-END for the runtime encoding: on every reachable tree, the postfix logic that
    `PostfixLogicBuilder` emits for volume `k` (with or without the surface mapping), evaluated
    by the reference evaluator — and by the real 32-bit `LogicStack` evaluator when
    `calc_max_depth ≤ 32` — yields the value volume `k` was declared with, for every sense
    assignment consistent with the replaced constants. -/
theorem reachable_postfix_correct {t : Tree} {C : Sense → Prop} {V : Sense → Nat → Bool}
    {M : Sense → List Bool} (h : Reach t C V M) (σ : Sense) (hc : C σ)
    (hsurf : ∀ i k, i < t.size → t.get i = .surface k → k < lbegin)
    (mapping : Option (List Nat)) (hmap : MappingOk t mapping) {k : Nat}
    (hk : k < t.volumes.length) {faces lgc : List Nat}
    (hp : postfixOf t mapping (t.volumes[k]) = some (faces, lgc)) :
    evalRef lgc (fun f => mapVals σ mapping (faces.getD f 0)) = (M σ)[k]? ∧
    (calcMaxDepth lgc ≤ 32 →
      some (evalBits lgc (fun f => mapVals σ mapping (faces.getD f 0))) = (M σ)[k]?) := by
  have ok := reach_good h σ hc
  have hin : t.volumes[k] < t.size := ok.volRange _ (List.getElem_mem hk)
  have hpc := postfix_correct_models ok.good.struct ok.good.models hsurf mapping hmap hin hp
  have hm : (M σ)[k]? = some (V σ (t.volumes[k])) := by
    rw [← ok.volVals, List.getElem?_map, List.getElem?_eq_getElem hk]; rfl
  rw [hm]
  exact ⟨hpc.1, fun hd => by rw [hpc.2 hd]⟩

/-- END-TO-END for the infix encoding on reachable trees -/
theorem reachable_infix_correct {t : Tree} {C : Sense → Prop} {V : Sense → Nat → Bool}
    {M : Sense → List Bool} (h : Reach t C V M) (σ : Sense) (hc : C σ)
    (hsurf : ∀ i k, i < t.size → t.get i = .surface k → k < lbegin) {k f : Nat}
    (hk : k < t.volumes.length) {l : List Nat} (hp : infixOf t f (t.volumes[k]) = some l) :
    some (infixEval l σ) = (M σ)[k]? := by
  have ok := reach_good h σ hc
  have hin : t.volumes[k] < t.size := ok.volRange _ (List.getElem_mem hk)
  have hm : (M σ)[k]? = some (V σ (t.volumes[k])) := by
    rw [← ok.volVals, List.getElem?_map, List.getElem?_eq_getElem hk]; rfl
  rw [hm, infixOf_eval ok.good.struct ok.good.models hsurf hin hp]

/-! ### counter-examples (model and real code agree; replayed by tools/checks/c10.py) -/

set_option maxRecDepth 100000 in
/-- the topological order ("children < own id", documented in CsgTree.hh) is NOT an invariant of
    trees reachable through the production API: fourteen `insert`s followed by two
    `replace_and_simplify` calls (both succeed) leave node 10 an alias of the HIGHER node 11.
    Mechanism: the first call replaces node 8 by `True` in its final loop (key `S0∨S1 ↦ 8` stays
    current) and node 12 becomes an alias of 11; in the second call node 9 dedups to the
    constant-aliased node 8, node 10 then simplifies (one alias level) to the stale key
    `S2∧S3∧8 ↦ 12` and the swap-with-higher-duplicate branch copies `Aliased{11}` into node 10.
    Node values are preserved (`reachable_preserves`).  Consequently the hypothesis `Sorted t'`
    of `simplifyAll_preserves_partial` / `replaceAndSimplify_denote_partial` cannot be removed
    for reachable trees.  Replay: corpus/C10/findings/replace-order.ops. -/
theorem replace_twice_breaks_order :
    Sorted replaceOrderWitness ∧ replaceOrderStep1.isOk = true ∧ replaceOrderStep2.isOk = true ∧
    replaceOrderStep2.tree.get 10 = .aliased 11 ∧ ¬ Sorted replaceOrderStep2.tree := by
  have h : replaceOrderStep1.isOk = true ∧ replaceOrderStep2.isOk = true ∧
      replaceOrderStep2.tree.get 10 = .aliased 11 ∧ 10 < replaceOrderStep2.tree.size := by decide
  refine ⟨by decide, h.1, h.2.1, h.2.2.1, fun hs => ?_⟩
  have := hs 10 h.2.2.2 11 (by rw [h.2.2.1]; simp [Node.children])
  omega


/-- `SwapSafe` cannot be dropped from `simplifyNode_preserves`: on a tree reached from the empty
    tree through public `CsgTree` calls only (`orderWitness`), `simplify(7)` takes the
    swap-with-higher-duplicate branch of `exchange` and leaves node 7 as an alias of the HIGHER
    node 9 — the documented "topologically sorted" invariant is broken (node values are not:
    `simplifyNode_preserves_models`). -/
theorem simplify_node_can_break_order :
    Sorted orderWitness ∧ ¬ Sorted (simplifyAt orderWitness 7).1 ∧
    (simplifyAt orderWitness 7).1.get 7 = .aliased 9 := by
  refine ⟨by decide, by decide, by decide⟩

/-- whole-tree `simplify(tree, start)` breaks the order as well when nodes BELOW `start` are not
    already simplified (its documentation asks for `start` = lowest replaced node, unchecked):
    on `orderWitness`, `simplify(tree, 7)` terminates and leaves node 7 an alias of node 9.
    Replayed on the real code: corpus/C10/findings/simplify-start-order.ops.  For sweeps that
    start at or below the lowest unsimplified node no violation is known (none in the random
    search); a proof needs the invariant sketched at `simplifyAll_preserves_partial`. -/
theorem simplifyAll_can_break_order :
    Sorted orderWitness ∧
    ∃ t', simplifyAll orderWitness 7 = some t' ∧ ¬ Sorted t' ∧ t'.get 7 = .aliased 9 := by
  refine ⟨by decide, ?_⟩
  cases h : simplifyAll orderWitness 7 with
  | none =>
    have : (simplifyAll orderWitness 7).isSome = true := by decide
    rw [h] at this; cases this
  | some t' =>
    have h1 : ((simplifyAll orderWitness 7).map fun t => decide (Sorted t)) = some false := by
      decide
    have h2 : ((simplifyAll orderWitness 7).map fun t => t.get 7) = some (.aliased 9) := by decide
    rw [h] at h1 h2
    simp only [Option.map_some, Option.some.injEq, decide_eq_false_iff_not] at h1 h2
    exact ⟨t', rfl, h1, h2⟩

/-- ✗ DEFECT WITNESS (real code agrees, corpus/C10/cycle-after-equivalent-exchanges.ops):
    `CsgTree::exchange` with a logically equivalent node can create a cycle.  On
    `cycleWitness` (sorted, reached by six inserts and one equivalent exchange) the call
    `exchange(6, Negated{3})` replaces node 6 = ¬5 by the equivalent ¬3 (5 ≡ S1 = node 3); the
    dedup map still maps the key `Negated{3}` to node 7, which meanwhile is an alias of 6; the
    swap-with-higher-duplicate branch copies that alias into node 6: node 6 = `Aliased{6}`.
    Every recursive evaluator/builder of the real code then recurses forever on node 6, and the
    budgeted `denote` no longer gives ¬S1.  So the hypothesis `SwapSafe` of `exchange_preserves`
    cannot be dropped, and `exchange` does not meet its documented contract. -/
theorem exchange_equivalent_can_create_cycle :
    Sorted cycleWitness ∧
    (∀ σ, evalNode σ (denote cycleWitness σ) (.negated 3) = denote cycleWitness σ 6) ∧
    (∀ σ, denote cycleWitness σ 6 = !σ 1) ∧
    (exchange cycleWitness 6 (.negated 3)).1.get 6 = .aliased 6 ∧
    (∀ σ, denote (exchange cycleWitness 6 (.negated 3)).1 σ 6 = false) := by
  have hnodes : cycleWitness.nodes = [.tru, .negated 0, .surface 2, .surface 1,
      .joined .and [2, 3], .joined .or [3, 4], .negated 5, .aliased 6] := by decide
  have hnodes' : (exchange cycleWitness 6 (.negated 3)).1.nodes = [.tru, .negated 0, .surface 2,
      .surface 1, .joined .and [2, 3], .joined .or [3, 4], .aliased 6, .aliased 6] := by decide
  have h6 : ∀ σ, denote cycleWitness σ 6 = !σ 1 := by
    intro σ
    unfold denote
    rw [hnodes]
    simp only [denoteFuel, evalNode, List.getD_cons_succ, List.getD_cons_zero, List.all_cons,
      List.all_nil, List.any_cons, List.any_nil, Bool.and_true, Bool.or_false]
    cases σ 1 <;> cases σ 2 <;> rfl
  have h3 : ∀ σ, denote cycleWitness σ 3 = σ 1 := by
    intro σ
    unfold denote
    rw [hnodes]
    simp only [denoteFuel, evalNode, List.getD_cons_succ, List.getD_cons_zero]
  refine ⟨by decide, fun σ => ?_, h6, by decide, fun σ => ?_⟩
  · rw [h6]; simp only [evalNode, h3]
  · unfold denote
    rw [hnodes']
    simp only [denoteFuel, evalNode, List.getD_cons_succ, List.getD_cons_zero]

/-- the hypothesis `NoNegAlias` of `flagSimple_sound` cannot be dropped: after the public calls
    `exchange(5, True); simplify(6)` node 7 = `Negated(6)` with 6 = `Aliased(4)`,
    4 = `S0 ∧ S1`, is flagged simple although `¬(S0 ∧ S1)` is not a conjunction of literals -/
theorem flag_unsound_with_negated_alias :
    flag negAliasWitness 7 = some false ∧
    (∀ σ, denote negAliasWitness σ 7 = !(σ 0 && σ 1)) ∧
    ¬ ∃ (c : Bool) (L : List Lit), ∀ σ, denote negAliasWitness σ 7 = (c && litsHold σ L) := by
  have hnodes : negAliasWitness.nodes = [.tru, .negated 0, .surface 0, .surface 1,
      .joined .and [2, 3], .aliased 0, .aliased 4, .negated 6] := by decide
  have hden : ∀ σ, denote negAliasWitness σ 7 = !(σ 0 && σ 1) := by
    intro σ
    unfold denote
    rw [hnodes]
    simp only [denoteFuel, evalNode, List.getD_cons_succ, List.getD_cons_zero, List.all_cons,
      List.all_nil, Bool.and_true]
  refine ⟨by decide, hden, ?_⟩
  rintro ⟨c, L, h⟩
  have hTT := h (fun _ => true)
  have hFT := h (fun s => s != 0)
  have hTF := h (fun s => s != 1)
  rw [hden] at hTT hFT hTF
  simp only [bne_self_eq_false, Bool.false_and, Bool.not_false, Bool.and_self, Bool.not_true,
    show ((0 : Nat) != 1) = true by decide, show ((1 : Nat) != 0) = true by decide,
    Bool.and_false, Bool.true_and] at hTT hFT hTF
  have hc : c = true := by
    cases c with
    | true => rfl
    | false => rw [Bool.false_and] at hFT; cases hFT
  subst hc
  simp only [Bool.true_and] at hTT hFT hTF
  have hall : litsHold (fun _ => true) L = true := by
    unfold litsHold at *
    rw [List.all_eq_true]
    intro p hp
    have h1 := (List.all_eq_true.1 hFT.symm) p hp
    have h2 := (List.all_eq_true.1 hTF.symm) p hp
    by_cases h0 : p.1 = 0
    · simp [h0] at h1 h2; rw [h1] at h2; cases h2
    · by_cases h1' : p.1 = 1
      · simp [h1'] at h1 h2; rw [h1] at h2; cases h2
      · have : (p.1 != 0) = true := by simpa using h0
        simp only [this] at h1
        simpa using h1
  rw [hall] at hTT; cases hTT

/-! ### non-vacuity: the hypotheses of the theorems above are satisfiable -/

/-- the invariant holds for a tree built by `insert` from the empty tree (`ex1`: node 4 =
    S0 ∧ S1); uses `insert_preserves` three times -/
theorem treeInv_ex1 : TreeInv ex1 := by
  have i1 := (insert_preserves empty_inv (n := .surface 0) (by simp [Node.children]) (by decide)).1
  have i2 := (insert_preserves i1 (n := .surface 1) (by simp [Node.children]) (by decide)).1
  exact (insert_preserves i2 (n := .joined .and [2, 3]) (by decide) (by decide)).1

/-- every surface id of `ex1` is below the operator tokens; no negation of an alias -/
theorem ex1_side_conditions :
    (∀ i k, i < ex1.size → ex1.get i = .surface k → k < lbegin) ∧ NoNegAlias ex1 := by
  have hsz : ex1.size = 5 := by decide
  have g0 : ex1.get 0 = .tru := by decide
  have g1 : ex1.get 1 = .negated 0 := by decide
  have g2 : ex1.get 2 = .surface 0 := by decide
  have g3 : ex1.get 3 = .surface 1 := by decide
  have g4 : ex1.get 4 = .joined .and [2, 3] := by decide
  constructor
  · intro i k hi hg
    rw [hsz] at hi
    have : i = 0 ∨ i = 1 ∨ i = 2 ∨ i = 3 ∨ i = 4 := by omega
    rcases this with rfl | rfl | rfl | rfl | rfl
    · rw [g0] at hg; cases hg
    · rw [g1] at hg; cases hg
    · rw [g2] at hg; cases hg; decide
    · rw [g3] at hg; cases hg; decide
    · rw [g4] at hg; cases hg
  · intro i a b hi hg
    rw [hsz] at hi
    have : i = 0 ∨ i = 1 ∨ i = 2 ∨ i = 3 ∨ i = 4 := by omega
    rcases this with rfl | rfl | rfl | rfl | rfl
    · rw [g0] at hg; cases hg
    · rw [g1] at hg; cases hg; rw [g0]; intro h; cases h
    · rw [g2] at hg; cases hg
    · rw [g3] at hg; cases hg
    · rw [g4] at hg; cases hg

-- (b): the emitted logic of node 4 is `0 1 &` with faces [0, 1]; both evaluators give `denote`
example (σ : Nat → Bool) :
    evalBits [0, 1, land] (fun f => σ ([0, 1].getD f 0)) = denote ex1 σ 4 :=
  (postfix_correct treeInv_ex1 ex1_side_conditions.1 none trivial σ (n := 4) (by decide)
    (show postfixOf ex1 none 4 = some ([0, 1], [0, 1, land]) by decide)).2 (by decide)

-- (c3)/(c2): `simplify(4)` on `ex1`; the swap branch is not taken, so `SwapSafe` holds
example : TreeInv (simplifyAt ex1 4).1 ∧
    ∀ σ i, i < ex1.size → denote (simplifyAt ex1 4).1 σ i = denote ex1 σ i :=
  simplifyNode_preserves treeInv_ex1 (by decide) (by decide) (by
    intro other h hlt
    have : ex1.lookup (simplified ex1 (ex1.get 4)) = some 4 := by decide
    rw [this] at h; cases h; omega)

-- (c2), order-free: exchange node 4 of `ex1` with the equal node `S1 ∧ S0`
example (σ : Nat → Bool) :
    Good (exchange ex1 4 (.joined .and [3, 2])).1 σ (denote ex1 σ) :=
  (exchange_preserves_models (treeInv_ex1.good σ) (by decide) (by decide) (by decide) (by
    have h4 := (denote_models treeInv_ex1.sorted σ) 4 (by decide)
    rw [h4, show ex1.get 4 = .joined .and [2, 3] by decide]
    simp [evalNode, Bool.and_comm])).1

-- (c3), (c4) order-free on `ex1`
example (σ : Nat → Bool) : Good (simplifyAt ex1 4).1 σ (denote ex1 σ) :=
  (simplifyNode_preserves_models (treeInv_ex1.good σ) (by decide) (by decide)).1

example : ∃ t', simplifyAll ex1 2 = some t' ∧ ∀ σ, Good t' σ (denote ex1 σ) := by
  cases h : simplifyAll ex1 2 with
  | none =>
    have : (simplifyAll ex1 2).isSome = true := by decide
    rw [h] at this; cases this
  | some t' => exact ⟨t', rfl, fun σ => (simplifyAll_preserves_models (treeInv_ex1.good σ) (by decide) h).1⟩

-- (d): replacing node 4 (= S0 ∧ S1) by `true`, at the all-true assignment (consistent)
example : (match replaceAndSimplify ex1 4 true with
    | .ok t' _ => Good t' (fun _ => true) (denote ex1 (fun _ => true)) ∧ t'.size = ex1.size ∧
        t'.volumes = ex1.volumes
    | .contradiction _ => False
    | .outOfFuel _ => True) :=
  replaceAndSimplify_sound (σ := fun _ => true) (key := 4) (treeInv_ex1.good _) (by decide) true
    (by decide)

example : (match replaceAndSimplify ex1 4 true with | .ok _ _ => true | _ => false) = true := by
  decide

-- reachable trees: S0, S1, S0 ∧ S1 declared as a volume, then S0 replaced by `true`; the
-- all-true assignment is admissible and the volume's declared value there is `true`
example : ∃ t' C V M, Reach t' C V M ∧ C (fun _ => true) ∧ M (fun _ => true) = [true] ∧
    (Good t' (fun _ => true) (V (fun _ => true)) ∧ t'.volumes.map (V (fun _ => true)) = [true]) := by
  have r1 := Reach.insert (.surface 0) Reach.empty (by simp [Node.children]) (by decide)
  have r2 := Reach.insert (.surface 1) r1 (by simp [Node.children]) (by decide)
  have r3 := Reach.insert (.joined .and [2, 3]) r2 (by decide) (by decide)
  have r4 := Reach.volume 4 r3 (by decide)
  cases hr : replaceAndSimplify ((insert (insert (insert Tree.empty (.surface 0)).1
      (.surface 1)).1 (.joined .and [2, 3])).1.insertVolume 4) 2 true with
  | ok t' unk =>
    have r5 := Reach.replace 2 true unk r4 (by decide) hr
    have hc : (fun σ : Sense => (fun _ => True) σ ∧
        (fun σ i => if i = (insert (insert Tree.empty (.surface 0)).1 (.surface 1)).1.size
          then evalNode σ ((fun σ i => if i = (insert Tree.empty (.surface 0)).1.size then
            evalNode σ ((fun σ i => if i = Tree.empty.size then
              evalNode σ ((fun σ => denote Tree.empty σ) σ) (.surface 0)
              else (fun σ => denote Tree.empty σ) σ i) σ) (.surface 1)
            else (fun σ i => if i = Tree.empty.size then
              evalNode σ ((fun σ => denote Tree.empty σ) σ) (.surface 0)
              else (fun σ => denote Tree.empty σ) σ i) σ i) σ) (.joined .and [2, 3])
          else (fun σ i => if i = (insert Tree.empty (.surface 0)).1.size then
            evalNode σ ((fun σ i => if i = Tree.empty.size then
              evalNode σ ((fun σ => denote Tree.empty σ) σ) (.surface 0)
              else (fun σ => denote Tree.empty σ) σ i) σ) (.surface 1)
            else (fun σ i => if i = Tree.empty.size then
              evalNode σ ((fun σ => denote Tree.empty σ) σ) (.surface 0)
              else (fun σ => denote Tree.empty σ) σ i) σ i) σ i) σ 2 = true) (fun _ => true) :=
      ⟨trivial, by decide⟩
    have hp := reachable_preserves r5 (fun _ => true) hc
    refine ⟨t', _, _, _, r5, hc, by decide, hp.1, ?_⟩
    rw [hp.2.2]; decide
  | contradiction t' =>
    have : (replaceAndSimplify ((insert (insert (insert Tree.empty (.surface 0)).1
      (.surface 1)).1 (.joined .and [2, 3])).1.insertVolume 4) 2 true).isOk = true := by decide
    rw [hr] at this; cases this
  | outOfFuel t' =>
    have : (replaceAndSimplify ((insert (insert (insert Tree.empty (.surface 0)).1
      (.surface 1)).1 (.joined .and [2, 3])).1.insertVolume 4) 2 true).isOk = true := by decide
    rw [hr] at this; cases this

-- (e): `ex3` = `ex1` + volume ¬(S0 ∧ S1); the transformation returns `¬S0 ∨ ¬S1`
example : ∃ t', transformNegatedJoins ex3 = .ok t' ∧ t'.volumes.length = 1 ∧
    (∀ σ, denote t' σ (t'.volumes.getD 0 0) = !(σ 0 && σ 1)) := by
  have hinv : TreeInv ex3 := by
    have h := (insert_preserves treeInv_ex1 (n := .negated 4) (by decide) (by decide)).1
    exact treeInv_of_nodes_ids (b := (insert ex1 (.negated 4)).1) rfl rfl h
  have hpre : DMPre ex3 := deMorgan_precondition_checked (by decide)
  cases h : transformNegatedJoins ex3 with
  | error e =>
    have : (match transformNegatedJoins ex3 with | .ok _ => true | .error _ => false) = true := by
      decide
    rw [h] at this; cases this
  | ok t' =>
    have hs := deMorgan_preserves hpre hinv (by decide) h
    have hlen : t'.volumes.length = 1 := hs.2.1
    refine ⟨t', rfl, hlen, fun σ => ?_⟩
    have h0 := hs.2.2.1 0 (by decide) (by omega) σ
    have hv : t'.volumes.getD 0 0 = t'.volumes[0]'(by omega) := by
      rw [List.getD_eq_getElem?_getD, List.getElem?_eq_getElem (by omega)]; rfl
    rw [hv, h0]
    have hnodes : ex3.nodes = [.tru, .negated 0, .surface 0, .surface 1, .joined .and [2, 3],
        .negated 4] := by decide
    have hvol : ex3.volumes[0]'(by decide) = 5 := by decide
    rw [hvol]
    unfold denote
    rw [hnodes]
    simp only [denoteFuel, evalNode, List.getD_cons_succ, List.getD_cons_zero, List.all_cons,
      List.all_nil, Bool.and_true]

-- (e) with an alias chain of depth 2 (8 → 7 → 6) under volume 0: the transformation returns and
-- volume 0 still denotes S0 ∧ S1 on every assignment
set_option maxRecDepth 100000 in
example : ∃ t', transformNegatedJoins aliasChainWitness = .ok t' ∧
    ∀ σ, denote t' σ (t'.volumes.getD 0 0) = denote aliasChainWitness σ 8 := by
  have hs : Struct aliasChainWitness := struct_of_P (by decide)
  have hso : Sorted aliasChainWitness := by decide
  have hpre : DMPreA aliasChainWitness := dmPreA_of_P hs hso (by decide)
  have hch : aliasChainWitness.get 8 = .aliased 7 ∧ aliasChainWitness.get 7 = .aliased 6 := by
    decide
  cases h : transformNegatedJoins aliasChainWitness with
  | error e =>
    have : (match transformNegatedJoins aliasChainWitness with
      | .ok _ => true | .error _ => false) = true := by decide
    rw [h] at this; cases this
  | ok t' =>
    have hp := deMorgan_preserves_alias hs hso hpre (by decide) (by decide) h
    have hlen : t'.volumes.length = 2 := hp.2.1
    refine ⟨t', rfl, fun σ => ?_⟩
    have h0 := hp.2.2.1 0 (by decide) (by omega) σ
    have hv : t'.volumes.getD 0 0 = t'.volumes[0]'(by omega) := by
      rw [List.getD_eq_getElem?_getD, List.getElem?_eq_getElem (by omega)]; rfl
    rw [hv, h0]
    have : aliasChainWitness.volumes[0]'(by decide) = 8 := by decide
    rw [this]

-- (e) definedness on `ex3`
example : ∃ t', transformNegatedJoins ex3 = .ok t' :=
  deMorgan_defined (deMorgan_precondition_checked (by decide))
    (treeInv_of_nodes_ids (b := (insert ex1 (.negated 4)).1) rfl rfl
      (insert_preserves treeInv_ex1 (n := .negated 4) (by decide) (by decide)).1)
    (by decide) (by decide)

-- infix: the two expressions quoted from InfixEvaluator.test.cc are in the grammar
example : infixWellFormed [lopen, lopen, 5, land, lnot, 1, lclose, land, 6, lclose] 10 = true := by
  decide
example : infixEval [lnot, 1, lor, 2, lor, lnot, 3] (fun s => s == 2) = true := by decide
-- infix encoding of node 4 of `ex1` is `( 0 & 1 )` and evaluates to `denote`
example (σ : Nat → Bool) : infixEval [lopen, 0, land, 1, lclose] σ = denote ex1 σ 4 :=
  (infix_correct treeInv_ex1 (nf := 2)
    (fun i k hi hg => ⟨ex1_side_conditions.1 i k hi hg, by
      have hsz : ex1.size = 5 := by decide
      rw [hsz] at hi
      have : i = 0 ∨ i = 1 ∨ i = 2 ∨ i = 3 ∨ i = 4 := by omega
      rcases this with rfl | rfl | rfl | rfl | rfl
      · rw [show ex1.get 0 = .tru by decide] at hg; cases hg
      · rw [show ex1.get 1 = .negated 0 by decide] at hg; cases hg
      · rw [show ex1.get 2 = .surface 0 by decide] at hg; cases hg; decide
      · rw [show ex1.get 3 = .surface 1 by decide] at hg; cases hg; decide
      · rw [show ex1.get 4 = .joined .and [2, 3] by decide] at hg; cases hg⟩)
    (f := 6) (n := 4) (by decide)
    (show infixOf ex1 6 4 = some [lopen, 0, land, 1, lclose] by decide) σ).1

-- (f) chain form: `NoNegAlias` implies the weaker hypothesis
example : IsConj ex1 4 :=
  flagSimple_sound_chain treeInv_ex1.struct
    (noNegAliasJoin_of_noNegAlias ex1_side_conditions.2) (by decide) (by decide)

-- runtime flag: a volume with input flags 0, simple faces and a daughter keeps the bit unset;
-- one with the bit set keeps it set through `process_daughter` (the seeded-defect scenario)
example : runtimeFlags 0 true false true = 12 ∧ runtimeInternalSurfaces 12 = false ∧
    runtimeFlags 1 true false true = 13 ∧ runtimeInternalSurfaces 13 = true := by decide
example : LogicIsConj (insertVolumeLogic [0, 1, lnot, land] false) :=
  runtimeFlag_sound 0 [0, 1, lnot, land] true false true
    (fun _ => ⟨true, [(0, true), (1, false)], fun vals => by
      unfold evalRef
      rw [evalRefLoop_operand _ (by decide), evalRefLoop_operand _ (by decide), evalRefLoop_not,
        evalRefLoop_and]
      simp [evalRefLoop, litsHold]⟩) (by decide)
-- the whole chain on node 4 of `ex1` (flagger says simple)
example : ∃ (c : Bool) (L : List Lit), ∀ σ v, Models ex1 σ v →
    evalRef [0, 1, land] (fun f => σ ([0, 1].getD f 0)) = some (c && litsHold σ L) :=
  runtimeFlag_sound_proto treeInv_ex1.struct (noNegAliasJoin_of_noNegAlias ex1_side_conditions.2)
    ex1_side_conditions.1 none trivial (n := 4) (by decide)
    (show postfixOf ex1 none 4 = some ([0, 1], [0, 1, land]) by decide)
    (show flag ex1 4 = some false by decide) false true true (by decide)

-- (f): node 4 of `ex1` is flagged simple and is the conjunction S0 ∧ S1
example : ∃ (c : Bool) (L : List Lit), ∀ σ, denote ex1 σ 4 = (c && litsHold σ L) :=
  flagSimple_sound_denote treeInv_ex1 ex1_side_conditions.2 (by decide) (by decide)

end CelerVerif.Csg
