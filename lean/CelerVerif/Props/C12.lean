/-
C12 — Surface primitives are self-consistent; transforms preserve their point sets.
Property theorems only (ℝ reading of the `Num`-generic model in Model/Surf.lean, which is run
bit-exactly at `Float` against the real classes by harness/surf.cc).
Helper lemmas: Lemmas/SurfSolver.lean, SurfRay.lean, SurfIsect*.lean, SurfTransform.lean.
-/
import CelerVerif.Lemmas.SurfIsectComplete
import CelerVerif.Lemmas.SurfTransform
import CelerVerif.Lemmas.SurfNormal
import CelerVerif.Lemmas.SurfSimplify

namespace CelerVerif.Surf
open CelerVerif

/-- ★ C12.1 the solver returns exactly the positive roots of a t² + 2 (b/2) t + c -/
theorem solver_roots (a hb c : ℝ) (ha : a ≠ 0) (t : ℝ) :
    Isect2.mem t ((QSolver.mk' a hb).solve c) ↔ (0 < t ∧ a * t * t + 2 * hb * t + c = 0) :=
  ⟨solver_sound_scaled a hb c t ha, fun ⟨h1, h2⟩ => solver_complete_scaled a hb c t ha h1 h2⟩

/-- … the nearer one first -/
theorem solver_sorted (a hb c t0 t1 : ℝ)
    (h : (QSolver.mk' a hb).solve c = (some t0, some t1)) : t0 < t1 :=
  solve_sorted _ _ _ _ h

/-- ★ C12.2 the sense is the sign of the surface function -/
theorem sense_eq_sign (s : Surface ℝ) (pos : Vec3 ℝ) :
    (s.calcSense pos = .inside ↔ s.quadric pos < 0) ∧
    (s.calcSense pos = .on ↔ s.quadric pos = 0) ∧
    (s.calcSense pos = .outside ↔ 0 < s.quadric pos) := by
  unfold Surface.calcSense realToSense
  generalize s.quadric pos = q
  simp only []
  split
  · next h1 h2 =>
    have h1' : 0 < q := by
      by_contra hh; rw [Bool.not_eq_true', Bool.eq_false_iff] at h1
      apply h1; num_simp; exact not_lt.mp hh
    simp only [reduceCtorEq, false_iff, true_iff, not_lt]
    exact ⟨le_of_lt h1', ne_of_gt h1', h1'⟩
  · next h1 h2 =>
    num_simp at h1 h2
    simp only [reduceCtorEq, false_iff, true_iff, not_lt]
    exact ⟨h2, ne_of_lt h2, le_of_lt h2⟩
  · next hn1 hn2 =>
    simp only [reduceCtorEq, false_iff, true_iff, not_lt]
    have key : q = 0 := by
      by_contra hne
      rcases lt_or_gt_of_ne hne with h | h
      · apply hn2
        · simp only [Bool.not_eq_false']; num_simp; exact le_of_lt h
        · num_simp; exact h
      · apply hn1
        · simp only [Bool.not_eq_true']; rw [Bool.eq_false_iff]; intro h'; num_simp at h'; linarith
        · rw [Bool.eq_false_iff]; intro h'; num_simp at h'; linarith
    exact ⟨by rw [key], key, by rw [key]⟩

/-- the surface function along a ray is the quadratic `A t² + 2 B t + C` -/
theorem ray_polynomial (s : Surface ℝ) (pos dir : Vec3 ℝ) (t : ℝ) :
    s.quadric (along pos dir t) = s.rayPoly pos dir t := quadric_along s pos dir t

/-- ★ C12.3 every reported intersection distance is non-negative (positive whenever the start
    point is not exactly on the surface) and the point at that distance lies on the surface.
    Hypotheses: unit direction (the code takes a = 1 for spheres and 1 − ω_t² for cylinders),
    and the leading coefficient is exactly 0 or at least `min_a` in magnitude (inside the
    tolerance band 0 < |a| < min_a the code deliberately solves the linearised equation). -/
theorem isect_on_surface (s : Surface ℝ) (pos dir : Vec3 ℝ) (hu : unitDir dir)
    (hA : leadOK (s.rayCoeffs pos dir).1)
    (t : ℝ) (h : Isect2.mem t (s.calcIntersections pos dir false)) :
    0 ≤ t ∧ (s.quadric pos ≠ 0 → 0 < t) ∧ s.quadric (along pos dir t) = 0 := by
  rw [quadric_along]
  cases s with
  | planeAligned ax p => have := snd_planeAligned ax p pos dir t h; exact ⟨le_of_lt this.1, fun _ => this.1, this.2⟩
  | plane n d => have := snd_plane n d pos dir t h; exact ⟨le_of_lt this.1, fun _ => this.1, this.2⟩
  | cylCentered ax r2 => have := snd_cylCentered ax r2 pos dir hu t h; exact ⟨le_of_lt this.1, fun _ => this.1, this.2⟩
  | cylAligned ax ou ov r2 => have := snd_cylAligned ax ou ov r2 pos dir hu t h; exact ⟨le_of_lt this.1, fun _ => this.1, this.2⟩
  | sphereCentered r2 => have := snd_sphereCentered r2 pos dir hu t h; exact ⟨le_of_lt this.1, fun _ => this.1, this.2⟩
  | sphere o r2 => have := snd_sphere o r2 pos dir hu t h; exact ⟨le_of_lt this.1, fun _ => this.1, this.2⟩
  | coneAligned ax o tsq => exact snd_coneAligned ax o tsq pos dir hA t h
  | simpleQuadric a b c d e f g => exact snd_simpleQuadric a b c d e f g pos dir hA t h
  | generalQuadric a b c d e f g h' i j => exact snd_generalQuadric a b c d e f g h' i j pos dir hA t h

/-- ★ C12.4 no nearer (indeed no) positive crossing is omitted: every t > 0 with
    f(pos + t·dir) = 0 is among the reported distances, provided the leading coefficient is
    outside the tolerance band (|A| ≥ min_a), or the surface is a plane not parallel to the ray. -/
theorem isect_complete (s : Surface ℝ) (pos dir : Vec3 ℝ) (hu : unitDir dir)
    (hA : minA ≤ |(s.rayCoeffs pos dir).1| ∨ (s.isPlane = true ∧ (s.rayCoeffs pos dir).2.1 ≠ 0))
    (t : ℝ) (ht : 0 < t) (hr : s.quadric (along pos dir t) = 0) :
    Isect2.mem t (s.calcIntersections pos dir false) := by
  rw [quadric_along] at hr
  have hpl : ∀ (s' : Surface ℝ), s'.isPlane = true → ¬ minA ≤ |(s'.rayCoeffs pos dir).1| := by
    intro s' hp
    cases s' <;> simp [Surface.isPlane] at hp <;> simp only [Surface.rayCoeffs, abs_zero] <;>
      exact not_le.mpr minA_pos
  cases s with
  | planeAligned ax p =>
    rcases hA with hA | ⟨_, hB⟩
    · exact absurd hA (hpl _ rfl)
    · exact cmp_planeAligned ax p pos dir t hB ht hr
  | plane n d =>
    rcases hA with hA | ⟨_, hB⟩
    · exact absurd hA (hpl _ rfl)
    · exact cmp_plane n d pos dir t hB ht hr
  | cylCentered ax r2 =>
    rcases hA with hA | ⟨hp, _⟩
    · exact cmp_cylCentered ax r2 pos dir hu hA t ht hr
    · simp [Surface.isPlane] at hp
  | cylAligned ax ou ov r2 =>
    rcases hA with hA | ⟨hp, _⟩
    · exact cmp_cylAligned ax ou ov r2 pos dir hu hA t ht hr
    · simp [Surface.isPlane] at hp
  | sphereCentered r2 => exact cmp_sphereCentered r2 pos dir hu t ht hr
  | sphere o r2 => exact cmp_sphere o r2 pos dir hu t ht hr
  | coneAligned ax o tsq =>
    rcases hA with hA | ⟨hp, _⟩
    · exact cmp_coneAligned ax o tsq pos dir hA t ht hr
    · simp [Surface.isPlane] at hp
  | simpleQuadric a b c d e f g =>
    rcases hA with hA | ⟨hp, _⟩
    · exact cmp_simpleQuadric a b c d e f g pos dir hA t ht hr
    · simp [Surface.isPlane] at hp
  | generalQuadric a b c d e f g h' i j =>
    rcases hA with hA | ⟨hp, _⟩
    · exact cmp_generalQuadric a b c d e f g h' i j pos dir hA t ht hr
    · simp [Surface.isPlane] at hp

/-- ★ C12.5 translating a surface: the surface function (hence the sense) at the translated
    point equals the original's at the original point, for every surface class. -/
theorem sense_translate (s : Surface ℝ) (tra pos : Vec3 ℝ) :
    (s.translate tra).calcSense (translateUp tra pos) = s.calcSense pos := by
  unfold Surface.calcSense; rw [translate_quadric]

/-- ★ C12.6 transform-down is the inverse of transform-up (translations always; rotations
    with orthonormal matrix), and rotations preserve lengths -/
theorem translation_inverse (tra p : Vec3 ℝ) :
    translateDown tra (translateUp tra p) = p ∧ translateUp tra (translateDown tra p) = p :=
  ⟨translate_down_up tra p, translate_up_down tra p⟩

theorem transformation_inverse (t : Transformation ℝ) (hc : t.rot.orthoCols) (hr : t.rot.orthoRows)
    (p : Vec3 ℝ) : t.down (t.up p) = p ∧ t.up (t.down p) = p ∧ t.rotDown (t.rotUp p) = p :=
  ⟨transform_down_up t hc p, transform_up_down t hr p, rotDown_rotUp t hc p⟩

theorem rotation_preserves_norm (t : Transformation ℝ) (hc : t.rot.orthoCols) (d : Vec3 ℝ)
    (hu : unitDir d) : unitDir (t.rotUp d) := by
  unfold unitDir at *; rw [rotUp_norm t hc d]; exact hu

/-- ★ C12.7 the normal is the unit gradient: the vector normalised by `calc_normal` is the
    gradient of the surface function up to the positive factor `gradScale` (so it points to
    the positive-sense side), and the normalised vector has length one wherever the gradient
    does not vanish. Planes return their stored (unit by precondition) normal unchanged. -/
theorem normal_is_unit_gradient (s : Surface ℝ) (pos v : Vec3 ℝ) :
    (2 * (s.rayCoeffs pos v).2.1
        = s.gradScale * ((s.gradient pos).x * v.x + (s.gradient pos).y * v.y
            + (s.gradient pos).z * v.z) ∧ 0 < s.gradScale) ∧
    (s.isPlane = false →
      0 < (s.gradient pos).x * (s.gradient pos).x + (s.gradient pos).y * (s.gradient pos).y
          + (s.gradient pos).z * (s.gradient pos).z →
      unitDir (s.calcNormal pos)) := by
  refine ⟨⟨gradient_is_derivative s pos v, gradScale_pos s⟩, ?_⟩
  intro hp hg
  cases s <;> simp [Surface.isPlane] at hp <;> exact makeUnit_unit _ hg

/-- ★ C12.8 the sense flips across every simple crossing: on both sides of a simple root of
    the ray polynomial, arbitrarily close to it, the surface function has opposite signs -/
theorem sense_flips_across_crossing (s : Surface ℝ) (pos dir : Vec3 ℝ) (t0 : ℝ)
    (hroot : s.quadric (along pos dir t0) = 0)
    (hsimple : 2 * (s.rayCoeffs pos dir).1 * t0 + 2 * (s.rayCoeffs pos dir).2.1 ≠ 0) :
    ∃ δ > 0, ∀ e, 0 < e → e < δ →
      s.quadric (along pos dir (t0 - e)) * s.quadric (along pos dir (t0 + e)) < 0 := by
  simp only [quadric_along] at hroot ⊢
  exact rayPoly_flips s pos dir t0 hroot hsimple

/-! Non-vacuity -/
example : unitDir (⟨1, 0, 0⟩ : Vec3 ℝ) := by unfold unitDir; norm_num
example : leadOK ((Surface.sphere (⟨1, 2, 3⟩ : Vec3 ℝ) 4).rayCoeffs ⟨-5, 2, 3⟩ ⟨1, 0, 0⟩).1 := by
  left; simp only [Surface.rayCoeffs]; rw [minA_real]; norm_num
example : (⟨⟨⟨0, -1, 0⟩, ⟨1, 0, 0⟩, ⟨0, 0, 1⟩⟩, ⟨1, 2, 3⟩⟩ : Transformation ℝ).rot.orthoCols := by
  unfold Mat3.orthoCols; norm_num

end CelerVerif.Surf

/-! ## C12.S simplification
`SurfaceSimplifier` / `RecursiveSimplifier` (model `simplifyStep` / `simplify` in Model/Solids.lean,
tied bit-exactly to the real classes by harness/solids.cc op `simplify`).  Signed surface function
of a literal: `sg sense * s.quadric p` (the literal holds iff it is negative: inside = negative).
Helper lemmas: Lemmas/SurfSimplify.lean. -/

namespace CelerVerif.Solids
open CelerVerif CelerVerif.Surf

/-- ★ C12.S1 every branch of `SurfaceSimplifier` (snaps, plane → axis-aligned, flips with
    `negate_coefficients` + `flip_sense`, GQ → SQ, SQ → plane / sphere / cylinder / cone with their
    normalisation factors, origins and radii): when the quantities the code compares with the
    tolerance are exactly zero / equal (`ExactForm`), the simplified literal's signed surface
    function is a positive multiple of the original's.  0 < tol < 1 is `Tolerance<>`'s invariant. -/
theorem simplifyStep_exact (tol : ℝ) (h0 : 0 < tol) (h1 : tol < 1) (sense : Sense) (s : Surface ℝ)
    (hE : ExactForm tol s) (sense' : Sense) (s' : Surface ℝ)
    (h : simplifyStep tol sense s = some (sense', s')) :
    ∃ lam : ℝ, 0 < lam ∧ ∀ p, sg sense' * s'.quadric p = lam * (sg sense * s.quadric p) :=
  simplifyStep_exact_core tol h0 h1 sense s hE sense' s' h

/-- a literal holds (through the real `calc_sense`) iff its signed surface function is negative -/
theorem literalHolds_signed (sense : Sense) (s : Surface ℝ) (p : Vec3 ℝ) :
    literalHolds sense s p = true ↔ sg sense * s.quadric p < 0 := by
  obtain ⟨h1, h2, h3⟩ := sense_eq_sign s p
  unfold literalHolds
  cases hcs : s.calcSense p <;> cases sense <;> simp only [sg, one_mul, neg_mul,
    Bool.false_eq_true, false_iff, true_iff, not_lt, Left.neg_neg_iff]
  · exact h1.mp hcs
  · exact le_of_lt (h1.mp hcs)
  · exact le_of_eq (h2.mp hcs).symm
  · exact le_of_eq (h2.mp hcs)
  · exact le_of_lt (h3.mp hcs)
  · exact h3.mp hcs

/-- ★ C12.S1' … hence, in exact form, a simplification step preserves the sense of every point:
    the simplified literal holds exactly where the original does, and the point is on the
    simplified surface exactly when it is on the original -/
theorem simplifyStep_exact_sense (tol : ℝ) (h0 : 0 < tol) (h1 : tol < 1) (sense : Sense)
    (s : Surface ℝ) (hE : ExactForm tol s) (sense' : Sense) (s' : Surface ℝ)
    (h : simplifyStep tol sense s = some (sense', s')) (p : Vec3 ℝ) :
    literalHolds sense' s' p = literalHolds sense s p
    ∧ (s'.calcSense p = .on ↔ s.calcSense p = .on) := by
  obtain ⟨lam, hl, he⟩ := simplifyStep_exact tol h0 h1 sense s hE sense' s' h
  constructor
  · rw [Bool.eq_iff_iff, literalHolds_signed, literalHolds_signed, he p]
    constructor
    · intro hh; by_contra hc; exact absurd hh (not_lt.mpr (mul_nonneg hl.le (not_lt.mp hc)))
    · intro hh; exact mul_neg_of_pos_of_neg hl hh
  · rw [(sense_eq_sign s' p).2.1, (sense_eq_sign s p).2.1]
    have hs : ∀ x : Sense, sg x ≠ 0 := by intro x; cases x <;> simp [sg]
    have e := he p
    constructor
    · intro hq; rw [hq, mul_zero] at e
      have := mul_eq_zero.mp e.symm
      rcases this with h' | h'
      · exact absurd h' (ne_of_gt hl)
      · exact (mul_eq_zero.mp h').resolve_left (hs sense)
    · intro hq; rw [hq, mul_zero, mul_zero] at e
      exact (mul_eq_zero.mp e).resolve_left (hs sense')

/-- ★ C12.S2 the snapping branches perturb the surface function by an explicit, bounded amount:
    PlaneAligned → origin (δ = position, |δ| < tol); CylAligned → CylCentered
    (δ = 2 ou u + 2 ov v − (ou² + ov²), |δ| ≤ tol (2 √(u²+v²) + tol)); Sphere → SphereCentered
    (δ = 2 o·p − o·o, |δ| ≤ tol (2 ‖p‖ + tol)); ConeAligned origin snap (origin moves by < tol per
    component, |δ| ≤ |tan²| tol (2|x'| + tol) + tol (2|y'| + tol) + tol (2|z'| + tol), primes relative
    to the snapped origin).  The sense of the literal is unchanged (no flip) in all of them. -/
theorem simplifyStep_perturbation (tol : ℝ) (h0 : 0 ≤ tol) (sense sense' : Sense) (s' : Surface ℝ) :
    (∀ t pos, simplifyStep tol sense (.planeAligned t pos) = some (sense', s') →
      sense' = sense ∧ |pos| < tol ∧
        ∀ p, s'.quadric p - (Surface.planeAligned t pos).quadric p = pos)
    ∧ (∀ t ou ov r2, simplifyStep tol sense (.cylAligned t ou ov r2) = some (sense', s') →
      sense' = sense ∧ ou * ou + ov * ov < tol * tol ∧
        ∀ p : Vec3 ℝ,
          s'.quadric p - (Surface.cylAligned t ou ov r2).quadric p
              = 2 * ou * p.ax t.U + 2 * ov * p.ax t.V - (ou * ou + ov * ov)
          ∧ |s'.quadric p - (Surface.cylAligned t ou ov r2).quadric p|
              ≤ tol * (2 * Real.sqrt (p.ax t.U * p.ax t.U + p.ax t.V * p.ax t.V) + tol))
    ∧ (∀ o r2, simplifyStep tol sense (.sphere o r2) = some (sense', s') →
      sense' = sense ∧ o.x * o.x + o.y * o.y + o.z * o.z < tol * tol ∧
        ∀ p : Vec3 ℝ,
          s'.quadric p - (Surface.sphere o r2).quadric p
              = 2 * o.x * p.x + 2 * o.y * p.y + 2 * o.z * p.z - (o.x * o.x + o.y * o.y + o.z * o.z)
          ∧ |s'.quadric p - (Surface.sphere o r2).quadric p|
              ≤ tol * (2 * Real.sqrt (p.x * p.x + p.y * p.y + p.z * p.z) + tol))
    ∧ (∀ t o tsq, simplifyStep tol sense (.coneAligned t o tsq) = some (sense', s') →
      sense' = sense ∧ ∃ o' : Vec3 ℝ, s' = .coneAligned t o' tsq
        ∧ |o.x - o'.x| ≤ tol ∧ |o.y - o'.y| ≤ tol ∧ |o.z - o'.z| ≤ tol
        ∧ ∀ p : Vec3 ℝ,
          |s'.quadric p - (Surface.coneAligned t o tsq).quadric p|
            ≤ |tsq| * (tol * (2 * |p.ax t - o'.ax t| + tol))
              + tol * (2 * |p.ax t.U - o'.ax t.U| + tol) + tol * (2 * |p.ax t.V - o'.ax t.V| + tol)) :=
  ⟨fun t pos h => perturb_planeAligned tol sense t pos sense' s' h,
   fun t ou ov r2 h => perturb_cylAligned tol h0 sense t ou ov r2 sense' s' h,
   fun o r2 h => perturb_sphere tol h0 sense o r2 sense' s' h,
   fun t o tsq h => perturb_coneAligned tol h0 sense t o tsq sense' s' h⟩

/-- C12.S2 for the general plane, PARTIAL: the two surfaces the snapping branches of
    `operator()(Plane)` construct — displacement snapped to 0 (changes the function by d, and
    |d| < tol in that branch) and ZeroSnapper'ed normal renormalised by nf = 1/‖m‖ (nf times the
    original function perturbed by (n − m)·p, |(n − m)·p| ≤ tol (|x| + |y| + |z|)).
    MISSING for a full perturbation statement: (i) these two are stated on the constructed surfaces,
    not derived from `simplifyStep … = some …` (the branch selection through `count_signs` is only
    proved in the exact form); (ii) the soft-equal branches SQ → sphere / cylinder / cone
    (a ≈ b within `SoftEqual{tol}`) and SQ → plane / GQ → SQ with non-zero sub-tolerance
    coefficients have no bound: the dropped terms are multiplied by p², so no bound uniform in p
    exists — the coefficients are compared un-normalised with an absolute tolerance (this is the
    root cause of the known findings ellipsoid-simplified-to-cylinder,
    ellipsoid-rotated-cross-terms-dropped, rotated-quadric-cross-terms-dropped). -/
theorem simplifyStep_perturbation_plane_partial (tol : ℝ) (h0 : 0 ≤ tol) (n : Vec3 ℝ) (d nf : ℝ)
    (p : Vec3 ℝ) :
    ((Surface.plane n 0).quadric p - (Surface.plane n d).quadric p = d)
    ∧ ((Surface.plane ⟨zeroSnap tol n.x * nf, zeroSnap tol n.y * nf, zeroSnap tol n.z * nf⟩
          (d * nf)).quadric p
        = nf * ((Surface.plane n d).quadric p
            - ((n.x - zeroSnap tol n.x) * p.x + (n.y - zeroSnap tol n.y) * p.y
                + (n.z - zeroSnap tol n.z) * p.z)))
    ∧ |(n.x - zeroSnap tol n.x) * p.x + (n.y - zeroSnap tol n.y) * p.y + (n.z - zeroSnap tol n.z) * p.z|
        ≤ tol * (|p.x| + |p.y| + |p.z|) :=
  ⟨perturb_plane_d n d p, (perturb_plane_normal tol h0 n d nf p).1,
    (perturb_plane_normal tol h0 n d nf p).2⟩

/-- ★ C12.S3 the recursion: if every intermediate surface is in exact form (`ExactChain`), the
    surface `RecursiveSimplifier` finally hands to its callback is equivalent to the input: its
    signed surface function is a positive multiple of the original's, for any fuel -/
theorem simplify_exact (tol : ℝ) (h0 : 0 < tol) (h1 : tol < 1) (fuel : ℕ) (sense : Sense)
    (s : Surface ℝ) (fs : Sense) (fsurf : Surface ℝ) (hC : ExactChain tol fuel sense s)
    (h : simplify tol fuel sense s = some (fs, fsurf)) :
    ∃ lam : ℝ, 0 < lam ∧ ∀ p, sg fs * fsurf.quadric p = lam * (sg sense * s.quadric p) :=
  simplify_exact_core tol h0 h1 fuel sense s fs fsurf hC h

/-! Non-vacuity: concrete surfaces in exact form that ARE simplified -/
/-- CylAligned on the axis → CylCentered -/
example : ExactForm (1 / 100000) (.cylAligned .z 0 0 4)
    ∧ simplifyStep (1 / 100000 : ℝ) .inside (.cylAligned .z 0 0 4) = some (.inside, .cylCentered .z 4) := by
  constructor
  · intro _; exact ⟨rfl, rfl⟩
  · simp only [simplifyStep]
    rw [if_pos]
    num_simp; norm_num
/-- GeneralQuadric without cross terms → SimpleQuadric -/
example : ExactForm (1 / 100000) (.generalQuadric 1 2 3 0 0 0 1 1 1 (-5))
    ∧ simplifyStep (1 / 100000 : ℝ) .outside (.generalQuadric 1 2 3 0 0 0 1 1 1 (-5))
        = some (.outside, .simpleQuadric 1 2 3 1 1 1 (-5)) := by
  constructor
  · exact ⟨fun _ => rfl, fun _ => rfl, fun _ => rfl⟩
  · simp only [simplifyStep]
    rw [if_pos]
    unfold signsAny
    rw [countSigns_pos, countSigns_neg]
    simp [posC, negC]
/-- a plane with more negative than positive normal components is flipped (no condition) -/
example : simplifyStep (1 / 100000 : ℝ) .inside (.plane ⟨-1, 0, 0⟩ 2)
    = some (.outside, .plane ⟨negate (-1), negate 0, negate 0⟩ (negate 2)) := by
  simp only [simplifyStep]
  rw [if_pos]
  · rfl
  · unfold shouldFlip signsAny
    rw [countSigns_pos, countSigns_neg]
    simp [posC, negC]
    norm_num
/-- the exact chain CylAligned(0,0) → CylCentered → stop -/
example : ExactChain (1 / 100000) 2 .inside (.cylAligned .z 0 0 4) := by
  have hs : simplifyStep (1 / 100000 : ℝ) .inside (.cylAligned .z 0 0 4)
      = some (.inside, .cylCentered .z 4) := by
    simp only [simplifyStep]
    rw [if_pos]
    num_simp; norm_num
  simp only [ExactChain, hs]
  exact ⟨fun _ => ⟨rfl, rfl⟩, by simp [simplifyStep]⟩

end CelerVerif.Solids

