/-
C12 — Surface primitives are self-consistent; transforms preserve their point sets.
Property theorems only (ℝ reading of the `Num`-generic model in Model/Surf.lean, which is run
bit-exactly at `Float` against the real classes by harness/surf.cc).
Helper lemmas: Lemmas/SurfSolver.lean, SurfRay.lean, SurfIsect*.lean, SurfTransform.lean.
-/
import CelerVerif.Lemmas.SurfIsectComplete
import CelerVerif.Lemmas.SurfTransform
import CelerVerif.Lemmas.SurfNormal

namespace CelerVerif.Surf
open CelerVerif

/-- ★ C12.1 the solver returns exactly the positive roots of a t² + 2 (b/2) t + c -/
theorem solver_roots (a hb c : ℝ) (ha : a ≠ 0) (t : ℝ) :
    Isect2.mem t ((QSolver.mk' a hb).solve c) ↔ (0 < t ∧ a * t * t + 2 * hb * t + c = 0) :=
  ⟨solver_sound_scaled a hb c t ha, fun ⟨h1, h2⟩ => solver_complete_scaled a hb c t ha h1 h2⟩

/-- … the nearer one first -/
theorem solver_sorted (a hb c t0 t1 : ℝ)
    (h : (QSolver.mk' a hb).solve c = (some t0, some t1)) : t0 < t1 :=
  solve_sorted _ _ _ _ h

/-- ★ C12.2 the sense is the sign of the surface function -/
theorem sense_eq_sign (s : Surface ℝ) (pos : Vec3 ℝ) :
    (s.calcSense pos = .inside ↔ s.quadric pos < 0) ∧
    (s.calcSense pos = .on ↔ s.quadric pos = 0) ∧
    (s.calcSense pos = .outside ↔ 0 < s.quadric pos) := by
  unfold Surface.calcSense realToSense
  generalize s.quadric pos = q
  simp only []
  split
  · next h1 h2 =>
    have h1' : 0 < q := by
      by_contra hh; rw [Bool.not_eq_true', Bool.eq_false_iff] at h1
      apply h1; num_simp; exact not_lt.mp hh
    simp only [reduceCtorEq, false_iff, true_iff, not_lt]
    exact ⟨le_of_lt h1', ne_of_gt h1', h1'⟩
  · next h1 h2 =>
    num_simp at h1 h2
    simp only [reduceCtorEq, false_iff, true_iff, not_lt]
    exact ⟨h2, ne_of_lt h2, le_of_lt h2⟩
  · next hn1 hn2 =>
    simp only [reduceCtorEq, false_iff, true_iff, not_lt]
    have key : q = 0 := by
      by_contra hne
      rcases lt_or_gt_of_ne hne with h | h
      · apply hn2
        · simp only [Bool.not_eq_false']; num_simp; exact le_of_lt h
        · num_simp; exact h
      · apply hn1
        · simp only [Bool.not_eq_true']; rw [Bool.eq_false_iff]; intro h'; num_simp at h'; linarith
        · rw [Bool.eq_false_iff]; intro h'; num_simp at h'; linarith
    exact ⟨by rw [key], key, by rw [key]⟩

/-- the surface function along a ray is the quadratic `A t² + 2 B t + C` -/
theorem ray_polynomial (s : Surface ℝ) (pos dir : Vec3 ℝ) (t : ℝ) :
    s.quadric (along pos dir t) = s.rayPoly pos dir t := quadric_along s pos dir t

/-- ★ C12.3 every reported intersection distance is non-negative (positive whenever the start
    point is not exactly on the surface) and the point at that distance lies on the surface.
    Hypotheses: unit direction (the code takes a = 1 for spheres and 1 − ω_t² for cylinders),
    and the leading coefficient is exactly 0 or at least `min_a` in magnitude (inside the
    tolerance band 0 < |a| < min_a the code deliberately solves the linearised equation). -/
theorem isect_on_surface (s : Surface ℝ) (pos dir : Vec3 ℝ) (hu : unitDir dir)
    (hA : leadOK (s.rayCoeffs pos dir).1)
    (t : ℝ) (h : Isect2.mem t (s.calcIntersections pos dir false)) :
    0 ≤ t ∧ (s.quadric pos ≠ 0 → 0 < t) ∧ s.quadric (along pos dir t) = 0 := by
  rw [quadric_along]
  cases s with
  | planeAligned ax p => have := snd_planeAligned ax p pos dir t h; exact ⟨le_of_lt this.1, fun _ => this.1, this.2⟩
  | plane n d => have := snd_plane n d pos dir t h; exact ⟨le_of_lt this.1, fun _ => this.1, this.2⟩
  | cylCentered ax r2 => have := snd_cylCentered ax r2 pos dir hu t h; exact ⟨le_of_lt this.1, fun _ => this.1, this.2⟩
  | cylAligned ax ou ov r2 => have := snd_cylAligned ax ou ov r2 pos dir hu t h; exact ⟨le_of_lt this.1, fun _ => this.1, this.2⟩
  | sphereCentered r2 => have := snd_sphereCentered r2 pos dir hu t h; exact ⟨le_of_lt this.1, fun _ => this.1, this.2⟩
  | sphere o r2 => have := snd_sphere o r2 pos dir hu t h; exact ⟨le_of_lt this.1, fun _ => this.1, this.2⟩
  | coneAligned ax o tsq => exact snd_coneAligned ax o tsq pos dir hA t h
  | simpleQuadric a b c d e f g => exact snd_simpleQuadric a b c d e f g pos dir hA t h
  | generalQuadric a b c d e f g h' i j => exact snd_generalQuadric a b c d e f g h' i j pos dir hA t h

/-- ★ C12.4 no nearer (indeed no) positive crossing is omitted: every t > 0 with
    f(pos + t·dir) = 0 is among the reported distances, provided the leading coefficient is
    outside the tolerance band (|A| ≥ min_a), or the surface is a plane not parallel to the ray. -/
theorem isect_complete (s : Surface ℝ) (pos dir : Vec3 ℝ) (hu : unitDir dir)
    (hA : minA ≤ |(s.rayCoeffs pos dir).1| ∨ (s.isPlane = true ∧ (s.rayCoeffs pos dir).2.1 ≠ 0))
    (t : ℝ) (ht : 0 < t) (hr : s.quadric (along pos dir t) = 0) :
    Isect2.mem t (s.calcIntersections pos dir false) := by
  rw [quadric_along] at hr
  have hpl : ∀ (s' : Surface ℝ), s'.isPlane = true → ¬ minA ≤ |(s'.rayCoeffs pos dir).1| := by
    intro s' hp
    cases s' <;> simp [Surface.isPlane] at hp <;> simp only [Surface.rayCoeffs, abs_zero] <;>
      exact not_le.mpr minA_pos
  cases s with
  | planeAligned ax p =>
    rcases hA with hA | ⟨_, hB⟩
    · exact absurd hA (hpl _ rfl)
    · exact cmp_planeAligned ax p pos dir t hB ht hr
  | plane n d =>
    rcases hA with hA | ⟨_, hB⟩
    · exact absurd hA (hpl _ rfl)
    · exact cmp_plane n d pos dir t hB ht hr
  | cylCentered ax r2 =>
    rcases hA with hA | ⟨hp, _⟩
    · exact cmp_cylCentered ax r2 pos dir hu hA t ht hr
    · simp [Surface.isPlane] at hp
  | cylAligned ax ou ov r2 =>
    rcases hA with hA | ⟨hp, _⟩
    · exact cmp_cylAligned ax ou ov r2 pos dir hu hA t ht hr
    · simp [Surface.isPlane] at hp
  | sphereCentered r2 => exact cmp_sphereCentered r2 pos dir hu t ht hr
  | sphere o r2 => exact cmp_sphere o r2 pos dir hu t ht hr
  | coneAligned ax o tsq =>
    rcases hA with hA | ⟨hp, _⟩
    · exact cmp_coneAligned ax o tsq pos dir hA t ht hr
    · simp [Surface.isPlane] at hp
  | simpleQuadric a b c d e f g =>
    rcases hA with hA | ⟨hp, _⟩
    · exact cmp_simpleQuadric a b c d e f g pos dir hA t ht hr
    · simp [Surface.isPlane] at hp
  | generalQuadric a b c d e f g h' i j =>
    rcases hA with hA | ⟨hp, _⟩
    · exact cmp_generalQuadric a b c d e f g h' i j pos dir hA t ht hr
    · simp [Surface.isPlane] at hp

/-- ★ C12.5 translating a surface: the surface function (hence the sense) at the translated
    point equals the original's at the original point, for every surface class. -/
theorem sense_translate (s : Surface ℝ) (tra pos : Vec3 ℝ) :
    (s.translate tra).calcSense (translateUp tra pos) = s.calcSense pos := by
  unfold Surface.calcSense; rw [translate_quadric]

/-- ★ C12.6 transform-down is the inverse of transform-up (translations always; rotations
    with orthonormal matrix), and rotations preserve lengths -/
theorem translation_inverse (tra p : Vec3 ℝ) :
    translateDown tra (translateUp tra p) = p ∧ translateUp tra (translateDown tra p) = p :=
  ⟨translate_down_up tra p, translate_up_down tra p⟩

theorem transformation_inverse (t : Transformation ℝ) (hc : t.rot.orthoCols) (hr : t.rot.orthoRows)
    (p : Vec3 ℝ) : t.down (t.up p) = p ∧ t.up (t.down p) = p ∧ t.rotDown (t.rotUp p) = p :=
  ⟨transform_down_up t hc p, transform_up_down t hr p, rotDown_rotUp t hc p⟩

theorem rotation_preserves_norm (t : Transformation ℝ) (hc : t.rot.orthoCols) (d : Vec3 ℝ)
    (hu : unitDir d) : unitDir (t.rotUp d) := by
  unfold unitDir at *; rw [rotUp_norm t hc d]; exact hu

/-- ★ C12.7 the normal is the unit gradient: the vector normalised by `calc_normal` is the
    gradient of the surface function up to the positive factor `gradScale` (so it points to
    the positive-sense side), and the normalised vector has length one wherever the gradient
    does not vanish. Planes return their stored (unit by precondition) normal unchanged. -/
theorem normal_is_unit_gradient (s : Surface ℝ) (pos v : Vec3 ℝ) :
    (2 * (s.rayCoeffs pos v).2.1
        = s.gradScale * ((s.gradient pos).x * v.x + (s.gradient pos).y * v.y
            + (s.gradient pos).z * v.z) ∧ 0 < s.gradScale) ∧
    (s.isPlane = false →
      0 < (s.gradient pos).x * (s.gradient pos).x + (s.gradient pos).y * (s.gradient pos).y
          + (s.gradient pos).z * (s.gradient pos).z →
      unitDir (s.calcNormal pos)) := by
  refine ⟨⟨gradient_is_derivative s pos v, gradScale_pos s⟩, ?_⟩
  intro hp hg
  cases s <;> simp [Surface.isPlane] at hp <;> exact makeUnit_unit _ hg

/-- ★ C12.8 the sense flips across every simple crossing: on both sides of a simple root of
    the ray polynomial, arbitrarily close to it, the surface function has opposite signs -/
theorem sense_flips_across_crossing (s : Surface ℝ) (pos dir : Vec3 ℝ) (t0 : ℝ)
    (hroot : s.quadric (along pos dir t0) = 0)
    (hsimple : 2 * (s.rayCoeffs pos dir).1 * t0 + 2 * (s.rayCoeffs pos dir).2.1 ≠ 0) :
    ∃ δ > 0, ∀ e, 0 < e → e < δ →
      s.quadric (along pos dir (t0 - e)) * s.quadric (along pos dir (t0 + e)) < 0 := by
  simp only [quadric_along] at hroot ⊢
  exact rayPoly_flips s pos dir t0 hroot hsimple

/-! Non-vacuity -/
example : unitDir (⟨1, 0, 0⟩ : Vec3 ℝ) := by unfold unitDir; norm_num
example : leadOK ((Surface.sphere (⟨1, 2, 3⟩ : Vec3 ℝ) 4).rayCoeffs ⟨-5, 2, 3⟩ ⟨1, 0, 0⟩).1 := by
  left; simp only [Surface.rayCoeffs]; rw [minA_real]; norm_num
example : (⟨⟨⟨0, -1, 0⟩, ⟨1, 0, 0⟩, ⟨0, 0, 1⟩⟩, ⟨1, 2, 3⟩⟩ : Transformation ℝ).rot.orthoCols := by
  unfold Mat3.orthoCols; norm_num

end CelerVerif.Surf
