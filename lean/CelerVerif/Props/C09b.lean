/-
C09 (solid-emission half) — the signed surfaces each `IntersectRegion::build` emits mean the
solid: for every point on none of the emitted surfaces, the point satisfies the solid's
mathematical definition iff it is on the stated side of every emitted surface.
Property theorems only, at ℝ, about the `Num`-generic model Model/Solids.lean (run at `Float`
bit-exactly against the real IntersectRegion::build / IntersectSurfaceBuilder by
harness/solids.cc).  `Holds l p` := ∀ (sense, s) ∈ l, (s.quadric p < 0 ↔ sense = inside);
`OffSurfaces l p` := ∀ (_, s) ∈ l, s.quadric p ≠ 0.
Helper lemmas: Lemmas/Solids.lean, SolidsPrim.lean, SolidsBox.lean, SolidsObj.lean.
-/
import CelerVerif.Lemmas.SolidsZone
import CelerVerif.Lemmas.SurfSoftEq
import CelerVerif.Props.C09

namespace CelerVerif.Solids
open CelerVerif CelerVerif.Surf

/-- the executable evaluation of the emitted literals through each surface's `calc_sense`
    (C12 `sense_eq_sign`) is the sign condition `Holds` -/
theorem evalEmit_eq_holds (l : List (Sense × Surface ℝ)) (p : Vec3 ℝ) (hoff : OffSurfaces l p) :
    evalEmit l p = true ↔ Holds l p := evalEmit_iff l p hoff

/-- ★ box: |x| ≤ hx ∧ |y| ≤ hy ∧ |z| ≤ hz ⇔ the six signed planes -/
theorem emit_sound_box (hw p : Vec3 ℝ) (hoff : OffSurfaces (emitBox hw) p) :
    inBox hw p = true ↔ Holds (emitBox hw) p := emitBox_sound hw p hoff

/-- ★ sphere: x² + y² + z² ≤ r² ⇔ inside the centred sphere surface -/
theorem emit_sound_sphere (r : ℝ) (p : Vec3 ℝ) (hoff : OffSurfaces (emitSphere r) p) :
    inSphere r p = true ↔ Holds (emitSphere r) p := emitSphere_sound r p hoff

/-- ★ cylinder: |z| ≤ hh ∧ x² + y² ≤ r² -/
theorem emit_sound_cylinder (r hh : ℝ) (p : Vec3 ℝ) (hoff : OffSurfaces (emitCyl r hh) p) :
    inCyl r hh p = true ↔ Holds (emitCyl r hh) p := emitCyl_sound r hh p hoff

/-- ★ cone (non-degenerate branch): |z| ≤ hh ∧ x² + y² ≤ R(z)² with the linear radius profile
    R(−hh) = lo, R(hh) = hi.  `0 < hh` is validated by the constructor; `lo ≠ hi` is the
    non-degenerate branch. -/
theorem emit_sound_cone (lo hi hh : ℝ) (hhh : 0 < hh) (hne : lo ≠ hi) (p : Vec3 ℝ)
    (hoff : OffSurfaces (emitConeProper lo hi hh) p) :
    inCone lo hi hh p = true ↔ Holds (emitConeProper lo hi hh) p :=
  emitConeProper_sound lo hi hh hhh hne p hoff

/-- cone, degenerate branch, PARTIAL: for exactly equal radii the emitted mean-radius cylinder
    is the documented solid.  FULL STATEMENT (any radii the code treats as soft-equal,
    |lo − hi| < max(rel·max(lo,hi), rel/100)) is an approximation within tolerance, not an
    equality of point sets. -/
theorem emit_sound_cone_degenerate_partial (tol : Tol ℝ) (lo hh : ℝ) (hhh : 0 < hh)
    (hd : coneDegenerate tol lo lo = true) (p : Vec3 ℝ)
    (hoff : OffSurfaces (emitCone tol lo lo hh) p) :
    inCone lo lo hh p = true ↔ Holds (emitCone tol lo lo hh) p := by
  rw [emitCone_degenerate tol lo lo hh hd] at hoff ⊢
  rw [cone_equal_radii lo hh hhh p]
  exact emitCyl_sound _ hh p hoff

/-- ★ ellipsoid: (x/rx)² + (y/ry)² + (z/rz)² ≤ 1 ⇔ inside the emitted simple quadric
    (radii > 0 validated by the constructor) -/
theorem emit_sound_ellipsoid (r p : Vec3 ℝ) (hx : 0 < r.x) (hy : 0 < r.y) (hz : 0 < r.z)
    (hoff : OffSurfaces (emitEllipsoid r) p) :
    inEllipsoid r p = true ↔ Holds (emitEllipsoid r) p := emitEllipsoid_sound r p hx hy hz hoff

/-- ★ regular prism (any number of sides): |z| ≤ hh and x cos θ_k + y sin θ_k ≤ apothem for every
    face k < n ⇔ the two z planes and the n side planes -/
theorem emit_sound_prism (n : ℕ) (a hh o : ℝ) (p : Vec3 ℝ)
    (hoff : OffSurfaces (emitPrism n a hh o) p) :
    inPrism n a hh o p = true ↔ Holds (emitPrism n a hh o) p := emitPrism_sound n a hh o p hoff

/-- the prism's face offset is the orientation term reduced by whole face steps:
    fmod(3n + 4·orientation, 4) = 3n + 4·orientation − 4m with the result below 4 -/
theorem prism_offset_reduction (n : ℕ) (o : ℝ) (ho : o < 1) :
    (∃ m : ℕ, prismOffset n o = (((n * 3 : ℕ) : ℝ) + 4 * o - 4 * (m : ℝ)) / 4) ∧ prismOffset n o < 1 := by
  unfold prismOffset
  constructor
  · obtain ⟨m, hm⟩ := fmod4_spec (n + 2) ((Num.ofNat (n * 3) : ℝ) + @OfNat.ofNat ℝ 4 (Num.instOfNat 4) * o)
    refine ⟨m, ?_⟩
    rw [hm]; num_simp; simp only [NumR.ofNat_real]
  · have := fmod4_lt (n + 2) ((Num.ofNat (n * 3) : ℝ) + @OfNat.ofNat ℝ 4 (Num.instOfNat 4) * o) (by
      num_simp; simp only [NumR.ofNat_real]; push_cast; nlinarith)
    num_simp
    rw [div_lt_one (by norm_num)]
    exact this

/-- ★ infinite wedge: counter-clockwise of the start direction and clockwise of the end -/
theorem emit_sound_wedge (ss cs se ce : ℝ) (p : Vec3 ℝ)
    (hoff : OffSurfaces (emitWedge ss cs se ce) p) :
    inWedge ss cs se ce p = true ↔ Holds (emitWedge ss cs se ce) p :=
  emitWedge_sound ss cs se ce p hoff

/-- the wedge SPEC contains every point whose azimuth is between σ and σ + ι (ι ≤ π) -/
theorem wedge_contains_sector (σ ι φ ρ z : ℝ) (hρ : 0 ≤ ρ) (h1 : σ ≤ φ) (h2 : φ ≤ σ + ι)
    (hι : ι ≤ Real.pi) :
    inWedge (Real.sin σ) (Real.cos σ) (Real.sin (σ + ι)) (Real.cos (σ + ι))
      ⟨ρ * Real.cos φ, ρ * Real.sin φ, z⟩ = true := wedge_polar σ ι φ ρ z hρ h1 h2 hι

/-- parallelepiped, PARTIAL: sound for α = θ = 0 (the box).  FULL STATEMENT (documented solid
    spanned by (hx,0,0), (hy tan α, hy, 0), (hz tan θ cos φ, hz tan θ sin φ, hz) ⇔ the six emitted
    planes) IS FALSE for the code as written whenever α ≠ 0 — see
    `ppiped_documented_extent_violated`. -/
theorem emit_sound_ppiped_partial (h p : Vec3 ℝ) (hx : 0 < h.x) (hy : 0 < h.y) (hz : 0 < h.z)
    (hoff : OffSurfaces (emitPpiped h 0 1 0 1 0 1) p) :
    inPpiped h 0 1 0 1 0 1 p = true ↔ Holds (emitPpiped h 0 1 0 1 0 1) p :=
  emitPpiped_box_sound h p hx hy hz hoff

/-- ★(negative) parallelepiped with α ≠ 0: a point of the documented solid, on no emitted surface,
    that the emitted surfaces exclude (the y faces are at ±hy cos α instead of ±hy) -/
theorem emit_unsound_ppiped_alpha :
    ∃ p : Vec3 ℝ, inPpiped ⟨1, 1, 1⟩ (3 / 5) (4 / 5) 0 1 0 1 p = true
      ∧ OffSurfaces (emitPpiped ⟨1, 1, 1⟩ (3 / 5 : ℝ) (4 / 5) 0 1 0 1) p
      ∧ ¬ Holds (emitPpiped ⟨1, 1, 1⟩ (3 / 5 : ℝ) (4 / 5) 0 1 0 1) p :=
  ppiped_documented_extent_violated

/-- ★ translating the solid = translating every emitted surface (C12 `sense_translate` /
    `translate_quadric`), for every emission list -/
theorem emit_translate (l : List (Sense × Surface ℝ)) (t p : Vec3 ℝ) :
    (Holds (translateEmit t l) (translateUp t p) ↔ Holds l p)
    ∧ (OffSurfaces (translateEmit t l) (translateUp t p) ↔ OffSurfaces l p) :=
  ⟨holds_translate l t p, offSurfaces_translate l t p⟩

/-- ★ every region whose raw emission is proved sound (`Region.Proved`: all eight classes, the
    cone in its non-degenerate branch, the parallelepiped for α = θ = 0) -/
theorem emit_sound_region_partial (tol : Tol ℝ) (r : Region ℝ) (hp : r.Proved tol) (q : Vec3 ℝ)
    (hoff : OffSurfaces (r.emit tol) q) : r.mem q = true ↔ Holds (r.emit tol) q :=
  region_emit_sound tol r hp q hoff

/-! ### general transformations (rotations, reflections) -/

/-- ★ `SurfaceTransformer`: for a matrix with orthonormal columns (det = ±1: rotations AND
    reflections) and any translation, the transformed surface's defining expression at `R x + t`
    equals the original's at `x` — the code applies no renormalisation, the factor is exactly 1 —
    hence equal sense, for every surface class (planes with the unit normal their constructor
    requires) -/
theorem sense_transform (t : Transformation ℝ) (hc : t.rot.orthoCols) (s : Surface ℝ)
    (hs : s.UnitNormal) (p : Vec3 ℝ) :
    (s.transform t).quadric (t.up p) = s.quadric p
    ∧ (s.transform t).calcSense (t.up p) = s.calcSense p := by
  have h := transform_quadric t hc s hs p
  exact ⟨h, by unfold Surface.calcSense; rw [h]⟩

/-- the 4×4 congruence alone is substitution of the pulled-back point, for ANY matrix -/
theorem general_quadric_congruence (t : Transformation ℝ) (a b c d e f g h i j : ℝ) (p : Vec3 ℝ) :
    (transformGQ t a b c d e f g h i j).quadric p
      = (Surface.generalQuadric a b c d e f g h i j).quadric (t.down p) :=
  transformGQ_quadric t a b c d e f g h i j p

/-- ★ transforming the solid = transforming every emitted surface, for every emission list with
    unit plane normals and every `VariantTransform` (none / translation / orthonormal
    transformation) -/
theorem emit_transform (x : Xform ℝ) (hx : x.Ortho) (l : List (Sense × Surface ℝ))
    (hl : UnitNormals l) (p : Vec3 ℝ) :
    (Holds (xformEmit x l) (x.up p) ↔ Holds l p)
    ∧ (OffSurfaces (xformEmit x l) (x.up p) ↔ OffSurfaces l p) :=
  ⟨holds_xform x hx l hl p, offSurfaces_xform x hx l hl p⟩

/-- nested `Transformed` objects: the composed daughter-to-parent transform acts on points as
    the composition (`TransformTranslator` / `TransformTransformer`; no orthogonality needed) -/
theorem transform_compose (a x : Xform ℝ) (r : Vec3 ℝ) : (a.compose x).up r = a.up (x.up r) :=
  compose_up a x r

/-! ### objects: leaves under transforms, hollow / sliced solids, booleans
`Sound tol acc o q` := evaluating o's emitted CSG tree, built under the accumulated transform
`acc`, at the parent-frame image `acc.up q` of the local point q gives `o.mem q`. -/

/-- ★ a `Shape` under the accumulated transform: the emitted, transformed literals evaluate (with
    the real `calc_sense`) to the membership of the local point -/
theorem sound_shape (tol : Tol ℝ) (r : Region ℝ) (hp : r.Proved tol) (acc : Xform ℝ)
    (hacc : acc.Ortho) (q : Vec3 ℝ) (hoff : OffSurfaces (r.emit tol) q) :
    Sound tol acc (.shape r) q :=
  shape_sound tol r acc hacc q (region_unitNormals tol r hp)
    (fun hq => region_emit_sound tol r hp q hq) hoff

/-- `NegatedObject`: pointwise not -/
theorem sound_negated (tol : Tol ℝ) (acc : Xform ℝ) (o : Obj ℝ) (q : Vec3 ℝ)
    (h : Sound tol acc o q) :
    Sound tol acc (.neg o) q ∧ (Obj.mem (.neg o) q = true ↔ ¬ Obj.mem o q = true) :=
  ⟨sound_neg tol acc o q h, by simp [Obj.mem]⟩

/-- `AllObjects`: pointwise and, given each child's soundness -/
theorem sound_all (tol : Tol ℝ) (acc : Xform ℝ) (os : List (Obj ℝ)) (q : Vec3 ℝ)
    (h : ∀ o ∈ os, Sound tol acc o q) :
    Sound tol acc (.all os) q ∧ (Obj.mem (.all os) q = true ↔ ∀ o ∈ os, o.mem q = true) := by
  refine ⟨?_, ?_⟩
  · unfold Sound; simp only [Obj.eval, Obj.mem]; exact evalAll_eq tol acc os q h
  · simp only [Obj.mem]; exact memAll_iff os _

/-- `AnyObjects`: pointwise or, given each child's soundness -/
theorem sound_any (tol : Tol ℝ) (acc : Xform ℝ) (os : List (Obj ℝ)) (q : Vec3 ℝ)
    (h : ∀ o ∈ os, Sound tol acc o q) :
    Sound tol acc (.any os) q ∧ (Obj.mem (.any os) q = true ↔ ∃ o ∈ os, o.mem q = true) := by
  refine ⟨?_, ?_⟩
  · unfold Sound; simp only [Obj.eval, Obj.mem]; exact evalAny_eq tol acc os q h
  · simp only [Obj.mem]; exact memAny_iff os _

/-- ★ `Transformed` with any `VariantTransform` x (orthonormal when it has a matrix): the
    daughter is built under `acc ∘ x` and contains q iff the original contains `x.down q` -/
theorem sound_transformed (tol : Tol ℝ) (acc x : Xform ℝ) (hx : x.Ortho) (o : Obj ℝ) (q : Vec3 ℝ)
    (h : Sound tol (acc.compose x) o (x.down q)) :
    Sound tol acc (.xformed x o) q ∧ Obj.mem (.xformed x o) q = Obj.mem o (x.down q) :=
  ⟨sound_xformed tol acc x hx o q h, rfl⟩

/-- `make_subtraction(a, b)`: a and not b -/
theorem sound_subtraction (tol : Tol ℝ) (acc : Xform ℝ) (a b : Obj ℝ) (q : Vec3 ℝ)
    (ha : Sound tol acc a q) (hb : Sound tol acc b q) :
    Sound tol acc (Obj.sub a b) q
    ∧ (Obj.mem (Obj.sub a b) q = true ↔ a.mem q = true ∧ ¬ b.mem q = true) := by
  have hnb := sound_neg tol acc b q hb
  refine ⟨?_, ?_⟩
  · unfold Obj.sub
    exact (sound_all tol acc [a, .neg b] q (by
      intro o ho
      simp only [List.mem_cons, List.not_mem_nil, or_false] at ho
      rcases ho with rfl | rfl
      · exact ha
      · exact hnb)).1
  · simp [Obj.sub, Obj.mem, Obj.memAll]

/-- hollow and angularly sliced solids (`SolidBase::build`): interior ∧ ¬excluded ∧ (wedge or
    ¬wedge according to `make_wedge`), given the soundness of each part -/
theorem sound_solid (tol : Tol ℝ) (acc : Xform ℝ) (interior : Region ℝ)
    (excluded : Option (Region ℝ)) (angle : Option (Sense × Region ℝ)) (q : Vec3 ℝ)
    (hi : Sound tol acc (.shape interior) q)
    (he : ∀ e, excluded = some e → Sound tol acc (.shape e) q)
    (ha : ∀ s w, angle = some (s, w) → Sound tol acc (.shape w) q) :
    Sound tol acc (Obj.solid interior excluded angle) q := by
  unfold Obj.solid
  apply (sound_all tol acc _ q _).1
  intro o ho
  simp only [List.mem_append, List.mem_cons, List.not_mem_nil, or_false] at ho
  rcases ho with (rfl | ho) | ho
  · exact hi
  · cases excluded with
    | none => simp at ho
    | some e =>
      simp only [List.mem_cons, List.not_mem_nil, or_false] at ho
      subst ho
      exact sound_neg tol acc _ q (he e rfl)
  · cases angle with
    | none => simp at ho
    | some sw =>
      obtain ⟨s, w⟩ := sw
      cases s with
      | inside =>
        simp only [List.mem_cons, List.not_mem_nil, or_false] at ho
        subst ho
        exact ha _ w rfl
      | outside =>
        simp only [List.mem_cons, List.not_mem_nil, or_false] at ho
        subst ho
        exact sound_neg tol acc _ q (ha _ w rfl)

/-- ★ `PolyCone::or_solid` / `PolyPrism::or_solid` with one segment [zlo, zhi]: the object contains
    p iff the centred solid contains p shifted down by (zhi + zlo)/2 — for zlo + zhi of either sign
    and for zlo + zhi = 0 (the model wraps the solid in a z-translation exactly when dz ≠ 0, as the
    code does) -/
theorem polysolid_single_segment_shift (zlo zhi : ℝ) (mk : ℝ → Region ℝ)
    (mkInner : Option (ℝ → Region ℝ)) (angle : Option (Sense × Region ℝ)) (p : Vec3 ℝ) :
    (Obj.polySingle zlo zhi mk mkInner angle).mem p
      = (Obj.solid (mk ((zhi - zlo) / 2)) (mkInner.map fun f => f ((zhi - zlo) / 2)) angle).mem
          ⟨p.x, p.y, p.z - (zhi + zlo) / 2⟩ :=
  polySingle_mem zlo zhi mk mkInner angle p

/-- a segment of a multi-segment polycone / polyprism (`construct_segments`) is the centred region
    shifted up by the segment's mid-height -/
theorem polysolid_segment_shift (zlo zhi : ℝ) (mk : ℝ → Region ℝ) (p : Vec3 ℝ) :
    (Obj.polySegment zlo zhi mk none).mem p
      = (mk ((zhi - zlo) / 2)).mem ⟨p.x, p.y, p.z - (zlo + zhi) / 2⟩ :=
  polySegment_mem zlo zhi mk p

/-! ### bounding boxes promised by the builds -/

/-- ellipsoid: reported interior ⊆ solid ⊆ reported exterior -/
theorem bbox_sound_ellipsoid (r p : Vec3 ℝ) (hx : 0 < r.x) (hy : 0 < r.y) (hz : 0 < r.z) :
    ((ellipsoidBoxes r).2.contains p = true → inEllipsoid r p = true) ∧
    (inEllipsoid r p = true → (ellipsoidBoxes r).1.contains p = true) :=
  ellipsoidBoxes_sound r p hx hy hz

/-- ★(negative) sphere: the interior box `SurfaceClipper` derives from a sphere (half-width
    (√3/2)·r instead of r/√3) is NOT inside the sphere -/
theorem bbox_interior_unsound_sphere :
    ∃ p : Vec3 ℝ, unitSphereInterior.contains p = true ∧ inSphere 1 p = false :=
  sphere_interior_bbox_unsound

/-- ★(negative) parallelepiped: the promised exterior box ±(a + b + c) does not contain the
    emitted region when b or c has a negative x/y component -/
theorem bbox_exterior_unsound_ppiped :
    ∃ p : Vec3 ℝ, Holds (emitPpiped ⟨1, 1, 1⟩ (-3 / 5) (4 / 5) 0 1 0 1) p
      ∧ (ppipedBox ⟨1, 1, 1⟩ (-3 / 5 : ℝ) (4 / 5) 0 1 0 1).contains p = false :=
  ppiped_exterior_bbox_unsound

/-- ★ cone (non-degenerate branch): reported interior ⊆ cone ⊆ reported exterior -/
theorem bbox_sound_cone (lo hi hh : ℝ) (hlo : 0 ≤ lo) (hhi : 0 ≤ hi) (hhh : 0 < hh) (hne : lo ≠ hi)
    (p : Vec3 ℝ) :
    ((coneBoxes lo hi hh).2.contains p = true → inCone lo hi hh p = true) ∧
    (inCone lo hi hh p = true → (coneBoxes lo hi hh).1.contains p = true) :=
  coneBoxes_sound lo hi hh hlo hhi hhh hne p

/-- ★(negative) prism: the reported interior box (the square of half-width apothem) is NOT inside
    the polygon (4 sides, orientation 1/2).  The exterior box (circumradius) is covered by the
    oracle only: with the code's 21-digit π literal the n face normals do not close up exactly. -/
theorem bbox_interior_unsound_prism :
    ∃ p : Vec3 ℝ, (prismBoxes 4 (1 : ℝ) 1).2.contains p = true ∧ inPrism 4 1 1 (1 / 2) p = false :=
  prism_interior_bbox_unsound

/-- GenPrism / GenTrap, PARTIAL: every planar side face the build emits,
    `Plane{make_unit_vector(v), a}` with v = (jlo − ilo) × (ihi − ilo) and a = ilo (or the hi
    variant for a degenerate lower edge), is the half-space `v·(p − a) < 0` of the plane through the
    face's vertices, up to the positive factor 1/‖v‖.  FULL STATEMENT (the emitted planes and
    twisted quadrics cut out exactly the solid whose cross-section at height z is the polygon
    interpolated between the two end polygons, `inGenPrism`) is carried by the exact emission diff
    and the membership / point-location oracles only. -/
theorem genprism_planar_face_partial (v a p : Vec3 ℝ) (hv : 0 < v.x * v.x + v.y * v.y + v.z * v.z) :
    ∃ s : ℝ, 0 < s ∧
      (Surface.plane (makeUnit v) (Vec3.dot (makeUnit v) a)).quadric p
        = s * (v.x * (p.x - a.x) + v.y * (p.y - a.y) + v.z * (p.z - a.z)) :=
  plane_through_unit v a p hv

/-- ★ GenPrism / GenTrap twisted side faces: the emitted general quadric is exactly minus the
    orientation determinant of p against the edge i → j of the cross-section at height p.z (end
    points interpolated linearly between the −hz and +hz polygons), i.e. the ruled surface; its
    inside sense is "left of the edge" as in the SPEC `inGenPrism` -/
theorem genprism_twisted_face (hz : ℝ) (hhz : 0 < hz) (li lj hi_ hj : P2 ℝ) (p : Vec3 ℝ) :
    (twistedFace hz li lj hi_ hj).quadric p
      = -(((lj.1 + (hj.1 - lj.1) * ((p.z + hz) / (2 * hz))) - (li.1 + (hi_.1 - li.1) * ((p.z + hz) / (2 * hz))))
            * (p.y - (li.2 + (hi_.2 - li.2) * ((p.z + hz) / (2 * hz))))
          - ((lj.2 + (hj.2 - lj.2) * ((p.z + hz) / (2 * hz))) - (li.2 + (hi_.2 - li.2) * ((p.z + hz) / (2 * hz))))
            * (p.x - (li.1 + (hi_.1 - li.1) * ((p.z + hz) / (2 * hz))))) :=
  twistedFace_quadric hz hhz li lj hi_ hj p

/-! ### link to the bounding-zone algebra of Props/C09 (coordinates ℝ ∪ {±∞} = `WithBot (WithTop ℝ)`) -/

section Link
variable [BZone.VolChoice K]

/-- ★ promised boxes that are sound for `BBox.contains` are a `BZone.Sound` zone for the lifted
    region, so `BZone.zoneInter_sound / foldInter_sound / negate_sound / exteriorBBox_sound`
    apply to regions built from the primitives -/
theorem bzone_sound_of_promised_boxes (int ext : BBox ℝ) (hi : int.IsFin) (he : ext.IsNum)
    (S : Vec3 ℝ → Prop) (h1 : ∀ p, int.contains p = true → S p)
    (h2 : ∀ p, S p → ext.contains p = true) :
    BZone.Sound (⟨int.toBox, ext.toBox, false⟩ : BZone.Zone K) (liftRegion S) :=
  zone_sound_of_boxes int ext hi he S h1 h2

omit [BZone.VolChoice K] in
/-- `BBox.contains` over explicit infinities is `BZone.mem` over the bounded order -/
theorem contains_is_bzone_mem (b : BBox ℝ) (hb : b.IsNum) (p : Vec3 ℝ) :
    b.contains p = true ↔ BZone.mem b.toBox (toP3 p) := contains_iff_mem b hb p

/-- the ellipsoid's promised boxes as a sound zone -/
theorem bzone_sound_ellipsoid (r : Vec3 ℝ) (hx : 0 < r.x) (hy : 0 < r.y) (hz : 0 < r.z) :
    BZone.Sound (⟨(ellipsoidBoxes r).2.toBox, (ellipsoidBoxes r).1.toBox, false⟩ : BZone.Zone K)
      (liftRegion fun p => inEllipsoid r p = true) :=
  zone_sound_of_boxes _ _
    (by simp [ellipsoidBoxes, BBox.ofPoints, BBox.IsFin, Ext.IsFin])
    (by simp [ellipsoidBoxes, BBox.ofPoints, BBox.IsNum, Ext.IsNum]) _
    (fun p => (ellipsoidBoxes_sound r p hx hy hz).1) (fun p => (ellipsoidBoxes_sound r p hx hy hz).2)

/-- ★ an `AllObjects` of regions with sound promised boxes: folding the real `calc_intersection`
    over their zones gives a sound zone for the intersection (instance of C09's
    `foldInter_sound` at ℝ ∪ {±∞}) -/
theorem bzone_sound_intersection (zs : List (BZone.Zone K × (Vec3 ℝ → Prop)))
    (h : ∀ zr ∈ zs, BZone.Sound zr.1 (liftRegion zr.2)) :
    BZone.Sound (zs.foldl (fun acc zr => BZone.zoneInter acc zr.1)
        (⟨BZone.Box.infinite, BZone.Box.infinite, false⟩ : BZone.Zone K))
      (fun P => True ∧ ∀ zr ∈ zs.map (fun zr => (zr.1, liftRegion zr.2)), zr.2 P) := by
  have := BZone.foldInter_sound (zs.map fun zr => (zr.1, liftRegion zr.2))
    (by intro zr hzr
        obtain ⟨zr', hzr', rfl⟩ := List.mem_map.mp hzr
        exact h zr' hzr')
    _ _ (BZone.fromInfinite_sound (κ := K))
  simpa only [List.foldl_map] using this

end Link

/-! ### soft de-duplication (`SoftSurfaceEqual`, used by `LocalSurfaceInserter`)
`Close se a b`: same class and EVERY coefficient group within tolerance — scalars
|x − y| < max(abs, rel·max(|x|,|y|)) (position, displacement, zeroth, √radius², √tan²), vector groups
‖u − v‖ < max(abs, rel·max(‖u‖,‖v‖)) (origin, second, cross, first: the documented SoftEqual
tolerance, `soft_eq_distance` after fix 1450523), plane normals 0 < n·n' and
1/(n·n')² − 1 ≤ rel² + ε. -/

/-- ★ two surfaces compare soft-equal iff they are of the same class and every coefficient group
    differs by at most the tolerance; in particular no group (e.g. the cross terms of a general
    quadric) is left unconstrained -/
theorem softEqual_implies_close (se : SoftEq ℝ) (a b : Surface ℝ) :
    softEq se a b = true ↔ Close se a b := softEq_iff_close se a b

/-- the cross terms (and likewise every other component) of two soft-equal general quadrics are
    individually within the tolerance -/
theorem softEqual_gq_cross_close (se : SoftEq ℝ) (a b c d e f g h i j a' b' c' d' e' f' g' h' i' j' : ℝ)
    (hq : softEq se (.generalQuadric a b c d e f g h i j)
      (.generalQuadric a' b' c' d' e' f' g' h' i' j') = true) :
    |d' - d| < max se.abs (se.rel * max (nrm ⟨d, e, f⟩) (nrm ⟨d', e', f'⟩))
    ∧ |e' - e| < max se.abs (se.rel * max (nrm ⟨d, e, f⟩) (nrm ⟨d', e', f'⟩))
    ∧ |f' - f| < max se.abs (se.rel * max (nrm ⟨d, e, f⟩) (nrm ⟨d', e', f'⟩)) := by
  have hc := (softEq_iff_close se _ _).mp hq
  simp only [Close] at hc
  exact closeV_components se ⟨d, e, f⟩ ⟨d', e', f'⟩ hc.2.1

/-- `SoftSurfaceEqual` is symmetric (all classes, any tolerance) -/
theorem softEqual_symm (se : SoftEq ℝ) (a b : Surface ℝ) : softEq se a b = softEq se b a :=
  softEq_symm se a b

/-- `SoftSurfaceEqual` is reflexive for abs > 0 on surfaces satisfying their constructor's
    precondition (unit plane normal) -/
theorem softEqual_refl (se : SoftEq ℝ) (habs : 0 < se.abs) (s : Surface ℝ) (hs : s.UnitNormal) :
    softEq se s s = true := softEq_refl se habs s hs

example : softEq (⟨1 / 100000, 1 / 100000⟩ : SoftEq ℝ) (.sphereCentered 4) (.sphereCentered 4) = true :=
  softEq_refl _ (by norm_num) _ trivial

/-! ### Non-vacuity -/
example : OffSurfaces (emitBox (⟨1, 2, 3⟩ : Vec3 ℝ)) ⟨0, 0, 0⟩ := by
  unfold OffSurfaces
  simp only [emitBox, List.forall_mem_cons, List.not_mem_nil, false_imp_iff, implies_true, and_true,
    Surface.quadric]
  vec_simp; num_simp; norm_num
example : inBox (⟨1, 2, 3⟩ : Vec3 ℝ) ⟨0, 0, 0⟩ = true := by unfold inBox; num_simp; norm_num
example : inBox (⟨1, 2, 3⟩ : Vec3 ℝ) ⟨2, 0, 0⟩ = false := by
  rw [Bool.eq_false_iff]; unfold inBox; num_simp; norm_num
example : (0 : ℝ) < 1 / 2 ∧ (3 / 2 : ℝ) ≠ 0 := by norm_num
example : OffSurfaces (emitSphere (2 : ℝ)) ⟨1, 0, 0⟩ := by
  unfold OffSurfaces
  simp only [emitSphere, List.forall_mem_cons, List.not_mem_nil, false_imp_iff, implies_true, and_true,
    Surface.quadric]
  vec_simp; num_simp; norm_num
example : (Region.box (⟨1, 1, 1⟩ : Vec3 ℝ)).Proved ⟨1 / 100000, 1 / 100000⟩ := trivial
example : (Region.ellipsoid (⟨1, 2, 3⟩ : Vec3 ℝ)).Proved ⟨1 / 100000, 1 / 100000⟩ := by
  simp only [Region.Proved]; norm_num
/-- a reflection (det = −1) composed with a quarter turn is `Ortho` -/
example : (Xform.full ⟨⟨⟨0, -1, 0⟩, ⟨1, 0, 0⟩, ⟨0, 0, -1⟩⟩, ⟨1, 2, 3⟩⟩ : Xform ℝ).Ortho := by
  simp only [Xform.Ortho, Mat3.orthoCols, Mat3.orthoRows]; norm_num
example : (Surface.plane (⟨3 / 5, 4 / 5, 0⟩ : Vec3 ℝ) 2).UnitNormal := by
  simp only [Surface.UnitNormal]; norm_num

end CelerVerif.Solids
