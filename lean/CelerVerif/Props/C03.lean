/- C03 — placeholder while the theorems are being written -/
import CelerVerif.Model.Nav
