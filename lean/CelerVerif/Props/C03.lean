/-
C03 — Geometry navigation matches true point location along every ray.
Property theorems only, about the `Num`-generic model Model/Nav.lean read at ℝ (the same
definitions run at `Float` reproduce the real OrangeTrackView / unit trackers field by field:
harness/nav.cc, tools/checks/c03.py).  Helper lemmas: Lemmas/NavCore.lean, NavTrack.lean.

What is NOT proved here (carried by the bit-exact differential run and the independent
point-location oracle): the multi-level composition of the single-level ray-trace theorem,
rays through corners / tangent points (simultaneous or double events), floating-point rounding.
-/
import CelerVerif.Lemmas.NavRect
import CelerVerif.Lemmas.NavLevels
import CelerVerif.Lemmas.NavBih

namespace CelerVerif.Nav
open CelerVerif CelerVerif.Surf

/-! ### unit tracker: choice of the next surface -/

/-- `complex_intersect`: given the crossing events in ascending order, the result is the FIRST
    crossing after which the volume's logic is false (the logic is true after each earlier
    crossing), the reported sense is the sense held just before that crossing; no result means
    the logic stays true behind every event. -/
theorem complexIntersect_first_exit (inside : Array Bool → Bool) (s : Array Bool)
    (l : List (Hit ℝ)) :
    (∀ h old, firstExit inside s l = some (h, old) →
      ∃ a b, l = a ++ h :: b ∧
        (∀ k, k ≠ 0 → k ≤ a.length → inside (flipAll s (l.take k)) = true) ∧
        inside (flipAll s (a ++ [h])) = false ∧
        old = (flipAll s a).getD h.face false) ∧
    (firstExit inside s l = none →
      ∀ k, k ≠ 0 → k ≤ l.length → inside (flipAll s (l.take k)) = true) :=
  ⟨fun h old hr => firstExit_some inside s l (h, old) hr, firstExit_none inside s l⟩

/-- `simple_intersect`: `min_element` returns a nearest saved intersection, the first of the
    nearest ones; and in a volume where crossing any single face leaves the volume (a "simple"
    volume: no internal surfaces, C10 `flagSimple_sound`) this is exactly the exit that the
    general algorithm (sort, flip, re-evaluate) computes. -/
theorem simpleIntersect_exit (inside : Array Bool → Bool) (s : Array Bool) (hits : List (Hit ℝ))
    (hsimple : ∀ h ∈ hits, inside (flip1 s h) = false) :
    (∀ m, minHit hits = some m →
      m ∈ hits ∧ (∀ x ∈ hits, top m.dist ≤ top x.dist) ∧
      ∃ a b, hits = a ++ m :: b ∧ ∀ x ∈ a, top m.dist < top x.dist) ∧
    firstExit inside s (sortHits hits) = (minHit hits).map fun m => (m, s.getD m.face false) := by
  refine ⟨fun m hm => ⟨minHit_mem _ _ hm, minHit_le _ _ hm, minHit_first _ _ hm⟩, ?_⟩
  have hh := sortHits_head hits
  cases hs : sortHits hits with
  | nil =>
    rw [hs] at hh; simp only [List.head?_nil] at hh
    rw [← hh]; rfl
  | cons x xs =>
    rw [hs] at hh; simp only [List.head?_cons] at hh
    rw [← hh, firstExit_cons]
    have hx : x ∈ hits := (sortHits_mem hits x).1 (by rw [hs]; simp)
    rw [if_pos (hsimple x hx)]
    rfl

/-- ★ a distance-limited search gives the unlimited answer truncated at the limit
    (`intersect(state, max)` vs `intersect(state)` of the simple-unit tracker: filter
    `IsNotFurtherThan` before the min / sort + scan, for simple, complex and background
    volumes alike).  Hypothesis: the limit is below `numeric_limits::max()`. -/
theorem limited_eq_truncated_unlimited (g : Geo ℝ) (u : SimpleUnit ℝ) (st : LocalState ℝ)
    (m : ℝ) (hm : m < (maxFinite : ℝ)) :
    u.intersectImpl g st (.notFurther (some m)) = truncate (some m) (u.intersectImpl g st .finite) := by
  unfold SimpleUnit.intersectImpl gatherHits
  simp only []
  rw [gatherHitsFrom_limited m hm, pickHit_filter]

/-- ★ the same for the rect-array tracker (`RectArrayTracker::intersect(state, max)`) -/
theorem limited_eq_truncated_unlimited_rect (r : RectArray ℝ) (st : LocalState ℝ) (m : ℝ)
    (hm : m < (maxFinite : ℝ)) :
    r.intersectImpl st (.notFurther (some m)) = truncate (some m) (r.intersectImpl st .finite) :=
  rect_limited_eq_truncated r st m hm

/-- … in the form used by the level loop, for EVERY universe type: found within the limit ⇒
    the unlimited answer, otherwise "no surface, distance = limit" -/
theorem intersectMax_limited (g : Geo ℝ) (uid : ℕ) (st : LocalState ℝ) (m : ℝ)
    (hm : m < (maxFinite : ℝ)) :
    g.intersectMax uid st (some m) =
      if (g.intersect uid st).surf.id.isSome && dle (g.intersect uid st).dist (some m)
      then g.intersect uid st else { (Isect.none' : Isect ℝ) with dist := some m } := by
  have key : g.intersectImpl uid st (.notFurther (some m))
      = truncate (some m) (g.intersectImpl uid st .finite) := by
    unfold Geo.intersectImpl
    cases g.univ uid with
    | simple u => exact limited_eq_truncated_unlimited g u st m hm
    | rect r => exact rect_limited_eq_truncated r st m hm
  unfold Geo.intersectMax Geo.intersect
  simp only []
  rw [key]
  unfold truncate
  by_cases hc : ((g.intersectImpl uid st .finite).surf.id.isSome
      && dle (g.intersectImpl uid st .finite).dist (some m)) = true
  · have h1 : (g.intersectImpl uid st .finite).surf.id.isSome = true := by
      have : (g.intersectImpl uid st .finite).surf.id.isSome = true
          ∧ dle (g.intersectImpl uid st .finite).dist (some m) = true := by simpa using hc
      exact this.1
    simp only [hc, if_true]
    have : (g.intersectImpl uid st .finite).surf.id.isNone = false := by
      cases h : (g.intersectImpl uid st .finite).surf.id <;> simp_all
    simp [this]
  · simp only [hc, Bool.false_eq_true, if_false]
    simp [Isect.none']

/-! ### OrangeTrackView: find_next_step over the levels -/

/-- `find_next_step_impl`: with per-level limited searches that are truncations of the
    unlimited ones, the loop returns the minimum over all levels of the unlimited distances
    (and of the level-0 answer `i0`), attained at the SHALLOWEST level: strict `<`, so a deeper
    level only replaces the current answer when strictly nearer. -/
theorem findNextStep_min_shallowest (lim : ℕ → Option ℝ → Isect ℝ) (unl : ℕ → Isect ℝ)
    (hc : LimitedOf lim unl) (ls : List ℕ) (i0 : Isect ℝ) (l0 : ℕ) :
    let r := findImplLoopG lim ls i0 l0
    (top r.1.dist ≤ top i0.dist ∧ ∀ l ∈ ls, top r.1.dist ≤ found (unl l)) ∧
    ((r = (i0, l0) ∧ ∀ l ∈ ls, top i0.dist ≤ found (unl l)) ∨
     (∃ a l b, ls = a ++ l :: b ∧ r = (unl l, l) ∧ (unl l).surf.id.isSome = true ∧
        top (unl l).dist < top i0.dist ∧ (∀ l' ∈ a, top (unl l).dist < found (unl l')) ∧
        ∀ l' ∈ b, top (unl l).dist ≤ found (unl l'))) :=
  findImplLoopG_spec lim unl hc ls i0 l0

/-- the contract holds for the model's own per-level search at every level (simple units and
    rect arrays) whenever the running limit is a finite distance below `max()` -/
theorem levelLimited_contract (g : Geo ℝ) (s : State ℝ) (lev : ℕ) (m : ℝ)
    (hm : m < (maxFinite : ℝ)) :
    levelLimited g s lev (some m) =
      if (g.intersect (s.lev lev).uid (s.localState lev)).surf.id.isSome
          && dle (g.intersect (s.lev lev).uid (s.localState lev)).dist (some m)
      then g.intersect (s.lev lev).uid (s.localState lev)
      else { (Isect.none' : Isect ℝ) with dist := some m } :=
  intersectMax_limited g _ _ m hm

/-! ### set_dir on a boundary -/

/-- ★ `set_dir` while on a boundary at any nesting level: the boundary flag is flipped exactly
    when the new direction lies on the other side of the surface than the old one, both taken
    in the surface's own frame (the frame of `surface_level`; `n` is the surface normal there,
    directions are the global ones rotated down through the levels above `surface_level`).
    No hypothesis on the transforms (rotations, reflections, translations). -/
theorem setDir_flag_correct (g : Geo ℝ) (s : State ℝ) (newdir : Vec3 ℝ) (sl : ℕ) :
    setDirFlips g s newdir sl =
      (decide (0 ≤ Vec3.dot (localNormal g s sl) (dirAtLevel g s sl newdir))
        != decide (0 ≤ Vec3.dot (localNormal g s sl)
              (dirAtLevel g s sl (s.lev 0).dir))) := by
  have hle : ∀ x : ℝ, Num.le (Num.ofNat 0) x = decide (0 ≤ x) := by
    intro x
    show decide (((0 : ℕ) : ℝ) ≤ x) = _
    simp
  unfold setDirFlips
  simp only [Num.ge, dot_rotateUpFrom, hle]

/-- ★ the same with the normal's provenance and the COMPOSITION ORDER explicit: the normal is
    the tracker's surface normal at the surface level's LOCAL position
    (`normal(lsa(surface_level).pos, surf)`), carried to the global frame by the
    daughter-to-parent rotations in the order `R₀ (R₁ (… R_{sl-1} n))` — deepest first — and the
    flag flips exactly when the two global directions lie on different sides of it. -/
theorem setDir_flag_correct_order (g : Geo ℝ) (s : State ℝ) (newdir : Vec3 ℝ) (sl : ℕ) :
    localNormal g s sl = g.normal (s.lev sl).uid (s.lev sl).pos (s.surf.getD 0) ∧
    setDirFlips g s newdir sl =
      (decide (0 ≤ Vec3.dot ((List.range sl).foldr (fun j v => (levelTransform g s j).rotUp v)
                  (localNormal g s sl)) newdir)
        != decide (0 ≤ Vec3.dot ((List.range sl).foldr (fun j v => (levelTransform g s j).rotUp v)
                  (localNormal g s sl)) (s.lev 0).dir)) := by
  have hle : ∀ x : ℝ, Num.le (Num.ofNat 0) x = decide (0 ≤ x) := by
    intro x
    show decide (((0 : ℕ) : ℝ) ≤ x) = _
    simp
  refine ⟨rfl, ?_⟩
  unfold setDirFlips
  simp only [Num.ge, rotateUpFrom_eq_normalUp, normalUp, hle]

/-- the loop as written before the repair (`range<int>(level)`) computes the same flag iff …
    here: whenever no level between `surface_level` and the current level carries a rotation
    (in particular when `surface_level = level`) -/
theorem setDir_allLevels_ok_of_translations (g : Geo ℝ) (s : State ℝ) (newdir : Vec3 ℝ) (sl : ℕ)
    (hle : sl ≤ s.lvl)
    (htr : ∀ k, sl ≤ k → k < s.lvl → (levelTransform g s k).isRotation = false) :
    setDirFlipsAllLevels g s newdir sl = setDirFlips g s newdir sl := by
  have key : ∀ d n, sl + d ≤ s.lvl → rotateUpFrom g s (sl + d) n = rotateUpFrom g s sl n := by
    intro d
    induction d with
    | zero => intro n _; rfl
    | succ d ih =>
      intro n hd
      show rotateUpFrom g s (sl + d) ((levelTransform g s (sl + d)).rotUp n) = _
      have hnr := htr (sl + d) (by omega) (by omega)
      have : (levelTransform g s (sl + d)).rotUp n = n := by
        cases ht : levelTransform g s (sl + d) with
        | none => rfl
        | translation _ => rfl
        | transformation t => rw [ht] at hnr; simp [Transform.isRotation] at hnr
      rw [this]
      exact ih n (by omega)
  unfold setDirFlipsAllLevels setDirFlips
  obtain ⟨d, hd⟩ := Nat.exists_eq_add_of_le hle
  rw [hd, key d _ (by omega)]

/-- a rotated-daughter state: level 0 = global unit with the plane x = 5 (surface 0), whose
    volume 1 holds a daughter rotated a quarter turn about z; the track sits at level 1 on the
    level-0 surface, heading +x -/
noncomputable def witnessGeo : Geo ℝ :=
  { tolRel := 0, tolAbs := 0,
    universes := #[.simple { surfaces := #[.planeAligned .x 5], conn := #[[0, 1]],
                             volumes := #[⟨[0], [0], 0, none, ⟨0, 0, 0⟩, ⟨0, 0, 0⟩⟩,
                                          ⟨[0], [0, lnot], 0, some 0, ⟨0, 0, 0⟩, ⟨0, 0, 0⟩⟩],
                             background := none, inner := #[], leaves := #[⟨none, []⟩],
                             infVols := [0, 1] },
                   .simple { surfaces := #[], conn := #[],
                             volumes := #[⟨[], [ltrue, lnot], 2, none, ⟨0, 0, 0⟩, ⟨0, 0, 0⟩⟩,
                                          ⟨[], [ltrue], 0, none, ⟨0, 0, 0⟩, ⟨0, 0, 0⟩⟩],
                             background := none, inner := #[], leaves := #[⟨none, []⟩],
                             infVols := [1] }],
    daughters := #[(1, 0)],
    transforms := #[.transformation ⟨⟨⟨0, -1, 0⟩, ⟨1, 0, 0⟩, ⟨0, 0, 1⟩⟩, ⟨0, 0, 0⟩⟩],
    surfOff := #[0, 1, 1], volOff := #[0, 2, 4] }

noncomputable def witnessState : State ℝ :=
  { levels := #[⟨1, ⟨5, 3 / 10, 0⟩, ⟨1, 0, 0⟩, 0⟩, ⟨1, ⟨3 / 10, -5, 0⟩, ⟨0, -1, 0⟩, 1⟩],
    level := some 1, surfaceLevel := some 0, surf := some 0, sense := false, boundary := true,
    nextLevel := some 0, nextStep := some 0, nextSurf := none, nextSense := false,
    failed := false }

theorem witness_normal : localNormal witnessGeo witnessState 0 = ⟨1, 0, 0⟩ := by
  simp [localNormal, State.lev, SimpleUnit.surf, witnessState, witnessGeo, Geo.normal, Geo.univ, SimpleUnit.normal,
    Surface.calcNormal, Surface.gradient, Axis.toNat, Vec3.set]

theorem witness_transform :
    levelTransform witnessGeo witnessState 0
      = .transformation ⟨⟨⟨0, -1, 0⟩, ⟨1, 0, 0⟩, ⟨0, 0, 1⟩⟩, ⟨0, 0, 0⟩⟩ := by
  simp [levelTransform, State.lev, SimpleUnit.vol, witnessState, witnessGeo, Geo.daughter, Geo.univ, Geo.daughterInfo]

/-- ★ the defect repaired in aba3908 (DESIGN §8 row a), proved on the model of the loop AS IT
    WAS WRITTEN: with a rotated daughter and `surface_level < level`, turning back inward
    (new direction (−3/5, 4/5, 0) against the normal (1,0,0)) must flip the boundary flag —
    the repaired computation does, the all-levels loop does not. -/
theorem witness_old_dir : (witnessState.lev 0).dir = ⟨1, 0, 0⟩ := by
  simp [State.lev, witnessState]

theorem setDir_allLevels_wrong :
    setDirFlips witnessGeo witnessState ⟨-3 / 5, 4 / 5, 0⟩ 0 = true ∧
    setDirFlipsAllLevels witnessGeo witnessState ⟨-3 / 5, 4 / 5, 0⟩ 0 = false := by
  constructor
  · rw [setDir_flag_correct, witness_normal, witness_old_dir]
    simp only [dirAtLevel, Vec3R.dot_real]
    norm_num
  · have hle : ∀ x : ℝ, Num.le (Num.ofNat 0) x = decide (0 ≤ x) := by
      intro x
      show decide (((0 : ℕ) : ℝ) ≤ x) = _
      simp
    unfold setDirFlipsAllLevels
    have hl : witnessState.lvl = 1 := rfl
    rw [hl]
    simp only [rotateUpFrom, witness_transform, witness_normal, witness_old_dir, Transform.rotUp,
      Transformation.rotUp, gemv, Mat3.row, Vec3.get, Num.ge, Vec3R.dot_real, hle]
    num_simp
    norm_num

/-- three levels: level 0 → daughter rotated a quarter turn about z → daughter rotated a quarter
    turn about x → a unit with the plane x = 0 (surface 0); the track sits on that plane at
    level 2, global direction +y (= +x in the frame of level 2) -/
noncomputable def orderGeo : Geo ℝ :=
  { tolRel := 0, tolAbs := 0,
    universes := #[.simple { surfaces := #[], conn := #[],
                             volumes := #[⟨[], [ltrue, lnot], 2, none, ⟨0, 0, 0⟩, ⟨0, 0, 0⟩⟩,
                                          ⟨[], [ltrue], 0, some 0, ⟨0, 0, 0⟩, ⟨0, 0, 0⟩⟩],
                             background := none, inner := #[], leaves := #[⟨none, []⟩],
                             infVols := [1] },
                   .simple { surfaces := #[], conn := #[],
                             volumes := #[⟨[], [ltrue, lnot], 2, none, ⟨0, 0, 0⟩, ⟨0, 0, 0⟩⟩,
                                          ⟨[], [ltrue], 0, some 1, ⟨0, 0, 0⟩, ⟨0, 0, 0⟩⟩],
                             background := none, inner := #[], leaves := #[⟨none, []⟩],
                             infVols := [1] },
                   .simple { surfaces := #[.planeAligned .x 0], conn := #[[0, 1]],
                             volumes := #[⟨[0], [0], 0, none, ⟨0, 0, 0⟩, ⟨0, 0, 0⟩⟩,
                                          ⟨[0], [0, lnot], 0, none, ⟨0, 0, 0⟩, ⟨0, 0, 0⟩⟩],
                             background := none, inner := #[], leaves := #[⟨none, []⟩],
                             infVols := [0, 1] }],
    daughters := #[(1, 0), (2, 1)],
    transforms := #[.transformation ⟨⟨⟨0, -1, 0⟩, ⟨1, 0, 0⟩, ⟨0, 0, 1⟩⟩, ⟨0, 0, 0⟩⟩,
                    .transformation ⟨⟨⟨1, 0, 0⟩, ⟨0, 0, -1⟩, ⟨0, 1, 0⟩⟩, ⟨0, 0, 0⟩⟩],
    surfOff := #[0, 0, 0, 1], volOff := #[0, 2, 4, 6] }

noncomputable def orderState : State ℝ :=
  { levels := #[⟨1, ⟨0, 0, 0⟩, ⟨0, 1, 0⟩, 0⟩, ⟨1, ⟨0, 0, 0⟩, ⟨1, 0, 0⟩, 1⟩,
                ⟨1, ⟨0, 0, 0⟩, ⟨1, 0, 0⟩, 2⟩],
    level := some 2, surfaceLevel := some 2, surf := some 0, sense := false, boundary := true,
    nextLevel := some 2, nextStep := some 0, nextSurf := none, nextSense := false,
    failed := false }

theorem order_t0 : levelTransform orderGeo orderState 0
    = .transformation ⟨⟨⟨0, -1, 0⟩, ⟨1, 0, 0⟩, ⟨0, 0, 1⟩⟩, ⟨0, 0, 0⟩⟩ := by
  simp [levelTransform, State.lev, SimpleUnit.vol, orderState, orderGeo, Geo.daughter, Geo.univ,
    Geo.daughterInfo]

theorem order_t1 : levelTransform orderGeo orderState 1
    = .transformation ⟨⟨⟨1, 0, 0⟩, ⟨0, 0, -1⟩, ⟨0, 1, 0⟩⟩, ⟨0, 0, 0⟩⟩ := by
  simp [levelTransform, State.lev, SimpleUnit.vol, orderState, orderGeo, Geo.daughter, Geo.univ,
    Geo.daughterInfo]

theorem order_normal : localNormal orderGeo orderState 2 = ⟨1, 0, 0⟩ := by
  simp [localNormal, State.lev, SimpleUnit.surf, orderState, orderGeo, Geo.normal, Geo.univ,
    SimpleUnit.normal, Surface.calcNormal, Surface.gradient, Axis.toNat, Vec3.set]

theorem order_old_dir : (orderState.lev 0).dir = ⟨0, 1, 0⟩ := by
  simp [State.lev, orderState]

/-- ★ the order of composition matters: two non-commuting rotations (z then x quarter turns)
    above a surface of level 2; for the new direction (0, −3/5, 4/5) the flag computed with
    `R₀ (R₁ n)` flips (global normal (0,1,0)), the one computed with the reversed product
    `R₁ (R₀ n)` (global "normal" (0,0,1)) does not. -/
theorem setDir_order_matters :
    setDirFlips orderGeo orderState ⟨0, -3 / 5, 4 / 5⟩ 2 = true ∧
    setDirFlipsAscending orderGeo orderState ⟨0, -3 / 5, 4 / 5⟩ 2 = false := by
  have hle : ∀ x : ℝ, Num.le (Num.ofNat 0) x = decide (0 ≤ x) := by
    intro x
    show decide (((0 : ℕ) : ℝ) ≤ x) = _
    simp
  constructor
  · rw [(setDir_flag_correct_order _ _ _ _).2, order_normal, order_old_dir]
    simp only [List.range_succ, List.range_zero, List.nil_append, List.cons_append,
      List.foldr_cons, List.foldr_nil, order_t0, order_t1, Transform.rotUp, Transformation.rotUp,
      gemv, Mat3.row, Vec3.get, Vec3R.dot_real]
    num_simp
    norm_num
  · unfold setDirFlipsAscending normalUpAscending
    simp only [List.range_succ, List.range_zero, List.nil_append, List.cons_append,
      List.foldl_cons, List.foldl_nil, order_t0, order_t1, order_normal, order_old_dir,
      Transform.rotUp, Transformation.rotUp, gemv, Mat3.row, Vec3.get, Num.ge, Vec3R.dot_real, hle]
    num_simp
    norm_num

/-- a unit sphere (surface 0) in a daughter translated by (10,0,0); the track sits on it at the
    local point (0,1,0) = global (10,1,0), heading +y (outward) -/
noncomputable def curvedGeo : Geo ℝ :=
  { tolRel := 0, tolAbs := 0,
    universes := #[.simple { surfaces := #[], conn := #[],
                             volumes := #[⟨[], [ltrue, lnot], 2, none, ⟨0, 0, 0⟩, ⟨0, 0, 0⟩⟩,
                                          ⟨[], [ltrue], 0, some 0, ⟨0, 0, 0⟩, ⟨0, 0, 0⟩⟩],
                             background := none, inner := #[], leaves := #[⟨none, []⟩],
                             infVols := [1] },
                   .simple { surfaces := #[.sphereCentered 1], conn := #[[0, 1]],
                             volumes := #[⟨[0], [0], 0, none, ⟨0, 0, 0⟩, ⟨0, 0, 0⟩⟩,
                                          ⟨[0], [0, lnot], 0, none, ⟨0, 0, 0⟩, ⟨0, 0, 0⟩⟩],
                             background := none, inner := #[], leaves := #[⟨none, []⟩],
                             infVols := [0, 1] }],
    daughters := #[(1, 0)],
    transforms := #[.translation ⟨10, 0, 0⟩],
    surfOff := #[0, 0, 1], volOff := #[0, 2, 4] }

noncomputable def curvedState : State ℝ :=
  { levels := #[⟨1, ⟨10, 1, 0⟩, ⟨0, 1, 0⟩, 0⟩, ⟨1, ⟨0, 1, 0⟩, ⟨0, 1, 0⟩, 1⟩],
    level := some 1, surfaceLevel := some 1, surf := some 0, sense := false, boundary := true,
    nextLevel := some 1, nextStep := some 0, nextSurf := none, nextSense := false,
    failed := false }

theorem curved_t0 : levelTransform curvedGeo curvedState 0 = .translation ⟨10, 0, 0⟩ := by
  simp [levelTransform, State.lev, SimpleUnit.vol, curvedState, curvedGeo, Geo.daughter, Geo.univ,
    Geo.daughterInfo]

/-- ★ the position at which the normal is taken matters for curved surfaces: at the local point
    (0,1,0) the sphere's normal is (0,1,0) and the direction (1, −1/2, 0) points back inside —
    the flag must flip; taking the normal at the global point (10,1,0) gives (10,1,0)/√101, for
    which the same direction still points outward — no flip. -/
theorem setDir_localpos_matters :
    setDirFlips curvedGeo curvedState ⟨1, -1 / 2, 0⟩ 1 = true ∧
    setDirFlipsGlobalPos curvedGeo curvedState ⟨1, -1 / 2, 0⟩ 1 = false := by
  have hle : ∀ x : ℝ, Num.le (Num.ofNat 0) x = decide (0 ≤ x) := by
    intro x
    show decide (((0 : ℕ) : ℝ) ≤ x) = _
    simp
  have hold : (curvedState.lev 0).dir = ⟨0, 1, 0⟩ := by simp [State.lev, curvedState]
  constructor
  · have hn : localNormal curvedGeo curvedState 1 = ⟨0, 1, 0⟩ := by
      simp [localNormal, State.lev, SimpleUnit.surf, curvedState, curvedGeo, Geo.normal, Geo.univ,
        SimpleUnit.normal, Surface.calcNormal, Surface.gradient, makeUnit, Vec3.norm]
    rw [(setDir_flag_correct_order _ _ _ _).2, hn, hold]
    simp only [List.range_succ, List.range_zero, List.nil_append, List.foldr_cons, List.foldr_nil,
      curved_t0, Transform.rotUp, Vec3R.dot_real]
    norm_num
  · have hs : (0 : ℝ) < 1 / Real.sqrt 101 := by positivity
    have hn : curvedGeo.normal (curvedState.lev 1).uid (curvedState.lev 0).pos
        (curvedState.surf.getD 0)
        = ⟨10 * (1 / Real.sqrt 101), 1 * (1 / Real.sqrt 101), 0 * (1 / Real.sqrt 101)⟩ := by
      simp [State.lev, SimpleUnit.surf, curvedState, curvedGeo, Geo.normal, Geo.univ,
        SimpleUnit.normal, Surface.calcNormal, Surface.gradient, makeUnit, Vec3.norm]
      try num_simp
      try norm_num
    unfold setDirFlipsGlobalPos
    simp only [hn, hold, rotateUpFrom, curved_t0, Transform.rotUp, Num.ge, Vec3R.dot_real, hle]
    have hp : (0 : ℝ) < (Real.sqrt 101)⁻¹ := by positivity
    simp
    linarith

/-! ### direction change on the surface just crossed (known finding) -/

/-- after `set_dir` has made the boundary `reentrant`, `find_next_step` answers (0, boundary)
    without touching the state and `cross_boundary` only resets the flag: the volume at every
    level is what it was — also when the surface had ALREADY been crossed, in which case the
    track now moves back into the previous volume while the state stays in the new one
    (known finding `setdir-post-crossing-reentry`; replay corpus/C03/setdir_post_crossing_reentry.ops). -/
theorem reentrant_cross_keeps_volume (g : Geo ℝ) (s : State ℝ) (hb : s.boundary = false) :
    findNextStep g s none = (s, some (Num.ofNat 0), true) ∧
    crossBoundary g s = { s with boundary := true } ∧
    (crossBoundary g s).levels = s.levels := by
  refine ⟨?_, ?_, ?_⟩
  · unfold findNextStep; simp [hb]
  · unfold crossBoundary; simp [hb]
  · unfold crossBoundary; simp [hb]

/-- two half spaces x < 0 (volume 0) and x > 0 (volume 1) separated by the plane x = 0 -/
noncomputable def halfGeo : Geo ℝ :=
  { tolRel := 0, tolAbs := 0,
    universes := #[.simple { surfaces := #[.planeAligned .x 0], conn := #[[0, 1]],
                             volumes := #[⟨[0], [0, lnot], 0, none, ⟨0, 0, 0⟩, ⟨0, 0, 0⟩⟩,
                                          ⟨[0], [0], 0, none, ⟨0, 0, 0⟩, ⟨0, 0, 0⟩⟩],
                             background := none, inner := #[], leaves := #[⟨none, []⟩],
                             infVols := [0, 1] }],
    daughters := #[], transforms := #[], surfOff := #[0, 1], volOff := #[0, 2] }

/-- the state right after `cross_boundary` from volume 0 into volume 1 at the origin, heading +x
    (on surface 0 with the post-crossing sense `outside`, flag `exiting`) -/
noncomputable def halfState : State ℝ :=
  { levels := #[⟨1, ⟨0, 0, 0⟩, ⟨1, 0, 0⟩, 0⟩],
    level := some 0, surfaceLevel := some 0, surf := some 0, sense := true, boundary := true,
    nextLevel := some 0, nextStep := some 0, nextSurf := none, nextSense := false,
    failed := false }

theorem half_flips : setDirFlips halfGeo halfState ⟨-1, 0, 0⟩ 0 = true := by
  rw [setDir_flag_correct]
  have hn : localNormal halfGeo halfState 0 = ⟨1, 0, 0⟩ := by
    simp [localNormal, State.lev, SimpleUnit.surf, halfState, halfGeo, Geo.normal, Geo.univ, SimpleUnit.normal,
      Surface.calcNormal, Surface.gradient, Axis.toNat, Vec3.set]
  have ho : (halfState.lev 0).dir = ⟨1, 0, 0⟩ := by simp [State.lev, halfState]
  rw [hn, ho]
  simp only [dirAtLevel, Vec3R.dot_real]
  norm_num

/-- independent point location (the model's `initialize` on a fresh point) puts (−1,0,0) in
    volume 0 -/
theorem half_locate : halfGeo.initialize 0 ⟨-1, 0, 0⟩ = some 0 := by
  have h1 : Num.le (-1 : ℝ) 0 = true := by rw [NumR.le_real]; norm_num
  have h2 : Num.lt (-1 : ℝ) 0 = true := by rw [NumR.lt_real]; norm_num
  simp [h1, h2, SimpleUnit.surf, SimpleUnit.vol, SimpleUnit.leafNode, SimpleUnit.innerNode, Geo.initialize, Geo.univ, halfGeo, SimpleUnit.initialize, bihCandidates, bihLoop,
    bihNext, initScan, calcSenses, calcSensesFrom, Surface.calcSense, Surface.quadric, realToSense,
    evalLogic, evalLogicStep, lnot, lbegin, ltrue, lor, land, Vec3.ax, Axis.toNat, Vec3.get]

/-- ★ NEGATION of "changing direction while sitting on a boundary never desynchronises the
    reported volume from the actual position" on the model (= the real code, bit for bit: the
    known finding `setdir-post-crossing-reentry`).  On the surface just crossed into volume 1,
    `set_dir(−x)` makes the boundary reentrant, `find_next_step` answers (0, boundary),
    `cross_boundary` is the null-op, the reported volume is still 1 — while the point one unit
    further along the new direction is located in volume 0. -/
theorem setDir_postCrossing_desync :
    let s1 := setDir halfGeo halfState ⟨-1, 0, 0⟩
    let s2 := (findNextStep halfGeo s1 none).1
    let s3 := crossBoundary halfGeo s2
    s1.boundary = false ∧
    (findNextStep halfGeo s1 none).2 = (some (Num.ofNat 0), true) ∧
    (s3.lev 0).vol = 1 ∧ (s3.lev 0).dir = ⟨-1, 0, 0⟩ ∧
    halfGeo.initialize 0 (Vec3.axpy 1 (s3.lev 0).dir (s3.lev 0).pos) = some 0 := by
  have hb : (setDir halfGeo halfState ⟨-1, 0, 0⟩).boundary = false := by
    unfold setDir
    have hsl : halfState.surfaceLevel = some 0 := rfl
    simp only [hsl, half_flips, if_true, State.clearNext]
    rfl
  have hlev : (setDir halfGeo halfState ⟨-1, 0, 0⟩).levels
      = #[⟨1, ⟨0, 0, 0⟩, ⟨-1, 0, 0⟩, 0⟩] := by
    unfold setDir
    have hsl : halfState.surfaceLevel = some 0 := rfl
    simp only [hsl, half_flips, if_true, State.clearNext]
    simp [halfState, State.lvl, dirDown, halfGeo, SimpleUnit.vol, Geo.daughter, Geo.univ, List.range, List.range.loop]
  obtain ⟨hf, _, hcl⟩ := reentrant_cross_keeps_volume halfGeo _ hb
  have hl3 : (crossBoundary halfGeo (findNextStep halfGeo
      (setDir halfGeo halfState ⟨-1, 0, 0⟩) none).1).levels
      = #[⟨1, ⟨0, 0, 0⟩, ⟨-1, 0, 0⟩, 0⟩] := by rw [hf]; simp only []; rw [hcl, hlev]
  have hax : Vec3.axpy (1 : ℝ) (⟨-1, 0, 0⟩ : Vec3 ℝ) ⟨0, 0, 0⟩ = ⟨-1, 0, 0⟩ := by
    simp [Vec3R.axpy_real]
  refine ⟨hb, by rw [hf], ?_, ?_, ?_⟩
  · simp [State.lev, hl3]
  · simp [State.lev, hl3]
  · simp only [State.lev, hl3]
    simpa [hax] using half_locate

/-! ### single-level ray tracing = point location -/

/-- ★ (the abstract core: parity semantics of the events assumed here, DERIVED from the C12
    surface theorems in `ray_trace_matches_location_unit` below; nested universes: one step in
    `nested_trace_first_change_partial`.  Still partial: piecewise-straight paths with
    `set_dir`, for which the statement is false for a direction reversal on the surface just
    crossed, see `setDir_postCrossing_desync`.)
    One universe, a straight ray whose crossing events `evs` (face, distance; ascending, as the
    surface code reports them — C12 `isect_on_surface` / `isect_complete`) obey parity
    semantics: on each open interval between consecutive events the senses are the start
    senses flipped once per event passed (C12 `sense_eq_sign`); volumes partition the sense
    vectors (`loc`).  Then the navigator — find_next_step = first exit of the current volume's
    logic, cross_boundary = the volume whose logic holds just behind the exit — visits exactly
    the volumes, at exactly the distances, that independent point location reports; in
    particular no boundary is skipped or invented. -/
theorem ray_trace_matches_location_partial (loc : Array Bool → ℕ) (s0 : Array Bool)
    (evs : List (Hit ℝ)) :
    navTrace loc evs.length s0 evs = locTrace loc (loc s0) s0 evs :=
  navTrace_eq_locTrace loc evs.length s0 evs (le_refl _)

/-- termination: every crossing consumes at least one event of the finite list, so the ray
    leaves the world after at most `evs.length` crossings -/
theorem ray_trace_terminates (loc : Array Bool → ℕ) (s0 : Array Bool) (evs : List (Hit ℝ)) :
    (navTrace loc evs.length s0 evs).length ≤ evs.length := by
  rw [ray_trace_matches_location_partial]
  exact locTrace_length loc _ _ _

/-! ### the parity contract derived from the surface theorems (C12) -/

/-- the tracker's own data: off a surface, `CalcIntersections` + sort yields `rayEvents` and
    `SenseCalculator` yields `sensesOf` -/
theorem tracker_uses_ray_events (u : SimpleUnit ℝ) (vol : Volume ℝ) (st : LocalState ℝ) :
    sortHits (gatherHits .finite (faceAnswers u st none 0 vol.faces))
        = rayEvents u vol.faces st.pos st.dir ∧
    (calcSenses u vol st.pos none).1 = (sensesOf u vol.faces st.pos).toArray :=
  ⟨rayEvents_eq_tracker u st vol.faces, calcSenses_fst u vol st.pos⟩

/-- ★ one face: off the reported distances, the sign of the surface function (= the sense, C12
    `sense_eq_sign`) at parameter `t` is the sign at the start flipped once per reported
    distance below `t`.  From C12 `isect_on_surface`, `isect_complete`,
    `sense_flips_across_crossing` and the intermediate value theorem. -/
theorem face_sense_parity (s : Surface ℝ) (pos dir : Vec3 ℝ) (hu : unitDir dir)
    (gp : FaceGP s pos dir) (t : ℝ) (ht : 0 < t) (hnr : t ∉ faceRoots s pos dir) :
    decide (0 < s.quadric (along pos dir t)) =
      (decide (0 < s.quadric pos)
        ^^ Nat.bodd ((faceRoots s pos dir).countP fun r => decide (r < t))) :=
  face_parity s pos dir hu gp t ht hnr

/-- ★ single level, contract DERIVED: a volume (or unit) whose faces are quadrics, a ray in
    general position w.r.t. each face (`FaceGP`: start off the surfaces, leading coefficient
    outside the solver's tolerance band, all crossings simple, finite distances).
    (i) the tracker's (volume, distance) sequence equals the point-location sequence over the
    collected events; (ii) the sense vector which that point location uses on the `k`-th
    interval IS the true sense vector of every ray point strictly between the `k`-th and the
    `(k+1)`-th event — the face senses change exactly at the reported distances.
    When no two events share a distance every interval is non-empty, so every reported
    (volume, distance) pair is the location on an actual piece of the ray; with coinciding
    events (a ray through an edge or corner) the empty intervals in between are reported by
    BOTH sides alike. -/
theorem ray_trace_matches_location_unit (u : SimpleUnit ℝ) (faces : List ℕ) (pos dir : Vec3 ℝ)
    (loc : Array Bool → ℕ) (hu : unitDir dir)
    (gp : ∀ sid ∈ faces, FaceGP (u.surf sid) pos dir) :
    let evs := rayEvents u faces pos dir
    let s0 := (sensesOf u faces pos).toArray
    navTrace loc evs.length s0 evs = locTrace loc (loc s0) s0 evs ∧
    ∀ (k : ℕ) (t : ℝ), 0 < t →
      (∀ h ∈ evs.take k, top h.dist < top (some t)) →
      (∀ h ∈ evs.drop k, top (some t) < top h.dist) →
      flipAll s0 (evs.take k) = (sensesOf u faces (along pos dir t)).toArray := by
  intro evs s0
  refine ⟨navTrace_eq_locTrace loc evs.length s0 evs (le_refl _), ?_⟩
  intro k t ht h1 h2
  -- t is not a reported distance of any face
  have hnr : ∀ sid ∈ faces, t ∉ faceRoots (u.surf sid) pos dir := by
    intro sid hsid hmem
    obtain ⟨j, hj, hjs⟩ := List.mem_iff_getElem.1 hsid
    have hin : (⟨j, some t⟩ : Hit ℝ) ∈ evs := by
      show _ ∈ sortHits _
      rw [sortHits_mem, mem_gather u pos dir hu faces gp 0]
      exact ⟨j, hj, by simp, t, by rw [hjs]; exact hmem, rfl⟩
    rw [← List.take_append_drop k evs] at hin
    rcases List.mem_append.1 hin with h | h
    · exact lt_irrefl _ (h1 _ h)
    · exact lt_irrefl _ (h2 _ h)
  rw [senses_flip_at_events u faces pos dir hu gp t ht hnr,
    filter_lt_eq_take evs k t h1 (fun h hh => le_of_lt (h2 h hh))]

/-! ### nested universes -/

/-- ★ the local rays of all levels are images of one physical ray: daughter transforms
    (translations, transformations) map the point at path parameter `t` to the point of the
    daughter's local ray at the same `t`; orthonormal daughters keep directions unit; and the
    tracker's moves keep the levels consistent.  Hence the per-level distances of
    `find_next_step` are distances along the same ray and may be compared. -/
theorem levels_share_the_ray (g : Geo ℝ) (s : State ℝ) (hc : LevelsConsistent g s) :
    (∀ k, k + 1 < s.levels.size → ∀ t,
        along (s.lev (k + 1)).pos (s.lev (k + 1)).dir t
          = (levelTransform g s k).down (along (s.lev k).pos (s.lev k).dir t)) ∧
    ((∀ k, k + 1 < s.levels.size → (levelTransform g s k).Ortho) → unitDir (s.lev 0).dir →
        ∀ k, k < s.levels.size → unitDir (s.lev k).dir) ∧
    (∀ d, LevelsConsistent g { s with levels := moveLevels s d }) :=
  ⟨fun k hk t => levels_follow_ray g s hc k hk t,
   fun ho hu k hk => levels_unit_dir g s hc ho hu k hk,
   fun d => moveLevels_consistent g s hc d⟩

/-- ★ (partial: ONE step of the nested trace; FULL statement wanted: iterate it along the whole
    ray.  Missing: after the crossing the deeper levels are re-initialised by `descend`, i.e.
    by point location AT the crossing point; identifying that with the location just behind
    the crossing needs "no surface of the newly entered daughters passes through the crossing
    point" — exactly what fails in the known finding
    `cross-failed:inputbuilder-universe-union-boundary`.)
    Composition by induction on depth.  Levels `0 :: ls`, each with its single-level contract
    (`LevelRay.Ok`: the located volume of that level stays the tracker's volume before the
    level's own next boundary and differs right behind it — `ray_trace_matches_location_unit`),
    per-level exits = the unlimited per-level answers, limited searches = truncations
    (`levelLimited_contract`).  Then the (distance, level) computed by `find_next_step_impl`
    is the first change of the nested point location: (i) before that distance the nested
    location is the tracker's chain of volumes; (ii) right behind it the nested location
    agrees above the reported level and differs AT the reported level. -/
theorem nested_trace_first_change_partial (lim : ℕ → Option ℝ → Isect ℝ) (unl : ℕ → Isect ℝ)
    (hc : LimitedOf lim unl) (ls : List ℕ) (lrs : List LevelRay) (hok : ∀ L ∈ lrs, L.Ok)
    (hlen : lrs.length = ls.length + 1)
    (hex : ∀ j (hj : j < lrs.length),
      lrs[j].exit = found (unl ((0 :: ls)[j]'(by simpa [hlen] using hj))))
    (h0 : top (unl 0).dist = found (unl 0)) :
    let r := findImplLoopG lim ls (unl 0) 0
    (∀ t : ℝ, 0 < t → (t : WithTop ℝ) < top r.1.dist → nestedAt lrs t = lrs.map (·.v)) ∧
    (∀ d : ℝ, 0 ≤ d → r.1.dist = some d → r.1.surf.id.isSome = true →
      ∃ p, ∃ hp : p < lrs.length, (0 :: ls)[p]'(by simpa [hlen] using hp) = r.2 ∧
        ∃ ε, 0 < ε ∧ ∀ t, d < t → t < d + ε →
          (nestedAt lrs t).take p = (lrs.map (·.v)).take p ∧
          (nestedAt lrs t)[p]? = some (lrs[p].volAt t) ∧ lrs[p].volAt t ≠ lrs[p].v) := by
  intro r
  obtain ⟨⟨ha0, hal⟩, hb⟩ := findImplLoopG_spec lim unl hc ls (unl 0) 0
  have hmin : ∀ j (hj : j < lrs.length), top r.1.dist ≤ lrs[j].exit := by
    intro j hj
    rw [hex j hj]
    cases j with
    | zero => simpa [h0] using ha0
    | succ j =>
      have hj' : j < ls.length := by omega
      simpa using hal ls[j] (List.getElem_mem hj')
  refine ⟨?_, ?_⟩
  · intro t ht hlt
    apply nested_const_before lrs hok t ht
    intro L hL
    obtain ⟨j, hj, rfl⟩ := List.mem_iff_getElem.1 hL
    exact lt_of_lt_of_le hlt (hmin j hj)
  · intro d hd0 hdist hsome
    have htop : top r.1.dist = (d : WithTop ℝ) := by rw [hdist]; rfl
    rcases hb with ⟨hr, _⟩ | ⟨a, l, b, hab, hr, hs, hlt0, hla, _⟩
    · -- level 0
      have hp : 0 < lrs.length := by omega
      refine ⟨0, hp, ?_, ?_⟩
      · have : r.2 = 0 := by rw [show r = (unl 0, 0) from hr]
        simpa using this.symm
      · have hexit : lrs[0].exit = (d : WithTop ℝ) := by
          rw [hex 0 hp]
          have : r.1 = unl 0 := by rw [show r = (unl 0, 0) from hr]
          simp only [List.getElem_cons_zero]
          rw [← h0, ← this]; exact htop
        exact nested_changes_at lrs hok 0 hp d hd0 hexit (fun k hk => absurd hk (Nat.not_lt_zero k))
    · -- a deeper level: position a.length + 1
      have hr1 : r.1 = unl l := by rw [show r = (unl l, l) from hr]
      have hr2 : r.2 = l := by rw [show r = (unl l, l) from hr]
      have hal' : a.length < ls.length := by rw [hab]; simp
      have hp : a.length + 1 < lrs.length := by omega
      have hlsl : ls[a.length] = l := by
        simp [hab]
      refine ⟨a.length + 1, hp, ?_, ?_⟩
      · simp only [List.getElem_cons_succ]; rw [hlsl, hr2]
      · have hd : top (unl l).dist = (d : WithTop ℝ) := by rw [← hr1]; exact htop
        have hexit : lrs[a.length + 1].exit = (d : WithTop ℝ) := by
          rw [hex _ hp]
          simp only [List.getElem_cons_succ]
          rw [hlsl]
          unfold found; rw [if_pos hs]; exact hd
        apply nested_changes_at lrs hok (a.length + 1) hp d hd0 hexit
        intro k hk
        rw [hex k (by omega)]
        cases k with
        | zero =>
          simp only [List.getElem_cons_zero]
          rw [← h0, ← hd]; exact hlt0
        | succ k =>
          have hk' : k < a.length := by omega
          simp only [List.getElem_cons_succ]
          have : ls[k]'(by omega) = a[k] := by
            simp [hab, List.getElem_append_left hk']
          rw [this, ← hd]
          exact hla a[k] (List.getElem_mem hk')

/-! ### the bounding interval hierarchy used for point location -/

/-- ★ `BIHTraverser::operator()` on a well-formed BIH is the depth-first traversal, left before
    right, with exactly this descent rule: a leaf offers its volumes whose bbox contains the
    point; an inner node descends into its left child iff `p[axis] < left plane` (strict) and
    into its right child iff it did NOT descend left or `right plane < p[axis]` (strict); the
    `inf_volids` follow.  (Any number type: also the `Float` model that is diffed against the
    real traverser.) -/
theorem bih_sound_order {α : Type} [Num α] (u : SimpleUnit α) (h : bihWellFormed u = true)
    (p : Vec3 α) :
    ∃ t, bihTree u (u.numNodes + 1) 0 = some t ∧
      bihCandidates u p = t.cands u p ++ u.infVols :=
  bihCandidates_eq u h p

/-- ★ the parent-pointer walk ends: it spends at most three loop iterations per node (arrival
    from the parent, from the left child, from the right child), so at most `3 · #nodes` in
    total, and any fuel beyond that is never used — the model's bound `3 · #nodes + 3` is not
    reached and the real `do … while (current_node)` loop terminates on well-formed trees -/
theorem bih_terminates {α : Type} [Num α] (u : SimpleUnit α) (h : bihWellFormed u = true)
    (p : Vec3 α) :
    ∃ t, bihTree u (u.numNodes + 1) 0 = some t ∧ t.steps p ≤ 3 * u.numNodes ∧
      ∀ f, bihLoop u p (t.steps p + f) 0 none = t.cands u p := by
  obtain ⟨t, ht, hr, hid, hl, _, hsz, _⟩ := wellFormed_tree u h
  refine ⟨t, ht, ?_, fun f => walk_root u p t hr hid hl f⟩
  rw [← hsz]; exact steps_le p t

/-- ★ no volume is lost: on a well-formed BIH every volume whose bounding box contains the
    point in its interior is offered to the predicate (and so is every `inf_volid`).  The
    strictness is exactly the traverser's: it compares with `<`, so a point lying EXACTLY on a
    bounding plane that coincides with a face of the volume's bbox is not guaranteed
    (`bih_complete_offPlanes`: with non-strict containment, for points on no bounding plane);
    the builder's boxes are bumped outward by the tolerance, so points of the volume itself
    are interior points of its box. -/
theorem bih_complete (u : SimpleUnit ℝ) (h : bihWellFormed u = true) (p : Vec3 ℝ) (v : ℕ)
    (hv : v < u.volumes.size) (hs : StrictIn (u.vol v) p) : v ∈ bihCandidates u p := by
  obtain ⟨t, ht, _, _, _, hc, _, hp⟩ := wellFormed_tree u h
  obtain ⟨t', ht', he⟩ := bihCandidates_eq u h p
  rw [ht] at ht'; cases ht'
  rw [he]
  have hin := strictIn_inBBox _ _ hs
  rcases placed_cases u t hp v hv with hi | hi | hi
  · exact List.mem_append_right _ hi
  · exact List.mem_append_left _ (cands_of_clear u p v t hi hin (clear_of_strict u p v t hc hs))
  · rw [not_null_of_inBBox _ _ hin] at hi; exact absurd hi (by simp)

theorem bih_complete_offPlanes (u : SimpleUnit ℝ) (h : bihWellFormed u = true) (p : Vec3 ℝ)
    (v : ℕ) (hv : v < u.volumes.size) (hin : inBBox (u.vol v) p = true)
    (hoff : ∀ t, bihTree u (u.numNodes + 1) 0 = some t → OffPlanes p t) :
    v ∈ bihCandidates u p := by
  obtain ⟨t, ht, _, _, _, hc, _, hp⟩ := wellFormed_tree u h
  obtain ⟨t', ht', he⟩ := bihCandidates_eq u h p
  rw [ht] at ht'; cases ht'
  rw [he]
  rcases placed_cases u t hp v hv with hi | hi | hi
  · exact List.mem_append_right _ hi
  · exact List.mem_append_left _
      (cands_of_clear u p v t hi hin (clear_of_offPlanes u p v t hc hin (hoff t ht)))
  · rw [not_null_of_inBBox _ _ hin] at hi; exact absurd hi (by simp)

/-- (partial: tree level only; FULL statement wanted: `bihWellFormed` of the arrays written by
    `BIHBuilder::operator()`.  Missing: node ids / parent pointers assigned by `construct_tree`
    and their remapping in `arrange_nodes`, the `inf_volids` / null-box triage, and
    BIHPartitioner's concrete choice — the last is irrelevant: ANY partitioner that only
    redistributes the indices it is given is covered.  Those parts stay the CHECKED hypothesis:
    the driver evaluates `bihWellFormed` on the real tree of every geometry of every run.)
    Whatever axis and split the partitioner chooses, the planes `construct_tree` stores — upper
    end of the union of the left boxes, lower end of the union of the right boxes — cover every
    box below the respective child, and no index is lost or invented. -/
theorem bihBuild_covered_partial (u : SimpleUnit ℝ)
    (part : List ℕ → Option (ℕ × List ℕ × List ℕ)) (hp : PartSplits part) (f : ℕ)
    (idx : List ℕ) :
    coverOK u (buildTree u part f idx) = true ∧
    ∀ v, v ∈ (buildTree u part f idx).vols ↔ v ∈ idx :=
  ⟨buildTree_cover u part hp f idx, buildTree_vols u part hp f idx⟩

/-! ### non-vacuity -/

/-- a slab −1 < x < 1 (volume 1) between two half spaces (0 and 2); senses (x > −1, x > 1) -/
def slabLoc (s : Array Bool) : ℕ :=
  if !(s.getD 0 false) then 0 else if !(s.getD 1 false) then 1 else 2

example :
    navTrace slabLoc 2 #[false, false] [⟨0, some 2⟩, ⟨1, some 4⟩] = [(1, some 2), (2, some 4)] := by
  simp [navTrace, exitRest, flip1, slabLoc]

example : locTrace slabLoc 0 #[false, false] [⟨0, some 2⟩, ⟨1, some (4 : ℝ)⟩]
    = [(1, some 2), (2, some 4)] := by
  simp [locTrace, flip1, slabLoc]

example : (3 : ℝ) < (maxFinite : ℝ) := by
  unfold maxFinite
  show (3 : ℝ) < (OfScientific.ofScientific 17976931348623157 false 292 : ℝ)
  norm_num

example : LimitedOf (fun _ m => { (Isect.none' : Isect ℝ) with dist := m }) (fun _ => Isect.none') := by
  intro lev m; simp [Isect.none']

example : (levelTransform witnessGeo witnessState 0).isRotation = true := by
  rw [witness_transform]; rfl

example : ∀ h ∈ ([⟨0, some 1⟩] : List (Hit ℝ)), (fun s : Array Bool => s.getD 0 false == false)
    (flip1 #[false] h) = false := by
  intro h hh; simp at hh; subst hh; simp [flip1]

/-- a plane crossed transversally is in general position -/
example : FaceGP (Surface.planeAligned Axis.x 1) ⟨0, 0, 0⟩ ⟨1, 0, 0⟩ := by
  have hq : ∀ t : ℝ, (Surface.planeAligned Axis.x (1 : ℝ)).quadric (along ⟨0, 0, 0⟩ ⟨1, 0, 0⟩ t)
      = t - 1 := by
    intro t
    simp [Surface.quadric, along, Vec3.ax, Axis.toNat, Vec3.get]
  refine ⟨?_, ?_, ?_, ?_⟩
  · simp [Surface.quadric, Vec3.ax, Axis.toNat, Vec3.get]
  · right; left
    refine ⟨rfl, ?_⟩
    simp [Surface.rayCoeffs, Vec3.ax, Axis.toNat, Vec3.get]
  · intro t _ _
    simp [Surface.rayCoeffs, Vec3.ax, Axis.toNat, Vec3.get]
  · intro t _ hz
    rw [hq] at hz
    have : t = 1 := by linarith
    rw [this]
    unfold maxFinite
    show (1 : ℝ) < (OfScientific.ofScientific 17976931348623157 false 292 : ℝ)
    norm_num

example : LevelRay.Ok ⟨fun t => if t < 2 then 1 else 2, 1, ((2 : ℝ) : WithTop ℝ), fun _ => []⟩ := by
  refine ⟨?_, ?_⟩
  · intro t _ ht
    have : t < 2 := WithTop.coe_lt_coe.1 ht
    simp [this]
  · intro d hd
    have : d = 2 := (WithTop.coe_injective hd).symm
    subst this
    exact ⟨1, one_pos, fun t h1 _ => by simp [not_lt.2 (le_of_lt h1)]⟩

/-- the rotated-daughter witness state is level-consistent -/
example : LevelsConsistent witnessGeo witnessState := by
  intro k hk
  have hk0 : k = 0 := by
    have : witnessState.levels.size = 2 := rfl
    omega
  subst hk0
  rw [witness_transform]
  constructor
  · simp [State.lev, witnessState, Transform.down, Transformation.down, gemvT, Mat3.row, Vec3.get,
      Vec3.sub]
  · simp [State.lev, witnessState, Transform.rotDown, Transformation.rotDown, gemvT, Mat3.row,
      Vec3.get]

/-- a well-formed BIH: two boxes [0,1]³ and [2,3]×[0,1]² split on x (planes 1 and 2) -/
noncomputable def bihUnit : SimpleUnit ℝ :=
  { surfaces := #[], conn := #[],
    volumes := #[⟨[], [ltrue], 0, none, ⟨0, 0, 0⟩, ⟨1, 1, 1⟩⟩,
                 ⟨[], [ltrue], 0, none, ⟨2, 0, 0⟩, ⟨3, 1, 1⟩⟩],
    background := none,
    inner := #[⟨none, 0, 1, some 1, 2, some 2⟩],
    leaves := #[⟨some 0, [0]⟩, ⟨some 0, [1]⟩], infVols := [] }

example : bihWellFormed bihUnit = true := by
  simp [bihWellFormed, bihUnit, SimpleUnit.numNodes, bihTree, SimpleUnit.innerNode,
    SimpleUnit.leafNode, SimpleUnit.vol, linksOK, coverOK, BTree.id, BTree.vols, BTree.size,
    allVolsPlaced, bboxNull, Vec3.get, List.range, List.range.loop]

example : StrictIn (bihUnit.vol 0) ⟨1 / 2, 1 / 2, 1 / 2⟩ := by
  intro ax
  match ax with
  | 0 => simp [bihUnit, SimpleUnit.vol, Vec3.get]; norm_num
  | 1 => simp [bihUnit, SimpleUnit.vol, Vec3.get]; norm_num
  | (n + 2) => simp [bihUnit, SimpleUnit.vol, Vec3.get]; norm_num

/-- a partitioner in the sense of `PartSplits`: split a list of at least two at its head -/
example : PartSplits (fun idx => match idx with
    | a :: b :: t => some (0, [a], b :: t)
    | _ => none) := by
  intro idx ax li ri h
  match idx, h with
  | a :: b :: t, h =>
    simp only [Option.some.injEq, Prod.mk.injEq] at h
    obtain ⟨rfl, rfl, rfl⟩ := h
    exact ⟨by decide, fun v => by simp⟩

end CelerVerif.Nav
