/-
C03 — Geometry navigation matches true point location along every ray.
Property theorems only, about the `Num`-generic model Model/Nav.lean read at ℝ (the same
definitions run at `Float` reproduce the real OrangeTrackView / unit trackers field by field:
harness/nav.cc, tools/checks/c03.py).  Helper lemmas: Lemmas/NavCore.lean, NavTrack.lean.

What is NOT proved here (carried by the bit-exact differential run and the independent
point-location oracle): the multi-level composition of the single-level ray-trace theorem,
rays through corners / tangent points (simultaneous or double events), floating-point rounding.
-/
import CelerVerif.Lemmas.NavTrack

namespace CelerVerif.Nav
open CelerVerif CelerVerif.Surf

/-! ### unit tracker: choice of the next surface -/

/-- `complex_intersect`: given the crossing events in ascending order, the result is the FIRST
    crossing after which the volume's logic is false (the logic is true after each earlier
    crossing), the reported sense is the sense held just before that crossing; no result means
    the logic stays true behind every event. -/
theorem complexIntersect_first_exit (inside : Array Bool → Bool) (s : Array Bool)
    (l : List (Hit ℝ)) :
    (∀ h old, firstExit inside s l = some (h, old) →
      ∃ a b, l = a ++ h :: b ∧
        (∀ k, k ≠ 0 → k ≤ a.length → inside (flipAll s (l.take k)) = true) ∧
        inside (flipAll s (a ++ [h])) = false ∧
        old = (flipAll s a).getD h.face false) ∧
    (firstExit inside s l = none →
      ∀ k, k ≠ 0 → k ≤ l.length → inside (flipAll s (l.take k)) = true) :=
  ⟨fun h old hr => firstExit_some inside s l (h, old) hr, firstExit_none inside s l⟩

/-- `simple_intersect`: `min_element` returns a nearest saved intersection, the first of the
    nearest ones; and in a volume where crossing any single face leaves the volume (a "simple"
    volume: no internal surfaces, C10 `flagSimple_sound`) this is exactly the exit that the
    general algorithm (sort, flip, re-evaluate) computes. -/
theorem simpleIntersect_exit (inside : Array Bool → Bool) (s : Array Bool) (hits : List (Hit ℝ))
    (hsimple : ∀ h ∈ hits, inside (flip1 s h) = false) :
    (∀ m, minHit hits = some m →
      m ∈ hits ∧ (∀ x ∈ hits, top m.dist ≤ top x.dist) ∧
      ∃ a b, hits = a ++ m :: b ∧ ∀ x ∈ a, top m.dist < top x.dist) ∧
    firstExit inside s (sortHits hits) = (minHit hits).map fun m => (m, s.getD m.face false) := by
  refine ⟨fun m hm => ⟨minHit_mem _ _ hm, minHit_le _ _ hm, minHit_first _ _ hm⟩, ?_⟩
  have hh := sortHits_head hits
  cases hs : sortHits hits with
  | nil =>
    rw [hs] at hh; simp only [List.head?_nil] at hh
    rw [← hh]; rfl
  | cons x xs =>
    rw [hs] at hh; simp only [List.head?_cons] at hh
    rw [← hh, firstExit_cons]
    have hx : x ∈ hits := (sortHits_mem hits x).1 (by rw [hs]; simp)
    rw [if_pos (hsimple x hx)]
    rfl

/-- ★ a distance-limited search gives the unlimited answer truncated at the limit
    (`intersect(state, max)` vs `intersect(state)` of the simple-unit tracker: filter
    `IsNotFurtherThan` before the min / sort + scan, for simple, complex and background
    volumes alike).  Hypothesis: the limit is below `numeric_limits::max()`. -/
theorem limited_eq_truncated_unlimited (g : Geo ℝ) (u : SimpleUnit ℝ) (st : LocalState ℝ)
    (m : ℝ) (hm : m < (maxFinite : ℝ)) :
    u.intersectImpl g st (.notFurther (some m)) = truncate (some m) (u.intersectImpl g st .finite) := by
  unfold SimpleUnit.intersectImpl gatherHits
  simp only []
  rw [gatherHitsFrom_limited m hm, pickHit_filter]

/-- … in the form used by the level loop: found within the limit ⇒ the unlimited answer,
    otherwise "no surface, distance = limit" -/
theorem intersectMax_simple (g : Geo ℝ) (uid : ℕ) (u : SimpleUnit ℝ) (hu : g.univ uid = .simple u)
    (st : LocalState ℝ) (m : ℝ) (hm : m < (maxFinite : ℝ)) :
    g.intersectMax uid st (some m) =
      if (g.intersect uid st).surf.id.isSome && dle (g.intersect uid st).dist (some m)
      then g.intersect uid st else { (Isect.none' : Isect ℝ) with dist := some m } := by
  unfold Geo.intersectMax Geo.intersect Geo.intersectImpl
  rw [hu]
  simp only []
  rw [limited_eq_truncated_unlimited g u st m hm]
  unfold truncate
  by_cases hc : ((u.intersectImpl g st .finite).surf.id.isSome
      && dle (u.intersectImpl g st .finite).dist (some m)) = true
  · have h1 : (u.intersectImpl g st .finite).surf.id.isSome = true := by
      have : (u.intersectImpl g st .finite).surf.id.isSome = true
          ∧ dle (u.intersectImpl g st .finite).dist (some m) = true := by simpa using hc
      exact this.1
    simp only [hc, if_true]
    have : (u.intersectImpl g st .finite).surf.id.isNone = false := by
      cases h : (u.intersectImpl g st .finite).surf.id <;> simp_all
    simp [this]
  · simp only [hc, Bool.false_eq_true, if_false]
    simp [Isect.none']

/-! ### OrangeTrackView: find_next_step over the levels -/

/-- `find_next_step_impl`: with per-level limited searches that are truncations of the
    unlimited ones, the loop returns the minimum over all levels of the unlimited distances
    (and of the level-0 answer `i0`), attained at the SHALLOWEST level: strict `<`, so a deeper
    level only replaces the current answer when strictly nearer. -/
theorem findNextStep_min_shallowest (lim : ℕ → Option ℝ → Isect ℝ) (unl : ℕ → Isect ℝ)
    (hc : LimitedOf lim unl) (ls : List ℕ) (i0 : Isect ℝ) (l0 : ℕ) :
    let r := findImplLoopG lim ls i0 l0
    (top r.1.dist ≤ top i0.dist ∧ ∀ l ∈ ls, top r.1.dist ≤ found (unl l)) ∧
    ((r = (i0, l0) ∧ ∀ l ∈ ls, top i0.dist ≤ found (unl l)) ∨
     (∃ a l b, ls = a ++ l :: b ∧ r = (unl l, l) ∧ (unl l).surf.id.isSome = true ∧
        top (unl l).dist < top i0.dist ∧ (∀ l' ∈ a, top (unl l).dist < found (unl l')) ∧
        ∀ l' ∈ b, top (unl l).dist ≤ found (unl l'))) :=
  findImplLoopG_spec lim unl hc ls i0 l0

/-- the contract holds for the model's own per-level search whenever the levels are simple
    units and the running limit is a finite distance below `max()` -/
theorem levelLimited_contract (g : Geo ℝ) (s : State ℝ) (lev : ℕ) (u : SimpleUnit ℝ)
    (hu : g.univ (s.lev lev).uid = .simple u) (m : ℝ) (hm : m < (maxFinite : ℝ)) :
    levelLimited g s lev (some m) =
      if (g.intersect (s.lev lev).uid (s.localState lev)).surf.id.isSome
          && dle (g.intersect (s.lev lev).uid (s.localState lev)).dist (some m)
      then g.intersect (s.lev lev).uid (s.localState lev)
      else { (Isect.none' : Isect ℝ) with dist := some m } :=
  intersectMax_simple g _ u hu _ m hm

/-! ### set_dir on a boundary -/

/-- ★ `set_dir` while on a boundary at any nesting level: the boundary flag is flipped exactly
    when the new direction lies on the other side of the surface than the old one, both taken
    in the surface's own frame (the frame of `surface_level`; `n` is the surface normal there,
    directions are the global ones rotated down through the levels above `surface_level`).
    No hypothesis on the transforms (rotations, reflections, translations). -/
theorem setDir_flag_correct (g : Geo ℝ) (s : State ℝ) (newdir : Vec3 ℝ) (sl : ℕ) :
    setDirFlips g s newdir sl =
      (decide (0 ≤ Vec3.dot (localNormal g s sl) (dirAtLevel g s sl newdir))
        != decide (0 ≤ Vec3.dot (localNormal g s sl)
              (dirAtLevel g s sl (s.lev 0).dir))) := by
  have hle : ∀ x : ℝ, Num.le (Num.ofNat 0) x = decide (0 ≤ x) := by
    intro x
    show decide (((0 : ℕ) : ℝ) ≤ x) = _
    simp
  unfold setDirFlips
  simp only [Num.ge, dot_rotateUpFrom, hle]

/-- the loop as written before the repair (`range<int>(level)`) computes the same flag iff …
    here: whenever no level between `surface_level` and the current level carries a rotation
    (in particular when `surface_level = level`) -/
theorem setDir_allLevels_ok_of_translations (g : Geo ℝ) (s : State ℝ) (newdir : Vec3 ℝ) (sl : ℕ)
    (hle : sl ≤ s.lvl)
    (htr : ∀ k, sl ≤ k → k < s.lvl → (levelTransform g s k).isRotation = false) :
    setDirFlipsAllLevels g s newdir sl = setDirFlips g s newdir sl := by
  have key : ∀ d n, sl + d ≤ s.lvl → rotateUpFrom g s (sl + d) n = rotateUpFrom g s sl n := by
    intro d
    induction d with
    | zero => intro n _; rfl
    | succ d ih =>
      intro n hd
      show rotateUpFrom g s (sl + d) ((levelTransform g s (sl + d)).rotUp n) = _
      have hnr := htr (sl + d) (by omega) (by omega)
      have : (levelTransform g s (sl + d)).rotUp n = n := by
        cases ht : levelTransform g s (sl + d) with
        | none => rfl
        | translation _ => rfl
        | transformation t => rw [ht] at hnr; simp [Transform.isRotation] at hnr
      rw [this]
      exact ih n (by omega)
  unfold setDirFlipsAllLevels setDirFlips
  obtain ⟨d, hd⟩ := Nat.exists_eq_add_of_le hle
  rw [hd, key d _ (by omega)]

/-- a rotated-daughter state: level 0 = global unit with the plane x = 5 (surface 0), whose
    volume 1 holds a daughter rotated a quarter turn about z; the track sits at level 1 on the
    level-0 surface, heading +x -/
noncomputable def witnessGeo : Geo ℝ :=
  { tolRel := 0, tolAbs := 0,
    universes := #[.simple { surfaces := #[.planeAligned .x 5], conn := #[[0, 1]],
                             volumes := #[⟨[0], [0], 0, none, ⟨0, 0, 0⟩, ⟨0, 0, 0⟩⟩,
                                          ⟨[0], [0, lnot], 0, some 0, ⟨0, 0, 0⟩, ⟨0, 0, 0⟩⟩],
                             background := none, inner := #[], leaves := #[⟨none, []⟩],
                             infVols := [0, 1] },
                   .simple { surfaces := #[], conn := #[],
                             volumes := #[⟨[], [ltrue, lnot], 2, none, ⟨0, 0, 0⟩, ⟨0, 0, 0⟩⟩,
                                          ⟨[], [ltrue], 0, none, ⟨0, 0, 0⟩, ⟨0, 0, 0⟩⟩],
                             background := none, inner := #[], leaves := #[⟨none, []⟩],
                             infVols := [1] }],
    daughters := #[(1, 0)],
    transforms := #[.transformation ⟨⟨⟨0, -1, 0⟩, ⟨1, 0, 0⟩, ⟨0, 0, 1⟩⟩, ⟨0, 0, 0⟩⟩],
    surfOff := #[0, 1, 1], volOff := #[0, 2, 4] }

noncomputable def witnessState : State ℝ :=
  { levels := #[⟨1, ⟨5, 3 / 10, 0⟩, ⟨1, 0, 0⟩, 0⟩, ⟨1, ⟨3 / 10, -5, 0⟩, ⟨0, -1, 0⟩, 1⟩],
    level := some 1, surfaceLevel := some 0, surf := some 0, sense := false, boundary := true,
    nextLevel := some 0, nextStep := some 0, nextSurf := none, nextSense := false,
    failed := false }

theorem witness_normal : localNormal witnessGeo witnessState 0 = ⟨1, 0, 0⟩ := by
  simp [localNormal, witnessState, witnessGeo, Geo.normal, Geo.univ, SimpleUnit.normal,
    Surface.calcNormal, Surface.gradient, Axis.toNat, Vec3.set]

theorem witness_transform :
    levelTransform witnessGeo witnessState 0
      = .transformation ⟨⟨⟨0, -1, 0⟩, ⟨1, 0, 0⟩, ⟨0, 0, 1⟩⟩, ⟨0, 0, 0⟩⟩ := by
  simp [levelTransform, witnessState, witnessGeo, Geo.daughter, Geo.univ, Geo.daughterInfo]

/-- ★ the defect repaired in aba3908 (DESIGN §8 row a), proved on the model of the loop AS IT
    WAS WRITTEN: with a rotated daughter and `surface_level < level`, turning back inward
    (new direction (−3/5, 4/5, 0) against the normal (1,0,0)) must flip the boundary flag —
    the repaired computation does, the all-levels loop does not. -/
theorem witness_old_dir : (witnessState.lev 0).dir = ⟨1, 0, 0⟩ := by
  simp [State.lev, witnessState]

theorem setDir_allLevels_wrong :
    setDirFlips witnessGeo witnessState ⟨-3 / 5, 4 / 5, 0⟩ 0 = true ∧
    setDirFlipsAllLevels witnessGeo witnessState ⟨-3 / 5, 4 / 5, 0⟩ 0 = false := by
  constructor
  · rw [setDir_flag_correct, witness_normal, witness_old_dir]
    simp only [dirAtLevel, Vec3R.dot_real]
    norm_num
  · have hle : ∀ x : ℝ, Num.le (Num.ofNat 0) x = decide (0 ≤ x) := by
      intro x
      show decide (((0 : ℕ) : ℝ) ≤ x) = _
      simp
    unfold setDirFlipsAllLevels
    have hl : witnessState.lvl = 1 := rfl
    rw [hl]
    simp only [rotateUpFrom, witness_transform, witness_normal, witness_old_dir, Transform.rotUp,
      Transformation.rotUp, gemv, Mat3.row, Vec3.get, Num.ge, Vec3R.dot_real, hle]
    num_simp
    norm_num

/-! ### direction change on the surface just crossed (known finding) -/

/-- after `set_dir` has made the boundary `reentrant`, `find_next_step` answers (0, boundary)
    without touching the state and `cross_boundary` only resets the flag: the volume at every
    level is what it was — also when the surface had ALREADY been crossed, in which case the
    track now moves back into the previous volume while the state stays in the new one
    (known finding `setdir-post-crossing-reentry`; replay corpus/C03/setdir_post_crossing_reentry.ops). -/
theorem reentrant_cross_keeps_volume (g : Geo ℝ) (s : State ℝ) (hb : s.boundary = false) :
    findNextStep g s none = (s, some (Num.ofNat 0), true) ∧
    crossBoundary g s = { s with boundary := true } ∧
    (crossBoundary g s).levels = s.levels := by
  refine ⟨?_, ?_, ?_⟩
  · unfold findNextStep; simp [hb]
  · unfold crossBoundary; simp [hb]
  · unfold crossBoundary; simp [hb]

/-- two half spaces x < 0 (volume 0) and x > 0 (volume 1) separated by the plane x = 0 -/
noncomputable def halfGeo : Geo ℝ :=
  { tolRel := 0, tolAbs := 0,
    universes := #[.simple { surfaces := #[.planeAligned .x 0], conn := #[[0, 1]],
                             volumes := #[⟨[0], [0, lnot], 0, none, ⟨0, 0, 0⟩, ⟨0, 0, 0⟩⟩,
                                          ⟨[0], [0], 0, none, ⟨0, 0, 0⟩, ⟨0, 0, 0⟩⟩],
                             background := none, inner := #[], leaves := #[⟨none, []⟩],
                             infVols := [0, 1] }],
    daughters := #[], transforms := #[], surfOff := #[0, 1], volOff := #[0, 2] }

/-- the state right after `cross_boundary` from volume 0 into volume 1 at the origin, heading +x
    (on surface 0 with the post-crossing sense `outside`, flag `exiting`) -/
noncomputable def halfState : State ℝ :=
  { levels := #[⟨1, ⟨0, 0, 0⟩, ⟨1, 0, 0⟩, 0⟩],
    level := some 0, surfaceLevel := some 0, surf := some 0, sense := true, boundary := true,
    nextLevel := some 0, nextStep := some 0, nextSurf := none, nextSense := false,
    failed := false }

theorem half_flips : setDirFlips halfGeo halfState ⟨-1, 0, 0⟩ 0 = true := by
  rw [setDir_flag_correct]
  have hn : localNormal halfGeo halfState 0 = ⟨1, 0, 0⟩ := by
    simp [localNormal, halfState, halfGeo, Geo.normal, Geo.univ, SimpleUnit.normal,
      Surface.calcNormal, Surface.gradient, Axis.toNat, Vec3.set]
  have ho : (halfState.lev 0).dir = ⟨1, 0, 0⟩ := by simp [State.lev, halfState]
  rw [hn, ho]
  simp only [dirAtLevel, Vec3R.dot_real]
  norm_num

/-- independent point location (the model's `initialize` on a fresh point) puts (−1,0,0) in
    volume 0 -/
theorem half_locate : halfGeo.initialize 0 ⟨-1, 0, 0⟩ = some 0 := by
  have h1 : Num.le (-1 : ℝ) 0 = true := by rw [NumR.le_real]; norm_num
  have h2 : Num.lt (-1 : ℝ) 0 = true := by rw [NumR.lt_real]; norm_num
  simp [h1, h2, Geo.initialize, Geo.univ, halfGeo, SimpleUnit.initialize, bihCandidates, bihLoop,
    bihNext, initScan, calcSenses, calcSensesFrom, Surface.calcSense, Surface.quadric, realToSense,
    evalLogic, evalLogicStep, lnot, lbegin, ltrue, lor, land, Vec3.ax, Axis.toNat, Vec3.get]

/-- ★ NEGATION of "changing direction while sitting on a boundary never desynchronises the
    reported volume from the actual position" on the model (= the real code, bit for bit: the
    known finding `setdir-post-crossing-reentry`).  On the surface just crossed into volume 1,
    `set_dir(−x)` makes the boundary reentrant, `find_next_step` answers (0, boundary),
    `cross_boundary` is the null-op, the reported volume is still 1 — while the point one unit
    further along the new direction is located in volume 0. -/
theorem setDir_postCrossing_desync :
    let s1 := setDir halfGeo halfState ⟨-1, 0, 0⟩
    let s2 := (findNextStep halfGeo s1 none).1
    let s3 := crossBoundary halfGeo s2
    s1.boundary = false ∧
    (findNextStep halfGeo s1 none).2 = (some (Num.ofNat 0), true) ∧
    (s3.lev 0).vol = 1 ∧ (s3.lev 0).dir = ⟨-1, 0, 0⟩ ∧
    halfGeo.initialize 0 (Vec3.axpy 1 (s3.lev 0).dir (s3.lev 0).pos) = some 0 := by
  have hb : (setDir halfGeo halfState ⟨-1, 0, 0⟩).boundary = false := by
    unfold setDir
    have hsl : halfState.surfaceLevel = some 0 := rfl
    simp only [hsl, half_flips, if_true, State.clearNext]
    rfl
  have hlev : (setDir halfGeo halfState ⟨-1, 0, 0⟩).levels
      = #[⟨1, ⟨0, 0, 0⟩, ⟨-1, 0, 0⟩, 0⟩] := by
    unfold setDir
    have hsl : halfState.surfaceLevel = some 0 := rfl
    simp only [hsl, half_flips, if_true, State.clearNext]
    simp [halfState, State.lvl, dirDown, halfGeo, Geo.daughter, Geo.univ, List.range, List.range.loop]
  obtain ⟨hf, _, hcl⟩ := reentrant_cross_keeps_volume halfGeo _ hb
  have hl3 : (crossBoundary halfGeo (findNextStep halfGeo
      (setDir halfGeo halfState ⟨-1, 0, 0⟩) none).1).levels
      = #[⟨1, ⟨0, 0, 0⟩, ⟨-1, 0, 0⟩, 0⟩] := by rw [hf]; simp only []; rw [hcl, hlev]
  have hax : Vec3.axpy (1 : ℝ) (⟨-1, 0, 0⟩ : Vec3 ℝ) ⟨0, 0, 0⟩ = ⟨-1, 0, 0⟩ := by
    simp [Vec3R.axpy_real]
  refine ⟨hb, by rw [hf], ?_, ?_, ?_⟩
  · simp [State.lev, hl3]
  · simp [State.lev, hl3]
  · simp only [State.lev, hl3]
    simpa [hax] using half_locate

/-! ### single-level ray tracing = point location -/

/-- ★ (partial: one level; FULL statement wanted: the same for nested universes — by induction
    on depth with `findNextStep_min_shallowest` — and for piecewise-straight paths with
    `set_dir`, which is false for a direction reversal on the surface just crossed, see
    `reentrant_cross_keeps_volume`.)
    One universe, a straight ray whose crossing events `evs` (face, distance; ascending, as the
    surface code reports them — C12 `isect_on_surface` / `isect_complete`) obey parity
    semantics: on each open interval between consecutive events the senses are the start
    senses flipped once per event passed (C12 `sense_eq_sign`); volumes partition the sense
    vectors (`loc`).  Then the navigator — find_next_step = first exit of the current volume's
    logic, cross_boundary = the volume whose logic holds just behind the exit — visits exactly
    the volumes, at exactly the distances, that independent point location reports; in
    particular no boundary is skipped or invented. -/
theorem ray_trace_matches_location_partial (loc : Array Bool → ℕ) (s0 : Array Bool)
    (evs : List (Hit ℝ)) :
    navTrace loc evs.length s0 evs = locTrace loc (loc s0) s0 evs :=
  navTrace_eq_locTrace loc evs.length s0 evs (le_refl _)

/-- termination: every crossing consumes at least one event of the finite list, so the ray
    leaves the world after at most `evs.length` crossings -/
theorem ray_trace_terminates (loc : Array Bool → ℕ) (s0 : Array Bool) (evs : List (Hit ℝ)) :
    (navTrace loc evs.length s0 evs).length ≤ evs.length := by
  rw [ray_trace_matches_location_partial]
  exact locTrace_length loc _ _ _

/-! ### non-vacuity -/

/-- a slab −1 < x < 1 (volume 1) between two half spaces (0 and 2); senses (x > −1, x > 1) -/
def slabLoc (s : Array Bool) : ℕ :=
  if !(s.getD 0 false) then 0 else if !(s.getD 1 false) then 1 else 2

example :
    navTrace slabLoc 2 #[false, false] [⟨0, some 2⟩, ⟨1, some 4⟩] = [(1, some 2), (2, some 4)] := by
  simp [navTrace, exitRest, flip1, slabLoc]

example : locTrace slabLoc 0 #[false, false] [⟨0, some 2⟩, ⟨1, some (4 : ℝ)⟩]
    = [(1, some 2), (2, some 4)] := by
  simp [locTrace, flip1, slabLoc]

example : (3 : ℝ) < (maxFinite : ℝ) := by
  unfold maxFinite
  show (3 : ℝ) < (OfScientific.ofScientific 17976931348623157 false 292 : ℝ)
  norm_num

example : LimitedOf (fun _ m => { (Isect.none' : Isect ℝ) with dist := m }) (fun _ => Isect.none') := by
  intro lev m; simp [Isect.none']

example : (levelTransform witnessGeo witnessState 0).isRotation = true := by
  rw [witness_transform]; rfl

example : ∀ h ∈ ([⟨0, some 1⟩] : List (Hit ℝ)), (fun s : Array Bool => s.getD 0 false == false)
    (flip1 #[false] h) = false := by
  intro h hh; simp at hh; subst hh; simp [flip1]

end CelerVerif.Nav
