/-
C17 — user scoring receives exactly the steps that happened.

Theorems over the model `CelerVerif/Model/Gather.lean` of StepGatherExecutor / StepGatherAction /
copy_steps / SimpleCalo / ActionDiagnostic / StepDiagnostic, for every number of slots, every
(stale) previous content of the step state, every selection, detector map and filter setting,
every number of callbacks, and every value type `α` (no arithmetic law is used: the calorimeter
statements hold bit-for-bit for IEEE doubles).
-/
import CelerVerif.Lemmas.GatherBasic
import CelerVerif.Lemmas.GatherRun
import CelerVerif.Generated.GatherEnums

namespace CelerVerif.Gather
variable {α : Type} [DepVal α]

/-! ### the model is about the fields / statuses the source has today -/

theorem status_values_match :
    stInactive = Generated.Gather.status_inactive ∧
    stInitializing = Generated.Gather.status_initializing ∧
    stAlive = Generated.Gather.status_alive ∧
    stErrored = Generated.Gather.status_errored ∧
    stKilled = Generated.Gather.status_killed ∧
    Generated.Gather.invalidStatuses = ["errored", "inactive"] := by decide

theorem field_inventories_match :
    pointWrites = Generated.Gather.gatherPointWrites ∧
    postWrites = Generated.Gather.gatherPostWrites ∧
    copyFieldNames = Generated.Gather.copyFields ∧
    Generated.Gather.pointFlags = pointWrites ∧
    Generated.Gather.stepFlags.length = postWrites.length := by decide

/-! ### ★ delivered ⇔ active ∧ passes the declared filters -/

/-- ★ one slot over one step, for ANY previous (stale) slot content `s`: after the pre- and
    post-step gather the slot is marked delivered (valid track id, and valid detector id when
    detectors are in use) iff the slot is active at the post point and passes the declared
    filters.  Hypothesis: an active track has a valid track id (sim invariant, C02). -/
theorem delivered_iff_slot (p : Params) (pre : Option (PointRead α)) (post : Option (PostRead α))
    (s : SlotData α) (hid : ∀ q, post = some q → q.trackId.isSome = true) :
    delivered p (stepSlot p pre post s) = true ↔ ∃ q, post = some q ∧ passes p pre q :=
  delivered_iff_slot_aux p pre post s hid

/-- ★ the same for slot `i` of the whole gathered state -/
theorem delivered_iff (p : Params) (pre : List (Option (PointRead α)))
    (post : List (Option (PostRead α))) (st : StepState α) (i : Nat) (hi : i < st.length)
    (hid : ∀ q, post.getD i none = some q → q.trackId.isSome = true) :
    (∃ s, (gatherStep p pre post st)[i]? = some s ∧ delivered p s = true) ↔
      ∃ q, post.getD i none = some q ∧ passes p (pre.getD i none) q := by
  rw [gatherStep_getElem?, List.getElem?_eq_getElem hi]
  simp only [Option.map_some, Option.some.injEq, exists_eq_left']
  exact delivered_iff_slot p _ _ _ hid

example : delivered (α := Nat) ⟨{ edep := true }, some [some 0, none], true⟩
    (stepSlot ⟨{ edep := true }, some [some 0, none], true⟩
      (some ⟨some 0, false, 0, ⟨0, 0, 0⟩, ⟨0, 0, 0⟩, 0⟩)
      (some ⟨some 7, some 0, none, 1, some 2, 0, some 0, 1,
             ⟨some 0, false, 0, ⟨0, 0, 0⟩, ⟨0, 0, 0⟩, 0⟩, 2⟩) SlotData.init) = true := by
  decide
-- the same step with zero deposit is filtered, and so is a step in an unmapped volume
example : delivered (α := Nat) ⟨{ edep := true }, some [some 0, none], true⟩
    (stepSlot ⟨{ edep := true }, some [some 0, none], true⟩
      (some ⟨some 0, false, 0, ⟨0, 0, 0⟩, ⟨0, 0, 0⟩, 0⟩)
      (some ⟨some 7, some 0, none, 1, some 2, 0, some 0, 0,
             ⟨some 0, false, 0, ⟨0, 0, 0⟩, ⟨0, 0, 0⟩, 0⟩, 2⟩) SlotData.init) = false := by
  decide
example : passes (α := Nat) ⟨{ edep := true }, some [some 0, none], true⟩
    (some ⟨some 0, false, 0, ⟨0, 0, 0⟩, ⟨0, 0, 0⟩, 0⟩)
    ⟨some 7, some 0, none, 1, some 2, 0, some 0, 1, ⟨some 0, false, 0, ⟨0, 0, 0⟩, ⟨0, 0, 0⟩, 0⟩, 2⟩ :=
  fun _ => ⟨_, rfl, by decide, by decide⟩

/-! ### ★ exactly once per callback -/

/-- ★ (fan-out) every registered callback is handed exactly one view per step, in order, and that
    view is the gathered state of this step: raw callbacks see the state itself, compacting
    callbacks its `copy_steps`, calorimeters the state folded into their own tally -/
theorem delivered_once_per_callback (sel : Selection) (st : StepState α) (cbs : List CbKind)
    (tallies : List (List α)) :
    List.Forall₂ (viewOf sel st) cbs (fanOut sel st cbs tallies).1 :=
  fanOut_forall₂ sel st cbs tallies

/-- ★ (compaction) in what a compacting callback receives, every delivered slot occurs exactly
    once, undelivered slots do not occur, and the order is the slot order -/
theorem compaction_exactly_once (st : StepState α) (i : Nat) :
    (validIdx st).count i = (if ∃ s, st[i]? = some s ∧ s.detector.isSome = true then 1 else 0) ∧
    (validIdx st).Pairwise (· < ·) ∧
    validSlots st = (validIdx st).filterMap (fun i => st[i]?) := by
  refine ⟨?_, validIdx_pairwise st, validSlots_eq st⟩
  rw [List.Nodup.count (validIdx_nodup st)]
  simp only [mem_validIdx]

/-- every selected vector of the compacted output has one entry per delivered slot -/
theorem copySteps_lengths (sel : Selection) (st : StepState α) :
    (copySteps sel st).detector.length = (validIdx st).length ∧
    (copySteps sel st).trackId.length = (validIdx st).length ∧
    (sel.edep = true → (copySteps sel st).edep.length = (validIdx st).length) ∧
    (sel.edep = false → (copySteps sel st).edep = []) := by
  refine ⟨?_, ?_, ?_, ?_⟩
  · simp [copySteps, assignField, validSlots_length]
  · simp [copySteps, assignField, validSlots_length]
  · intro h; simp [copySteps, assignField, h, validSlots_length]
  · intro h; simp [copySteps, assignField, h]

example : validIdx (α := Nat) [{ SlotData.init with detector := some 1 }, SlotData.init,
    { SlotData.init with detector := some 0 }] = [0, 2] := by decide

/-! ### delivered field values equal the track state -/

/-- for a delivered slot every selected field holds the value read from the track at the
    corresponding step point (post-point fields from the post reading, pre-point fields from the
    pre reading), whatever the slot contained before -/
theorem fields_equal_state (p : Params) (r : PointRead α) (q : PostRead α) (s : SlotData α)
    (hpass : passes p (some r) q) :
    let s' := stepSlot p (some r) (some q) s
    s'.trackId = q.trackId ∧
    (p.sel.eventId = true → s'.eventId = q.eventId) ∧
    (p.sel.parentId = true → s'.parentId = q.parentId) ∧
    (p.sel.trackStepCount = true → s'.stepCount = q.numSteps) ∧
    (p.sel.actionId = true → s'.actionId = q.action) ∧
    (p.sel.stepLength = true → s'.stepLength = q.stepLength) ∧
    (p.sel.particle = true → s'.particle = q.particle) ∧
    (p.sel.edep = true → s'.edep = q.edep) ∧
    (p.sel.post.time = true → s'.post.time = q.pt.time) ∧
    (p.sel.post.pos = true → s'.post.pos = q.pt.pos) ∧
    (p.sel.post.dir = true → s'.post.dir = q.pt.dir) ∧
    (p.sel.post.volume = true → s'.post.volume = (if q.pt.outside then none else q.pt.volRaw)) ∧
    (p.sel.post.energy = true → s'.post.energy = q.pt.energy) ∧
    (p.sel.pre.time = true → s'.pre.time = r.time) ∧
    (p.sel.pre.pos = true → s'.pre.pos = r.pos) ∧
    (p.sel.pre.dir = true → s'.pre.dir = r.dir) ∧
    (p.sel.pre.volume = true → s'.pre.volume = (if r.outside then none else r.volRaw)) ∧
    (p.sel.pre.energy = true → s'.pre.energy = r.energy) ∧
    (p.detector.isSome = true → s'.detector = detOf p r.volRaw) :=
  fields_equal_state_aux p r q s hpass

/-! ### ★ calorimeter -/

/-- ★ one step: the tally of detector `d` after `simple_calo_accum` is the previous tally plus the
    deposits of exactly the delivered slots of detector `d`, added in slot order (a left fold, so
    the statement is exact for floating point) -/
theorem calo_eq_sum_delivered (st : StepState α) (calo : List α) (d : Nat) (hd : d < calo.length) :
    (caloAccum st calo)[d]? = some (depositFold d (validSlots st) calo[d]) := by
  rw [caloAccum_getElem?, List.getElem?_eq_getElem hd]; rfl

/-- ★ a whole run on one stream: the tally is the fold of the deposits of the concatenated stream
    of delivered steps -/
theorem calo_run_eq_sum_delivered (steps : List (StepState α)) (calo : List α) (d : Nat)
    (hd : d < calo.length) :
    (runCalo steps calo)[d]? = some (depositFold d (steps.flatMap validSlots) calo[d]) := by
  rw [runCalo_getElem?, List.getElem?_eq_getElem hd]; rfl

example : caloAccum (α := Nat)
    [{ SlotData.init with detector := some 0, edep := 1 }, SlotData.init,
     { SlotData.init with detector := some 0, edep := 2 }] [5] = [8] := by decide

/-- NEGATIVE RESULT (defect of the code as written; the model reproduces the real tallies
    bit-for-bit, tools/checks/c17.py key `two-calorimeters-share-detector-ids`): two SimpleCalo
    callbacks on DIFFERENT volumes (2 and 3) registered in one StepCollector.  Each numbers its
    detectors from 0, `StepParams` merges the two maps into ONE volume → detector table, so both
    volumes map to detector id 0; every calorimeter then adds the deposits of BOTH volumes to its
    detector 0.  A step with deposit 1 in volume 2 and deposit 2 in volume 3: each calorimeter
    reports 3, while the deposits in its own declared volume are 1 resp. 2. -/
theorem two_calorimeters_share_detector_ids :
    let ifs := [caloIface [2], caloIface [3]]
    let p : Params := ⟨{ edep := true, pre := { volume := true } },
                        some [none, none, some 0, some 0, none], true⟩
    let rd (v : Nat) : PointRead Nat := ⟨some v, false, 0, ⟨0, 0, 0⟩, ⟨0, 0, 0⟩, 0⟩
    let ps (tid v e : Nat) : PostRead Nat :=
      ⟨some tid, some 0, none, 1, some 2, 0, some 0, e, rd v, 2⟩
    let st := gatherStep p [some (rd 2), some (rd 3)] [some (ps 0 2 1), some (ps 1 3 2)]
                [SlotData.init, SlotData.init]
    -- the constructor accepts the pair and builds the shared table
    mergeParams 5 ifs = .ok p ∧
    -- both steps are delivered, with the SAME detector id
    st.map (·.detector) = [some 0, some 0] ∧
    -- what the two calorimeters tally (fan-out as written) …
    (fanOut p.sel st [.calo 1, .calo 1] [[0], [0]]).2 = [[3], [3]] ∧
    -- … is not the deposit in the calorimeter's own volume
    depositFold 0 (st.filter (fun s => s.pre.volume == some 2)) 0 = 1 ∧
    depositFold 0 (st.filter (fun s => s.pre.volume == some 3)) 0 = 2 := by
  decide +kernel

/-! ### diagnostics -/

/-- the action diagnostic's counter of (particle `pt`, action `a`) grows in one step by exactly
    the number of slots holding a valid (active, not errored) track of particle `pt` whose
    post-step action is `a`.  Hypotheses = the executor's compiled-out assertions: action ids are
    below the number of actions, the bin exists. -/
theorem diagnostics_eq_counts (nbins : Nat) (reads : List (Option (PostRead α)))
    (counts : List Nat) (pt a : Nat) (ha : a < nbins)
    (hact : ∀ q a', some q ∈ reads → q.action = some a' → a' < nbins)
    (hb : pt * nbins + a < counts.length) :
    (adiagStep nbins reads counts)[pt * nbins + a]? =
      some (counts[pt * nbins + a] + reads.countP (fun r => match r with
        | some q => isTrackValid q.status && q.particle == some pt && q.action == some a
        | none => false)) := by
  rw [adiagStep_getElem?, List.getElem?_eq_getElem hb]
  simp only [Option.map_some, Option.some.injEq, Nat.add_left_cancel_iff]
  apply List.countP_congr
  intro r hr
  cases r with
  | none => simp [adiagBin]
  | some q =>
    simp only [adiagBin]
    by_cases hv : isTrackValid q.status = true
    · cases hp : q.particle with
      | none => simp [hv]
      | some p' =>
        cases hq : q.action with
        | none => simp [hv]
        | some a' =>
          have ha' := hact q a' hr hq
          simp only [hv, if_true, Bool.true_and, beq_iff_eq, Option.some.injEq, Bool.and_eq_true]
          constructor
          · intro h
            have := bin_inj ha' ha h
            exact ⟨this.1, this.2⟩
          · rintro ⟨h1, h2⟩
            subst h1 h2; rfl
    · simp [hv]

/-- the same at the level of the action sequence, which runs the diagnostic only when the state
    has more than one track slot (see `adiagSeqStep`) -/
theorem diagnostics_eq_counts_seq (nslots nbins : Nat) (reads : List (Option (PostRead α)))
    (counts : List Nat) (pt a : Nat) (hslots : nslots ≠ 1) (ha : a < nbins)
    (hact : ∀ q a', some q ∈ reads → q.action = some a' → a' < nbins)
    (hb : pt * nbins + a < counts.length) :
    (adiagSeqStep nslots nbins reads counts)[pt * nbins + a]? =
      some (counts[pt * nbins + a] + reads.countP (fun r => match r with
        | some q => isTrackValid q.status && q.particle == some pt && q.action == some a
        | none => false)) := by
  have : (nslots == 1) = false := by simpa using hslots
  rw [adiagSeqStep, this]
  exact diagnostics_eq_counts nbins reads counts pt a ha hact hb

/-- NEGATIVE RESULT (defect of the code as written, replayed on the real code by
    tools/checks/c17.py, key `action-diagnostic-skipped-single-slot`): with ONE track slot the
    action diagnostic counts nothing although a valid step is delivered — "action diagnostics
    equal the counts of delivered steps" is false for `num_track_slots = 1` on host. -/
theorem action_diagnostic_single_slot_counts_nothing :
    let q : PostRead Nat :=
      ⟨some 0, some 0, none, 1, some 2, 0, some 1, 0, ⟨some 0, false, 0, ⟨0, 0, 0⟩, ⟨0, 0, 0⟩, 0⟩, 2⟩
    let p : Params := ⟨{ actionId := true, particle := true }, none, false⟩
    -- the step is delivered to the (unfiltered) callbacks …
    delivered p (stepSlot p none (some q) SlotData.init) = true ∧
    -- … the executor would count it …
    adiagStep 3 [some q] [0, 0, 0, 0, 0, 0] = [0, 0, 0, 0, 0, 1] ∧
    -- … but the sequence never runs the executor
    adiagSeqStep 1 3 [some q] [0, 0, 0, 0, 0, 0] = [0, 0, 0, 0, 0, 0] := by decide

/-- the step diagnostic's counter (particle `pt`, bin `k`) grows by the number of slots whose
    track was killed in this step with `min(num_steps, nbins-1) = k` -/
theorem step_diagnostic_eq_counts (nbins : Nat) (reads : List (Option (PostRead α)))
    (counts : List Nat) (pt k : Nat) (hk : k < nbins) (hb : pt * nbins + k < counts.length) :
    (sdiagStep nbins reads counts)[pt * nbins + k]? =
      some (counts[pt * nbins + k] + reads.countP (fun r => match r with
        | some q => q.status == stKilled && q.particle == some pt
                      && min q.numSteps (nbins - 1) == k
        | none => false)) := by
  rw [sdiagStep_getElem?, List.getElem?_eq_getElem hb]
  simp only [Option.map_some, Option.some.injEq, Nat.add_left_cancel_iff]
  apply List.countP_congr
  intro r _
  cases r with
  | none => simp [sdiagBin]
  | some q =>
    simp only [sdiagBin]
    by_cases hkill : q.status = stKilled
    · have hv : isTrackValid stKilled = true := by decide
      cases hp : q.particle with
      | none => simp [hv, hkill]
      | some p' =>
        have hm : min q.numSteps (nbins - 1) < nbins := by omega
        simp only [hv, hkill, beq_self_eq_true, and_self, Bool.and_self, if_true, Bool.true_and, beq_iff_eq,
          Option.some.injEq, Bool.and_eq_true]
        constructor
        · intro h
          have := bin_inj hm hk h
          exact ⟨this.1, this.2⟩
        · rintro ⟨h1, h2⟩
          subst h1; rw [h2]
    · have : (q.status == stKilled) = false := by simpa using hkill
      simp [this]

/-- with an unfiltered collector that selects particle and action, the steps counted by the
    action diagnostic under (pt, a) are exactly the delivered steps with that particle and action
    (hypotheses: sim invariants of active slots at the post point — valid track id, and no slot
    is still `errored` after the tracking-cut action) -/
theorem action_counts_eq_delivered_counts (p : Params) (pre : List (Option (PointRead α)))
    (post : List (Option (PostRead α))) (st : StepState α) (pt a : Nat)
    (hnodet : p.detector = none) (hsa : p.sel.actionId = true) (hsp : p.sel.particle = true)
    (hlen : post.length = st.length)
    (hinv : ∀ q, some q ∈ post → q.trackId.isSome = true ∧ isTrackValid q.status = true) :
    post.countP (fun r => match r with
        | some q => isTrackValid q.status && q.particle == some pt && q.action == some a
        | none => false) =
      (gatherStep p pre post st).countP
        (fun s => delivered p s && s.particle == some pt && s.actionId == some a) := by
  apply countP_eq_of_pointwise
  · rw [gatherStep_length, hlen]
  · intro i r s hr hs
    rw [gatherStep_getElem?] at hs
    have hgd : post.getD i none = r := by rw [List.getD_eq_getElem?_getD, hr]; rfl
    cases hst : st[i]? with
    | none => simp [hst] at hs
    | some s0 =>
      simp only [hst, Option.map_some, Option.some.injEq, hgd] at hs
      subst hs
      cases r with
      | none => simp [stepSlot, gatherPostSlot, delivered]
      | some q =>
        have hq := hinv q (List.mem_of_getElem? hr)
        have hd : p.detector.isSome = false := by simp [hnodet]
        simp [stepSlot, gatherPostSlot, delivered, hd, hnodet, writePost, hsa, hsp, hq.1, hq.2]

example : adiagStep (α := Nat) 3
    [some ⟨some 0, some 0, none, 1, some 2, 0, some 1, 0, ⟨some 0, false, 0, ⟨0, 0, 0⟩, ⟨0, 0, 0⟩, 0⟩, 2⟩,
     none,
     some ⟨some 1, some 0, none, 1, some 2, 0, some 1, 0, ⟨some 0, false, 0, ⟨0, 0, 0⟩, ⟨0, 0, 0⟩, 0⟩, 3⟩]
    [0, 0, 0, 0, 0, 0] = [0, 0, 0, 0, 0, 1] := by decide

/-! ### the thread → slot indirection does not matter -/

/-- re-indexing (any `track_slots` permutation, any thread order) yields the same gathered state:
    the executors are slot-local -/
theorem gather_perm_invariant (p : Params) (pre : List (Option (PointRead α)))
    (post : List (Option (PostRead α))) (st : StepState α) (slots₁ slots₂ : List Nat)
    (h₁ : slots₁.Perm (List.range st.length)) (h₂ : slots₂.Perm (List.range st.length))
    (hpre : hasPreAction p = true) :
    launch (gatherPostSlot p) (fun i => post.getD i none) slots₂
        (launch (gatherPreSlot p) (fun i => pre.getD i none) slots₁ st) =
      gatherStep p pre post st := by
  rw [launch_perm_invariant _ _ slots₁ st h₁]
  have hl : (mapSlots (gatherPreSlot p) (fun i => pre.getD i none) st).length = st.length := by
    simp [mapSlots]
  rw [launch_perm_invariant _ _ slots₂ _ (by rw [hl]; exact h₂)]
  simp [gatherStep, gatherPost, gatherPre, hpre]

example : launch (fun (r : Nat) (s : Nat) => r + s) (fun i => 10 * i) [2, 0, 1] [1, 1, 1] =
    mapSlots (fun (r : Nat) (s : Nat) => r + s) (fun i => 10 * i) [1, 1, 1] := by decide

end CelerVerif.Gather
