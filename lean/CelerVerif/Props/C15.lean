/-
C15 — Random samplers respect their support and target distributions.
Property theorems only: the ℝ reading of the `Num`-generic model Model/Dist.lean, which is run
bit-exactly at `Float` (sample AND draw count) against the real templates instantiated with a
ScriptedEngine by harness/dist.cc.  A script is the list of canonical uniforms the generator
returns; `Canon u` is 0 ≤ u < 1, `CanonPos u` is 0 < u < 1 (used wherever the code takes log u:
for u = 0 the code computes log 0 = −∞, which has no counterpart in ℝ — those cases are shown on
the real code by the check, keys `exponential-u0-inf`, `normal-u0-nonfinite`).
Helper lemmas: Lemmas/DistReal.lean, DistSimple.lean, DistLoops.lean, DistMore.lean,
DistPoisson.lean, DistUrban.lean, DistUrbanSample.lean.
-/
import CelerVerif.Lemmas.DistMore
import CelerVerif.Lemmas.DistPoisson
import CelerVerif.Lemmas.DistUrbanSample
import CelerVerif.Lemmas.DistIoni

namespace CelerVerif.Dist
open CelerVerif

/-! ## UniformRealDistribution  [a, b) -/

/-- ★ support: a ≤ x ≤ b, and x < b when the interval is non-degenerate -/
theorem uniform_support (a b u x : ℝ) (us rest : List ℝ) (hab : a ≤ b) (hu : Canon u)
    (h : (UniformReal.mk' a b).sample (u :: us) = some (x, rest)) :
    a ≤ x ∧ x ≤ b ∧ (a < b → x < b) := by
  rw [uniform_eval] at h
  simp only [Option.some.injEq, Prod.mk.injEq] at h
  obtain ⟨rfl, _⟩ := h
  exact affine_mem hab hu

/-- inverse CDF: F(x) = (x − a)/(b − a) = u -/
theorem uniform_cdf (a b u x : ℝ) (us rest : List ℝ) (hab : a < b)
    (h : (UniformReal.mk' a b).sample (u :: us) = some (x, rest)) : (x - a) / (b - a) = u := by
  rw [uniform_eval] at h
  simp only [Option.some.injEq, Prod.mk.injEq] at h
  obtain ⟨rfl, _⟩ := h
  have : b - a ≠ 0 := by linarith
  field_simp
  ring

theorem uniform_draws (a b : ℝ) : DrawsExactly (UniformReal.mk' a b).sample 1 :=
  drawsExactly_one _ (fun u => (b - a) * u + a) rfl (fun u us => uniform_eval a b u us)

/-! ## ExponentialDistribution  x ≥ 0 -/

/-- ★ support for u ∈ (0,1): x > 0.  (u = 0: the code returns −log(0)/λ = +∞, see header.) -/
theorem exponential_support (lam u x : ℝ) (us rest : List ℝ) (hl : 0 < lam) (hu : CanonPos u)
    (h : exponential lam (u :: us) = some (x, rest)) : 0 < x := by
  rw [exponential_eval] at h
  simp only [Option.some.injEq, Prod.mk.injEq] at h
  obtain ⟨rfl, _⟩ := h
  have hlog : Real.log u < 0 := Real.log_neg hu.1 hu.2
  have : -1 / lam < 0 := by apply div_neg_of_neg_of_pos <;> linarith
  exact mul_pos_of_neg_of_neg hlog this

/-- inverse CDF: F(x) = 1 − e^{−λx} = 1 − u  (u and 1 − u are both uniform) -/
theorem exponential_cdf (lam u x : ℝ) (us rest : List ℝ) (hl : 0 < lam) (hu : CanonPos u)
    (h : exponential lam (u :: us) = some (x, rest)) : 1 - Real.exp (-(lam * x)) = 1 - u := by
  rw [exponential_eval] at h
  simp only [Option.some.injEq, Prod.mk.injEq] at h
  obtain ⟨rfl, _⟩ := h
  have e : -(lam * (Real.log u * (-1 / lam))) = Real.log u := by field_simp
  rw [e, Real.exp_log hu.1]

theorem exponential_draws (lam : ℝ) : DrawsExactly (exponential lam) 1 :=
  drawsExactly_one _ (fun u => Real.log u * (-1 / lam)) rfl (fun u us => exponential_eval lam u us)

/-! ## NormalDistribution (Box–Muller; no rejection) -/

/-- draw count: two uniforms when no spare value is stored, none when one is -/
theorem normal_draws (n : Normal ℝ) (s : List ℝ) :
    (n.spare = none → (s.length < 2 → n.sample s = none) ∧
      ∀ u1 u2 rest, s = u1 :: u2 :: rest → ∃ x sp, n.sample s = some (x, { n with spare := some sp }, rest)) ∧
    (∀ sp, n.spare = some sp →
      n.sample s = some (sp * n.stddev + n.mean, { n with spare := none }, s)) := by
  refine ⟨fun h => ⟨normal_fresh_short n h s, ?_⟩, fun sp h => normal_eval_spare n sp h s⟩
  intro u1 u2 rest hs
  subst hs
  exact ⟨_, _, normal_eval_fresh n h u1 u2 rest⟩

/-- Box–Muller: two consecutive samples (x₁, x₂) from a fresh distribution use exactly two
    uniforms, and the standardised pair lies on the circle of radius √(−2 ln u₂) at angle
    2π·u₁ — the polar form whose law is the product of two standard normals -/
theorem normal_box_muller (m sd u1 u2 : ℝ) (rest : List ℝ) (hsd : 0 < sd) (hu2 : CanonPos u2) :
    ∃ x1 x2, Normal.sampleN 2 ⟨m, sd, none⟩ (u1 :: u2 :: rest) = some ([x1, x2], ⟨m, sd, none⟩, rest) ∧
      (x1 - m) / sd = Real.sqrt (-2 * Real.log u2) * Real.sin (twopi * u1) ∧
      (x2 - m) / sd = Real.sqrt (-2 * Real.log u2) * Real.cos (twopi * u1) ∧
      ((x1 - m) / sd) ^ 2 + ((x2 - m) / sd) ^ 2 = -2 * Real.log u2 := by
  have hne : sd ≠ 0 := ne_of_gt hsd
  refine ⟨Real.sqrt (-2 * Real.log u2) * Real.sin (twopi * u1) * sd + m,
          Real.sqrt (-2 * Real.log u2) * Real.cos (twopi * u1) * sd + m, ?_, ?_, ?_, ?_⟩
  · simp only [Normal.sampleN]
    rw [normal_eval_fresh _ rfl]
    simp only []
    rw [normal_eval_spare _ _ rfl]
  · field_simp; ring
  · field_simp; ring
  · have hr : 0 ≤ -2 * Real.log u2 := by
      have := Real.log_neg hu2.1 hu2.2; linarith
    have e1 : (Real.sqrt (-2 * Real.log u2) * Real.sin (twopi * u1) * sd + m - m) / sd
        = Real.sqrt (-2 * Real.log u2) * Real.sin (twopi * u1) := by field_simp; ring
    have e2 : (Real.sqrt (-2 * Real.log u2) * Real.cos (twopi * u1) * sd + m - m) / sd
        = Real.sqrt (-2 * Real.log u2) * Real.cos (twopi * u1) := by field_simp; ring
    rw [e1, e2]
    have hs := Real.sq_sqrt hr
    have hsc := Real.sin_sq_add_cos_sq (twopi * u1)
    nlinarith [hs, hsc]

/-- special members as written (copy assignment "keep spare value but change distribution",
    move assignment, move constructor): after `dst = src` (copy or move) the parameters are the
    SOURCE's, so the next two samples of a target without pending spare value are
    mean_src + stddev_src·z₁, mean_src + stddev_src·z₂; a pending spare deviate of the target is
    kept and scaled with the source's parameters; the move constructor hands the spare value
    over and clears it in the moved-from object -/
theorem normal_assign_params (dst src : Normal ℝ) (u1 u2 : ℝ) (rest : List ℝ) :
    ((dst.copyAssign src).mean = src.mean ∧ (dst.copyAssign src).stddev = src.stddev ∧
      (dst.copyAssign src).spare = dst.spare) ∧
    ((dst.moveAssign src).1.mean = src.mean ∧ (dst.moveAssign src).1.stddev = src.stddev) ∧
    ((src.moveCtor).1 = ⟨src.mean, src.stddev, src.spare⟩ ∧ (src.moveCtor).2.spare = none) ∧
    (dst.spare = none → ∃ n', Normal.sampleN 2 (dst.copyAssign src) (u1 :: u2 :: rest) =
      some ([Real.sqrt (-2 * Real.log u2) * Real.sin (twopi * u1) * src.stddev + src.mean,
             Real.sqrt (-2 * Real.log u2) * Real.cos (twopi * u1) * src.stddev + src.mean], n', rest)) ∧
    (∀ sp, dst.spare = some sp → ∃ n', (dst.copyAssign src).sample rest =
      some (sp * src.stddev + src.mean, n', rest)) := by
  refine ⟨⟨rfl, rfl, rfl⟩, ?_, ⟨rfl, rfl⟩, ?_, ?_⟩
  · unfold Normal.moveAssign
    cases dst.spare <;> cases src.spare <;> exact ⟨rfl, rfl⟩
  · intro hd
    have hsp : (dst.copyAssign src).spare = none := hd
    refine ⟨⟨src.mean, src.stddev, none⟩, ?_⟩
    simp only [Normal.sampleN]
    rw [normal_eval_fresh _ hsp]
    simp only []
    rw [normal_eval_spare _ _ rfl]
    rfl
  · intro sp hd
    have hsp : (dst.copyAssign src).spare = some sp := hd
    exact ⟨_, normal_eval_spare _ sp hsp rest⟩

/-! ## GammaDistribution (Marsaglia–Tsang rejection)  x > 0 -/

/-- ★ support and soundness of the rejection loop: whatever the fuel and the script, a returned
    value is d·v³·β (times U^{1/α} when α < 1) for a triple (z, v = 1 + c z > 0, u) that passed
    the Marsaglia–Tsang acceptance test, and it is positive -/
theorem gamma_support (alpha beta : ℝ) (ha : 0 < alpha) (hb : 0 < beta) (fuel : ℕ) (s : List ℝ)
    (x : ℝ) (g' : Gamma ℝ) (rest : List ℝ)
    (h : (Gamma.mk' alpha beta).sample fuel s = some (x, g', rest)) :
    0 < x ∧
    ∃ z v u, 0 < v ∧ v = 1 + (Gamma.mk' alpha beta).c * z ∧
      (u ≤ 1 - 331 / 10000 * ((z * z) * (z * z)) ∨
        Real.log u ≤ 1 / 2 * (z * z)
          + (Gamma.mk' alpha beta).d * (1 - v * v * v + Real.log (v * v * v))) ∧
      (x = (Gamma.mk' alpha beta).d * (v * v * v) * beta ∨
        ∃ u', x = (Gamma.mk' alpha beta).d * (v * v * v) * beta * Real.exp (1 / alpha * Real.log u')) := by
  have hd := gamma_mk_d_pos alpha beta ha
  have hbeta : (Gamma.mk' alpha beta).beta = beta := (gamma_mk_fields alpha beta).2.1
  have halpha : (Gamma.mk' alpha beta).alpha = alpha := (gamma_mk_fields alpha beta).1
  unfold Gamma.sample at h
  split at h
  · simp at h
  · next v3 n' s' heq =>
    obtain ⟨z, v, u, hv, hvz, hv3, hacc⟩ := gamma_outer_spec _ _ _ _ _ _ _ heq
    rw [gamma_accept_iff] at hacc
    have hv3pos : 0 < v3 := by rw [hv3]; positivity
    rw [hbeta, halpha] at h
    split_ifs at h with hne
    · split at h
      · simp at h
      · next u' s'' =>
        simp only [Option.some.injEq, Prod.mk.injEq] at h
        obtain ⟨hx, _, _⟩ := h
        rw [fastpow_real] at hx
        dist_simp at hx
        subst hx
        refine ⟨by positivity, z, v, u, hv, hvz, ?_, Or.inr ⟨u', by rw [hv3]⟩⟩
        rw [← hv3]; exact hacc
    · simp only [Option.some.injEq, Prod.mk.injEq] at h
      obtain ⟨hx, _, _⟩ := h
      dist_simp at hx
      subst hx
      refine ⟨by positivity, z, v, u, hv, hvz, ?_, Or.inl (by rw [hv3])⟩
      rw [← hv3]; exact hacc

/-- per-iteration acceptance: the squeeze `u ≤ 1 − 0.0331 z⁴` alone accepts, so an iteration
    with normal deviate z is accepted with probability at least 1 − 0.0331 z⁴ -/
theorem gamma_squeeze_accepts (d z v3 u : ℝ) (h : u ≤ 1 - 331 / 10000 * ((z * z) * (z * z))) :
    Gamma.accept d z v3 u = true := (gamma_accept_iff d z v3 u).mpr (Or.inl h)

/-! ## PoissonDistribution -/

/-- ★ direct method (λ ≤ 16): the result k is the first index at which the running product
    e^λ·u₁⋯u_{k+1} drops to ≤ 1, and exactly k + 1 uniforms are consumed -/
theorem poisson_direct_first (lam : ℝ) (hl : lam ≤ 16) (s : List ℝ) (k : ℕ) (d' : Poisson ℝ)
    (rest : List ℝ) (h : (Poisson.mk' lam).sample s = some (k, d', rest)) :
    ∃ pre, s = pre ++ rest ∧ pre.length = k + 1 ∧ Real.exp lam * pre.prod ≤ 1 ∧
      ∀ j, 0 < j → j < pre.length → 1 < Real.exp lam * (pre.take j).prod := by
  unfold Poisson.sample at h
  have hle : Num.le (Poisson.mk' lam).lambda (lambdaThreshold : ℝ) = true := by
    unfold Poisson.mk' lambdaThreshold; dist_simp; exact hl
  rw [if_pos hle] at h
  split at h
  · simp at h
  · next k0 s' heq =>
    simp only [Option.some.injEq, Prod.mk.injEq] at h
    obtain ⟨hk, _, hr⟩ := h
    subst hk; subst hr
    obtain ⟨pre, hs, hlen, _, hp, hj⟩ := direct_spec s 0 _ _ _ heq
    refine ⟨pre, hs, by simpa using hlen, ?_, ?_⟩
    · simpa [Poisson.mk'] using hp
    · intro j h0 hjl; simpa [Poisson.mk'] using hj j h0 hjl

/-- termination / bounded draws of the direct method: it stops at the latest at the first
    position where the running product is ≤ e^{−λ} -/
theorem poisson_direct_terminates (lam : ℝ) (hl : lam ≤ 16) (s : List ℝ)
    (hstop : ∃ j, 0 < j ∧ j ≤ s.length ∧ Real.exp lam * (s.take j).prod ≤ 1) :
    ∃ k d' rest, (Poisson.mk' lam).sample s = some (k, d', rest) := by
  unfold Poisson.sample
  have hle : Num.le (Poisson.mk' lam).lambda (lambdaThreshold : ℝ) = true := by
    unfold Poisson.mk' lambdaThreshold; dist_simp; exact hl
  rw [if_pos hle]
  obtain ⟨n, rest, hd⟩ := direct_terminates s 0 (Num.exp (Poisson.mk' lam).lambda)
    (by simpa [Poisson.mk'] using hstop)
  rw [hd]
  exact ⟨n, _, rest, rfl⟩

/-- ★ Gaussian branch (λ > 16), code as repaired in /repo 73ca547
    (`rounded > 0 ? result_type(rounded) : 0`): the count is the normal sample x rounded to the
    nearest integer and clamped at 0, i.e. ⌊x + ½⌋₊ — in particular never a wrapped negative.
    The only hypothesis is that the count fits the 32-bit result type (x + ½ < 2³²; the result
    type cannot represent more, λ ≲ 4·10⁹). -/
theorem poisson_gauss_support (lam : ℝ) (hl : 16 < lam) (s : List ℝ) (x : ℝ) (n' : Normal ℝ)
    (rest : List ℝ) (hx : (Poisson.mk' lam).normal.sample s = some (x, n', rest))
    (hhi : x + 1 / 2 < 2 ^ 32) :
    ∃ d', (Poisson.mk' lam).sample s = some (⌊x + 1 / 2⌋.toNat, d', rest) := by
  rw [poisson_gauss_eval lam hl s x n' rest hx]
  have hk : (if 0 < x + 1 / 2 then castU32 (x + 1 / 2) else 0) = ⌊x + 1 / 2⌋.toNat := by
    split_ifs with hpos
    · rw [castU32_of_range _ (by linarith) hhi]
    · have : ⌊x + 1 / 2⌋ ≤ 0 := Int.floor_nonpos (not_lt.mp hpos)
      rw [Int.toNat_eq_zero.mpr this]
  rw [hk]
  exact ⟨_, rfl⟩

/-- lower tail: a normal sample with x + ½ ≤ 0 gives the count 0 (no hypothesis on its size) -/
theorem poisson_gauss_lower_tail (lam : ℝ) (hl : 16 < lam) (s : List ℝ) (x : ℝ) (n' : Normal ℝ)
    (rest : List ℝ) (hx : (Poisson.mk' lam).normal.sample s = some (x, n', rest))
    (hlo : x + 1 / 2 ≤ 0) : ∃ d', (Poisson.mk' lam).sample s = some (0, d', rest) := by
  rw [poisson_gauss_eval lam hl s x n' rest hx, if_neg (not_lt.mpr hlo)]
  exact ⟨_, rfl⟩

/-- the lower tail is reachable by canonical uniforms, and the clamp is what keeps the result in
    range: at λ = 17, u₁ = ¾, u₂ = e^{−18} ∈ (0,1) the sampler returns 0, while the bare
    conversion `static_cast<unsigned>(x + ½)` of the code before 73ca547 gives a value ≥ 2³¹
    for this very sample.  The check replays such scripts on the real code
    (corpus/C15/witnesses.ops; key `poisson-gaussian-negative` if the wrap reappears). -/
theorem poisson_gauss_clamp_needed :
    ∃ lam u1 u2 x : ℝ, 16 < lam ∧ CanonPos u1 ∧ CanonPos u2 ∧
      (∃ n', (Poisson.mk' lam).normal.sample [u1, u2] = some (x, n', [])) ∧
      (∃ d', (Poisson.mk' lam).sample [u1, u2] = some (0, d', [])) ∧
      2 ^ 31 ≤ castU32 (x + 1 / 2) := by
  obtain ⟨x, n', hx, hlo, hhi⟩ := poisson_witness_sample
  refine ⟨17, 3 / 4, Real.exp (-18), x, by norm_num, witness_canon.1, witness_canon.2,
    ⟨n', hx⟩, poisson_gauss_lower_tail 17 (by norm_num) _ x n' [] hx (by linarith), ?_⟩
  apply castU32_wrap _ _ hhi
  have : (-(2 : ℝ) ^ 31) ≤ -100 := by norm_num
  linarith

/-! ## ReciprocalDistribution  [a, b) (bounds may be reversed) -/

/-- ★ support -/
theorem reciprocal_support (a b u x : ℝ) (us rest : List ℝ) (ha : 0 < a) (hb : 0 < b)
    (hu : Canon u) (h : reciprocal a b (u :: us) = some (x, rest)) :
    (a ≤ b → a ≤ x ∧ x ≤ b ∧ (a < b → x < b)) ∧ (b ≤ a → b ≤ x ∧ x ≤ a ∧ (b < a → b < x)) := by
  rw [reciprocal_eval] at h
  simp only [Option.some.injEq, Prod.mk.injEq] at h
  obtain ⟨rfl, _⟩ := h
  obtain ⟨hu0, hu1⟩ := hu
  have hr : 1 / a * b = b / a := by field_simp
  rw [hr]
  have hba : 0 < b / a := div_pos hb ha
  have key : a * Real.exp (Real.log (b / a)) = b := by rw [Real.exp_log hba]; field_simp
  have k0 : a * Real.exp (Real.log (b / a) * 0) = a := by simp
  constructor
  · intro hab
    have hL : 0 ≤ Real.log (b / a) := Real.log_nonneg (by rw [le_div_iff₀ ha]; linarith)
    refine ⟨?_, ?_, fun hlt => ?_⟩
    · calc a = a * Real.exp (Real.log (b / a) * 0) := k0.symm
        _ ≤ a * Real.exp (Real.log (b / a) * u) := by
          apply mul_le_mul_of_nonneg_left _ (le_of_lt ha)
          apply Real.exp_le_exp.mpr; nlinarith
    · calc a * Real.exp (Real.log (b / a) * u) ≤ a * Real.exp (Real.log (b / a)) := by
            apply mul_le_mul_of_nonneg_left _ (le_of_lt ha)
            apply Real.exp_le_exp.mpr; nlinarith
        _ = b := key
    · have hLp : 0 < Real.log (b / a) := Real.log_pos (by rw [lt_div_iff₀ ha]; linarith)
      calc a * Real.exp (Real.log (b / a) * u) < a * Real.exp (Real.log (b / a)) := by
            apply mul_lt_mul_of_pos_left _ ha
            apply Real.exp_lt_exp.mpr; nlinarith
        _ = b := key
  · intro hab
    have hL : Real.log (b / a) ≤ 0 := Real.log_nonpos (le_of_lt hba) (by rw [div_le_one ha]; exact hab)
    refine ⟨?_, ?_, fun hlt => ?_⟩
    · calc b = a * Real.exp (Real.log (b / a)) := key.symm
        _ ≤ a * Real.exp (Real.log (b / a) * u) := by
          apply mul_le_mul_of_nonneg_left _ (le_of_lt ha)
          apply Real.exp_le_exp.mpr; nlinarith
    · calc a * Real.exp (Real.log (b / a) * u) ≤ a * Real.exp (Real.log (b / a) * 0) := by
            apply mul_le_mul_of_nonneg_left _ (le_of_lt ha)
            apply Real.exp_le_exp.mpr; nlinarith
        _ = a := k0
    · have hLn : Real.log (b / a) < 0 := Real.log_neg hba (by rw [div_lt_one ha]; exact hlt)
      calc b = a * Real.exp (Real.log (b / a)) := key.symm
        _ < a * Real.exp (Real.log (b / a) * u) := by
          apply mul_lt_mul_of_pos_left _ ha
          apply Real.exp_lt_exp.mpr; nlinarith

/-- inverse CDF: F(x) = ln(x/a)/ln(b/a) = u -/
theorem reciprocal_cdf (a b u x : ℝ) (us rest : List ℝ) (ha : 0 < a) (hb : 0 < b) (hab : a ≠ b)
    (h : reciprocal a b (u :: us) = some (x, rest)) :
    Real.log (x / a) / Real.log (b / a) = u := by
  rw [reciprocal_eval] at h
  simp only [Option.some.injEq, Prod.mk.injEq] at h
  obtain ⟨rfl, _⟩ := h
  have hr : 1 / a * b = b / a := by field_simp
  rw [hr]
  have hba : 0 < b / a := div_pos hb ha
  have hne1 : b / a ≠ 1 := by
    intro h1; rw [div_eq_one_iff_eq (ne_of_gt ha)] at h1; exact hab h1.symm
  have hL : Real.log (b / a) ≠ 0 := Real.log_ne_zero_of_pos_of_ne_one hba hne1
  have e : a * Real.exp (Real.log (b / a) * u) / a = Real.exp (Real.log (b / a) * u) := by
    field_simp
  rw [e, Real.log_exp]
  field_simp

theorem reciprocal_draws (a b : ℝ) : DrawsExactly (reciprocal a b) 1 :=
  drawsExactly_one _ (fun u => a * Real.exp (Real.log (1 / a * b) * u)) rfl
    (fun u us => reciprocal_eval a b u us)

/-! ## InverseSquareDistribution -/

/-- ★ support: x ∈ (a, b] (x = b exactly at u = 0; the header documents "a ≤ x < b") -/
theorem inverseSquare_support (a b u x : ℝ) (us rest : List ℝ) (ha : 0 < a) (hab : a ≤ b)
    (hu : Canon u) (h : inverseSquare a b (u :: us) = some (x, rest)) :
    a ≤ x ∧ x ≤ b ∧ (a < b → a < x) := by
  rw [inverseSquare_eval] at h
  simp only [Option.some.injEq, Prod.mk.injEq] at h
  obtain ⟨rfl, _⟩ := h
  obtain ⟨hD0, hD1, hD2⟩ := affine_mem hab hu
  have hD : 0 < (b - a) * u + a := by linarith
  have hb : 0 < b := by linarith
  refine ⟨?_, ?_, fun hlt => ?_⟩
  · rw [le_div_iff₀ hD]; nlinarith
  · rw [div_le_iff₀ hD]; nlinarith
  · rw [lt_div_iff₀ hD]; have := hD2 hlt; nlinarith

/-- inverse CDF: F(x) = b(x − a)/(x(b − a)) = 1 − u -/
theorem inverseSquare_cdf (a b u x : ℝ) (us rest : List ℝ) (ha : 0 < a) (hab : a < b)
    (hu : Canon u) (h : inverseSquare a b (u :: us) = some (x, rest)) :
    b * (x - a) / (x * (b - a)) = 1 - u := by
  rw [inverseSquare_eval] at h
  simp only [Option.some.injEq, Prod.mk.injEq] at h
  obtain ⟨rfl, _⟩ := h
  obtain ⟨hD0, _, _⟩ := affine_mem (le_of_lt hab) hu
  have hD : (b - a) * u + a ≠ 0 := by linarith
  have hb : b ≠ 0 := by linarith
  have hba : b - a ≠ 0 := by linarith
  have ha' : a ≠ 0 := ne_of_gt ha
  field_simp
  ring

theorem inverseSquare_draws (a b : ℝ) : DrawsExactly (inverseSquare a b) 1 :=
  drawsExactly_one _ (fun u => a * b / ((b - a) * u + a)) rfl
    (fun u us => inverseSquare_eval a b u us)

/-! ## RadialDistribution  [0, R) -/

/-- ★ support and inverse CDF F(r) = (r/R)³ = u -/
theorem radial_support_cdf (r u x : ℝ) (us rest : List ℝ) (hr : 0 < r) (hu : Canon u)
    (h : radial r (u :: us) = some (x, rest)) : 0 ≤ x ∧ x < r ∧ (x / r) ^ 3 = u := by
  rw [radial_eval] at h
  simp only [Option.some.injEq, Prod.mk.injEq] at h
  obtain ⟨rfl, _⟩ := h
  have h0 : 0 ≤ u ^ ((1 : ℝ) / 3) := Real.rpow_nonneg hu.1 _
  have h1 : u ^ ((1 : ℝ) / 3) < 1 := Real.rpow_lt_one hu.1 hu.2 (by norm_num)
  refine ⟨by positivity, by nlinarith, ?_⟩
  have e : u ^ ((1 : ℝ) / 3) * r / r = u ^ ((1 : ℝ) / 3) := by field_simp
  rw [e, rpow_third_cube hu.1]

theorem radial_draws (r : ℝ) : DrawsExactly (radial r) 1 :=
  drawsExactly_one _ (fun u => u ^ ((1 : ℝ) / 3) * r) rfl (fun u us => radial_eval r u us)

/-! ## IsotropicDistribution -/

/-- ★ the sampled direction is a unit vector; its z component is 2u₁ − 1 (uniform on [−1,1))
    and its azimuth is twopi·u₂; exactly two uniforms are consumed -/
theorem isotropic_unit (u1 u2 : ℝ) (us rest : List ℝ) (v : Vec3 ℝ) (hu1 : Canon u1)
    (h : isotropic (u1 :: u2 :: us) = some (v, rest)) :
    v.x * v.x + v.y * v.y + v.z * v.z = 1 ∧ v.z = 2 * u1 - 1 ∧ (v.z + 1) / 2 = u1 ∧ rest = us := by
  rw [isotropic_eval] at h
  simp only [Option.some.injEq, Prod.mk.injEq] at h
  obtain ⟨rfl, hr⟩ := h
  obtain ⟨h0, h1⟩ := hu1
  have hs : 0 ≤ 1 - (2 * u1 - 1) * (2 * u1 - 1) := by nlinarith
  have hsq := Real.mul_self_sqrt hs
  have hsc := Real.sin_sq_add_cos_sq (twopi * u2)
  refine ⟨?_, rfl, by ring, hr.symm⟩
  simp only []
  nlinarith [hsq, hsc]

theorem isotropic_draws : DrawsExactly (isotropic (α := ℝ)) 2 := by
  intro s
  match s with
  | [] => exact ⟨fun _ => rfl, fun h => absurd h (by simp)⟩
  | [_] => exact ⟨fun _ => rfl, fun h => absurd h (by simp)⟩
  | u1 :: u2 :: us => exact ⟨fun h => absurd h (by simp), fun _ => ⟨_, isotropic_eval u1 u2 us⟩⟩

/-! ## UniformBoxDistribution -/

/-- ★ every coordinate lies in [lo, hi] (below hi where the box has extent) -/
theorem uniformBox_support (lo hi v : Vec3 ℝ) (u1 u2 u3 : ℝ) (us rest : List ℝ)
    (hx : lo.x ≤ hi.x) (hy : lo.y ≤ hi.y) (hz : lo.z ≤ hi.z)
    (h1 : Canon u1) (h2 : Canon u2) (h3 : Canon u3)
    (h : uniformBox lo hi (u1 :: u2 :: u3 :: us) = some (v, rest)) :
    (lo.x ≤ v.x ∧ v.x ≤ hi.x ∧ (lo.x < hi.x → v.x < hi.x)) ∧
    (lo.y ≤ v.y ∧ v.y ≤ hi.y ∧ (lo.y < hi.y → v.y < hi.y)) ∧
    (lo.z ≤ v.z ∧ v.z ≤ hi.z ∧ (lo.z < hi.z → v.z < hi.z)) ∧ rest = us := by
  rw [uniformBox_eval] at h
  simp only [Option.some.injEq, Prod.mk.injEq] at h
  obtain ⟨rfl, hr⟩ := h
  exact ⟨affine_mem hx h1, affine_mem hy h2, affine_mem hz h3, hr.symm⟩

/-! ## BernoulliDistribution -/

/-- ★ returns `true` exactly when u < p: probability p for p ∈ [0,1]; one draw -/
theorem bernoulli_iff (p u : ℝ) (us rest : List ℝ) (r : Bool)
    (h : bernoulli p (u :: us) = some (r, rest)) : (r = true ↔ u < p) ∧ rest = us := by
  rw [bernoulli_eval] at h
  simp only [Option.some.injEq, Prod.mk.injEq] at h
  obtain ⟨rfl, hr⟩ := h
  exact ⟨by simp, hr.symm⟩

/-- two-argument constructor: p = t/(t + f) ∈ [0,1] -/
theorem bernoulli2_iff (t f u : ℝ) (us rest : List ℝ) (r : Bool) (ht : 0 ≤ t) (hf : 0 ≤ f)
    (hpos : 0 < t ∨ 0 < f) (h : bernoulli2 t f (u :: us) = some (r, rest)) :
    (r = true ↔ u < t / (t + f)) ∧ 0 ≤ t / (t + f) ∧ t / (t + f) ≤ 1 := by
  unfold bernoulli2 at h
  dist_simp at h
  have hs : 0 < t + f := by rcases hpos with h | h <;> linarith
  exact ⟨(bernoulli_iff _ u us rest r h).1, by positivity, by rw [div_le_one hs]; linarith⟩

/-! ## Selector -/

/-- ★ the selected index is valid for EVERY weight list and total (also inconsistent ones) -/
theorem selector_valid_index (w : List ℝ) (total u : ℝ) (us rest : List ℝ) (i : ℕ) (hw : w ≠ [])
    (h : select w total (u :: us) = some (i, rest)) : i < w.length ∧ rest = us := by
  simp only [select, Option.some.injEq, Prod.mk.injEq] at h
  obtain ⟨hi, hr⟩ := h
  have hb := (selectLoop_bounds w.dropLast (-total * u) 0).2
  have hl : 0 < w.length := List.length_pos_iff.mpr hw
  simp only [List.length_dropLast] at hb
  rw [hi] at hb
  exact ⟨by omega, hr.symm⟩

/-- the selected index is the first one whose cumulative weight exceeds total·u (the last index
    when none does) -/
theorem selector_first (w : List ℝ) (total u : ℝ) (us rest : List ℝ) (i : ℕ) (hw : w ≠ [])
    (h : select w total (u :: us) = some (i, rest)) :
    (∀ m, m < i → (w.take (m + 1)).sum ≤ total * u) ∧
    (i + 1 < w.length → total * u < (w.take (i + 1)).sum) := by
  have hv := (selector_valid_index w total u us rest i hw h).1
  simp only [select, Option.some.injEq, Prod.mk.injEq] at h
  obtain ⟨hi, _⟩ := h
  obtain ⟨h1, h2⟩ := selectLoop_spec w.dropLast (-total * u) 0
  simp only [Nat.sub_zero] at h1 h2
  dist_simp at hi
  rw [hi] at h1 h2
  constructor
  · intro m hm
    have := h1 m hm
    rw [take_dropLast_sum w (m + 1) (by omega)] at this
    linarith
  · intro hlt
    have := h2 (by simp only [List.length_dropLast]; omega)
    rw [take_dropLast_sum w (i + 1) (by omega)] at this
    linarith

/-- ★ with a consistent positive total, index i is selected exactly when total·u lies in
    [w₀+…+w_{i−1}, w₀+…+w_i): probability w_i/total, and the selected weight is positive -/
theorem selector_interval (w : List ℝ) (total u : ℝ) (us rest : List ℝ) (i : ℕ) (hw : w ≠ [])
    (htot : total = w.sum) (hpos : 0 < total) (hu : Canon u)
    (h : select w total (u :: us) = some (i, rest)) :
    (w.take i).sum ≤ total * u ∧ total * u < (w.take (i + 1)).sum := by
  obtain ⟨h1, h2⟩ := selector_first w total u us rest i hw h
  have hv := (selector_valid_index w total u us rest i hw h).1
  obtain ⟨hu0, hu1⟩ := hu
  constructor
  · cases i with
    | zero => simp; positivity
    | succ i => exact h1 i (by omega)
  · by_cases hl : i + 1 < w.length
    · exact h2 hl
    · have : w.take (i + 1) = w := List.take_of_length_le (by omega)
      rw [this, ← htot]
      nlinarith

/-! ## RejectionSampler -/

/-- one test: `true` (= reject, keep looping) exactly when f < fmax·u; one draw -/
theorem rejectionSampler_iff (f fmax u : ℝ) (us rest : List ℝ) (r : Bool)
    (h : rejectionSampler f fmax (u :: us) = some (r, rest)) :
    (r = true ↔ f < fmax * u) ∧ rest = us := by
  rw [rejectionSampler_eval] at h
  simp only [Option.some.injEq, Prod.mk.injEq] at h
  obtain ⟨rfl, hr⟩ := h
  exact ⟨by simp, hr.symm⟩

/-- ★ the documented loop `do x = sample(); while (RejectionSampler{f(x), fmax}(rng))` with a
    uniform proposal: it returns at the FIRST (proposal, test) pair of the script that lies
    under the target (fmax·u₂ ≤ f(x)), every earlier pair having been rejected; the number of
    draws is twice the number of iterations; and the value lies in the proposal's support -/
theorem rejectionLoop_accepts_under_target (f : ℝ → ℝ) (a b fmax : ℝ) (s rest : List ℝ) (x : ℝ)
    (h : rejectionLoop f (UniformReal.mk' a b) fmax s = some (x, rest)) :
    ∃ pre u1 u2, s = pre ++ u1 :: u2 :: rest ∧ pairsRejected f a b fmax pre ∧
      pre.length % 2 = 0 ∧ s.length = rest.length + pre.length + 2 ∧
      x = (b - a) * u1 + a ∧ fmax * u2 ≤ f x := by
  obtain ⟨pre, u1, u2, hs, hr, hx, hacc⟩ := rejectionLoop_spec f a b fmax s x rest h
  refine ⟨pre, u1, u2, hs, hr, pairsRejected_even f a b fmax pre hr, ?_, hx, hacc⟩
  rw [hs]; simp; omega

/-! ## TsaiUrbanDistribution  cos θ ∈ [−1, 1] -/

/-- ★ support, first-accept characterisation and draw count (3 per iteration) -/
theorem tsai_support (energy mass : ℝ) (he : 0 ≤ energy) (hm : 0 < mass) (s rest : List ℝ) (x : ℝ)
    (hs : ∀ u ∈ s, CanonPos u) (h : tsaiUrban (tsaiUmax energy mass) s = some (x, rest)) :
    (-1 ≤ x ∧ x ≤ 1) ∧
    ∃ pre u1 u2 u3, s = pre ++ u1 :: u2 :: u3 :: rest ∧ tsaiRejected (tsaiUmax energy mass) pre ∧
      pre.length % 3 = 0 ∧ tsaiU u1 u2 u3 ≤ tsaiUmax energy mass := by
  obtain ⟨pre, u1, u2, u3, hsplit, hrej, hle, hx⟩ := tsai_spec _ s x rest h
  have humax : 2 ≤ tsaiUmax energy mass := by
    unfold tsaiUmax; dist_simp
    have : 0 ≤ energy / mass := div_nonneg he (le_of_lt hm)
    linarith
  have hu1 : CanonPos u1 := hs u1 (by rw [hsplit]; simp)
  have hu2 : CanonPos u2 := hs u2 (by rw [hsplit]; simp)
  have hU : 0 ≤ tsaiU u1 u2 u3 := by
    unfold tsaiU; dist_simp
    have hp : 0 < u1 * u2 := mul_pos hu1.1 hu2.1
    have hp1 : u1 * u2 < 1 := by nlinarith [hu1.1, hu1.2, hu2.1, hu2.2]
    have hl : Real.log (u1 * u2) < 0 := Real.log_neg hp hp1
    split_ifs
    · nlinarith
    · have : (0 : ℝ) < 8 / 5 / 3 := by norm_num
      nlinarith
  refine ⟨?_, pre, u1, u2, u3, hsplit, hrej, tsaiRejected_len _ pre hrej, hle⟩
  have hpos : 0 < tsaiUmax energy mass := by linarith
  have hq0 : 0 ≤ tsaiU u1 u2 u3 / tsaiUmax energy mass := div_nonneg hU (le_of_lt hpos)
  have hq1 : tsaiU u1 u2 u3 / tsaiUmax energy mass ≤ 1 := by rw [div_le_one hpos]; exact hle
  rw [hx]
  constructor <;> nlinarith

/-- per-iteration acceptance: an iteration is accepted whenever u₁u₂ ≥ e^{−umax/1.6}
    (so with probability at least P(Gamma(2,1) ≤ umax/1.6) ≥ P(Gamma(2,1) ≤ 1.25)) -/
theorem tsai_accept_of_product (umax u1 u2 u3 : ℝ) (hu1 : CanonPos u1) (hu2 : CanonPos u2)
    (humax : 0 ≤ umax) (h : Real.exp (-(umax / (8 / 5))) ≤ u1 * u2) : tsaiU u1 u2 u3 ≤ umax := by
  unfold tsaiU; dist_simp
  have hp : 0 < u1 * u2 := mul_pos hu1.1 hu2.1
  have hp1 : u1 * u2 < 1 := by nlinarith [hu1.1, hu1.2, hu2.1, hu2.2]
  have hl : Real.log (u1 * u2) < 0 := Real.log_neg hp hp1
  have hlog : -(umax / (8 / 5)) ≤ Real.log (u1 * u2) := by
    rw [← Real.log_exp (-(umax / (8 / 5)))]
    exact Real.log_le_log (Real.exp_pos _) h
  have hthird : umax / 3 ≤ umax := div_le_self humax (by norm_num)
  split_ifs
  · have : -Real.log (u1 * u2) * (8 / 5) ≤ umax / (8 / 5) * (8 / 5) := by nlinarith
    calc -Real.log (u1 * u2) * (8 / 5) ≤ umax / (8 / 5) * (8 / 5) := this
      _ = umax := by field_simp
  · have h1 : -Real.log (u1 * u2) * (8 / 5 / 3) ≤ umax / (8 / 5) * (8 / 5 / 3) := by nlinarith
    calc -Real.log (u1 * u2) * (8 / 5 / 3) ≤ umax / (8 / 5) * (8 / 5 / 3) := h1
      _ = umax / 3 := by field_simp
      _ ≤ umax := hthird

/-! ## Energy-loss gamma / Gaussian samplers -/

/-- ★ EnergyLossGaussianDistribution: the returned loss lies in (0, 2·mean] -/
theorem elossGauss_support (mean stddev : ℝ) (fuel : ℕ) (s rest : List ℝ) (x : ℝ)
    (h : elossGauss mean stddev fuel s = some (x, rest)) : 0 < x ∧ x ≤ 2 * mean := by
  unfold elossGauss at h
  have := elossGaussLoop_spec _ _ _ _ _ _ h
  dist_simp at this
  exact this

/-- ★ EnergyLossGammaDistribution: Gamma(k = mean²/var, θ = mean/k), positive loss -/
theorem elossGamma_support (mean var : ℝ) (hm : 0 < mean) (hv : 0 < var) (fuel : ℕ) (s : List ℝ)
    (x : ℝ) (g' : Gamma ℝ) (rest : List ℝ)
    (h : (elossGamma mean var).sample fuel s = some (x, g', rest)) : 0 < x := by
  unfold elossGamma at h
  dist_simp at h
  have hk : 0 < mean * mean / var := by positivity
  exact (gamma_support _ _ hk (by positivity) fuel s x g' rest h).1

/-! ## Urban energy-loss fluctuation model (EnergyLossUrbanDistribution, EnergyLossHelper) -/

/-- material parameters as computed by FluctuationParams.cc satisfy the Urban sum rules
    f₁ + f₂ = 1 and f₁ ln E₁ + f₂ ln E₂ = ln I, for every material (any Z, I > 0) -/
theorem urban_params_sum_rules (elDens numDens meanExc : ℝ) (he : 0 < elDens) (hn : 0 < numDens)
    (hI : 0 < meanExc) :
    (urbanParams elDens numDens meanExc).f1 + (urbanParams elDens numDens meanExc).f2 = 1 ∧
    (urbanParams elDens numDens meanExc).f1 * (urbanParams elDens numDens meanExc).logE1
      + (urbanParams elDens numDens meanExc).f2 * (urbanParams elDens numDens meanExc).logE2
      = Real.log meanExc ∧
    0 < (urbanParams elDens numDens meanExc).e1 ∧ 0 < (urbanParams elDens numDens meanExc).e2 ∧
    0 < (urbanParams elDens numDens meanExc).f1 ∧ 0 ≤ (urbanParams elDens numDens meanExc).f2 :=
  urbanParams_sum_rules elDens numDens meanExc he hn hI

/-- ★ the defining identity of the Urban model, for EVERY branch of the constructor (no
    excitation because E_max ≤ I or w ≤ ln I; the slow-particle window ln I < w ≤ ln E₂; two
    levels; with or without the width correction): with Σᵢ the excitation cross sections and Eᵢ
    the (rescaled) level energies stored by the constructor, Σ₃ the ionisation cross section and
    ⟨E⟩₃ = E₀E_max ln(E_max/E₀)/(E_max − E₀) the mean of the 1/E² spectrum,
        loss_scaling · (Σ₁E₁ + Σ₂E₂ + Σ₃⟨E⟩₃) = requested mean loss.
    Hypotheses: the sum rules of the material (`urban_params_sum_rules`), mean > 0, and
    E_max > E₀ = 10 eV (guaranteed by EnergyLossHelper, `helper_urban_precondition`). -/
theorem urban_mean_identity (m : UrbanMat ℝ) (hm : UrbanMatOK m) (meanLoss maxEnergy tm b2 : ℝ)
    (hL : 0 < meanLoss) (hE : 1 / 100000 < maxEnergy) :
    (Urban.mk' m meanLoss maxEnergy tm b2).lossScaling *
      ((Urban.mk' m meanLoss maxEnergy tm b2).xs1 * (Urban.mk' m meanLoss maxEnergy tm b2).be1
        + (Urban.mk' m meanLoss maxEnergy tm b2).xs2 * (Urban.mk' m meanLoss maxEnergy tm b2).be2
        + (Urban.mk' m meanLoss maxEnergy tm b2).xsIon * ionMean maxEnergy) = meanLoss :=
  (urban_ctor_mean m hm meanLoss maxEnergy tm b2 hL hE).1

/-- excitation loss, Gaussian fast path: the Gaussian handed to `sample_fast_urban` has mean
    Σ_{Σᵢ>8} ΣᵢEᵢ and variance Σ_{Σᵢ>8} ΣᵢEᵢ² — both levels contribute when both exceed the
    threshold — whatever the script; the levels with Σᵢ ≤ 8 are sampled collision by collision
    (Poisson count n, energy n·Eᵢ on average: uniform on [(n−1)Eᵢ, (n+1)Eᵢ)) -/
theorem urban_excitation_gauss_params (u : Urban ℝ) (fuel : ℕ) (s r : List ℝ) (x : ℝ)
    (hb1 : 0 ≤ u.be1) (hb2 : 0 ≤ u.be2) (hs : CanonAll s)
    (h : sampleExcitationLoss u fuel s = some (x, r)) :
    ∃ res mn vr s2, 0 ≤ res ∧
      mn = (if 8 < u.xs1 then u.xs1 * u.be1 else 0) + (if 8 < u.xs2 then u.xs2 * u.be2 else 0) ∧
      vr = (if 8 < u.xs1 then u.xs1 * (u.be1 * u.be1) else 0)
            + (if 8 < u.xs2 then u.xs2 * (u.be2 * u.be2) else 0) ∧
      ((0 < vr ∧ ∃ g, sampleFastUrban mn (Real.sqrt vr) fuel s2 = some (g, r) ∧ x = res + g) ∨
       (vr ≤ 0 ∧ x = res)) :=
  (sampleExcitationLoss_spec u fuel s r x hb1 hb2 hs h).2.2

/-- `sample_fast_urban` returns a value in [0, 2·mean], an interval symmetric about `mean`
    (truncated Gaussian on (0, 2·mean] or uniform on [0, 2·mean)): the truncation keeps the mean -/
theorem urban_fast_symmetric_support (mean sd : ℝ) (fuel : ℕ) (s r : List ℝ) (x : ℝ) (hm : 0 ≤ mean)
    (hs : CanonAll s) (h : sampleFastUrban mean sd fuel s = some (x, r)) : 0 ≤ x ∧ x ≤ 2 * mean :=
  ⟨(sampleFastUrban_spec mean sd fuel s r x hm hs h).1, (sampleFastUrban_spec mean sd fuel s r x hm hs h).2.1⟩

/-- ionisation loss, fast simulation (Σ₃ > 8): the mean of the Gaussian part plus the mean of the
    (Σ₃ − n_A) individually sampled collisions equals Σ₃·⟨E⟩₃ (w = E_max/E₀) -/
theorem urban_ionization_mean_split (xs w : ℝ) (hxs : 8 < xs) (hw : 1 < w) :
    1 < (ioniFast xs w).1 ∧ (ioniFast xs w).1 < w ∧
    0 < (ioniFast xs w).2.1 ∧ (ioniFast xs w).2.1 < xs ∧ 0 ≤ (ioniFast xs w).2.2.1 ∧
    (ioniFast xs w).2.2.1 + (xs - (ioniFast xs w).2.1)
        * ((ioniFast xs w).1 * (1 / 100000)
            * (Real.log (w / (ioniFast xs w).1) / (1 - (ioniFast xs w).1 / w)))
      = xs * ((1 / 100000) * w * Real.log w / (w - 1)) :=
  ioniFast_mean_split xs w hxs hw

/-- ★ support: the sampled Urban loss is non-negative for every constructor branch and every
    canonical script (the code enforces no upper bound: the number of collisions is Poisson;
    each single ionisation is at most E_max, `ioniLoop_spec`) -/
theorem urban_support (m : UrbanMat ℝ) (hm : UrbanMatOK m) (meanLoss maxEnergy tm b2 : ℝ)
    (hL : 0 < meanLoss) (hE : 1 / 100000 < maxEnergy) (fuel : ℕ) (s r : List ℝ) (x : ℝ)
    (hs : CanonAll s) (h : (Urban.mk' m meanLoss maxEnergy tm b2).sample fuel s = some (x, r)) :
    0 ≤ x := by
  obtain ⟨_, hls, _, _, _, hb1, hb2, hmax⟩ := urban_ctor_mean m hm meanLoss maxEnergy tm b2 hL hE
  unfold Urban.sample at h
  split at h
  · simp at h
  · next a s1 heq1 =>
    obtain ⟨ha, hsuf1, _⟩ := sampleExcitationLoss_spec _ fuel s s1 a (le_of_lt hb1) (le_of_lt hb2)
      hs heq1
    split at h
    · simp at h
    · next b s2 heq2 =>
      obtain ⟨hb, _⟩ := sampleIonizationLoss_nonneg _ fuel s1 s2 b (by rw [hmax]; exact hE)
        (hs.suffix hsuf1) heq2
      simp only [Option.some.injEq, Prod.mk.injEq] at h
      rw [← h.1]
      dist_simp
      have : 0 ≤ a + b := by linarith
      nlinarith

/-- EnergyLossHelper: whenever a fluctuation model is selected (not `none`), the preconditions
    of the samplers hold: mean loss ≥ 10 eV and E_max = min(cutoff, T_max) > 10 eV; the Gaussian
    model is selected only if mean ≥ 2·σ_Bohr -/
theorem helper_urban_precondition (i : HelperIn ℝ) (h : (Helper.mk' i).model ≠ FluctModel.none) :
    1 / 100000 ≤ (Helper.mk' i).meanLoss ∧ 1 / 100000 < (Helper.mk' i).maxEnergy ∧
    (Helper.mk' i).meanLoss = i.meanLoss ∧
    ((Helper.mk' i).model = FluctModel.gaussian →
      4 * (Helper.mk' i).bohrVar ≤ (Helper.mk' i).meanLoss * (Helper.mk' i).meanLoss) := by
  unfold Helper.mk' at h ⊢
  eloss_simp at h ⊢
  split_ifs at h ⊢ <;> simp_all

/-! ## Ionisation secondary-energy samplers (Møller, Bhabha, BetheBloch, BraggICRU73QO, MuBB) -/

/-- ★ Møller: the sampled energy fraction lies in [T_cut/T, 1/2] for every canonical script; the
    loop returns at the first accepted (proposal, test) pair, two draws per iteration -/
theorem moller_support (eMass minE incE : ℝ) (hmin : 0 < minE) (hcut : 2 * minE ≤ incE)
    (s rest : List ℝ) (x : ℝ) (hs : CanonAll s)
    (h : (Moller.mk' eMass minE incE).sample s = some (x, rest)) :
    minE / incE ≤ x ∧ x ≤ 1 / 2 ∧ ∃ k, s.length = rest.length + 2 * (k + 1) := by
  have hinc : 0 < incE := by linarith
  rw [moller_sample_real] at h
  have ha : (0 : ℝ) < 1 / (1 / 2) := by norm_num
  have hab : (1 : ℝ) / (1 / 2) ≤ 1 / (Moller.mk' eMass minE incE).minFrac := by
    simp only [Moller.mk']
    have e1 : (1 : ℝ) / (1 / 2) = 2 := by norm_num
    have e2 : 1 / (minE / incE) = incE / minE := one_div_div _ _
    rw [e1, e2, le_div_iff₀ hmin]; linarith
  obtain ⟨h1, h2, pre, u1, u2, hsplit, _, hev, _⟩ :=
    ioniInvLoop_support _ _ _ _ ha hab s rest x hs h
  simp only [Moller.mk'] at h1
  rw [one_div_one_div] at h1 h2
  refine ⟨h1, h2, pre.length / 2, ?_⟩
  rw [hsplit]; simp; omega

/-- Møller rejection function against its envelope: for γ ≥ 1 and 0 < ε ≤ 1/2,
    1/2 ≤ 1 − ε ≤ g(ε) ≤ g(1/2), so the acceptance ratio g(ε)/g(1/2) lies in (0, 1]; and any
    iteration whose test uniform is ≤ 2/9 accepts (g(1/2) ≤ 9/4) -/
theorem moller_envelope (eMass minE incE e u2 : ℝ) (hm : 0 < eMass) (hinc : 0 < incE)
    (he0 : 0 < e) (he1 : e ≤ 1 / 2) :
    1 - e ≤ (Moller.mk' eMass minE incE).g e ∧
    (Moller.mk' eMass minE incE).g e ≤ (Moller.mk' eMass minE incE).g (1 / 2) ∧
    (u2 ≤ 2 / 9 → (Moller.mk' eMass minE incE).g (1 / 2) * u2 ≤ (Moller.mk' eMass minE incE).g e) := by
  have hg : 1 ≤ (Moller.mk' eMass minE incE).gamma := by
    simp only [Moller.mk']; dist_simp
    have : 0 < incE / eMass := div_pos hinc hm
    linarith
  obtain ⟨ht0, ht1⟩ := moller_t_bounds _ hg
  obtain ⟨hlo, hhi⟩ := moller_G_bounds _ e (le_of_lt ht0) ht1 he0 he1
  rw [moller_g_half, moller_g_real]
  refine ⟨hlo, by linarith, fun hu => ?_⟩
  have hden : 9 / 4 - 5 * ((2 * (Moller.mk' eMass minE incE).gamma - 1)
      / ((Moller.mk' eMass minE incE).gamma * (Moller.mk' eMass minE incE).gamma)) / 4 ≤ 9 / 4 := by
    linarith
  have hden0 : 0 ≤ 9 / 4 - 5 * ((2 * (Moller.mk' eMass minE incE).gamma - 1)
      / ((Moller.mk' eMass minE incE).gamma * (Moller.mk' eMass minE incE).gamma)) / 4 := by linarith
  by_cases hu0 : 0 ≤ u2
  · nlinarith
  · nlinarith

/-- ★ Bhabha: the sampled energy fraction lies in [T_cut/T, 1] -/
theorem bhabha_support (eMass minE incE : ℝ) (hmin : 0 < minE) (hcut : minE ≤ incE)
    (s rest : List ℝ) (x : ℝ) (hs : CanonAll s)
    (h : (Bhabha.mk' eMass minE incE).sample s = some (x, rest)) :
    minE / incE ≤ x ∧ x ≤ 1 ∧ ∃ k, s.length = rest.length + 2 * (k + 1) := by
  have hinc : 0 < incE := by linarith
  rw [bhabha_sample_real] at h
  have ha : (0 : ℝ) < 1 / 1 := by norm_num
  have hab : (1 : ℝ) / 1 ≤ 1 / (Bhabha.mk' eMass minE incE).minFrac := by
    simp only [Bhabha.mk']
    have e1 : (1 : ℝ) / 1 = 1 := by norm_num
    have e2 : 1 / (minE / incE) = incE / minE := one_div_div _ _
    rw [e1, e2, le_div_iff₀ hmin]; linarith
  obtain ⟨h1, h2, pre, u1, u2, hsplit, _, hev, _⟩ :=
    ioniInvLoop_support _ _ _ _ ha hab s rest x hs h
  simp only [Bhabha.mk'] at h1
  rw [one_div_one_div] at h1
  rw [div_one, div_one] at h2
  refine ⟨h1, h2, pre.length / 2, ?_⟩
  rw [hsplit]; simp; omega

/-- Bhabha rejection function against its envelope: for γ ≥ 1 and ε_min ≤ ε ≤ 1 the value
    g(ε, ε) compared with g_denominator·u never exceeds g_denominator = g(ε_min, 1).
    (Positivity of g is not proved here; the check evaluates it on the sampled values.) -/
theorem bhabha_envelope (eMass minE incE e : ℝ) (hm : 0 < eMass) (hinc : 0 < incE)
    (hmin : 0 ≤ minE) (hle : minE / incE ≤ e) (he1 : e ≤ 1) :
    (Bhabha.mk' eMass minE incE).g e e
      ≤ (Bhabha.mk' eMass minE incE).g (Bhabha.mk' eMass minE incE).minFrac 1 := by
  have hgam : 1 ≤ 1 + incE / eMass := by
    have : 0 < incE / eMass := div_pos hinc hm
    linarith
  set gamma := 1 + incE / eMass with hgdef
  have hy0 : 0 < 1 / (1 + gamma) := by positivity
  have hy1 : 1 / (1 + gamma) ≤ 1 / 2 := by
    rw [div_le_div_iff₀ (by linarith) (by norm_num)]; linarith
  set y := 1 / (1 + gamma) with hydef
  have homy : 0 ≤ 1 - 2 * y := by linarith
  have hb : 0 ≤ 1 - 1 / (gamma * gamma) := by
    have : 1 ≤ gamma * gamma := by nlinarith
    rw [sub_nonneg, div_le_one (by positivity)]; exact this
  simp only [Bhabha.g, Bhabha.mk']
  ioni_simp
  rw [← hgdef, ← hydef]
  exact bhabha_abs _ _ _ _ _ _ _ (by nlinarith) (by positivity) (by positivity) (by positivity) hb
    (div_nonneg hmin (le_of_lt hinc)) hle he1

/-- ★ BetheBloch / BraggICRU73QO / any `HeavyIoni` sampler: T ∈ [T_min, T_max], and the
    acceptance test compares the uniform with 1 − β²T/T_max ∈ [1 − β², 1] ⊆ [0, 1]; every
    iteration with test uniform ≤ 1 − β² accepts -/
theorem heavyIoni_support (d : HeavyIoni ℝ) (hlo : 0 < d.minEnergy) (hle : d.minEnergy ≤ d.maxEnergy)
    (hb0 : 0 ≤ d.betaSq) (hb1 : d.betaSq ≤ 1) (s rest : List ℝ) (x : ℝ) (hs : CanonAll s)
    (h : d.sample s = some (x, rest)) :
    d.minEnergy ≤ x ∧ x ≤ d.maxEnergy ∧ 0 ≤ d.target x ∧ 1 - d.betaSq ≤ d.target x ∧
    d.target x ≤ 1 ∧ ∃ k, s.length = rest.length + 2 * (k + 1) := by
  unfold HeavyIoni.sample at h
  obtain ⟨h1, h2, _, pre, u1, u2, hsplit, _, hev, _⟩ :=
    ioniSqLoop_support _ _ _ _ hlo hle s rest x hs h
  have hmax : 0 < d.maxEnergy := by linarith
  have hx0 : 0 < x := by linarith
  have hq0 : 0 ≤ d.betaSq / d.maxEnergy := div_nonneg hb0 (le_of_lt hmax)
  have hq : d.betaSq / d.maxEnergy * x ≤ d.betaSq := by
    calc d.betaSq / d.maxEnergy * x ≤ d.betaSq / d.maxEnergy * d.maxEnergy :=
          mul_le_mul_of_nonneg_left h2 hq0
      _ = d.betaSq := by field_simp
  have hq2 : 0 ≤ d.betaSq / d.maxEnergy * x := mul_nonneg hq0 (le_of_lt hx0)
  refine ⟨h1, h2, ?_, ?_, ?_, pre.length / 2, ?_⟩
  · unfold HeavyIoni.target; dist_simp; linarith
  · unfold HeavyIoni.target; dist_simp; linarith
  · unfold HeavyIoni.target; dist_simp; linarith
  · rw [hsplit]; simp; omega

/-- ★ BetheBlochEnergyDistribution: sampled delta-ray energy in [T_cut, T_max(β, γ, M)] -/
theorem betheBloch_support (i : IoniIn ℝ) (hm : 0 < i.pMass) (he : 0 < i.energy)
    (hc : 0 < i.cutoff) (hct : i.cutoff ≤ maxSecondaryEnergy i)
    (s rest : List ℝ) (x : ℝ) (hs : CanonAll s) (h : (BetheBloch.mk' i).sample s = some (x, rest)) :
    i.cutoff ≤ x ∧ x ≤ maxSecondaryEnergy i := by
  obtain ⟨hb0, hb1⟩ := ioniBetaSq_bounds i hm (le_of_lt he)
  have := heavyIoni_support (BetheBloch.mk' i) hc hct hb0 (le_of_lt hb1) s rest x hs h
  exact ⟨this.1, this.2.1⟩

/-- ★ BraggICRU73QOEnergyDistribution: sampled energy in [min(T_cut, T_low·M/m_p), T_max] -/
theorem bragg_support (i : IoniIn ℝ) (protonMass : ℝ) (hm : 0 < i.pMass) (hp : 0 < protonMass)
    (he : 0 < i.energy) (hc : 0 < i.cutoff)
    (hct : (Bragg.mk' i protonMass).minEnergy ≤ maxSecondaryEnergy i)
    (s rest : List ℝ) (x : ℝ) (hs : CanonAll s)
    (h : (Bragg.mk' i protonMass).sample s = some (x, rest)) :
    (Bragg.mk' i protonMass).minEnergy ≤ x ∧ x ≤ maxSecondaryEnergy i ∧
    (Bragg.mk' i protonMass).minEnergy = min i.cutoff
      ((if i.charge < 0 then 1 / 200 else 1 / 4000) * i.pMass / protonMass) := by
  obtain ⟨hb0, hb1⟩ := ioniBetaSq_bounds i hm (le_of_lt he)
  have hmin : (Bragg.mk' i protonMass).minEnergy = min i.cutoff
      ((if i.charge < 0 then 1 / 200 else 1 / 4000) * i.pMass / protonMass) := by
    simp only [Bragg.mk']; ioni_simp
  have hpos : 0 < (Bragg.mk' i protonMass).minEnergy := by
    rw [hmin]; apply lt_min hc
    split_ifs <;> positivity
  have := heavyIoni_support (Bragg.mk' i protonMass) hpos hct hb0 (le_of_lt hb1) s rest x hs h
  exact ⟨this.1, this.2.1, hmin⟩

/-- ★ MuBBEnergyDistribution: sampled energy in [T_cut, T_max]; the returned value passed the
    test `envelope·u₂ ≤ target(T)` -/
theorem muBB_support (i : IoniIn ℝ) (hc : 0 < i.cutoff) (hct : i.cutoff ≤ maxSecondaryEnergy i)
    (s rest : List ℝ) (x : ℝ) (hs : CanonAll s) (h : (MuBB.mk' i).sample s = some (x, rest)) :
    i.cutoff ≤ x ∧ x ≤ maxSecondaryEnergy i ∧ ∃ k, s.length = rest.length + 2 * (k + 1) := by
  unfold MuBB.sample at h
  obtain ⟨h1, h2, _, pre, u1, u2, hsplit, _, hev, _⟩ :=
    ioniSqLoop_support _ _ _ _ hc hct s rest x hs h
  refine ⟨h1, h2, pre.length / 2, ?_⟩
  rw [hsplit]; simp; omega

/-- MuBB rejection function against its envelope, PARTIAL.  Full statement: "for every incident
    energy and every T ∈ (0, T_max], 0 ≤ target(T) ≤ envelope" — including the branch with the
    radiative correction (E > 250 MeV and T_max > 0.1 MeV: target·(1 + α/2π·a₁(a₃ − a₁)) against
    1 + α/2π·ln²(2E/M)), which is only evaluated by the check's impl-side oracle on every sampled
    energy.  Proved without the radiative correction: 1 − β² ≤ target(T) ≤ 1 = envelope, using
    T_max² ≤ 2β²E². -/
theorem muBB_target_le_envelope_partial (i : IoniIn ℝ) (hm : 0 < i.pMass) (hme : 0 < i.eMass)
    (he : 0 < i.energy) (hrad : (MuBB.mk' i).useRad = false) (x : ℝ) (hx0 : 0 < x)
    (hx1 : x ≤ maxSecondaryEnergy i) :
    1 - ioniBetaSq i ≤ (MuBB.mk' i).target x ∧ (MuBB.mk' i).target x ≤ (MuBB.mk' i).envelope ∧
    (MuBB.mk' i).envelope = 1 :=
  muBB_norad_target i hm hme he hrad x hx0 hx1

/-! ## Non-vacuity -/
example : Canon 0 ∧ Canon (1 / 2) ∧ CanonPos (1 / 2) := by
  unfold Canon CanonPos; norm_num
example : (UniformReal.mk' (1 : ℝ) 2).sample [1 / 2] = some (3 / 2, []) := by
  rw [uniform_eval]; norm_num
example : exponential (2 : ℝ) [1 / 2] = some (Real.log (1 / 2) * (-1 / 2), []) := exponential_eval _ _ _
example : select [(1 : ℝ) / 4, 1 / 4, 1 / 2] 1 [3 / 5] = some (2, []) := by
  simp only [select, selectLoop, List.dropLast]; dist_simp; norm_num
example : ∃ v, isotropic [(1 : ℝ) / 2, 0] = some (v, []) := ⟨_, isotropic_eval _ _ _⟩
example : (Poisson.mk' (1 : ℝ)).sample [0] = some (0, Poisson.mk' 1, []) := by
  simp only [Poisson.sample, Poisson.mk', Poisson.direct, lambdaThreshold]; dist_simp; norm_num
example : tsaiRejected (2 : ℝ) [] := trivial
example : pairsRejected (fun x => x) 0 1 1 [1 / 4, 1 / 2] := by
  simp only [pairsRejected]; norm_num
example : rejectionLoop (fun x => x) (UniformReal.mk' (0 : ℝ) 1) 1 [1 / 4, 1 / 2, 3 / 4, 1 / 2]
    = some (3 / 4, []) := by
  simp only [rejectionLoop, UniformReal.mk']; dist_simp; norm_num
example : elossGauss (1 : ℝ) 1 3 [0, 1] = some (1, []) := by
  simp only [elossGauss, elossGaussLoop]
  rw [normal_eval_fresh _ rfl]
  dist_simp
  norm_num

example : CanonAll [0, 1 / 2] := by
  intro v hv; simp at hv; rcases hv with rfl | rfl <;> unfold Canon <;> norm_num
/-- a material satisfying the Urban sum rules exists: one level E₁ = I = e⁻¹⁰ MeV, f₂ = 0 -/
example : UrbanMatOK ⟨Real.exp (-10), -10, ⟨1, 0, Real.exp (-10), 1, -10, 0⟩⟩ :=
  ⟨by norm_num, by norm_num, Real.exp_pos _, by norm_num, by norm_num, le_refl _, Or.inr rfl⟩

/-- an ionisation configuration with T_cut ≤ T_max (M = m_e = K = 1: T_max = 1) -/
example : (1 / 2 : ℝ) ≤ maxSecondaryEnergy ⟨1, 1, 1, 1, 1 / 2⟩ := by
  unfold maxSecondaryEnergy; dist_simp; norm_num
/-- Møller / Bhabha preconditions are satisfiable: T = 4, T_cut = 1 (2·T_cut ≤ T) -/
example : (0 : ℝ) < 1 ∧ 2 * (1 : ℝ) ≤ 4 := by norm_num

end CelerVerif.Dist
