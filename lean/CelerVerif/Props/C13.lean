/-
C13 — RNG skip-ahead equals sequential generation and streams never overlap.
Property theorems only (helper lemmas live in Lemmas/Xorwow*.lean).
Model: Model/Xorwow.lean (hand-written, tied to XorwowRngEngine.hh by the correspondence
harness) + Generated/Xorwow.lean (jump tables and constants regenerated from the source).
-/
import CelerVerif.Lemmas.XorwowDiscard
import CelerVerif.Lemmas.XorwowOrder
import CelerVerif.Lemmas.XorwowSeed

namespace CelerVerif.Xorwow
open CelerVerif.Generated.Xorwow

/-- ★ C13.1 `discard(n)` leaves the generator in exactly the state reached by n draws,
    for every state (xorshift words and Weyl counter) and every 64-bit n. -/
theorem discard_eq_draws (n : Nat) (hn : n < 2 ^ 64) (s : State) :
    discard n s = stepN n s := by
  have hx : (discard n s).xs = (stepN n s).xs := by
    rw [stepN_xs]; exact jump_correct n hn s.xs
  have hw : (discard n s).weyl = (stepN n s).weyl := by
    rw [stepN_weyl]; rfl
  cases h1 : discard n s; cases h2 : stepN n s
  simp_all

/-- the value sequence: the (n+1)-th draw after `discard n` is the (n+1)-th draw without it -/
theorem draw_after_discard (n : Nat) (hn : n < 2 ^ 64) (s : State) :
    draw (discard n s) = draw (stepN n s) := by
  rw [discard_eq_draws n hn s]

/-- ★ C13.2 skipping k subsequences equals discarding k·2^67 values (xorshift part advanced
    2^67·k times; the Weyl counter is unchanged because 2^32 ∣ 2^67). -/
theorem discardSubsequence_eq (k : Nat) (hk : k < 2 ^ 64) (s : State) :
    discardSubsequence k s = stepN (2 ^ 67 * k) s := by
  have hx : (discardSubsequence k s).xs = (stepN (2 ^ 67 * k) s).xs := by
    rw [stepN_xs]; exact jumpSub_correct k hk s.xs
  have hw : (discardSubsequence k s).weyl = (stepN (2 ^ 67 * k) s).weyl := by
    rw [stepN_weyl]
    have : BitVec.ofNat 32 (2 ^ 67 * k) = 0#32 := by
      apply BitVec.eq_of_toNat_eq
      simp only [BitVec.toNat_ofNat, BitVec.toNat_zero]
      have : 2 ^ 67 * k = 2 ^ 32 * (2 ^ 35 * k) := by
        rw [← Nat.mul_assoc]; rfl
      rw [this]; exact Nat.mul_mod_right _ _
    rw [this, BitVec.zero_mul, BitVec.add_zero]; rfl
  cases h1 : discardSubsequence k s; cases h2 : stepN (2 ^ 67 * k) s
  simp_all

/-- n draws then m draws are n + m draws (helper for the composition laws) -/
theorem stepN_add (m n : Nat) (s : State) : stepN (m + n) s = stepN n (stepN m s) := by
  induction m generalizing s with
  | zero => rw [Nat.zero_add]; rfl
  | succ m ih => rw [Nat.succ_add, stepN, ih (step s)]; rfl

/-- ★ C13.1' skip-ahead composes: discarding b then a values is discarding a + b values, so a
    stream position reached by any chain of 64-bit skips is the position of the sum -/
theorem discard_compose (a b : Nat) (hab : a + b < 2 ^ 64) (s : State) :
    discard a (discard b s) = discard (a + b) s := by
  rw [discard_eq_draws b (by omega) s, discard_eq_draws a (by omega), discard_eq_draws _ hab,
    Nat.add_comm a b, stepN_add]

/-- ★ C13.2' the two skips that `operator=(Initializer)` performs commute: offset then
    subsequence leaves exactly the state of subsequence then offset -/
theorem discard_subsequence_commute (n k : Nat) (hn : n < 2 ^ 64) (hk : k < 2 ^ 64) (s : State) :
    discard n (discardSubsequence k s) = discardSubsequence k (discard n s) := by
  rw [discardSubsequence_eq k hk s, discard_eq_draws n hn, discardSubsequence_eq k hk,
    discard_eq_draws n hn s, ← stepN_add, ← stepN_add, Nat.add_comm]

/-- subsequence skips compose as long as the total is a 64-bit count -/
theorem discardSubsequence_compose (a b : Nat) (hab : a + b < 2 ^ 64) (s : State) :
    discardSubsequence a (discardSubsequence b s) = discardSubsequence (a + b) s := by
  rw [discardSubsequence_eq b (by omega) s, discardSubsequence_eq a (by omega),
    discardSubsequence_eq _ hab, ← stepN_add, Nat.mul_add, Nat.add_comm]

/-- ★ C13.3 exact period 2^160 − 1 of the xorshift part on every non-zero state -/
theorem xorshift_period (x : XS) (hx : x ≠ XS.zero) (d : Nat) :
    iter d x = x ↔ (2 ^ 160 - 1) ∣ d :=
  period_exact x hx d

/-- `reseed_rng`'s subsequence index is injective in (event, slot) as long as it does not
    wrap around 2^64 -/
theorem reseedIndex_injective {e e' size i i' : Nat} (hi : i < size) (hi' : i' < size)
    (hb : e * size + i < 2 ^ 64) (hb' : e' * size + i' < 2 ^ 64)
    (h : reseedIndex e size i = reseedIndex e' size i') : e = e' ∧ i = i' := by
  unfold reseedIndex at h
  rw [Nat.mod_eq_of_lt hb, Nat.mod_eq_of_lt hb'] at h
  have h1 : (e * size + i) / size = e := by
    rw [Nat.mul_comm, Nat.mul_add_div (by omega), Nat.div_eq_of_lt hi, Nat.add_zero]
  have h2 : (e' * size + i') / size = e' := by
    rw [Nat.mul_comm, Nat.mul_add_div (by omega), Nat.div_eq_of_lt hi', Nat.add_zero]
  have he : e = e' := by rw [← h1, ← h2, h]
  subst he
  exact ⟨rfl, by omega⟩

/-- ★ C13.4 streams never overlap: starting from a common non-zero seed state, the states
    visited within subsequence k (offsets a < 2^67) and within subsequence k' ≠ k (offsets
    b < 2^67) are all different — the streams are disjoint segments of one cycle. -/
theorem streams_disjoint (s : State) (hs : s.xs ≠ XS.zero) {k k' a b : Nat}
    (hk : k < 2 ^ 64) (hk' : k' < 2 ^ 64) (hne : k ≠ k') (ha : a < 2 ^ 67) (hb : b < 2 ^ 67) :
    (stepN a (discardSubsequence k s)).xs ≠ (stepN b (discardSubsequence k' s)).xs := by
  rw [discardSubsequence_eq k hk, discardSubsequence_eq k' hk', stepN_xs, stepN_xs, stepN_xs,
    stepN_xs, ← iter_add, ← iter_add]
  have hN : (2 : Nat) ^ 131 < Nper := by decide
  rcases Nat.lt_or_gt_of_ne hne with h | h
  · apply iter_ne_of_lt _ hs
    · have : 2 ^ 67 * (k + 1) ≤ 2 ^ 67 * k' := Nat.mul_le_mul_left _ h
      omega
    · have : 2 ^ 67 * k' < 2 ^ 67 * 2 ^ 64 := Nat.mul_lt_mul_of_pos_left hk' (by decide)
      have e : (2 : Nat) ^ 67 * 2 ^ 64 = 2 ^ 131 := by decide
      omega
  · apply Ne.symm
    apply iter_ne_of_lt _ hs
    · have : 2 ^ 67 * (k' + 1) ≤ 2 ^ 67 * k := Nat.mul_le_mul_left _ h
      omega
    · have : 2 ^ 67 * k < 2 ^ 67 * 2 ^ 64 := Nat.mul_lt_mul_of_pos_left hk (by decide)
      have e : (2 : Nat) ^ 67 * 2 ^ 64 = 2 ^ 131 := by decide
      omega

/-- the same for the streams assigned by `reseed_rng` to two different (event, slot) pairs -/
theorem reseed_streams_disjoint (s : State) (hs : s.xs ≠ XS.zero)
    {e e' size i i' a b : Nat} (hi : i < size) (hi' : i' < size)
    (hb1 : e * size + i < 2 ^ 64) (hb2 : e' * size + i' < 2 ^ 64)
    (hne : (e, i) ≠ (e', i')) (ha : a < 2 ^ 67) (hb : b < 2 ^ 67) :
    (stepN a (discardSubsequence (reseedIndex e size i) s)).xs
      ≠ (stepN b (discardSubsequence (reseedIndex e' size i') s)).xs := by
  apply streams_disjoint s hs (Nat.mod_lt _ (by decide)) (Nat.mod_lt _ (by decide)) _ ha hb
  intro h
  obtain ⟨rfl, rfl⟩ := reseedIndex_injective hi hi' hb1 hb2 h
  exact hne rfl

/-- ★ C13.4' the statement for the states `reseed_rng` really produces, with no hypothesis on
    the seed: for every 32-bit seed, two different (event, slot) pairs (whose subsequence
    index does not wrap) are initialised to states whose next 2^67 draws never coincide. -/
theorem reseed_streams_disjoint_all_seeds (seed : Nat)
    {e e' size i i' a b : Nat} (hi : i < size) (hi' : i' < size)
    (hb1 : e * size + i < 2 ^ 64) (hb2 : e' * size + i' < 2 ^ 64)
    (hne : (e, i) ≠ (e', i')) (ha : a < 2 ^ 67) (hb : b < 2 ^ 67) :
    (stepN a (init seed (reseedIndex e size i) 0)).xs
      ≠ (stepN b (init seed (reseedIndex e' size i') 0)).xs := by
  have h0 : ∀ s : State, discard 0 s = s := by
    intro s; rw [discard_eq_draws 0 (by decide)]; rfl
  unfold init
  rw [h0, h0]
  exact reseed_streams_disjoint (seedState seed) (seedState_nonzero seed) hi hi' hb1 hb2 hne ha hb

/-- ★ C13.5 canonical reals: the integer that `GenerateCanonical32<double>` scales by 2^-53
    is below 2^53, so the value n·2^-53 is exactly representable and lies in [0, 1). -/
theorem canonical_lt_one (u l : W) : (canonicalBits u l).toNat < 2 ^ 53 := by
  unfold canonicalBits
  have hu := u.isLt; have hl := l.isLt
  simp only [BitVec.toNat_xor, BitVec.toNat_shiftLeft, BitVec.toNat_setWidth, canonShift]
  apply Nat.xor_lt_two_pow
  · rw [Nat.mod_eq_of_lt (by omega : u.toNat < 2 ^ 64), Nat.shiftLeft_eq]
    have : u.toNat * 2 ^ 21 < 2 ^ 32 * 2 ^ 21 := Nat.mul_lt_mul_of_pos_right hu (by decide)
    have e : (2 : Nat) ^ 32 * 2 ^ 21 = 2 ^ 53 := by decide
    have h53 : (2 : Nat) ^ 53 < 2 ^ 64 := by decide
    rw [Nat.mod_eq_of_lt (by omega)]
    omega
  · rw [Nat.mod_eq_of_lt (by omega : l.toNat < 2 ^ 64)]
    have : (2 : Nat) ^ 32 < 2 ^ 53 := by decide
    omega

/-- ★ (used by C06) `operator=(Initializer)` is a function of (seed, subsequence, offset)
    only: it equals `offset` draws after `subsequence·2^67` steps from the seed state, whatever
    the slot held before. -/
theorem init_eq (seed sub off : Nat) (hs : sub < 2 ^ 64) (ho : off < 2 ^ 64) :
    init seed sub off = stepN off (stepN (2 ^ 67 * sub) (seedState seed)) := by
  unfold init
  rw [discard_eq_draws off ho, discardSubsequence_eq sub hs]

/-! Non-vacuity: concrete states meeting the hypotheses. -/
example : (seedState 12345).xs ≠ XS.zero := seedState_nonzero 12345
example : (discard 1000 (seedState 12345)) = stepN 1000 (seedState 12345) :=
  discard_eq_draws 1000 (by decide) _
example : reseedIndex 3 8 5 = 29 := by decide

end CelerVerif.Xorwow
