/-
C20 — Generated optical photons are physically valid.
Property theorems only (ℝ reading of the `Num`-generic model in Model/Optical.lean, which is run
bit-exactly at `Float` against the real generators by harness/optical.cc with a scripted random
stream).  Helper lemmas: Lemmas/OpticalVec.lean, OpticalGen.lean, OpticalCer.lean, OpticalGrid.lean.

Conventions: `vdot` is the plain dot product, `isUnit v` means `vdot v v = 1`, `inUnit s` says
every script value is a canonical uniform in [0,1], `K.Pos` that the physical constants are
positive.  A generator run is a hypothesis `… s = some (photon, rest)` (`none` = the script ran
out before the rejection loops accepted).  `expm1`, `sincospi` are arbitrary functions.
-/
import CelerVerif.Lemmas.OpticalCer
import CelerVerif.Lemmas.OpticalGrid

namespace CelerVerif.Optical
open CelerVerif

/-! ### ArrayUtils -/

/-- `from_spherical(cos θ, φ)` is a unit vector (precondition −1 ≤ cos θ ≤ 1 is the
    function's `CELER_EXPECT`) with z component cos θ -/
theorem from_spherical_unit (c phi : ℝ) (h1 : -1 ≤ c) (h2 : c ≤ 1) :
    isUnit (fromSpherical c phi) ∧ (fromSpherical c phi).z = c :=
  ⟨fromSpherical_unit c phi h1 h2, fromSpherical_z c phi⟩

/-- ★ `rotate(·, rot)` for a unit `rot` keeps mutual dot products and norms of unit vectors, in
    all three branches (far from the z axis, near it, on it) -/
theorem rotate_preserves_dot (a b r : Vec3 ℝ) (hr : isUnit r) (ha : isUnit a) (hb : isUnit b) :
    vdot (rotate a r) (rotate b r) = vdot a b ∧ isUnit (rotate a r) ∧ isUnit (rotate b r) := by
  rw [rotate_eq_raw a r hr ha, rotate_eq_raw b r hr hb]
  refine ⟨rotateRaw_vdot a b r hr, ?_, ?_⟩
  · unfold isUnit; rw [rotateRaw_vdot a a r hr]; exact ha
  · unfold isUnit; rw [rotateRaw_vdot b b r hr]; exact hb

/-- any non-zero vector comes out of `rotate` with unit norm (final `make_unit_vector`) -/
theorem rotate_unit (a r : Vec3 ℝ) (hr : isUnit r) (ha : 0 < vdot a a) : isUnit (rotate a r) := by
  unfold rotate isUnit
  apply makeUnit_unit
  rw [rotateRaw_vdot a a r hr]; exact ha

attribute [local instance] Classical.propDecidable in
/-- what exactly is preserved about the polar angle: the rotated vector makes the angle of `d`
    with the image of the z axis, and that image is `rot` itself EXCEPT in the near-axis branch
    (0 < sin θ_rot < 0.005), where it is (rot_x, |rot_y|, rot_z) — the code takes
    sin φ = +sqrt(1 − cos²φ) there, so the sign of rot_y is lost (known finding
    `rotate-near-axis-sign`, replay corpus/C20/rotate-near-axis-sign.ops) -/
theorem rotate_polar_angle (d r : Vec3 ℝ) (hr : isUnit r) (hd : isUnit d) :
    vdot (rotate d r) ⟨r.x, if nearAxis r then |r.y| else r.y, r.z⟩ = d.z := by
  rw [rotate_eq_raw d r hr hd, ← poleImage_eq r hr]
  exact rotateRaw_vdot_pole d r hr

/-- consequently `rotate(d, rot)·rot = d_z` whenever rot is not in the near-axis branch with
    negative y -/
theorem rotate_polar_angle_exact (d r : Vec3 ℝ) (hr : isUnit r) (hd : isUnit d)
    (h : ¬ (nearAxis r ∧ r.y < 0)) : vdot (rotate d r) r = d.z := by
  have := rotate_polar_angle d r hr hd
  by_cases hn : nearAxis r
  · have hy : 0 ≤ r.y := not_lt.mp (fun hy => h ⟨hn, hy⟩)
    rw [if_pos hn, abs_of_nonneg hy] at this
    exact this
  · rw [if_neg hn] at this
    exact this

/-- … and in that excluded case the deviation is at most 2·|rot_y| (< 2·0.005) -/
theorem rotate_polar_angle_near_axis_bound (d r : Vec3 ℝ) (hr : isUnit r) (hd : isUnit d) :
    |vdot (rotate d r) r - d.z| ≤ 2 * |r.y| := by
  have h := rotate_polar_angle d r hr hd
  have hu : isUnit (rotate d r) := (rotate_preserves_dot d d r hr hd hd).2.1
  set v := rotate d r with hv
  have hvy : |v.y| ≤ 1 := by
    unfold isUnit vdot at hu
    rw [abs_le]; constructor <;> nlinarith [mul_self_nonneg v.x, mul_self_nonneg v.z]
  by_cases hn : nearAxis r
  · rw [if_pos hn] at h
    have : vdot v r - d.z = v.y * (r.y - |r.y|) := by
      rw [← h]; simp only [vdot]; ring
    rw [this, abs_mul]
    have h2 : abs (r.y - |r.y|) ≤ 2 * |r.y| := by
      rcases le_or_gt 0 r.y with hy | hy
      · rw [abs_of_nonneg hy]; simp [hy]
      · rw [abs_of_neg hy, abs_of_neg (by linarith : r.y - -r.y < 0)]; linarith
    calc |v.y| * abs (r.y - |r.y|) ≤ 1 * (2 * |r.y|) :=
          mul_le_mul hvy h2 (abs_nonneg _) (by norm_num)
      _ = 2 * |r.y| := by ring
  · rw [if_neg hn] at h
    have : vdot v r - d.z = 0 := by rw [← h]; ring
    rw [this, abs_zero]; positivity

/-! ### Cerenkov photons

Hypotheses common to the statements below: the step has moved (`stepDelta d ≠ 0`, so that the
incident direction `make_unit_vector(post − pre)` is defined), pre/post speeds are positive,
and the refractive-index calculator returns positive values (`hn`; for a table with positive
entries on an increasing energy grid this is linear interpolation between positive knots). -/

/-- the hypothesis `hn` used below holds for every table that optical `MaterialParams` admits
    with positive entries: on a strictly increasing energy grid (≥ 2 points) the calculator
    (`NonuniformGrid::find` binary search + linear interpolation, constant extrapolation)
    returns a positive value whenever all tabulated values are positive -/
theorem refractive_index_positive (g : Grid ℝ) (hs : g.Sorted) (h2 : 2 ≤ g.size)
    (hy : ∀ i, i < g.size → 0 < g.y i) (e : ℝ) : 0 < g.eval e :=
  Grid.eval_pos g hs h2 hy e

/-- ★ direction and polarisation of every generated Cerenkov photon are unit vectors and
    perpendicular to each other -/
theorem cerenkov_dir_perp_pol (K : Consts ℝ) (m : CerMat ℝ) (d : Dist ℝ) (s : List ℝ)
    (p : Photon ℝ) (rest : List ℝ)
    (hmove : 0 < vdot (stepDelta d) (stepDelta d))
    (hv0 : 0 < d.preSpeed) (hv1 : 0 < d.postSpeed) (hn : ∀ e, 0 < m.ri.eval e)
    (h : (CerGen.mk' K m d).photon K s = some (p, rest)) :
    isUnit p.direction ∧ isUnit p.polarization ∧ vdot p.direction p.polarization = 0 := by
  obtain ⟨ue, _, uphi, _, u, _, hacc, hp⟩ := cer_photon_spec K _ s p rest h
  obtain ⟨hc0, hc1⟩ := cer_cos_range K m d ue hv0 hv1 hn hacc
  obtain ⟨h1, h2, h3, _⟩ := cer_vectors (CerGen.mk' K m d) _ ((CerGen.mk' K m d).samplePhi.eval uphi)
    (mk'_dir_unit K m d hmove) (le_of_lt hc0) hc1
  rw [hp]; exact ⟨h1, h2, h3⟩

attribute [local instance] Classical.propDecidable in
/-- the photon lies on the Cerenkov cone of the mean speed β̄ = (β_pre + β_post)/2:
    cos θ = 1/(n(E) β̄) by construction (z component in the parent frame), it does not exceed 1,
    and after the rotation this is the angle to the step direction `w` — precisely, to
    (w_x, |w_y|, w_z) when `w` falls in `rotate`'s near-axis branch, to `w` otherwise
    (known finding `rotate-near-axis-sign`: for w_y < 0 in that band the cone axis is mirrored,
    deviation of cos θ ≤ 2|w_y| < 0.01 by `rotate_polar_angle_near_axis_bound`) -/
theorem cerenkov_on_cone (K : Consts ℝ) (m : CerMat ℝ) (d : Dist ℝ) (s : List ℝ)
    (p : Photon ℝ) (rest : List ℝ)
    (hmove : 0 < vdot (stepDelta d) (stepDelta d))
    (hv0 : 0 < d.preSpeed) (hv1 : 0 < d.postSpeed) (hn : ∀ e, 0 < m.ri.eval e)
    (h : (CerGen.mk' K m d).photon K s = some (p, rest)) :
    let w := makeUnitVector (stepDelta d)
    let cosTheta := 1 / (m.ri.eval p.energy * ((d.preSpeed + d.postSpeed) / 2))
    cosTheta ≤ 1 ∧
    vdot p.direction ⟨w.x, if nearAxis w then |w.y| else w.y, w.z⟩ = cosTheta := by
  intro w cosTheta
  obtain ⟨ue, _, uphi, _, u, _, hacc, hp⟩ := cer_photon_spec K _ s p rest h
  obtain ⟨hc0, hc1⟩ := cer_cos_range K m d ue hv0 hv1 hn hacc
  obtain ⟨_, _, _, h4⟩ := cer_vectors (CerGen.mk' K m d) _ ((CerGen.mk' K m d).samplePhi.eval uphi)
    (mk'_dir_unit K m d hmove) (le_of_lt hc0) hc1
  have hcos : ((CerGen.mk' K m d).propose ue).2 = cosTheta := by
    have he : p.energy = ((CerGen.mk' K m d).propose ue).1 := by rw [hp]
    show _ = 1 / (m.ri.eval p.energy * ((d.preSpeed + d.postSpeed) / 2))
    rw [he, propose_eq]; simp only []
    rw [mk'_invBeta, mk'_mat]
    have h1 : m.ri.eval ((CerGen.mk' K m d).sampleEnergy.eval ue) ≠ 0 := ne_of_gt (hn _)
    have h2 : d.preSpeed + d.postSpeed ≠ 0 := by linarith
    field_simp
  rw [poleImage_eq _ (mk'_dir_unit K m d hmove), mk'_dir] at h4
  refine ⟨by rw [← hcos]; exact hc1, ?_⟩
  rw [← hcos, hp]; exact h4

/-- the photon energy lies inside the tabulated refractive-index range -/
theorem cerenkov_energy_in_grid (K : Consts ℝ) (m : CerMat ℝ) (d : Dist ℝ) (s : List ℝ)
    (p : Photon ℝ) (rest : List ℝ) (hs : inUnit s) (hgrid : m.ri.front ≤ m.ri.back)
    (h : (CerGen.mk' K m d).photon K s = some (p, rest)) :
    m.ri.front ≤ p.energy ∧ p.energy ≤ m.ri.back := by
  obtain ⟨ue, hue, uphi, _, u, _, _, hp⟩ := cer_photon_spec K _ s p rest h
  obtain ⟨h0, h1⟩ := hs ue hue
  have he : p.energy = (m.ri.back - m.ri.front) * ue + m.ri.front := by
    rw [hp, propose_eq]; simp only []; exact mk'_sampleEnergy K m d ue
  rw [he]
  constructor <;> nlinarith

/-- ★ the photon is created on the parent's step segment -/
theorem cerenkov_position_on_segment (K : Consts ℝ) (m : CerMat ℝ) (d : Dist ℝ) (s : List ℝ)
    (p : Photon ℝ) (rest : List ℝ) (hs : inUnit s)
    (h : (CerGen.mk' K m d).photon K s = some (p, rest)) :
    ∃ u : ℝ, 0 ≤ u ∧ u ≤ 1 ∧
      p.position = ⟨d.prePos.x + u * (d.postPos.x - d.prePos.x),
                    d.prePos.y + u * (d.postPos.y - d.prePos.y),
                    d.prePos.z + u * (d.postPos.z - d.prePos.z)⟩ := by
  obtain ⟨ue, _, uphi, _, u, hu, _, hp⟩ := cer_photon_spec K _ s p rest h
  obtain ⟨h0, h1⟩ := hs u hu
  exact ⟨u, h0, h1, by rw [hp]; exact stepPos_real d u⟩

/-- ★ … at a time not earlier than the parent's pre-step time -/
theorem cerenkov_time_ge_pre (K : Consts ℝ) (hK : K.Pos) (m : CerMat ℝ) (d : Dist ℝ)
    (s : List ℝ) (p : Photon ℝ) (rest : List ℝ) (hs : inUnit s)
    (hv0 : 0 < d.preSpeed) (hv1 : 0 < d.postSpeed) (hL : 0 ≤ d.stepLength)
    (h : (CerGen.mk' K m d).photon K s = some (p, rest)) : d.time ≤ p.time := by
  obtain ⟨ue, _, uphi, _, u, hu, _, hp⟩ := cer_photon_spec K _ s p rest h
  obtain ⟨h0, h1⟩ := hs u hu
  rw [hp]; exact stepTime_ge K hK d u h0 h1 hv0 hv1 hL

/-- the mean number of photons per length is zero at and below the Cerenkov threshold
    (1/(nβ) ≥ 1 for the largest tabulated n) … -/
theorem dndx_zero_below_threshold (K : Consts ℝ) (m : CerMat ℝ) (z beta : ℝ)
    (hg : m.ri.EndsOrdered) (hb : m.ri.y (m.ri.size - 1) ≤ 1 / beta) : dndx K m z beta = 0 :=
  dndx_zero_below K m z beta hg hb

/-- … and then `CerenkovOffload` requests no photons and draws no random number (for every
    double→unsigned conversion `cast`) -/
theorem no_photons_below_threshold (K : Consts ℝ) (cast : ℝ → ℕ) (m : CerMat ℝ) (st : Step ℝ)
    (s : List ℝ) (hg : m.ri.EndsOrdered)
    (hb : m.ri.y (m.ri.size - 1) ≤ 1 / ((st.preSpeed + st.postSpeed) / 2)) :
    ∃ dist, cerenkovOffload K cast m st s = some (dist, s) ∧ dist.numPhotons = 0 := by
  have hz : cerenkovNumPerLen K m st = 0 := by
    simp only [cerenkovNumPerLen]
    apply dndx_zero_below K m _ _ hg
    have : (@OfScientific.ofScientific ℝ Num.instOfScientific 5 true 1)
        * (st.preSpeed + st.postSpeed) = (st.preSpeed + st.postSpeed) / 2 := by
      show (OfScientific.ofScientific 5 true 1 : ℝ) * _ = _
      norm_num; ring
    opt_simp
    rw [this]; exact hb
  refine ⟨st.dist 0, ?_, ?_⟩
  · simp only [cerenkovOffload]
    rw [if_pos]
    rw [hz]; opt_simp
  · simp [Step.dist]

/-- termination of the energy loop, described by counting: the inner loop returns the proposal
    of the FIRST script value whose cos θ = (1/β̄)/n(E) does not exceed 1, having consumed the
    values before it (no bound on how many there are: that is a property of the stream) -/
theorem cerenkov_energy_loop_first_accept (g : CerGen ℝ) (pre : List ℝ) (u : ℝ) (rest : List ℝ)
    (hpre : ∀ x ∈ pre, 1 < (g.propose x).2) (hu : ¬ 1 < (g.propose u).2) :
    g.energyInner (pre ++ u :: rest) = some (g.propose u, rest) :=
  energyInner_first_accept g pre u rest hpre hu

/-! ### scintillation photons -/

/-- ★ direction is a unit vector, polarisation is a unit vector, they are perpendicular.
    Contract on `sincospi`: it never returns (0,0) (the real one returns s² + c² = 1). -/
theorem scint_dir_perp_pol (K : Consts ℝ) (sincospi : ℝ → ℝ × ℝ) (expm1 : ℝ → ℝ) (d : Dist ℝ)
    (m : ScintInput ℝ) (spare : Option ℝ) (s : List ℝ) (p : Photon ℝ) (sp' : Option ℝ)
    (rest : List ℝ) (hs : inUnit s)
    (hsc : ∀ x, (sincospi x).1 ≠ 0 ∨ (sincospi x).2 ≠ 0)
    (h : scintPhoton K sincospi expm1 d m spare s = some ((p, sp'), rest)) :
    isUnit p.direction ∧ isUnit p.polarization ∧ vdot p.direction p.polarization = 0 := by
  obtain ⟨comp, _, lam, s1, s2, _, _, uC, huC, uP, _, uPol, _, u, _, uT, _, hp⟩ :=
    scint_photon_spec K sincospi expm1 d m spare s p sp' rest h
  obtain ⟨h0, h1⟩ := hs uC huC
  obtain ⟨c1, c2⟩ := costOf_range uC h0 h1
  rw [hp]
  exact ⟨scintDirection_unit _ _ c1 c2, scintPolarization_unit _ _ _ _ c1 c2 (hsc uPol),
    scint_dir_perp_pol_vec _ _ _ _ c1 c2⟩

/-- ★ created on the parent's step segment (at the post-step point for a neutral parent) -/
theorem scint_position_on_segment (K : Consts ℝ) (sincospi : ℝ → ℝ × ℝ) (expm1 : ℝ → ℝ)
    (d : Dist ℝ) (m : ScintInput ℝ) (spare : Option ℝ) (s : List ℝ) (p : Photon ℝ)
    (sp' : Option ℝ) (rest : List ℝ) (hs : inUnit s)
    (h : scintPhoton K sincospi expm1 d m spare s = some ((p, sp'), rest)) :
    ∃ u : ℝ, 0 ≤ u ∧ u ≤ 1 ∧
      p.position = ⟨d.prePos.x + u * (d.postPos.x - d.prePos.x),
                    d.prePos.y + u * (d.postPos.y - d.prePos.y),
                    d.prePos.z + u * (d.postPos.z - d.prePos.z)⟩ := by
  obtain ⟨comp, _, lam, s1, s2, _, _, uC, _, uP, _, uPol, _, u, hu, uT, _, hp⟩ :=
    scint_photon_spec K sincospi expm1 d m spare s p sp' rest h
  have hu01 : 0 ≤ u ∧ u ≤ 1 := by
    rcases hu with hu | hu
    · rw [hu]; constructor <;> norm_num
    · exact hs u hu
  exact ⟨u, hu01.1, hu01.2, by rw [hp]; exact stepPos_real d u⟩

/-- ★ not earlier than the pre-step time (component fall times are > 0: validated input) -/
theorem scint_time_ge_pre (K : Consts ℝ) (hK : K.Pos) (sincospi : ℝ → ℝ × ℝ) (expm1 : ℝ → ℝ)
    (d : Dist ℝ) (m : ScintInput ℝ) (spare : Option ℝ) (s : List ℝ) (p : Photon ℝ)
    (sp' : Option ℝ) (rest : List ℝ) (hs : inUnit s)
    (hv0 : 0 < d.preSpeed) (hv1 : 0 < d.postSpeed) (hL : 0 ≤ d.stepLength)
    (hfall : ∀ c ∈ m.components, 0 < c.fallTime)
    (h : scintPhoton K sincospi expm1 d m spare s = some ((p, sp'), rest)) :
    d.time ≤ p.time := by
  obtain ⟨comp, hcomp, lam, s1, s2, _, _, uC, _, uP, _, uPol, _, u, hu, uT, huT, hp⟩ :=
    scint_photon_spec K sincospi expm1 d m spare s p sp' rest h
  have hu01 : 0 ≤ u ∧ u ≤ 1 := by
    rcases hu with hu | hu
    · rw [hu]; constructor <;> norm_num
    · exact hs u hu
  obtain ⟨t0, t1⟩ := hs uT huT
  have h1 := stepTime_ge K hK d u hu01.1 hu01.2 hv0 hv1 hL
  have h2 := expoAt_nonneg (1 / comp.fallTime) uT (by have := hfall comp hcomp; positivity) t0 t1
  rw [hp]; simp only []; linarith

/-- photon energy: positive EXACTLY when the normal-sampled wavelength is positive.
    FULL STATEMENT WANTED (C20): `0 < p.energy` for every validated material and every script.
    It is false: `ScintillationParams` only checks `lambda_mean > 0` and `lambda_sigma > 0`, and
    the Box–Muller sample `mean + σ·sqrt(−2 ln u₂)·sin(2π u₁)` is ≤ 0 for ordinary uniforms as
    soon as mean < 8.57·σ (and for u₂ = 0 whatever the ratio) — see
    `scint_energy_nonpositive_witness` and the replay `scint-wavelength-nonpositive`. -/
theorem scint_energy_pos_partial (K : Consts ℝ) (hK : K.Pos) (sincospi : ℝ → ℝ × ℝ)
    (expm1 : ℝ → ℝ) (d : Dist ℝ) (m : ScintInput ℝ) (spare : Option ℝ) (s : List ℝ)
    (p : Photon ℝ) (sp' : Option ℝ) (rest : List ℝ)
    (h : scintPhoton K sincospi expm1 d m spare s = some ((p, sp'), rest)) :
    ∃ comp ∈ m.components, ∃ lam : ℝ, ∃ s1 s2 : List ℝ,
      normalSample K comp.lambdaMean comp.lambdaSigma spare s1 = some ((lam, sp'), s2) ∧
      p.energy = K.hc / lam / K.mev ∧ (0 < p.energy ↔ 0 < lam) := by
  obtain ⟨comp, hcomp, lam, s1, s2, hnorm, _, uC, _, uP, _, uPol, _, u, _, uT, _, hp⟩ :=
    scint_photon_spec K sincospi expm1 d m spare s p sp' rest h
  have he : p.energy = K.hc / lam / K.mev := by
    rw [hp]; simp only [wavelengthToEnergy]
  refine ⟨comp, hcomp, lam, s1, s2, hnorm, he, ?_⟩
  rw [he]
  have h1 := hK.hc
  have h2 := hK.mev
  constructor
  · intro hpos
    by_contra hl
    have hl' : lam ≤ 0 := not_lt.mp hl
    have : K.hc / lam ≤ 0 := div_nonpos_of_nonneg_of_nonpos (le_of_lt h1) hl'
    have : K.hc / lam / K.mev ≤ 0 := div_nonpos_of_nonpos_of_nonneg this (le_of_lt h2)
    linarith
  · intro hl; positivity

/-- the wavelength sampler at ℝ: with mean = σ = 1 (accepted by the validation), u₁ = 3/4
    (sin 2πu₁ = −1) and u₂ = e⁻⁸ (r = 4) — both ordinary canonical values — the sampled
    wavelength is 1 − 4 = −3 < 0, hence (by `scint_energy_pos_partial`) a negative energy -/
theorem scint_energy_nonpositive_witness (K : Consts ℝ) (hpi : K.twoPiNormal = 2 * Real.pi)
    (rest : List ℝ) :
    ∃ u1 u2 : ℝ, (0 ≤ u1 ∧ u1 ≤ 1) ∧ (0 < u2 ∧ u2 ≤ 1) ∧
      ∃ sp, normalSample K 1 1 none (u1 :: u2 :: rest) = some ((-3, sp), rest) := by
  refine ⟨3 / 4, Real.exp (-8), ⟨by norm_num, by norm_num⟩,
    ⟨Real.exp_pos _, by rw [Real.exp_le_one_iff]; norm_num⟩, ?_⟩
  simp only [normalSample]
  opt_simp
  rw [hpi, Real.log_exp]
  have hr : Real.sqrt (-2 * -8) = 4 := by
    rw [show (-2 : ℝ) * -8 = 4 * 4 by norm_num]; exact Real.sqrt_mul_self (by norm_num)
  have hsin : Real.sin (2 * Real.pi * (3 / 4)) = -1 := by
    rw [show 2 * Real.pi * (3 / 4) = Real.pi / 2 + Real.pi by ring, Real.sin_add_pi,
      Real.sin_pi_div_two]
  rw [hr, hsin]
  refine ⟨some (4 * Real.cos (2 * Real.pi * (3 / 4))), ?_⟩
  norm_num

/-! ### non-vacuity -/

example : isUnit (⟨0, 0, 1⟩ : Vec3 ℝ) := by simp [isUnit, vdot]
example : isUnit (⟨3 / 5, 0, 4 / 5⟩ : Vec3 ℝ) := by simp only [isUnit, vdot]; norm_num
/-- the near-axis branch with negative y is inhabited by unit vectors … -/
example : ∃ r : Vec3 ℝ, isUnit r ∧ nearAxis r ∧ r.y < 0 := by
  refine ⟨⟨0, -(1 / 1000), Real.sqrt (1 - 1 / 1000000)⟩, ?_, ?_, by norm_num⟩
  · simp only [isUnit, vdot]
    rw [Real.mul_self_sqrt (by norm_num)]; norm_num
  · have : (1 : ℝ) - Real.sqrt (1 - 1 / 1000000) * Real.sqrt (1 - 1 / 1000000) = (1 / 1000) * (1 / 1000) := by
      rw [Real.mul_self_sqrt (by norm_num)]; norm_num
    simp only [nearAxis]
    rw [this, Real.sqrt_mul_self (by norm_num)]
    constructor <;> norm_num
example : inUnit [0, 1 / 2, 1] := by
  intro x hx; simp at hx; rcases hx with h | h | h <;> subst h <;> constructor <;> norm_num
example : (⟨1, 1, 1, 1, 1, 1⟩ : Consts ℝ).Pos := ⟨by norm_num, by norm_num, by norm_num⟩
example : (⟨#[1, 2], #[(3 : ℝ) / 2, 2]⟩ : Grid ℝ).EndsOrdered := by
  refine ⟨rfl, ?_, ?_⟩ <;> (simp [Grid.front, Grid.back, Grid.x, Grid.y, Grid.size]; try norm_num)
example : (⟨#[1, 2], #[(3 : ℝ) / 2, 2]⟩ : Grid ℝ).Sorted := by
  intro i j hij hj
  have hj' : j < 2 := hj
  have : i = 0 ∧ j = 1 := by omega
  obtain ⟨rfl, rfl⟩ := this
  simp [Grid.x]
/-- the loop hypothesis `… = some …` is satisfiable: an accepted value yields a result -/
example (g : CerGen ℝ) (u : ℝ) (hu : ¬ 1 < (g.propose u).2) :
    g.energyInner [u] = some (g.propose u, []) :=
  cerenkov_energy_loop_first_accept g [] u [] (by simp) hu

/-- the speed the optical offload reads (`ParticleTrackView::speed`, used for the Cerenkov
    threshold `β·n > 1` and the photon emission times): for every kinetic energy `E ≥ 0` and
    mass `m > 0` it is a physical β — in `[0, 1)`, and positive for a moving particle -/
theorem particleSpeed_physical (e m : ℝ) (he : 0 ≤ e) (hm : 0 < m) :
    0 ≤ particleSpeed e m ∧ particleSpeed e m < 1 ∧ (0 < e → 0 < particleSpeed e m) := by
  unfold particleSpeed
  simp only [NumR.sqrt_real, NumR.sq_real, NumR.hsub_real, NumR.hdiv_real, NumR.hadd_real,
    NumR.lit1]
  have hden : 0 < e + m := by linarith
  have hg0 : 0 < m / (e + m) := div_pos hm hden
  have hg1 : m / (e + m) ≤ 1 := by rw [div_le_one hden]; linarith
  refine ⟨Real.sqrt_nonneg _, ?_, fun hpos => ?_⟩
  · have : 1 - m / (e + m) * (m / (e + m)) < 1 := by nlinarith
    calc Real.sqrt (1 - m / (e + m) * (m / (e + m))) < Real.sqrt 1 :=
          Real.sqrt_lt_sqrt (by nlinarith) this
      _ = 1 := Real.sqrt_one
  · have hlt : m / (e + m) < 1 := by rw [div_lt_one hden]; linarith
    apply Real.sqrt_pos.mpr
    nlinarith

/-- the validation the code performs establishes the hypothesis the grid theorems assume:
    `strictlyIncreasing` (the `CELER_VALIDATE` loop of the optical `MaterialParams`) gives a
    chain, hence every earlier knot is below every later one -/
theorem strictlyIncreasing_pairwise : ∀ l : List ℝ, strictlyIncreasing l = true →
    l.Pairwise (· < ·)
  | [], _ => List.Pairwise.nil
  | [a], _ => List.pairwise_singleton _ a
  | a :: b :: rest, h => by
    simp only [strictlyIncreasing, Bool.and_eq_true, NumR.lt_real] at h
    have ih := strictlyIncreasing_pairwise (b :: rest) h.2
    refine List.Pairwise.cons ?_ ih
    intro c hc
    rcases List.mem_cons.mp hc with rfl | hc'
    · exact h.1
    · exact lt_trans h.1 ((List.pairwise_cons.mp ih).1 c hc')

/-- ★ a refractive-index table that passes the code's validation is a `Sorted` grid with at
    least one knot — the well-formedness premise of `cerenkov_energy_in_grid` and the grid
    lemmas is exactly what the constructor enforces, not an extra assumption -/
theorem refractiveValid_sorted (es ns ints : List ℝ) (h : refractiveValid es ns = true) :
    (CerMat.ofLists es ns ints).ri.Sorted ∧ 0 < (CerMat.ofLists es ns ints).ri.size ∧
    (CerMat.ofLists es ns ints).ri.xs.size = (CerMat.ofLists es ns ints).ri.ys.size := by
  simp only [refractiveValid, Bool.and_eq_true, Bool.not_eq_true', beq_iff_eq] at h
  obtain ⟨⟨⟨hne, hlen⟩, hes⟩, _⟩ := h
  have hp := strictlyIncreasing_pairwise es hes
  refine ⟨?_, ?_, ?_⟩
  · intro i j hij hj
    simp only [CerMat.ofLists, Grid.size, List.size_toArray] at hj
    simp only [CerMat.ofLists, Grid.x, Array.getD_eq_getD_getElem?, List.getElem?_toArray]
    have hi : i < es.length := by omega
    rw [List.getElem?_eq_getElem hi, List.getElem?_eq_getElem hj]
    exact List.pairwise_iff_getElem.mp hp i j hi hj hij
  · simp only [CerMat.ofLists, Grid.size, List.size_toArray]
    cases es with
    | nil => simp at hne
    | cons a l => simp
  · simp only [CerMat.ofLists, List.size_toArray]; exact hlen

/-- the Cerenkov angle integral (`CerenkovParams`: running trapezoid sum of 1/n² over the energy
    grid) never decreases along a non-decreasing energy grid, whatever the refractive indices:
    every entry is at least the running value it started from, and the list is ordered -/
theorem angleIntegralFrom_monotone (acc : ℝ) (es ns : List ℝ) (h : es.Pairwise (· ≤ ·)) :
    (∀ x ∈ angleIntegralFrom acc es ns, acc ≤ x) ∧
    (angleIntegralFrom acc es ns).Pairwise (· ≤ ·) := by
  fun_induction angleIntegralFrom acc es ns with
  | case1 acc e0 e1 es n0 n1 ns nxt ih =>
    have h01 : e0 ≤ e1 := (List.pairwise_cons.mp h).1 e1 (by simp)
    obtain ⟨ih1, ih2⟩ := ih (List.pairwise_cons.mp h).2
    have hstep : acc ≤ nxt := by
      simp only [nxt, NumR.hadd_real, NumR.hmul_real, NumR.hsub_real, NumR.hdiv_real,
        NumR.sq_real, NumR.lit1]
      have hhalf : (@OfScientific.ofScientific ℝ Num.instOfScientific 5 true 1) = 1 / 2 := by
        show (OfScientific.ofScientific 5 true 1 : ℝ) = 1 / 2
        norm_num
      rw [hhalf]
      have a0 : 0 ≤ 1 / (n0 * n0) := div_nonneg zero_le_one (mul_self_nonneg n0)
      have a1 : 0 ≤ 1 / (n1 * n1) := div_nonneg zero_le_one (mul_self_nonneg n1)
      have : 0 ≤ 1 / 2 * (e1 - e0) * (1 / (n0 * n0) + 1 / (n1 * n1)) :=
        mul_nonneg (mul_nonneg (by norm_num) (by linarith)) (by linarith)
      linarith
    refine ⟨fun x hx => ?_, List.Pairwise.cons ih1 ih2⟩
    rcases List.mem_cons.mp hx with rfl | hx'
    · exact hstep
    · exact le_trans hstep (ih1 x hx')
  | case2 => exact ⟨fun x hx => by simp at hx, List.Pairwise.nil⟩

/-- ★ hence the tabulated integral starts at 0 and is non-decreasing, so the sampled photon
    number density `dN/dx ∝ ∫ (1 − 1/(n β)²) dE` is built from an ordered table -/
theorem angleIntegral_monotone (es ns : List ℝ) (h : es.Pairwise (· ≤ ·)) :
    (angleIntegral es ns).Pairwise (· ≤ ·) ∧ ∀ x ∈ angleIntegral es ns, 0 ≤ x := by
  have := angleIntegralFrom_monotone (@OfNat.ofNat ℝ 0 (Num.instOfNat 0)) es ns h
  have h0 : (@OfNat.ofNat ℝ 0 (Num.instOfNat 0)) = (0 : ℝ) := NumR.lit0
  unfold angleIntegral
  refine ⟨List.Pairwise.cons (fun x hx => ?_) this.2, fun x hx => ?_⟩
  · exact this.1 x hx
  · rcases List.mem_cons.mp hx with rfl | hx'
    · exact le_of_eq h0.symm
    · exact le_trans (le_of_eq h0.symm) (this.1 x hx')

end CelerVerif.Optical
