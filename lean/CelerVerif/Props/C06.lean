/-
C06 — event results are reproducible and independent of history and thread order.

What is proved here is proved on the model (Model/Reindex*.lean + the field inventories
regenerated from the current headers); that the C++ actions really are slot-local and read no
left-over state is tested by the differential replays of tools/checks/c06.py.
-/
import CelerVerif.Model.ReindexSlotInit
import CelerVerif.Lemmas.ReindexBasic
import CelerVerif.Props.C13

namespace CelerVerif.Reindex
open CelerVerif.Generated

/-! ### ★ track initialisation / reseed leave no field of the previous occupant -/

/-- ★ every per-slot datum of the core state (as declared in the CURRENT headers) is assigned
    by track initialisation, or by the reseed at the event boundary, or is in the justified
    list `writtenBeforeRead`.  A new field that is not reset makes this `decide` fail. -/
theorem init_overwrites_every_field :
    ∀ f ∈ allFields, f ∈ initAssigned ∨ f ∈ reseedAssigned ∨ f ∈ writtenBeforeRead.map (·.1) := by
  decide +kernel

/-- the justified list is not padded: none of its entries is assigned by initialisation, and
    every entry is a real field -/
theorem justified_list_tight :
    (∀ f ∈ writtenBeforeRead.map (·.1), f ∈ allFields ∧ f ∉ initAssigned) := by
  decide +kernel

/-- the sub-states of CoreStateData are the ones the inventory covers, and InitTracksExecutor
    assigns sim, particle, geometry (both paths), material and physics -/
theorem core_members_covered :
    StateFields.core = ["geometry", "materials", "particles", "physics", "rng", "sim", "init",
                        "track_slots", "stream_id"] ∧
    (∀ c ∈ requiredInitCalls, c ∈ StateFields.initExecutor) := by
  decide +kernel

/-- reseeding a slot is a function of (seed, event, slot count, slot) only — whatever generator
    state the slot held before — namely the seed state advanced by `(event·slots + slot)·2^67`
    steps (C13 `init_eq`) -/
theorem reseed_independent_of_prior_state (seed event nslots slot : Nat)
    (prior₁ prior₂ : Xorwow.State) :
    (fun (_ : Xorwow.State) => Xorwow.init seed (Xorwow.reseedIndex event nslots slot) 0) prior₁ =
      (fun (_ : Xorwow.State) => Xorwow.init seed (Xorwow.reseedIndex event nslots slot) 0) prior₂
    ∧ Xorwow.init seed (Xorwow.reseedIndex event nslots slot) 0 =
        Xorwow.stepN 0 (Xorwow.stepN (2 ^ 67 * Xorwow.reseedIndex event nslots slot)
          (Xorwow.seedState seed)) := by
  refine ⟨rfl, ?_⟩
  apply Xorwow.init_eq
  · unfold Xorwow.reseedIndex; exact Nat.mod_lt _ (by decide)
  · decide

/-! ### ★ thread order does not matter -/

/-- ★ applying a slot-local update through ANY thread → slot indirection array that is a
    permutation of the slots (shuffled, partitioned by status, sorted by particle or action —
    or the empty array = identity) yields the same per-slot states as the direct slot-by-slot
    application -/
theorem slot_local_map_perm_invariant {σ : Type} (f : Nat → σ → σ) (ts₁ ts₂ : List Nat)
    (st : List σ) (h₁ : ts₁ = [] ∨ ts₁.Perm (List.range st.length))
    (h₂ : ts₂ = [] ∨ ts₂.Perm (List.range st.length)) :
    launch f ts₁ st = launch f ts₂ st ∧ launch f ts₁ st = mapSlots f st := by
  rw [launch_perm f ts₁ st h₁, launch_perm f ts₂ st h₂]
  exact ⟨rfl, rfl⟩

example : launch (fun s (x : Nat) => x + 10 * s) [2, 0, 1] [1, 1, 1] = [1, 11, 21] := by decide

/-! ### action ranges of a key-sorted thread array -/

/-- PARTIAL (`action_ranges_exact`): proved for the SPECIFICATION of the offsets
    (`offsetSpec keys a` = number of threads whose action is valid and below `a`): in a
    key-sorted thread array, thread `t` carries action `a` iff `offsetSpec a ≤ t < offsetSpec (a+1)`;
    unset (null) actions are in no range.
    Full statement (not proved): the same for `countTracksPerAction keys A` as the loop +
    backfill are written.  As written the two differ exactly on the actions above the largest
    present one, whose offsets are `size` instead of `numSet`, so the range of the largest
    present action also contains the trailing threads with unset action (harmless: the
    executors re-check the action id).  The as-written function is tied to the model by exact
    correspondence and to this characterisation by the oracle in tools/checks/c06.py. -/
theorem action_ranges_exact_partial (keys : List Id)
    (hs : keys.Pairwise (fun x y => idLe x y = true)) (a t : Nat) (k : Id)
    (hk : keys[t]? = some k) :
    k = some a ↔ (offsetSpec keys a ≤ t ∧ t < offsetSpec keys (a + 1)) := by
  have h1 := lt_offsetSpec_iff keys hs a t k hk
  have h2 := lt_offsetSpec_iff keys hs (a + 1) t k hk
  cases k with
  | none =>
    simp [keyLt] at h1 h2
    constructor
    · intro h; cases h
    · rintro ⟨_, h⟩; omega
  | some b =>
    simp only [keyLt, decide_eq_true_eq] at h1 h2
    constructor
    · intro h
      have : b = a := Option.some.inj h
      omega
    · rintro ⟨h3, h4⟩
      have : b = a := by omega
      rw [this]

/-- the as-written offsets on a concrete sorted array: the last present action's range runs to
    the end of the array, over the two unset threads -/
example : countTracksPerAction [some 0, some 0, some 2, some 2, some 2, some 4, none, none] 5 =
    [some 0, some 2, some 2, some 5, some 5, some 8] := by decide
example : (List.range 6).map (offsetSpec [some 0, some 0, some 2, some 2, some 2, some 4, none, none])
    = [0, 2, 2, 5, 5, 6] := by decide

/-! ### an event's result is a function of (primaries, seed, event id, slot count) -/

/-- A stream state at an event boundary: per slot the generator, the visible track data
    (`none` = inactive) and whatever is left over from earlier occupants (`hidden`: the fields
    of `writtenBeforeRead`, stale indirection order, …). -/
structure Stream (ν η : Type) where
  rng : List Xorwow.State
  vis : List (Option ν)
  hidden : List η
  pending : List ν

/-- `Stepper::reseed` + inserting the primaries on a state whose slots are all inactive -/
def beginEvent {ν η : Type} (seed event : Nat) (prims : List ν) (s : Stream ν η) : Stream ν η :=
  { s with rng := (List.range s.rng.length).map
                    (fun i => Xorwow.init seed (Xorwow.reseedIndex event s.rng.length i) 0)
           pending := prims }

/-- what the transport can see -/
def visible {ν η : Type} (s : Stream ν η) : List Xorwow.State × List (Option ν) × List ν :=
  (s.rng, s.vis, s.pending)

/-- ★ Let `step` be any stepping function that is oblivious to the hidden part (this is what
    `init_overwrites_every_field` + slot-locality say of the real loop; tested by the replays).
    Then after reseeding, transporting the same primaries on two states with the same number of
    slots, all inactive (after a completed event, or an aborted one + reset), gives the same
    visible state after any number of steps, whatever the two states went through before. -/
theorem event_result_is_function_of {ν η : Type} (step : Stream ν η → Stream ν η)
    (hstep : ∀ s₁ s₂, visible s₁ = visible s₂ → visible (step s₁) = visible (step s₂))
    (seed event : Nat) (prims : List ν) (s₁ s₂ : Stream ν η)
    (hslots : s₁.rng.length = s₂.rng.length)
    (hinactive : s₁.vis = s₂.vis)   -- both: every slot inactive, same slot count
    (n : Nat) :
    visible (step^[n] (beginEvent seed event prims s₁)) =
      visible (step^[n] (beginEvent seed event prims s₂)) := by
  induction n with
  | zero => simp [visible, beginEvent, hslots, hinactive]
  | succ n ih =>
    rw [Function.iterate_succ_apply', Function.iterate_succ_apply']
    exact hstep _ _ ih

example : visible (beginEvent (ν := Nat) (η := Nat) 1 2 [7] ⟨[default, default], [none, none], [5, 6], []⟩)
    = visible (beginEvent (ν := Nat) (η := Nat) 1 2 [7]
        ⟨[Xorwow.seedState 9, Xorwow.seedState 3], [none, none], [0, 0], [1, 2, 3]⟩) := by
  simp [visible, beginEvent]

end CelerVerif.Reindex
