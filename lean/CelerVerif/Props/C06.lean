/-
C06 — event results are reproducible and independent of history and thread order.

What is proved here is proved on the model (Model/Reindex*.lean + the field inventories
regenerated from the current headers); that the C++ actions really are slot-local and read no
left-over state is tested by the differential replays of tools/checks/c06.py.
-/
import CelerVerif.Model.ReindexSlotInit
import CelerVerif.Lemmas.ReindexBasic
import CelerVerif.Lemmas.ReindexCount
import CelerVerif.Lemmas.ReindexPerm
import CelerVerif.Props.C13

namespace CelerVerif.Reindex
open CelerVerif.Generated

/-! ### ★ track initialisation / reseed leave no field of the previous occupant -/

/-- ★ every per-slot datum of the core state (as declared in the CURRENT headers) is assigned
    by track initialisation, or by the reseed at the event boundary, or is in the justified
    list `writtenBeforeRead`.  A new field that is not reset makes this `decide` fail. -/
theorem init_overwrites_every_field :
    ∀ f ∈ allFields, f ∈ initAssigned ∨ f ∈ reseedAssigned ∨ f ∈ writtenBeforeRead.map (·.1) := by
  decide +kernel

/-- the justified list is not padded: none of its entries is assigned by initialisation, and
    every entry is a real field -/
theorem justified_list_tight :
    (∀ f ∈ writtenBeforeRead.map (·.1), f ∈ allFields ∧ f ∉ initAssigned) := by
  decide +kernel

/-- the sub-states of CoreStateData are the ones the inventory covers, and InitTracksExecutor
    assigns sim, particle, geometry (both paths), material and physics -/
theorem core_members_covered :
    StateFields.core = ["geometry", "materials", "particles", "physics", "rng", "sim", "init",
                        "track_slots", "stream_id"] ∧
    (∀ c ∈ requiredInitCalls, c ∈ StateFields.initExecutor) := by
  decide +kernel

/-- reseeding a slot is a function of (seed, event, slot count, slot) only — whatever generator
    state the slot held before — namely the seed state advanced by `(event·slots + slot)·2^67`
    steps (C13 `init_eq`) -/
theorem reseed_independent_of_prior_state (seed event nslots slot : Nat)
    (prior₁ prior₂ : Xorwow.State) :
    (fun (_ : Xorwow.State) => Xorwow.init seed (Xorwow.reseedIndex event nslots slot) 0) prior₁ =
      (fun (_ : Xorwow.State) => Xorwow.init seed (Xorwow.reseedIndex event nslots slot) 0) prior₂
    ∧ Xorwow.init seed (Xorwow.reseedIndex event nslots slot) 0 =
        Xorwow.stepN 0 (Xorwow.stepN (2 ^ 67 * Xorwow.reseedIndex event nslots slot)
          (Xorwow.seedState seed)) := by
  refine ⟨rfl, ?_⟩
  apply Xorwow.init_eq
  · unfold Xorwow.reseedIndex; exact Nat.mod_lt _ (by decide)
  · decide

/-! ### ★ thread order does not matter -/

/-- ★ applying a slot-local update through ANY thread → slot indirection array that is a
    permutation of the slots (shuffled, partitioned by status, sorted by particle or action —
    or the empty array = identity) yields the same per-slot states as the direct slot-by-slot
    application -/
theorem slot_local_map_perm_invariant {σ : Type} (f : Nat → σ → σ) (ts₁ ts₂ : List Nat)
    (st : List σ) (h₁ : ts₁ = [] ∨ ts₁.Perm (List.range st.length))
    (h₂ : ts₂ = [] ∨ ts₂.Perm (List.range st.length)) :
    launch f ts₁ st = launch f ts₂ st ∧ launch f ts₁ st = mapSlots f st := by
  rw [launch_perm f ts₁ st h₁, launch_perm f ts₂ st h₂]
  exact ⟨rfl, rfl⟩

example : launch (fun s (x : Nat) => x + 10 * s) [2, 0, 1] [1, 1, 1] = [1, 11, 21] := by decide

/-! ### action ranges of a key-sorted thread array -/

/-- specification level: with `offsetSpec keys a` = number of threads whose action is valid and
    below `a`, thread `t` of a key-sorted array carries action `a` iff
    `offsetSpec a ≤ t < offsetSpec (a+1)`; unset actions are in no such range -/
theorem offsets_spec_ranges (keys : List Id)
    (hs : keys.Pairwise (fun x y => idLe x y = true)) (a t : Nat) (k : Id)
    (hk : keys[t]? = some k) :
    k = some a ↔ (offsetSpec keys a ≤ t ∧ t < offsetSpec keys (a + 1)) :=
  key_iff_range keys hs a t k hk

/-- closed form of `count_tracks_per_action` + `backfill_action_count` AS WRITTEN (the `i = 1..`
    loop that records every change of action, the fix-up of thread 0, `offsets.back() = size`,
    the right-to-left fill), for every key-sorted thread array of any size and any number of
    actions: entry `a` is the first thread of the first present action ≥ a, and the array size
    when no action ≥ a is present.  Hypothesis `hA` = the action ids index the offsets array. -/
theorem count_tracks_per_action_closed_form (keys : List Id)
    (hs : keys.Pairwise (fun x y => idLe x y = true)) (A : Nat)
    (hA : ∀ b, some b ∈ keys → b < A) (a : Nat) (ha : a ≤ A) :
    (countTracksPerAction keys A).getD a none = some (closedOffset keys a) :=
  count_closed_form keys hs A hA a ha

/-- ★ `[off[a], off[a+1])` as the code computes it (get_action_range), for every slot array
    sorted by action key: it contains EXACTLY the threads whose slot has action `a`, and in
    addition — only when `a` is the largest action present — the trailing threads whose action is
    unset (their offsets are back-filled with `size`, not with the number of set threads).
    Threads of any other valid action are never in the range; a range of an absent action is
    empty. -/
theorem action_ranges_exact (keys : List Id)
    (hs : keys.Pairwise (fun x y => idLe x y = true)) (A : Nat)
    (hA : ∀ b, some b ∈ keys → b < A) (a t : Nat) (k : Id) (ha : a < A)
    (hk : keys[t]? = some k) :
    ((actionRange (countTracksPerAction keys A) a).1 ≤ t ∧
      t < (actionRange (countTracksPerAction keys A) a).2) ↔
    (k = some a ∨
      (k = none ∧ presentGe keys a = true ∧ presentGe keys (a + 1) = false)) := by
  unfold actionRange
  rw [count_closed_form keys hs A hA a (by omega), count_closed_form keys hs A hA (a + 1) (by omega)]
  simp only [Option.getD_some]
  have htn : t < keys.length := (List.getElem?_eq_some_iff.mp hk).1
  have hmem : k ∈ keys := List.mem_of_getElem? hk
  have hge : ∀ c b, some b ∈ keys → c ≤ b → presentGe keys c = true := by
    intro c b hb hcb
    unfold presentGe
    exact List.any_eq_true.mpr ⟨some b, hb, by simpa using hcb⟩
  have hle : ∀ c b, some b ∈ keys → presentGe keys c = false → b < c := by
    intro c b hb hf
    by_cases h : c ≤ b
    · rw [hge c b hb h] at hf; cases hf
    · omega
  have hlow := lt_offsetSpec_iff keys hs a t k hk
  unfold closedOffset
  cases g1 : presentGe keys (a + 1) with
  | true =>
    have g0 : presentGe keys a = true := by
      unfold presentGe at g1 ⊢
      rw [List.any_eq_true] at g1 ⊢
      obtain ⟨x, hx, he⟩ := g1
      refine ⟨x, hx, ?_⟩
      cases x with
      | none => simp at he
      | some b => simp only [decide_eq_true_eq] at he ⊢; omega
    simp only [g0, if_true]
    rw [← key_iff_range keys hs a t k hk]
    constructor
    · intro h; exact Or.inl h
    · rintro (h | ⟨_, _, h⟩)
      · exact h
      · cases h
  | false =>
    cases g0 : presentGe keys a with
    | true =>
      simp only [if_true, Bool.false_eq_true, if_false]
      constructor
      · rintro ⟨h1, _⟩
        have hnl : ¬ (keyLt a k = true) := fun h => by have := hlow.mpr h; omega
        cases k with
        | none => exact Or.inr ⟨rfl, by simp⟩
        | some b =>
          left
          have h2 := hle (a + 1) b hmem g1
          simp [keyLt] at hnl
          have : b = a := by omega
          rw [this]
      · rintro (h | ⟨h, _, _⟩)
        · subst h
          refine ⟨?_, htn⟩
          have : ¬ (t < offsetSpec keys a) := fun h => by
            have := hlow.mp h; simp [keyLt] at this
          omega
        · subst h
          refine ⟨?_, htn⟩
          have : ¬ (t < offsetSpec keys a) := fun h => by
            have := hlow.mp h; simp [keyLt] at this
          omega
    | false =>
      simp only [Bool.false_eq_true, if_false]
      constructor
      · rintro ⟨h1, _⟩; omega
      · rintro (h | ⟨_, h, _⟩)
        · subst h
          rw [hge a a hmem (Nat.le_refl _)] at g0; cases g0
        · cases h

/-- ★ (needed by C05's frame argument) `sort_tracks` only permutes the indirection array, for
    every order that is modelled: partition by status (libstdc++ `std::partition`), sort by
    particle / along-step / step-limit action (`std::sort` with `IdLess`); `reindex_shuffle`
    is `std::shuffle`, a permutation by definition.  Hence a valid indirection (a permutation of
    the slots) stays one. -/
theorem sortTracks_perm (slots : List Nat) (pred : Nat → Bool) (key : Nat → Id) (n : Nat) :
    (partitionStd pred slots).Perm slots ∧ (sortByKey key slots).Perm slots ∧
    (slots.Perm (List.range n) →
      (partitionStd pred slots).Perm (List.range n) ∧ (sortByKey key slots).Perm (List.range n)) :=
  ⟨partitionStd_perm pred slots, sortByKey_perm key slots,
   fun h => ⟨(partitionStd_perm pred slots).trans h, (sortByKey_perm key slots).trans h⟩⟩

example : partitionStd (fun s => [0, 2, 0, 1, 4, 0].getD s 0 != 0) [0, 1, 2, 3, 4, 5]
    = [4, 1, 3, 2, 0, 5] := by decide
example : sortByKey (fun s => [some 3, none, some 1, some 3, some 0, some 1].getD s none)
    [0, 1, 2, 3, 4, 5] = [4, 2, 5, 0, 3, 1] := by decide

/-- non-vacuity: the as-written offsets on a concrete sorted array — the last present action's
    range [5, 8) runs to the end of the array, over the two unset threads; `closedOffset` agrees -/
example : countTracksPerAction [some 0, some 0, some 2, some 2, some 2, some 4, none, none] 5 =
    [some 0, some 2, some 2, some 5, some 5, some 8] := by decide
example : (List.range 6).map (offsetSpec [some 0, some 0, some 2, some 2, some 2, some 4, none, none])
    = [0, 2, 2, 5, 5, 6] := by decide
example : (List.range 6).map (closedOffset [some 0, some 0, some 2, some 2, some 2, some 4, none, none])
    = [0, 2, 2, 5, 5, 8] := by decide

/-! ### an event's result is a function of (primaries, seed, event id, slot count) -/

/-- A stream state at an event boundary: per slot the generator, the visible track data
    (`none` = inactive) and whatever is left over from earlier occupants (`hidden`: the fields
    of `writtenBeforeRead`, stale indirection order, …). -/
structure Stream (ν η : Type) where
  rng : List Xorwow.State
  vis : List (Option ν)
  hidden : List η
  pending : List ν

/-- `Stepper::reseed` + inserting the primaries on a state whose slots are all inactive -/
def beginEvent {ν η : Type} (seed event : Nat) (prims : List ν) (s : Stream ν η) : Stream ν η :=
  { s with rng := (List.range s.rng.length).map
                    (fun i => Xorwow.init seed (Xorwow.reseedIndex event s.rng.length i) 0)
           pending := prims }

/-- what the transport can see -/
def visible {ν η : Type} (s : Stream ν η) : List Xorwow.State × List (Option ν) × List ν :=
  (s.rng, s.vis, s.pending)

/-- ★ Let `step` be any stepping function that is oblivious to the hidden part (this is what
    `init_overwrites_every_field` + slot-locality say of the real loop; tested by the replays).
    Then after reseeding, transporting the same primaries on two states with the same number of
    slots, all inactive (after a completed event, or an aborted one + reset), gives the same
    visible state after any number of steps, whatever the two states went through before. -/
theorem event_result_is_function_of {ν η : Type} (step : Stream ν η → Stream ν η)
    (hstep : ∀ s₁ s₂, visible s₁ = visible s₂ → visible (step s₁) = visible (step s₂))
    (seed event : Nat) (prims : List ν) (s₁ s₂ : Stream ν η)
    (hslots : s₁.rng.length = s₂.rng.length)
    (hinactive : s₁.vis = s₂.vis)   -- both: every slot inactive, same slot count
    (n : Nat) :
    visible (step^[n] (beginEvent seed event prims s₁)) =
      visible (step^[n] (beginEvent seed event prims s₂)) := by
  induction n with
  | zero => simp [visible, beginEvent, hslots, hinactive]
  | succ n ih =>
    rw [Function.iterate_succ_apply', Function.iterate_succ_apply']
    exact hstep _ _ ih

example : visible (beginEvent (ν := Nat) (η := Nat) 1 2 [7] ⟨[default, default], [none, none], [5, 6], []⟩)
    = visible (beginEvent (ν := Nat) (η := Nat) 1 2 [7]
        ⟨[Xorwow.seedState 9, Xorwow.seedState 3], [none, none], [0, 0], [1, 2, 3]⟩) := by
  simp [visible, beginEvent]

end CelerVerif.Reindex
