/-
C04 — Every discrete interaction conserves energy and yields valid final states.
Property theorems only: ℝ reading of the `Num`-generic, script-driven model in Model/Interact.lean,
which is run bit-exactly at `Float` against the real interactors by harness/interact.cc.
Helper lemmas: Lemmas/InteractVec.lean, InteractKN.lean, InteractGG.lean, InteractIoni.lean,
InteractRelax.lean, InteractMore.lean.

Conventions.  `… = .done i sz rest` : the interactor returned interaction `i`, the allocator size
is `sz`, `rest` is the unread script.  `canonical script` : every scripted uniform is in [0, 1).
`secondaryEnergy m secs` : Σ kinetic energies + 2 m c² per positron.  `rotOK d` : see
`rotate_dot_partial` (hypothesis of the momentum theorems only).  
A worst-case bound on the number of draws of a rejection loop does not exist (an adversarial
stream can reject forever; the model returns `exhausted`); what is proved is the per-iteration
acceptance bound for Klein–Nishina.
-/
import CelerVerif.Lemmas.InteractMore

namespace CelerVerif.Interact
open CelerVerif

/-! ## vector helpers -/

/-- `ExitingDirectionSampler` returns a unit vector for a unit incident direction and a cosine
    in [−1, 1] (contract used of sin/cos: sin² + cos² = 1) -/
theorem exiting_direction_unit (c : ℝ) (d : Vec3 ℝ) (u : ℝ) (h1 : -1 ≤ c) (h2 : c ≤ 1)
    (hd : unitV d) : unitV (exitingDirection c d u) := exitingDirection_unit c d u h1 h2 hd

/-- FULL STATEMENT (not provable): for every unit `d`, `exitingDirection c d u · d = c`.
    Proved with the extra hypothesis `rotOK d` (Lemmas/InteractVec.lean; NOT a documented
    precondition of `rotate`): the axis is ≥ 0.005 away from ±z in sin θ, or has `d.y ≥ 0`.
    Outside it `rotate` reconstructs `sin φ = +sqrt(1 − cos²φ)` and loses the sign of `d.y`;
    the real code fails there (tools/checks/c04.py, key `rotate-near-z-negative-y`, known
    finding; commit 1e0a0e8 only repaired the NaN case of that branch). -/
theorem rotate_dot_partial (c : ℝ) (d : Vec3 ℝ) (u : ℝ) (h1 : -1 ≤ c) (h2 : c ≤ 1)
    (hd : unitV d) (hok : rotOK d) : dotR (exitingDirection c d u) d = c :=
  exitingDirection_dot c d u h1 h2 hd hok

/-! ## allocation failure (★): explicit failure, allocator size unchanged, nothing emitted -/

theorem kn_alloc_failure_is_failed (cap size : ℕ) (E im : ℝ) (d : Vec3 ℝ) (script : Script ℝ)
    (h : cap < size + 1) : kleinNishina cap size E im d script = .failed size := by
  unfold kleinNishina; rw [alloc_none h]

theorem gg_alloc_failure_is_failed (cap size : ℕ) (E m : ℝ) (d : Vec3 ℝ) (script : Script ℝ)
    (h : cap < size + 2) : ePlusGG cap size E m d script = .failed size := by
  unfold ePlusGG; rw [alloc_none h]

theorem mb_alloc_failure_is_failed (cap size : ℕ) (isE : Bool) (E m cut : ℝ) (d : Vec3 ℝ)
    (script : Script ℝ) (h : cap < size + 1) :
    mollerBhabha cap size isE E m cut d script = .failed size := by
  unfold mollerBhabha; rw [alloc_none h]

theorem muhad_alloc_failure_is_failed (cap size : ℕ) (E M m cut : ℝ) (d : Vec3 ℝ)
    (script : Script ℝ) (h : cap < size + 1) (hc : cut < maxSecondaryEnergy E M m) :
    muHadBetheBloch cap size E M m cut d script = .failed size := by
  unfold muHadBetheBloch
  simp only []
  rw [if_neg (by rw [NumR.ge_real, not_le]; exact hc), alloc_none h]

theorem bhlow_alloc_failure_is_failed (cap size : ℕ) (E m : ℝ) (d : Vec3 ℝ) (script : Script ℝ)
    (h : cap < size + 2) : betheHeitlerLow cap size E m d script = .failed size := by
  unfold betheHeitlerLow; rw [alloc_none h]

/-- a successful call advances the allocator by exactly the number of requested slots -/
theorem kn_alloc_success (cap size : ℕ) (E im : ℝ) (d : Vec3 ℝ) (script : Script ℝ)
    (i : Interaction ℝ) (sz : ℕ) (rest : Script ℝ)
    (h : kleinNishina cap size E im d script = .done i sz rest) :
    size + 1 ≤ cap ∧ sz = size + 1 ∧ i.secondaries.length = 1 := by
  obtain ⟨h1, h2, eps, omc, u, _, hi⟩ := kn_done h
  refine ⟨h1, h2, ?_⟩
  rw [hi]; unfold knFinal; dsimp only; split_ifs <;> rfl

/-! ## Klein–Nishina -/

/-- ★ incident = outgoing + secondary + local deposit, for every script and every input -/
theorem kn_energy_conserved (cap size : ℕ) (E im m : ℝ) (d : Vec3 ℝ) (script : Script ℝ)
    (i : Interaction ℝ) (sz : ℕ) (rest : Script ℝ)
    (h : kleinNishina cap size E im d script = .done i sz rest) :
    i.energy + secondaryEnergy m i.secondaries + i.deposit = E := by
  obtain ⟨_, _, eps, omc, u, _, hi⟩ := kn_done h
  rw [hi]; exact knFinal_energy m E d eps omc u

/-- sampled ε ∈ [ε₀, 1] ⇒ outgoing photon keeps 0 < E' ≤ E; the electron is either emitted at or
    above the model's own 1e-4 MeV threshold, or cleared and its energy deposited locally -/
theorem kn_ranges (cap size : ℕ) (E im : ℝ) (d : Vec3 ℝ) (script : Script ℝ)
    (i : Interaction ℝ) (sz : ℕ) (rest : Script ℝ) (hE : 0 < E) (him : 0 < im)
    (hc : canonical script) (h : kleinNishina cap size E im d script = .done i sz rest) :
    i.action = .scattered ∧ 0 < i.energy ∧ i.energy ≤ E ∧ 0 ≤ i.deposit ∧
    ∃ s, i.secondaries = [s] ∧ 0 ≤ s.energy ∧
      ((s.pid = some pidElectron ∧ knSecondaryCutoff ≤ s.energy ∧ i.deposit = 0) ∨
       (s.pid = none ∧ s.energy = 0 ∧ i.deposit < knSecondaryCutoff)) := by
  obtain ⟨_, _, eps, omc, u, hl, hi⟩ := kn_done h
  obtain ⟨u1, u2, u3, _, hu2, _, ht, _⟩ := knLoop_spec _ _ _ _ _ _ hl
  have hr := knTrial_range E im u1 u2 u3 hE him (hc u2 hu2).1 (le_of_lt (hc u2 hu2).2)
  try dsimp only at hr
  rw [ht] at hr
  obtain ⟨he0, he1, _⟩ := hr
  try dsimp only at he0 he1
  have hk : 0 < E * im := mul_pos hE him
  rw [knSetup_eps0] at he0
  have hep : 0 < eps := lt_of_lt_of_le (eps0_range _ hk).1 he0
  rw [hi]
  unfold knFinal
  inum
  have hout : eps * E ≤ E := by nlinarith
  split_ifs with hcut
  · refine ⟨rfl, by positivity, hout, by show 0 ≤ E - eps * E; linarith, Secondary.empty, rfl, ?_, ?_⟩
    · show (0 : ℝ) ≤ (Secondary.empty : Secondary ℝ).energy
      unfold Secondary.empty; inum; exact le_refl _
    · right
      refine ⟨rfl, ?_, hcut⟩
      unfold Secondary.empty; inum
  · refine ⟨rfl, by positivity, hout, by show (0 : ℝ) ≤ 0; exact le_refl _, _, rfl,
      by show 0 ≤ E - eps * E; linarith, ?_⟩
    left
    exact ⟨rfl, not_lt.mp hcut, rfl⟩

theorem dotR_le_one (a b : Vec3 ℝ) (ha : unitV a) (hb : unitV b) : dotR a b ≤ 1 := by
  unfold unitV nsq at ha hb
  unfold dotR
  nlinarith [sq_nonneg (a.x - b.x), sq_nonneg (a.y - b.y), sq_nonneg (a.z - b.z)]

/-- outgoing photon and emitted electron directions are unit vectors -/
theorem kn_directions_unit (cap size : ℕ) (E im : ℝ) (d : Vec3 ℝ) (script : Script ℝ)
    (i : Interaction ℝ) (sz : ℕ) (rest : Script ℝ) (hE : 0 < E) (him : 0 < im)
    (hc : canonical script) (hd : unitV d)
    (h : kleinNishina cap size E im d script = .done i sz rest) :
    unitV i.dir ∧ ∀ s ∈ i.secondaries, s.pid = some pidElectron → unitV s.dir := by
  obtain ⟨_, _, eps, omc, u, hl, hi⟩ := kn_done h
  obtain ⟨u1, u2, u3, _, hu2, _, ht, _⟩ := knLoop_spec _ _ _ _ _ _ hl
  have hr := knTrial_range E im u1 u2 u3 hE him (hc u2 hu2).1 (le_of_lt (hc u2 hu2).2)
  try dsimp only at hr
  rw [ht] at hr
  obtain ⟨he0, he1, homc⟩ := hr
  try dsimp only at he0 he1 homc
  have hk : 0 < E * im := mul_pos hE him
  rw [knSetup_eps0] at he0
  have hep : 0 < eps := lt_of_lt_of_le (eps0_range _ hk).1 he0
  obtain ⟨ho0, ho2⟩ := compton_omc_range (E * im) eps hk he0 he1
  rw [← homc] at ho0 ho2
  have hdir : unitV (exitingDirection (1 - omc) d u) :=
    exitingDirection_unit _ d u (by linarith) (by linarith) hd
  rw [hi]
  unfold knFinal
  inum
  split_ifs with hcut
  · refine ⟨hdir, ?_⟩
    intro s hs hp
    simp only [List.mem_singleton] at hs
    rw [hs] at hp
    simp [Secondary.empty] at hp
  · refine ⟨hdir, ?_⟩
    intro s hs _
    simp only [List.mem_singleton] at hs
    rw [hs]
    apply calcExiting_unit
    rw [exitingRaw_nsq _ _ _ _ hd hdir]
    have hT : 0 < E - eps * E := lt_of_lt_of_le knSecondaryCutoff_pos (not_lt.mp hcut)
    have hdot := dotR_le_one _ _ hdir hd
    have hpos : 0 ≤ E * (eps * E) := by positivity
    nlinarith [mul_le_mul_of_nonneg_left hdot hpos]

/-- ★ momentum conservation of the Compton final state when the electron is emitted:
    `E d = E' d' + p_e d_e` with `p_e = sqrt(T (T + 2 m))`, from `1 − cos θ = (1 − ε)/(ε κ)`.
    (`im = 1/m`; `rotOK d` — see `rotate_dot_partial`.) -/
theorem kn_momentum_conserved (cap size : ℕ) (E m : ℝ) (d : Vec3 ℝ) (script : Script ℝ)
    (i : Interaction ℝ) (sz : ℕ) (rest : Script ℝ) (hE : 0 < E) (hm : 0 < m)
    (hc : canonical script) (hd : unitV d) (hok : rotOK d)
    (h : kleinNishina cap size E (1 / m) d script = .done i sz rest) :
    ∀ s ∈ i.secondaries, s.pid = some pidElectron →
      let pe := Real.sqrt (s.energy * (s.energy + 2 * m))
      E * d.x = i.energy * i.dir.x + pe * s.dir.x ∧ E * d.y = i.energy * i.dir.y + pe * s.dir.y
        ∧ E * d.z = i.energy * i.dir.z + pe * s.dir.z := by
  have him : 0 < 1 / m := by positivity
  obtain ⟨_, _, eps, omc, u, hl, hi⟩ := kn_done h
  obtain ⟨u1, u2, u3, _, hu2, _, ht, _⟩ := knLoop_spec _ _ _ _ _ _ hl
  have hr := knTrial_range E (1 / m) u1 u2 u3 hE him (hc u2 hu2).1 (le_of_lt (hc u2 hu2).2)
  try dsimp only at hr
  rw [ht] at hr
  obtain ⟨he0, he1, homc⟩ := hr
  try dsimp only at he0 he1 homc
  have hk : 0 < E * (1 / m) := mul_pos hE him
  rw [knSetup_eps0] at he0
  have hep : 0 < eps := lt_of_lt_of_le (eps0_range _ hk).1 he0
  obtain ⟨ho0, ho2⟩ := compton_omc_range (E * (1 / m)) eps hk he0 he1
  rw [← homc] at ho0 ho2
  have hdir : unitV (exitingDirection (1 - omc) d u) :=
    exitingDirection_unit _ d u (by linarith) (by linarith) hd
  have hdot : dotR (exitingDirection (1 - omc) d u) d = 1 - omc :=
    exitingDirection_dot _ d u (by linarith) (by linarith) hd hok
  rw [hi]
  unfold knFinal
  inum
  split_ifs with hcut
  · intro s hs hp
    simp only [List.mem_singleton] at hs
    rw [hs] at hp
    simp [Secondary.empty] at hp
  · intro s hs _
    simp only [List.mem_singleton] at hs
    rw [hs]
    have hT : 0 < E - eps * E := lt_of_lt_of_le knSecondaryCutoff_pos (not_lt.mp hcut)
    have hn : nsq (exitingRaw E d (eps * E) (exitingDirection (1 - omc) d u))
        = (E - eps * E) * ((E - eps * E) + 2 * m) := by
      rw [exitingRaw_nsq _ _ _ _ hd hdir, hdot, homc]
      exact compton_recoil_sq E m eps hE hm hep
    have hpos : 0 < nsq (exitingRaw E d (eps * E) (exitingDirection (1 - omc) d u)) := by
      rw [hn]; positivity
    have hb := calcExiting_balance E (eps * E) d (exitingDirection (1 - omc) d u) hpos
    try dsimp only at hb
    rw [hn] at hb
    exact hb

/-- per-iteration acceptance: the rejection probability never exceeds ½, so any trial whose
    third uniform is ≥ ½ is accepted; with independent uniforms the number of iterations is
    dominated by a geometric(½) variable (expected draws ≤ 3·2 + 1).  No worst-case bound
    exists for adversarial streams. -/
theorem kn_accept_ge_half (E im u1 u2 u3 : ℝ) (hE : 0 < E) (him : 0 < im) (h0 : 0 ≤ u2)
    (hrej : (knTrial (knSetup E im) u1 u2 u3).2.2 = true) : u3 < 1 / 2 := by
  have hk : 0 < E * im := mul_pos hE him
  obtain ⟨he0, he1⟩ := eps0_range (E * im) hk
  have hs0 : (knSetup E im).eps0 = 1 / (1 + 2 * (E * im)) := knSetup_eps0 E im
  have hsq : (knSetup E im).eps0sq = (knSetup E im).eps0 * (knSetup E im).eps0 :=
    knSetup_eps0sq E im
  unfold knTrial bernoulli reciprocal uniformReal at hrej
  inum at hrej
  rw [hsq] at hrej
  rw [← hs0] at he0 he1
  generalize (knSetup E im).eps0 = e0 at *
  split_ifs at hrej with hb
  · exact lt_of_lt_of_le hrej (kn_reject_le_half _ _ (by positivity))
  · have hq : 0 ≤ (1 - e0 * e0) * u2 + e0 * e0 := by
      have : 0 ≤ (1 - e0 * e0) * u2 := mul_nonneg (by nlinarith) h0
      nlinarith
    have hss := Real.mul_self_sqrt hq
    have := kn_reject_le_half (Real.sqrt ((1 - e0 * e0) * u2 + e0 * e0))
      ((1 - Real.sqrt ((1 - e0 * e0) * u2 + e0 * e0))
        / (Real.sqrt ((1 - e0 * e0) * u2 + e0 * e0) * (knSetup E im).k)) (Real.sqrt_nonneg _)
    rw [hss] at this
    exact lt_of_lt_of_le hrej this

/-! ## e⁺ annihilation -/

/-- ★ the two photons carry the positron's kinetic energy plus 2 m c² (in flight and at rest) -/
theorem gg_energy_conserved (cap size : ℕ) (E m : ℝ) (d : Vec3 ℝ) (script : Script ℝ)
    (i : Interaction ℝ) (sz : ℕ) (rest : Script ℝ)
    (h : ePlusGG cap size E m d script = .done i sz rest) :
    i.action = .absorbed ∧ secondaryEnergy m i.secondaries + i.deposit = E + 2 * m := by
  obtain ⟨_, _, hcase⟩ := gg_done h
  rcases hcase with ⟨hE, u1, u2, _, hi⟩ | ⟨_, eps, u, _, hi⟩
  · rw [hi, hE]; exact ⟨rfl, ggAtRest_energy m d u1 u2⟩
  · rw [hi]; exact ⟨rfl, ggFinal_energy E m d eps u⟩

/-- in flight: two photons with positive energies and unit directions -/
theorem gg_ranges (cap size : ℕ) (E m : ℝ) (d : Vec3 ℝ) (script : Script ℝ)
    (i : Interaction ℝ) (sz : ℕ) (rest : Script ℝ) (hE : 0 < E) (hm : 0 < m)
    (hc : canonical script) (hd : unitV d)
    (h : ePlusGG cap size E m d script = .done i sz rest) :
    ∃ g0 g1, i.secondaries = [g0, g1] ∧ g0.pid = some pidGamma ∧ g1.pid = some pidGamma
      ∧ 0 < g0.energy ∧ 0 < g1.energy ∧ unitV g0.dir ∧ unitV g1.dir := by
  obtain ⟨_, _, hcase⟩ := gg_done h
  rcases hcase with ⟨hE0, _⟩ | ⟨_, eps, u, hl, hi⟩
  · exact absurd hE0 (ne_of_gt hE)
  · obtain ⟨u1, hu1, he, _⟩ := ggLoop_spec _ _ _ _ _ _ _ _ hl
    have ht : 0 < E / m := by positivity
    obtain ⟨hlo, hlh, hss⟩ := gg_interval (E / m) ht
    try dsimp only at hlo hlh hss
    obtain ⟨r1, r2⟩ := reciprocal_range _ _ u1 hlo hlh (hc u1 hu1).1 (le_of_lt (hc u1 hu1).2)
    rw [← he] at r1 r2
    have hep : 0 < eps := lt_of_lt_of_le hlo r1
    have hs1 : Real.sqrt (E / m / (E / m + 2)) < 1 := by
      rw [show (1 : ℝ) = Real.sqrt 1 from Real.sqrt_one.symm]
      apply Real.sqrt_lt_sqrt (by positivity)
      rw [div_lt_one (by positivity)]; linarith
    have he1 : eps < 1 := by linarith
    obtain ⟨c1, c2⟩ := gg_cost_range (E / m) eps _ ht hss r1 r2 hep
    try dsimp only at c1 c2
    rw [hi]
    unfold ggFinal
    inum
    refine ⟨_, _, rfl, rfl, rfl, ?_, ?_, ?_, ?_⟩
    · show 0 < eps * (E + 2 * m); positivity
    · show 0 < E + 2 * m - eps * (E + 2 * m); nlinarith
    · exact exitingDirection_unit _ d u c1 c2 hd
    · show unitV (calcExitingDirection (Real.sqrt (E * (E + 2 * m))) d E d)
      rw [gg_second_dir E m d hE hm hd]; exact hd

/-- what the code does: the second photon leaves along the incident direction, whatever the
    first photon's direction is -/
theorem gg_second_gamma_along_incident (E m : ℝ) (d : Vec3 ℝ) (eps u : ℝ) (hE : 0 < E)
    (hm : 0 < m) (hd : unitV d) :
    ∃ g0 g1, (ggFinal E m d eps u).secondaries = [g0, g1] ∧ g1.dir = d := by
  unfold ggFinal
  inum
  exact ⟨_, _, rfl, gg_second_dir E m d hE hm hd⟩

/-- ★ NEGATION of momentum conservation for EPlusGGInteractor as written (all products are
    returned, so the property demands `p d = E₁ d₁ + E₂ d₂`): whenever the first photon is not
    emitted exactly backwards (cos θ > −1, i.e. ε above the lower end of its interval) the
    momentum balance fails.  Replayed on the real code by tools/checks/c04.py (key
    `eplusgg-momentum`). -/
theorem gg_momentum_not_conserved (E m : ℝ) (d : Vec3 ℝ) (eps u : ℝ) (hE : 0 < E) (hm : 0 < m)
    (hd : unitV d) (hok : rotOK d) (hep : 0 < eps)
    (hc1 : -1 < (eps * (E / m + 2) - 1) / (eps * Real.sqrt (E / m * (E / m + 2))))
    (hc2 : (eps * (E / m + 2) - 1) / (eps * Real.sqrt (E / m * (E / m + 2))) ≤ 1) :
    ∀ g0 g1, (ggFinal E m d eps u).secondaries = [g0, g1] →
      ¬ (Real.sqrt (E * (E + 2 * m)) * d.x = g0.energy * g0.dir.x + g1.energy * g1.dir.x
        ∧ Real.sqrt (E * (E + 2 * m)) * d.y = g0.energy * g0.dir.y + g1.energy * g1.dir.y
        ∧ Real.sqrt (E * (E + 2 * m)) * d.z = g0.energy * g0.dir.z + g1.energy * g1.dir.z) := by
  intro g0 g1 hs
  unfold ggFinal at hs
  inum at hs
  simp only [List.cons.injEq, and_true] at hs
  obtain ⟨h0, h1⟩ := hs
  rw [gg_second_dir E m d hE hm hd] at h1
  set c := (eps * (E / m + 2) - 1) / (eps * Real.sqrt (E / m * (E / m + 2))) with hcdef
  have hdir : unitV (exitingDirection c d u) := exitingDirection_unit c d u (le_of_lt hc1) hc2 hd
  have hdot : dotR (exitingDirection c d u) d = c :=
    exitingDirection_dot c d u (le_of_lt hc1) hc2 hd hok
  rw [← h0, ← h1]
  intro ⟨hx, hy, hz⟩
  try dsimp only at hx hy hz
  set p := Real.sqrt (E * (E + 2 * m)) with hp
  set W := E + 2 * m with hW
  set f := exitingDirection c d u with hf
  have hpp : p * p = E * W := Real.mul_self_sqrt (by positivity)
  have hp0 : 0 ≤ p := Real.sqrt_nonneg _
  have hW0 : 0 < W := by positivity
  unfold unitV nsq at hd hdir
  unfold dotR at hdot
  -- dot with d, and squared norm of (p − E₂) d = E₁ f
  have hA : p = eps * W * c + (W - eps * W) := by
    have : p * (d.x * d.x + d.y * d.y + d.z * d.z)
        = eps * W * (f.x * d.x + f.y * d.y + f.z * d.z)
          + (W - eps * W) * (d.x * d.x + d.y * d.y + d.z * d.z) := by
      linear_combination d.x * hx + d.y * hy + d.z * hz
    rw [hd, hdot] at this; linarith
  have hB : (p - (W - eps * W)) * (p - (W - eps * W)) = (eps * W) * (eps * W) := by
    have : (p - (W - eps * W)) * (p - (W - eps * W)) * (d.x * d.x + d.y * d.y + d.z * d.z)
        = (eps * W) * (eps * W) * (f.x * f.x + f.y * f.y + f.z * f.z) := by
      linear_combination ((p - (W - eps * W)) * d.x + eps * W * f.x) * hx
        + ((p - (W - eps * W)) * d.y + eps * W * f.y) * hy
        + ((p - (W - eps * W)) * d.z + eps * W * f.z) * hz
    rw [hd, hdir] at this; linarith
  have hE1 : 0 < eps * W := by positivity
  have hcc : c * c = 1 := by
    have : (eps * W * c) * (eps * W * c) = (eps * W) * (eps * W) := by
      have : p - (W - eps * W) = eps * W * c := by linarith
      rw [this] at hB; exact hB
    have h2 : (eps * W) * (eps * W) * (c * c - 1) = 0 := by nlinarith
    rcases mul_eq_zero.mp h2 with h3 | h3
    · exact absurd h3 (ne_of_gt (by positivity))
    · linarith
  have hc_one : c = 1 := by
    have : (c - 1) * (c + 1) = 0 := by nlinarith
    rcases mul_eq_zero.mp this with h3 | h3
    · linarith
    · linarith
  -- then p = W, but p² = E W < W²
  have : p = W := by rw [hc_one] at hA; linarith
  rw [this] at hpp
  have : W = E := by
    have := mul_right_cancel₀ (ne_of_gt hW0) hpp
    exact this
  linarith

/-! ## ionisation: IoniFinalStateHelper, Møller–Bhabha, muon Bethe–Bloch -/

/-- `cos θ ∈ (0, 1]` in `IoniFinalStateHelper` for `0 < T_e ≤ T_max` (the kinematic limit) -/
theorem ioni_costheta_le_one (E M Te m : ℝ) (hE : 0 < E) (hM : 0 < M) (hm : 0 < m) (hT : 0 < Te)
    (hmax : Te ≤ maxSecondaryEnergy E M m) :
    0 < Te * (E + M + m) / (Real.sqrt (Te * (Te + 2 * m)) * Real.sqrt (E * E + 2 * M * E))
    ∧ Te * (E + M + m) / (Real.sqrt (Te * (Te + 2 * m)) * Real.sqrt (E * E + 2 * M * E)) ≤ 1 :=
  ioni_costheta_range E M Te m hE hM hm hT hmax

/-- ★ energy conservation of `IoniFinalStateHelper` (any inputs) -/
theorem ioni_energy_conserved (m' E : ℝ) (d : Vec3 ℝ) (p M Te m u : ℝ) :
    (ioniFinal E d p M Te m u).energy + secondaryEnergy m' (ioniFinal E d p M Te m u).secondaries
      + (ioniFinal E d p M Te m u).deposit = E := ioniFinal_energy m' E d p M Te m u

/-- ★ momentum conservation of `IoniFinalStateHelper` (recoil identity): for `0 < T_e ≤ T_max`,
    `T_e < T`: `p d = p_e d_e + p' d'` with `p' = sqrt((T − T_e)(T − T_e + 2M))` -/
theorem ioni_momentum_conserved (E M Te m u : ℝ) (d : Vec3 ℝ) (hE : 0 < E) (hM : 0 < M)
    (hm : 0 < m) (hT : 0 < Te) (hmax : Te ≤ maxSecondaryEnergy E M m) (hlt : Te < E)
    (hd : unitV d) (hok : rotOK d) :
    let i := ioniFinal E d (momentum E M) M Te m u
    let p := Real.sqrt (E * E + 2 * M * E)
    let pe := Real.sqrt (Te * (Te + 2 * m))
    let p' := Real.sqrt (i.energy * (i.energy + 2 * M))
    ∃ s, i.secondaries = [s] ∧ unitV s.dir ∧ unitV i.dir ∧
      p * d.x = pe * s.dir.x + p' * i.dir.x ∧ p * d.y = pe * s.dir.y + p' * i.dir.y
      ∧ p * d.z = pe * s.dir.z + p' * i.dir.z := by
  intro i p pe p'
  obtain ⟨c0, c1⟩ := ioni_costheta_range E M Te m hE hM hm hT hmax
  try dsimp only at c0 c1
  have hid := ioni_recoil_sq E M Te m hE hM hm hT
  try dsimp only at hid
  have hmom : momentum E M = Real.sqrt (E * E + 2 * M * E) := by
    unfold momentum momentumSq; inum
  show ∃ s, (ioniFinal E d (momentum E M) M Te m u).secondaries = [s] ∧ unitV s.dir
    ∧ unitV (ioniFinal E d (momentum E M) M Te m u).dir ∧ _
  unfold ioniFinal
  rw [hmom]
  inum
  set c := Te * (E + M + m) / (Real.sqrt (Te * (Te + 2 * m)) * Real.sqrt (E * E + 2 * M * E))
  have hdir : unitV (exitingDirection c d u) :=
    exitingDirection_unit c d u (by linarith) c1 hd
  have hdot : dotR (exitingDirection c d u) d = c :=
    exitingDirection_dot c d u (by linarith) c1 hd hok
  have hn : nsq (exitingRaw (Real.sqrt (E * E + 2 * M * E)) d (Real.sqrt (Te * (Te + 2 * m)))
      (exitingDirection c d u)) = (E - Te) * ((E - Te) + 2 * M) := by
    rw [exitingRaw_nsq _ _ _ _ hd hdir, hdot]
    exact hid
  have hpos : 0 < nsq (exitingRaw (Real.sqrt (E * E + 2 * M * E)) d
      (Real.sqrt (Te * (Te + 2 * m))) (exitingDirection c d u)) := by
    rw [hn]; have : 0 < E - Te := by linarith
    positivity
  have hb := calcExiting_balance _ _ d (exitingDirection c d u) hpos
  try dsimp only at hb
  rw [hn] at hb
  refine ⟨_, rfl, hdir, calcExiting_unit _ _ _ _ hpos, ?_⟩
  exact hb

/-- ★ Møller–Bhabha conserves energy for every script -/
theorem mb_energy_conserved (cap size : ℕ) (isE : Bool) (E m cut m' : ℝ) (d : Vec3 ℝ)
    (script : Script ℝ) (i : Interaction ℝ) (sz : ℕ) (rest : Script ℝ)
    (h : mollerBhabha cap size isE E m cut d script = .done i sz rest) :
    i.energy + secondaryEnergy m' i.secondaries + i.deposit = E := by
  obtain ⟨_, _, eps, u, u1, _, _, hi⟩ := mb_done h
  rw [hi]; exact ioniFinal_energy m' E d _ m _ m u

/-- the delta ray is above the production cut and below the model's kinematic maximum (T/2 for
    e⁻e⁻, T for e⁺e⁻); the primary keeps a non-negative energy.  Preconditions of the
    interactor (`CELER_EXPECT`): `T > 2·cut` (Møller) / `T > cut` (Bhabha). -/
theorem mb_ranges (cap size : ℕ) (isE : Bool) (E m cut : ℝ) (d : Vec3 ℝ)
    (script : Script ℝ) (i : Interaction ℝ) (sz : ℕ) (rest : Script ℝ) (hcut : 0 < cut)
    (hpre : (if isE then 2 * cut else cut) < E) (hc : canonical script)
    (h : mollerBhabha cap size isE E m cut d script = .done i sz rest) :
    ∃ s, i.secondaries = [s] ∧ s.pid = some pidElectron ∧ cut ≤ s.energy
      ∧ s.energy ≤ (if isE then E / 2 else E) ∧ 0 ≤ i.energy ∧ i.deposit = 0 := by
  obtain ⟨_, _, eps, u, u1, hu1, he, hi⟩ := mb_done h
  have hE : 0 < E := by
    cases isE <;> simp at hpre <;> linarith
  have hlo : 0 < cut / E := by positivity
  have hh : cut / E ≤ (if isE then (1 / 2 : ℝ) else 1) := by
    rw [div_le_iff₀ hE]
    cases isE <;> simp at hpre ⊢ <;> linarith
  obtain ⟨r1, r2⟩ := inv_uniform_range (cut / E) _ u1 hlo hh (hc u1 hu1).1 (le_of_lt (hc u1 hu1).2)
  rw [← he] at r1 r2
  rw [div_le_iff₀ hE] at r1
  rw [hi]
  unfold ioniFinal
  inum
  refine ⟨_, rfl, rfl, by show cut ≤ E * eps; linarith, ?_, ?_, trivial⟩
  · show E * eps ≤ (if isE then E / 2 else E)
    cases isE <;> simp at r2 ⊢ <;> nlinarith
  · show 0 ≤ E - E * eps
    have : eps ≤ 1 := by cases isE <;> simp at r2 <;> linarith
    nlinarith

/-- ★ muon ionisation (Bethe–Bloch distribution) conserves energy for every script -/
theorem muhad_energy_conserved (cap size : ℕ) (E M m cut m' : ℝ) (d : Vec3 ℝ)
    (script : Script ℝ) (i : Interaction ℝ) (sz : ℕ) (rest : Script ℝ)
    (h : muHadBetheBloch cap size E M m cut d script = .done i sz rest) :
    i.action = .unchanged ∨ i.energy + secondaryEnergy m' i.secondaries + i.deposit = E := by
  rcases muhad_done h with ⟨_, ha, _, _⟩ | ⟨_, _, _, e, u, u1, _, _, hi⟩
  · exact Or.inl ha
  · right; rw [hi]; exact ioniFinal_energy m' E d _ M e m u

/-- the delta ray lies in [cut, T_max] and `T_max ≤ T`, so the muon keeps a non-negative energy -/
theorem muhad_ranges (cap size : ℕ) (E M m cut : ℝ) (d : Vec3 ℝ)
    (script : Script ℝ) (i : Interaction ℝ) (sz : ℕ) (rest : Script ℝ) (hcut : 0 < cut)
    (hE : 0 < E) (hM : 0 < M) (hm : 0 < m) (hc : canonical script)
    (h : muHadBetheBloch cap size E M m cut d script = .done i sz rest) :
    i.action = .unchanged ∨
    ∃ s, i.secondaries = [s] ∧ s.pid = some pidElectron ∧ cut ≤ s.energy
      ∧ s.energy ≤ maxSecondaryEnergy E M m ∧ 0 ≤ i.energy := by
  rcases muhad_done h with ⟨_, ha, _, _⟩ | ⟨hlt, _, _, e, u, u1, hu1, he, hi⟩
  · exact Or.inl ha
  · right
    obtain ⟨r1, r2⟩ := inverseSquare_range cut _ u1 hcut (le_of_lt hlt) (hc u1 hu1).1
      (le_of_lt (hc u1 hu1).2)
    rw [← he] at r1 r2
    have hmaxE : maxSecondaryEnergy E M m ≤ E := by
      rw [maxSecondaryEnergy_closed E M m hM hm (le_of_lt hE)]
      rw [div_le_iff₀ (by positivity)]
      nlinarith [sq_nonneg (M - m), mul_pos hE hm, mul_pos hE hM]
    rw [hi]
    unfold ioniFinal
    inum
    exact ⟨_, rfl, rfl, r1, r2, by show 0 ≤ E - e; linarith⟩

/-! ## bremsstrahlung final state (photon energy abstract: `cut ≤ E_γ ≤ T` is the contract of the
    table-driven Seltzer–Berger / relativistic samplers, which are not modelled) -/

/-- ★ Tsai–Urban angle + `BremFinalStateHelper` conserve energy for every script -/
theorem brem_energy_conserved (E m m' : ℝ) (d : Vec3 ℝ) (Eg : ℝ) (script : Script ℝ)
    (i : Interaction ℝ) (rest : Script ℝ) (h : bremTail E m d Eg script = some (i, rest)) :
    i.energy + secondaryEnergy m' i.secondaries + i.deposit = E := by
  unfold bremTail at h
  split at h
  · simp at h
  · rename_i cost rst _
    cases rst with
    | nil => simp at h
    | cons u tl =>
      simp only [Option.some.injEq, Prod.mk.injEq] at h
      rw [← h.1]; exact bremFinal_energy m' E d _ Eg cost u

theorem brem_ranges (E m : ℝ) (d : Vec3 ℝ) (Eg cut : ℝ) (script : Script ℝ)
    (i : Interaction ℝ) (rest : Script ℝ) (hE : 0 < E) (hm : 0 < m) (hg0 : cut ≤ Eg)
    (hg1 : Eg ≤ E) (hc : canonical script) (hd : unitV d)
    (h : bremTail E m d Eg script = some (i, rest)) :
    0 ≤ i.energy ∧ ∃ s, i.secondaries = [s] ∧ s.pid = some pidGamma ∧ cut ≤ s.energy
      ∧ unitV s.dir := by
  unfold bremTail at h
  split at h
  · simp at h
  · rename_i cost rst hl
    cases rst with
    | nil => simp at h
    | cons u tl =>
      simp only [Option.some.injEq, Prod.mk.injEq] at h
      have humax : 0 < tsaiUrbanUmax E m := by
        unfold tsaiUrbanUmax; inum; positivity
      obtain ⟨c1, c2, _⟩ := tsaiUrbanLoop_range _ humax _ _ _ _ hc hl
      rw [← h.1]
      unfold bremFinal
      inum
      refine ⟨by show 0 ≤ E - Eg; linarith, _, rfl, ?_, ?_, ?_⟩
      · rfl
      · exact hg0
      · exact exitingDirection_unit cost d u c1 c2 hd

/-! ## Bethe–Heitler -/

/-- ★ energy split: for every ε, `T₋ + T₊ + 2 m c² = E_γ` -/
theorem bh_split_energy_conserved (E m eps : ℝ) :
    (bhSplit E m eps).1 + (bhSplit E m eps).2 + 2 * m = E := bhSplit_sum E m eps

/-- both kinetic energies are non-negative for ε ∈ [ε₀, ½], ε₀ = m/E, E ≥ 2m -/
theorem bh_split_ranges (E m eps : ℝ) (hE : 0 < E) (h0 : m / E ≤ eps) (h1 : eps ≤ 1 / 2)
    (hm : 2 * m ≤ E) : 0 ≤ (bhSplit E m eps).1 ∧ 0 ≤ (bhSplit E m eps).2 :=
  bhSplit_nonneg E m eps hE h0 h1 hm

/-- ★ the pair final state (random swap, angles) conserves energy with 2 m c² for the positron -/
theorem bh_energy_conserved (E m eps : ℝ) (d : Vec3 ℝ) (script : Script ℝ) (i : Interaction ℝ)
    (rest : Script ℝ) (h : bhTail E m d eps script = some (i, rest)) :
    i.action = .absorbed ∧ secondaryEnergy m i.secondaries + i.deposit = E := by
  unfold bhTail at h
  match script, h with
  | uSwap :: uPhi :: tl, h =>
    try dsimp only at h
    split at h
    · simp at h
    · split at h
      · simp at h
      · simp only [Option.some.injEq, Prod.mk.injEq] at h
        rw [← h.1]
        refine ⟨rfl, ?_⟩
        rw [secondaryEnergy_pair]
        have hs := bhSplit_sum E m eps
        inum
        split_ifs <;> dsimp only <;> linarith
  | [], h => simp at h
  | [_], h => simp at h

/-- ★ `BetheHeitlerInteractor` below 2 MeV (uniform ε) conserves energy for every script -/
theorem bhlow_energy_conserved (cap size : ℕ) (E m : ℝ) (d : Vec3 ℝ) (script : Script ℝ)
    (i : Interaction ℝ) (sz : ℕ) (rest : Script ℝ)
    (h : betheHeitlerLow cap size E m d script = .done i sz rest) :
    i.action = .absorbed ∧ secondaryEnergy m i.secondaries + i.deposit = E := by
  unfold betheHeitlerLow at h
  cases ha : alloc cap size 2 with
  | none => rw [ha] at h; simp at h
  | some s' =>
    rw [ha] at h
    match script, h with
    | [], h => simp at h
    | uEps :: tl, h =>
      try dsimp only at h
      split at h
      · simp at h
      · rename_i i' rest' ht
        simp only [Outcome.done.injEq] at h
        rw [← h.1]
        exact bh_energy_conserved E m _ d tl i' rest' ht

/-! ## elastic and absorbing models: bookkeeping of the modelled final states -/

/-- ★ Coulomb scattering: outgoing + recoil deposit = incident -/
theorem coulomb_energy_conserved (E m Mt c u m' : ℝ) (d : Vec3 ℝ) :
    (coulombFinal E m Mt d c u).energy + secondaryEnergy m' (coulombFinal E m Mt d c u).secondaries
      + (coulombFinal E m Mt d c u).deposit = E := by
  unfold coulombFinal
  inum
  simp only [secondaryEnergy_nil]
  ring

/-- the recoil energy is in [0, T] when `cos θ ∈ [−1, 1]` and the target is at least twice as
    heavy as the projectile -/
theorem coulomb_recoil_range (E m Mt c : ℝ) (hE : 0 < E) (hm : 0 < m) (hMt : 2 * m ≤ Mt)
    (h1 : -1 ≤ c) (h2 : c ≤ 1) :
    0 ≤ coulombRecoil E m Mt c ∧ coulombRecoil E m Mt c ≤ E := by
  rw [coulombRecoil_real]
  have hx0 : 0 ≤ 1 - c := by linarith
  have hden : 0 < Mt + (m + E) * (1 - c) := by
    have : 0 ≤ (m + E) * (1 - c) := mul_nonneg (by linarith) hx0
    linarith
  constructor
  · apply div_nonneg _ (le_of_lt hden)
    exact mul_nonneg (by positivity) hx0
  · rw [div_le_iff₀ hden]
    have hmx : m * (1 - c) ≤ Mt := by nlinarith
    nlinarith [mul_le_mul_of_nonneg_left hmx (le_of_lt hE)]

/-- Rayleigh scattering is elastic with a unit outgoing direction -/
theorem rayleigh_elastic (E c u : ℝ) (d : Vec3 ℝ) (h1 : -1 ≤ c) (h2 : c ≤ 1) (hd : unitV d) :
    (rayleighFinal E d c u).energy = E ∧ (rayleighFinal E d c u).secondaries = []
      ∧ (rayleighFinal E d c u).deposit = 0 ∧ unitV (rayleighFinal E d c u).dir := by
  unfold rayleighFinal
  inum
  exact ⟨trivial, trivial, trivial, exitingDirection_unit c d u h1 h2 hd⟩

/-- ★ Livermore photoelectric bookkeeping: photo-electron + relaxation secondaries + local
    deposit = photon energy, provided the relaxation reports the sum of what it emitted -/
theorem livermore_energy_conserved (E m' : ℝ) (d eDir : Vec3 ℝ) (binding : Option ℝ)
    (relax : Option (List (Secondary ℝ) × ℝ))
    (hrel : ∀ secs eSum, relax = some (secs, eSum) → secondaryEnergy m' secs = eSum) :
    secondaryEnergy m' (livermoreFinal E d binding eDir relax).secondaries
      + (livermoreFinal E d binding eDir relax).deposit = E := by
  unfold livermoreFinal
  cases binding with
  | none => simp
  | some b =>
    cases relax with
    | none =>
      simp only [secondaryEnergy_cons, secondaryEnergy_nil]
      inum
      simp [pidPositron, pidElectron]
    | some r =>
      obtain ⟨secs, eSum⟩ := r
      simp only [secondaryEnergy_cons]
      rw [hrel secs eSum rfl]
      inum
      simp [pidPositron, pidElectron]

/-! ## atomic relaxation (AtomicRelaxation.hh): which cut applies to which transition type,
    `sum_energy` accumulation, secondary count -/

/-- ★ the energy reported by the relaxation is exactly the energy of what it emitted, for every
    transition table, pair of cuts, initial vacancy and script (a sub-cut transition emits
    nothing AND adds nothing to `sum_energy`) -/
theorem relaxation_energy_conserved (m' : ℝ) (shells : List (List (Transition ℝ)))
    (ecut gcut : ℝ) (shell : ℕ) (script : Script ℝ) (secs : List (Secondary ℝ)) (sum : ℝ)
    (rest : Script ℝ) (h : atomicRelaxation shells ecut gcut shell script = some (secs, sum, rest)) :
    secondaryEnergy m' secs = sum := by
  unfold atomicRelaxation at h
  rw [NumR.lit0] at h
  exact (relaxLoop_inv m' shells ecut gcut _ _ _ _ _ _ _ _ h (by simp) (by simp)).1

/-- ★ every Auger electron is at or above the ELECTRON production cut and every fluorescence
    photon at or above the GAMMA production cut (each secondary is judged by its own type's
    threshold); no other particle type is produced -/
theorem relaxation_secondaries_above_own_cut (shells : List (List (Transition ℝ)))
    (ecut gcut : ℝ) (shell : ℕ) (script : Script ℝ) (secs : List (Secondary ℝ)) (sum : ℝ)
    (rest : Script ℝ) (h : atomicRelaxation shells ecut gcut shell script = some (secs, sum, rest)) :
    ∀ s ∈ secs, (s.pid = some pidElectron ∧ ecut ≤ s.energy)
      ∨ (s.pid = some pidGamma ∧ gcut ≤ s.energy) := by
  unfold atomicRelaxation at h
  rw [NumR.lit0] at h
  exact (relaxLoop_inv 0 shells ecut gcut _ _ _ _ _ _ _ _ h (by simp) (by simp)).2.1

/-- FULL STATEMENT (not proved): the number of secondaries never exceeds
    `calc_max_secondaries(data, shells, electron_cut, gamma_cut)` — the size of the span the
    caller allocates (the release build does not check `count < secondaries_.size()`).  The
    memoised recursion of `MaxSecondariesCalculator` is not modelled; that bound is checked on
    the real code by the oracle (`xrelax`, sentinel past the request).  Proved: each emitted
    secondary consumes three uniforms (transition + isotropic direction), so
    `3·count ≤ draws`. -/
theorem relaxation_count_le_draws_partial (shells : List (List (Transition ℝ)))
    (ecut gcut : ℝ) (shell : ℕ) (script : Script ℝ) (secs : List (Secondary ℝ)) (sum : ℝ)
    (rest : Script ℝ) (h : atomicRelaxation shells ecut gcut shell script = some (secs, sum, rest)) :
    3 * secs.length + rest.length ≤ script.length := by
  unfold atomicRelaxation at h
  rw [NumR.lit0] at h
  have := (relaxLoop_inv 0 shells ecut gcut _ _ _ _ _ _ _ _ h (by simp) (by simp)).2.2
  simpa using this

/-- ★ Livermore photoelectric effect with the modelled relaxation: photo-electron + relaxation
    secondaries + local deposit = photon energy (binding energy = Σ emitted + deposit) -/
theorem livermore_relaxation_energy_conserved (E m' b : ℝ) (d eDir : Vec3 ℝ)
    (shells : List (List (Transition ℝ))) (ecut gcut : ℝ) (shell : ℕ) (script : Script ℝ)
    (secs : List (Secondary ℝ)) (sum : ℝ) (rest : Script ℝ)
    (h : atomicRelaxation shells ecut gcut shell script = some (secs, sum, rest)) :
    secondaryEnergy m' (livermoreFinal E d (some b) eDir (some (secs, sum))).secondaries
      + (livermoreFinal E d (some b) eDir (some (secs, sum))).deposit = E := by
  apply livermore_energy_conserved
  intro secs' eSum' he
  simp only [Option.some.injEq, Prod.mk.injEq] at he
  rw [← he.1, ← he.2]
  exact relaxation_energy_conserved m' shells ecut gcut shell script secs sum rest h

/-! ## muon bremsstrahlung (full interactor; the differential cross section is a parameter of the
    theorems and is modelled — `muBremsDcs` — for the bit-exact run) -/

theorem mubrems_alloc_failure_is_failed (dcs : ℝ → ℝ) (cap size : ℕ) (E M cut : ℝ) (d : Vec3 ℝ)
    (script : Script ℝ) (h : cap < size + 1) :
    muBremsWith dcs cap size E M cut d script = .failed size := by
  unfold muBremsWith; rw [alloc_none h]

/-- ★ energy conservation for every cross section, script and input -/
theorem mubrems_energy_conserved (dcs : ℝ → ℝ) (cap size : ℕ) (E M cut m' : ℝ) (d : Vec3 ℝ)
    (script : Script ℝ) (i : Interaction ℝ) (sz : ℕ) (rest : Script ℝ)
    (h : muBremsWith dcs cap size E M cut d script = .done i sz rest) :
    i.energy + secondaryEnergy m' i.secondaries + i.deposit = E := by
  obtain ⟨_, _, k, uc, uPhi, _, _, _, hi⟩ := mubrems_done h
  rw [hi]; exact bremFinal_energy m' E d _ k _ uPhi

/-- the photon energy lies in the CLOSED interval [cut_γ, T] (at ℝ; in floating point the upper
    end can be exceeded by one ulp: known finding `endpoint-negative-energy:mubrems`), the muon
    keeps a non-negative energy, the photon direction is a unit vector -/
theorem mubrems_ranges (dcs : ℝ → ℝ) (cap size : ℕ) (E M cut : ℝ) (d : Vec3 ℝ)
    (script : Script ℝ) (i : Interaction ℝ) (sz : ℕ) (rest : Script ℝ) (hcut : 0 < cut)
    (hE : cut ≤ E) (hc : canonical script) (hd : unitV d)
    (h : muBremsWith dcs cap size E M cut d script = .done i sz rest) :
    0 ≤ i.energy ∧ ∃ s, i.secondaries = [s] ∧ s.pid = some pidGamma ∧ cut ≤ s.energy
      ∧ s.energy ≤ E ∧ unitV s.dir := by
  obtain ⟨_, _, k, uc, uPhi, u1, hu1, hk, hi⟩ := mubrems_done h
  obtain ⟨r1, r2⟩ := reciprocal_range cut E u1 hcut hE (hc u1 hu1).1 (le_of_lt (hc u1 hu1).2)
  rw [← hk] at r1 r2
  obtain ⟨c1, c2⟩ := muBremsCosTheta_range E M k uc
  rw [hi]
  unfold bremFinal
  inum
  exact ⟨by show 0 ≤ E - k; linarith, _, rfl, rfl, r1, r2, exitingDirection_unit _ d uPhi c1 c2 hd⟩

/-- `sample_cos_theta`: the argument `a` of `sqrt(a/(1−a))` satisfies `0 ≤ a < 1`, so the
    quotient is a well-defined non-negative number, and the returned value is a cosine -/
theorem mubrems_angle_well_defined (E M k u : ℝ) (h0 : 0 ≤ u) (h1 : u < 1) :
    0 ≤ muBremsAngleArg E M k u ∧ muBremsAngleArg E M k u < 1
      ∧ -1 ≤ muBremsCosTheta E M k u ∧ muBremsCosTheta E M k u ≤ 1 :=
  ⟨(muBremsAngleArg_range E M k u h0 h1).1, (muBremsAngleArg_range E M k u h0 h1).2,
    (muBremsCosTheta_range E M k u).1, (muBremsCosTheta_range E M k u).2⟩

/-! ## Rayleigh scattering: the form-factor sampling loop -/

/-- ★ elastic: energy unchanged, no secondaries, no deposit — for every script -/
theorem rayleigh_energy_unchanged (p : RayleighParams ℝ) (k1 k2 E : ℝ) (d : Vec3 ℝ)
    (script : Script ℝ) (i : Interaction ℝ) (rest : Script ℝ)
    (h : rayleigh p k1 k2 E d script = some (i, rest)) :
    i.energy = E ∧ i.secondaries = [] ∧ i.deposit = 0 ∧ i.action = .scattered := by
  unfold rayleigh at h
  split at h
  split at h
  · simp at h
  · rename_i cost rst _
    cases rst with
    | nil => simp at h
    | cons u tl =>
      simp only [Option.some.injEq, Prod.mk.injEq] at h
      rw [← h.1]
      unfold rayleighFinal
      inum
      exact ⟨trivial, trivial, trivial, trivial⟩

/-- every accepted trial has `cos θ ∈ [−1, 1]`: the lower bound is the loop's own exit test,
    the upper bound needs `x ≥ 0`, i.e. weights in [0,1], `n ≥ ½` (true of the tabulated fit
    parameters, 0.69 ≤ n ≤ 14), `b > 0` and a positive `factor` -/
theorem rayleigh_trial_cos_range (p : RayleighParams ℝ) (factor : ℝ) (weight prob : Vec3 ℝ)
    (u1 u2 u3 c : ℝ) (hf : 0 < factor)
    (hw : ∀ j, 0 ≤ weight.get j ∧ weight.get j ≤ 1) (hn : ∀ j, 1 / 2 ≤ p.n.get j)
    (hb : ∀ j, 0 < p.b.get j) (h0 : 0 ≤ u2) (h1 : u2 < 1)
    (h : rayleighTrial p factor weight prob u1 u2 u3 = (c, false)) : -1 ≤ c ∧ c ≤ 1 := by
  unfold rayleighTrial at h
  simp only [Prod.mk.injEq, Bool.or_eq_false_iff] at h
  obtain ⟨hc, _, hlow⟩ := h
  inum at hc hlow
  set j := select3 prob u1
  have hnj := hn j
  have hninv0 : 0 < 1 / p.n.get j := by positivity
  have hninv2 : 1 / p.n.get j ≤ 2 := by
    rw [div_le_iff₀ (by linarith)]; linarith
  have hy0 : 0 ≤ weight.get j * u2 := mul_nonneg (hw j).1 h0
  have hy1 : weight.get j * u2 < 1 := by nlinarith [(hw j).1, (hw j).2]
  have hx := rayleighX_nonneg _ _ hninv0 hninv2 hy0 hy1
  have hbf : 0 < p.b.get j * factor := mul_pos (hb j) hf
  constructor
  · rw [← hc]; exact hlow
  · rw [← hc]
    have : 0 ≤ 2 * rayleighX (1 / p.n.get j) (weight.get j * u2) / (p.b.get j * factor) := by
      positivity
    linarith

/-- per-iteration acceptance: a trial whose cosine is ≥ −1 and whose third uniform is ≤ ½ is
    accepted (`2ξ > 1 + cos²θ` fails) — with independent uniforms the loop needs a geometric
    number of iterations once the form-factor variable lands in range; no worst-case bound
    exists for adversarial streams (the model returns `none` when the script is exhausted) -/
theorem rayleigh_accept_half (p : RayleighParams ℝ) (factor : ℝ) (weight prob : Vec3 ℝ)
    (u1 u2 u3 : ℝ) (h3 : u3 ≤ 1 / 2)
    (hc : -1 ≤ (rayleighTrial p factor weight prob u1 u2 u3).1) :
    (rayleighTrial p factor weight prob u1 u2 u3).2 = false := by
  unfold rayleighTrial at hc ⊢
  simp only [Bool.or_eq_false_iff]
  inum at hc ⊢
  generalize 1 - 2 * rayleighX (1 / p.n.get (select3 prob u1)) (weight.get (select3 prob u1) * u2)
    / (p.b.get (select3 prob u1) * factor) = c at hc ⊢
  constructor
  · rw [Bool.eq_false_iff]
    intro hh
    rw [NumR.gt_real] at hh
    nlinarith [mul_self_nonneg c]
  · exact hc

/-- the outgoing direction is a unit vector under the same hypotheses -/
theorem rayleigh_direction_unit (p : RayleighParams ℝ) (k1 k2 E : ℝ) (d : Vec3 ℝ)
    (script : Script ℝ) (i : Interaction ℝ) (rest : Script ℝ) (hd : unitV d)
    (hf : 0 < (rayleighInput p k1 k2 E).1)
    (hw : ∀ j, 0 ≤ (rayleighInput p k1 k2 E).2.1.get j ∧ (rayleighInput p k1 k2 E).2.1.get j ≤ 1)
    (hn : ∀ j, 1 / 2 ≤ p.n.get j) (hb : ∀ j, 0 < p.b.get j) (hc : canonical script)
    (h : rayleigh p k1 k2 E d script = some (i, rest)) : unitV i.dir := by
  unfold rayleigh at h
  rcases hin : rayleighInput p k1 k2 E with ⟨factor, weight, prob⟩
  rw [hin] at h hf hw
  simp only [] at h hf hw
  split at h
  · simp at h
  · rename_i cost rst hl
    obtain ⟨u1, u2, u3, _, hu2, _, ht, _⟩ := rayleighLoop_spec _ _ _ _ _ _ _ _ hl
    obtain ⟨c1, c2⟩ := rayleigh_trial_cos_range p factor weight prob u1 u2 u3 cost hf hw hn hb
      (hc u2 hu2).1 (hc u2 hu2).2 ht
    cases rst with
    | nil => simp at h
    | cons u tl =>
      simp only [Option.some.injEq, Prod.mk.injEq] at h
      rw [← h.1]
      exact (rayleigh_elastic E cost u d c1 c2 hd).2.2.2

/-! ## bremsstrahlung photon-energy proposal (Seltzer–Berger and relativistic samplers) and the
    Bethe–Heitler ε formulas above 2 MeV — formulas only; their rejection functions are data -/

/-- the proposal `k = sqrt(k_min² (k_max²/k_min²)^ξ … − k_dc²)` lies in the CLOSED interval
    `[k_cut, T]` for every ξ ∈ [0, 1] at ℝ.  In floating point `exp(log(k_min² + k_dc²)) − k_dc²`
    can round below `k_cut²` at ξ = 0 and above `T²` at ξ → 1: exactly the known findings
    `brems-photon-below-cut-rounding` and `endpoint-negative-energy:brems`. -/
theorem brems_proposal_in_closed_interval (kcut T dc u : ℝ) (hk : 0 < kcut) (hT : kcut ≤ T)
    (hdc : 0 ≤ dc) (h0 : 0 ≤ u) (h1 : u ≤ 1) :
    kcut ≤ bremsProposal kcut T dc u ∧ bremsProposal kcut T dc u ≤ T :=
  bremsProposal_range kcut T dc u hk hT hdc h0 h1

/-- Bethe–Heitler above 2 MeV: both sampling formulas keep ε ∈ [ε_min, ½]; with
    `ε_min ≥ ε₀ = m/E` (it is `max(ε₀, ε₁)`) both lepton kinetic energies are ≥ 0.  The exact
    guard is `ε₀ ≤ ε`: in floating point `ε·E − m` rounds negative only when ε is within rounding
    of ε₀ (known finding `endpoint-negative-energy:pair`). -/
theorem bh_high_energy_leptons_nonneg (E m epsMin t : ℝ) (hE : 0 < E) (hm : 2 * m ≤ E)
    (he0 : m / E ≤ epsMin) (he : epsMin ≤ 1 / 2) (h0 : 0 ≤ t) (h1 : t ≤ 1) :
    (0 ≤ (bhSplit E m (bhEpsF1 epsMin t)).1 ∧ 0 ≤ (bhSplit E m (bhEpsF1 epsMin t)).2)
      ∧ (0 ≤ (bhSplit E m (bhEpsF2 epsMin t)).1 ∧ 0 ≤ (bhSplit E m (bhEpsF2 epsMin t)).2) := by
  obtain ⟨⟨a1, a2⟩, ⟨b1, b2⟩⟩ := bhEps_range epsMin t he h0 h1
  exact ⟨bhSplit_nonneg E m _ hE (le_trans he0 a1) a2 hm,
    bhSplit_nonneg E m _ hE (le_trans he0 b1) b2 hm⟩

/-! ## non-vacuity -/

/-- the hypotheses of the momentum theorems are satisfiable: +z is a unit, `rotOK` direction -/
example : unitV (⟨0, 0, 1⟩ : Vec3 ℝ) ∧ rotOK (⟨0, 0, 1⟩ : Vec3 ℝ) := by
  constructor
  · unfold unitV nsq; norm_num
  · right; exact le_refl _

/-- `canonical` scripts exist and the KN loop accepts on one: ε₀ ≤ ε ≤ 1 is reachable -/
example : canonical ([0, 1 / 2, 3 / 4, 1 / 4] : Script ℝ) := by
  intro u hu
  simp only [List.mem_cons, List.mem_nil_iff, or_false] at hu
  rcases hu with h | h | h | h <;> rw [h] <;> norm_num

/-- allocation failure hypothesis is satisfiable and the success case too -/
example : alloc 0 0 1 = none ∧ alloc 2 1 1 = some 2 := by decide

/-- `gg_momentum_not_conserved` is not vacuous: at ε = ½ with T = m the polar cosine is
    `1/sqrt 3`, strictly between −1 and 1 -/
example : (-1 : ℝ) < ((1 / 2 : ℝ) * ((1 : ℝ) / 1 + 2) - 1) / ((1 / 2) * Real.sqrt (1 / 1 * (1 / 1 + 2)))
    ∧ ((1 / 2 : ℝ) * ((1 : ℝ) / 1 + 2) - 1) / ((1 / 2) * Real.sqrt (1 / 1 * (1 / 1 + 2))) ≤ 1 := by
  have h3 : (1 : ℝ) / 1 * (1 / 1 + 2) = 3 := by norm_num
  rw [h3]
  have hs : 0 < Real.sqrt 3 := Real.sqrt_pos.mpr (by norm_num)
  have hss := Real.mul_self_sqrt (show (0 : ℝ) ≤ 3 by norm_num)
  have hge : 1 ≤ Real.sqrt 3 := by
    by_contra hc; rw [not_le] at hc; nlinarith
  constructor
  · have : (0 : ℝ) ≤ (1 / 2 * (1 / 1 + 2) - 1) / (1 / 2 * Real.sqrt 3) := by
      apply div_nonneg <;> [norm_num; positivity]
    linarith
  · rw [div_le_one (by positivity)]; nlinarith

/-- ionisation hypotheses are satisfiable (Møller at T = 1, m = ½: T_max = T) -/
example : maxSecondaryEnergy (1 : ℝ) (1 / 2) (1 / 2) = 1 :=
  maxSecondaryEnergy_same 1 (1 / 2) (by norm_num) (by norm_num)

/-- Bethe–Heitler range hypotheses are satisfiable -/
example : (1 / 2 : ℝ) / 2 ≤ 1 / 4 ∧ (1 / 4 : ℝ) ≤ 1 / 2 ∧ 2 * (1 / 2 : ℝ) ≤ 2 := by norm_num

/-- relaxation theorems are not vacuous: a K-shell vacancy whose only transition is radiative
    (1 keV, above a 0.5 keV gamma cut) emits exactly one photon and reports its energy -/
example : atomicRelaxation [[(⟨1, none, 1, 1 / 1000⟩ : Transition ℝ)]] 0 (1 / 2000) 0
    [1 / 2, 1 / 2, 1 / 2]
      = some ([relaxSecondary pidGamma (1 / 1000) (1 / 2) (1 / 2)], 1 / 1000, []) := by
  have hs : sampleTransition [(⟨1, none, 1, 1 / 1000⟩ : Transition ℝ)] (1 / 2)
      = some ⟨1, none, 1, 1 / 1000⟩ := by
    unfold sampleTransition sampleTransitionGo
    have : Num.gt (-(1 / 2 : ℝ) + 1) (0 : ℝ) = true := by rw [NumR.gt_real]; norm_num
    simp only [NumR.hneg_real, NumR.hadd_real, NumR.lit0, this, if_true]
  have hg : Num.ge (1 / 1000 : ℝ) (1 / 2000 : ℝ) = true := by rw [NumR.ge_real]; norm_num
  unfold atomicRelaxation
  simp only [List.length_cons, List.length_nil, relaxLoop, List.getElem?_cons_zero, hs, hg, if_true]
  simp [relaxLoop, NumR.lit0, NumR.hadd_real]

/-- Rayleigh / muon-brems hypotheses are satisfiable: a weight in [0,1], n ≥ ½, b > 0, and a
    canonical uniform -/
example : (0 : ℝ) ≤ 1 / 2 ∧ (1 / 2 : ℝ) ≤ 1 ∧ (1 / 2 : ℝ) ≤ 3 ∧ (0 : ℝ) < 1e-16 ∧ (0 : ℝ) ≤ 1 / 4
    ∧ (1 / 4 : ℝ) < 1 := by norm_num

/-- the closed-interval statement is attained at both ends: ξ = 0 gives k_cut, ξ = 1 gives T -/
example : bremsProposal (1 : ℝ) 2 3 0 = 1 ∧ bremsProposal (1 : ℝ) 2 3 1 = 2 := by
  unfold bremsProposal reciprocal
  inum
  constructor
  · norm_num
  · have h : Real.exp (Real.log (1 / (1 * 1 + 3) * (2 * 2 + 3)) * 1) = 7 / 4 := by
      rw [mul_one, Real.exp_log (by norm_num)]; norm_num
    rw [h]
    have : ((1 : ℝ) * 1 + 3) * (7 / 4) - 3 = 2 * 2 := by norm_num
    rw [this, Real.sqrt_mul_self (by norm_num)]

end CelerVerif.Interact
