/-
C07 — concurrent streams sharing problem parameters do not interfere.

These theorems are about the DESIGN (Model/Streams.lean): if a stream's step reads the shared
parameters and reads/writes only its own component, then steps of different streams commute and
every interleaving equals the serial execution.  Whether the C++ really confines its writes to
the stream's own state is a fact about the running program: tools/checks/c07.py tests it
(threads vs serial, bitwise; ThreadSanitizer build in the thorough tier).
-/
import CelerVerif.Lemmas.StreamsBasic

namespace CelerVerif.Streams
variable {P S A : Type}

/-- ★ steps of two different streams commute -/
theorem steps_commute (sem : Sem P S A) (i j : Nat) (_h : i ≠ j) (g : Global P S A) :
    step sem i (step sem j g) = step sem j (step sem i g) := by
  have e1 : step sem i (step sem j g) = exec sem [j, i] g := rfl
  have e2 : step sem j (step sem i g) = exec sem [i, j] g := rfl
  rw [e1, e2]
  apply global_ext
  · rw [exec_params, exec_params]
  · intro k
    rw [exec_comp, exec_comp]
    have : [j, i].count k = [i, j].count k := by
      simp only [List.count_cons, List.count_nil]; omega
    rw [this]

/-- ★ any two interleavings in which every stream performs the same number of steps (each
    stream's own script is part of its state, so "the same steps") end in the same global state:
    any number of streams, any lengths, any schedule -/
theorem any_interleaving_equals_any_other (sem : Sem P S A) (sched₁ sched₂ : List Nat)
    (h : ∀ i, sched₁.count i = sched₂.count i) (g : Global P S A) :
    exec sem sched₁ g = exec sem sched₂ g := by
  apply global_ext
  · rw [exec_params, exec_params]
  · intro i
    rw [exec_comp, exec_comp, h i]

/-- ★ in particular every interleaving of the k streams' step lists equals the serial execution
    (all steps of stream 0, then all of stream 1, …), and what stream `i` ends with is what it
    computes alone: the iterate of its own transition on its own initial component -/
theorem any_interleaving_equals_serial (sem : Sem P S A) (sched : List Nat) (k : Nat)
    (hk : ∀ i ∈ sched, i < k) (g : Global P S A) :
    exec sem sched g = serial sem ((List.range k).map (fun i => sched.count i)) g ∧
    ∀ i, ((exec sem sched g).core i, (exec sem sched g).store i) =
      iter (localStep sem g.params i) (sched.count i) (g.core i, g.store i) := by
  refine ⟨?_, fun i => exec_comp sem sched g i⟩
  unfold serial
  apply any_interleaving_equals_any_other
  intro i
  exact (serial_count sched k hk i).symm

/-- creating a stream's store lazily is idempotent, leaves every other stream and the
    parameters untouched, and stepping does not care whether it was created before -/
theorem lazy_create_idempotent (sem : Sem P S A) (i : Nat) (g : Global P S A) :
    ensure sem i (ensure sem i g) = ensure sem i g ∧
    (ensure sem i g).params = g.params ∧
    (∀ j, j ≠ i → (ensure sem i g).store j = g.store j) ∧
    (∀ j, (ensure sem i g).core j = g.core j) ∧
    step sem i (ensure sem i g) = step sem i g := by
  unfold ensure
  cases hs : g.store i with
  | some a => exact ⟨by simp [hs], rfl, fun _ _ => rfl, fun _ => rfl, rfl⟩
  | none =>
    refine ⟨?_, rfl, ?_, fun _ => rfl, ?_⟩
    · simp [update]
    · intro j hj; simp [update, hj]
    · apply global_ext
      · rfl
      · intro k
        by_cases hk : k = i
        · subst hk; simp [step, update, hs]
        · simp [step, update, hk]

/-! non-vacuity: two counters with lazily created tallies -/
def demo : Sem Nat Nat Nat := ⟨fun p _ => p, fun p i (s, a) => (s + p + i, a + 1)⟩

example : (exec demo [0, 1, 0, 1, 1] ⟨10, fun _ => 0, fun _ => none⟩).core 1
    = (exec demo [1, 1, 1, 0, 0] ⟨10, fun _ => 0, fun _ => none⟩).core 1 := by decide
example : (exec demo [0, 1, 0] ⟨10, fun _ => 0, fun _ => none⟩).store 0 = some 12 := by decide

end CelerVerif.Streams
