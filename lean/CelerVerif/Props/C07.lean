/-
C07 — concurrent streams sharing problem parameters do not interfere.

These theorems are about the DESIGN (Model/Streams.lean): if a stream's step reads the shared
parameters and reads/writes only its own component, then steps of different streams commute and
every interleaving equals the serial execution.  Whether the C++ really confines its writes to
the stream's own state is a fact about the running program: tools/checks/c07.py tests it
(threads vs serial, bitwise; ThreadSanitizer build in the thorough tier).
-/
import CelerVerif.Lemmas.StreamsBasic
import CelerVerif.Model.Xorwow

namespace CelerVerif.Streams
variable {P S A : Type}

/-- ★ steps of two different streams commute -/
theorem steps_commute (sem : Sem P S A) (i j : Nat) (_h : i ≠ j) (g : Global P S A) :
    step sem i (step sem j g) = step sem j (step sem i g) := by
  have e1 : step sem i (step sem j g) = exec sem [j, i] g := rfl
  have e2 : step sem j (step sem i g) = exec sem [i, j] g := rfl
  rw [e1, e2]
  apply global_ext
  · rw [exec_params, exec_params]
  · intro k
    rw [exec_comp, exec_comp]
    have : [j, i].count k = [i, j].count k := by
      simp only [List.count_cons, List.count_nil]; omega
    rw [this]

/-- ★ any two interleavings in which every stream performs the same number of steps (each
    stream's own script is part of its state, so "the same steps") end in the same global state:
    any number of streams, any lengths, any schedule -/
theorem any_interleaving_equals_any_other (sem : Sem P S A) (sched₁ sched₂ : List Nat)
    (h : ∀ i, sched₁.count i = sched₂.count i) (g : Global P S A) :
    exec sem sched₁ g = exec sem sched₂ g := by
  apply global_ext
  · rw [exec_params, exec_params]
  · intro i
    rw [exec_comp, exec_comp, h i]

/-- ★ in particular every interleaving of the k streams' step lists equals the serial execution
    (all steps of stream 0, then all of stream 1, …), and what stream `i` ends with is what it
    computes alone: the iterate of its own transition on its own initial component -/
theorem any_interleaving_equals_serial (sem : Sem P S A) (sched : List Nat) (k : Nat)
    (hk : ∀ i ∈ sched, i < k) (g : Global P S A) :
    exec sem sched g = serial sem ((List.range k).map (fun i => sched.count i)) g ∧
    ∀ i, ((exec sem sched g).core i, (exec sem sched g).store i) =
      iter (localStep sem g.params i) (sched.count i) (g.core i, g.store i) := by
  refine ⟨?_, fun i => exec_comp sem sched g i⟩
  unfold serial
  apply any_interleaving_equals_any_other
  intro i
  exact (serial_count sched k hk i).symm

/-- creating a stream's store lazily is idempotent, leaves every other stream and the
    parameters untouched, and stepping does not care whether it was created before -/
theorem lazy_create_idempotent (sem : Sem P S A) (i : Nat) (g : Global P S A) :
    ensure sem i (ensure sem i g) = ensure sem i g ∧
    (ensure sem i g).params = g.params ∧
    (∀ j, j ≠ i → (ensure sem i g).store j = g.store j) ∧
    (∀ j, (ensure sem i g).core j = g.core j) ∧
    step sem i (ensure sem i g) = step sem i g := by
  unfold ensure
  cases hs : g.store i with
  | some a => exact ⟨by simp [hs], rfl, fun _ _ => rfl, fun _ => rfl, rfl⟩
  | none =>
    refine ⟨?_, rfl, ?_, fun _ => rfl, ?_⟩
    · simp [update]
    · intro j hj; simp [update, hj]
    · apply global_ext
      · rfl
      · intro k
        by_cases hk : k = i
        · subst hk; simp [step, update, hs]
        · simp [step, update, hk]

/-! non-vacuity: two counters with lazily created tallies -/
def demo : Sem Nat Nat Nat := ⟨fun p _ => p, fun p i (s, a) => (s + p + i, a + 1)⟩

example : (exec demo [0, 1, 0, 1, 1] ⟨10, fun _ => 0, fun _ => none⟩).core 1
    = (exec demo [1, 1, 1, 0, 0] ⟨10, fun _ => 0, fun _ => none⟩).core 1 := by decide
example : (exec demo [0, 1, 0] ⟨10, fun _ => 0, fun _ => none⟩).store 0 = some 12 := by decide

/-! ### event level: any assignment of events to streams -/
section Events
variable {C V R : Type}

/-- an event's result is the reference result whatever stream runs it and whatever that stream
    did before -/
theorem event_result_is_reference (ev : EvSem P C V R) (h : ev.Isolated) (p : P)
    (comp : Nat → C) (a : Nat × Nat) (c0 : C) :
    (evStep ev p comp a).2 = evRef ev p c0 a.2 := by
  unfold evStep evRef
  apply h.run_view
  rw [h.begin_view, h.begin_view]

/-- ★ for ANY assignment of events to streams, any number of streams, any per-stream order and
    any state the streams start in, the per-event results are those of each event run alone on
    a single stream from `c0` -/
theorem any_assignment_gives_reference_results (ev : EvSem P C V R) (h : ev.Isolated) (p : P)
    (asg : List (Nat × Nat)) (comp : Nat → C) (c0 : C) :
    evExec ev p asg comp = asg.map (fun a => (a.2, evRef ev p c0 a.2)) := by
  induction asg generalizing comp with
  | nil => rfl
  | cons a l ih =>
    rw [evExec, List.map_cons, ih, event_result_is_reference ev h p comp a c0]

/-- ★ two assignments of the same events (as a permutation: different streams, different
    order, different starting states) give the same per-event results up to that permutation;
    in particular k concurrent streams against one stream running the events one after another -/
theorem assignments_agree (ev : EvSem P C V R) (h : ev.Isolated) (p : P)
    (asg₁ asg₂ : List (Nat × Nat)) (comp₁ comp₂ : Nat → C)
    (hev : (asg₁.map Prod.snd).Perm (asg₂.map Prod.snd)) :
    (evExec ev p asg₁ comp₁).Perm (evExec ev p asg₂ comp₂) := by
  rw [any_assignment_gives_reference_results ev h p asg₁ comp₁ (comp₁ 0),
    any_assignment_gives_reference_results ev h p asg₂ comp₂ (comp₁ 0)]
  have := hev.map (fun e => (e, evRef ev p (comp₁ 0) e))
  simpa [List.map_map, Function.comp_def] using this

/-- serial special case, as an equation: all events on stream 0 in the same order -/
theorem concurrent_equals_single_stream (ev : EvSem P C V R) (h : ev.Isolated) (p : P)
    (asg : List (Nat × Nat)) (comp comp' : Nat → C) :
    evExec ev p asg comp = evExec ev p (asg.map (fun a => (0, a.2))) comp' := by
  rw [any_assignment_gives_reference_results ev h p asg comp (comp 0),
    any_assignment_gives_reference_results ev h p _ comp' (comp 0)]
  simp [List.map_map, Function.comp_def]

/-- the contract is necessary: a boundary that leaves one viewed datum of the previous event in
    place makes the result depend on the assignment (the kind of change the seeded C07 patches
    make: a counter or RNG slot not reset at the event boundary) -/
def leaky : EvSem Nat (Nat × Nat) (Nat × Nat) Nat :=
  ⟨fun p _ e c => (p + e, c.2), fun _ _ c => (c.1 + c.2, (c.1, c.2 + 1)), id, fun p e => (p + e, 0)⟩

theorem leaky_depends_on_assignment :
    evExec leaky 5 [(0, 1), (0, 2)] (fun _ => (0, 0)) ≠ evExec leaky 5 [(0, 1), (1, 2)] (fun _ => (0, 0)) := by
  decide

/-! non-vacuity: an RNG word reseeded from (seed, event), a tally that carries over -/
def demoEv : EvSem Nat (Nat × Nat) Nat Nat :=
  ⟨fun p _ e c => (p + e, c.2), fun _ _ c => (2 * c.1, (c.1 + 1, c.2 + 2 * c.1)), Prod.fst, fun p e => p + e⟩

theorem demoEv_isolated : demoEv.Isolated :=
  ⟨fun _ _ _ _ => rfl, fun _ _ _ c c' hv => by simp only [demoEv] at hv ⊢; rw [hv]⟩

example : evExec demoEv 7 [(0, 1), (1, 2), (0, 3)] (fun _ => (99, 0))
    = evExec demoEv 7 [(2, 1), (2, 2), (2, 3)] (fun _ => (0, 5)) := by decide
example : evExec demoEv 7 [(0, 1), (1, 2), (0, 3)] (fun _ => (99, 0)) = [(1, 16), (2, 18), (3, 20)] := by
  decide

/-! ### the contract discharged for the RNG as the code reseeds it

The RNG part of a stream's component made concrete: `nslots` XORWOW states.  The boundary is
`reseed_rng` as modelled for C13 (`Model/Xorwow.lean`, tied to `XorwowRngEngine.hh` and
`reseed_rng` by the C13 correspondence harness: slot `i` := `init seed (event*nslots+i) 0`).
Transport is ANY function of the RNG states; the tallies `T` (calorimeters, diagnostics) may be
updated by ANY function that may even read the stream id — they are outside the view. -/
def reseedAll (seed nslots e : Nat) : List Xorwow.State :=
  (List.range nslots).map (fun i => Xorwow.init seed (Xorwow.reseedIndex e nslots i) 0)

def rngEv {T : Type} (nslots : Nat) (transport : Nat → List Xorwow.State → R × List Xorwow.State)
    (tally : Nat → R → T → T) : EvSem Nat (List Xorwow.State × T) (List Xorwow.State) R where
  begin := fun seed _ e c => (reseedAll seed nslots e, c.2)
  run := fun seed i c => ((transport seed c.1).1, ((transport seed c.1).2, tally i (transport seed c.1).1 c.2))
  view := Prod.fst
  fresh := fun seed e => reseedAll seed nslots e

theorem rngEv_isolated {T : Type} (nslots : Nat)
    (transport : Nat → List Xorwow.State → R × List Xorwow.State) (tally : Nat → R → T → T) :
    (rngEv nslots transport tally).Isolated :=
  ⟨fun _ _ _ _ => rfl, fun _ _ _ c c' hv => by
    simp only [rngEv] at hv ⊢
    rw [hv]⟩

/-- ★ with the RNG reseeded the way the code does it, per-event results do not depend on the
    assignment of events to streams, on what ran on a stream before, or on the tallies the
    streams have accumulated — for every transport function, seed, slot count and assignment -/
theorem reseeded_events_independent_of_assignment {T : Type} (nslots : Nat)
    (transport : Nat → List Xorwow.State → R × List Xorwow.State) (tally : Nat → R → T → T)
    (seed : Nat) (asg : List (Nat × Nat)) (comp : Nat → List Xorwow.State × T) :
    evExec (rngEv nslots transport tally) seed asg comp =
      asg.map (fun a => (a.2, (transport seed (reseedAll seed nslots a.2)).1)) :=
  any_assignment_gives_reference_results _ (rngEv_isolated nslots transport tally) seed asg comp (comp 0)

end Events

end CelerVerif.Streams
