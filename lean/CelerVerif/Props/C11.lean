/-
C11 — The reported safety distance is conservative.
Property theorems only: ℝ reading of the `Num`-generic model Model/Safety.lean (on the C12
surface model Model/Surf.lean), which is run bit-exactly at `Float` against the real
`CalcSafetyDistance`, `SimpleUnitTracker::safety`, `RectArrayTracker::safety`, `UnitInserter`
flags and `OrangeTrackView::find_safety` by harness/safety.cc.
Helper lemmas: Lemmas/SafetyBasic.lean, SafetyForms.lean, SafetyDist.lean, SafetyLevels.lean,
SafetyRay.lean, SafetyMax.lean; Generated/SafetySource.lean is rewritten from the current
source by tools/gen/safety.py before every build.

Conventions: a safety value is an `Option ℝ` with `none = +∞` (`numeric_limits::infinity()`);
`OLe o b` : `o` is finite and `≤ b`;  `ONonneg o` : `o` is `+∞` or `≥ 0`;
`dist3 x y` = Euclidean distance `√((x−y)·(x−y))`.
Hypotheses: `WellFormed s` = documented constructor preconditions (unit plane normal, r² ≥ 0);
`¬ AtCentre s x` = the gradient of `s` does not vanish at `x` (NOT a documented precondition:
at a sphere centre / on the axis of a centred cylinder the code deliberately returns +∞ — the
real code was run there: finding `safety-inf-at-center`); `LevelXf.Iso` = rotation matrices
are orthonormal (documented precondition of `Transformation`).
-/
import CelerVerif.Lemmas.SafetyMove

namespace CelerVerif.Safety
open CelerVerif CelerVerif.Surf

/-! ### closed forms of the per-surface safety -/

/-- axis-aligned plane: |x_t − p| -/
theorem safety_planeAligned (t : Axis) (p : ℝ) (x : Vec3 ℝ) :
    calcSafety (.planeAligned t p) x = some |x.ax t - p| :=
  safety_planeAligned_form t p x

/-- general plane with unit normal: |n·x − d| -/
theorem safety_plane (n : Vec3 ℝ) (d : ℝ) (x : Vec3 ℝ) (hn : nsq n = 1) :
    calcSafety (.plane n d) x = some |rdot n x - d| :=
  safety_plane_form n d x hn

/-- sphere: | |x − c| − r | -/
theorem safety_sphere (c : Vec3 ℝ) (r2 : ℝ) (x : Vec3 ℝ) (hr : 0 ≤ r2) (hx : dist3 x c ≠ 0) :
    calcSafety (.sphere c r2) x = some |dist3 x c - Real.sqrt r2| := by
  have : nsq (vsub x c) ≠ 0 := by
    intro h0; apply hx; unfold dist3 nrm; rw [h0, Real.sqrt_zero]
  exact safety_sphere_form c r2 x hr this

/-- centred sphere: | |x| − r | -/
theorem safety_sphereCentered (r2 : ℝ) (x : Vec3 ℝ) (hr : 0 ≤ r2) (hx : nrm x ≠ 0) :
    calcSafety (.sphereCentered r2) x = some |nrm x - Real.sqrt r2| := by
  have : nsq x ≠ 0 := by
    intro h0; apply hx; unfold nrm; rw [h0, Real.sqrt_zero]
  exact safety_sphereCentered_form r2 x hr this

/-- centred axis-aligned cylinder: | ρ − r |, ρ = distance from the axis -/
theorem safety_cyl (t : Axis) (r2 : ℝ) (x : Vec3 ℝ) (hr : 0 ≤ r2) (hx : rho2 t x ≠ 0) :
    calcSafety (.cylCentered t r2) x = some |Real.sqrt (rho2 t x) - Real.sqrt r2| :=
  safety_cylCentered_form t r2 x hr hx

/-- `CylAligned` is gated off (`simple_safety() == false` in this code base); the computation
    behind the gate would be the exact distance | ρ − r | as well -/
theorem safety_cylAligned_gated (t : Axis) (ou ov r2 : ℝ) (x : Vec3 ℝ) (hr : 0 ≤ r2)
    (hx : rho2A t ou ov x ≠ 0) :
    calcSafety (.cylAligned t ou ov r2) x = some 0 ∧
    calcSafetyCore (.cylAligned t ou ov r2) x
      = some |Real.sqrt (rho2A t ou ov x) - Real.sqrt r2| :=
  ⟨by simp [calcSafety, simpleSafety], core_cylAligned_form t ou ov r2 x hr hx⟩

/-! ### ★ non-negativity -/

/-- ★ every reported safety (per surface, per volume, per array cell, over all levels) is
    non-negative — for every surface class, every point, no hypothesis -/
theorem safety_nonneg (s : Surface ℝ) (flags : Nat) (faces : List (Surface ℝ))
    (gx gy gz : List ℝ) (v : Nat) (levels : List (Level ℝ)) (x : Vec3 ℝ) :
    ONonneg (calcSafety s x) ∧ ONonneg (volumeSafety flags faces x)
      ∧ ONonneg (rectSafety gx gy gz v x) ∧ ONonneg (findSafety levels x) :=
  ⟨calcSafety_nonneg s x, volumeSafety_nonneg flags faces x, rectSafety_nonneg gx gy gz v x,
    findSafetyFrom_nonneg levels x (fun _ hv => by cases hv)⟩

/-! ### ★ conservativeness -/

/-- ★ the per-surface safety at `x` never exceeds the distance from `x` to any point `y` of
    the surface (all nine surface classes) -/
theorem safety_le_distance_to_surface (s : Surface ℝ) (hw : WellFormed s) (x : Vec3 ℝ)
    (hc : ¬ AtCentre s x) (y : Vec3 ℝ) (hy : s.quadric y = 0) :
    OLe (calcSafety s x) (dist3 x y) :=
  safety_le_dist_surface s hw x hc y hy

/-- ★ if the sense of some face of the volume differs between `x` and `y`, then the volume's
    safety at `x` is at most |x − y| (any flags, any face list, any mix of surface classes) -/
theorem safety_conservative (flags : Nat) (faces : List (Surface ℝ)) (x y : Vec3 ℝ)
    (hw : ∀ s ∈ faces, WellFormed s) (hc : ∀ s ∈ faces, ¬ AtCentre s x)
    (h : ∃ s ∈ faces, s.calcSense x ≠ s.calcSense y) :
    OLe (volumeSafety flags faces x) (dist3 x y) := by
  obtain ⟨s, hs, hne⟩ := h
  exact volumeSafety_le_face flags faces x (dist3_nonneg x y) hs
    (safety_le_of_sense_change s (hw s hs) x y (hc s hs) hne)

/-- hence the open ball of radius `safety` around `x` has constant senses for all faces, i.e.
    lies in one volume (for an infinite safety: the whole space) -/
theorem safety_ball_one_volume (flags : Nat) (faces : List (Surface ℝ)) (x y : Vec3 ℝ)
    (hw : ∀ s ∈ faces, WellFormed s) (hc : ∀ s ∈ faces, ¬ AtCentre s x)
    (hy : ∀ v, volumeSafety flags faces x = some v → dist3 x y < v) :
    ∀ s ∈ faces, s.calcSense y = s.calcSense x := by
  intro s hs
  by_contra hne
  obtain ⟨v, hv, hle⟩ := safety_conservative flags faces x y hw hc ⟨s, hs, fun h => hne h.symm⟩
  exact absurd (hy v hv) (not_lt.mpr hle)

/-- and every ray from `x` (unit direction) travels at least the safety before any face of the
    volume reports an intersection: each distance returned by `calc_intersections` is ≥ safety -/
theorem safety_le_every_intersection (flags : Nat) (faces : List (Surface ℝ)) (x d : Vec3 ℝ)
    (hu : unitDir d) (hw : ∀ s ∈ faces, WellFormed s) (hc : ∀ s ∈ faces, ¬ AtCentre s x)
    (s : Surface ℝ) (hs : s ∈ faces) (t : ℝ)
    (ht : Isect2.mem t (s.calcIntersections x d false)) :
    OLe (volumeSafety flags faces x) t :=
  volumeSafety_le_face flags faces x (isect_nonneg s x d t ht) hs
    (isect_ge_safety s (hw s hs) x (hc s hs) d hu t ht)

/-! ### non-simple surfaces and the volume flag -/

/-- `insert_volume`: the `simple_safety` bit of the stored flags is set iff it was already set
    in the input flags or every face class has `simple_safety()` -/
theorem insert_flag_iff (inFlags : Nat) (faces : List (Surface ℝ)) :
    volSimpleSafety (insertVolumeFlags inFlags faces) = true
      ↔ (volSimpleSafety inFlags = true ∨ ∀ s ∈ faces, simpleSafety s = true) := by
  unfold insertVolumeFlags volSimpleSafety flagSimpleSafety
  by_cases hall : faces.all simpleSafety = true
  · have hs : ∀ s ∈ faces, simpleSafety s = true := by simpa using hall
    simp only [hall, if_true, or4_and4]
    exact ⟨fun _ => Or.inr hs, fun _ => by decide⟩
  · have hs : ¬ ∀ s ∈ faces, simpleSafety s = true := by simpa using hall
    simp only [hall, Bool.false_eq_true, if_false]
    exact ⟨fun h => Or.inl h, fun h => h.resolve_right hs⟩

/-- a surface class without simple safety reports 0; a volume whose flag is not set reports 0;
    a flag computed from faces containing a non-simple class is not set; and even when the flag
    is forced by the input flags, one non-simple face makes the minimum 0 -/
theorem nonsimple_returns_zero (s : Surface ℝ) (flags inFlags : Nat) (faces : List (Surface ℝ))
    (x : Vec3 ℝ) :
    (simpleSafety s = false → calcSafety s x = some 0) ∧
    (volSimpleSafety flags = false → volumeSafety flags faces x = some 0) ∧
    (volSimpleSafety inFlags = false → (∃ f ∈ faces, simpleSafety f = false) →
        volumeSafety (insertVolumeFlags inFlags faces) faces x = some 0) ∧
    ((∃ f ∈ faces, simpleSafety f = false) → volumeSafety flags faces x = some 0) := by
  refine ⟨fun h => by simp [calcSafety, h], volumeSafety_not_simple flags faces x, ?_, ?_⟩
  · intro hin ⟨f, hf, hns⟩
    apply volumeSafety_not_simple
    rw [Bool.eq_false_iff]; intro h
    rcases (insert_flag_iff inFlags faces).mp h with h1 | h1
    · rw [hin] at h1; cases h1
    · rw [h1 f hf] at hns; cases hns
  · intro ⟨f, hf, hns⟩
    apply ole_nonneg_zero _ (volumeSafety_nonneg flags faces x)
    exact volumeSafety_le_face flags faces x le_rfl hf ⟨0, by simp [calcSafety, hns], le_rfl⟩

/-- the excluded point, as the code treats it (any number model, in particular `Float`): when
    the first component of `calc_normal` is NaN — 0·(1/0) at a sphere centre or on the axis of a
    centred cylinder — a simple-safety surface reports +∞ whatever its true distance.  This is
    the branch behind finding `safety-inf-at-center` (replayed on the real code by the check:
    `safety sc 4010000000000000 | 0 0 0` answers 7ff0000000000000, the surface is 2 away). -/
theorem nan_normal_returns_infinity {α : Type} [Num α] (s : Surface α) (x : Vec3 α)
    (hs : simpleSafety s = true) (hnan : isNaN (s.calcNormal x).x = true) :
    calcSafety s x = none := by
  unfold calcSafety calcSafetyCore
  simp [hs, hnan]

/-! ### rectangular arrays and the minimum over levels -/

/-- array cell: crossing one of the cell's finite bounding planes costs at least the safety -/
theorem rect_safety_conservative (gx gy gz : List ℝ) (v : Nat) (p q : Vec3 ℝ)
    (h : rectSeparates gx gy gz v p q) : OLe (rectSafety gx gy gz v p) (dist3 p q) :=
  rectSafety_le gx gy gz v p q h

/-- parent-to-daughter transforms preserve distances (translations; rotations with
    orthonormal matrix) -/
theorem transform_down_isometry (xf : LevelXf ℝ) (h : xf.Iso) (p q : Vec3 ℝ) :
    dist3 (xf.down p) (xf.down q) = dist3 p q :=
  down_dist xf h p q

/-- ★ `find_safety` is conservative at every nesting level: if at ANY level the boundary of
    that level's current volume (a face with a different sense, or a finite array plane)
    separates the local images of `x` and `y`, then the reported safety is at most |x − y| -/
theorem min_over_levels (levels : List (Level ℝ)) (x y : Vec3 ℝ)
    (hiso : ∀ l ∈ levels, l.xf.Iso) (h : SeparatedAtSomeLevel levels x y) :
    OLe (findSafety levels x) (dist3 x y) :=
  findSafetyFrom_le levels none x y hiso h

/-- hence a point strictly closer than the reported safety is separated from `x` at no level -/
theorem find_safety_ball (levels : List (Level ℝ)) (x y : Vec3 ℝ)
    (hiso : ∀ l ∈ levels, l.xf.Iso)
    (hy : ∀ v, findSafety levels x = some v → dist3 x y < v) :
    ¬ SeparatedAtSomeLevel levels x y := by
  intro h
  obtain ⟨v, hv, hle⟩ := min_over_levels levels x y hiso h
  exact absurd (hy v hv) (not_lt.mpr hle)

/-! ### the `find_safety(max_step)` overload (the one Urban MSC calls) -/

/-- exact relation guaranteed by the code as written: the overload ignores `max_step` and
    returns `find_safety()` (every level is visited, no early exit) -/
theorem findSafetyMax_eq (m : ℝ) (levels : List (Level ℝ)) (x : Vec3 ℝ) :
    findSafetyMax m levels x = findSafety levels x := rfl

/-- ★ for EVERY `max_step` the overload is non-negative and conservative at every nesting level
    (in particular whenever the true distance is < `max_step`), and capped at `max_step` it
    agrees with the no-argument overload: min(result, max_step) = min(find_safety(), max_step) -/
theorem findSafetyMax_conservative (m : ℝ) (levels : List (Level ℝ)) (x y : Vec3 ℝ)
    (hiso : ∀ l ∈ levels, l.xf.Iso) (h : SeparatedAtSomeLevel levels x y) :
    OLe (findSafetyMax m levels x) (dist3 x y) ∧ ONonneg (findSafetyMax m levels x)
      ∧ CapEq (findSafetyMax m levels x) (findSafety levels x) m :=
  ⟨min_over_levels levels x y hiso h, findSafetyFrom_nonneg levels x (fun _ hv => by cases hv), rfl⟩

/-- what the consumers need of ANY implementation `r` of the overload (they only compare the
    result against `max_step`): if min(r, max_step) = min(find_safety(), max_step), then `r` is
    conservative for every boundary, at any level, that is closer than `max_step`.  (An
    implementation that skips a level whose boundary is nearer than `max_step` violates the
    premise; the check's oracle evaluates exactly this premise on the real code.) -/
theorem max_overload_contract_suffices (r : Option ℝ) (m : ℝ) (levels : List (Level ℝ))
    (x y : Vec3 ℝ) (hiso : ∀ l ∈ levels, l.xf.Iso) (hcap : CapEq r (findSafety levels x) m)
    (h : SeparatedAtSomeLevel levels x y) (hd : dist3 x y < m) : OLe r (dist3 x y) :=
  capped_conservative r _ m _ hcap (min_over_levels levels x y hiso h) hd

/-! ### `find_safety` after `set_dir` + `move_internal` -/

/-- `find_safety` depends on the stored per-level positions only: evaluated on the
    transform-down chain of a global point it is `findSafety` of that point (so every theorem
    above applies to whatever global point the stored positions are the chain of) -/
theorem find_safety_depends_on_level_positions (levels : List (Level ℝ)) (x : Vec3 ℝ) :
    findSafetyAt levels (levelPositions levels x) = findSafety levels x :=
  findSafetyAtFrom_chain none levels x

/-- ★ `move_internal(t)` (axpy of the stored local direction into the stored local position at
    every level) keeps the per-level positions equal to the transform-down chain of the moved
    global position `x + t·d`, PROVIDED the stored local directions are the rotate-DOWN chain of
    the global direction `d` (what `set_dir` must write; any transform, no orthogonality
    needed).  Hence the safety reported after set_dir + move_internal is the safety of the
    moved global point. -/
theorem move_internal_keeps_level_positions (levels : List (Level ℝ)) (t : ℝ) (d x : Vec3 ℝ) :
    moveInternal t (levelDirections levels d) (levelPositions levels x)
        = levelPositions levels (Vec3.axpy t d x)
    ∧ findSafetyAt levels (moveInternal t (levelDirections levels d) (levelPositions levels x))
        = findSafety levels (Vec3.axpy t d x) := by
  have h := moveInternal_chain levels t d x
  exact ⟨h, by rw [h]; exact findSafetyAtFrom_chain none levels _⟩

/-! ### tie to the current source text (Generated/SafetySource.lean) -/

/-- the model's per-class `simple_safety()` table is the one written in src/orange/surf/*.hh -/
theorem simple_safety_table_matches_source (s : Surface ℝ) :
    simpleSafety s = generatedSimple s := by
  cases s <;> rfl

/-- every consumer call site of `find_safety` under src/celeritas and src/accel passes exactly
    one argument, i.e. calls the `max_step` overload, and that overload forwards to
    `find_safety()` (body pattern-checked by the translator) -/
theorem consumers_call_max_overload :
    (∀ c ∈ Generated.Safety.consumerCalls, c.2.2.1 = 1) ∧ Generated.Safety.consumerCalls ≠ []
      ∧ Generated.Safety.findSafetyMaxForwards = true := by
  refine ⟨by decide, by decide, rfl⟩

/-! ### non-vacuity -/

-- a unit-normal plane, a sphere with r² ≥ 0
example : WellFormed (.plane (⟨0, 1, 0⟩ : Vec3 ℝ) 2) := by
  show nsq _ = 1; unfold nsq; norm_num
example : WellFormed (.sphere (⟨1, 2, 3⟩ : Vec3 ℝ) 4) := by show (0 : ℝ) ≤ 4; norm_num
-- a point that is not the centre
example : ¬ AtCentre (.sphere (⟨1, 2, 3⟩ : Vec3 ℝ) 4) ⟨1, 2, 4⟩ := by
  show ¬ nsq _ = 0; unfold nsq vsub; norm_num
example : dist3 (⟨1, 2, 4⟩ : Vec3 ℝ) ⟨1, 2, 3⟩ ≠ 0 := by
  unfold dist3 nrm nsq vsub; norm_num
example : rho2 .z (⟨1, 0, 5⟩ : Vec3 ℝ) ≠ 0 := by unfold rho2; vec_simp; norm_num
-- a point on a surface, and two points with different senses
example : (Surface.sphereCentered (4 : ℝ)).quadric ⟨2, 0, 0⟩ = 0 := by
  simp only [Surface.quadric, Vec3R.dot_real]; num_simp; norm_num
example : ∃ s ∈ [Surface.sphereCentered (4 : ℝ), Surface.planeAligned .x 1],
    s.calcSense (⟨0.5, 0, 0⟩ : Vec3 ℝ) ≠ s.calcSense ⟨3, 0, 0⟩ := by
  refine ⟨Surface.sphereCentered 4, by simp, ?_⟩
  rw [calcSense_neg (by simp only [Surface.quadric, Vec3R.dot_real]; num_simp; norm_num),
    calcSense_pos (by simp only [Surface.quadric, Vec3R.dot_real]; num_simp; norm_num)]
  simp
-- the closed form is attained: inside a radius-2 sphere, 0.5 from the centre, safety 1.5
example : calcSafety (.sphereCentered (4 : ℝ)) ⟨0.5, 0, 0⟩ = some 1.5 := by
  have h := safety_sphereCentered 4 ⟨0.5, 0, 0⟩ (by norm_num)
    (by unfold nrm nsq; norm_num)
  rw [h]
  have e1 : nrm (⟨0.5, 0, 0⟩ : Vec3 ℝ) = 0.5 := by
    unfold nrm nsq
    rw [show ((0.5 : ℝ) * 0.5 + 0 * 0 + 0 * 0) = 0.5 * 0.5 by ring,
      Real.sqrt_mul_self (by norm_num)]
  have e2 : Real.sqrt (4 : ℝ) = 2 := by
    rw [show (4 : ℝ) = 2 * 2 by norm_num, Real.sqrt_mul_self (by norm_num)]
  rw [e1, e2, abs_of_neg (by norm_num)]; norm_num
-- an intersection exists along a unit direction
example : unitDir (⟨1, 0, 0⟩ : Vec3 ℝ) := by unfold unitDir; norm_num
-- a rotation by 90° about z is an isometric level transform
example : (LevelXf.transformation
    (⟨⟨⟨0, -1, 0⟩, ⟨1, 0, 0⟩, ⟨0, 0, 1⟩⟩, ⟨1, 2, 3⟩⟩ : Transformation ℝ)).Iso := by
  show Mat3.orthoRows _; unfold Mat3.orthoRows; norm_num
-- a two-level geometry in which the inner level's sphere separates two points
example : SeparatedAtSomeLevel
    [⟨.noTransformation, .unit 4 [Surface.planeAligned .x 10]⟩,
     ⟨.translation ⟨1, 0, 0⟩, .unit 4 [Surface.sphereCentered (4 : ℝ)]⟩]
    (⟨1.5, 0, 0⟩ : Vec3 ℝ) ⟨4, 0, 0⟩ := by
  right; left
  refine ⟨?_, Surface.sphereCentered 4, by simp, ?_⟩
  · intro s hs
    simp only [List.mem_singleton] at hs; subst hs
    refine ⟨by show (0 : ℝ) ≤ 4; norm_num, ?_⟩
    show ¬ nsq _ = 0
    simp only [LevelXf.down, translateDown, Vec3.sub]; unfold nsq; num_simp; norm_num
  · rw [calcSense_neg (by
        simp only [LevelXf.down, translateDown, Vec3.sub, Surface.quadric, Vec3R.dot_real]
        num_simp; norm_num),
      calcSense_pos (by
        simp only [LevelXf.down, translateDown, Vec3.sub, Surface.quadric, Vec3R.dot_real]
        num_simp; norm_num)]
    simp
-- an array cell with a finite plane between two points
example : rectSeparates [0, 1, 2] [0, 1] [0, 1] 0 (⟨0.5, 0.5, 0.5⟩ : Vec3 ℝ) ⟨1.5, 0.5, 0.5⟩ := by
  unfold rectSeparates
  refine ⟨1, Or.inl ⟨Or.inr ?_, ?_⟩⟩
  · simp [rectTarget, rectCoords]
  · unfold crossesPlane; vec_simp; norm_num
-- the NaN hypothesis is satisfiable in a number model whose `==` can fail on equal operands
-- (IEEE: NaN ≠ NaN); the all-NaN one-point model:
example : ∃ (inst : Num Unit), @isNaN Unit inst () = true :=
  ⟨{ add := fun _ _ => (), sub := fun _ _ => (), mul := fun _ _ => (), div := fun _ _ => (),
     neg := id, abs := id, sqrt := id, exp := id, log := id, sin := id, cos := id,
     fma := fun _ _ _ => (), lt := fun _ _ => false, le := fun _ _ => false,
     eq := fun _ _ => false, ofNat := fun _ => (), ofSci := fun _ _ _ => (), inf := () }, rfl⟩
-- a capped agreement with a finite full safety below the cap
example : CapEq (some 1) (some 1) 5 := rfl
example : ¬ CapEq (some 8.695) (some 1) 5 := by
  unfold CapEq; rw [fminO_some, fminO_some]
  simp only [Option.some.injEq]
  rw [min_eq_right (by norm_num), min_eq_left (by norm_num)]; norm_num
-- a volume with a cone face
example : ∃ f ∈ [Surface.coneAligned .z (⟨0, 0, 0⟩ : Vec3 ℝ) 1, Surface.sphereCentered 4],
    simpleSafety f = false := ⟨Surface.coneAligned .z ⟨0, 0, 0⟩ 1, by simp, rfl⟩

end CelerVerif.Safety
