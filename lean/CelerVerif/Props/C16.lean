/-
C16 — running out of secondary or initializer storage never corrupts or loses physics.
Property theorems only.  Models: Model/Stack.lean (StackAllocator.hh as written, sequential and
interleaved; InteractionApplier.hh) and Model/TrackInit.lean (capacity checks of
ExtendFromSecondariesAction / ExtendFromPrimariesAction, shared with C02).
-/
import CelerVerif.Lemmas.Stack
import CelerVerif.Lemmas.StackInterleave6
import CelerVerif.Lemmas.StackFailureAction
import CelerVerif.Lemmas.TrackInitStep
import CelerVerif.Lemmas.TrackInitLivelock
import CelerVerif.Lemmas.TrackInitFirstReq

namespace CelerVerif.Stack

/-- ★ C16.1 a request that does not fit returns null and leaves the size unchanged (the
    fetch-add is undone), for every state satisfying the allocator invariant `size ≤ cap`.
    `size + n < 2^32` is the no-wrap hypothesis on `size_type`. -/
theorem alloc_fail_restores (s : Stack) (n : Nat) (hinv : s.size ≤ s.cap)
    (hw : s.size + n < W) (hfull : s.size + n > s.cap) : alloc n s = (none, s) := by
  unfold alloc
  simp [Nat.mod_eq_of_lt hw, hfull, hinv]

/-- a request that fits returns the old size as start, the range `[start, start+n)` lies
    within the capacity, the size grows by exactly `n`, everything below `start` (the data of
    earlier allocations) is untouched and the new range holds default-constructed elements -/
theorem alloc_ok (s : Stack) (n : Nat) (hw : s.size + n < W) (hfit : s.size + n ≤ s.cap) :
    ∃ s', alloc n s = (some s.size, s') ∧ s'.size = s.size + n ∧ s'.cap = s.cap ∧
      s'.size ≤ s'.cap ∧ s'.storage.length = s.storage.length ∧
      s'.storage.take s.size = s.storage.take s.size ∧
      ∀ i, s.size ≤ i → i < s.size + n → i < s.storage.length → s'.storage[i]? = some dflt := by
  unfold alloc
  have h1 : ¬ (s.size + n) % W > s.cap := by rw [Nat.mod_eq_of_lt hw]; omega
  simp only [h1, if_false]
  refine ⟨_, rfl, ?_, rfl, ?_, ?_, ?_, ?_⟩
  · simp [Nat.mod_eq_of_lt hw]
  · simp [Nat.mod_eq_of_lt hw]; exact hfit
  · simp [initRange_length]
  · simp [initRange_take]
  · intro i h1 h2 h3
    simp [initRange_getElem?, h1, h2, h3]

/-- the allocator invariant `size ≤ cap` is preserved by every `alloc` (success or failure) -/
theorem alloc_preserves_inv (s : Stack) (n : Nat) (hinv : s.size ≤ s.cap)
    (hw : s.size + n < W) : (alloc n s).2.size ≤ (alloc n s).2.cap ∧ (alloc n s).2.cap = s.cap := by
  simp only [alloc, Nat.mod_eq_of_lt hw]
  by_cases h : s.size + n > s.cap
  · simp [h, hinv]
  · simp [h]; omega

/-- ★ C16.2 (sequential form) for every sequence of requests served from a state satisfying
    the invariant: every successful range lies in `[size₀, cap)`, successful ranges are
    pairwise disjoint, the final size is `size₀ +` the granted total and is `≤ cap`. -/
theorem runAllocs_spec (ns : List Nat) (s : Stack) (hinv : s.size ≤ s.cap) (hcap : s.cap < W)
    (hn : ∀ n ∈ ns, n < W - s.cap) :
    let r := runAllocs ns s
    r.2.size = s.size + granted r.1 ∧ r.2.size ≤ s.cap ∧ r.2.cap = s.cap ∧
    (∀ x ∈ r.1, ∀ a, x.1 = some a → s.size ≤ a ∧ a + x.2 ≤ r.2.size) ∧
    r.1.Pairwise (fun x y => ∀ a b, x.1 = some a → y.1 = some b → a + x.2 ≤ b) := by
  induction ns generalizing s with
  | nil => simp [runAllocs, granted, hinv]
  | cons n ns ih =>
    have hnW : n < W - s.cap := hn n (by simp)
    have hw : s.size + n < W := by omega
    simp only [runAllocs]
    by_cases hfit : s.size + n ≤ s.cap
    · obtain ⟨s', he, hs1, hs2, hs3, -, -, -⟩ := alloc_ok s n hw hfit
      have ih' := ih s' hs3 (by omega) (by
        intro m hm; rw [hs2]; exact hn m (by simp [hm]))
      rw [he]
      simp only at ih' ⊢
      obtain ⟨i1, i2, i3, i4, i5⟩ := ih'
      refine ⟨?_, ?_, ?_, ?_, ?_⟩
      · simp [granted, i1, hs1]; omega
      · omega
      · omega
      · intro x hx a ha
        simp only [List.mem_cons] at hx
        rcases hx with rfl | hx
        · simp at ha; subst ha
          simp; omega
        · have := i4 x hx a ha; omega
      · rw [List.pairwise_cons]
        refine ⟨?_, i5⟩
        intro y hy a b ha hb
        simp at ha; subst ha
        have := i4 y hy b hb
        simp; omega
    · have he := alloc_fail_restores s n hinv hw (by omega)
      rw [he]
      have ih' := ih s hinv hcap (by intro m hm; exact hn m (by simp [hm]))
      simp only at ih' ⊢
      obtain ⟨i1, i2, i3, i4, i5⟩ := ih'
      refine ⟨?_, i2, i3, ?_, ?_⟩
      · simp [granted, i1]
      · intro x hx a ha
        simp only [List.mem_cons] at hx
        rcases hx with rfl | hx
        · simp at ha
        · exact i4 x hx a ha
      · rw [List.pairwise_cons]
        refine ⟨?_, i5⟩
        intro y _ a b ha
        simp at ha

/-- ★ C16.2 (concurrent form) `interleaved_allocs_disjoint`: any number of threads, each
    executing `atomic fetch-add`, `capacity check`, `restoring store` as separate atomic steps
    (a thread issuing several requests is several such threads under a restricted schedule), for
    EVERY schedule, starting from `size₀ ≤ cap`, under the explicit no-wrap hypothesis
    `size₀ + Σ requests < 2^32`:
    * ranges of two different successful threads never overlap (also in every transient state —
      the statement holds after every prefix of every schedule, in particular while a failing
      thread's restoring store is still pending or has just happened);
    * every successful range lies in `[size₀, cap)`;
    * at quiescence `size = size₀ + Σ successful requests ≤ cap`. -/
theorem interleaved_allocs_disjoint (s0 : Sys) (hinit : ∀ t ∈ s0.threads, t.pc = .init)
    (hsz : s0.size ≤ s0.cap) (hW : s0.size + total s0.threads < W) (sch : List Nat) :
    (∀ (i j : Nat) (ti tj : Thread) (a b : Nat), i ≠ j →
      (run s0 sch).threads[i]? = some ti → (run s0 sch).threads[j]? = some tj →
      ti.pc = .ok a → tj.pc = .ok b → a + ti.n ≤ b ∨ b + tj.n ≤ a) ∧
    (∀ t ∈ (run s0 sch).threads, ∀ a, t.pc = .ok a → s0.size ≤ a ∧ a + t.n ≤ s0.cap) ∧
    (quiescent (run s0 sch) = true →
      (run s0 sch).size = s0.size + ((run s0 sch).threads.map okN).sum ∧
      (run s0 sch).size ≤ s0.cap) :=
  interleaved_main s0 hinit hsz hW sch

/-- the sequential allocator is the interleaving semantics under the schedule "three steps of
    the same thread in a row" -/
theorem alloc_eq_three_steps (cap size n : Nat) (hinv : size ≤ cap) (hw : size + n < W) :
    let s := run ⟨cap, size, [⟨n, .init⟩]⟩ [0, 0, 0]
    s.size = (alloc n ⟨cap, size, []⟩).2.size ∧
    (match (alloc n ⟨cap, size, []⟩).1 with
     | some a => s.threads = [⟨n, .ok a⟩]
     | none => s.threads = [⟨n, .failed⟩]) := by
  simp only [run, List.foldl, sched, stepThread, alloc, Nat.mod_eq_of_lt hw]
  by_cases h : size + n > cap
  · simp [h, hinv, Nat.mod_eq_of_lt hw]
  · simp [h, Nat.mod_eq_of_lt hw]

/-- ★ C16.3 a failed interaction (allocation failure inside the interactor) changes nothing
    of the physics: energy, direction, status, energy deposition, secondaries and the size of
    the secondary stack are unchanged; only the step limit/post-step action may be set. -/
theorem failed_interaction_is_noop {α} [Add α] [OfNat α 0] (lt : α → α → Bool) (fa : Nat)
    (cut : Bool) (below : Sec α → Bool) (r : Interaction α) (t : Track α)
    (hf : r.action = .failed) :
    let t' := applyInteraction lt fa cut below r t
    t'.energy = t.energy ∧ t'.dir = t.dir ∧ t'.status = t.status ∧ t'.deposit = t.deposit ∧
    t'.secondaries = t.secondaries ∧ t'.allocSize = t.allocSize ∧
    (t'.postAction = fa ∨ t'.postAction = t.postAction) := by
  unfold applyInteraction
  simp only [hf, if_true]
  by_cases h : lt 0 t.stepLen = true <;> simp [h]

/-- the failure action is selected (and the step length zeroed) exactly when the step already
    taken has positive length; then the track is handed to the failure action. -/
theorem failed_interaction_sets_action {α} [Add α] [OfNat α 0] (lt : α → α → Bool) (fa : Nat)
    (cut : Bool) (below : Sec α → Bool) (r : Interaction α) (t : Track α)
    (hf : r.action = .failed) (hpos : lt 0 t.stepLen = true) :
    (applyInteraction lt fa cut below r t).postAction = fa ∧
    (applyInteraction lt fa cut below r t).stepLen = 0 := by
  unfold applyInteraction
  simp [hf, hpos]

/-- the action a failed interaction is handed to is THE action registered under the label
    `physics-failure`: with `failureAction` instantiated by the id that
    `PhysicsParamsScalars::failure_action()` computes (expression regenerated from
    PhysicsData.hh) and the registry laid out in the registration order of the PhysicsParams
    constructor (regenerated from PhysicsParams.cc: the models, then `physics-failure`), the
    label found at the track's post-step action is "physics-failure" — for every number of
    earlier actions and of models — and that id is not the id of any model, so no other model's
    kernel picks the track up in the same step. -/
theorem failed_interaction_goes_to_failure_action {α} [Add α] [OfNat α 0] (lt : α → α → Bool)
    (before models later : List String) (cut : Bool) (below : Sec α → Bool)
    (r : Interaction α) (t : Track α) (hf : r.action = .failed) (hpos : lt 0 t.stepLen = true) :
    let t' := applyInteraction lt (failureActionAsCoded before.length models.length) cut below r t
    (registryLabels before models later)[t'.postAction]? = some "physics-failure" ∧
    ¬ (before.length ≤ t'.postAction ∧ t'.postAction < before.length + models.length) ∧
    t'.energy = t.energy ∧ t'.dir = t.dir ∧ t'.status = t.status ∧
    t'.secondaries = t.secondaries := by
  have h1 := failed_interaction_sets_action lt
    (failureActionAsCoded before.length models.length) cut below r t hf hpos
  have h2 := failed_interaction_is_noop lt
    (failureActionAsCoded before.length models.length) cut below r t hf
  simp only at h2 ⊢
  rw [h1.1]
  exact ⟨failure_action_label before models later, failure_action_not_a_model _ _,
    h2.1, h2.2.1, h2.2.2.1, h2.2.2.2.2.1⟩

/-- `Stepper::operator()(primaries)` validates the event ids with a STRICT comparison against
    `max_events` (operator regenerated from Stepper.cc), as modelled in `stepWith` -/
theorem event_check_is_strict : Generated.PhysicsActions.eventCheckOp = "<" := by decide

/-- ★ event ids are checked first: a call with some event id ≥ max_events is refused with the
    `max_events` error and the state is untouched — `track_counters[event]` is never indexed;
    and a call is refused for that reason only then. -/
theorem event_id_checked_first (ps : List TrackInit.Primary) (o : List TrackInit.Outcome)
    (s : TrackInit.State) :
    ((∃ p ∈ ps, s.cfg.maxEvents ≤ p.ev) ↔ TrackInit.stepWith ps o s = .error (.maxEvents, s)) ∧
    (∀ s', TrackInit.stepWith ps o s = .ok s' → ∀ p ∈ ps, p.ev < s.cfg.maxEvents) := by
  by_cases h : ∀ p ∈ ps, p.ev < s.cfg.maxEvents
  · have hall := (TrackInit.events_all ps).mpr h
    refine ⟨⟨?_, ?_⟩, fun _ _ => h⟩
    · intro ⟨p, hp, hge⟩; have := h p hp; omega
    · intro he
      unfold TrackInit.stepWith at he
      rw [if_neg (by rw [hall]; simp)] at he
      cases hi : TrackInit.insertPrimaries ps s with
      | error e =>
        rw [hi] at he
        simp only at he
        injection he with he; injection he with he1 _
        subst he1
        -- insert never reports the max_events error
        unfold TrackInit.insertPrimaries at hi
        split at hi
        · cases hi
        · split at hi <;> cases hi
      | ok s1 =>
        rw [hi] at he
        simp only at he
        -- a step error carries the capacity code
        unfold TrackInit.step TrackInit.extendFromSecondaries at he
        simp only at he
        split at he
        · injection he with he; injection he with he1 _; cases he1
        · cases he
  · have hb := TrackInit.stepWith_bad_event ps o s h
    refine ⟨⟨fun _ => hb, fun _ => ?_⟩, fun s' hs' => by rw [hb] at hs'; cases hs'⟩
    apply Classical.byContradiction
    intro hne
    apply h
    intro p hp
    apply Classical.byContradiction
    intro hlt
    exact hne ⟨p, hp, by omega⟩

/-- every `make_track_id` ever executed in a reachable run indexed `track_counters` in bounds -/
theorem track_counter_in_bounds {cfg : TrackInit.Cfg} {s : TrackInit.State}
    (h : TrackInit.Reachable cfg s) : ∀ r ∈ s.created, r.ev < s.trackCounters.length :=
  fun r hr => ((TrackInit.inv_of_reachable (TrackInit.itSpec_all cfg) h).core.below r hr).1

/-- ★ C16.4 capacity_checked_first (end-of-step action): when the new secondaries do not fit
    in the initializer storage, `ExtendFromSecondariesAction` reports the capacity error and has
    written no slot, no initializer, no track counter and no parent entry — for both track
    orders, every slot count and every per-step outcome (shared with C02). -/
theorem capacity_checked_first {cfg : TrackInit.Cfg} {s : TrackInit.State}
    (hL : TrackInit.Lens cfg s) (hC : TrackInit.Core s s.c.numInitializers)
    (hend : ∀ x ∈ s.slots, x.endOk) (e : TrackInit.Err) (s' : TrackInit.State)
    (h : TrackInit.extendFromSecondaries s = .error (e, s')) :
    e = .capacity ∧ s'.slots = s.slots ∧ s'.initializers = s.initializers ∧
    s'.trackCounters = s.trackCounters ∧ s'.parents = s.parents ∧
    s.c.numInitializers + TrackInit.prefixQ cfg.order s.slots cfg.slots > cfg.capacity ∧
    TrackInit.Lens cfg s' := by
  have := TrackInit.efs_spec hL hC hend
  rw [h] at this
  exact ⟨this.1, this.2.slots, this.2.inits, this.2.ctrs, this.2.parents, this.2.over, this.2.lens⟩

/-- and conversely the error is raised only when the storage is really exceeded -/
theorem capacity_error_only_if_full {cfg : TrackInit.Cfg} {s : TrackInit.State}
    (hL : TrackInit.Lens cfg s) (hC : TrackInit.Core s s.c.numInitializers)
    (hend : ∀ x ∈ s.slots, x.endOk)
    (hfit : s.c.numInitializers + TrackInit.prefixQ cfg.order s.slots cfg.slots ≤ cfg.capacity) :
    ∃ s', TrackInit.extendFromSecondaries s = .ok s' ∧ TrackInit.EFSOk cfg s s' := by
  have := TrackInit.efs_spec hL hC hend
  cases h : TrackInit.extendFromSecondaries s with
  | ok s' => rw [h] at this; exact ⟨s', rfl, this⟩
  | error p =>
    obtain ⟨e, s'⟩ := p
    rw [h] at this
    have := this.2.over
    omega

/-- ★ capacity_checked_first, boundary case stated as an equivalence: the end-of-step action
    reports the capacity error IF AND ONLY IF queued + new secondaries EXCEEDS the capacity; at
    requirement = capacity (and below) it succeeds with all guarantees of `EFSOk`.  So an error
    at requirement ≤ capacity, or success at requirement > capacity, contradicts the model
    (impl-side oracle keys capacity-error-without-overflow / capacity-overflow-not-detected). -/
theorem capacity_error_iff {cfg : TrackInit.Cfg} {s : TrackInit.State}
    (hL : TrackInit.Lens cfg s) (hC : TrackInit.Core s s.c.numInitializers)
    (hend : ∀ x ∈ s.slots, x.endOk) :
    (∃ e s', TrackInit.extendFromSecondaries s = .error (e, s')) ↔
      s.c.numInitializers + TrackInit.prefixQ cfg.order s.slots cfg.slots > cfg.capacity := by
  constructor
  · intro ⟨e, s', h⟩
    exact (capacity_checked_first hL hC hend e s' h).2.2.2.2.2.1
  · intro hover
    cases h : TrackInit.extendFromSecondaries s with
    | error p => exact ⟨p.1, p.2, rfl⟩
    | ok s' =>
      have := TrackInit.efs_spec hL hC hend
      rw [h] at this
      have h1 := this.ninit
      have h2 := this.core.ni_le
      rw [this.lens.inits] at h2
      omega

/-- the same equivalence for `ExtendFromPrimariesAction::insert`: the capacity error is raised
    if and only if queued + primaries exceeds the capacity (then nothing is touched) -/
theorem insert_capacity_error_iff (ps : List TrackInit.Primary) (s : TrackInit.State) :
    TrackInit.insertPrimaries ps s = .error .capacity ↔
      ps.length + s.c.numInitializers > s.cfg.capacity := by
  unfold TrackInit.insertPrimaries
  constructor
  · intro h
    split at h
    · omega
    · split at h <;> cases h
  · intro h
    rw [if_pos (by omega)]

/-- ★ C16.5 reset_reestablishes_invariant: after `CoreState::reset` of the state left by the
    failed step the C02 invariant holds with all slots inactive, so later events run as from a
    fresh state. -/
theorem reset_after_error {cfg : TrackInit.Cfg} {s s' : TrackInit.State} {e : TrackInit.Err}
    (hL : TrackInit.Lens cfg s) (hC : TrackInit.Core s s.c.numInitializers)
    (hend : ∀ x ∈ s.slots, x.endOk) (hp : s.pending = [])
    (h : TrackInit.extendFromSecondaries s = .error (e, s')) :
    TrackInit.Inv cfg (TrackInit.reset s') := by
  have := TrackInit.efs_spec hL hC hend
  rw [h] at this
  have hp' : s'.pending = [] := by
    have : s'.pending = s.pending := by
      unfold TrackInit.extendFromSecondaries at h
      simp only at h
      split at h
      · injection h with h; injection h with _ h2; rw [← h2]
      · cases h
    rw [this, hp]
  -- proof of the invariant of a reset state from array sizes only
  have hL' := this.2.lens
  have hsl : ∀ x ∈ (TrackInit.reset s').slots, x.active = false := by
    intro x hx
    simp only [TrackInit.reset, List.mem_map] at hx
    obtain ⟨y, _, rfl⟩ := hx
    simp [TrackInit.Slot.active]
  have hlive : TrackInit.liveL (TrackInit.reset s').slots = [] := by
    unfold TrackInit.liveL
    rw [List.filter_eq_nil_iff.mpr (fun x hx => by simp [hsl x hx])]; rfl
  have hlen : (TrackInit.reset s').slots.length = cfg.slots := by
    simp [TrackInit.reset, hL'.slots]
  refine ⟨⟨hL'.cfg_eq, hlen, hL'.inits, hL'.parents, hL'.secCounts, hL'.counters⟩, ?_, ?_, ?_, ?_,
    ?_, hp', ?_⟩
  · refine ⟨by simp [TrackInit.reset], by intro r hr; simp [TrackInit.reset] at hr,
      by simp [TrackInit.reset], ?_, ?_, by intro r hr; simp [TrackInit.reset] at hr, ?_⟩
    · intro r; simp [TrackInit.reset, TrackInit.pendL]
    · intro r; rw [hlive]; simp [TrackInit.reset]
    · intro x hx hxa; rw [hsl x hx] at hxa; cases hxa
  · simp [TrackInit.reset]
  · show List.range s'.cfg.slots = _
    rw [hL'.cfg_eq]
    symm
    apply List.filter_eq_self.mpr
    intro i hi
    have hi' : i < (TrackInit.reset s').slots.length := by rw [hlen]; simpa using hi
    rw [TrackInit.getD_getElem _ _ _ hi', hsl _ (List.getElem_mem hi')]; rfl
  · simp [TrackInit.reset]
  · intro x hx
    have := hsl x hx
    left
    simp [TrackInit.Slot.active] at this; exact this
  · rw [hlive]; simp [TrackInit.reset, hL'.cfg_eq]

/-- if every interaction of a step asks for more secondaries than the whole stack holds
    (capacity < request, e.g. slots·stack_factor = 1 and an at-rest annihilation needing 2),
    every allocation fails, every interaction becomes `failed` (track alive, no secondaries) and
    the allocator is exactly as the pre-step left it -/
theorem starved_requests_all_fail (xs : List TrackInit.Slot) (rs : List TrackInit.Request)
    (stk : Stack) (hs : stk.size ≤ stk.cap) (hst : TrackInit.Starved stk.cap rs) :
    (∀ o ∈ (TrackInit.effectiveOutcomes xs rs stk).1, o = ⟨.alive, []⟩) ∧
    (TrackInit.effectiveOutcomes xs rs stk).2.2 = stk :=
  TrackInit.effGo_starved 0 xs rs stk hs hst

/-- ✗ FINDING (negation of "the event still completes"): LIVELOCK.  From any reachable state
    with an empty queue, as long as every interaction asks for more secondaries than the
    secondary stack can hold, Stepper calls of ANY number succeed (no error is raised) and
    leave the number of living tracks and the empty queue unchanged: the failed-interaction
    step maps the configuration to itself (only the step counters advance), so with at least
    one living track `alive = 0` is never reached.  Replayed on the real code by
    tools/checks/c16.py (key secondary-stack-smaller-than-one-interaction-livelock). -/
theorem starved_stack_livelock {cfg : TrackInit.Cfg} {s : TrackInit.State}
    (h : TrackInit.Reachable cfg s) (hq : s.c.numInitializers = 0) (stk : Stack)
    (rss : List (List TrackInit.Request)) (hst : ∀ rs ∈ rss, TrackInit.Starved stk.cap rs) :
    (∃ s', TrackInit.ReqRuns s stk rss s') ∧
    (∀ s', TrackInit.ReqRuns s stk rss s' →
      (TrackInit.liveL s'.slots).length = (TrackInit.liveL s.slots).length ∧
      s'.c.numInitializers = 0) :=
  TrackInit.starved_runs rss s stk
    (TrackInit.inv_of_reachable (TrackInit.itSpec_all cfg) h) hq hst

/-- one livelocked Stepper call in detail: it succeeds, reports `alive` = the previous number
    of living tracks and `queued = 0`, and returns the allocator empty -/
theorem starved_step_is_fixed_point {cfg : TrackInit.Cfg} {s : TrackInit.State}
    (h : TrackInit.Reachable cfg s) (hq : s.c.numInitializers = 0) (stk : Stack)
    (reqs : List TrackInit.Request) (hst : TrackInit.Starved stk.cap reqs) :
    ∃ s', TrackInit.stepReq reqs s stk = (.ok s', clear stk) ∧ TrackInit.Inv cfg s' ∧
      s'.c.numInitializers = 0 ∧
      (TrackInit.liveL s'.slots).length = (TrackInit.liveL s.slots).length ∧
      (TrackInit.result s').alive = (TrackInit.liveL s.slots).length ∧
      (TrackInit.result s').queued = 0 :=
  TrackInit.starved_step (TrackInit.inv_of_reachable (TrackInit.itSpec_all cfg) h) hq reqs hst

/-- the side condition under which an interaction is always carried out: if the secondary stack
    (cleared at every pre-step) can hold the request of ONE interaction — capacity ≥ the largest
    number of secondaries a single interaction asks for — then in every step the first track
    (in slot order) that asks for secondaries gets them and its interaction is applied as
    sampled, whatever the later tracks ask for; a step in which all interactions fail is then
    impossible.  (Completion of the whole event additionally needs the physics assumption of
    C02 `liveness_*`: tracks die after finitely many carried-out interactions.) -/
theorem first_request_succeeds (xs1 : List TrackInit.Slot) (rs1 : List TrackInit.Request)
    (x : TrackInit.Slot) (r : TrackInit.Request) (xs2 : List TrackInit.Slot)
    (rs2 : List TrackInit.Request) (stk : Stack) (hlen : xs1.length = rs1.length)
    (hpre : ∀ p ∈ List.zip xs1 rs1, TrackInit.NonAlloc p.1 p.2)
    (hx : ¬ (x.status = .inactive ∨ x.status = .errored))
    (hk : r.kind = .scatter ∨ r.kind = .absorb) (hne : r.secs ≠ [])
    (hfit : r.secs.length ≤ stk.cap) (hw : r.secs.length < W) :
    xs1.length ∉ (TrackInit.effectiveOutcomes (xs1 ++ x :: xs2) (rs1 ++ r :: rs2) (clear stk)).2.1 ∧
    (TrackInit.effectiveOutcomes (xs1 ++ x :: xs2) (rs1 ++ r :: rs2) (clear stk)).1[xs1.length]?
      = some ⟨if r.kind = .absorb then .killed else .alive, r.secs⟩ := by
  have := TrackInit.first_request_succeeds xs1 rs1 x r xs2 rs2 (clear stk) 0 hlen hpre hx hk hne
    (by simp [clear]; exact hfit) (by simp [clear]; exact hw)
  simpa [TrackInit.effectiveOutcomes] using this

/-! non-vacuity -/
-- the finding's configuration: capacity 1, every track's interaction needs 2 secondaries
example : TrackInit.Starved 1 [⟨.absorb, [⟨true, 0⟩, ⟨true, 0⟩]⟩, ⟨.absorb, [⟨true, 0⟩, ⟨true, 0⟩]⟩] := by
  intro r hr
  simp at hr
  subst hr
  exact ⟨Or.inr rfl, by decide, by decide⟩
-- capacity 10: thread 0 gets [0,8), thread 1 (5) crosses the capacity, thread 2 (1) fails while
-- thread 1's restore is pending, thread 1 restores, thread 3 (2) then still fits: [8,10)
example : run ⟨10, 0, [⟨8, .init⟩, ⟨5, .init⟩, ⟨1, .init⟩, ⟨2, .init⟩]⟩
    [0, 1, 2, 1, 2, 0, 1, 3, 3] =
    ⟨10, 10, [⟨8, .ok 0⟩, ⟨5, .failed⟩, ⟨1, .failed⟩, ⟨2, .ok 8⟩]⟩ := by decide
example : alloc 9 ⟨16, 8, List.replicate 16 0⟩ = (none, ⟨16, 8, List.replicate 16 0⟩) :=
  alloc_fail_restores _ _ (by decide) (by decide) (by decide)
example : (alloc 8 ⟨16, 8, List.replicate 16 0⟩).1 = some 8 := by decide
example : (runAllocs [8, 9, 8, 1] (Stack.new 16)).1 = [(some 0, 8), (none, 9), (some 8, 8), (none, 1)] := by
  decide
example : (applyInteraction (α := Nat) (fun a b => decide (a < b)) 7 true (fun _ => true)
    ⟨.failed, 0, (0, 0, 0), 0, []⟩ ⟨5, (1, 0, 0), .alive, 2, [], 3, 1, 4⟩).postAction = 7 := by decide

end CelerVerif.Stack
