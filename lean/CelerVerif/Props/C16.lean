/-
C16 — running out of secondary or initializer storage never corrupts or loses physics.
Property theorems only.  Models: Model/Stack.lean (StackAllocator.hh as written, sequential and
interleaved; InteractionApplier.hh) and Model/TrackInit.lean (capacity checks of
ExtendFromSecondariesAction / ExtendFromPrimariesAction, shared with C02).
-/
import CelerVerif.Lemmas.Stack

namespace CelerVerif.Stack

/-- ★ C16.1 a request that does not fit returns null and leaves the size unchanged (the
    fetch-add is undone), for every state satisfying the allocator invariant `size ≤ cap`.
    `size + n < 2^32` is the no-wrap hypothesis on `size_type`. -/
theorem alloc_fail_restores (s : Stack) (n : Nat) (hinv : s.size ≤ s.cap)
    (hw : s.size + n < W) (hfull : s.size + n > s.cap) : alloc n s = (none, s) := by
  unfold alloc
  simp [Nat.mod_eq_of_lt hw, hfull, hinv]

/-- a request that fits returns the old size as start, the range `[start, start+n)` lies
    within the capacity, the size grows by exactly `n`, everything below `start` (the data of
    earlier allocations) is untouched and the new range holds default-constructed elements -/
theorem alloc_ok (s : Stack) (n : Nat) (hw : s.size + n < W) (hfit : s.size + n ≤ s.cap) :
    ∃ s', alloc n s = (some s.size, s') ∧ s'.size = s.size + n ∧ s'.cap = s.cap ∧
      s'.size ≤ s'.cap ∧ s'.storage.length = s.storage.length ∧
      s'.storage.take s.size = s.storage.take s.size ∧
      ∀ i, s.size ≤ i → i < s.size + n → i < s.storage.length → s'.storage[i]? = some dflt := by
  unfold alloc
  have h1 : ¬ (s.size + n) % W > s.cap := by rw [Nat.mod_eq_of_lt hw]; omega
  simp only [h1, if_false]
  refine ⟨_, rfl, ?_, rfl, ?_, ?_, ?_, ?_⟩
  · simp [Nat.mod_eq_of_lt hw]
  · simp [Nat.mod_eq_of_lt hw]; exact hfit
  · simp [initRange_length]
  · simp [initRange_take]
  · intro i h1 h2 h3
    simp [initRange_getElem?, h1, h2, h3]

/-- the allocator invariant `size ≤ cap` is preserved by every `alloc` (success or failure) -/
theorem alloc_preserves_inv (s : Stack) (n : Nat) (hinv : s.size ≤ s.cap)
    (hw : s.size + n < W) : (alloc n s).2.size ≤ (alloc n s).2.cap ∧ (alloc n s).2.cap = s.cap := by
  simp only [alloc, Nat.mod_eq_of_lt hw]
  by_cases h : s.size + n > s.cap
  · simp [h, hinv]
  · simp [h]; omega

/-- ★ C16.2 (sequential form) for every sequence of requests served from a state satisfying
    the invariant: every successful range lies in `[size₀, cap)`, successful ranges are
    pairwise disjoint, the final size is `size₀ +` the granted total and is `≤ cap`. -/
theorem runAllocs_spec (ns : List Nat) (s : Stack) (hinv : s.size ≤ s.cap) (hcap : s.cap < W)
    (hn : ∀ n ∈ ns, n < W - s.cap) :
    let r := runAllocs ns s
    r.2.size = s.size + granted r.1 ∧ r.2.size ≤ s.cap ∧ r.2.cap = s.cap ∧
    (∀ x ∈ r.1, ∀ a, x.1 = some a → s.size ≤ a ∧ a + x.2 ≤ r.2.size) ∧
    r.1.Pairwise (fun x y => ∀ a b, x.1 = some a → y.1 = some b → a + x.2 ≤ b) := by
  induction ns generalizing s with
  | nil => simp [runAllocs, granted, hinv]
  | cons n ns ih =>
    have hnW : n < W - s.cap := hn n (by simp)
    have hw : s.size + n < W := by omega
    simp only [runAllocs]
    by_cases hfit : s.size + n ≤ s.cap
    · obtain ⟨s', he, hs1, hs2, hs3, -, -, -⟩ := alloc_ok s n hw hfit
      have ih' := ih s' hs3 (by omega) (by
        intro m hm; rw [hs2]; exact hn m (by simp [hm]))
      rw [he]
      simp only at ih' ⊢
      obtain ⟨i1, i2, i3, i4, i5⟩ := ih'
      refine ⟨?_, ?_, ?_, ?_, ?_⟩
      · simp [granted, i1, hs1]; omega
      · omega
      · omega
      · intro x hx a ha
        simp only [List.mem_cons] at hx
        rcases hx with rfl | hx
        · simp at ha; subst ha
          simp; omega
        · have := i4 x hx a ha; omega
      · rw [List.pairwise_cons]
        refine ⟨?_, i5⟩
        intro y hy a b ha hb
        simp at ha; subst ha
        have := i4 y hy b hb
        simp; omega
    · have he := alloc_fail_restores s n hinv hw (by omega)
      rw [he]
      have ih' := ih s hinv hcap (by intro m hm; exact hn m (by simp [hm]))
      simp only at ih' ⊢
      obtain ⟨i1, i2, i3, i4, i5⟩ := ih'
      refine ⟨?_, i2, i3, ?_, ?_⟩
      · simp [granted, i1]
      · intro x hx a ha
        simp only [List.mem_cons] at hx
        rcases hx with rfl | hx
        · simp at ha
        · exact i4 x hx a ha
      · rw [List.pairwise_cons]
        refine ⟨?_, i5⟩
        intro y _ a b ha
        simp at ha

/-- ★ C16.3 a failed interaction (allocation failure inside the interactor) changes nothing
    of the physics: energy, direction, status, energy deposition, secondaries and the size of
    the secondary stack are unchanged; only the step limit/post-step action may be set. -/
theorem failed_interaction_is_noop {α} [Add α] [OfNat α 0] (lt : α → α → Bool) (fa : Nat)
    (cut : Bool) (below : Sec α → Bool) (r : Interaction α) (t : Track α)
    (hf : r.action = .failed) :
    let t' := applyInteraction lt fa cut below r t
    t'.energy = t.energy ∧ t'.dir = t.dir ∧ t'.status = t.status ∧ t'.deposit = t.deposit ∧
    t'.secondaries = t.secondaries ∧ t'.allocSize = t.allocSize ∧
    (t'.postAction = fa ∨ t'.postAction = t.postAction) := by
  unfold applyInteraction
  simp only [hf, if_true]
  by_cases h : lt 0 t.stepLen = true <;> simp [h]

/-- the failure action is selected (and the step length zeroed) exactly when the step already
    taken has positive length; then the track is handed to the failure action. -/
theorem failed_interaction_sets_action {α} [Add α] [OfNat α 0] (lt : α → α → Bool) (fa : Nat)
    (cut : Bool) (below : Sec α → Bool) (r : Interaction α) (t : Track α)
    (hf : r.action = .failed) (hpos : lt 0 t.stepLen = true) :
    (applyInteraction lt fa cut below r t).postAction = fa ∧
    (applyInteraction lt fa cut below r t).stepLen = 0 := by
  unfold applyInteraction
  simp [hf, hpos]

/-! non-vacuity -/
example : alloc 9 ⟨16, 8, List.replicate 16 0⟩ = (none, ⟨16, 8, List.replicate 16 0⟩) :=
  alloc_fail_restores _ _ (by decide) (by decide) (by decide)
example : (alloc 8 ⟨16, 8, List.replicate 16 0⟩).1 = some 8 := by decide
example : (runAllocs [8, 9, 8, 1] (Stack.new 16)).1 = [(some 0, 8), (none, 9), (some 8, 8), (none, 1)] := by
  decide
example : (applyInteraction (α := Nat) (fun a b => decide (a < b)) 7 true (fun _ => true)
    ⟨.failed, 0, (0, 0, 0), 0, []⟩ ⟨5, (1, 0, 0), .alive, 2, [], 3, 1, 4⟩).postAction = 7 := by decide

end CelerVerif.Stack
