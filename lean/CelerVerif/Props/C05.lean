/-
C05 — Each track's step history is continuous and respects its step limits.
Property theorems only: the ℝ reading of the `Num`-generic step model (Model/Step.lean; the
energy part re-uses Model/Ledger.lean), which is run at `Float` against the real Stepper
(harness/stepping.cc, tools/checks/c05.py) and must recompute physics limit + action, propagation
branch, time, MFP, step counter, position and status sequence of every step bit-for-bit.
Step lengths are `Option ℝ` with `none = +∞` (`OptLe` is the order).
-/
import CelerVerif.Lemmas.Step
import CelerVerif.Lemmas.StepMsc
import CelerVerif.Lemmas.LedgerEvent

namespace CelerVerif.Step
open CelerVerif
open CelerVerif.Ledger (Status)

/-- ★ the along-step only shortens the step: both `SimTrackView::step_limit` (used by every
    limiter) and the propagation applier return a step ≤ the current one; a candidate that is
    not strictly shorter (a tie) keeps the earlier step and action; the propagation applier
    changes the action only when it sets the step to the propagated distance.
    Hypothesis = the propagator's contract `distance ≤ requested step` (CELER_ASSERT in the applier). -/
theorem alongStep_only_shortens (cur : StepLimit ℝ) (s : ℝ) (a : Act) (cl ab : Bool)
    (p : Propagation ℝ) (hp : ∀ x, cur.step = some x → p.distance ≤ x) :
    OptLe (simStepLimit cur s a).step cur.step
      ∧ (∀ b, cur.step = some b → b ≤ s → simStepLimit cur s a = cur)
      ∧ OptLe (propagationApplier cur cl ab p).step cur.step
      ∧ ((propagationApplier cur cl ab p).action ≠ cur.action →
          (propagationApplier cur cl ab p).step = some p.distance) :=
  ⟨simStepLimit_le cur s a, fun b hb h => simStepLimit_tie cur s b a hb h,
   propagation_le cur cl ab p hp, propagation_action cur cl ab p⟩

/-- when the propagator reports a boundary hit (and the track is neither stopped nor looping) the
    post-step action IS the boundary action and the step length is the propagated distance —
    whatever the relation between that distance and the current limit, in particular on an exact
    TIE `distance = limit` (e.g. `fixed_step_limiter` dividing the distance to a surface).  The
    applier as written assigns both unconditionally; it does not go through `step_limit`, which
    would keep the physics action on a tie (`simStepLimit_tie`) and leave the track on the surface
    without crossing it. -/
theorem boundary_tie_takes_boundary_action (cur : StepLimit ℝ) (cl ab : Bool)
    (p : Propagation ℝ) (hb : p.boundary = true) (hl : (cl && p.looping) = false)
    (hs : cur.step ≠ some 0) :
    propagationApplier cur cl ab p = ⟨some p.distance, .boundary⟩
      ∧ (cur.step = some p.distance →
          (propagationApplier cur cl ab p).action = .boundary
            ∧ simStepLimit cur p.distance .boundary = cur) := by
  have h1 : propagationApplier cur cl ab p = ⟨some p.distance, .boundary⟩ := by
    unfold propagationApplier
    cases hc : cur.step with
    | none => simp [hl, hb]
    | some s =>
      have hne : s ≠ 0 := by
        intro h0; apply hs; rw [hc, h0]
      simp [hne, hl, hb]
  refine ⟨h1, fun ht => ⟨by rw [h1], simStepLimit_tie cur p.distance p.distance .boundary ht
    (le_refl _)⟩⟩

/-- ★ the step taken never exceeds the physics limit chosen before the step: with the limit
    `L` from `calc_physics_step_limit` and the linear propagator asked for `L`, the step after
    the propagation applier is ≤ L, and it is positive when L and the boundary distance are -/
theorem step_le_physics_limit (sc : Scalars ℝ) (st el np : Bool) (mfp xs range bd : ℝ) (L : ℝ)
    (hL : (calcPhysicsStepLimit sc st el np mfp xs range).step = some L) (hpos : 0 < L)
    (hb : 0 < bd) :
    ∃ s', (propagationApplier (calcPhysicsStepLimit sc st el np mfp xs range) false false
              (linearPropagate (some L) bd)).step = some s' ∧ s' ≤ L ∧ 0 < s' := by
  have hle := propagation_le (calcPhysicsStepLimit sc st el np mfp xs range) false false
    (linearPropagate (some L) bd)
    (by intro x hx; rw [hL] at hx; cases hx; exact linearPropagate_le L bd)
  have hd := linearPropagate_pos (some L) bd hb (by intro s hs; cases hs; exact hpos)
  generalize hcur : calcPhysicsStepLimit sc st el np mfp xs range = cur at hL hle
  unfold propagationApplier at hle ⊢
  rw [hL] at hle ⊢
  simp only [] at hle ⊢
  have hne : ¬ (Num.eq L (0 : ℝ) = true) := by
    rw [NumR.eq_real]; exact ne_of_gt hpos
  have hne' : ¬ (Num.eq L (@OfNat.ofNat ℝ 0 (Num.instOfNat 0)) = true) := by
    rw [NumR.lit0]; exact hne
  simp only [hne', if_false, Bool.false_and, Bool.false_eq_true] at hle ⊢
  split_ifs at hle ⊢ with h1 h2
  · exact ⟨_, rfl, by simpa [OptLe] using hle, hd⟩
  · exact ⟨_, rfl, by simpa [OptLe] using hle, hd⟩
  · exact ⟨L, hL, le_refl _, hpos⟩

/-- the remaining number of mean free paths stays ≥ 0 as long as the step does not exceed the
    discrete-interaction distance `mfp/xs` (which every physics limit respects:
    `limit_le_discrete`), is strictly positive when the step is strictly shorter, is left
    untouched when the discrete action limits the step, and is reset to zero exactly by the
    discrete-select action -/
theorem mfp_stays_nonneg (psa : Act) (mfp step xs : ℝ) (n : Nat) (hx : 0 < xs)
    (hs : step ≤ mfp / xs) :
    (psa ≠ .discrete → 0 ≤ (trackUpdater .alive psa mfp step xs n).1
        ∧ (step < mfp / xs → 0 < (trackUpdater .alive psa mfp step xs n).1))
      ∧ (trackUpdater .alive .discrete mfp step xs n).1 = mfp
      ∧ (discreteSelect (α := ℝ) psa).1 = 0 := by
  refine ⟨fun hne => ?_, trackUpdater_discrete mfp step xs n, ?_⟩
  · rw [trackUpdater_mfp psa mfp step xs n hne]
    have h1 : step * xs ≤ mfp := by
      have := mul_le_mul_of_nonneg_right hs (le_of_lt hx)
      rwa [div_mul_cancel₀ _ (ne_of_gt hx)] at this
    refine ⟨by linarith, fun hlt => ?_⟩
    have := mul_lt_mul_of_pos_right hlt hx
    rw [div_mul_cancel₀ _ (ne_of_gt hx)] at this
    linarith
  · unfold discreteSelect; simp

/-- the physics limit never exceeds the discrete-interaction distance (0 for a stopped track) -/
theorem physics_limit_le_discrete (sc : Scalars ℝ) (st el np : Bool) (mfp xs range : ℝ)
    (hm : 0 ≤ mfp) (hx : 0 ≤ xs) :
    OptLe (calcPhysicsStepLimit sc st el np mfp xs range).step
      (if st then some 0 else discreteStep mfp xs) :=
  limit_le_discrete sc st el np mfp xs range hm hx

/-- ★ within one step the status only moves forward (inactive < initializing < alive <
    errored < killed, the order of `TrackStatus`), and is never `initializing` after pre-step -/
theorem status_monotone_within_step (s0 : Status) (errAlong killedEloss : Bool) (psa : Act)
    (bFailed bOutside bNoMat absorbed : Bool) :
    List.IsChain (fun a b : Status => a.rank ≤ b.rank)
        (stepStatuses s0 errAlong killedEloss psa bFailed bOutside bNoMat absorbed)
      ∧ preStepStatus s0 ≠ .initializing := by
  refine ⟨?_, preStep_not_init s0⟩
  unfold stepStatuses
  simp only [List.isChain_cons_cons, List.isChain_singleton, and_true]
  exact ⟨preStep_rank s0, along_rank _ _ _, le_refl _, post_rank _ _ _ _ _ _⟩

/-- time never decreases over the along-step -/
theorem time_nondecreasing (st : Status) (t step e m : ℝ) (hs : 0 ≤ step) :
    t ≤ timeUpdater st t step e m :=
  timeUpdater_ge st t step e m hs

/-- kinetic energy never increases over a step (restated from C01's applier lemmas): the
    along-step loss is within [0, E]; tracking cut and absorption leave 0; a scattering
    interaction must not return more than the incident energy (C04) -/
theorem energy_nonincreasing (P : Ledger.Particles ℝ) (pid : Nat) (e : ℝ) (inp : Ledger.StepIn ℝ)
    (h : Ledger.StepOK P pid e inp)
    (hI : ∀ r, inp.post = .interact r → r.action = .scattered →
        r.energy ≤ (Ledger.alongStep e inp).e) :
    (Ledger.stepLedger P pid e inp).e1 ≤ e := by
  obtain ⟨he, hl, hp⟩ := h
  have ha := Ledger.alongStep_sum e inp he hl
  unfold Ledger.stepLedger Ledger.postStep
  cases hstop : (Ledger.alongStep e inp).stop <;> simp only []
  all_goals try exact ha.2.2.1
  all_goals
    unfold Ledger.postAct
    cases hpost : inp.post with
    | none => exact ha.2.2.1
    | boundary ex => exact ha.2.2.1
    | trackingCut =>
      simp only []
      rw [(Ledger.trackingCut_sum P pid _ _).1]; exact he
    | interact r =>
      simp only []
      rw [hpost] at hp
      simp only [] at hp
      unfold Ledger.applyInteraction Ledger.InteractorOK at *
      cases hact : r.action <;> simp only [hact] at hp ⊢
      · exact le_trans (hI r hpost hact) ha.2.2.1
      · rw [hp.2]; exact he
      · exact ha.2.2.1
      · exact ha.2.2.1

/-- the step length is never shorter than the straight-line displacement; for the linear
    propagator with a unit direction it is exactly the displacement -/
theorem step_ge_displacement (pos dir : Vec3 ℝ) (d : ℝ) (hd : 0 ≤ d)
    (hu : dir.x * dir.x + dir.y * dir.y + dir.z * dir.z = 1) :
    Vec3.norm (Vec3.sub (move pos dir d) pos) ≤ d
      ∧ Vec3.norm (Vec3.sub (move pos dir d) pos) = d :=
  ⟨le_of_eq (move_displacement pos dir d hd hu), move_displacement pos dir d hd hu⟩

/-- only a step whose post-step action is the boundary action (run for an alive track) changes
    the volume -/
theorem volume_changes_only_at_boundary_action (vol entered : Nat) (st : Status) (psa : Act)
    (h : stepVolume vol st psa entered ≠ vol) : st = .alive ∧ psa = .boundary := by
  unfold stepVolume at h
  split_ifs at h with hc
  · simp only [Bool.and_eq_true, beq_iff_eq] at hc
    exact hc
  · exact absurd rfl h

/-- ★ continuity of a track's history on the frame model: between the `user_post` probe of
    step k and the `user_pre` probe of step k+1 the executed actions are end-of-step secondaries
    processing, initialisation of vacant slots, sorting (permutes the thread→slot indirection
    only) and pre-step; a slot that holds an alive track keeps its track id and its
    position/energy/time/volume bundle, and is still alive.  Hypothesis (property C02): the
    initializers are written to vacancies, i.e. never to the slot of an alive track. -/
theorem history_continuous {β : Type} (slots : List (Slot β)) (inPlace : Nat → Option (Nat × β))
    (inits : List (Nat × Nat × β)) (i : Nat) (s : Slot β) (hs : slots[i]? = some s)
    (halive : s.status = .alive) (hvac : ∀ x ∈ inits, x.1 ≠ i) :
    (interStep slots inPlace inits)[i]? = some s := by
  unfold interStep
  simp only [List.getElem?_map]
  rw [initializeTracks_get inits _ i hvac]
  simp only [List.getElem?_mapIdx, hs, Option.map_some]
  unfold processSecondaries preStepSlot
  rw [halive]
  simp only [preStepStatus]
  cases s with
  | mk st tid pt =>
    simp only at halive
    subst halive
    rfl

/-- ★ Urban MSC: the true path selected by either step-limit class never exceeds the step it
    was given (`max_step` = the physics limit chosen at pre-step) — in every branch of
    `operator()` and for every Gaussian draw `z`:
    (a) the shared `operator()` body, for any limit ≥ its floor;
    (b) `UrbanMscSafetyStepLimit` (safety / safety_plus) incl. its constructor;
    (c) `UrbanMscMinimalStepLimit` incl. its constructor, under the state invariant that a finite
        cached limit is at least the floor, which the constructor re-establishes.
    The order of the two early returns matters: `max_step ≤ limit` must be tested first, otherwise
    a limit sitting at its floor returns `limit_min > max_step`. -/
theorem mscStepLimit_le_maxStep (sc : MscScalars ℝ) (plus onb : Bool)
    (physStep range mfp safety limMinNew z : ℝ) (r0 : MscRange ℝ)
    (h0 : r0.valid = true → r0.Floor) :
    (∀ maxStep limit limitMin : ℝ, limitMin ≤ limit →
        mscSample maxStep limit limitMin z ≤ maxStep)
      ∧ (mscSafetyStepLimit sc plus onb physStep range mfp safety r0 limMinNew z).1 ≤ physStep
      ∧ (mscMinimalStepLimit sc onb physStep range mfp r0 z).1 ≤ physStep
      ∧ (minimalRange sc onb range mfp r0).Floor := by
  refine ⟨fun a b c h => mscSample_le a b c z h, ?_, ?_, minimalRange_floor sc onb range mfp r0 h0⟩
  · unfold mscSafetyStepLimit
    exact le_trans (mscSample_le _ _ _ _ (safetyLimit_ge sc range safety _))
      (safetyMaxStep_le plus physStep range)
  · unfold mscMinimalStepLimit
    exact mscSampleInf_le _ _ _ _ (minimalRange_floor sc onb range mfp r0 h0)

/-- the early return of `limit_step` keeps the physics step itself -/
theorem mscTruePath_le (ev : Bool) (physStep limited : ℝ) (h : limited ≤ physStep) :
    mscTruePath ev physStep limited ≤ physStep := by
  unfold mscTruePath; split_ifs <;> first | exact h | exact le_refl _

/-- ★ Urban MSC lateral displacement: whenever a displacement is applied its length is at most
    `(1 − safety_tol)·safety`, hence strictly inside the safety sphere (no surface can be passed
    by `move_internal`), at most the computed mean displacement, and at least `geom_limit` -/
theorem msc_displacement_le_cap (calcLen safety tol geomLimit l : ℝ)
    (h : mscDisplacement calcLen safety tol geomLimit = some l) (htol : 0 < tol)
    (hs : 0 < safety) :
    l ≤ (1 - tol) * safety ∧ l < safety ∧ l ≤ calcLen ∧ geomLimit ≤ l := by
  have := mscDisplacement_cap calcLen safety tol geomLimit l h
  refine ⟨this.1, ?_, this.2.1, this.2.2⟩
  have : (1 - tol) * safety < safety := by nlinarith
  linarith [this, ‹l ≤ (1 - tol) * safety ∧ l ≤ calcLen ∧ geomLimit ≤ l›.1]

/-! ### whole histories: any number of steps -/

/-- what one step feeds `TimeUpdater` / `TrackUpdater`: status after the along-step, post-step
    action, step length, cross section, kinetic energy and mass -/
structure HistStep where
  st : Status
  psa : Act
  step : ℝ
  xs : ℝ
  e : ℝ
  m : ℝ

/-- a track's lab time after a history of steps -/
noncomputable def timeAfter (t : ℝ) (h : List HistStep) : ℝ :=
  h.foldl (fun t s => timeUpdater s.st t s.step s.e s.m) t

/-- a track's step counter after a history of steps -/
noncomputable def countAfter (n : Nat) (h : List HistStep) : Nat :=
  h.foldl (fun n s => (trackUpdater s.st s.psa (0 : ℝ) s.step s.xs n).2) n

/-- ★ over ANY history of steps with non-negative lengths a track's time never runs backwards:
    the time after any prefix is at most the time after the whole history -/
theorem time_monotone_over_history (t : ℝ) (h₁ h₂ : List HistStep)
    (hs : ∀ s ∈ h₁ ++ h₂, 0 ≤ s.step) :
    t ≤ timeAfter t h₁ ∧ timeAfter t h₁ ≤ timeAfter t (h₁ ++ h₂) := by
  have key : ∀ (h : List HistStep) (t : ℝ), (∀ s ∈ h, 0 ≤ s.step) → t ≤ timeAfter t h := by
    intro h
    induction h with
    | nil => intro t _; exact le_refl _
    | cons a l ih =>
      intro t hl
      have h1 : t ≤ timeUpdater a.st t a.step a.e a.m :=
        time_nondecreasing a.st t a.step a.e a.m (hl a (by simp))
      have h2 := ih (timeUpdater a.st t a.step a.e a.m) (fun s hm => hl s (by simp [hm]))
      simp only [timeAfter, List.foldl_cons] at h2 ⊢
      exact le_trans h1 h2
  refine ⟨key h₁ t (fun s hm => hs s (by simp [hm])), ?_⟩
  have : timeAfter t (h₁ ++ h₂) = timeAfter (timeAfter t h₁) h₂ := by
    simp [timeAfter, List.foldl_append]
  rw [this]
  exact key h₂ _ (fun s hm => hs s (by simp [hm]))

/-- ★ the step counter counts exactly the steps that did not error: after any history the
    counter has advanced by the number of non-errored steps (so it is the length of the history
    for a track that never errors, and never exceeds it) -/
theorem step_counter_counts_steps (n : Nat) (h : List HistStep) :
    countAfter n h = n + (h.filter (fun s => !(s.st == .errored))).length := by
  induction h generalizing n with
  | nil => simp [countAfter]
  | cons a l ih =>
    have hstep : (trackUpdater a.st a.psa (0 : ℝ) a.step a.xs n).2
        = if a.st == .errored then n else n + 1 := by
      unfold trackUpdater
      split
      · rfl
      · split <;> rfl
    simp only [countAfter, List.foldl_cons] at ih ⊢
    rw [hstep, ih]
    by_cases he : (a.st == .errored) = true
    · simp [he]
    · simp [he]; omega

/-- the scattering bound of `energy_nonincreasing` along the track's own energy history -/
def ScatterOK (P : Ledger.Particles ℝ) (pid : Nat) : ℝ → List (Ledger.StepIn ℝ) → Prop
  | _, [] => True
  | e, inp :: rest =>
    (∀ r, inp.post = .interact r → r.action = .scattered → r.energy ≤ (Ledger.alongStep e inp).e) ∧
      ((Ledger.stepLedger P pid e inp).fate = .alive →
        ScatterOK P pid (Ledger.stepLedger P pid e inp).e1 rest)

/-- ★ over ANY number of steps a track's kinetic energy never exceeds what it started with
    (C01's track ledger run along the track's own energy history) -/
theorem energy_nonincreasing_over_track (P : Ledger.Particles ℝ) (pid : Nat) (e0 : ℝ)
    (steps : List (Ledger.StepIn ℝ)) (h : Ledger.TrackOK P pid e0 steps)
    (hs : ScatterOK P pid e0 steps) :
    Ledger.finalE e0 (Ledger.runTrack P pid e0 steps) ≤ e0 := by
  induction steps generalizing e0 with
  | nil => simp [Ledger.runTrack, Ledger.finalE]
  | cons inp rest ih =>
    obtain ⟨hok, hrest⟩ := h
    obtain ⟨hsc, hsrest⟩ := hs
    have h1 := energy_nonincreasing P pid e0 inp hok hsc
    cases hf : (Ledger.stepLedger P pid e0 inp).fate <;>
      simp only [Ledger.runTrack, hf, Ledger.finalE]
    all_goals first
      | exact h1
      | exact le_trans (ih _ (hrest hf) (hsrest hf)) h1

/-! ### non-vacuity -/

/-- the hypotheses of `energy_nonincreasing_over_track` are satisfiable by a non-empty history
    with a real loss: a particle at E = 1 loses a mean 1/4 along the step -/
example : ∃ (P : Ledger.Particles ℝ) (steps : List (Ledger.StepIn ℝ)), steps.length = 1 ∧
    Ledger.TrackOK P 1 1 steps ∧ ScatterOK P 1 1 steps := by
  refine ⟨⟨fun _ => 1 / 2, fun _ => false, fun _ => none⟩,
    [⟨true, false, true, 1 / 1000, .mean (1 / 4), false, .none⟩], rfl,
    ⟨⟨by norm_num, ?_, trivial⟩, fun _ => trivial⟩, ⟨fun r hr => by simp at hr, fun _ => trivial⟩⟩
  show (0 : ℝ) ≤ 1 / 4 ∧ (1 / 4 : ℝ) ≤ 1
  constructor <;> norm_num

/-- physics step (1/100) below the MSC floor (1/10): the physics step is returned, not the floor -/
example : mscSample (1 / 100 : ℝ) (1 / 10) (1 / 10) 5 = 1 / 100 := by
  unfold mscSample; stp_simp; norm_num

/-- the sampling branch is reachable and clamps a wild draw to the maximum step -/
example : mscSample (1 : ℝ) (1 / 2) (1 / 10) 1000 = 1 := by
  unfold mscSample clamp
  stp_simp
  norm_num

/-- a capped displacement: computed 2, safety 1, tolerance 1/100 ⇒ 99/100 -/
example : mscDisplacement (2 : ℝ) 1 (1 / 100) (1 / 1000000) = some (99 / 100) := by
  unfold mscDisplacement
  simp only [NumR.min_real, NumR.lit1, NumR.hsub_real, NumR.hmul_real]
  stp_simp
  norm_num


/-- a range-limited physics step: rho = 1/10, alpha = 1/5, range 1 ⇒ step 0.2 + 0.1·0.8·1.9 -/
example : (calcPhysicsStepLimit (⟨1 / 10, 1 / 5, 0, 1 / 100000000⟩ : Scalars ℝ) false true false
    1 (1 / 100) 1).action = .range := by
  unfold calcPhysicsStepLimit rangeToStep discreteStep leInf
  stp_simp
  norm_num

/-- the hypotheses of `step_le_physics_limit` are satisfiable (discrete limit 2, boundary at 1) -/
example : ∃ L : ℝ, (calcPhysicsStepLimit (⟨1 / 10, 1 / 5, 0, 1 / 100000000⟩ : Scalars ℝ) false
    false false 2 1 0).step = some L ∧ 0 < L := by
  refine ⟨2, ?_, by norm_num⟩
  unfold calcPhysicsStepLimit discreteStep
  stp_simp
  norm_num

/-- the tie case is not vacuous: limit 1/4 from the fixed limiter, boundary at exactly 1/4 -/
example : propagationApplier (⟨some (1 / 4), .fixed⟩ : StepLimit ℝ) false false ⟨1 / 4, true, false⟩
    = ⟨some (1 / 4), .boundary⟩ :=
  (boundary_tie_takes_boundary_action _ false false ⟨1 / 4, true, false⟩ rfl rfl
    (by intro h; have := Option.some.inj h; norm_num at this)).1

/-- `mfp_stays_nonneg` is not vacuous: mfp 2, xs 1, step 1/2 leaves 3/2 -/
example : (trackUpdater .alive .boundary (2 : ℝ) (1 / 2) 1 0).1 = 3 / 2 := by
  rw [trackUpdater_mfp _ _ _ _ _ (by decide)]; norm_num

/-- a step status sequence that really moves: initializing → alive → alive → alive → killed -/
example : stepStatuses .initializing false false .boundary false true false false
    = [.initializing, .alive, .alive, .alive, .killed] := by
  simp [stepStatuses, preStepStatus, alongStatus, postStatus, boundaryStatus]

/-- `history_continuous` hypotheses are satisfiable while another slot IS overwritten -/
example : (interStep [⟨.alive, 7, (1 : Nat)⟩, ⟨.killed, 8, 2⟩] (fun _ => none) [(1, 9, 3)])
    = [⟨.alive, 7, 1⟩, ⟨.alive, 9, 3⟩] := by
  simp [interStep, processSecondaries, initializeTracks, preStepSlot, preStepStatus]

end CelerVerif.Step
