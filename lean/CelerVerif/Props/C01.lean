/-
C01 — Transport conserves energy over every event and every track.
Property theorems only: the ℝ reading of the `Num`-generic ledger model (Model/Ledger.lean), which
is run at `Float` against the real Stepper (harness/stepping.cc, tools/checks/c01.py) and must
reproduce post-step energy, deposition, fate and secondaries of every replayed step bit-for-bit.
Helper lemmas: Lemmas/Ledger.lean, Lemmas/LedgerEvent.lean.

Hypotheses (`StepOK`): 0 ≤ E; the mean loss satisfies 0 ≤ mean ≤ E (contract of
`calc_mean_energy_loss`, property C14), the sampled loss is ≥ 0; the interactor conserves
K_in + 2mc²[incident antiparticle absorbed] = K_out + edep + Σ (K_s + 2mc²[s antiparticle]) and
leaves an absorbed track with zero kinetic energy (property C04).  Energies are "total" energies
T = K + 2mc²·[antiparticle]: the 2mc² bookkeeping of the property statement.
-/
import CelerVerif.Lemmas.LedgerEvent

namespace CelerVerif.Ledger
open CelerVerif

/-- the energy-loss handlers never return more than the particle has (nor a negative loss) -/
theorem eloss_le_energy (e low mean sampled : ℝ) (c : Bool) (h0 : 0 ≤ mean) (h1 : mean ≤ e)
    (hs : 0 ≤ sampled) :
    (0 ≤ meanELoss e low mean c ∧ meanELoss e low mean c ≤ e)
      ∧ (0 ≤ fluctELoss e low mean sampled c ∧ fluctELoss e low mean sampled c ≤ e) :=
  ⟨meanELoss_bounds e low mean c h0 h1, fluctELoss_bounds e low mean sampled c h0 h1 hs⟩

/-- `ElossApplier`: E' + dep' = E + dep and 0 ≤ E' (for any handler returning a loss in [0, E]) -/
theorem elossApplier_balance (appl bnd rest : Bool) (e dep : ℝ) (calcE : Bool → ℝ)
    (hc : ∀ c, 0 ≤ calcE c ∧ calcE c ≤ e) (he : 0 ≤ e) :
    (elossApplier appl bnd rest e dep calcE).e + (elossApplier appl bnd rest e dep calcE).dep
        = e + dep
      ∧ 0 ≤ (elossApplier appl bnd rest e dep calcE).e :=
  ⟨(elossApplier_sum appl bnd rest e dep calcE hc he).1,
   (elossApplier_sum appl bnd rest e dep calcE hc he).2.1⟩

/-- a range-limited step (`calc_mean_energy_loss` returned the whole pre-step energy) deposits
    exactly the remaining energy and stops the particle; it is then killed (no at-rest process)
    or forced into a discrete interaction at rest -/
theorem range_step_deposits_all (bnd rest : Bool) (e dep low : ℝ) (he : 0 < e) :
    (elossApplier true bnd rest e dep (meanELoss e low e)).e = 0
      ∧ (elossApplier true bnd rest e dep (meanELoss e low e)).dep = dep + e
      ∧ (elossApplier true bnd rest e dep (meanELoss e low e)).stop
          = (if rest then .forcedDiscrete else .killedRange) := by
  have hm : ∀ c, meanELoss e low e c = e := by
    intro c; unfold meanELoss; split_ifs <;> rfl
  unfold elossApplier
  rw [hm]
  simp only [NumR.lit0]
  have h1 : ¬ ((!true || Num.eq e (0 : ℝ)) = true) := by
    led_simp; simp; exact ne_of_gt he
  have h2 : Num.gt e (0 : ℝ) = true := by led_simp; exact he
  have h3 : Num.eq (e - e) (0 : ℝ) = true := by led_simp; ring
  simp only [h1, h2, h3, if_true]
  refine ⟨?_, ?_, ?_⟩
  · simp [NumR.hsub_real]
  · simp [NumR.hadd_real]
  · simp

/-- also when the step ends at or below the tracking cut everything is deposited -/
theorem tracking_cut_deposits_all (e low mean : ℝ) (h : e - mean ≤ low) :
    meanELoss e low mean true = e := by
  unfold meanELoss
  split_ifs with h1 h2
  · rfl
  · rfl
  · exfalso; apply h2; led_simp; exact ⟨trivial, h⟩

/-- `InteractionApplier` (incl. the production-cut loop, +2mc² for sub-cut antiparticles),
    given the interactor's own conservation (C04) -/
theorem interaction_balance (P : Particles ℝ) (pc : Bool) (pid : Nat) (e dep : ℝ)
    (r : Interaction ℝ) (h : InteractorOK P pid e r) :
    e + dep + (if (applyInteraction P pc e dep r).killed then rest2 P pid else 0)
      = (applyInteraction P pc e dep r).e + (applyInteraction P pc e dep r).dep
        + sumTo P (applyInteraction P pc e dep r).secs :=
  applyInteraction_balance P pc pid e dep r h

/-- `TrackingCutExecutor`: all kinetic energy (+2mc² for antiparticles) is deposited -/
theorem trackingCut_balance (P : Particles ℝ) (pid : Nat) (e dep : ℝ) :
    (trackingCut P pid e dep).1 + (trackingCut P pid e dep).2 = e + rest2 P pid + dep
      ∧ (trackingCut P pid e dep).1 = 0 := by
  have := trackingCut_sum P pid e dep
  exact ⟨by rw [this.1, this.2]; ring, this.1⟩

/-- one complete step (along-step loss, then the post-step action) -/
theorem step_balance (P : Particles ℝ) (pid : Nat) (e : ℝ) (inp : StepIn ℝ)
    (h : StepOK P pid e inp) :
    e + relT P pid (stepLedger P pid e inp)
        = (stepLedger P pid e inp).e1 + (stepLedger P pid e inp).dep
          + sumT P (stepLedger P pid e inp).secs
      ∧ 0 ≤ (stepLedger P pid e inp).e1 :=
  ⟨(stepLedger_balance P pid e inp h).1, (stepLedger_balance P pid e inp h).2.1⟩

/-- ★ per track, any number of steps: the energy the track loses over its steps (plus its own
    2mc² if a step accounted for it: tracking cut or absorption of an antiparticle) equals what it
    deposited plus the total energy (K + 2mc²[antiparticle]) its direct secondaries were born with -/
theorem track_balance (P : Particles ℝ) (pid : Nat) (e0 : ℝ) (steps : List (StepIn ℝ))
    (h : TrackOK P pid e0 steps) :
    e0 - finalE e0 (runTrack P pid e0 steps) + sumRel P pid (runTrack P pid e0 steps)
      = sumDep (runTrack P pid e0 steps) + sumSecT P (runTrack P pid e0 steps) :=
  runTrack_balance P pid steps e0 h

/-- ★ per event, any history (any number of tracks and steps, any interleaving): total energy of
    the live tracks + deposits + escaped + unaccounted 2mc² is invariant -/
theorem event_invariant (P : Particles ℝ) (live : List (Tk ℝ)) (tot : Totals ℝ)
    (hist : List (Nat × StepIn ℝ)) (h : EventOK P live tot hist) :
    sumT P (runEvent P live tot hist).1 + (runEvent P live tot hist).2.sum
      = sumT P live + tot.sum :=
  runEvent_invariant P hist live tot h

/-- ★ an event transported to completion (no live track left): Σ primaries (K + 2mc²[anti])
    = Σ deposits + Σ escaped (K + 2mc²[anti]) + Σ 2mc² of antiparticles killed by range-out
    without an at-rest process (`lostRest`: the code deposits only their kinetic energy) -/
theorem event_balance (P : Particles ℝ) (prims : List (Tk ℝ)) (hist : List (Nat × StepIn ℝ))
    (h : EventOK P prims ⟨0, 0, 0, 0⟩ hist)
    (hdone : (runEvent P prims ⟨0, 0, 0, 0⟩ hist).1 = []) :
    sumT P prims
      = (runEvent P prims ⟨0, 0, 0, 0⟩ hist).2.dep + (runEvent P prims ⟨0, 0, 0, 0⟩ hist).2.esc
        + (runEvent P prims ⟨0, 0, 0, 0⟩ hist).2.escRest
        + (runEvent P prims ⟨0, 0, 0, 0⟩ hist).2.lostRest := by
  have := runEvent_invariant P hist prims ⟨0, 0, 0, 0⟩ h
  rw [hdone] at this
  simp only [sumT_nil, Totals.sum] at this
  linarith

/-- the same in kinetic energies: Σ K(primaries) = Σ deposits + Σ K(escaped)
    + [2mc² of escaped / range-killed antiparticles − 2mc² of antiparticle primaries] -/
theorem event_balance_kinetic (P : Particles ℝ) (prims : List (Tk ℝ))
    (hist : List (Nat × StepIn ℝ)) (h : EventOK P prims ⟨0, 0, 0, 0⟩ hist)
    (hdone : (runEvent P prims ⟨0, 0, 0, 0⟩ hist).1 = []) :
    (prims.map (·.e)).sum
      = (runEvent P prims ⟨0, 0, 0, 0⟩ hist).2.dep + (runEvent P prims ⟨0, 0, 0, 0⟩ hist).2.esc
        + ((runEvent P prims ⟨0, 0, 0, 0⟩ hist).2.escRest
            + (runEvent P prims ⟨0, 0, 0, 0⟩ hist).2.lostRest
            - (prims.map fun t => rest2 P t.pid).sum) := by
  have hb := event_balance P prims hist h hdone
  have hsplit : sumT P prims = (prims.map (·.e)).sum + (prims.map fun t => rest2 P t.pid).sum := by
    induction prims with
    | nil => simp [sumT]
    | cons a l ih =>
      simp only [sumT_cons, List.map_cons, List.sum_cons, secT]
      have : sumT P l = (l.map (·.e)).sum + (l.map fun t => rest2 P t.pid).sum := by
        clear hb h hdone ih
        induction l with
        | nil => simp [sumT]
        | cons b m ihm => simp only [sumT_cons, List.map_cons, List.sum_cons, secT]; linarith
      linarith
  linarith

/-! ### non-vacuity: the hypotheses are satisfiable and the statements are not trivial -/

/-- particle table: 0 = gamma (cut 0.1), 1 = electron (cut 0.5), 2 = positron (mass 1/2, cut 0.5) -/
noncomputable def exP : Particles ℝ :=
  { mass := fun i => if i = 0 then 0 else 1 / 2
    anti := fun i => decide (i = 2)
    cut := fun i => if i = 0 then some (1 / 10) else some (1 / 2) }

/-- the cut loop with a sub-cut positron: 1/4 + 2·(1/2) goes to the deposition -/
example : (cutLoop exP (0 : ℝ) [some ⟨2, 1 / 4⟩, some ⟨0, 3⟩]).1 = 5 / 4 := by
  simp [cutLoop, cutApplies, exP]
  try led_simp
  try norm_num

/-- eloss hypotheses are satisfiable with a non-trivial outcome: E = 2, mean = 1/2, cut 1/1000 -/
example : meanELoss (2 : ℝ) (1 / 1000) (1 / 2) true = 1 / 2 := by
  unfold meanELoss
  led_simp
  norm_num

/-- the tracking cut of a positron deposits K + 2mc² -/
example : (trackingCut exP 2 (3 : ℝ) 0).2 = 4 := by
  have := (trackingCut_sum exP 2 3 0).2
  rw [this, rest2_real]
  simp [exP]
  norm_num

/-- `StepOK` is satisfiable by a step with loss and an absorbing interaction of a positron at
    E = 1: along-step loss 1/4, then annihilation in flight into two photons -/
example : ∃ inp : StepIn ℝ, StepOK exP 2 1 inp ∧ (stepLedger exP 2 1 inp).fate = .killed := by
  refine ⟨⟨true, false, true, 1 / 1000, .mean (1 / 4), false,
    .interact ⟨.absorbed, 0, 0, [some ⟨0, 1⟩, some ⟨0, 3 / 4⟩]⟩⟩, ?_, ?_⟩
  · have hm : meanELoss (1 : ℝ) (1 / 1000) (1 / 4) true = 1 / 4 := by
      unfold meanELoss; led_simp; norm_num
    have ha : (alongStep (1 : ℝ) ⟨true, false, true, 1 / 1000, .mean (1 / 4), false,
        .interact ⟨.absorbed, 0, 0, [some ⟨0, 1⟩, some ⟨0, 3 / 4⟩]⟩⟩).e = 3 / 4 := by
      unfold alongStep elossApplier elossOn calcOf
      simp only [Bool.not_false, hm]
      led_simp
      norm_num
    refine ⟨by norm_num, by norm_num, ?_⟩
    show InteractorOK exP 2 _ _
    rw [ha]
    unfold InteractorOK
    simp only []
    rw [rest2_real]
    simp [exP, sumTo, keepSecs, secT, rest2_real]
    norm_num
  · unfold stepLedger postStep postAct alongStep elossApplier elossOn calcOf applyInteraction
    have hm : meanELoss (1 : ℝ) (1 / 1000) (1 / 4) true = 1 / 4 := by
      unfold meanELoss; led_simp; norm_num
    simp only [Bool.not_false, hm, NumR.lit0]
    led_simp
    norm_num

end CelerVerif.Ledger
