/-
C08 — Field propagation follows the field and stays consistent with the geometry.
Property theorems only: the ℝ reading of the `Num`-generic model in Model/FieldProp.lean, which
is run bit-exactly at `Float` against the real `FieldPropagator` / `FieldDriver` templates
through recording wrappers (harness/fieldprop.cc).  Helper lemmas: Lemmas/FieldProp*.lean.

Callee contracts (`AnsOK`, Lemmas/FieldPropLoop.lean), asserted by the check on every recorded
answer of the real driver and the real ORANGE track view:
  driver   : 0 < substep ≤ requested step;  chord length ≤ κ · substep  (κ ≥ 1)
  geometry : a reported boundary is at a distance in [0, chord length + delta_intersection]
Configuration (`CfgOK`): step > 0 (the release-unchecked CELER_EXPECT), and what
`FieldDriverOptions` validation guarantees (0 < minimum_step < delta_intersection, max_substeps > 0).

NOT proved here (numerical analysis, see evidence): Runge–Kutta / Dormand–Prince truncation
error against `delta_chord` / `epsilon_rel_max`.
-/
import CelerVerif.Lemmas.FieldPropFinish
import CelerVerif.Lemmas.FieldPropHelix
import CelerVerif.Lemmas.FieldPropDrive

namespace CelerVerif.FieldProp
open CelerVerif

/-- ★ C08.1 the propagation loop terminates, with an explicit bound.  Whatever the driver and
    the geometry answer (within their contracts), the do-while loop executes at most
    `max_substeps · (A + K + 1)` iterations, where `A ≥ step / (δ/κ)` counts the possible
    "shorten to the chord intercept" retries (each shortens the trial step by at least
    `δ/κ`, δ = delta_intersection) and `K ≥ log₂(step / minimum_substep)` the possible
    "halve" retries; every accepted substep (at most `max_substeps`) resets both.  Consequently
    a recording with more answers than that is never exhausted. -/
theorem loop_terminates (c : Cfg ℝ) (hc : CfgOK c) (κ : ℝ) (hκ : 1 ≤ κ) (A K : ℕ)
    (hA : c.step ≤ A * (c.deltaInt / κ)) (hK : c.step ≤ c.minSub * 2 ^ K)
    (p : ℝ) (gpos gdir : Vec3 ℝ) (onb : Bool) (answers : List (Answer ℝ))
    (hall : ∀ it ∈ loopIters c (PState.init c p gpos gdir onb) answers, AnsOK c κ it.pre it.ans) :
    (loopIters c (PState.init c p gpos gdir onb) answers).length ≤ c.maxSub.toNat * (A + K + 1)
    ∧ (c.maxSub.toNat * (A + K + 1) < answers.length →
        loop c (PState.init c p gpos gdir onb) answers ≠ none) := by
  have hm := hc.maxSub_pos
  obtain ⟨n, hn⟩ : ∃ n : ℕ, c.maxSub = (n : ℤ) + 1 := ⟨(c.maxSub - 1).toNat, by omega⟩
  have hbound := iters_bound c hc κ hκ A K hA hK answers (PState.init c p gpos gdir onb) A K n
    (inv_init c hc p gpos gdir onb) (by simp only [PState.init]; exact hn)
    (by simp only [PState.init]; exact hA) (by simp only [PState.init]; exact hK) hall
  have hN : c.maxSub.toNat * (A + K + 1) = n * (A + K + 1) + A + K + 1 := by
    have : c.maxSub.toNat = n + 1 := by omega
    rw [this]; ring
  refine ⟨by omega, ?_⟩
  intro hlen hnone
  have := loop_none_length c answers _ hnone
  omega

/-- ★ C08.2 the returned distance is in (0, step] -/
theorem distance_in_range (c : Cfg ℝ) (hc : CfgOK c) (κ : ℝ) (hκ : 1 ≤ κ)
    (p : ℝ) (gpos gdir : Vec3 ℝ) (onb : Bool) (answers : List (Answer ℝ)) (mtbPos : Vec3 ℝ)
    (r : Result ℝ) (st : OdeState ℝ) (ops : List (GeoOp ℝ)) (its : List (Iter ℝ))
    (h : propagate c (PState.init c p gpos gdir onb) answers mtbPos = some (r, st, ops, its))
    (hall : ∀ it ∈ its, AnsOK c κ it.pre it.ans) :
    0 < r.distance ∧ r.distance ≤ c.step := by
  unfold propagate at h
  cases hl : loop c (PState.init c p gpos gdir onb) answers with
  | none => rw [hl] at h; simp at h
  | some v =>
    obtain ⟨its', f, left⟩ := v
    rw [hl] at h
    simp only [Option.some.injEq, Prod.mk.injEq] at h
    obtain ⟨rfl, rfl, rfl, rfl⟩ := h
    obtain ⟨hinv, _⟩ := loop_spec c hc κ hκ answers _ none _ _ _ (inv_init c hc p gpos gdir onb)
      (by simp only [PState.init]; exact hc.maxSub_pos) (by intro _ h0; simp [PState.init] at h0)
      hl hall
    exact finish_distance c hc f hinv mtbPos

/-- ★ C08.3 the returned boundary flag is consistent with the geometry: it is `true` exactly
    when the last position-changing call made on the track view is `move_to_boundary` (there is
    always at least one such call), hence equals the track view's on-boundary state afterwards
    (`move_internal` leaves the boundary, `move_to_boundary` lands on it). -/
theorem boundary_flag_consistent (c : Cfg ℝ) (hc : CfgOK c) (κ : ℝ) (hκ : 1 ≤ κ)
    (p : ℝ) (gpos gdir : Vec3 ℝ) (onb : Bool) (answers : List (Answer ℝ)) (mtbPos : Vec3 ℝ)
    (r : Result ℝ) (st : OdeState ℝ) (ops : List (GeoOp ℝ)) (its : List (Iter ℝ))
    (h : propagate c (PState.init c p gpos gdir onb) answers mtbPos = some (r, st, ops, its))
    (hall : ∀ it ∈ its, AnsOK c κ it.pre it.ans) :
    lastMove ops = some r.boundary ∧ ∀ g : Ghost ℝ, (g.run ops).onBoundary = r.boundary := by
  unfold propagate at h
  cases hl : loop c (PState.init c p gpos gdir onb) answers with
  | none => rw [hl] at h; simp at h
  | some v =>
    obtain ⟨its', f, left⟩ := v
    rw [hl] at h
    simp only [Option.some.injEq, Prod.mk.injEq] at h
    obtain ⟨rfl, rfl, rfl, rfl⟩ := h
    obtain ⟨hinv, hflag, _, _, _, hz⟩ := loop_spec c hc κ hκ answers _ none _ _ _
      (inv_init c hc p gpos gdir onb)
      (by simp only [PState.init]; exact hc.maxSub_pos) (by intro _ h0; simp [PState.init] at h0)
      hl hall
    have key : lastMove (iterOps c its' ++ (finish c f mtbPos).2.2)
        = some (finish c f mtbPos).1.boundary := by
      unfold lastMove
      rw [lastMoveAux_append]
      exact finish_flag c hc f hinv mtbPos _ hflag hz
    refine ⟨key, fun g => ?_⟩
    exact ghost_onBoundary _ g none (by intro b hb; simp at hb) _ key

/-- C08.4 the looping flag is raised exactly when the substep budget is spent (`max_substeps`
    substeps were accepted) short of the requested step; it excludes the boundary flag, and the
    distance reported is then what was actually travelled -/
theorem looping_iff_budget_spent (c : Cfg ℝ) (hc : CfgOK c) (κ : ℝ) (hκ : 1 ≤ κ)
    (p : ℝ) (gpos gdir : Vec3 ℝ) (onb : Bool) (answers : List (Answer ℝ)) (mtbPos : Vec3 ℝ)
    (its : List (Iter ℝ)) (f : PState ℝ) (left : List (Answer ℝ))
    (hl : loop c (PState.init c p gpos gdir onb) answers = some (its, f, left))
    (hall : ∀ it ∈ its, AnsOK c κ it.pre it.ans) :
    ((finish c f mtbPos).1.looping = true
        ↔ ((accepted c its : ℤ) = c.maxSub ∧ f.distance < c.step))
    ∧ ((finish c f mtbPos).1.looping = true →
        (finish c f mtbPos).1.boundary = false ∧ (finish c f mtbPos).1.distance = f.distance) := by
  obtain ⟨hinv, _, _, hrem, _, hz⟩ := loop_spec c hc κ hκ answers _ none _ _ _
    (inv_init c hc p gpos gdir onb)
    (by simp only [PState.init]; exact hc.maxSub_pos) (by intro _ h0; simp [PState.init] at h0)
    hl hall
  simp only [PState.init] at hrem
  have hiff := finish_looping c f mtbPos
  constructor
  · rw [hiff]
    constructor
    · rintro ⟨h0, hd⟩; exact ⟨by omega, hd⟩
    · rintro ⟨h0, hd⟩; exact ⟨by omega, hd⟩
  · intro hloop
    obtain ⟨h0, hd⟩ := hiff.mp hloop
    have hb := hz h0
    have hpos : 0 < f.distance := hinv.acc_pos (by rw [h0]; exact hc.maxSub_pos)
    have hne : ¬ f.distance = 0 := ne_of_gt hpos
    unfold finish
    simp only [NumR.lt_real, NumR.gt_real, NumR.eq_real, NumR.lit0, Bool.and_eq_true,
      decide_eq_true_eq, h0, hd, and_self, if_true, hne, if_false, hb]

/-- ★ C08.4b the three outcomes are exclusive: a propagation flagged `looping` has NOT
    completed its step — the returned distance is strictly below the requested step (this is
    what `PropagationApplier` relies on when it treats looping as an incomplete step) — and
    conversely, when the substep budget is spent (`max_substeps` accepted) and the track is not
    flagged, the full step has been travelled: the returned distance equals the step. -/
theorem looping_implies_incomplete (c : Cfg ℝ) (hc : CfgOK c) (κ : ℝ) (hκ : 1 ≤ κ)
    (p : ℝ) (gpos gdir : Vec3 ℝ) (onb : Bool) (answers : List (Answer ℝ)) (mtbPos : Vec3 ℝ)
    (its : List (Iter ℝ)) (f : PState ℝ) (left : List (Answer ℝ))
    (hl : loop c (PState.init c p gpos gdir onb) answers = some (its, f, left))
    (hall : ∀ it ∈ its, AnsOK c κ it.pre it.ans) :
    ((finish c f mtbPos).1.looping = true → (finish c f mtbPos).1.distance < c.step)
    ∧ ((accepted c its : ℤ) = c.maxSub → (finish c f mtbPos).1.looping = false →
        (finish c f mtbPos).1.distance = c.step ∧ (finish c f mtbPos).1.boundary = false) := by
  obtain ⟨hiff, himp⟩ := looping_iff_budget_spent c hc κ hκ p gpos gdir onb answers mtbPos its f
    left hl hall
  obtain ⟨hinv, _, _, hrem, _, hz⟩ := loop_spec c hc κ hκ answers _ none _ _ _
    (inv_init c hc p gpos gdir onb)
    (by simp only [PState.init]; exact hc.maxSub_pos) (by intro _ h0; simp [PState.init] at h0)
    hl hall
  simp only [PState.init] at hrem
  constructor
  · intro hloop
    rw [(himp hloop).2]
    exact (hiff.mp hloop).2
  · intro hacc hnl
    have h0 : f.remSub = 0 := by omega
    have hb := hz h0
    have hnlt : ¬ f.distance < c.step := by
      intro hd
      have := hiff.mpr ⟨hacc, hd⟩
      rw [this] at hnl; exact absurd hnl (by simp)
    have hle : f.distance ≤ c.step := by
      have := hinv.rem_nonneg; have := hinv.sum_le; linarith
    have heq : f.distance = c.step := le_antisymm hle (not_lt.mp hnlt)
    have hpos : 0 < f.distance := hinv.acc_pos (by rw [h0]; exact hc.maxSub_pos)
    have hne : ¬ f.distance = 0 := ne_of_gt hpos
    have hirr : ¬ c.step < c.step := lt_irrefl _
    unfold finish
    simp only [NumR.lt_real, NumR.gt_real, NumR.eq_real, NumR.lit0, Bool.and_eq_true,
      decide_eq_true_eq, h0, heq, hirr, and_false, if_false, hb, Bool.false_eq_true]
    have hsp := hc.step_pos
    have hsne : ¬ c.step = 0 := ne_of_gt hsp
    simp [hsp, hsne]

/-- C08.5 the propagator never changes the magnitude of the momentum: the result carries no
    momentum or energy at all (the particle view is read-only), the momentum of the internal ODE
    state is only ever *copied* from a driver answer, it is not modified after the loop, and the
    last direction handed to the geometry is exactly `make_unit_vector` of it — a vector of
    norm 1 whenever the momentum is non-zero -/
theorem momentum_direction_only (c : Cfg ℝ)
    (s0 : PState ℝ) (answers : List (Answer ℝ)) (mtbPos : Vec3 ℝ)
    (its : List (Iter ℝ)) (f : PState ℝ) (left : List (Answer ℝ))
    (hl : loop c s0 answers = some (its, f, left)) (g : Ghost ℝ) :
    (g.run (iterOps c its ++ (finish c f mtbPos).2.2)).dir = makeUnitVector f.state.mom
    ∧ (finish c f mtbPos).2.1.mom = f.state.mom
    ∧ (f.state.mom = s0.state.mom ∨ ∃ it ∈ its, f.state.mom = it.ans.sub.state.mom)
    ∧ (Vec3.dot f.state.mom f.state.mom ≠ 0 →
        Vec3.dot (makeUnitVector f.state.mom) (makeUnitVector f.state.mom) = 1) := by
  refine ⟨?_, (finish_dir c f mtbPos g).2, mom_provenance c answers s0 its f left hl,
    unit_vector_norm _⟩
  have : g.run (iterOps c its ++ (finish c f mtbPos).2.2)
      = (g.run (iterOps c its)).run (finish c f mtbPos).2.2 := by
    unfold Ghost.run; rw [List.foldl_append]
  rw [this]
  exact (finish_dir c f mtbPos _).1

/-- ★ C08.6 the right-hand side of the equation of motion follows the field
    (`MagFieldEquation::operator()`): the momentum derivative is perpendicular to the momentum —
    so |p|² is a constant of the exact motion — and perpendicular to the field, for every field
    value, charge coefficient and state; the position derivative is `make_unit_vector` of the
    momentum, a vector of norm 1 -/
theorem lorentz_rhs_follows_field (k : ℝ) (b : Vec3 ℝ) (y : OdeState ℝ) :
    Vec3.dot y.mom (lorentzRhs k b y).mom = 0 ∧ Vec3.dot b (lorentzRhs k b y).mom = 0 ∧
    (lorentzRhs k b y).pos = makeUnitVector y.mom ∧
    (Vec3.dot y.mom y.mom ≠ 0 →
      Vec3.dot (lorentzRhs k b y).pos (lorentzRhs k b y).pos = 1) := by
  have hpos : (lorentzRhs k b y).pos = makeUnitVector y.mom := by
    unfold lorentzRhs makeUnitVector Vec3.norm
    rfl
  refine ⟨?_, ?_, hpos, fun h => by rw [hpos]; exact unit_vector_norm _ h⟩
  · unfold lorentzRhs cross
    simp only [Vec3R.dot_real, NumR.sqrt_real, NumR.hmul_real, NumR.hdiv_real, NumR.hsub_real,
      NumR.lit1]
    ring
  · unfold lorentzRhs cross
    simp only [Vec3R.dot_real, NumR.sqrt_real, NumR.hmul_real, NumR.hdiv_real, NumR.hsub_real,
      NumR.lit1]
    ring

/-- validated `FieldDriverOptions` give the configuration the loop theorems assume -/
theorem valid_options_cfgOK (o : Options ℝ) (step : ℝ) (hs : 0 < step) (hv : o.valid = true) :
    CfgOK (o.cfg step) := by
  unfold Options.valid at hv
  simp only [Bool.and_eq_true, NumR.gt_real, NumR.lt_real, NumR.lit0, NumR.lit1,
    decide_eq_true_eq] at hv
  obtain ⟨⟨⟨⟨⟨⟨⟨⟨⟨⟨⟨h1, h2⟩, h3⟩, h4⟩, h5⟩, h6⟩, h7⟩, h8⟩, h9⟩, h10⟩, h11⟩, h12⟩ := hv
  exact ⟨hs, h1, h3, h12⟩

/-- C08.6 the driver contract `0 < substep ≤ requested step` is not only assumed: it holds for
    `FieldDriver::advance` over ANY stepper (whatever states and error estimates it returns),
    for validated options and a positive request, provided the error estimates are finite
    numbers (`errSq` comparisons are real comparisons) -/
theorem driver_step_in_range (o : Options ℝ) (hv : o.valid = true) (σ : Type)
    (stp : Driver.Stepper σ ℝ) (maxChord : Option ℝ) (hmc : ∀ m, maxChord = some m → 0 < m)
    (step : ℝ) (hs : 0 < step) (y : OdeState ℝ) (s : σ) :
    0 < (Driver.advance o stp maxChord step y s).1.step
    ∧ (Driver.advance o stp maxChord step y s).1.step ≤ step
    ∧ (∀ m, (Driver.advance o stp maxChord step y s).2.1 = some m → 0 < m) :=
  advance_range o hv σ stp maxChord hmc step hs y s

/-- C08.7 `ZHelixStepper::move` is exact for the configuration it is written for: a helix about
    the z axis THROUGH THE ORIGIN.  With start point `(R cos a, R sin a, z)`, unit direction
    `(−σ sinθ sin a, σ sinθ cos a, cosθ)` (σ = +1: the code's "positive helicity") and radius
    argument `ρ > 0`, the end state after arc length `h` is the analytic helix point
    `(R cos(a+φ), R sin(a+φ), z + φ ρ cosθ)`, `φ = σ h / ρ`, the direction is the rotated one and
    `|p|` is conserved exactly.  (The z advance `φ ρ cosθ = σ h cosθ` equals the true `h cosθ`
    only for σ = +1 or cosθ = 0: see `zhelix_negative_helicity_wrong`.) -/
theorem zhelix_exact (R a z sθ cθ ρ h pm : ℝ) (positive : Bool) (hρ : ρ ≠ 0)
    (hunit : sθ * sθ + cθ * cθ = 1) (hpm : 0 ≤ pm) :
    let sg : ℝ := if positive then 1 else -1
    let φ := sg * h / ρ
    let dir : Vec3 ℝ := ⟨-sg * sθ * Real.sin a, sg * sθ * Real.cos a, cθ⟩
    let beg : OdeState ℝ := ⟨⟨R * Real.cos a, R * Real.sin a, z⟩, ⟨dir.x * pm, dir.y * pm, dir.z * pm⟩⟩
    let rhs : OdeState ℝ := ⟨dir, ⟨0, 0, 0⟩⟩
    let e := zhelixMove h ρ positive beg rhs
    e.pos = ⟨R * Real.cos (a + φ), R * Real.sin (a + φ), z + φ * ρ * cθ⟩
    ∧ e.mom = ⟨-sg * sθ * Real.sin (a + φ) * pm, sg * sθ * Real.cos (a + φ) * pm, cθ * pm⟩
    ∧ Vec3.dot e.mom e.mom = Vec3.dot beg.mom beg.mom :=
  zhelixMove_on_axis R a z sθ cθ ρ h pm positive hρ hunit hpm

/-- C08.7b (defect witness) the same formula applied OFF axis is wrong: the code rotates the
    position about the origin, not about the centre of gyration.  Start at (2,0,0) moving along
    +y on a circle of radius 1 (centre (1,0,0)); after a quarter turn (h = π/2) the particle is
    at (1,1,0), the code returns (0,2,0). -/
theorem zhelix_off_axis_wrong :
    (zhelixMove (Real.pi / 2) 1 true ⟨⟨2, 0, 0⟩, ⟨0, 1, 0⟩⟩ ⟨⟨0, 1, 0⟩, ⟨0, 0, 0⟩⟩).pos
      = (⟨0, 2, 0⟩ : Vec3 ℝ) :=
  zhelix_off_axis

/-- C08.7c (defect witness) for the code's "negative helicity" the advance along the field has
    the wrong sign: direction (0, −0.6, 0.8) from (1,0,0), radius argument 0.6, step 1: the
    code returns z = −0.8 where the particle is at z = +0.8. -/
theorem zhelix_negative_helicity_wrong :
    (zhelixMove 1 (6 / 10) false ⟨⟨1, 0, 0⟩, ⟨0, -(6 / 10), 8 / 10⟩⟩
        ⟨⟨0, -(6 / 10), 8 / 10⟩, ⟨0, 0, 0⟩⟩).pos.z = -(8 / 10 : ℝ) :=
  zhelix_neg_z

/-! Non-vacuity: the hypotheses are satisfiable (default options; a contract-satisfying answer) -/
example : CfgOK (⟨1, 1 / 1000000, 1 / 100000, 10⟩ : Cfg ℝ) := by
  constructor <;> norm_num
example : (1 : ℝ) ≤ 100000 * ((1 / 100000 : ℝ) / 1) ∧ (1 : ℝ) ≤ 1 / 1000000 * 2 ^ 20 := by
  constructor <;> norm_num
/-- an accepted straight substep of length 1/2 satisfies the contracts with κ = 1 -/
example : AnsOK (⟨1, 1 / 1000000, 1 / 100000, 10⟩ : Cfg ℝ) 1
    (PState.init ⟨1, 1 / 1000000, 1 / 100000, 10⟩ 1 ⟨0, 0, 0⟩ ⟨1, 0, 0⟩ false)
    ⟨⟨⟨⟨1 / 2, 0, 0⟩, ⟨1, 0, 0⟩⟩, 1 / 2⟩, ⟨false, 1 / 2 + 1 / 100000⟩⟩ := by
  refine ⟨by norm_num, by simp only [PState.init]; norm_num, ?_, by simp, by simp⟩
  unfold chordLen
  rw [chord_length]
  simp only [PState.init, dsq]
  have : ((1 : ℝ) / 2 - 0) * (1 / 2 - 0) + (0 - 0) * (0 - 0) + (0 - 0) * (0 - 0) = (1 / 2) * (1 / 2) := by
    norm_num
  rw [this, Real.sqrt_mul_self (by norm_num)]
  norm_num
example : Options.valid (⟨1 / 1000000, 1 / 40, 1 / 100000, 1 / 100000, 1 / 1000, 1 / 10000,
    -(1 / 5), -(1 / 4), 9 / 10, 5, 1 / 10, 100, 10⟩ : Options ℝ) = true := by
  unfold Options.valid
  simp only [Bool.and_eq_true, NumR.gt_real, NumR.lt_real, NumR.lit0, NumR.lit1, decide_eq_true_eq]
  norm_num

end CelerVerif.FieldProp
