/-
C02 — every primary and secondary is transported exactly once.
Property theorems only (helpers: Lemmas/TrackInit*.lean).  Model: Model/TrackInit.lean, tied to
the real actions by harness/trackinit.cc (exact diff of full state dumps after every action).

Ghost accounting (`Core s ni`): `created` = every id handed out by make_track_id, `started` =
every track ever placed in a slot, `finished` = every track whose slot was released or
overwritten in place, `pendL` = identities of the `ni` valid initializers, `liveL` = identities
in the occupied slots.
-/
import CelerVerif.Lemmas.TrackInitReach
import CelerVerif.Lemmas.TrackInitITC3
import CelerVerif.Lemmas.TrackInitDrain2
import CelerVerif.Lemmas.TrackInitPsi6
import CelerVerif.Lemmas.TrackInitEnumTable

namespace CelerVerif.TrackInit

/-- ★ transported_once (multiset form): whenever the accounting invariant holds — and it holds in
    every state reached by the actions, see the `*_spec` theorems below — the ids handed out are
    exactly the started tracks plus the pending initializers, and the started tracks are exactly
    the ones in a slot plus the finished ones; no multiplicity is lost or duplicated. -/
theorem transported_once {s : State} {ni : Nat} (h : Core s ni) :
    s.created.Perm (s.started ++ pendL s.initializers ni) ∧
    s.started.Perm (liveL s.slots ++ s.finished) := by
  constructor
  · rw [List.perm_iff_count]; intro r; rw [List.count_append]; exact h.once r
  · rw [List.perm_iff_count]; intro r; rw [List.count_append]; exact h.slots r

/-- unique_ids: all live, pending and finished tracks have pairwise different (event, id),
    every id is below its event's counter, every parent is an earlier started track of the
    same event. -/
theorem unique_ids {s : State} {ni : Nat} (h : Core s ni) :
    ((liveL s.slots ++ s.finished ++ pendL s.initializers ni).map Rec.key).Nodup ∧
    (∀ r ∈ liveL s.slots ++ s.finished ++ pendL s.initializers ni,
      r.ev < s.trackCounters.length ∧ r.tid < ctr s r.ev ∧
      ∀ p, r.parent = some p → p < r.tid ∧ ∃ q ∈ s.started, q.ev = r.ev ∧ q.tid = p) := by
  have hperm : s.created.Perm (liveL s.slots ++ s.finished ++ pendL s.initializers ni) := by
    obtain ⟨h1, h2⟩ := transported_once h
    exact h1.trans (List.Perm.append_right _ h2)
  constructor
  · exact (List.Perm.nodup_iff (hperm.map Rec.key)).mp h.nodup
  · intro r hr
    have hc : r ∈ s.created := hperm.symm.subset hr
    exact ⟨(h.below r hc).1, (h.below r hc).2, h.parent r hc⟩

/-- no slot resurrects a finished track and no track is in two slots: a finished identity is
    neither live nor pending, and live identities are pairwise distinct. -/
theorem no_resurrection {s : State} {ni : Nat} (h : Core s ni) :
    (∀ r ∈ s.finished, r.key ∉ (liveL s.slots ++ pendL s.initializers ni).map Rec.key) ∧
    ((liveL s.slots).map Rec.key).Nodup := by
  have hn := (unique_ids h).1
  rw [List.append_assoc, List.map_append, List.nodup_append] at hn
  obtain ⟨h1, h2, h3⟩ := hn
  constructor
  · intro r hr hmem
    rw [List.map_append, List.mem_append] at hmem
    rw [List.map_append, List.nodup_append] at h2
    rcases hmem with hm | hm
    · exact h3 _ hm _ (List.mem_map.mpr ⟨r, List.mem_append_left _ hr, rfl⟩) rfl
    · exact h2.2.2 _ (List.mem_map.mpr ⟨r, hr, rfl⟩) _ hm rfl
  · exact h1

/-- ★ ExtendFromSecondaries (both track orders, every slot count/capacity, any secondaries):
    if the capacity check passes, the accounting invariant is preserved, the vacancy list is
    exactly the increasing list of empty slots, `num_vacancies`, `num_alive`, `num_secondaries`,
    `num_initializers` are exact, and every slot is inactive/alive/initializing; if it fails, an
    error is returned and no slot, initializer, counter or parent entry was written
    (capacity_checked_first). -/
theorem extendFromSecondaries_spec {cfg : Cfg} {s : State} (hL : Lens cfg s)
    (hC : Core s s.c.numInitializers) (hend : ∀ x ∈ s.slots, x.endOk) :
    match extendFromSecondaries s with
    | .ok s' => EFSOk cfg s s'
    | .error (e, s') => e = .capacity ∧ EFSErr cfg s s' :=
  efs_spec hL hC hend

/-- the offsets computed by the exclusive scan give every slot a private, contiguous range of
    the initializer stack: per-slot loop invariant (cursor = old size + prefix sum). -/
theorem processSecondaries_ranges {cfg : Cfg} {s0 : State} {c2 : Counters} {vac scanned : List Nat}
    {old : Nat} (hL0 : Lens cfg s0) (hend : ∀ x ∈ s0.slots, x.endOk)
    (hsc : ∀ k, k < cfg.slots → scanned.getD k 0 = prefixQ cfg.order s0.slots k)
    (hc2a : c2.numInitializers = old + prefixQ cfg.order s0.slots cfg.slots)
    (hc2b : c2.numSecondaries = prefixQ cfg.order s0.slots cfg.slots)
    (hcap : c2.numInitializers ≤ cfg.capacity) (k : Nat) (hk : k ≤ cfg.slots) {s : State}
    (h0 : EFSInv cfg s0 c2 vac scanned old 0 s) :
    EFSInv cfg s0 c2 vac scanned old k ((List.range k).foldl (processSlot c2) s) :=
  efs_loop hL0 hend hsc hc2a hc2b hcap k hk h0

/-- ExtendFromPrimaries: every inserted primary becomes exactly one pending initializer with a
    fresh id; counters exact; parents cleared. -/
theorem extendFromPrimaries_spec {cfg : Cfg} {s : State} (hL : Lens cfg s)
    (hC : Core s s.c.numInitializers) (hev : ∀ p ∈ s.pending, p.ev < cfg.maxEvents)
    (hcap : s.c.numInitializers + s.pending.length ≤ cfg.capacity) :
    EFPOk cfg s (extendFromPrimaries s) :=
  efp_spec hL hC hev hcap

/-- `insert` refuses primaries that do not fit, before touching anything (capacity_checked_first) -/
theorem insertPrimaries_checked (ps : List Primary) (s : State) :
    (ps.length + s.c.numInitializers > s.cfg.capacity → insertPrimaries ps s = .error .capacity) ∧
    (∀ s', insertPrimaries ps s = .ok s' →
      ps.length + s.c.numInitializers ≤ s.cfg.capacity ∧ s' = { s with pending := ps }) := by
  unfold insertPrimaries
  constructor
  · intro h; simp; omega
  · intro s' h
    split at h
    · cases h
    · split at h
      · cases h
      · injection h with h
        exact ⟨by omega, h.symm⟩

/-- initTracks_injective (TrackOrder::none and every reindex_* order): thread `k` takes initializer `numInit-1-k` into
    vacancy `numVac-1-k`; all target slots are distinct and empty, nothing else is written; the
    accounting invariant is preserved with `numInit - k` pending. -/
theorem initTracks_none_loop {cfg : Cfg} {s0 : State} (hord : cfg.order ≠ .initCharge) {n : Nat}
    (hn1 : n ≤ s0.c.numVacancies) (hn2 : n ≤ s0.c.numInitializers)
    (hni : s0.c.numInitializers ≤ cfg.capacity) (hvlen : s0.c.numVacancies ≤ s0.vacancies.length)
    (hvnd : s0.vacancies.Nodup) (hvlt : ∀ v ∈ s0.vacancies, v < cfg.slots)
    (k : Nat) (hk : k ≤ n) {s : State} (h0 : ITInv cfg s0 0 s) :
    ITInv cfg s0 k ((List.range k).foldl (initTrack s0.c n) s) :=
  it_loop_none hord hn1 hn2 hni hvlen hvnd hvlt k hk h0

/-- initTracks_injective (TrackOrder::init_charge): with the index array stably partitioned by
    neutrality (`std::stable_partition` = `filter p ++ filter ¬p`), the thread at position `p`
    takes initializer `indices[p] + numInit - n` (a permutation of the last `n`) into vacancy
    `index_partitioned` (`p` for neutral ones, `numVac - n + p` for charged ones: injective,
    `vIdxOf_inj`); all target slots are distinct and empty, nothing else is written, and the
    accounting invariant is preserved. -/
theorem initTracks_charge_loop {cfg : Cfg} {s1 : State} (hord : cfg.order = .initCharge) {n : Nat}
    (hn1 : n ≤ s1.c.numVacancies) (hn2 : n ≤ s1.c.numInitializers)
    (hvlen : s1.c.numVacancies ≤ s1.vacancies.length) (hvnd : s1.vacancies.Nodup)
    (hvlt : ∀ v ∈ s1.vacancies, v < cfg.slots)
    (hidx : ∀ p, p < n → s1.indices.getD p 0 = piOf s1 n p)
    (t : Nat) (ht : t ≤ n) {s : State} (h0 : ITInvC cfg s1 n 0 s) :
    ITInvC cfg s1 n t ((List.range t).foldl (initTrack s1.c n) s) :=
  it_loop_charge hord hn1 hn2 hvlen hvnd hvlt hidx t ht h0

/-- InitializeTracks as a whole, BOTH track orders: from the between-steps invariant (after the
    primaries were queued) it starts exactly `min(vacancies, initializers)` tracks, keeps the
    accounting invariant, and `num_active`, `num_vacancies`, `num_initializers` are exact. -/
theorem initializeTracks_spec (cfg : Cfg) {s : State}
    (hL : Lens cfg s) (hC : Core s s.c.numInitializers) (hcap : s.c.numInitializers ≤ cfg.capacity)
    (hvac : s.vacancies = (List.range cfg.slots).filter
      (fun i => !(s.slots.getD i Slot.empty).active))
    (hnvac : s.c.numVacancies = s.vacancies.length) (hst : ∀ x ∈ s.slots, x.stepOk)
    (hocc : (liveL s.slots).length + s.c.numVacancies = cfg.slots) :
    Mid cfg (initializeTracks s) ∧
    (initializeTracks s).c.numInitializers
      = s.c.numInitializers - min s.c.numVacancies s.c.numInitializers ∧
    (initializeTracks s).c.numVacancies
      = s.c.numVacancies - min s.c.numVacancies s.c.numInitializers ∧
    (initializeTracks s).pending = s.pending ∧
    (initializeTracks s).c.numGenerated = s.c.numGenerated :=
  itSpec_all cfg s hL hC hcap hvac hnvac hst hocc

/-- ★ the invariant holds in EVERY state the Stepper protocol can reach: construction, any
    number of steps with or without new primaries (any events < max_events, any number in
    flight), any per-step physics outcome, reset at any time including after a failed capacity
    check, reseed at idle states; every slot count, every capacity, both track orders.
    Induction over the derivation (= over the op sequence), no bound. -/
theorem inv_reachable {cfg : Cfg} {s : State} (h : Reachable cfg s) : Inv cfg s :=
  inv_of_reachable (itSpec_all cfg) h

/-- ★ transported_once for reachable states, with the vacancy list and uniqueness -/
theorem reachable_transported_once {cfg : Cfg} {s : State} (h : Reachable cfg s) :
    s.created.Perm (s.started ++ pendL s.initializers s.c.numInitializers) ∧
    s.started.Perm (liveL s.slots ++ s.finished) ∧
    ((liveL s.slots ++ s.finished ++ pendL s.initializers s.c.numInitializers).map Rec.key).Nodup ∧
    s.vacancies = (List.range cfg.slots).filter (fun i => !(s.slots.getD i Slot.empty).active) ∧
    s.vacancies.Pairwise (· < ·) ∧
    (liveL s.slots).length + s.c.numVacancies = cfg.slots := by
  have hI := inv_reachable h
  obtain ⟨h1, h2⟩ := transported_once hI.core
  refine ⟨h1, h2, (unique_ids hI.core).1, hI.vac, ?_, hI.occupied⟩
  rw [hI.vac]
  exact List.Pairwise.sublist List.filter_sublist List.pairwise_lt_range

/-- ★ counters_exact: after every successful Stepper call from a reachable state the reported
    counters are the true numbers: `generated` = primaries handed in, `active` = occupied slots
    right after InitializeTracks, `alive` = occupied slots at the end, `queued` = pending
    initializers (whose identities are accounted for by `reachable_transported_once`), and
    `num_vacancies` = empty slots.
    progress: `active` = previously alive + min(vacancies, queued + new primaries), i.e. if
    queued > 0 and vacancies > 0 the step initialises the minimum of the two. -/
theorem counters_exact {cfg : Cfg} {s s' : State} (h : Reachable cfg s) (ps : List Primary)
    (hps : ∀ p ∈ ps, p.ev < cfg.maxEvents) (o : List Outcome) (ho : OracleOk o)
    (hstep : stepAny ps o s = .ok s') :
    (result s').generated = ps.length ∧
    (result s').alive = (liveL s'.slots).length ∧
    (result s').active = (liveL s.slots).length
      + min s.c.numVacancies (s.c.numInitializers + ps.length) ∧
    (result s').queued = (pendL s'.initializers s'.c.numInitializers).length ∧
    (result s').queued ≤ cfg.capacity ∧
    (liveL s'.slots).length + s'.c.numVacancies = cfg.slots := by
  have hI := inv_reachable h
  have hk := (stepAny_spec (itSpec_all cfg) hI ps hps o ho).1 s' hstep
  refine ⟨?_, hk.alive, hk.started, ?_, hk.inv.cap, hk.inv.occupied⟩
  · have := hk.gen; simpa [result] using this
  · have := hk.inv.core.ni_le
    simp [result, pendL]; omega

/-- a failed Stepper call leaves a state from which `reset` re-establishes the invariant; the
    failure is always the capacity error raised before any write (see
    `extendFromSecondaries_spec`, `insertPrimaries_checked`) -/
theorem failed_step_recoverable {cfg : Cfg} {s s' : State} {e : Err} (h : Reachable cfg s)
    (ps : List Primary) (hps : ∀ p ∈ ps, p.ev < cfg.maxEvents) (o : List Outcome)
    (ho : OracleOk o) (hstep : stepAny ps o s = .error (e, s')) : Inv cfg (reset s') :=
  inv_reachable (Reachable.resetAfterError ps o h hps ho hstep)

/-- pre-step, any physics outcome and the tracking cut neither create nor lose a track -/
theorem physics_keeps_tracks {cfg : Cfg} {s : State} {ni : Nat} (hL : Lens cfg s) (hC : Core s ni)
    (o : List Outcome) (ho : OracleOk o) :
    Core (trackingCut (interact o (preStep s))) ni ∧
    (∀ x ∈ (trackingCut (interact o (preStep s))).slots, x.endOk) ∧
    liveL (trackingCut (interact o (preStep s))).slots = liveL s.slots :=
  let h := front_keeps hL hC o ho
  ⟨h.2.1, h.2.2.1, h.2.2.2.1⟩

/-- progress, liveness part — PARTIAL.
    Full statement (not proved): for every sequence of per-step outcomes in which every track is
    killed within K of its own steps and only finitely many secondaries are emitted in total, the
    loop reaches queued = alive = 0 after finitely many steps.
    Proved here: the case K = 1 without secondaries — if from some reachable state on no primaries
    arrive and the physics kills every track in its first step, then after
    `queued / slots + 2` Stepper calls (none of which can fail) `queued = alive = 0`, for every
    slot count ≥ 1, capacity and track order.  (The per-step progress fact — a step starts
    exactly min(vacancies, queued) tracks — is `counters_exact`, for every outcome.)
    That real physics kills every track after finitely many steps is outside the model. -/
theorem liveness_drain_partial {cfg : Cfg} (hslots : 0 < cfg.slots) {s : State}
    (h : Reachable cfg s) (os : List (List Outcome)) (hos : ∀ o ∈ os, DrainOracle cfg o)
    (hlen : s.c.numInitializers / cfg.slots + 2 ≤ os.length) :
    ∃ s', RunsTo s os s' ∧ Reachable cfg s' ∧ (result s').queued = 0 ∧ (result s').alive = 0 :=
  liveness_drain hslots h os hos hlen

/-- progress, liveness part — conditional on the physics (hence `_partial` with respect to
    the property; as a conditional statement it is complete).
    Hypotheses on the outcome stream (`AgedRun`): every Stepper call succeeds, brings no new
    primaries, and every track whose outcome is `alive` has taken fewer than `K` steps including
    the current one (⇔ every track is killed within `K` of its own steps); the total number of
    valid secondaries in the outcome lists is at most `S`.  Conclusion: from ANY reachable state,
    for every slot count ≥ 1, capacity and track order, after at most
        f(K, S, slots, queued) = K · (slots + queued + S)
    Stepper calls `queued = alive = 0` (and no slot is occupied).
    Proof: the potential  Σ_{occupied slots} max(1, K − steps) + K · queued  drops by at least
    the number of tracks in flight in every call (≥ 1 unless already drained) and grows by at
    most K per emitted secondary (`step_potential`).  That real physics kills every track after
    finitely many steps with finitely many secondaries is outside the model. -/
theorem liveness_bounded_partial {cfg : Cfg} (hslots : 1 ≤ cfg.slots) {K : Nat} (hK : 1 ≤ K)
    {s s' : State} (h : Reachable cfg s) {os : List (List Outcome)}
    (hrun : AgedRun cfg K s os s') (S : Nat) (hS : secsTotal os ≤ S)
    (hlen : K * (cfg.slots + s.c.numInitializers + S) ≤ os.length) :
    (result s').queued = 0 ∧ (result s').alive = 0 ∧ liveL s'.slots = [] :=
  liveness_bounded hslots hK (inv_reachable h) hrun S hS hlen

/-- the potential argument for a single Stepper call (no new primaries): the invariant is kept,
    a drained loop stays drained, and otherwise the potential drops by at least one up to `K`
    per secondary in the outcome list -/
theorem potential_decreases {cfg : Cfg} (hslots : 1 ≤ cfg.slots) {K : Nat} (hK : 1 ≤ K)
    {s s' : State} (h : Reachable cfg s) (o : List Outcome) (hlen : cfg.slots ≤ o.length)
    (ho : OracleOk o) (hage : AgeOkL K (stepMid s).slots o) (hstep : stepAny [] o s = .ok s') :
    (Psi K s = 0 → Psi K s' = 0) ∧
    Psi K s' + (if Psi K s = 0 then 0 else 1) ≤ Psi K s + K * secsOf o :=
  let r := step_potential hslots hK (inv_reachable h) o hlen ho hage hstep
  ⟨r.2.2.1, r.2.2.2⟩

/-- the enums of the model are the enums of the CURRENT source (tables regenerated from
    celeritas/Types.hh on every run): every `Status`/`Order` constructor is the C++ enumerator of
    the same name with the same value (= constructor order), `TrackStatus` has no other
    non-sentinel enumerator, `errored` opens the dying range, and `init_charge` is the only
    layout order (`[begin_layout_, end_layout_)`); the remaining `TrackOrder` values (reindex_*)
    only permute thread→slot and are not modelled. -/
theorem enums_match_source :
    (∀ x ∈ allStatus, x.entry ∈ Generated.TrackInit.trackStatus) ∧
    (Generated.TrackInit.trackStatus.filter (fun p => !isSentinel p)) = allStatus.map Status.entry ∧
    valueOf Generated.TrackInit.trackStatus "begin_dying_" = some (Status.entry .errored).2 ∧
    (∀ x ∈ allOrder, x.entry ∈ Generated.TrackInit.trackOrder) ∧
    valueOf Generated.TrackInit.trackOrder "begin_layout_" = some (Order.entry .initCharge).2 ∧
    valueOf Generated.TrackInit.trackOrder "end_layout_" = some ((Order.entry .initCharge).2 + 1) ∧
    -- every other real TrackOrder enumerator lies in the reindex range = `Order.reindex`
    (∀ p ∈ Generated.TrackInit.trackOrder, isOrderSentinel p = true ∨ p = Order.entry .none ∨
      p = Order.entry .initCharge ∨
      ((Order.entry .reindex).2 ≤ p.2 ∧
        p.2 < (valueOf Generated.TrackInit.trackOrder "end_reindex_").getD 0)) := by
  decide

/-- the `reindex_*` track orders do not touch the track-initialisation arithmetic: in the
    CURRENT sources of InitializeTracksAction, ExtendFromPrimaries/SecondariesAction, their
    executors, TrackInitAlgorithms and Utils.hh the only `TrackOrder` enumerator ever compared
    is `init_charge`, and the thread→slot map `track_slots` (the only thing the reindex orders
    change) is never read there — these kernels address track slots directly.  Hence any
    `reindex_*` order takes exactly the branches of `TrackOrder::none`; in the model that is
    `Order.reindex`, every test being `order = .initCharge`, and all theorems above (which
    assume at most `order ≠ .initCharge`) cover it.  Real runs with reindex_shuffle/status/
    particle_type/along_step/step_limit/both are diffed against the model in the check. -/
theorem reindex_orders_not_consulted :
    Generated.TrackInit.trackOrderMentions = ["init_charge"] ∧
    Generated.TrackInit.trackSlotsMentions = 0 := by
  decide

/-- consecutively numbered steps: a valid track's step counter grows by exactly one per step,
    a new track starts at zero -/
theorem steps_consecutive (x : Slot) (o : Outcome) :
    (x.status ≠ .inactive → x.status ≠ .errored → (interactSlot x o).steps = x.steps + 1) ∧
    (x.status = .inactive ∨ x.status = .errored → (interactSlot x o).steps = x.steps) := by
  unfold interactSlot
  cases h : x.status <;> simp

/-- reset_reestablishes_invariant: after `CoreState::reset` — from any state, including the one
    left by a failed capacity check — the invariant holds with all slots inactive.
    (`reset` does not clear primaries inserted but not yet turned into initializers; every
    step consumes them, so `pending = []` holds at every point where the Stepper can reset.) -/
theorem reset_reestablishes_invariant {cfg : Cfg} {s : State} (hL : Lens cfg s)
    (hp : s.pending = []) : Inv cfg (reset s) := by
  have hsl : ∀ x ∈ (reset s).slots, x.active = false := by
    intro x hx
    simp only [reset, List.mem_map] at hx
    obtain ⟨y, _, rfl⟩ := hx
    simp [Slot.active]
  have hlive : liveL (reset s).slots = [] := by
    unfold liveL
    rw [List.filter_eq_nil_iff.mpr (fun x hx => by simp [hsl x hx])]; rfl
  have hlen : (reset s).slots.length = cfg.slots := by simp [reset, hL.slots]
  refine ⟨⟨hL.cfg_eq, hlen, hL.inits, hL.parents, hL.secCounts, hL.counters⟩, ?_, ?_, ?_, ?_, ?_,
    hp, ?_⟩
  · refine ⟨by simp [reset], by intro r hr; simp [reset] at hr, by simp [reset], ?_, ?_,
      by intro r hr; simp [reset] at hr, ?_⟩
    · intro r; simp [reset, pendL]
    · intro r; rw [hlive]; simp [reset]
    · intro x hx hxa; rw [hsl x hx] at hxa; cases hxa
  · simp [reset]
  · have hcfg : (reset s).cfg.slots = cfg.slots := by simp [reset, hL.cfg_eq]
    show List.range s.cfg.slots = _
    rw [hL.cfg_eq]
    symm
    apply List.filter_eq_self.mpr
    intro i hi
    have hi' : i < (reset s).slots.length := by rw [hlen]; simpa using hi
    rw [getD_getElem _ _ _ hi', hsl _ (List.getElem_mem hi')]; rfl
  · simp [reset]
  · intro x hx
    have := hsl x hx
    left
    simp [Slot.active] at this; exact this
  · rw [hlive]; simp [reset, hL.cfg_eq]

/-! non-vacuity: a concrete run (2 slots, capacity 4, order none): three primaries, the first
    step kills slot 1 with two secondaries; everything is accounted for. -/
def exCfg : Cfg := ⟨2, 4, 1, .none⟩
def exRun : Except (Err × State) State :=
  stepWith [⟨0, 0, 1⟩, ⟨0, 0, 2⟩, ⟨0, 1, 3⟩] [⟨.alive, []⟩, ⟨.killed, [⟨true, 0⟩, ⟨true, 1⟩]⟩]
    (State.init exCfg)

example : (match exRun with
    | .ok s => (s.created.length, s.started.length, s.finished.length, s.c.numInitializers,
                s.vacancies, result s)
    | .error _ => (0, 0, 0, 0, [], ⟨0, 0, 0, 0⟩)) = (5, 3, 1, 2, [], ⟨3, 2, 2, 2⟩) := by decide

example : ∀ s', exRun = .ok s' → Reachable exCfg s' ∧ Inv exCfg s' := by
  intro s' h
  have hr : Reachable exCfg s' :=
    Reachable.step [⟨0, 0, 1⟩, ⟨0, 0, 2⟩, ⟨0, 1, 3⟩] [⟨.alive, []⟩, ⟨.killed, [⟨true, 0⟩, ⟨true, 1⟩]⟩]
      Reachable.init (by decide)
      (by intro x hx; simp at hx; rcases hx with rfl | rfl <;> simp) h
  exact ⟨hr, inv_reachable hr⟩

-- an aged run exists: one call on the fresh state with K = 2
example : ∃ s1, AgedRun exCfg 2 (State.init exCfg) [[⟨.alive, []⟩, ⟨.alive, []⟩]] s1 :=
  ⟨_, AgedRun.cons (by decide) (by intro x hx; simp at hx; simp [hx])
    (by simp [AgeOkL, stepMid, State.init, exCfg, extendFromPrimaries, initializeTracks, Slot.empty])
    rfl AgedRun.nil⟩

example : Inv exCfg (reset (State.init exCfg)) :=
  reset_reestablishes_invariant
    ⟨rfl, by decide, by decide, by decide, by decide, by decide⟩ rfl

example : (insertPrimaries [⟨0, 0, 1⟩, ⟨0, 0, 1⟩] (State.init ⟨1, 1, 1, .none⟩)) = .error .capacity := by
  rfl

end CelerVerif.TrackInit
