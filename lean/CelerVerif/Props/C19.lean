/-
C19 — geometry input survives a JSON round trip unchanged.
Property theorems only (helpers: Lemmas/OrangeIO*.lean; model: Model/OrangeIO.lean, tied to
OrangeInputIO.json.cc & co. by the correspondence harness; Generated/OrangeIOKeys.lean is
regenerated from the source on every run).

`encode num x` models `to_json(x)`; `num = Json.dbl` is the in-memory nlohmann object,
`num = numText` is what `parse(dump(...))` returns (non-finite doubles become `null`).
`decode` models `from_json`.  `x.Valid fin` is a decidable predicate; `fin = AnyDouble` for
the in-memory statement, `fin = Finite` (bit pattern of a finite double) for the text one.
-/
import CelerVerif.Lemmas.OrangeIOWitness

namespace CelerVerif.OrangeIO
open CelerVerif.Json

/-! ### ★ the round trip -/

/-- ★ C19 (through the JSON text, as a file): every `OrangeInput` satisfying `Valid Finite`
    is returned unchanged by `from_json(parse(dump(to_json(x))))`: all universes, surfaces
    (type + data), volumes (faces, logic, flags, zorder, bbox, labels), unit bboxes,
    daughter placements and transforms, rect-array grids, tolerances — any sizes. -/
theorem decode_encode (x : OrangeInput) (h : x.Valid Finite) :
    bindR (encode numText x) decode = .ok x :=
  decode_encode_gen numOK_text x h

/-- ★ C19 (in memory, no text step): same with no finiteness requirement on doubles -/
theorem decode_encode_in_memory (x : OrangeInput) (h : x.Valid AnyDouble) :
    bindR (encode Json.dbl x) decode = .ok x :=
  decode_encode_gen numOK_mem x h

/-- ★ C19 for inputs built by the construction API (`UnitProto::build` fills in
    `VolumeInput::obz`): everything except the oriented bounding zones comes back — the result
    is the input with every `obz` reset to the default-constructed value, provided that
    stripped input is `Valid`. -/
theorem decode_encode_modulo_obz (x : OrangeInput) (h : x.stripObz.Valid Finite) :
    bindR (encode numText x) decode = .ok x.stripObz := by
  rw [← encode_stripObz]
  exact decode_encode_gen numOK_text _ h

/-- `Valid` is decidable (it is evaluated on witnesses below) -/
theorem valid_decidable (x : OrangeInput) : x.Valid Finite ∨ ¬ x.Valid Finite :=
  Decidable.em _

/-! ### component round trips -/

/-- labels: `from_separator(to_string(l)) = l` iff-direction needed: ext has no '@' and the
    name has none when ext is empty (the split is at the LAST '@') -/
theorem label_roundtrip_valid (l : Label) (h : l.Valid) :
    decodeLabel (encodeLabel l) = .ok l :=
  decodeLabel_encodeLabel l h

/-- bounding boxes: the canonical null box, and every non-null box without a ±DBL_MAX
    coordinate (infinite coordinates travel as ±DBL_MAX) -/
theorem bbox_roundtrip (b : BBox) (h : b.RT) : decodeBBox (encodeBBox numText b) = .ok b :=
  decodeBBox_encodeBBox numOK_text b h

theorem tolerance_roundtrip (t : Tol) (hv : t.valid = true) (hf : Finite t.rel ∧ Finite t.abs) :
    decodeTol (encodeTol numText t) = .ok t :=
  decodeTol_encodeTol numOK_text t hv hf

/-- all three transform variants (0, 3, 12 numbers) -/
theorem transform_roundtrip (t : Transform) (h : t.Fin Finite) :
    importTransform (exportTransform numText t) = .ok t :=
  importTransform_export numOK_text t h

/-- C10.7: `string_to_logic (logic_to_string l) = l` for every list of face ids (< lbegin,
    any number of digits) and operator tokens `* | & ~` -/
theorem logicString_roundtrip (l : List UInt64) (h : ∀ t ∈ l, tokenOK t) :
    stringToLogic (logicToString l) = .ok l :=
  stringToLogic_logicToString l h

/-- zipped surfaces (types / data / sizes arrays), any number of surfaces of the 17 readable
    types -/
theorem surfaces_roundtrip (ss : List Surface) (h : ∀ s ∈ ss, s.Valid Finite) :
    decodeSurfaces (encodeSurfaces numText ss) = .ok ss :=
  decodeSurfaces_encodeSurfaces numOK_text ss h

/-- a volume comes back with everything but its label (stored by the unit) -/
theorem volume_roundtrip (v : Volume) (h : v.Valid) :
    decodeVolume (encodeVolume numText v) = .ok { v with label := ⟨"", ""⟩ } :=
  decodeVolume_encodeVolume numOK_text v h

theorem unit_roundtrip (u : UnitInput) (h : u.Valid Finite) :
    decodeUnit (encodeUnit numText u) = .ok u :=
  decodeUnit_encodeUnit numOK_text u h

theorem rectarray_roundtrip (r : RectArray) (h : r.Valid Finite) :
    bindR (encodeRect numText r) decodeRect = .ok r :=
  decodeRect_encodeRect numOK_text r h

/-- the seven named z-orders survive `to_char`/`to_zorder` -/
theorem zorder_named_roundtrip :
    ∀ z ∈ Generated.OrangeIO.zorderToChar.map (fun p => UInt64.ofNat p.1),
      zorderOfChar (zorderToChar z) = z := by decide

/-! ### where the round trip is FALSE in the code as written (outside `Valid`) -/

/-- the reader never sets `VolumeInput::obz`, whatever the JSON -/
theorem obz_never_read (j : Json) (v : Volume) (h : decodeVolume j = .ok v) :
    v.obz = OBZ.default :=
  decodeVolume_obz j v h

/-- ... so an input whose volume has an oriented bounding zone (as built by UnitProto) does
    not come back: the read succeeds and differs -/
theorem obz_not_roundtrip :
    ¬ wObz.Valid AnyDouble ∧ bindR (encode Json.dbl wObz) decode ≠ .ok wObz :=
  ⟨by decide, isOkEq_false_ne (by decide)⟩

/-- involute surfaces are written but the reader's `visit_surface_type` has no `inv` case -/
theorem involute_not_readable :
    ¬ wInvolute.Valid AnyDouble ∧ bindR (encode Json.dbl wInvolute) decode = .error .ub :=
  ⟨by decide, isErr_eq (by decide)⟩

/-- a bbox coordinate equal to DBL_MAX comes back as +inf -/
theorem bbox_dblmax_not_roundtrip :
    decodeBBox (encodeBBox Json.dbl boxMax) = .ok ⟨⟨0, 0, 0⟩, ⟨posInf, d1, d1⟩⟩ ∧
    bindR (encode Json.dbl wBoxMax) decode ≠ .ok wBoxMax :=
  ⟨isOkEq_eq (by decide), isOkEq_false_ne (by decide)⟩

/-- a zero `Translation` in a rect array comes back as `NoTransformation` -/
theorem rect_zero_translation_not_roundtrip :
    bindR (encode Json.dbl wRectZero) decode =
      .ok ⟨[.rect ⟨⟨"arr", ""⟩, [0, d1], [0, d1], [0, d1], [⟨0, .none⟩]⟩], tolW⟩ ∧
    bindR (encode Json.dbl wRectZero) decode ≠ .ok wRectZero :=
  ⟨isOkEq_eq (by decide), isOkEq_false_ne (by decide)⟩

/-- a rect array with a rotated daughter is refused on write (CELER_NOT_IMPLEMENTED) -/
theorem rect_transformation_not_writable : encode Json.dbl wRectRot = .error .validate :=
  isErr_eq (by decide)

/-- a label "a@b" without extension comes back as name "a", ext "b" -/
theorem label_at_not_roundtrip :
    labelFromString (labelToString ⟨"a@b", ""⟩) = ⟨"a", "b"⟩ ∧
    bindR (encode Json.dbl wLabelAt) decode ≠ .ok wLabelAt :=
  ⟨by decide, isOkEq_false_ne (by decide)⟩

/-- a unit whose bbox is null is written without "bbox" and read back infinite -/
theorem unit_null_bbox_not_roundtrip :
    bindR (encode Json.dbl wUnitNull) decode = .ok (mkInput vol0) ∧ mkInput vol0 ≠ wUnitNull :=
  ⟨isOkEq_eq (by decide), by decide⟩

/-- a non-canonical null volume bbox comes back as the canonical null box -/
theorem null_bbox_canonicalised :
    bindR (encode Json.dbl wNullBox) decode = .ok (mkInput { vol0 with bbox := BBox.null }) ∧
    mkInput { vol0 with bbox := BBox.null } ≠ wNullBox :=
  ⟨isOkEq_eq (by decide), by decide⟩

/-- a background volume is read back with logic {true, not} and a null bbox, whatever was
    written -/
theorem background_volume_overwritten :
    bindR (encode Json.dbl wBackground) decode ≠ .ok wBackground :=
  isOkEq_false_ne (by decide)

/-- a volume with empty logic (allowed by `VolumeInput::operator bool` when `implicit_vol` is
    set) is written without "logic", and the reader then throws -/
theorem empty_logic_not_readable :
    bindR (encode Json.dbl wEmptyLogic) decode = .error .json :=
  isErr_eq (by decide)

/-- a non-finite double outside a bbox survives in memory but not through the text -/
theorem nonfinite_text_not_readable :
    bindR (encode Json.dbl wInfSurface) decode = .ok wInfSurface ∧
    bindR (encode numText wInfSurface) decode = .error .json :=
  ⟨isOkEq_eq (by decide), isErr_eq (by decide)⟩

/-! ### key inventories regenerated from the source -/

/-- the key inventory of the hand-written model is the one regenerated from the source -/
theorem model_keys_match_source :
    modelKeysWritten = Generated.OrangeIO.keysWritten ∧
    modelKeysRead = Generated.OrangeIO.keysRead := by decide

/-- every key written by a `to_json` is read by the matching `from_json` ("_type" of a
    universe is read by `from_json(OrangeInput)`) -/
theorem keys_written_subset_read :
    ∀ p ∈ Generated.OrangeIO.keysWritten, ∀ k ∈ p.2,
      k ∈ (Generated.OrangeIO.keysRead.lookup p.1).getD [] ∨
      (k = "_type" ∧ k ∈ (Generated.OrangeIO.keysRead.lookup "OrangeInput").getD []) := by
  decide

/-- the strings written for format / universe type / units are accepted by the reader -/
theorem written_strings_accepted :
    Generated.OrangeIO.formatWritten ∈ Generated.OrangeIO.formatsRead ∧
    (∀ t ∈ Generated.OrangeIO.universeTypesWritten, t ∈ Generated.OrangeIO.universeTypesRead) ∧
    nativeUnits ∈ Generated.OrangeIO.unitSystems := by decide

/-! ### non-vacuity -/

example : wInput.Valid Finite := by decide
example : wObz.stripObz.Valid Finite ∧ wObz.stripObz ≠ wObz := by decide
example : wInput.universes.length = 2 ∧ wUnit.surfaces.length = 3 ∧ wUnit.daughters.length = 3 :=
  by decide
example : bindR (encode numText wInput) decode = .ok wInput := decode_encode wInput (by decide)
example : (⟨"b@c", "y"⟩ : Label).Valid ∧ ¬ (⟨"a@b", ""⟩ : Label).Valid := by decide
example : wVol1.bbox.RT ∧ BBox.null.RT ∧ ¬ boxMax.RT := by decide
example : tolW.valid = true ∧ tolW ≠ Tol.default := by decide
example : (∀ t ∈ wVol1.logic, tokenOK t) ∧ ¬ tokenOK (UInt64.ofNat Generated.OrangeIO.lend) := by
  decide
example : (Transform.transformation ⟨0, d1, 0⟩ ⟨dm1, 0, 0⟩ ⟨0, 0, d1⟩ ⟨0, 0, d2⟩).Fin Finite := by
  decide
example : wRect.Valid Finite ∧ wUnit.Valid Finite := by decide

end CelerVerif.OrangeIO
