/-
C19 — geometry input survives a JSON round trip unchanged (property theorems only).
-/
import CelerVerif.Model.OrangeIO

namespace CelerVerif.OrangeIO
open CelerVerif.Json

/-- the key inventory of the hand-written model is the one regenerated from the source -/
theorem model_keys_match_source :
    modelKeysWritten = Generated.OrangeIO.keysWritten ∧
    modelKeysRead = Generated.OrangeIO.keysRead := by decide

end CelerVerif.OrangeIO
