/-
C09 (bounding-zone part) — construction keeps sound interior / exterior boxes for every CSG
node, so that the bounding box used for point location never excludes a point of the solid.
Model: Model/BZone.lean (tied to BoundingZone.cc bit-exactly at Float by harness/bzone.cc).
The solid-emission part of C09 (surfaces emitted by each primitive) is not modelled here.
-/
import CelerVerif.Lemmas.BZone
import Mathlib.Order.Fin.Basic

namespace CelerVerif.BZone

variable {κ : Type} [LinearOrder κ] [BoundedOrder κ] [Nontrivial κ] [VolChoice κ]

/-- ★ negation swaps "known inside" and "known outside" -/
theorem negate_sound (z : Zone κ) (R : P3 κ → Prop) (h : Sound z R) :
    Sound z.negate (fun p => ¬ R p) := by
  unfold Sound Zone.negate at *
  cases hz : z.negated <;> simp only [hz, Bool.not_false, Bool.not_true, if_true, if_false,
    Bool.false_eq_true] at h ⊢
  · exact ⟨fun p hp hn => hn (h.1 p hp), fun p hp => h.2 p (not_not.mp hp)⟩
  · exact h

/-- ★ zone intersection is sound for the intersection of the regions, for all four
    combinations of negation flags -/
theorem zoneInter_sound (a b : Zone κ) (RA RB : P3 κ → Prop) (ha : Sound a RA) (hb : Sound b RB) :
    Sound (zoneInter a b) (fun p => RA p ∧ RB p) := by
  unfold Sound zoneInter at *
  cases hna : a.negated <;> cases hnb : b.negated <;>
    simp only [hna, hnb, Bool.not_false, Bool.not_true, Bool.and_self, Bool.and_true,
      Bool.and_false, Bool.false_and, Bool.true_and, if_true, if_false, Bool.false_eq_true] at ha hb ⊢
  · -- A & B
    refine ⟨fun p hp => ?_, fun p hp => ?_⟩
    · rw [mem_boxInter] at hp; exact ⟨ha.1 p hp.1, hb.1 p hp.2⟩
    · rw [mem_boxInter]; exact ⟨ha.2 p hp.1, hb.2 p hp.2⟩
  · -- A & ~B
    refine ⟨fun p hp => ?_, fun p hp => ?_⟩
    · obtain ⟨h1, h2⟩ := calcDifference_shrink hp
      refine ⟨ha.1 p h1, ?_⟩
      by_contra hn; exact h2 (hb.2 p hn)
    · exact calcDifference_grow (ha.2 p hp.1) (fun hm => hb.1 p hm hp.2)
  · -- ~A & B
    refine ⟨fun p hp => ?_, fun p hp => ?_⟩
    · obtain ⟨h1, h2⟩ := calcDifference_shrink hp
      refine ⟨?_, hb.1 p h1⟩
      by_contra hn; exact h2 (ha.2 p hn)
    · exact calcDifference_grow (hb.2 p hp.2) (fun hm => ha.1 p hm hp.1)
  · -- ~A & ~B
    refine ⟨fun p hp => ?_, fun p hp => ?_⟩
    · rcases calcUnionOp_shrink hp with h | h
      · exact fun hr => ha.1 p h hr.1
      · exact fun hr => hb.1 p h hr.2
    · apply calcUnionOp_grow
      by_cases hra : RA p
      · right; exact hb.2 p (fun hrb => hp ⟨hra, hrb⟩)
      · left; exact ha.2 p hra


/-- ★ zone union is sound when both operands have the same negation flag.
    FULL STATEMENT (all four combinations) IS FALSE for the code as written: in the two
    mixed-negation branches `calc_union` passes (a.interior, b.exterior)/(a.exterior, b.interior)
    where its own table says `B_i − A_x` / `B_x − A_i` — see `zoneUnion_mixed_unsound`. -/
theorem zoneUnion_sound_partial (a b : Zone κ) (RA RB : P3 κ → Prop) (ha : Sound a RA)
    (hb : Sound b RB) (hsame : a.negated = b.negated) :
    Sound (zoneUnion a b) (fun p => RA p ∨ RB p) := by
  unfold Sound zoneUnion at *
  cases hna : a.negated <;> cases hnb : b.negated <;> rw [hna, hnb] at hsame <;>
    simp only [hna, hnb, Bool.not_false, Bool.not_true, Bool.and_self, Bool.and_true,
      Bool.and_false, if_true, if_false, Bool.false_eq_true, reduceCtorEq] at ha hb hsame ⊢
  · refine ⟨fun p hp => ?_, fun p hp => ?_⟩
    · rcases calcUnionOp_shrink hp with h | h
      · exact Or.inl (ha.1 p h)
      · exact Or.inr (hb.1 p h)
    · apply calcUnionOp_grow
      rcases hp with h | h
      · exact Or.inl (ha.2 p h)
      · exact Or.inr (hb.2 p h)
  · refine ⟨fun p hp => ?_, fun p hp => ?_⟩
    · rw [mem_boxInter] at hp
      exact fun hr => hr.elim (ha.1 p hp.1) (hb.1 p hp.2)
    · rw [mem_boxInter]
      exact ⟨ha.2 p (fun h => hp (Or.inl h)), hb.2 p (fun h => hp (Or.inr h))⟩

/-- the exterior bounding box handed to the runtime never excludes a point of the region -/
theorem exteriorBBox_sound (z : Zone κ) (R : P3 κ → Prop) (h : Sound z R) (p : P3 κ) (hp : R p) :
    mem (exteriorBBox z) p := by
  unfold exteriorBBox Sound at *
  cases hz : z.negated <;> simp only [hz, if_true, if_false, Bool.false_eq_true] at h ⊢
  · exact h.2 p hp
  · exact mem_infinite p

/-- the start values of the n-ary folds: `from_infinite` for intersections (everything),
    the default zone for unions (nothing) -/
theorem fromInfinite_sound : Sound (⟨Box.infinite, Box.infinite, false⟩ : Zone κ) (fun _ => True) := by
  unfold Sound; simp [mem_infinite]
theorem default_sound : Sound (⟨Box.null, Box.null, false⟩ : Zone κ) (fun _ => False) := by
  unfold Sound; simp [mem_null]

/-- ★ n-ary intersection (`AllObjects`): folding `calc_intersection` over any list of sound
    zones gives a sound zone for the intersection of all regions -/
theorem foldInter_sound (zs : List (Zone κ × (P3 κ → Prop))) (h : ∀ zr ∈ zs, Sound zr.1 zr.2)
    (z0 : Zone κ) (R0 : P3 κ → Prop) (h0 : Sound z0 R0) :
    Sound (zs.foldl (fun acc zr => zoneInter acc zr.1) z0)
      (fun p => R0 p ∧ ∀ zr ∈ zs, zr.2 p) := by
  induction zs generalizing z0 R0 with
  | nil => simpa using h0
  | cons zr zs ih =>
    simp only [List.foldl_cons]
    have hz := zoneInter_sound z0 zr.1 R0 zr.2 h0 (h zr (by simp))
    have := ih (fun x hx => h x (by simp [hx])) _ _ hz
    unfold Sound at this ⊢
    have e : ∀ p, ((R0 p ∧ zr.2 p) ∧ ∀ x ∈ zs, x.2 p) ↔ (R0 p ∧ ∀ x ∈ zr :: zs, x.2 p) := by
      intro p; simp only [List.mem_cons, forall_eq_or_imp]; tauto
    simp only [e] at this
    exact this

end CelerVerif.BZone

/-! ### the mixed-negation union is unsound as written (concrete witness, also replayed on the
    real `calc_union` by tools/checks/c09.py) -/
namespace CelerVerif.BZone.Witness
open CelerVerif.BZone

instance : VolChoice (Fin 5) := ⟨fun _ _ => false⟩

def boxA : Box (Fin 5) := ⟨⟨1, 1, 1⟩, ⟨2, 2, 2⟩⟩
def boxB : Box (Fin 5) := ⟨⟨0, 0, 0⟩, ⟨4, 4, 4⟩⟩
/-- region A = box [1,2]³ exactly; region ~B = complement of box [0,4]³ -/
def zA : Zone (Fin 5) := ⟨boxA, boxA, false⟩
def zNotB : Zone (Fin 5) := ⟨boxB, boxB, true⟩

theorem result : zoneUnion zA zNotB = ⟨Box.null, Box.null, true⟩ := by decide

theorem zoneUnion_mixed_unsound :
    Sound zA (mem boxA) ∧ Sound zNotB (fun p => ¬ mem boxB p) ∧
    ¬ Sound (zoneUnion zA zNotB) (fun p => mem boxA p ∨ ¬ mem boxB p) := by
  refine ⟨?_, ?_, ?_⟩
  · unfold Sound zA; simp
  · unfold Sound zNotB; simp
  · rw [result]; unfold Sound; simp only [if_true]
    intro h
    have := h.2 ⟨0, 0, 0⟩ (by unfold mem boxA boxB; decide)
    exact mem_null _ this

end CelerVerif.BZone.Witness
