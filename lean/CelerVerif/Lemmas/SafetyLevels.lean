/-
Volume safety (min over faces, flag gates), rectangular-array safety, and the minimum over
universe levels with isometric transforms, at ℝ.
-/
import CelerVerif.Lemmas.SafetyDist
import CelerVerif.Lemmas.SurfTransform

namespace CelerVerif.Safety
open CelerVerif CelerVerif.Surf

/-! ### volumes -/

theorem volumeSafety_nonneg (flags : Nat) (faces : List (Surface ℝ)) (x : Vec3 ℝ) :
    ONonneg (volumeSafety flags faces x) := by
  unfold volumeSafety
  split_ifs
  · intro v hv; simp only [Option.some.injEq] at hv; rw [← hv]; simp
  · exact foldl_fminO_nonneg _ _ (fun v hv => by cases hv) (fun s _ => calcSafety_nonneg s x)

theorem some_zero_real : (some (@OfNat.ofNat ℝ 0 (Num.instOfNat 0)) : Option ℝ) = some 0 := by
  simp

theorem volumeSafety_not_simple (flags : Nat) (faces : List (Surface ℝ)) (x : Vec3 ℝ)
    (h : volSimpleSafety flags = false) : volumeSafety flags faces x = some 0 := by
  unfold volumeSafety; simp [h]

/-- some face of the volume is at most `b` away ⇒ so is the volume safety -/
theorem volumeSafety_le_face (flags : Nat) (faces : List (Surface ℝ)) (x : Vec3 ℝ) {b : ℝ}
    (hb : 0 ≤ b) {s : Surface ℝ} (hs : s ∈ faces) (h : OLe (calcSafety s x) b) :
    OLe (volumeSafety flags faces x) b := by
  unfold volumeSafety
  split_ifs
  · exact ⟨0, by simp, hb⟩
  · exact foldl_fminO_le_mem _ _ _ hs h

theorem ole_nonneg_zero {o : Option ℝ} (h1 : OLe o 0) (h2 : ONonneg o) : o = some 0 := by
  obtain ⟨v, rfl, hv⟩ := h1
  have := h2 v rfl
  rw [le_antisymm hv this]

/-! ### rectangular arrays -/

theorem rectStep_le_acc {acc : Option ℝ} {b : ℝ} (g : List ℝ) (k : Nat) (p : ℝ) (h : OLe acc b) :
    OLe (rectStep acc g k p) b := by
  unfold rectStep; split <;> exact fminO_le_left _ h

theorem rectStep_le_here (acc : Option ℝ) {b : ℝ} (g : List ℝ) (k : Nat) (p t : ℝ)
    (ht : rectTarget g k = some t) (h : |p - t| ≤ b) : OLe (rectStep acc g k p) b := by
  unfold rectStep; rw [ht]
  exact fminO_le_right _ ⟨_, rfl, by num_simp; exact h⟩

theorem rectStep_nonneg {acc : Option ℝ} (g : List ℝ) (k : Nat) (p : ℝ) (h : ONonneg acc) :
    ONonneg (rectStep acc g k p) := by
  unfold rectStep; split
  · exact fminO_nonneg h (fun v hv => by cases hv)
  · exact fminO_nonneg h (fun v hv => by
      simp only [Option.some.injEq] at hv; rw [← hv]; num_simp; exact abs_nonneg _)

theorem rectSafety_nonneg (gx gy gz : List ℝ) (v : Nat) (p : Vec3 ℝ) :
    ONonneg (rectSafety gx gy gz v p) := by
  unfold rectSafety
  exact rectStep_nonneg _ _ _ (rectStep_nonneg _ _ _ (rectStep_nonneg _ _ _ (rectStep_nonneg _ _ _
    (rectStep_nonneg _ _ _ (rectStep_nonneg _ _ _ (fun v hv => by cases hv))))))

theorem abs_le_of_mul_nonpos (a b : ℝ) (h : a * b ≤ 0) : |a| ≤ |a - b| :=
  sq_le_sq.mp (by nlinarith [mul_self_nonneg b])

/-- the segment from `p` to `q` meets the plane `axis = t` -/
def crossesPlane (t : Axis) (c : ℝ) (p q : Vec3 ℝ) : Prop := (p.ax t - c) * (q.ax t - c) ≤ 0

theorem abs_le_dist_of_crosses (t : Axis) (c : ℝ) (p q : Vec3 ℝ) (h : crossesPlane t c p q) :
    |p.ax t - c| ≤ dist3 p q := by
  have h1 := abs_le_of_mul_nonpos _ _ h
  have : p.ax t - c - (q.ax t - c) = p.ax t - q.ax t := by ring
  rw [this] at h1
  exact le_trans h1 (abs_comp_le p q t)

/-- one of the (finite) bounding planes of cell `v` separates `p` and `q` -/
def rectSeparates (gx gy gz : List ℝ) (v : Nat) (p q : Vec3 ℝ) : Prop :=
  let c := rectCoords (gy.length - 1) (gz.length - 1) v
  ∃ t : ℝ,
    ((rectTarget gx c.1 = some t ∨ rectTarget gx (c.1 + 1) = some t) ∧ crossesPlane .x t p q) ∨
    ((rectTarget gy c.2.1 = some t ∨ rectTarget gy (c.2.1 + 1) = some t) ∧ crossesPlane .y t p q) ∨
    ((rectTarget gz c.2.2 = some t ∨ rectTarget gz (c.2.2 + 1) = some t) ∧ crossesPlane .z t p q)

theorem rectSafety_le (gx gy gz : List ℝ) (v : Nat) (p q : Vec3 ℝ)
    (h : rectSeparates gx gy gz v p q) : OLe (rectSafety gx gy gz v p) (dist3 p q) := by
  unfold rectSeparates at h
  obtain ⟨t, h⟩ := h
  unfold rectSafety
  rcases h with ⟨ht, hc⟩ | ⟨ht, hc⟩ | ⟨ht, hc⟩
  · have hb := abs_le_dist_of_crosses .x t p q hc
    simp only [Vec3.ax, Vec3.get, Axis.toNat] at hb
    rcases ht with ht | ht
    · exact rectStep_le_acc _ _ _ (rectStep_le_acc _ _ _ (rectStep_le_acc _ _ _ (rectStep_le_acc _ _ _
        (rectStep_le_acc _ _ _ (rectStep_le_here _ _ _ _ _ ht hb)))))
    · exact rectStep_le_acc _ _ _ (rectStep_le_acc _ _ _ (rectStep_le_acc _ _ _ (rectStep_le_acc _ _ _
        (rectStep_le_here _ _ _ _ _ ht hb))))
  · have hb := abs_le_dist_of_crosses .y t p q hc
    simp only [Vec3.ax, Vec3.get, Axis.toNat] at hb
    rcases ht with ht | ht
    · exact rectStep_le_acc _ _ _ (rectStep_le_acc _ _ _ (rectStep_le_acc _ _ _
        (rectStep_le_here _ _ _ _ _ ht hb)))
    · exact rectStep_le_acc _ _ _ (rectStep_le_acc _ _ _ (rectStep_le_here _ _ _ _ _ ht hb))
  · have hb := abs_le_dist_of_crosses .z t p q hc
    simp only [Vec3.ax, Vec3.get, Axis.toNat] at hb
    rcases ht with ht | ht
    · exact rectStep_le_acc _ _ _ (rectStep_le_here _ _ _ _ _ ht hb)
    · exact rectStep_le_here _ _ _ _ _ ht hb

/-! ### levels -/

/-- the parent-to-daughter transform is an isometry (`Transformation` stores a rotation matrix:
    documented precondition of its constructor, not checked in release builds) -/
def LevelXf.Iso : LevelXf ℝ → Prop
  | .noTransformation => True
  | .translation _ => True
  | .transformation t => t.rot.orthoRows

theorem down_dist (xf : LevelXf ℝ) (h : xf.Iso) (p q : Vec3 ℝ) :
    dist3 (xf.down p) (xf.down q) = dist3 p q := by
  unfold dist3 nrm
  congr 1
  cases xf with
  | noTransformation => rfl
  | translation tra =>
    simp only [LevelXf.down, translateDown, Vec3.sub]; unfold nsq vsub; num_simp; ring
  | transformation t =>
    obtain ⟨h1, h2, h3, h4, h5, h6⟩ := (h : t.rot.orthoRows)
    simp only [LevelXf.down]
    unfold nsq vsub
    xf_simp; num_simp
    linear_combination (p.x - q.x) * (p.x - q.x) * h1 + (p.y - q.y) * (p.y - q.y) * h2
      + (p.z - q.z) * (p.z - q.z) * h3 + 2 * (p.x - q.x) * (p.y - q.y) * h4
      + 2 * (p.x - q.x) * (p.z - q.z) * h5 + 2 * (p.y - q.y) * (p.z - q.z) * h6

/-- hypotheses on the faces of a unit level at the local point -/
def LevelGeom.Regular : LevelGeom ℝ → Vec3 ℝ → Prop
  | .unit _ faces, p => ∀ s ∈ faces, WellFormed s ∧ ¬ AtCentre s p
  | .rect .., _ => True

/-- a boundary of this level's current volume separates the local points `p` and `q`:
    some face has different senses / some finite cell plane is crossed -/
def LevelGeom.Separates : LevelGeom ℝ → Vec3 ℝ → Vec3 ℝ → Prop
  | .unit _ faces, p, q => ∃ s ∈ faces, s.calcSense p ≠ s.calcSense q
  | .rect gx gy gz v, p, q => rectSeparates gx gy gz v p q

theorem level_safety_nonneg (g : LevelGeom ℝ) (p : Vec3 ℝ) : ONonneg (g.safety p) := by
  cases g with
  | unit f fs => exact volumeSafety_nonneg f fs p
  | rect gx gy gz v => exact rectSafety_nonneg gx gy gz v p

theorem level_safety_le (g : LevelGeom ℝ) (p q : Vec3 ℝ) (hr : g.Regular p)
    (hs : g.Separates p q) : OLe (g.safety p) (dist3 p q) := by
  cases g with
  | unit f fs =>
    obtain ⟨s, hmem, hne⟩ := (hs : ∃ s ∈ fs, s.calcSense p ≠ s.calcSense q)
    obtain ⟨hw, hc⟩ := (hr : ∀ s ∈ fs, WellFormed s ∧ ¬ AtCentre s p) s hmem
    exact volumeSafety_le_face f fs p (dist3_nonneg p q) hmem
      (safety_le_of_sense_change s hw p q hc hne)
  | rect gx gy gz v => exact rectSafety_le gx gy gz v p q hs

/-- some level's current-volume boundary separates the two global points -/
def SeparatedAtSomeLevel : List (Level ℝ) → Vec3 ℝ → Vec3 ℝ → Prop
  | [], _, _ => False
  | l :: ls, p, q =>
    (l.geom.Regular (l.xf.down p) ∧ l.geom.Separates (l.xf.down p) (l.xf.down q))
      ∨ SeparatedAtSomeLevel ls (l.xf.down p) (l.xf.down q)

theorem findSafetyFrom_le_acc (ls : List (Level ℝ)) (p : Vec3 ℝ) {acc : Option ℝ} {b : ℝ}
    (h : OLe acc b) : OLe (findSafetyFrom acc ls p) b := by
  induction ls generalizing acc p with
  | nil => exact h
  | cons l t ih => exact ih _ (fminO_le_left _ h)

theorem findSafetyFrom_nonneg (ls : List (Level ℝ)) (p : Vec3 ℝ) {acc : Option ℝ}
    (h : ONonneg acc) : ONonneg (findSafetyFrom acc ls p) := by
  induction ls generalizing acc p with
  | nil => exact h
  | cons l t ih => exact ih _ (fminO_nonneg h (level_safety_nonneg _ _))

theorem findSafetyFrom_le (ls : List (Level ℝ)) (acc : Option ℝ) (p q : Vec3 ℝ)
    (hiso : ∀ l ∈ ls, l.xf.Iso) (h : SeparatedAtSomeLevel ls p q) :
    OLe (findSafetyFrom acc ls p) (dist3 p q) := by
  induction ls generalizing acc p q with
  | nil => exact absurd h id
  | cons l t ih =>
    have hd := down_dist l.xf (hiso l (List.mem_cons_self ..)) p q
    rcases h with ⟨hr, hs⟩ | h
    · have := level_safety_le l.geom _ _ hr hs
      rw [hd] at this
      exact findSafetyFrom_le_acc t _ (fminO_le_right _ this)
    · have := ih (fminO acc (l.geom.safety (l.xf.down p))) _ _
        (fun l' hl' => hiso l' (List.mem_cons_of_mem _ hl')) h
      rw [hd] at this
      exact this

end CelerVerif.Safety
