/- Liveness potential across pre-step, physics and tracking cut (C02). -/
import CelerVerif.Lemmas.TrackInitPsi

namespace CelerVerif.TrackInit

/-- pre-step, physics outcome `b`, tracking cut — on one slot -/
def frontSlot (x : Slot) (b : Outcome) : Slot := cutSlot (interactSlot (preStepSlot x) b)

theorem front_slots_eq (o : List Outcome) (s : State) :
    (trackingCut (interact o (preStep s))).slots
      = List.zipWith frontSlot s.slots
          (o ++ List.replicate (s.slots.length - o.length) ⟨.alive, []⟩) := by
  simp only [trackingCut, interact, preStep, List.length_map, List.map_zipWith,
    List.zipWith_map_left]
  rfl

/-- "every track is killed within K of its own steps": a valid track whose outcome is `alive`
    has taken fewer than `K` steps including this one -/
def AgeOkL (K : Nat) : List Slot → List Outcome → Prop
  | x :: xs, b :: bs =>
    (x.status ≠ .inactive → x.status ≠ .errored → b.status = .alive → x.steps + 1 < K) ∧
      AgeOkL K xs bs
  | _, _ => True

def aliveTerm (K : Nat) (y : Slot) : Nat := if y.status = .alive then termOf K y else 0
def cvA (y : Slot) : Nat := if y.active then countValid y.secs else 0
/-- valid secondaries emitted by the track in slot `x` under outcome `b` -/
def secsA (x : Slot) (b : Outcome) : Nat := if x.active then countValid b.secs else 0

theorem front_slot_psi (K : Nat) (x : Slot) (b : Outcome)
    (hx : x.stepOk ∨ x.status = .errored)
    (hb : b.status = .alive ∨ b.status = .killed ∨ b.status = .errored)
    (hage : x.status ≠ .inactive → x.status ≠ .errored → b.status = .alive → x.steps + 1 < K) :
    aliveTerm K (frontSlot x b) + (if x.active then 1 else 0) ≤ cOf K x ∧
    cvA (frontSlot x b) ≤ secsA x b := by
  unfold frontSlot cutSlot interactSlot preStepSlot aliveTerm cvA secsA cOf termOf Slot.active
  rcases hx with (h | h | h) | h
  · simp [h]
  · rcases hb with hb | hb | hb
    · have := hage (by simp [h]) (by simp [h]) hb
      simp [h, hb]; omega
    · simp [h, hb]; omega
    · simp [h, hb]; omega
  · rcases hb with hb | hb | hb
    · have := hage (by simp [h]) (by simp [h]) hb
      simp [h, hb]; omega
    · simp [h, hb]; omega
    · simp [h, hb]; omega
  · simp [h, countValid_nil]; omega

theorem front_sum_psi (K : Nat) (l : List Slot) (o : List Outcome) (hlen : l.length ≤ o.length)
    (hx : ∀ x ∈ l, x.stepOk ∨ x.status = .errored)
    (hb : ∀ b ∈ o, b.status = .alive ∨ b.status = .killed ∨ b.status = .errored)
    (hage : AgeOkL K l o) :
    ((List.zipWith frontSlot l o).map (aliveTerm K)).sum + (liveL l).length ≤ psiSlots K l ∧
    ((List.zipWith frontSlot l o).map cvA).sum ≤ (List.zipWith secsA l o).sum := by
  induction l generalizing o with
  | nil => simp [psiSlots, liveL_nil]
  | cons a l ih =>
    cases o with
    | nil => simp at hlen
    | cons b o =>
      simp at hlen
      obtain ⟨hage1, hage2⟩ := hage
      obtain ⟨i1, i2⟩ := ih o hlen (fun x hx' => hx x (by simp [hx']))
        (fun b' hb' => hb b' (by simp [hb'])) hage2
      obtain ⟨s1, s2⟩ := front_slot_psi K a b (hx a (by simp)) (hb b (by simp)) hage1
      unfold psiSlots at *
      simp only [List.zipWith_cons_cons, List.map_cons, List.sum_cons, liveL_cons]
      constructor
      · by_cases ha : a.active = true
        · simp only [ha, if_true, List.length_cons] at s1 ⊢; omega
        · have ha' : a.active = false := by simpa using ha
          simp only [ha', Bool.false_eq_true, if_false] at s1 ⊢; omega
      · omega

end CelerVerif.TrackInit
