/-
C10: the 32-bit `LogicStack` evaluator (`evalBits`) refines the list-stack reference evaluator
(`evalRef`) on every well-formed logic whose `calc_max_depth` is at most 32, and
`calc_max_depth` bounds every intermediate stack length of a well-formed run.
No Mathlib import.
-/
import CelerVerif.Model.CsgLogic

namespace CelerVerif.Csg
open CelerVerif.Generated.Csg

/-! ### Encoding of a list stack into a word (top of stack = least significant bit) -/

def encode : List Bool → Nat
  | [] => 0
  | b :: s => 2 * encode s + b.toNat

theorem encode_nil : encode [] = 0 := rfl
theorem encode_cons (b : Bool) (s : List Bool) : encode (b :: s) = 2 * encode s + b.toNat := rfl

theorem encode_lt : ∀ s : List Bool, encode s < 2 ^ s.length
  | [] => by simp [encode]
  | b :: s => by
    have h := encode_lt s
    have hb : b.toNat ≤ 1 := Bool.toNat_le b
    simp only [encode, List.length_cons, Nat.pow_succ]
    omega

/-! ### Bit arithmetic on `2 * n + b` -/

theorem bit_mod (n : Nat) (b : Bool) : (2 * n + b.toNat) % 2 = b.toNat := by
  cases b <;> simp <;> omega

theorem bit_div (n : Nat) (b : Bool) : (2 * n + b.toNat) / 2 = n := by
  cases b <;> simp <;> omega

theorem testBit_bit_zero (n : Nat) (b : Bool) : (2 * n + b.toNat).testBit 0 = b := by
  rw [Nat.testBit_zero, bit_mod]; cases b <;> simp

theorem testBit_bit_succ (n : Nat) (b : Bool) (i : Nat) :
    (2 * n + b.toNat).testBit (i + 1) = n.testBit i := by
  rw [Nat.testBit_add_one, bit_div]

theorem bit_and (m n : Nat) (a b : Bool) :
    (2 * m + a.toNat) &&& (2 * n + b.toNat) = 2 * (m &&& n) + (a && b).toNat := by
  apply Nat.eq_of_testBit_eq
  intro i
  cases i with
  | zero => simp only [Nat.testBit_and, testBit_bit_zero]
  | succ i => simp only [Nat.testBit_and, testBit_bit_succ]

theorem bit_or (m n : Nat) (a b : Bool) :
    (2 * m + a.toNat) ||| (2 * n + b.toNat) = 2 * (m ||| n) + (a || b).toNat := by
  apply Nat.eq_of_testBit_eq
  intro i
  cases i with
  | zero => simp only [Nat.testBit_or, testBit_bit_zero]
  | succ i => simp only [Nat.testBit_or, testBit_bit_succ]

theorem bit_xor (m n : Nat) (a b : Bool) :
    (2 * m + a.toNat) ^^^ (2 * n + b.toNat) = 2 * (m ^^^ n) + (a ^^ b).toNat := by
  apply Nat.eq_of_testBit_eq
  intro i
  cases i with
  | zero => simp only [Nat.testBit_xor, testBit_bit_zero]
  | succ i => simp only [Nat.testBit_xor, testBit_bit_succ]

theorem word_eq : word = 4294967296 := by decide

/-- `data_ ^= 1` flips the top of the stack -/
theorem xor_one_bit (e : Nat) (a : Bool) : (2 * e + a.toNat) ^^^ 1 = 2 * e + (!a).toNat := by
  have h := bit_xor e 0 a true
  simp only [Nat.mul_zero, Nat.zero_add, Bool.toNat_true, Nat.xor_zero, Bool.xor_true] at h
  exact h

/-- `shl(data_) | lsb(v)` without overflow -/
theorem push_bit (e : Nat) (v : Bool) (he : e < 2147483648) :
    ((e <<< 1) % 4294967296) ||| (if v then 1 else 0) = 2 * e + v.toNat := by
  have h1 : (e <<< 1) % 4294967296 = 2 * e := by
    rw [Nat.shiftLeft_eq]; omega
  have h2 : (if v then 1 else 0 : Nat) = 2 * 0 + v.toNat := by cases v <;> rfl
  have h3 : 2 * e = 2 * e + false.toNat := by simp
  rw [h1, h2]
  conv => lhs; rw [h3]
  rw [bit_or]
  simp

/-- `shr(data_) & (lsb(data_) | ~1)` -/
theorem and_bit (e : Nat) (a b : Bool) (he : e < 2147483648) :
    ((2 * (2 * e + b.toNat) + a.toNat) >>> 1) &&&
        (((2 * (2 * e + b.toNat) + a.toNat) &&& 1) ||| 4294967294)
      = 2 * e + (b && a).toNat := by
  have h1 : (2 * (2 * e + b.toNat) + a.toNat) >>> 1 = 2 * e + b.toNat := by
    rw [Nat.shiftRight_eq_div_pow, Nat.pow_one, bit_div]
  have h2 : (2 * (2 * e + b.toNat) + a.toNat) &&& 1 = 2 * 0 + a.toNat := by
    rw [Nat.and_one_is_mod, bit_mod]; simp
  have h3 : (4294967294 : Nat) = 2 * 2147483647 + false.toNat := by decide
  have h4 : e &&& 2147483647 = e := by
    have : (2147483647 : Nat) = 2 ^ 31 - 1 := by decide
    rw [this, Nat.and_two_pow_sub_one_eq_mod]
    exact Nat.mod_eq_of_lt (by omega)
  rw [h1, h2, h3, bit_or, bit_and, Nat.zero_or, h4, Bool.or_false]

/-- `shr(data_) | lsb(data_)` -/
theorem or_bit (e : Nat) (a b : Bool) :
    ((2 * (2 * e + b.toNat) + a.toNat) >>> 1) ||| ((2 * (2 * e + b.toNat) + a.toNat) &&& 1)
      = 2 * e + (b || a).toNat := by
  have h1 : (2 * (2 * e + b.toNat) + a.toNat) >>> 1 = 2 * e + b.toNat := by
    rw [Nat.shiftRight_eq_div_pow, Nat.pow_one, bit_div]
  have h2 : (2 * (2 * e + b.toNat) + a.toNat) &&& 1 = 2 * 0 + a.toNat := by
    rw [Nat.and_one_is_mod, bit_mod]; simp
  rw [h1, h2, bit_or, Nat.or_zero]

/-! ### Simulation of each `LogicStack` operation -/

theorem encode_lt_of_length_le (st : List Bool) (n : Nat) (h : st.length ≤ n) :
    encode st < 2 ^ n :=
  Nat.lt_of_lt_of_le (encode_lt st) (Nat.pow_le_pow_right (by decide) h)

theorem push_sim (st : List Bool) (v : Bool) (h : st.length < 32) :
    (BitStack.mk (encode st) st.length).push v = ⟨encode (v :: st), (v :: st).length⟩ := by
  have he : encode st < 2147483648 := encode_lt_of_length_le st 31 (by omega)
  simp only [BitStack.push, word_eq, encode_cons, List.length_cons]
  rw [push_bit _ _ he, Nat.mod_eq_of_lt (by omega)]

theorem applyNot_sim (a : Bool) (st : List Bool) :
    (BitStack.mk (encode (a :: st)) (a :: st).length).applyNot
      = ⟨encode ((!a) :: st), ((!a) :: st).length⟩ := by
  simp only [BitStack.applyNot, encode_cons, List.length_cons, xor_one_bit]

theorem applyAnd_sim (a b : Bool) (st : List Bool) (h : (a :: b :: st).length ≤ 32) :
    (BitStack.mk (encode (a :: b :: st)) (a :: b :: st).length).applyAnd
      = ⟨encode ((b && a) :: st), ((b && a) :: st).length⟩ := by
  simp only [List.length_cons] at h
  have he : encode st < 2147483648 := encode_lt_of_length_le st 31 (by omega)
  simp only [BitStack.applyAnd, word_eq, encode_cons, List.length_cons]
  rw [and_bit _ _ _ he]
  have hs : (st.length + 1 + 1 + 4294967296 - 1) % 4294967296 = st.length + 1 := by omega
  rw [hs]

theorem applyOr_sim (a b : Bool) (st : List Bool) (h : (a :: b :: st).length ≤ 32) :
    (BitStack.mk (encode (a :: b :: st)) (a :: b :: st).length).applyOr
      = ⟨encode ((b || a) :: st), ((b || a) :: st).length⟩ := by
  simp only [List.length_cons] at h
  simp only [BitStack.applyOr, word_eq, encode_cons, List.length_cons]
  rw [or_bit]
  have hs : (st.length + 1 + 1 + 4294967296 - 1) % 4294967296 = st.length + 1 := by omega
  rw [hs]

theorem top_sim (a : Bool) (st : List Bool) (n : Nat) :
    (BitStack.mk (encode (a :: st)) n).top = a := by
  simp only [BitStack.top, encode_cons, Nat.and_one_is_mod, bit_mod]
  cases a <;> simp

/-! ### Peak stack length of a run -/

/-- maximum stack length reached by a run of `evalRefLoop` on `l` that starts with a stack of
    length `n` (including the start and the end).  Depends on the token shapes only. -/
def peak : List Nat → Nat → Nat
  | [], n => n
  | tok :: rest, n =>
    if !isOperatorToken tok then max n (peak rest (n + 1))
    else if tok = ltrue then max n (peak rest (n + 1))
    else if tok = lor then max n (peak rest (n - 1))
    else if tok = land then max n (peak rest (n - 1))
    else max n (peak rest n)

theorem le_peak (l : List Nat) (n : Nat) : n ≤ peak l n := by
  cases l with
  | nil => exact Nat.le_refl _
  | cons tok rest =>
    unfold peak
    split
    · exact Nat.le_max_left _ _
    · split
      · exact Nat.le_max_left _ _
      · split
        · exact Nat.le_max_left _ _
        · split <;> exact Nat.le_max_left _ _

/-- `peak` really bounds every intermediate stack: splitting a successful run at any point, the
    stack there is no longer than `peak`. -/
theorem mid_le_peak (vals : Nat → Bool) : ∀ (l₁ l₂ : List Nat) (st st' : List Bool),
    evalRefLoop vals (l₁ ++ l₂) st = some st' →
    ∃ mid, evalRefLoop vals l₁ st = some mid ∧ evalRefLoop vals l₂ mid = some st' ∧
      mid.length ≤ peak (l₁ ++ l₂) st.length
  | [], l₂, st, st', h => ⟨st, rfl, h, le_peak _ _⟩
  | tok :: rest, l₂, st, st', h => by
    simp only [List.cons_append] at h ⊢
    unfold evalRefLoop at h
    unfold peak
    conv => enter [1, mid, 1]; unfold evalRefLoop
    by_cases h1 : isOperatorToken tok = true
    · simp only [h1, Bool.not_true, Bool.false_eq_true, if_false] at h ⊢
      by_cases h2 : tok = ltrue
      · simp only [h2, if_true] at h ⊢
        obtain ⟨mid, hm, hm2, hl⟩ := mid_le_peak vals rest l₂ _ _ h
        exact ⟨mid, hm, hm2, Nat.le_trans hl (Nat.le_max_right _ _)⟩
      · simp only [h2, if_false] at h ⊢
        by_cases h3 : tok = lor
        · simp only [h3, if_true] at h ⊢
          match st, h with
          | a :: b :: st, h =>
            obtain ⟨mid, hm, hm2, hl⟩ := mid_le_peak vals rest l₂ _ _ h
            exact ⟨mid, hm, hm2, Nat.le_trans hl (Nat.le_max_right _ _)⟩
        · simp only [h3, if_false] at h ⊢
          by_cases h4 : tok = land
          · simp only [h4, if_true] at h ⊢
            match st, h with
            | a :: b :: st, h =>
              obtain ⟨mid, hm, hm2, hl⟩ := mid_le_peak vals rest l₂ _ _ h
              exact ⟨mid, hm, hm2, Nat.le_trans hl (Nat.le_max_right _ _)⟩
          · simp only [h4, if_false] at h ⊢
            by_cases h5 : tok = lnot
            · simp only [h5, if_true] at h ⊢
              match st, h with
              | a :: st, h =>
                obtain ⟨mid, hm, hm2, hl⟩ := mid_le_peak vals rest l₂ _ _ h
                exact ⟨mid, hm, hm2, Nat.le_trans hl (Nat.le_max_right _ _)⟩
            · simp only [h5, if_false] at h
              exact absurd h (by simp)
    · have h1' : isOperatorToken tok = false := by simpa using h1
      simp only [h1', Bool.not_false, if_true] at h ⊢
      obtain ⟨mid, hm, hm2, hl⟩ := mid_le_peak vals rest l₂ _ _ h
      exact ⟨mid, hm, hm2, Nat.le_trans hl (Nat.le_max_right _ _)⟩

/-! ### The 32-bit loop simulates the reference loop while the stack fits -/

theorem evalBitsLoop_refines (vals : Nat → Bool) : ∀ (l : List Nat) (st st' : List Bool),
    evalRefLoop vals l st = some st' → peak l st.length ≤ 32 →
    evalBitsLoop vals l ⟨encode st, st.length⟩ = ⟨encode st', st'.length⟩
  | [], st, st', h, _ => by
    simp only [evalRefLoop, Option.some.injEq] at h
    subst h
    rfl
  | tok :: rest, st, st', h, hp => by
    unfold evalRefLoop at h
    unfold peak at hp
    unfold evalBitsLoop
    by_cases h1 : isOperatorToken tok = true
    · simp only [h1, Bool.not_true, Bool.false_eq_true, if_false] at h hp ⊢
      by_cases h2 : tok = ltrue
      · simp only [h2, if_true] at h hp ⊢
        have hp' : peak rest (st.length + 1) ≤ 32 := Nat.le_trans (Nat.le_max_right _ _) hp
        have hlt : st.length < 32 := Nat.lt_of_lt_of_le (Nat.lt_succ_self _)
          (Nat.le_trans (le_peak rest _) hp')
        rw [push_sim st true hlt]
        exact evalBitsLoop_refines vals rest _ _ h hp'
      · simp only [h2, if_false] at h hp ⊢
        by_cases h3 : tok = lor
        · simp only [h3, if_true] at h hp ⊢
          match st, h, hp with
          | a :: b :: st, h, hp =>
            have hlen : (a :: b :: st).length ≤ 32 := Nat.le_trans (Nat.le_max_left _ _) hp
            rw [applyOr_sim a b st hlen]
            exact evalBitsLoop_refines vals rest _ _ h (Nat.le_trans (Nat.le_max_right _ _) hp)
        · simp only [h3, if_false] at h hp ⊢
          by_cases h4 : tok = land
          · simp only [h4, if_true] at h hp ⊢
            match st, h, hp with
            | a :: b :: st, h, hp =>
              have hlen : (a :: b :: st).length ≤ 32 := Nat.le_trans (Nat.le_max_left _ _) hp
              rw [applyAnd_sim a b st hlen]
              exact evalBitsLoop_refines vals rest _ _ h (Nat.le_trans (Nat.le_max_right _ _) hp)
          · simp only [h4, if_false] at h hp ⊢
            by_cases h5 : tok = lnot
            · simp only [h5, if_true] at h hp ⊢
              match st, h, hp with
              | a :: st, h, hp =>
                rw [applyNot_sim a st]
                exact evalBitsLoop_refines vals rest _ _ h
                  (Nat.le_trans (Nat.le_max_right _ _) hp)
            · simp only [h5, if_false] at h
              exact absurd h (by simp)
    · have h1' : isOperatorToken tok = false := by simpa using h1
      simp only [h1', Bool.not_false, if_true] at h hp ⊢
      have hp' : peak rest (st.length + 1) ≤ 32 := Nat.le_trans (Nat.le_max_right _ _) hp
      have hlt : st.length < 32 := Nat.lt_of_lt_of_le (Nat.lt_succ_self _)
        (Nat.le_trans (le_peak rest _) hp')
      rw [push_sim st (vals tok) hlt]
      exact evalBitsLoop_refines vals rest _ _ h hp'

/-! ### `calc_max_depth` bounds the peak of a well-formed run -/

theorem ltrue_ne_lor : ltrue ≠ lor := by decide
theorem ltrue_ne_land : ltrue ≠ land := by decide
theorem lor_ne_ltrue : lor ≠ ltrue := by decide
theorem land_ne_ltrue : land ≠ ltrue := by decide
theorem land_ne_lor : land ≠ lor := by decide
theorem lnot_ne_ltrue : lnot ≠ ltrue := by decide
theorem lnot_ne_lor : lnot ≠ lor := by decide
theorem lnot_ne_land : lnot ≠ land := by decide

/-- along a successful reference run from `st`, `depthLoop` started at `cur = st.length` ends
    with `cur = st'.length`, never decreases `maxD`, and `max maxD cur` bounds the peak. -/
theorem depthLoop_run (vals : Nat → Bool) : ∀ (l : List Nat) (st st' : List Bool) (m : Int),
    evalRefLoop vals l st = some st' →
    (depthLoop l m st.length).2 = st'.length ∧ m ≤ (depthLoop l m st.length).1 ∧
      (peak l st.length : Int) ≤ max (depthLoop l m st.length).1 (depthLoop l m st.length).2
  | [], st, st', m, h => by
    simp only [evalRefLoop, Option.some.injEq] at h
    subst h
    exact ⟨rfl, Int.le_refl _, Int.le_max_right _ _⟩
  | tok :: rest, st, st', m, h => by
    unfold evalRefLoop at h
    unfold peak
    unfold depthLoop
    by_cases h1 : isOperatorToken tok = true
    · simp only [h1, Bool.not_true, Bool.false_eq_true, if_false, Bool.false_or] at h ⊢
      by_cases h2 : tok = ltrue
      · simp only [h2, if_true, decide_true] at h ⊢
        have ih := depthLoop_run vals rest _ _ m h
        have hle := le_peak rest (st.length + 1)
        simp only [List.length_cons, Int.natCast_add, Int.cast_ofNat_Int] at ih
        omega
      · simp only [h2, if_false, decide_false, Bool.false_eq_true] at h ⊢
        by_cases h3 : tok = lor
        · simp only [h3, if_true, decide_true, Bool.or_true, land_ne_lor.symm] at h ⊢
          match st, h with
          | a :: b :: st, h =>
            have ih := depthLoop_run vals rest _ _ (max (((a :: b :: st).length : Nat) : Int) m) h
            simp only [List.length_cons, Int.natCast_add, Int.cast_ofNat_Int] at ih ⊢
            have e : ((st.length : Int) + 1 + 1 - 1) = (st.length : Int) + 1 := by omega
            have e2 : st.length + 1 + 1 - 1 = st.length + 1 := by omega
            rw [e, e2]
            omega
        · simp only [h3, if_false, decide_false, Bool.or_false] at h ⊢
          by_cases h4 : tok = land
          · simp only [h4, if_true, decide_true] at h ⊢
            match st, h with
            | a :: b :: st, h =>
              have ih := depthLoop_run vals rest _ _ (max (((a :: b :: st).length : Nat) : Int) m) h
              simp only [List.length_cons, Int.natCast_add, Int.cast_ofNat_Int] at ih ⊢
              have e : ((st.length : Int) + 1 + 1 - 1) = (st.length : Int) + 1 := by omega
              have e2 : st.length + 1 + 1 - 1 = st.length + 1 := by omega
              rw [e, e2]
              omega
          · simp only [h4, if_false, decide_false, Bool.false_eq_true] at h ⊢
            by_cases h5 : tok = lnot
            · simp only [h5, if_true] at h
              match st, h with
              | a :: st, h =>
                have ih := depthLoop_run vals rest _ _ m h
                have hle := le_peak rest (st.length + 1)
                simp only [List.length_cons, Int.natCast_add, Int.cast_ofNat_Int] at ih ⊢
                omega
            · simp only [h5, if_false] at h
              exact absurd h (by simp)
    · have h1' : isOperatorToken tok = false := by simpa using h1
      simp only [h1', Bool.not_false, if_true, Bool.true_or] at h ⊢
      have ih := depthLoop_run vals rest _ _ m h
      have hle := le_peak rest (st.length + 1)
      simp only [List.length_cons, Int.natCast_add, Int.cast_ofNat_Int] at ih
      omega

theorem evalRefLoop_of_evalRef {l : List Nat} {vals : Nat → Bool} {b : Bool}
    (hwf : evalRef l vals = some b) : evalRefLoop vals l [] = some [b] := by
  unfold evalRef at hwf
  split at hwf
  · rename_i b' h
    simp only [Option.some.injEq] at hwf
    subst hwf
    exact h
  · exact absurd hwf (by simp)

/-- for a well-formed logic, `calc_max_depth` is valid and bounds every intermediate stack
    length of the reference run (`peak l 0`, see `mid_le_peak`). -/
theorem peak_le_calcMaxDepth {l : List Nat} {vals : Nat → Bool} {b : Bool}
    (hwf : evalRef l vals = some b) :
    (peak l 0 : Int) ≤ calcMaxDepth l ∧ 1 ≤ calcMaxDepth l ∧ calcMaxDepth l ≠ invalidMaxDepth := by
  have h := depthLoop_run vals l [] [b] 1 (evalRefLoop_of_evalRef hwf)
  simp only [List.length_nil, List.length_cons, Int.natCast_add,
    Int.cast_ofNat_Int, Int.zero_add] at h
  obtain ⟨hc, hm, hp⟩ := h
  have hcalc : calcMaxDepth l = (depthLoop l 1 0).1 := by
    unfold calcMaxDepth
    simp only [hc, ne_eq, not_true_eq_false, if_false]
  have hinv : invalidMaxDepth = -1 := rfl
  rw [hcalc, hinv]
  omega

theorem calcMaxDepth_pos_of_wf {l : List Nat} {vals : Nat → Bool} {b : Bool}
    (hwf : evalRef l vals = some b) : 1 ≤ calcMaxDepth l :=
  (peak_le_calcMaxDepth hwf).2.1

/-- every intermediate stack of a well-formed run has length at most `calc_max_depth` -/
theorem mid_le_calcMaxDepth {l₁ l₂ : List Nat} {vals : Nat → Bool} {b : Bool}
    (hwf : evalRef (l₁ ++ l₂) vals = some b) :
    ∃ mid, evalRefLoop vals l₁ [] = some mid ∧ evalRefLoop vals l₂ mid = some [b] ∧
      (mid.length : Int) ≤ calcMaxDepth (l₁ ++ l₂) := by
  obtain ⟨mid, h1, h2, h3⟩ := mid_le_peak vals l₁ l₂ [] [b] (evalRefLoop_of_evalRef hwf)
  refine ⟨mid, h1, h2, ?_⟩
  have := (peak_le_calcMaxDepth hwf).1
  simp only [List.length_nil] at h3
  omega

/-! ### Main theorem -/

theorem bitstack_refines (l : List Nat) (vals : Nat → Bool) (b : Bool)
    (hwf : evalRef l vals = some b) (hdepth : calcMaxDepth l ≤ 32) :
    evalBits l vals = b := by
  have hpk : peak l ([] : List Bool).length ≤ 32 := by
    have := (peak_le_calcMaxDepth hwf).1
    simp only [List.length_nil]
    omega
  have h := evalBitsLoop_refines vals l [] [b] (evalRefLoop_of_evalRef hwf) hpk
  unfold evalBits
  simp only [encode_nil, List.length_nil] at h
  rw [h]
  exact top_sim b [] _

/-! ### Non-vacuity and sharpness -/

/-- 32 operands joined by 31 `&`: depth exactly 32 -/
def deep32 : List Nat := List.replicate 32 0 ++ List.replicate 31 land

example : calcMaxDepth deep32 = 32 := by decide

example : evalBits deep32 (fun _ => true) = true :=
  bitstack_refines deep32 (fun _ => true) true (by decide) (by decide)

/-- 33 operands joined by 32 `&`: depth 33, the first operand is shifted out of the word -/
def deep33 : List Nat := List.replicate 33 0 ++ List.replicate 32 land

example : calcMaxDepth deep33 = 33 := by decide
example : evalRef deep33 (fun _ => true) = some true := by decide
set_option maxRecDepth 4096 in
/-- at depth 33 the refinement fails: the reference gives `true`, the 32-bit stack `false` -/
theorem evalBits_deep33 : evalBits deep33 (fun _ => true) = false := by decide
example : ¬ (∀ (l : List Nat) (vals : Nat → Bool) (b : Bool),
    evalRef l vals = some b → calcMaxDepth l ≤ 33 → evalBits l vals = b) := by
  intro h
  have h33 : calcMaxDepth deep33 = 33 := by decide
  have := h deep33 (fun _ => true) true (by decide) (by rw [h33]; exact Int.le_refl _)
  rw [evalBits_deep33] at this
  exact absurd this (by decide)

end CelerVerif.Csg
