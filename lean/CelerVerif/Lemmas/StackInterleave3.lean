/- Interleaving semantics: a generic replacement lemma for the fetch-add and restore steps
   (C16). -/
import CelerVerif.Lemmas.StackInterleave2

namespace CelerVerif.Stack

/-- replacing thread `i` by `t'` and the shared size by `size'` keeps the invariant, provided
    the new thread's own obligations hold and the sums only grow -/
theorem iinv_replace {base cap tot : Nat} {s : Sys} (hI : IInv base cap tot s) (i : Nat)
    (hi : i < s.threads.length) (t' : Thread) (size' : Nat)
    (hn : t'.n = (s.threads[i]).n)
    (hF : fOf s.threads[i] ≤ fOf t') (hG : gOf cap s.threads[i] ≤ gOf cap t')
    (hsize : size' ≤ base + sumF (s.threads.set i t'))
    (hfe : ∀ a, t'.pc = .fetched a → a + t'.n ≤ base + sumF (s.threads.set i t'))
    (hrange : committedB cap t' = true → base ≤ startOf t' ∧
      startOf t' + t'.n ≤ base + sumG cap (s.threads.set i t'))
    (hd : committedB cap t' = true → ∀ (b : Nat) (tb : Thread), b ≠ i → s.threads[b]? = some tb →
      committedB cap tb = true →
      startOf tb + tb.n ≤ startOf t' ∨ startOf t' + t'.n ≤ startOf tb)
    (hl : base + sumG cap (s.threads.set i t') ≤ cap)
    (hover : ∀ t ∈ s.threads.set i t', overB cap t = true →
      startOf t = base + sumG cap (s.threads.set i t'))
    (hmode : (size' = base + sumG cap (s.threads.set i t') ∧ sumO cap (s.threads.set i t') = 0) ∨
      (cap < size' ∧ sumO cap (s.threads.set i t') = 1)) :
    IInv base cap tot { s with size := size', threads := s.threads.set i t' } := by
  obtain ⟨e1, e2, e3, e4⟩ := sums_set cap s.threads i hi t'
  refine ⟨hI.cap_eq, ?_, hsize, ?_, ?_, ?_, hl, hover, hmode⟩
  · show total (s.threads.set i t') = tot
    rw [← hI.tot_eq]; omega
  · intro t ht a hpc
    show a + t.n ≤ base + sumF (s.threads.set i t')
    rcases List.mem_or_eq_of_mem_set ht with h | h
    · have := hI.fetched_le t h a hpc; omega
    · subst h; exact hfe a hpc
  · intro t ht hct
    show base ≤ startOf t ∧ startOf t + t.n ≤ base + sumG cap (s.threads.set i t')
    rcases List.mem_or_eq_of_mem_set ht with h | h
    · have := hI.range t h hct; omega
    · subst h; exact hrange hct
  · intro a b ta tb hab ha hb hca hcb
    rcases getElem?_set_cases _ _ _ _ _ hi ha with ⟨rfl, rfl⟩ | ⟨hai, ha'⟩ <;>
      rcases getElem?_set_cases _ _ _ _ _ hi hb with ⟨rfl, rfl⟩ | ⟨hbi, hb'⟩
    · exact absurd rfl hab
    · have := hd hca b tb (fun h => hab h.symm) hb' hcb
      omega
    · exact hd hcb a ta (fun h => hab h) ha' hca
    · exact hI.disj a b ta tb hab ha' hb' hca hcb

end CelerVerif.Stack
