/-
Helper lemmas for C05 (Urban MSC step-limit selection and displacement cap, Model/StepMsc.lean)
read at ℝ.
-/
import CelerVerif.Lemmas.Step
import CelerVerif.Model.StepMsc

namespace CelerVerif.Step
open CelerVerif

theorem clamp_le (v lo hi : ℝ) (h : lo ≤ hi) : clamp v lo hi ≤ hi ∧ lo ≤ clamp v lo hi := by
  unfold clamp
  split_ifs with h1 h2
  · exact ⟨h, le_refl _⟩
  · exact ⟨le_refl _, h⟩
  · stp_simp at h1 h2
    exact ⟨not_lt.mp h2, not_lt.mp h1⟩

/-- `operator()`: every branch, every random draw `z` -/
theorem mscSample_le (maxStep limit limitMin z : ℝ) (h : limitMin ≤ limit) :
    mscSample maxStep limit limitMin z ≤ maxStep := by
  unfold mscSample
  split_ifs with h1 h2
  · exact le_refl _
  · stp_simp at h1 h2
    have : limit < maxStep := not_le.mp h1
    linarith
  · stp_simp at h1
    have : limit < maxStep := not_le.mp h1
    exact (clamp_le _ _ _ (by linarith)).1

theorem mscSample_ge (maxStep limit limitMin z : ℝ) (h : limitMin ≤ limit)
    (hm : limitMin ≤ maxStep) : limitMin ≤ mscSample maxStep limit limitMin z := by
  unfold mscSample
  split_ifs with h1 h2
  · exact hm
  · exact le_refl _
  · exact (clamp_le _ _ _ hm).2

theorem safetyLimit_ge (sc : MscScalars ℝ) (range safety : ℝ) (r : MscRange ℝ) :
    r.limitMin ≤ safetyLimit sc range safety r := by
  unfold safetyLimit
  simp only [NumR.max_real]
  exact le_max_right _ _

theorem safetyMaxStep_le (plus : Bool) (physStep range : ℝ) :
    safetyMaxStep plus physStep range ≤ physStep := by
  unfold safetyMaxStep
  split_ifs
  · rw [NumR.min_real]; exact min_le_left _ _
  · exact le_refl _

/-- state invariant of the minimal algorithm: a finite cached limit is ≥ the floor -/
def MscRange.Floor (r : MscRange ℝ) : Prop := ∀ ri, r.rangeInit = some ri → r.limitMin ≤ ri

theorem minimalRange_floor (sc : MscScalars ℝ) (onb : Bool) (range mfp : ℝ) (r0 : MscRange ℝ)
    (h0 : r0.valid = true → r0.Floor) : (minimalRange sc onb range mfp r0).Floor := by
  unfold minimalRange
  intro ri hri
  by_cases hv : r0.valid = true
  · simp only [hv, Bool.not_true, Bool.false_eq_true, if_false] at hri ⊢
    cases onb
    · simp only [Bool.false_eq_true, if_false] at hri ⊢
      exact h0 hv ri hri
    · simp only [if_true] at hri ⊢
      have := Option.some.inj hri
      rw [← this, NumR.max_real]
      exact le_max_right _ _
  · have hv' : r0.valid = false := by simpa using hv
    simp only [hv', Bool.not_false, if_true] at hri ⊢
    cases onb
    · simp at hri
    · simp only [if_true] at hri ⊢
      have := Option.some.inj hri
      rw [← this, NumR.max_real]
      exact le_max_right _ _

theorem mscSampleInf_le (maxStep : ℝ) (limit : Option ℝ) (limitMin z : ℝ)
    (h : ∀ l, limit = some l → limitMin ≤ l) : mscSampleInf maxStep limit limitMin z ≤ maxStep := by
  unfold mscSampleInf
  cases limit with
  | none => exact le_refl _
  | some l => exact mscSample_le _ _ _ _ (h l rfl)

theorem mscDisplacement_cap (calcLen safety tol geomLimit l : ℝ)
    (h : mscDisplacement calcLen safety tol geomLimit = some l) :
    l ≤ (1 - tol) * safety ∧ l ≤ calcLen ∧ geomLimit ≤ l := by
  unfold mscDisplacement at h
  simp only [NumR.min_real, NumR.lit1, NumR.hsub_real, NumR.hmul_real] at h
  split_ifs at h with h1
  have hl := Option.some.inj h
  stp_simp at h1
  subst hl
  exact ⟨min_le_right _ _, min_le_left _ _, h1⟩

end CelerVerif.Step
