/- Lemmas for Props/C07. -/
import CelerVerif.Model.Streams

namespace CelerVerif.Streams
variable {P S A : Type}

theorem update_same {β : Type} (f : Nat → β) (i : Nat) (v : β) : update f i v i = v := by
  simp [update]

theorem update_other {β : Type} (f : Nat → β) (i j : Nat) (v : β) (h : j ≠ i) :
    update f i v j = f j := by
  simp [update, h]

theorem step_params (sem : Sem P S A) (i : Nat) (g : Global P S A) :
    (step sem i g).params = g.params := rfl

theorem step_comp_same (sem : Sem P S A) (i : Nat) (g : Global P S A) :
    ((step sem i g).core i, (step sem i g).store i) = localStep sem g.params i (g.core i, g.store i) := by
  simp [step, localStep, update]

theorem step_comp_other (sem : Sem P S A) (i j : Nat) (g : Global P S A) (h : j ≠ i) :
    (step sem i g).core j = g.core j ∧ (step sem i g).store j = g.store j := by
  simp [step, update, h]

theorem iter_succ' {β : Type} (f : β → β) (n : Nat) (x : β) : iter f (n + 1) x = f (iter f n x) := by
  induction n generalizing x with
  | zero => rfl
  | succ n ih => rw [iter, ih (f x)]; rfl

theorem exec_params (sem : Sem P S A) (sched : List Nat) (g : Global P S A) :
    (exec sem sched g).params = g.params := by
  unfold exec
  induction sched generalizing g with
  | nil => rfl
  | cons i l ih => rw [List.foldl_cons, ih, step_params]

/-- after any schedule, component `i` is the `count i`-fold iterate of the stream's own
    transition on its own initial component -/
theorem exec_comp (sem : Sem P S A) (sched : List Nat) (g : Global P S A) (i : Nat) :
    ((exec sem sched g).core i, (exec sem sched g).store i) =
      iter (localStep sem g.params i) (sched.count i) (g.core i, g.store i) := by
  unfold exec
  induction sched generalizing g with
  | nil => rfl
  | cons j l ih =>
    rw [List.foldl_cons, ih (step sem j g), step_params]
    by_cases h : j = i
    · subst h
      rw [List.count_cons_self, iter, step_comp_same]
    · have h' : i ≠ j := fun e => h e.symm
      have := step_comp_other sem j i g h'
      rw [List.count_cons_of_ne h, this.1, this.2]

theorem global_ext (g₁ g₂ : Global P S A) (hp : g₁.params = g₂.params)
    (hc : ∀ i, (g₁.core i, g₁.store i) = (g₂.core i, g₂.store i)) : g₁ = g₂ := by
  cases g₁ with
  | mk p1 c1 s1 =>
    cases g₂ with
    | mk p2 c2 s2 =>
      simp only at hp
      subst hp
      have h1 : c1 = c2 := funext fun i => (Prod.mk.inj (hc i)).1
      have h2 : s1 = s2 := funext fun i => (Prod.mk.inj (hc i)).2
      rw [h1, h2]

theorem count_flat (cs : List Nat) (n i : Nat) :
    ((cs.zipIdx n).flatMap (fun (c, j) => List.replicate c j)).count i =
      if n ≤ i then cs.getD (i - n) 0 else 0 := by
  induction cs generalizing n with
  | nil => simp
  | cons c cs ih =>
    rw [List.zipIdx_cons, List.flatMap_cons, List.count_append, ih (n + 1), List.count_replicate]
    by_cases h1 : n = i
    · subst h1
      have : ¬ (n + 1 ≤ n) := by omega
      simp [this]
    · by_cases h2 : n ≤ i
      · have h3 : n + 1 ≤ i := by omega
        have h4 : i - n = (i - (n + 1)) + 1 := by omega
        have h5 : ¬ ((n == i) = true) := by simpa using h1
        rw [h4, List.getD_cons_succ]
        simp [h5, h2, h3]
      · have h3 : ¬ (n + 1 ≤ i) := by omega
        have h5 : ¬ ((n == i) = true) := by simpa using h1
        simp [h5, h2, h3]

theorem serial_count (sched : List Nat) (k : Nat) (hk : ∀ i ∈ sched, i < k) (i : Nat) :
    ((((List.range k).map (fun i => sched.count i)).zipIdx).flatMap
        (fun (c, j) => List.replicate c j)).count i = sched.count i := by
  rw [count_flat]
  simp only [Nat.zero_le, if_true, Nat.sub_zero]
  by_cases h : i < k
  · simp [List.getD_eq_getElem?_getD, h]
  · have : sched.count i = 0 := by
      rw [List.count_eq_zero]
      intro hi
      exact h (hk i hi)
    simp [List.getD_eq_getElem?_getD, h, this]

end CelerVerif.Streams
