/- Basic definitions and list lemmas for the track-initialisation proofs (C02). -/
import CelerVerif.Model.TrackInit

namespace CelerVerif.TrackInit

/-! ### generic list facts -/

theorem take_set_succ {α} (l : List α) (n : Nat) (x : α) (h : n < l.length) :
    (l.set n x).take (n + 1) = l.take n ++ [x] := by
  induction l generalizing n with
  | nil => simp at h
  | cons a l ih =>
    cases n with
    | zero => simp
    | succ k => simp at h; simp [ih k h]

theorem take_set_of_le {α} (l : List α) (n m : Nat) (x : α) (h : m ≤ n) :
    (l.set n x).take m = l.take m := by
  induction l generalizing n m with
  | nil => simp
  | cons a l ih =>
    cases n with
    | zero => have : m = 0 := by omega
              subst this; simp
    | succ k =>
      cases m with
      | zero => simp
      | succ j => simp [ih k j (by omega)]

theorem foldl_range_succ {β} (f : β → Nat → β) (b : β) (n : Nat) :
    (List.range (n + 1)).foldl f b = f ((List.range n).foldl f b) n := by
  rw [List.range_succ, List.foldl_append]; rfl

theorem getD_set_eq {α} (l : List α) (i j : Nat) (x d : α) :
    (l.set i x).getD j d = if i = j ∧ i < l.length then x else l.getD j d := by
  simp only [List.getD_eq_getElem?_getD, List.getElem?_set]
  by_cases h : i = j
  · subst h
    by_cases h2 : i < l.length <;> simp [h2]
  · simp [h]

/-! ### identities of tracks -/

abbrev Key := Nat × Nat
def Rec.key (r : Rec) : Key := (r.ev, r.tid)

def Slot.ident (x : Slot) : Rec := ⟨x.ev, x.tid.getD 0, x.parent⟩
def Init.ident (i : Init) : Rec := ⟨i.ev, i.tid, i.parent⟩

def Slot.active (x : Slot) : Bool := x.status != .inactive

/-- identities of the tracks currently occupying a slot -/
def liveL (l : List Slot) : List Rec := (l.filter Slot.active).map Slot.ident

/-- identities of the first `ni` pending initializers -/
def pendL (l : List Init) (ni : Nat) : List Rec := (l.take ni).map Init.ident

def ctr (s : State) (e : Nat) : Nat := s.trackCounters.getD e 0

theorem liveL_nil : liveL [] = [] := rfl

theorem liveL_cons (a : Slot) (l : List Slot) :
    liveL (a :: l) = if a.active then a.ident :: liveL l else liveL l := by
  unfold liveL
  by_cases h : a.active = true <;> simp [h]

theorem liveL_append (l₁ l₂ : List Slot) : liveL (l₁ ++ l₂) = liveL l₁ ++ liveL l₂ := by
  simp [liveL]

/-- replacing slot `i`: the live multiset loses the old occupant and gains the new one -/
theorem liveL_set_count (l : List Slot) (i : Nat) (h : i < l.length) (y : Slot) (r : Rec) :
    (liveL (l.set i y)).count r + (liveL [l[i]]).count r
      = (liveL l).count r + (liveL [y]).count r := by
  induction l generalizing i with
  | nil => simp at h
  | cons a l ih =>
    cases i with
    | zero =>
      simp only [List.set_cons_zero, List.getElem_cons_zero, liveL_cons, liveL_nil]
      by_cases h1 : a.active = true <;> by_cases h2 : y.active = true <;>
        simp [h1, h2, List.count_cons] <;> omega
    | succ k =>
      simp at h
      have := ih k h
      simp only [List.set_cons_succ, List.getElem_cons_succ]
      rw [liveL_cons a (l.set k y), liveL_cons a l]
      by_cases h1 : a.active = true <;> simp [h1, List.count_cons] <;> omega

theorem liveL_set_length (l : List Slot) (i : Nat) (h : i < l.length) (y : Slot) :
    (liveL (l.set i y)).length + (liveL [l[i]]).length
      = (liveL l).length + (liveL [y]).length := by
  induction l generalizing i with
  | nil => simp at h
  | cons a l ih =>
    cases i with
    | zero =>
      simp only [List.set_cons_zero, List.getElem_cons_zero, liveL_cons, liveL_nil]
      by_cases h1 : a.active = true <;> by_cases h2 : y.active = true <;> simp [h1, h2]
      all_goals omega
    | succ k =>
      simp at h
      have := ih k h
      simp only [List.set_cons_succ, List.getElem_cons_succ]
      rw [liveL_cons a (l.set k y), liveL_cons a l]
      by_cases h1 : a.active = true <;> simp [h1] <;> omega

theorem liveL_single (y : Slot) : liveL [y] = if y.active then [y.ident] else [] := by
  simp [liveL_cons, liveL_nil]

/-- a map that keeps activity and identity keeps the live list -/
theorem liveL_map (f : Slot → Slot) (l : List Slot)
    (h : ∀ x ∈ l, (f x).active = x.active ∧ (f x).ident = x.ident) : liveL (l.map f) = liveL l := by
  induction l with
  | nil => rfl
  | cons a l ih =>
    have ha := h a (by simp)
    simp only [List.map_cons, liveL_cons, ha.1, ha.2]
    rw [ih (fun x hx => h x (by simp [hx]))]

theorem liveL_zipWith {β} (f : Slot → β → Slot) (l : List Slot) (o : List β)
    (hlen : l.length ≤ o.length)
    (h : ∀ x ∈ l, ∀ b, (f x b).active = x.active ∧ (f x b).ident = x.ident) :
    liveL (List.zipWith f l o) = liveL l := by
  induction l generalizing o with
  | nil => simp [liveL_nil]
  | cons a l ih =>
    cases o with
    | nil => simp at hlen
    | cons b o =>
      have ha := h a (by simp) b
      simp only [List.zipWith_cons_cons, liveL_cons, ha.1, ha.2]
      simp at hlen
      rw [ih o hlen (fun x hx => h x (by simp [hx]))]

theorem pendL_push (l : List Init) (ni : Nat) (x : Init) (h : ni < l.length) :
    pendL (l.set ni x) (ni + 1) = pendL l ni ++ [x.ident] := by
  simp [pendL, take_set_succ l ni x h]

theorem pendL_set_ge (l : List Init) (ni j : Nat) (x : Init) (h : ni ≤ j) :
    pendL (l.set j x) ni = pendL l ni := by
  simp [pendL, take_set_of_le l j ni x h]

/-! ### the accounting invariant -/

/-- array sizes never change -/
structure Lens (cfg : Cfg) (s : State) : Prop where
  cfg_eq : s.cfg = cfg
  slots : s.slots.length = cfg.slots
  inits : s.initializers.length = cfg.capacity
  parents : s.parents.length = cfg.slots
  secCounts : s.secCounts.length = cfg.slots + 1
  counters : s.trackCounters.length = cfg.maxEvents

/-- ghost accounting relative to a (virtual) number `ni` of valid initializers -/
structure Core (s : State) (ni : Nat) : Prop where
  ni_le : ni ≤ s.initializers.length
  /-- every id handed out is below its event's counter -/
  below : ∀ r ∈ s.created, r.ev < s.trackCounters.length ∧ r.tid < ctr s r.ev
  /-- ids are unique per event -/
  nodup : (s.created.map Rec.key).Nodup
  /-- transported once: created = started ⊎ pending -/
  once : ∀ r, s.created.count r = s.started.count r + (pendL s.initializers ni).count r
  /-- every started track is in exactly one slot or finished -/
  slots : ∀ r, s.started.count r = (liveL s.slots).count r + s.finished.count r
  /-- parents are earlier, started tracks of the same event -/
  parent : ∀ r ∈ s.created, ∀ p, r.parent = some p →
    p < r.tid ∧ ∃ q ∈ s.started, q.ev = r.ev ∧ q.tid = p
  /-- occupied slots hold a track id -/
  hasId : ∀ x ∈ s.slots, x.active = true → x.tid.isSome = true

theorem ctr_makeTrackId (s : State) (ev e : Nat) (h : ev < s.trackCounters.length) :
    ctr (makeTrackId s ev).2 e = if e = ev then ctr s e + 1 else ctr s e := by
  unfold ctr makeTrackId
  simp only [getD_set_eq]
  by_cases h1 : ev = e
  · subst h1; simp [h]
  · have : ¬ e = ev := fun h2 => h1 h2.symm
    simp [h1, this]

theorem mem_of_count_pos {α} [DecidableEq α] {l : List α} {a : α} (h : 0 < l.count a) : a ∈ l :=
  List.count_pos_iff.mp h

theorem Core.started_sub_created {s ni} (h : Core s ni) {r : Rec} (hr : r ∈ s.started) :
    r ∈ s.created := by
  apply mem_of_count_pos
  have := h.once r
  have : 0 < s.started.count r := List.count_pos_iff.mpr hr
  omega

theorem Core.live_sub_started {s ni} (h : Core s ni) {r : Rec} (hr : r ∈ liveL s.slots) :
    r ∈ s.started := by
  apply mem_of_count_pos
  have := h.slots r
  have : 0 < (liveL s.slots).count r := List.count_pos_iff.mpr hr
  omega

end CelerVerif.TrackInit
