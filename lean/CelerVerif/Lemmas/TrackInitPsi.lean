/- Liveness potential: remaining-step budget of the occupied slots + K per queued track (C02). -/
import CelerVerif.Lemmas.TrackInitStep3
import CelerVerif.Lemmas.StackInterleave

namespace CelerVerif.TrackInit
open CelerVerif.Stack (sum_map_set sum_map_le)

/-- remaining-step budget of a track that must die within `K` of its own steps (at least 1:
    its death is still to come) -/
def termOf (K : Nat) (x : Slot) : Nat := max 1 (K - x.steps)

def cOf (K : Nat) (x : Slot) : Nat := if x.active then termOf K x else 0

def psiSlots (K : Nat) (l : List Slot) : Nat := (l.map (cOf K)).sum

/-- the potential: budgets of the tracks in flight + `K` for every queued track -/
def Psi (K : Nat) (s : State) : Nat := psiSlots K s.slots + K * s.c.numInitializers

theorem termOf_le {K : Nat} (hK : 1 ≤ K) (x : Slot) : termOf K x ≤ K := by
  unfold termOf; omega

theorem termOf_pos (K : Nat) (x : Slot) : 1 ≤ termOf K x := by
  unfold termOf; omega

theorem cOf_le {K : Nat} (hK : 1 ≤ K) (x : Slot) : cOf K x ≤ K := by
  unfold cOf; split
  · exact termOf_le hK x
  · omega

theorem psi_set_le {K : Nat} (hK : 1 ≤ K) (l : List Slot) (i : Nat) (y : Slot) :
    psiSlots K (l.set i y) ≤ psiSlots K l + K := by
  rcases Nat.lt_or_ge i l.length with h | h
  · have := sum_map_set (cOf K) l i h y
    have := cOf_le hK y
    unfold psiSlots; omega
  · rw [List.set_eq_of_length_le h]; omega

theorem initTrack_psi {K : Nat} (hK : 1 ≤ K) (c : Counters) (n : Nat) (s : State) (tid : Nat) :
    psiSlots K (initTrack c n s tid).slots ≤ psiSlots K s.slots + K := by
  unfold initTrack
  exact psi_set_le hK _ _ _

theorem initFold_psi {K : Nat} (hK : 1 ≤ K) (c : Counters) (m : Nat) (n : Nat) (s : State) :
    psiSlots K ((List.range n).foldl (initTrack c m) s).slots ≤ psiSlots K s.slots + n * K := by
  induction n with
  | zero => simp
  | succ k ih =>
    rw [foldl_range_succ]
    have := initTrack_psi hK c m ((List.range k).foldl (initTrack c m) s) k
    rw [Nat.succ_mul]; omega

theorem initializeTracks_psi {K : Nat} (hK : 1 ≤ K) (s : State) :
    psiSlots K (initializeTracks s).slots
      ≤ psiSlots K s.slots + min s.c.numVacancies s.c.numInitializers * K := by
  unfold initializeTracks
  simp only
  by_cases hn : min s.c.numVacancies s.c.numInitializers > 0
  · simp only [hn, if_true]
    by_cases ho : s.cfg.order = .initCharge
    · simp only [ho, if_true]
      exact initFold_psi hK _ _ _ _
    · simp only [ho, if_false]
      exact initFold_psi hK _ _ _ _
  · simp only [hn, if_false]
    omega

/-- the potential bounds (and is bounded by) the amount of outstanding work -/
theorem psiSlots_bounds {K : Nat} (hK : 1 ≤ K) (l : List Slot) :
    (liveL l).length ≤ psiSlots K l ∧ psiSlots K l ≤ K * (liveL l).length := by
  induction l with
  | nil => simp [psiSlots, liveL_nil]
  | cons a l ih =>
    have h1 := termOf_pos K a
    have h2 := termOf_le hK a
    unfold psiSlots at *
    simp only [List.map_cons, List.sum_cons, liveL_cons, cOf]
    by_cases ha : a.active = true
    · simp only [ha, if_true, List.length_cons]
      rw [Nat.mul_succ]; omega
    · have ha' : a.active = false := by simpa using ha
      simp [ha']; omega

end CelerVerif.TrackInit
