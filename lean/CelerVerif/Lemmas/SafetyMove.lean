/-
`find_safety` is a function of the stored per-level positions only, and `set_dir` +
`move_internal(dist)` keep those positions equal to the transform-down chain of the moved global
position provided the stored local directions are the rotate-down chain of the global direction.
-/
import CelerVerif.Lemmas.SafetyMax

namespace CelerVerif.Safety
open CelerVerif CelerVerif.Surf

theorem findSafetyAtFrom_chain (acc : Option ℝ) (ls : List (Level ℝ)) (x : Vec3 ℝ) :
    findSafetyAtFrom acc ls (levelPositions ls x) = findSafetyFrom acc ls x := by
  induction ls generalizing acc x with
  | nil => rfl
  | cons l t ih => simp only [levelPositions, findSafetyAtFrom, findSafetyFrom]; exact ih _ _

/-- transform-down is affine: down(x + t·d) = down(x) + t·rotate_down(d) (no orthogonality needed) -/
theorem down_axpy (xf : LevelXf ℝ) (t : ℝ) (d x : Vec3 ℝ) :
    xf.down (Vec3.axpy t d x) = Vec3.axpy t (xf.rotDown d) (xf.down x) := by
  cases xf with
  | noTransformation => rfl
  | translation tra =>
    simp only [LevelXf.down, LevelXf.rotDown, translateDown, Vec3.sub, Vec3R.axpy_real]
    apply vec3_ext <;> num_simp <;> ring
  | transformation tr =>
    simp only [LevelXf.down, LevelXf.rotDown, Vec3R.axpy_real]
    apply vec3_ext <;> xf_simp <;> num_simp <;> ring

theorem moveInternal_chain (ls : List (Level ℝ)) (t : ℝ) (d x : Vec3 ℝ) :
    moveInternal t (levelDirections ls d) (levelPositions ls x)
      = levelPositions ls (Vec3.axpy t d x) := by
  induction ls generalizing d x with
  | nil => rfl
  | cons l tl ih =>
    simp only [levelDirections, levelPositions, moveInternal]
    rw [down_axpy, ih]

end CelerVerif.Safety
