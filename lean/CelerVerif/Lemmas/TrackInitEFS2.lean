/- ExtendFromSecondaries as a whole: loop over slots, scan offsets, vacancy rebuild (C02). -/
import CelerVerif.Lemmas.TrackInitEFS

namespace CelerVerif.TrackInit

def prefixQ (order : Order) (slots : List Slot) (k : Nat) : Nat :=
  ((slots.take k).map (qOf order)).sum

theorem prefixQ_succ (order : Order) (slots : List Slot) (k : Nat) (h : k < slots.length) :
    prefixQ order slots (k + 1) = prefixQ order slots k + qOf order slots[k] := by
  simp only [prefixQ, List.take_succ_eq_append_getElem h, List.map_append, List.sum_append,
    List.map_cons, List.map_nil, List.sum_cons, List.sum_nil, Nat.add_zero]

theorem prefixQ_le_succ (order : Order) (slots : List Slot) (k : Nat) :
    prefixQ order slots k ≤ prefixQ order slots (k + 1) := by
  rcases Nat.lt_or_ge k slots.length with h | h
  · rw [prefixQ_succ _ _ _ h]; omega
  · simp only [prefixQ]
    rw [List.take_of_length_le h, List.take_of_length_le (by omega)]
    exact Nat.le_refl _

theorem prefixQ_mono (order : Order) (slots : List Slot) {a b : Nat} (h : a ≤ b) :
    prefixQ order slots a ≤ prefixQ order slots b := by
  induction b with
  | zero => have : a = 0 := by omega
            subst this; exact Nat.le_refl _
  | succ k ih =>
    rcases Nat.lt_or_ge a (k + 1) with h1 | h1
    · exact Nat.le_trans (ih (by omega)) (prefixQ_le_succ _ _ _)
    · have : a = k + 1 := by omega
      subst this; exact Nat.le_refl _

/-- loop invariant of the loop over slots in `process_secondaries` -/
structure EFSInv (cfg : Cfg) (s0 : State) (c2 : Counters) (vac : List Nat) (scanned : List Nat)
    (old : Nat) (k : Nat) (s : State) : Prop where
  lens : Lens cfg s
  core : Core s (old + prefixQ cfg.order s0.slots k)
  rest : ∀ j, k ≤ j → s.slots[j]? = s0.slots[j]?
  done : ∀ j, j < k → (s.slots.getD j Slot.empty).active
      = keepOf cfg.order (s0.slots.getD j Slot.empty) ∧
    ((s.slots.getD j Slot.empty).status = .inactive ∨ (s.slots.getD j Slot.empty).status = .alive ∨
      (s.slots.getD j Slot.empty).status = .initializing) ∧
    ((s0.slots.getD j Slot.empty).status = .alive →
      s.slots.getD j Slot.empty = s0.slots.getD j Slot.empty)
  frame : s.vacancies = vac ∧ s.secCounts = scanned ∧ s.c = c2 ∧ s.pending = s0.pending ∧
    s.indices = s0.indices

theorem efs_loop {cfg : Cfg} {s0 : State} {c2 : Counters} {vac scanned : List Nat} {old : Nat}
    (hL0 : Lens cfg s0) (hend : ∀ x ∈ s0.slots, x.endOk)
    (hsc : ∀ k, k < cfg.slots → scanned.getD k 0 = prefixQ cfg.order s0.slots k)
    (hc2a : c2.numInitializers = old + prefixQ cfg.order s0.slots cfg.slots)
    (hc2b : c2.numSecondaries = prefixQ cfg.order s0.slots cfg.slots)
    (hcap : c2.numInitializers ≤ cfg.capacity)
    (k : Nat) (hk : k ≤ cfg.slots) {s : State}
    (h0 : EFSInv cfg s0 c2 vac scanned old 0 s) :
    EFSInv cfg s0 c2 vac scanned old k ((List.range k).foldl (processSlot c2) s) := by
  induction k with
  | zero => simpa using h0
  | succ k ih =>
    have hI := ih (by omega)
    rw [foldl_range_succ]
    generalize (List.range k).foldl (processSlot c2) s = sk at hI
    have hklt : k < sk.slots.length := by rw [hI.lens.slots]; omega
    have hk0 : k < s0.slots.length := by rw [hL0.slots]; omega
    have hsame : sk.slots[k] = s0.slots[k] := by
      have := hI.rest k (Nat.le_refl k)
      rw [List.getElem?_eq_getElem hklt, List.getElem?_eq_getElem hk0] at this
      exact Option.some.inj this
    have hstep := processSlot_inv (c := c2) (s := sk) (tid := k)
      (ni := old + prefixQ cfg.order s0.slots k) hI.core hklt
      (by rw [hsame]; exact hend _ (List.getElem_mem hk0))
      (by rw [hI.lens.inits]; exact hcap)
      (by
        intro _
        rw [hI.frame.2.1, hsc k (by omega), hc2a, hc2b, hI.lens.cfg_eq, hsame]
        have h1 := prefixQ_succ cfg.order s0.slots k hk0
        have h2 := prefixQ_mono cfg.order s0.slots (a := k + 1) (b := cfg.slots) (by omega)
        omega)
    have hgetk : sk.slots.getD k Slot.empty = s0.slots[k] := by
      rw [← hsame]; simp [List.getD_eq_getElem?_getD, List.getElem?_eq_getElem hklt]
    have hget0 : s0.slots.getD k Slot.empty = s0.slots[k] := by
      simp [List.getD_eq_getElem?_getD, List.getElem?_eq_getElem hk0]
    refine ⟨⟨?_, ?_, ?_, ?_, ?_, ?_⟩, ?_, ?_, ?_, ?_⟩
    · rw [hstep.cfg]; exact hI.lens.cfg_eq
    · rw [hstep.len]; exact hI.lens.slots
    · rw [hstep.ilen]; exact hI.lens.inits
    · rw [hstep.plen]; exact hI.lens.parents
    · rw [hstep.frame.2.1]; exact hI.lens.secCounts
    · rw [hstep.tlen]; exact hI.lens.counters
    · have := hstep.core
      rw [hI.lens.cfg_eq, hgetk] at this
      rw [prefixQ_succ _ _ _ hk0, ← Nat.add_assoc]; exact this
    · intro j hj
      rw [hstep.others j (by omega)]
      exact hI.rest j (by omega)
    · intro j hj
      rcases Nat.lt_or_ge j k with h1 | h1
      · have := hstep.others j (by omega)
        have hd := hI.done j h1
        simp only [List.getD_eq_getElem?_getD, this] at hd ⊢
        exact hd
      · have : j = k := by omega
        subst this
        have h1 := hstep.act
        have h2 := hstep.st
        have h3 := hstep.aliveSame
        rw [hI.lens.cfg_eq, hgetk] at h1
        rw [hgetk] at h3
        rw [hget0]
        exact ⟨h1, h2, h3⟩
    · obtain ⟨f1, f2, f3, f4, f5⟩ := hstep.frame
      obtain ⟨g1, g2, g3, g4, g5⟩ := hI.frame
      exact ⟨f1.trans g1, f2.trans g2, f3.trans g3, f4.trans g4, f5.trans g5⟩

end CelerVerif.TrackInit
