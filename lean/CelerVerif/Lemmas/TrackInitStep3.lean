/- One full Stepper step from a generic pre-state, given the specification of
   InitializeTracks for the configured track order (C02). -/
import CelerVerif.Lemmas.TrackInitStep2

namespace CelerVerif.TrackInit

/-- the actions of one step after the counter `num_generated` was zeroed -/
def stepBody (o : List Outcome) (s1 : State) : Except (Err × State) State :=
  extendFromSecondaries (trackingCut (interact o (preStep (initializeTracks
    (extendFromPrimaries s1)))))

/-- pre-state of a step: the between-steps invariant except that primaries may be pending -/
structure Pre (cfg : Cfg) (s : State) : Prop where
  lens : Lens cfg s
  core : Core s s.c.numInitializers
  evs : ∀ p ∈ s.pending, p.ev < cfg.maxEvents
  fit : s.c.numInitializers + s.pending.length ≤ cfg.capacity
  vac : s.vacancies = (List.range cfg.slots).filter
    (fun i => !(s.slots.getD i Slot.empty).active)
  nvac : s.c.numVacancies = s.vacancies.length
  status : ∀ x ∈ s.slots, x.stepOk
  occupied : (liveL s.slots).length + s.c.numVacancies = cfg.slots

/-- what a successful step guarantees -/
structure StepOk (cfg : Cfg) (s1 s' : State) : Prop where
  inv : Inv cfg s'
  gen : s'.c.numGenerated = s1.c.numGenerated + s1.pending.length
  alive : s'.c.numAlive = (liveL s'.slots).length
  active : s'.c.numActive
    = (liveL (initializeTracks (extendFromPrimaries s1)).slots).length
  started : s'.c.numActive = (liveL s1.slots).length
    + min s1.c.numVacancies (s1.c.numInitializers + s1.pending.length)

/-- specification of `InitializeTracksAction` as a whole (proved per track order) -/
def ITSpec (cfg : Cfg) : Prop :=
  ∀ s : State, Lens cfg s → Core s s.c.numInitializers → s.c.numInitializers ≤ cfg.capacity →
    s.vacancies = (List.range cfg.slots).filter (fun i => !(s.slots.getD i Slot.empty).active) →
    s.c.numVacancies = s.vacancies.length → (∀ x ∈ s.slots, x.stepOk) →
    (liveL s.slots).length + s.c.numVacancies = cfg.slots →
    Mid cfg (initializeTracks s) ∧
    (initializeTracks s).c.numInitializers
      = s.c.numInitializers - min s.c.numVacancies s.c.numInitializers ∧
    (initializeTracks s).c.numVacancies
      = s.c.numVacancies - min s.c.numVacancies s.c.numInitializers ∧
    (initializeTracks s).pending = s.pending ∧
    (initializeTracks s).c.numGenerated = s.c.numGenerated

theorem itSpec_none {cfg : Cfg} (hord : cfg.order ≠ .initCharge) : ITSpec cfg :=
  fun _ hL hC hcap hvac hnvac hst hocc => it_spec_none hord hL hC hcap hvac hnvac hst hocc

theorem efs_error_pending {s s' : State} {e : Err}
    (h : extendFromSecondaries s = .error (e, s')) : s'.pending = s.pending := by
  unfold extendFromSecondaries at h
  simp only at h
  split at h
  · injection h with h; injection h with _ h2; rw [← h2]
  · cases h

theorem stepBody_spec {cfg : Cfg} {s1 : State} (hIT : ITSpec cfg)
    (hP : Pre cfg s1) (o : List Outcome) (ho : OracleOk o) :
    (∀ s', stepBody o s1 = .ok s' → StepOk cfg s1 s') ∧
    (∀ e s', stepBody o s1 = .error (e, s') → e = .capacity ∧ Lens cfg s' ∧ s'.pending = []) := by
  -- generate
  have hE1 := efp_spec hP.lens hP.core hP.evs hP.fit
  unfold stepBody
  generalize hs2 : extendFromPrimaries s1 = s2 at hE1 ⊢
  obtain ⟨p1, p2, p3, p4, p5, p6⟩ := hE1.same
  have hni := hE1.ninit
  -- start
  have hT := hIT s2 hE1.lens hE1.core
    (by rw [hni]; exact hP.fit)
    (by rw [p2, p1]; exact hP.vac) (by rw [p3, p2]; exact hP.nvac)
    (by rw [p1]; exact hP.status) (by rw [p1, p3]; exact hP.occupied)
  generalize hs3 : initializeTracks s2 = s3 at hT ⊢
  obtain ⟨hM, t1, t2, t3, t4⟩ := hT
  -- pre, physics, post
  have hF := front_keeps hM.lens hM.core o ho
  generalize trackingCut (interact o (preStep s3)) = s4 at hF ⊢
  obtain ⟨f1, f2, f3, f4, f5, f6⟩ := hF
  -- end
  have hE := efs_spec (cfg := cfg) f1 (by rw [f5]; exact f2) f3
  constructor
  · intro s' hres
    rw [hres] at hE
    have hocc : (liveL s'.slots).length + s'.c.numVacancies = cfg.slots := by
      rw [hE.nvac, hE.vac]
      have := filter_active_length s'.slots
      rw [hE.lens.slots] at this; exact this
    have hpend : s'.pending = [] := by rw [hE.same.1, f6, t3, hE1.pending]
    have hst : ∀ x ∈ s'.slots, x.stepOk := by
      intro x hx
      obtain ⟨i, hi, rfl⟩ := List.getElem_of_mem hx
      have := hE.status i (by rw [← hE.lens.slots]; exact hi)
      rw [getD_getElem _ _ _ hi] at this; exact this
    have hcap : s'.c.numInitializers ≤ cfg.capacity := by
      have := hE.core.ni_le; rw [hE.lens.inits] at this; exact this
    have hact : s'.c.numActive = (liveL s3.slots).length := by
      rw [hE.same.2.2, f5, hM.active]
      have := hM.occupied; omega
    refine ⟨⟨hE.lens, hE.core, hcap, hE.vac, hE.nvac, hst, hpend, hocc⟩, ?_, ?_, by rw [hs2, hs3]; exact hact, ?_⟩
    · rw [hE.same.2.1, f5, t4, hE1.ngen]
    · rw [hE.nalive]; omega
    · rw [hact]
      have h1 := hM.occupied
      have h2 := hP.occupied
      rw [t2, p3, hni] at h1
      have := Nat.min_le_left s1.c.numVacancies (s1.c.numInitializers + s1.pending.length)
      omega
  · intro e s' hres
    rw [hres] at hE
    refine ⟨hE.1, hE.2.lens, ?_⟩
    rw [efs_error_pending hres, f6, t3, hE1.pending]

end CelerVerif.TrackInit
