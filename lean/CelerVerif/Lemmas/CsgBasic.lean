/-
C10 helper lemmas, part 1: `sortU`/`popInvalid` (specification of sort+unique+pop), the
semantic notions (`Models`, `MapSound`, structural invariants) and soundness of
`NodeSimplifier` (`simplified`).
-/
import CelerVerif.Model.Csg
import Mathlib.Tactic.Tauto

namespace CelerVerif.Csg

/-! ### sortU / popInvalid -/

theorem mem_insertU {a x : Nat} {l : List Nat} : a ∈ insertU x l ↔ a = x ∨ a ∈ l := by
  induction l with
  | nil => simp [insertU]
  | cons y ys ih =>
    unfold insertU
    split
    · simp
    · split
      · rename_i h1 h2; subst h2; simp
      · simp [ih]; tauto

theorem mem_sortU {a : Nat} {l : List Nat} : a ∈ sortU l ↔ a ∈ l := by
  induction l with
  | nil => simp [sortU]
  | cons y ys ih =>
    have : sortU (y :: ys) = insertU y (sortU ys) := rfl
    rw [this, mem_insertU, ih]; simp

/-- strictly increasing -/
def StrictSorted : List Nat → Prop
  | [] => True
  | x :: xs => (∀ y ∈ xs, x < y) ∧ StrictSorted xs

theorem strictSorted_insertU {x : Nat} {l : List Nat} (h : StrictSorted l) :
    StrictSorted (insertU x l) := by
  induction l with
  | nil => simp [insertU, StrictSorted]
  | cons y ys ih =>
    unfold insertU
    split
    · rename_i hxy
      refine ⟨?_, h⟩
      intro z hz
      rcases List.mem_cons.1 hz with rfl | hz
      · exact hxy
      · exact Nat.lt_trans hxy (h.1 z hz)
    · split
      · exact h
      · rename_i h1 h2
        refine ⟨?_, ih h.2⟩
        intro z hz
        rcases mem_insertU.1 hz with rfl | hz
        · omega
        · exact h.1 z hz

theorem strictSorted_sortU (l : List Nat) : StrictSorted (sortU l) := by
  induction l with
  | nil => simp [sortU, StrictSorted]
  | cons y ys ih => exact strictSorted_insertU ih

theorem popInvalid_cons_cons (y z : Nat) (zs : List Nat) :
    popInvalid (y :: z :: zs) = y :: popInvalid (z :: zs) := by
  unfold popInvalid
  have : (y :: z :: zs).getLast? = (z :: zs).getLast? := by simp [List.getLast?_cons_cons]
  rw [this]
  split <;> simp [List.dropLast]

theorem mem_popInvalid {a : Nat} {l : List Nat} (hs : StrictSorted l)
    (hle : ∀ x ∈ l, x ≤ invalid) : a ∈ popInvalid l ↔ a ∈ l ∧ a ≠ invalid := by
  induction l with
  | nil => simp [popInvalid]
  | cons y ys ih =>
    cases ys with
    | nil =>
      unfold popInvalid
      by_cases hy : y = invalid
      · simp [hy]
      · simp [hy]; intro h; rw [h]; exact hy
    | cons z zs =>
      have hz : z ≤ invalid := hle z (by simp)
      have hyz : y < z := hs.1 z (by simp)
      have hy : y ≠ invalid := by omega
      rw [popInvalid_cons_cons y z zs]
      have ih' := ih hs.2 (fun x hx => hle x (List.mem_cons_of_mem _ hx))
      simp only [List.mem_cons] at ih' ⊢
      rw [ih']
      constructor
      · rintro (h | h)
        · exact ⟨Or.inl h, h ▸ hy⟩
        · exact ⟨Or.inr h.1, h.2⟩
      · rintro ⟨h | h, h2⟩
        · exact Or.inl h
        · exact Or.inr ⟨h, h2⟩

theorem strictSorted_index_ge {l : List Nat} (hs : StrictSorted l) :
    ∀ lo, (∀ x ∈ l, lo ≤ x) → ∀ i (h : i < l.length), lo + i ≤ l[i] := by
  induction l with
  | nil => intro lo _ i h; simp at h
  | cons y ys ih =>
    intro lo hlo i h
    cases i with
    | zero => simpa using hlo y (by simp)
    | succ j =>
      have hj : j < ys.length := by simpa using h
      have h1 := ih hs.2 (y + 1) (fun x hx => hs.1 x hx) j hj
      have h2 : lo ≤ y := hlo y (by simp)
      simp only [List.getElem_cons_succ]
      omega

/-- in a strictly increasing list the element at position `i` is at least `i` -/
theorem strictSorted_index_le {l : List Nat} (hs : StrictSorted l) (i : Nat) (h : i < l.length) :
    i ≤ l[i] := by
  have := strictSorted_index_ge hs 0 (fun _ _ => Nat.zero_le _) i h
  omega

/-! ### semantic notions -/

theorem all_congr_mem {l1 l2 : List Nat} {p : Nat → Bool} (h : ∀ x, p x = false → (x ∈ l1 ↔ x ∈ l2)) :
    l1.all p = l2.all p := by
  rw [Bool.eq_iff_iff, List.all_eq_true, List.all_eq_true]
  constructor
  · intro h1 x hx
    cases hp : p x with
    | true => rfl
    | false => have := h1 x ((h x hp).2 hx); rw [hp] at this; exact this
  · intro h1 x hx
    cases hp : p x with
    | true => rfl
    | false => have := h1 x ((h x hp).1 hx); rw [hp] at this; exact this

theorem any_congr_mem {l1 l2 : List Nat} {p : Nat → Bool} (h : ∀ x, p x = true → (x ∈ l1 ↔ x ∈ l2)) :
    l1.any p = l2.any p := by
  rw [Bool.eq_iff_iff, List.any_eq_true, List.any_eq_true]
  constructor
  · rintro ⟨x, hx, hp⟩; exact ⟨x, (h x hp).1 hx, hp⟩
  · rintro ⟨x, hx, hp⟩; exact ⟨x, (h x hp).2 hx, hp⟩

theorem all_eq_of_mem {l : List Nat} {p q : Nat → Bool} (h : ∀ x ∈ l, p x = q x) :
    l.all p = l.all q := by
  induction l with
  | nil => rfl
  | cons y ys ih =>
    simp only [List.all_cons]
    rw [h y (by simp), ih (fun x hx => h x (List.mem_cons_of_mem _ hx))]

theorem any_eq_of_mem {l : List Nat} {p q : Nat → Bool} (h : ∀ x ∈ l, p x = q x) :
    l.any p = l.any q := by
  induction l with
  | nil => rfl
  | cons y ys ih =>
    simp only [List.any_cons]
    rw [h y (by simp), ih (fun x hx => h x (List.mem_cons_of_mem _ hx))]

/-- `evalNode` only looks at the values of the children -/
theorem evalNode_congr {σ : Nat → Bool} {v v' : Nat → Bool} {n : Node}
    (h : ∀ c ∈ n.children, v c = v' c) : evalNode σ v n = evalNode σ v' n := by
  cases n with
  | tru => rfl
  | fls => rfl
  | surface s => rfl
  | aliased a => exact h a (by simp [Node.children])
  | negated a => simp [evalNode, h a (by simp [Node.children])]
  | joined op ns =>
    have h' : ∀ c ∈ ns, v c = v' c := fun c hc => h c (by simpa [Node.children] using hc)
    cases op
    · simp only [evalNode]; exact all_eq_of_mem h'
    · simp only [evalNode]; exact any_eq_of_mem h'

/-- `v` satisfies the defining equation of every node -/
def Models (t : Tree) (σ v : Nat → Bool) : Prop :=
  ∀ i, i < t.size → v i = evalNode σ v (t.get i)

/-- every dedup-map entry's key evaluates like the node it points to -/
def MapSound (t : Tree) (σ v : Nat → Bool) : Prop :=
  ∀ e ∈ t.ids, evalNode σ v e.1 = v e.2

/-- structural invariant kept by every operation (independent of the ordering) -/
structure Struct (t : Tree) : Prop where
  base0 : t.get 0 = .tru
  base1 : t.get 1 = .negated 0
  size2 : 2 ≤ t.size
  small : t.size ≤ invalid
  closed : ∀ i, i < t.size → ∀ c ∈ (t.get i).children, c < t.size
  idsRange : ∀ e ∈ t.ids, e.2 < t.size
  keysClosed : ∀ e ∈ t.ids, ∀ c ∈ e.1.children, c < t.size

/-- topological order: children have smaller ids -/
def Sorted (t : Tree) : Prop := ∀ i, i < t.size → ∀ c ∈ (t.get i).children, c < i

theorem Models.v0 {t σ v} (h : Models t σ v) (s : Struct t) : v 0 = true := by
  have := h 0 (by have := s.size2; omega); rw [s.base0] at this; exact this

theorem Models.v1 {t σ v} (h : Models t σ v) (s : Struct t) : v 1 = false := by
  have := h 1 (by have := s.size2; omega); rw [s.base1] at this
  simp [evalNode, h.v0 s] at this; exact this

/-! ### NodeSimplifier soundness -/

theorem replAlias_val {t σ v} (h : Models t σ v) {d : Nat} (hd : d < t.size) :
    v (replAlias t d) = v d := by
  unfold replAlias aliasTarget
  cases hg : t.get d with
  | aliased a =>
    simp only
    split
    · have := h d hd; rw [hg] at this; exact this.symm
    · rfl
  | _ => simp

theorem replAlias_lt {t} (s : Struct t) {d : Nat} (hd : d < t.size) : replAlias t d < t.size := by
  unfold replAlias aliasTarget
  cases hg : t.get d with
  | aliased a =>
    simp only
    split
    · exact s.closed d hd a (by simp [hg, Node.children])
    · exact hd
  | _ => simpa using hd

theorem mem_cleanOperands {t} (s : Struct t) (op : Op) (ns : List Nat)
    (hns : ∀ c ∈ ns, c < t.size) (x : Nat) :
    x ∈ cleanOperands t op ns ↔ x ∈ ns.map (replAlias t) ∧ x ≠ ignoreId op := by
  have hds : ∀ d ∈ ns.map (replAlias t), d < t.size := by
    intro d hd; rcases List.mem_map.1 hd with ⟨c, hc, rfl⟩; exact replAlias_lt s (hns c hc)
  unfold cleanOperands
  generalize ns.map (replAlias t) = ds at hds ⊢
  generalize ignoreId op = ig
  have hsm := s.small
  rw [mem_popInvalid (strictSorted_sortU _)]
  · rw [mem_sortU, List.mem_map]
    constructor
    · rintro ⟨⟨d, hd, hx⟩, hne⟩
      by_cases hdi : d = ig
      · simp [hdi] at hx; exact absurd hx.symm hne
      · simp [hdi] at hx; subst hx; exact ⟨hd, hdi⟩
    · rintro ⟨hx, hne⟩
      have : x < t.size := hds x hx
      exact ⟨⟨x, hx, by simp [hne]⟩, by omega⟩
  · intro x hx
    rw [mem_sortU, List.mem_map] at hx
    rcases hx with ⟨d, hd, rfl⟩
    have : d < t.size := hds d hd
    split <;> omega

theorem simplifyJoined_sound {t σ v} (h : Models t σ v) (s : Struct t) (op : Op) (ns : List Nat)
    (hns : ∀ c ∈ ns, c < t.size) :
    evalNode σ v (simplifyJoined t op ns) = evalNode σ v (.joined op ns) := by
  have hv0 := h.v0 s
  have hv1 := h.v1 s
  have hall : (ns.map (replAlias t)).all v = ns.all v := by
    rw [List.all_map]; apply all_eq_of_mem; intro c hc; exact replAlias_val h (hns c hc)
  have hany : (ns.map (replAlias t)).any v = ns.any v := by
    rw [List.any_map]; apply any_eq_of_mem; intro c hc; exact replAlias_val h (hns c hc)
  have hmem := mem_cleanOperands s op ns hns
  unfold simplifyJoined
  generalize ns.map (replAlias t) = ds at hall hany hmem
  by_cases hc : ds.contains (constantId op) = true
  · rw [if_pos hc]
    have hc' : constantId op ∈ ds := by simpa using hc
    cases op with
    | and =>
      simp only [evalNode, constantId, hv1, ← hall] at hc' ⊢
      symm; rw [List.all_eq_false]; exact ⟨1, hc', by simp [hv1]⟩
    | or =>
      simp only [evalNode, constantId, hv0, ← hany] at hc' ⊢
      symm; rw [List.any_eq_true]; exact ⟨0, hc', hv0⟩
  · rw [if_neg hc]
    generalize cleanOperands t op ns = res at hmem
    have hres : evalNode σ v (.joined op res) = evalNode σ v (.joined op ns) := by
      cases op with
      | and =>
        simp only [evalNode, ← hall]
        apply all_congr_mem
        intro x hx
        rw [hmem]
        have : x ≠ ignoreId Op.and := by
          rintro rfl; simp only [ignoreId] at hx; rw [hv0] at hx; cases hx
        tauto
      | or =>
        simp only [evalNode, ← hany]
        apply any_congr_mem
        intro x hx
        rw [hmem]
        have : x ≠ ignoreId Op.or := by
          rintro rfl; simp only [ignoreId] at hx; rw [hv1] at hx; cases hx
        tauto
    rw [← hres]
    split
    · cases op with
      | and => simp [evalNode, ignoreId, hv0]
      | or => simp [evalNode, ignoreId, hv1]
    · cases op <;> simp [evalNode]
    · rfl

theorem simplifyNegated_sound {t σ v} (h : Models t σ v) (s : Struct t) (n : Nat)
    (hn : n < t.size) (hne : simplifyNegated t n ≠ noSimp) :
    evalNode σ v (simplifyNegated t n) = evalNode σ v (.negated n) := by
  have hm := h n hn
  unfold simplifyNegated at hne ⊢
  cases hg : t.get n with
  | tru => rw [hg] at hm; simp [evalNode, hm]
  | fls => rw [hg] at hm; simp [evalNode, hm]
  | aliased a => rw [hg] at hm; simp [evalNode, hm]
  | negated m => rw [hg] at hm; simp [evalNode, hm]
  | surface k => simp [hg] at hne
  | joined op ns => simp [hg] at hne

/-- `NodeSimplifier` never changes the value of the node it is applied to -/
theorem simplified_sound {t σ v} (h : Models t σ v) (s : Struct t) (n : Node)
    (hn : ∀ c ∈ n.children, c < t.size) :
    evalNode σ v (simplified t n) = evalNode σ v n := by
  unfold simplified
  simp only
  split
  · rename_i hne
    cases n with
    | tru => simp [simplifyNode] at hne
    | fls => simp [simplifyNode] at hne
    | surface k => simp [simplifyNode] at hne
    | aliased a =>
      have ha : a < t.size := hn a (by simp [Node.children])
      have hm := h a ha
      simp only [simplifyNode, aliasTarget] at hne ⊢
      cases hg : t.get a with
      | aliased b => rw [hg] at hm; simp [evalNode, hm]
      | tru => simp [hg, noSimp] at hne
      | fls => simp [hg, noSimp] at hne
      | negated _ => simp [hg, noSimp] at hne
      | surface _ => simp [hg, noSimp] at hne
      | joined _ _ => simp [hg, noSimp] at hne
    | negated m =>
      exact simplifyNegated_sound h s m (hn m (by simp [Node.children])) hne
    | joined op ns =>
      exact simplifyJoined_sound h s op ns (fun c hc => hn c (by simpa [Node.children] using hc))
  · rfl

end CelerVerif.Csg
