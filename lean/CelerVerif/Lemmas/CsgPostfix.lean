/-
C10 helper lemmas, part 5: the postfix logic emitted by `PostfixLogicBuilder` evaluates (with the
list-stack reference evaluator) to the value of the node, for every model of the tree; the face
remapping is undone by reading the senses through the face vector.
-/
import CelerVerif.Lemmas.CsgDenote
import CelerVerif.Model.CsgLogic

namespace CelerVerif.Csg
open CelerVerif.Generated.Csg

theorem evalRefLoop_true (vals : Nat → Bool) (rest : List Nat) (st : List Bool) :
    evalRefLoop vals (ltrue :: rest) st = evalRefLoop vals rest (true :: st) := by
  simp [evalRefLoop, show isOperatorToken ltrue = true by decide]

theorem evalRefLoop_operand (vals : Nat → Bool) {s : Nat} (hs : s < lbegin) (rest : List Nat)
    (st : List Bool) : evalRefLoop vals (s :: rest) st = evalRefLoop vals rest (vals s :: st) := by
  have : isOperatorToken s = false := by simp [isOperatorToken]; omega
  simp [evalRefLoop, this]

theorem evalRefLoop_not (vals : Nat → Bool) (rest : List Nat) (a : Bool) (st : List Bool) :
    evalRefLoop vals (lnot :: rest) (a :: st) = evalRefLoop vals rest ((!a) :: st) := by
  simp [evalRefLoop, show isOperatorToken lnot = true by decide, show lnot ≠ ltrue by decide,
    show lnot ≠ lor by decide, show lnot ≠ land by decide]

theorem evalRefLoop_and (vals : Nat → Bool) (rest : List Nat) (a b : Bool) (st : List Bool) :
    evalRefLoop vals (land :: rest) (a :: b :: st) = evalRefLoop vals rest ((b && a) :: st) := by
  simp [evalRefLoop, show isOperatorToken land = true by decide, show land ≠ ltrue by decide,
    show land ≠ lor by decide]

theorem evalRefLoop_or (vals : Nat → Bool) (rest : List Nat) (a b : Bool) (st : List Bool) :
    evalRefLoop vals (lor :: rest) (a :: b :: st) = evalRefLoop vals rest ((b || a) :: st) := by
  simp [evalRefLoop, show isOperatorToken lor = true by decide, show lor ≠ ltrue by decide]

/-- `l` pushes the value `b`: running it in front of any continuation -/
def Pushes (vals : Nat → Bool) (l : List Nat) (b : Bool) : Prop :=
  ∀ rest st, evalRefLoop vals (l ++ rest) st = evalRefLoop vals rest (b :: st)

def joinVal (op : Op) (b : Bool) (xs : List Nat) (v : Nat → Bool) : Bool :=
  match op with
  | .and => b && xs.all v
  | .or => b || xs.any v

theorem foldl_postfixStep_none (tok : Nat) (g : Nat → Option (List Nat)) (xs : List Nat) :
    xs.foldl (fun acc c => postfixStep tok acc (g c)) none = none := by
  induction xs with
  | nil => rfl
  | cons c cs ih => simp only [List.foldl_cons]; rw [show postfixStep tok none (g c) = none from rfl, ih]

theorem foldl_pushes {vals v : Nat → Bool} (op : Op) (g : Nat → Option (List Nat)) :
    ∀ (xs : List Nat), (∀ c ∈ xs, ∀ lc, g c = some lc → Pushes vals lc (v c)) →
    ∀ (acc : List Nat) (b : Bool) (l : List Nat),
    Pushes vals acc b →
    xs.foldl (fun a c => postfixStep (opToken op) a (g c)) (some acc) = some l →
    Pushes vals l (joinVal op b xs v) := by
  intro xs
  induction xs with
  | nil =>
    intro _ acc b l hp h
    simp at h; subst h
    cases op <;> simpa [joinVal] using hp
  | cons c cs ih =>
    intro hcs acc b l hp h
    simp only [List.foldl_cons] at h
    cases hgc : g c with
    | none =>
      rw [hgc, show postfixStep (opToken op) (some acc) none = none from rfl,
        foldl_postfixStep_none] at h
      cases h
    | some lc =>
      rw [hgc, show postfixStep (opToken op) (some acc) (some lc)
        = some (acc ++ lc ++ [opToken op]) from rfl] at h
      have hpc := hcs c (by simp) lc hgc
      have hp' : Pushes vals (acc ++ lc ++ [opToken op])
          (match op with | .and => b && v c | .or => b || v c) := by
        intro rest st
        rw [List.append_assoc, List.append_assoc, hp, hpc]
        cases op with
        | and => exact evalRefLoop_and vals rest (v c) b st
        | or => exact evalRefLoop_or vals rest (v c) b st
      have := ih (fun x hx => hcs x (List.mem_cons_of_mem _ hx)) _ _ l hp' h
      cases op with
      | and => simpa [joinVal, Bool.and_assoc] using this
      | or => simpa [joinVal, Bool.or_assoc] using this

theorem indexIn_spec {faces : List Nat} {s : Nat} (hs : s ∈ faces) :
    indexIn faces s < faces.length ∧ faces.getD (indexIn faces s) 0 = s := by
  unfold indexIn
  have hex : ∃ x ∈ faces, (x == s) = true := ⟨s, hs, by simp⟩
  have hlt := List.findIdx_lt_length_of_exists hex
  refine ⟨hlt, ?_⟩
  have := List.findIdx_getElem (w := hlt)
  simp only [List.getD_eq_getElem?_getD, List.getElem?_eq_getElem hlt, Option.getD_some]
  simpa using this

/-- senses seen by the raw logic: surface ids directly, or through the optional surface
    mapping (`old_ids`, sorted) -/
def mapVals (σ : Nat → Bool) : Option (List Nat) → Nat → Bool
  | none => σ
  | some m => fun j => σ (m.getD j 0)

/-- the mapping (if any) is strictly sorted and contains every surface of the tree -/
def MappingOk (t : Tree) : Option (List Nat) → Prop
  | none => True
  | some m => StrictSorted m ∧ ∀ i k, i < t.size → t.get i = .surface k → k ∈ m

theorem surface_token {t : Tree} {σ : Nat → Bool} (mapping : Option (List Nat))
    (hmap : MappingOk t mapping)
    (hsurf : ∀ i k, i < t.size → t.get i = .surface k → k < lbegin) {i k : Nat} (hi : i < t.size)
    (hg : t.get i = .surface k) :
    surfTok mapping k < lbegin ∧ mapVals σ mapping (surfTok mapping k) = σ k := by
  cases mapping with
  | none => exact ⟨hsurf i k hi hg, rfl⟩
  | some m =>
    have hk := hmap.2 i k hi hg
    have hspec := indexIn_spec hk
    have hle := strictSorted_index_le hmap.1 _ hspec.1
    have hget : m[indexIn m k] = k := by
      have := hspec.2
      simpa [List.getD_eq_getElem?_getD, List.getElem?_eq_getElem hspec.1] using this
    rw [hget] at hle
    refine ⟨Nat.lt_of_le_of_lt hle (hsurf i k hi hg), ?_⟩
    show σ (m.getD (indexIn m k) 0) = σ k
    rw [hspec.2]

/-- the raw logic (in surface ids) built for node `n` pushes the value of `n` -/
theorem buildPostfix_pushes {t : Tree} {σ v : Nat → Bool} (s : Struct t) (hm : Models t σ v)
    (hsurf : ∀ i k, i < t.size → t.get i = .surface k → k < lbegin)
    (mapping : Option (List Nat)) (hmap : MappingOk t mapping) :
    ∀ (f n : Nat) (l : List Nat), n < t.size → buildPostfix t mapping f n = some l →
    Pushes (mapVals σ mapping) l (v n) := by
  intro f
  induction f with
  | zero => intro n l _ h; simp [buildPostfix] at h
  | succ f ih =>
    intro n l hn h
    have hv := hm n hn
    have hcl := s.closed n hn
    unfold buildPostfix at h
    cases hg : t.get n with
    | tru =>
      rw [hg] at h hv; simp at h; subst h
      intro rest st
      rw [hv]; exact evalRefLoop_true _ rest st
    | fls => rw [hg] at h; simp at h
    | surface k =>
      rw [hg] at h hv; simp at h; subst h
      intro rest st
      have htk := surface_token (σ := σ) mapping hmap hsurf hn hg
      rw [hv]
      show evalRefLoop _ (surfTok mapping k :: rest) st = _
      rw [evalRefLoop_operand _ htk.1 rest st, htk.2]; rfl
    | aliased a =>
      rw [hg] at h hv hcl
      have := ih a l (hcl a (by simp [Node.children])) h
      rw [hv]; exact this
    | negated a =>
      rw [hg] at h hv hcl
      simp only [Option.map_eq_some_iff] at h
      rcases h with ⟨la, hla, rfl⟩
      have hp := ih a la (hcl a (by simp [Node.children])) hla
      intro rest st
      rw [List.append_assoc, hp, hv]
      exact evalRefLoop_not _ rest (v a) st
    | joined op ns =>
      rw [hg] at h hv hcl
      cases ns with
      | nil => simp at h
      | cons x xs =>
        simp only at h
        cases hx : buildPostfix t mapping f x with
        | none => rw [hx, foldl_postfixStep_none] at h; cases h
        | some lx =>
          rw [hx] at h
          have hpx := ih x lx (hcl x (by simp [Node.children])) hx
          have hih : ∀ c ∈ xs, ∀ lc, buildPostfix t mapping f c = some lc →
              Pushes (mapVals σ mapping) lc (v c) :=
            fun c hc lc hlc => ih c lc (hcl c (by simp [Node.children, hc])) hlc
          have := foldl_pushes (vals := mapVals σ mapping) (v := v) op
            (fun c => buildPostfix t mapping f c)
            xs hih lx (v x) l hpx h
          rw [hv]
          cases op <;> simpa [joinVal, evalNode] using this

/-- tokens are translated by `g`, values by `vals'`: same run -/
theorem evalRefLoop_map (g : Nat → Nat) (vals vals' : Nat → Bool) :
    ∀ (l : List Nat) (st : List Bool),
    (∀ tok ∈ l, (isOperatorToken tok = true → g tok = tok) ∧
      (isOperatorToken tok = false → isOperatorToken (g tok) = false ∧ vals' (g tok) = vals tok)) →
    evalRefLoop vals' (l.map g) st = evalRefLoop vals l st := by
  intro l
  induction l with
  | nil => intro st _; rfl
  | cons tok rest ih =>
    intro st h
    have ht := h tok (by simp)
    have ihr := fun st' => ih st' (fun x hx => h x (List.mem_cons_of_mem _ hx))
    cases hop : isOperatorToken tok with
    | false =>
      have := ht.2 hop
      simp only [List.map_cons, evalRefLoop, this.1, hop, this.2]
      simpa using ihr _
    | true =>
      have := ht.1 hop
      simp only [List.map_cons, evalRefLoop, this, hop]
      simp only [Bool.not_true, Bool.false_eq_true, if_false]
      split
      · exact ihr _
      · split
        · cases st with
          | nil => rfl
          | cons a st1 => cases st1 with
            | nil => rfl
            | cons b st2 => exact ihr _
        · split
          · cases st with
            | nil => rfl
            | cons a st1 => cases st1 with
              | nil => rfl
              | cons b st2 => exact ihr _
          · split
            · cases st with
              | nil => rfl
              | cons a st1 => exact ihr _
            · rfl

/-- ★ the logic returned by `PostfixLogicBuilder` (face indices), evaluated with senses read
    through the face vector, yields the value of the node -/
theorem postfixOf_evalRef {t : Tree} {σ v : Nat → Bool} (s : Struct t) (hm : Models t σ v)
    (hsurf : ∀ i k, i < t.size → t.get i = .surface k → k < lbegin)
    (mapping : Option (List Nat)) (hmap : MappingOk t mapping) {n : Nat} (hn : n < t.size)
    {faces lgc : List Nat} (h : postfixOf t mapping n = some (faces, lgc)) :
    evalRef lgc (fun f => mapVals σ mapping (faces.getD f 0)) = some (v n) := by
  unfold postfixOf at h
  cases hb : buildPostfix t mapping (t.size + 1) n with
  | none => rw [hb] at h; cases h
  | some raw =>
    rw [hb] at h
    simp only [Option.some.injEq, Prod.mk.injEq] at h
    rcases h with ⟨hf, hl⟩
    rw [hf] at hl
    have hp := buildPostfix_pushes s hm hsurf mapping hmap (t.size + 1) n raw hn hb
    have hraw : evalRefLoop (mapVals σ mapping) raw [] = some [v n] := by
      have := hp [] []
      simpa [evalRefLoop] using this
    have hmap' : evalRefLoop (fun f => mapVals σ mapping (faces.getD f 0)) lgc []
        = evalRefLoop (mapVals σ mapping) raw [] := by
      rw [← hl]
      apply evalRefLoop_map
      intro tok htok
      constructor
      · intro hop; simp [hop]
      · intro hop
        have hmem : tok ∈ faces := by
          rw [← hf, mem_sortU, List.mem_filter]; exact ⟨htok, by simp [hop]⟩
        have hi := indexIn_spec hmem
        simp only [hop, Bool.false_eq_true, if_false]
        refine ⟨?_, by rw [hi.2]⟩
        have hss : StrictSorted faces := by rw [← hf]; exact strictSorted_sortU _
        have hle := strictSorted_index_le hss _ hi.1
        have hget : faces[indexIn faces tok] = tok := by
          have := hi.2
          simpa [List.getD_eq_getElem?_getD, List.getElem?_eq_getElem hi.1] using this
        rw [hget] at hle
        have htl : tok < lbegin := by simpa [isOperatorToken] using hop
        have : indexIn faces tok < lbegin := Nat.lt_of_le_of_lt hle htl
        simpa [isOperatorToken] using this
    unfold evalRef
    rw [hmap', hraw]

end CelerVerif.Csg
