/-
Urban energy-loss fluctuation model at ℝ: the material parameters satisfy the Urban sum rules,
and for every branch of the constructor the nominal mean loss
  Σ₁ E₁ + Σ₂ E₂ + Σ₃ · ⟨E⟩₃      (⟨E⟩₃ = mean of the 1/E² ionisation spectrum on [E₀, E_max])
equals the requested mean loss divided by the width-correction scaling.
-/
import CelerVerif.Lemmas.DistMore
import CelerVerif.Model.DistEloss

namespace CelerVerif.Dist
open CelerVerif

namespace R
theorem sci_1em5 : (@OfScientific.ofScientific ℝ Num.instOfScientific 1 true 5) = (1 / 100000 : ℝ) := by
  show (OfScientific.ofScientific 1 true 5 : ℝ) = _; norm_num
theorem sci_1em3 : (@OfScientific.ofScientific ℝ Num.instOfScientific 1 true 3) = (1 / 1000 : ℝ) := by
  show (OfScientific.ofScientific 1 true 3 : ℝ) = _; norm_num
theorem sci_rate : (@OfScientific.ofScientific ℝ Num.instOfScientific 56 true 2) = (14 / 25 : ℝ) := by
  show (OfScientific.ofScientific 56 true 2 : ℝ) = _; norm_num
theorem lit8 : (@OfNat.ofNat ℝ 8 (Num.instOfNat 8)) = (8 : ℝ) := by
  show ((8 : ℕ) : ℝ) = 8; norm_num
theorem lit10 : (@OfNat.ofNat ℝ 10 (Num.instOfNat 10)) = (10 : ℝ) := by
  show ((10 : ℕ) : ℝ) = 10; norm_num
theorem lit42 : (@OfNat.ofNat ℝ 42 (Num.instOfNat 42)) = (42 : ℝ) := by
  show ((42 : ℕ) : ℝ) = 42; norm_num
end R

/-- `dist_simp` plus the constants of the energy-loss models -/
macro "eloss_simp" loc:(Lean.Parser.Tactic.location)? : tactic => `(tactic|
  (simp only [ionizationEnergy, urbanRate, maxCollisions, excThresh, fwhmMinEnergy,
      R.sci_1em5, R.sci_1em3, R.sci_rate, R.lit8, R.lit10, R.lit42, R.pow_real,
      NumR.min_real] $[$loc]?;
   dist_simp $[$loc]?))

/-- mean energy of one ionising collision with spectrum ∝ 1/E² on [E₀, E_max], E₀ = 10 eV -/
noncomputable def ionMean (maxEnergy : ℝ) : ℝ :=
  (1 / 100000) * maxEnergy * Real.log (maxEnergy / (1 / 100000)) / (maxEnergy - 1 / 100000)

/-! ### material parameters (FluctuationParams.cc) -/
theorem urban_e1_log (a I e2 : ℝ) (ha : a < 1) (hI : 0 < I) (he2 : 0 < e2) :
    (1 - a) * Real.log ((I / e2 ^ a) ^ (1 / (1 - a))) + a * Real.log e2 = Real.log I := by
  have hpow : 0 < e2 ^ a := Real.rpow_pos_of_pos he2 _
  have hq : 0 < I / e2 ^ a := div_pos hI hpow
  have h1 : (1 - a) ≠ 0 := by linarith
  rw [Real.log_rpow hq, Real.log_div (ne_of_gt hI) (ne_of_gt hpow), Real.log_rpow he2]
  generalize Real.log I = LI
  generalize Real.log e2 = L2
  field_simp
  ring

theorem urbanParams_sum_rules (elDens numDens meanExc : ℝ) (he : 0 < elDens) (hn : 0 < numDens)
    (hI : 0 < meanExc) :
    (urbanParams elDens numDens meanExc).f1 + (urbanParams elDens numDens meanExc).f2 = 1 ∧
    (urbanParams elDens numDens meanExc).f1 * (urbanParams elDens numDens meanExc).logE1
      + (urbanParams elDens numDens meanExc).f2 * (urbanParams elDens numDens meanExc).logE2
      = Real.log meanExc ∧
    0 < (urbanParams elDens numDens meanExc).e1 ∧ 0 < (urbanParams elDens numDens meanExc).e2 ∧
    0 < (urbanParams elDens numDens meanExc).f1 ∧ 0 ≤ (urbanParams elDens numDens meanExc).f2 := by
  have hz : 0 < elDens / numDens := div_pos he hn
  set z := elDens / numDens with hzdef
  have he2 : 0 < (1 / 100000 : ℝ) * (z * z) := by positivity
  simp only [urbanParams]
  eloss_simp
  rw [← hzdef]
  by_cases h2 : 2 < z
  · simp only [h2, if_true]
    have hf2 : 0 < 2 / z := by positivity
    have hf2' : 2 / z < 1 := by rw [div_lt_one hz]; exact h2
    have hf1 : 0 < 1 - 2 / z := by linarith
    have hpow : 0 < (1 / 100000 * (z * z)) ^ (2 / z) := Real.rpow_pos_of_pos he2 _
    have hq : 0 < meanExc / (1 / 100000 * (z * z)) ^ (2 / z) := div_pos hI hpow
    exact ⟨by ring, urban_e1_log _ _ _ hf2' hI he2, Real.rpow_pos_of_pos hq _, he2, hf1,
      le_of_lt hf2⟩
  · simp only [h2, if_false]
    have key := urban_e1_log 0 meanExc (1 / 100000 * (z * z)) (by norm_num) hI he2
    have hq : 0 < meanExc / (1 / 100000 * (z * z)) ^ (0 : ℝ) := by
      rw [Real.rpow_zero]; positivity
    exact ⟨by ring, key, Real.rpow_pos_of_pos hq _, he2, by norm_num, le_refl _⟩

/-! ### constructor -/
theorem urbanScaling_pos (x : ℝ) : 0 < urbanScaling x := by
  unfold urbanScaling
  eloss_simp
  split_ifs
  · have := Real.sqrt_nonneg (x / 42); nlinarith
  · norm_num

theorem lossScaling_ge_one (maxEnergy : ℝ) (h : 0 < maxEnergy) :
    1 ≤ 1 / 2 * min (1 / 1000 / maxEnergy) 1 + 1 := by
  have : 0 ≤ min (1 / 1000 / maxEnergy) 1 := le_min (by positivity) (by norm_num)
  linarith

/-- hypotheses on the material data under which the Urban sum rules hold (they are guaranteed
    by `urbanParams_sum_rules` for every material) -/
structure UrbanMatOK (m : UrbanMat ℝ) : Prop where
  sum_f : m.p.f1 + m.p.f2 = 1
  sum_log : m.p.f1 * m.p.logE1 + m.p.f2 * m.p.logE2 = m.logMeanExc
  e1_pos : 0 < m.p.e1
  e2_pos : 0 < m.p.e2
  f1_pos : 0 < m.p.f1
  f2_nonneg : 0 ≤ m.p.f2
  /-- E₁ ≤ E₂ (true for Z ≥ 3), or a single level (Z ≤ 2) -/
  ordered : m.p.logE1 ≤ m.p.logE2 ∨ m.p.f2 = 0

/-- what the three excitation branches guarantee: Σ₁E₁ + Σ₂E₂ = 0.44·mean, both non-negative,
    Σ₁ positive -/
theorem urbanExcXs_spec (m : UrbanMat ℝ) (hm : UrbanMatOK m) (ml emax tm b2 x1 x2 : ℝ)
    (hml : 0 < ml) (h : urbanExcXs m ml emax tm b2 = some (x1, x2)) :
    x1 * m.p.e1 + x2 * m.p.e2 = ml * (1 - 14 / 25) ∧ 0 < x1 ∧ 0 ≤ x2 := by
  unfold urbanExcXs at h
  eloss_simp at h
  have he1 := hm.e1_pos
  have he2 := hm.e2_pos
  split_ifs at h with h1 h2 h3
  · -- two levels
    simp only [Option.some.injEq, Prod.mk.injEq] at h
    obtain ⟨hx1, hx2⟩ := h
    set w := Real.log tm - b2 with hw
    have hww : 0 < w - m.logMeanExc := by linarith
    have hc : 0 < ml * (1 - 14 / 25) / (w - m.logMeanExc) := by
      apply div_pos _ hww; nlinarith
    have hwl1 : 0 < w - m.p.logE1 := by
      rcases hm.ordered with ho | ho
      · linarith
      · have hf1 : m.p.f1 = 1 := by have := hm.sum_f; rw [ho] at this; linarith
        have := hm.sum_log; rw [ho, hf1] at this; linarith
    refine ⟨?_, ?_, ?_⟩
    · rw [← hx1, ← hx2]
      have e : ml * (1 - 14 / 25) / (w - m.logMeanExc) * m.p.f1 * (w - m.p.logE1) / m.p.e1 * m.p.e1
          + ml * (1 - 14 / 25) / (w - m.logMeanExc) * m.p.f2 * (w - m.p.logE2) / m.p.e2 * m.p.e2
          = ml * (1 - 14 / 25) / (w - m.logMeanExc)
            * (w * (m.p.f1 + m.p.f2) - (m.p.f1 * m.p.logE1 + m.p.f2 * m.p.logE2)) := by
        field_simp; ring
      rw [e, hm.sum_f, hm.sum_log]
      field_simp
    · rw [← hx1]
      apply div_pos _ he1
      have := hm.f1_pos
      positivity
    · rw [← hx2]
      apply div_nonneg _ (le_of_lt he2)
      have := hm.f2_nonneg
      have : 0 ≤ w - m.p.logE2 := by linarith
      positivity
  · -- slow-particle window
    simp only [Option.some.injEq, Prod.mk.injEq] at h
    obtain ⟨hx1, hx2⟩ := h
    rw [← hx1, ← hx2]
    refine ⟨by rw [div_mul_cancel₀ _ (ne_of_gt he1)]; ring, ?_, le_refl _⟩
    apply div_pos _ he1; nlinarith

theorem ion_identity (ml E e0 Lg : ℝ) (h1 : E - e0 ≠ 0) (h2 : Lg ≠ 0) (h3 : E ≠ 0) (h4 : e0 ≠ 0) :
    ml * (E - e0) / (E * e0 * Lg) * (e0 * E * Lg / (E - e0)) = ml := by
  field_simp

/-- ★ the defining identity of the Urban model, for every branch of the constructor -/
theorem urban_ctor_mean (m : UrbanMat ℝ) (hm : UrbanMatOK m) (meanLoss maxEnergy tm b2 : ℝ)
    (hL : 0 < meanLoss) (hE : 1 / 100000 < maxEnergy) :
    let u := Urban.mk' m meanLoss maxEnergy tm b2
    u.lossScaling * (u.xs1 * u.be1 + u.xs2 * u.be2 + u.xsIon * ionMean maxEnergy) = meanLoss ∧
    1 ≤ u.lossScaling ∧ 0 ≤ u.xs1 ∧ 0 ≤ u.xs2 ∧ 0 < u.xsIon ∧ 0 < u.be1 ∧ 0 < u.be2 ∧
    u.maxEnergy = maxEnergy := by
  intro u
  have hE0 : 0 < maxEnergy := by linarith
  have hls := lossScaling_ge_one maxEnergy hE0
  set ls := 1 / 2 * min (1 / 1000 / maxEnergy) 1 + 1 with hlsdef
  have hlspos : 0 < ls := by linarith
  have hml : 0 < meanLoss / ls := div_pos hL hlspos
  have hratio : 1 < maxEnergy / (1 / 100000) := by rw [lt_div_iff₀ (by norm_num)]; linarith
  have hlog : 0 < Real.log (maxEnergy / (1 / 100000)) := Real.log_pos hratio
  have hden : 0 < maxEnergy - 1 / 100000 := by linarith
  -- ionisation cross section times the mean collision energy gives back the mean loss
  have hion : meanLoss / ls * (maxEnergy - 1 / 100000)
      / (maxEnergy * (1 / 100000) * Real.log (maxEnergy / (1 / 100000))) * ionMean maxEnergy
      = meanLoss / ls := by
    unfold ionMean
    exact ion_identity _ _ _ _ (ne_of_gt hden) (ne_of_gt hlog) (ne_of_gt hE0) (by norm_num)
  have hxs0 : 0 < meanLoss / ls * (maxEnergy - 1 / 100000)
      / (maxEnergy * (1 / 100000) * Real.log (maxEnergy / (1 / 100000))) := by positivity
  simp only [u, Urban.mk']
  eloss_simp
  rw [← hlsdef]
  cases hx : urbanExcXs m (meanLoss / ls) maxEnergy tm b2 with
  | none =>
    dsimp only
    have hz : ¬ ((0 : ℝ) < 0 + 0) := by norm_num
    rw [if_neg hz]
    refine ⟨?_, hls, le_refl _, le_refl _, hxs0, hm.e1_pos, hm.e2_pos, trivial⟩
    rw [hion]; simp only [zero_mul, zero_add]; field_simp
  | some xs =>
    obtain ⟨x1, x2⟩ := xs
    obtain ⟨hsum, hx1, hx2⟩ := urbanExcXs_spec m hm _ _ _ _ _ _ hml hx
    have hs := urbanScaling_pos x1
    dsimp only
    have hpos : 0 < x1 / urbanScaling x1 + x2 := by positivity
    rw [if_pos hpos]
    refine ⟨?_, hls, by positivity, hx2, by positivity, by have := hm.e1_pos; positivity,
      hm.e2_pos, trivial⟩
    have e1 : x1 / urbanScaling x1 * (m.p.e1 * urbanScaling x1) = x1 * m.p.e1 := by field_simp
    rw [e1, hsum, mul_assoc _ (14 / 25 : ℝ) _, mul_comm (14 / 25 : ℝ) _, ← mul_assoc, hion]
    field_simp
    ring

end CelerVerif.Dist
