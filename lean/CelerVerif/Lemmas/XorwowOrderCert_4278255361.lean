/- kernel-checked inverse certificate: z^((2^160-1)/4278255361) + 1 is a unit modulo P -/
import CelerVerif.Lemmas.XorwowPeriod

namespace CelerVerif.Xorwow

theorem orderCert_4278255361 : orderCert 4278255361 = true := by decide +kernel

end CelerVerif.Xorwow
