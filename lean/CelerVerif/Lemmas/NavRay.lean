/-
A volume's faces along a ray in general position: the sense vector the tracker works with
changes exactly at the distances the tracker collects (`CalcIntersections` + sort), so the
interval senses used by `locTrace` are the true senses of the points of the ray.
-/
import CelerVerif.Lemmas.NavFace

namespace CelerVerif.Nav
open CelerVerif CelerVerif.Surf
noncomputable section

/-! ### what the tracker computes off a surface -/

/-- senses of the faces at a point (`SenseCalculator` with no known face) -/
def sensesOf (u : SimpleUnit ℝ) (faces : List ℕ) (p : Vec3 ℝ) : List Bool :=
  faces.map fun sid => (u.surf sid).calcSense p != SignedSense.inside

theorem calcSensesFrom_fst (u : SimpleUnit ℝ) (p : Vec3 ℝ) (faces : List ℕ) (i : ℕ)
    (fc : Option (ℕ × Bool)) :
    (calcSensesFrom u p none i faces fc).1 = sensesOf u faces p := by
  induction faces generalizing i fc with
  | nil => rfl
  | cons sid rest ih =>
    simp only [calcSensesFrom, sensesOf, List.map_cons]
    rw [ih]
    rfl

theorem calcSenses_fst (u : SimpleUnit ℝ) (vol : Volume ℝ) (p : Vec3 ℝ) :
    (calcSenses u vol p none).1 = (sensesOf u vol.faces p).toArray := by
  unfold calcSenses
  simp only []
  rw [calcSensesFrom_fst]

/-- per-face answers when the track is not on a surface -/
theorem faceAnswers_off (u : SimpleUnit ℝ) (st : LocalState ℝ) (faces : List ℕ) (i : ℕ) :
    faceAnswers u st none i faces
      = faces.map fun sid => some (isectSlots (u.surf sid) st.pos st.dir false) := by
  induction faces generalizing i with
  | nil => rfl
  | cons sid rest ih =>
    simp only [faceAnswers, List.map_cons]
    rw [ih]
    simp

/-- the sorted crossing events the tracker collects for these faces from `pos` along `dir` -/
def rayEvents (u : SimpleUnit ℝ) (faces : List ℕ) (pos dir : Vec3 ℝ) : List (Hit ℝ) :=
  sortHits (gatherHitsFrom .finite 0
    (faces.map fun sid => some (isectSlots (u.surf sid) pos dir false)))

theorem rayEvents_eq_tracker (u : SimpleUnit ℝ) (st : LocalState ℝ) (faces : List ℕ) :
    sortHits (gatherHits .finite (faceAnswers u st none 0 faces))
      = rayEvents u faces st.pos st.dir := by
  unfold rayEvents gatherHits
  rw [faceAnswers_off]

/-- the sense is the sign off the surface (C12 `sense_eq_sign`) -/
theorem sense_eq_decide (s : Surface ℝ) (p : Vec3 ℝ) (h : s.quadric p ≠ 0) :
    (s.calcSense p != SignedSense.inside) = decide (0 < s.quadric p) := by
  obtain ⟨h1, h2, h3⟩ := sense_eq_sign s p
  rcases lt_or_gt_of_ne h with hlt | hgt
  · have : s.calcSense p = SignedSense.inside := h1.2 hlt
    simp [this, not_lt.2 (le_of_lt hlt)]
  · have : s.calcSense p = SignedSense.outside := h3.2 hgt
    simp [this, hgt]

/-! ### the saved hits of one face -/

theorem hitsOfFace_eq (s : Surface ℝ) (pos dir : Vec3 ℝ) (hu : unitDir dir) (gp : FaceGP s pos dir)
    (i : ℕ) :
    hitsOfFace .finite i (some (isectSlots s pos dir false))
      = (faceRoots s pos dir).map fun d => ⟨i, some d⟩ := by
  have hok : ∀ d ∈ isectSlots s pos dir false,
      (Valid.finite : Valid ℝ).ok d = d.isSome := by
    intro d hd
    cases d with
    | none => rfl
    | some x =>
      have hx : x ∈ faceRoots s pos dir := by
        unfold faceRoots; simp only [List.mem_filterMap, id]; exact ⟨some x, hd, rfl⟩
      obtain ⟨hx0, hxz⟩ := faceRoots_root s pos dir hu gp x hx
      have := gp.finite x hx0 hxz
      simp [Valid.ok, this]
  unfold hitsOfFace faceRoots
  simp only []
  generalize isectSlots s pos dir false = L at hok
  induction L with
  | nil => rfl
  | cons d t ih =>
    have ih' := ih (fun x hx => hok x (List.mem_cons_of_mem _ hx))
    have hd := hok d (by simp)
    cases d with
    | none =>
      simp only [List.filter_cons, hd, Option.isSome_none, Bool.false_eq_true, if_false,
        List.filterMap_cons, id]
      exact ih'
    | some x =>
      simp only [List.filter_cons, hd, Option.isSome_some, if_true, List.filterMap_cons, id,
        List.map_cons]
      rw [ih']
      rfl

/-! ### counting the hits of a face among the events -/

theorem countP_insertHit (p : Hit ℝ → Bool) (h : Hit ℝ) (l : List (Hit ℝ)) :
    (insertHit h l).countP p = (if p h then 1 else 0) + l.countP p := by
  induction l with
  | nil => simp [insertHit, List.countP_cons]
  | cons x xs ih =>
    simp only [insertHit]
    split
    · simp only [List.countP_cons, ih]; omega
    · simp only [List.countP_cons]; omega

theorem countP_sortHits (p : Hit ℝ → Bool) (l : List (Hit ℝ)) :
    (sortHits l).countP p = l.countP p := by
  induction l with
  | nil => rfl
  | cons h t ih => simp only [sortHits, countP_insertHit, ih, List.countP_cons]; omega

theorem mem_gather (u : SimpleUnit ℝ) (pos dir : Vec3 ℝ) (hu : unitDir dir) (faces : List ℕ)
    (gp : ∀ sid ∈ faces, FaceGP (u.surf sid) pos dir) (k : ℕ) (h : Hit ℝ) :
    h ∈ gatherHitsFrom .finite k (faces.map fun sid => some (isectSlots (u.surf sid) pos dir false))
      ↔ ∃ j, ∃ hj : j < faces.length, h.face = k + j ∧
          ∃ d ∈ faceRoots (u.surf faces[j]) pos dir, h.dist = some d := by
  induction faces generalizing k with
  | nil => simp [gatherHitsFrom]
  | cons sid rest ih =>
    have gp' : ∀ s ∈ rest, FaceGP (u.surf s) pos dir := fun s hs => gp s (List.mem_cons_of_mem _ hs)
    simp only [List.map_cons, gatherHitsFrom, List.mem_append]
    rw [hitsOfFace_eq _ pos dir hu (gp sid (by simp)), ih gp' (k + 1)]
    constructor
    · rintro (hm | ⟨j, hj, hf, d, hd, hdist⟩)
      · obtain ⟨d, hd, rfl⟩ := List.mem_map.1 hm
        exact ⟨0, by simp, by simp, d, by simpa using hd, rfl⟩
      · exact ⟨j + 1, by simpa using hj, by omega, d, by simpa using hd, hdist⟩
    · rintro ⟨j, hj, hf, d, hd, hdist⟩
      cases j with
      | zero =>
        left
        refine List.mem_map.2 ⟨d, by simpa using hd, ?_⟩
        cases h
        simp only [Nat.add_zero] at hf
        simp only at hdist
        subst hf; subst hdist; rfl
      | succ j =>
        right
        exact ⟨j, by simpa using hj, by omega, d, by simpa using hd, hdist⟩

theorem count_gather (u : SimpleUnit ℝ) (pos dir : Vec3 ℝ) (hu : unitDir dir) (faces : List ℕ)
    (gp : ∀ sid ∈ faces, FaceGP (u.surf sid) pos dir) (k i : ℕ) (t : ℝ) :
    (gatherHitsFrom .finite k
        (faces.map fun sid => some (isectSlots (u.surf sid) pos dir false))).countP
      (fun h => h.face == i && dlt h.dist (some t))
    = if hk : k ≤ i ∧ i - k < faces.length then
        (faceRoots (u.surf (faces[i - k]'hk.2)) pos dir).countP fun r => decide (r < t)
      else 0 := by
  induction faces generalizing k with
  | nil => simp [gatherHitsFrom]
  | cons sid rest ih =>
    have gp' : ∀ s ∈ rest, FaceGP (u.surf s) pos dir := fun s hs => gp s (List.mem_cons_of_mem _ hs)
    simp only [List.map_cons, gatherHitsFrom, List.countP_append]
    rw [hitsOfFace_eq _ pos dir hu (gp sid (by simp)), ih gp' (k + 1), List.countP_map]
    have hfun : ((fun h : Hit ℝ => h.face == i && dlt h.dist (some t)) ∘ fun d => (⟨k, some d⟩ : Hit ℝ))
        = fun d => (k == i) && decide (d < t) := by
      funext d
      simp only [Function.comp, dlt]
      rfl
    rw [hfun]
    by_cases hki : k = i
    · subst hki
      have h1 : ¬ (k + 1 ≤ k ∧ k - (k + 1) < rest.length) := by omega
      simp [h1]
    · have hne : (k == i) = false := by simpa using hki
      simp only [hne, Bool.false_and, List.countP_false, Function.const, zero_add]
      by_cases hk : k ≤ i ∧ i - k < (sid :: rest).length
      · have hk' : k + 1 ≤ i ∧ i - (k + 1) < rest.length := by
          simp only [List.length_cons] at hk; omega
        rw [dif_pos hk', dif_pos hk]
        have : i - k = (i - (k + 1)) + 1 := by omega
        simp only [this, List.getElem_cons_succ]
      · have hk' : ¬ (k + 1 ≤ i ∧ i - (k + 1) < rest.length) := by
          simp only [List.length_cons] at hk; omega
        rw [dif_neg hk', dif_neg hk]

/-! ### flipping senses -/

theorem flip1_size (s : Array Bool) (h : Hit ℝ) : (flip1 s h).size = s.size := by
  simp [flip1]

theorem flipAll_size (s : Array Bool) (l : List (Hit ℝ)) : (flipAll s l).size = s.size := by
  induction l generalizing s with
  | nil => rfl
  | cons h t ih => simp only [flipAll]; rw [ih, flip1_size]

theorem flip1_getD (s : Array Bool) (h : Hit ℝ) (i : ℕ) (hi : i < s.size) :
    (flip1 s h).getD i false = (s.getD i false ^^ (h.face == i)) := by
  unfold flip1
  by_cases hf : h.face = i
  · subst hf
    simp [Array.getD, hi]
  · have : (h.face == i) = false := by simpa using hf
    simp [Array.getD, hi, Array.getElem_setIfInBounds_ne, hf, this]

theorem flipAll_getD (s : Array Bool) (l : List (Hit ℝ)) (i : ℕ) (hi : i < s.size) :
    (flipAll s l).getD i false
      = (s.getD i false ^^ Nat.bodd (l.countP fun h => h.face == i)) := by
  induction l generalizing s with
  | nil => simp [flipAll]
  | cons h t ih =>
    simp only [flipAll]
    rw [ih (flip1 s h) (by rw [flip1_size]; exact hi), flip1_getD s h i hi, List.countP_cons]
    by_cases hf : (h.face == i) = true
    · simp [hf, Nat.bodd_succ]
    · have : (h.face == i) = false := by simpa using hf
      simp [this]

theorem array_ext_getD (a b : Array Bool) (hs : a.size = b.size)
    (h : ∀ i, i < a.size → a.getD i false = b.getD i false) : a = b := by
  apply Array.ext hs
  intro i h1 h2
  have := h i h1
  simpa [Array.getD, h1, h2] using this

/-! ### main statement -/

/-- ★ along a ray in general position the face senses change exactly at the reported distances:
    the true senses at parameter `t` are the start senses flipped once per collected event
    nearer than `t` -/
theorem senses_flip_at_events (u : SimpleUnit ℝ) (faces : List ℕ) (pos dir : Vec3 ℝ)
    (hu : unitDir dir) (gp : ∀ sid ∈ faces, FaceGP (u.surf sid) pos dir) (t : ℝ) (ht : 0 < t)
    (hnr : ∀ sid ∈ faces, t ∉ faceRoots (u.surf sid) pos dir) :
    (sensesOf u faces (along pos dir t)).toArray
      = flipAll (sensesOf u faces pos).toArray
          ((rayEvents u faces pos dir).filter fun h => dlt h.dist (some t)) := by
  apply array_ext_getD
  · rw [flipAll_size]; simp [sensesOf]
  · intro i hi
    have hi' : i < faces.length := by simpa [sensesOf] using hi
    rw [flipAll_getD _ _ i (by simpa [sensesOf] using hi')]
    -- the count of face-i events below t
    have hcount : ((rayEvents u faces pos dir).filter fun h => dlt h.dist (some t)).countP
          (fun h => h.face == i)
        = (faceRoots (u.surf faces[i]) pos dir).countP fun r => decide (r < t) := by
      rw [List.countP_filter]
      unfold rayEvents
      rw [countP_sortHits]
      have := count_gather u pos dir hu faces gp 0 i t
      have hk : 0 ≤ i ∧ i - 0 < faces.length := ⟨Nat.zero_le _, by simpa using hi'⟩
      rw [dif_pos hk] at this
      simpa using this
    rw [hcount]
    have hmem : faces[i] ∈ faces := List.getElem_mem hi'
    have hgp := gp _ hmem
    have hpar := face_parity (u.surf faces[i]) pos dir hu hgp t ht (hnr _ hmem)
    have hq0 : (u.surf faces[i]).quadric pos ≠ 0 := hgp.off
    have hqt : (u.surf faces[i]).quadric (along pos dir t) ≠ 0 := by
      intro hz
      exact hnr _ hmem (faceRoots_complete _ pos dir hu hgp t ht hz)
    have e1 : ∀ p, (sensesOf u faces p).toArray.getD i false
        = ((u.surf faces[i]).calcSense p != SignedSense.inside) := by
      intro p; simp [sensesOf, Array.getD, hi']
    rw [e1, e1, sense_eq_decide _ _ hqt, sense_eq_decide _ _ hq0, hpar]

/-- on the open interval behind the first `k` events (and before the others) the events nearer
    than `t` are exactly the first `k` -/
theorem filter_lt_eq_take (evs : List (Hit ℝ)) (k : ℕ) (t : ℝ)
    (h1 : ∀ h ∈ evs.take k, top h.dist < top (some t))
    (h2 : ∀ h ∈ evs.drop k, top (some t) ≤ top h.dist) :
    evs.filter (fun h => dlt h.dist (some t)) = evs.take k := by
  conv_lhs => rw [← List.take_append_drop k evs]
  rw [List.filter_append]
  have a : (evs.take k).filter (fun h => dlt h.dist (some t)) = evs.take k := by
    rw [List.filter_eq_self]
    intro h hh; exact (dlt_iff _ _).2 (h1 h hh)
  have b : (evs.drop k).filter (fun h => dlt h.dist (some t)) = [] := by
    rw [List.filter_eq_nil_iff]
    intro h hh hc
    exact absurd ((dlt_iff _ _).1 hc) (not_lt.2 (h2 h hh))
  rw [a, b, List.append_nil]

end
end CelerVerif.Nav
