/-
Closed-form ionisation samplers at ℝ: what the two rejection loops return, supports, and the
rejection functions against their envelopes.
-/
import CelerVerif.Lemmas.DistUrbanSample
import CelerVerif.Model.DistIoni

namespace CelerVerif.Dist
open CelerVerif

namespace R
theorem sci_2p5em4 : (@OfScientific.ofScientific ℝ Num.instOfScientific 25 true 5) = (1 / 4000 : ℝ) := by
  show (OfScientific.ofScientific 25 true 5 : ℝ) = _; norm_num
theorem sci_5em3 : (@OfScientific.ofScientific ℝ Num.instOfScientific 5 true 3) = (1 / 200 : ℝ) := by
  show (OfScientific.ofScientific 5 true 3 : ℝ) = _; norm_num
theorem sci_tenth : (@OfScientific.ofScientific ℝ Num.instOfScientific 1 true 1) = (1 / 10 : ℝ) := by
  show (OfScientific.ofScientific 1 true 1 : ℝ) = _; norm_num
theorem lit250 : (@OfNat.ofNat ℝ 250 (Num.instOfNat 250)) = (250 : ℝ) := by
  show ((250 : ℕ) : ℝ) = 250; norm_num
end R

macro "ioni_simp" loc:(Lean.Parser.Tactic.location)? : tactic => `(tactic|
  (simp only [mollerMaxFrac, braggLowest, icruLowest, radCorrectionLimit, kinEnergyLimit,
      R.sci_2p5em4, R.sci_5em3, R.sci_tenth, R.lit250, NumR.min_real, ipow3_real, ipow4_real]
      $[$loc]?;
   dist_simp $[$loc]?))

/-! ### the two loops -/
/-- every complete (proposal, test) pair of the list was rejected -/
def invPairsRejected (g : ℝ → ℝ) (gDen a b : ℝ) : List ℝ → Prop
  | [] => True
  | u1 :: u2 :: t => g (1 / ((b - a) * u1 + a)) < gDen * u2 ∧ invPairsRejected g gDen a b t
  | _ => False

theorem ioniInvLoop_spec (g : ℝ → ℝ) (gDen a b : ℝ) (s : List ℝ) : ∀ (x : ℝ) (rest : List ℝ),
    ioniInvLoop g gDen (UniformReal.mk' a b) s = some (x, rest) →
    ∃ pre u1 u2, s = pre ++ u1 :: u2 :: rest ∧ invPairsRejected g gDen a b pre ∧
      x = 1 / ((b - a) * u1 + a) ∧ gDen * u2 ≤ g x := by
  fun_induction ioniInvLoop g gDen (UniformReal.mk' a b) s with
  | case1 u1 u2 rest x0 hlt ih =>
    intro x r h
    obtain ⟨pre, c, d, hs, hr, hx, hacc⟩ := ih x r h
    refine ⟨u1 :: u2 :: pre, c, d, by simp [hs], ⟨?_, hr⟩, hx, hacc⟩
    have hx0 : x0 = 1 / ((b - a) * u1 + a) := by
      simp only [x0, UniformReal.mk']; dist_simp
    dist_simp at hlt; rw [hx0] at hlt; exact hlt
  | case2 u1 u2 rest x0 hlt =>
    intro x r h
    simp only [Option.some.injEq, Prod.mk.injEq] at h
    obtain ⟨hx, hr⟩ := h
    subst hr
    have hx0 : x0 = 1 / ((b - a) * u1 + a) := by
      simp only [x0, UniformReal.mk']; dist_simp
    refine ⟨[], u1, u2, rfl, trivial, by rw [← hx, hx0], ?_⟩
    dist_simp at hlt
    rw [← hx]; exact not_lt.mp hlt
  | case3 s hne => intro x r h; simp at h

theorem invPairsRejected_even (g : ℝ → ℝ) (gDen a b : ℝ) :
    ∀ l : List ℝ, invPairsRejected g gDen a b l → l.length % 2 = 0
  | [], _ => rfl
  | [_], h => absurd h (by simp [invPairsRejected])
  | _ :: _ :: t, h => by
    have := invPairsRejected_even g gDen a b t h.2
    simp only [List.length_cons]; omega

def sqPairsRejected (target : ℝ → ℝ) (env lo hi : ℝ) : List ℝ → Prop
  | [] => True
  | u1 :: u2 :: t => target (lo * hi / ((hi - lo) * u1 + lo)) < env * u2
      ∧ sqPairsRejected target env lo hi t
  | _ => False

theorem ioniSqLoop_spec (target : ℝ → ℝ) (env lo hi : ℝ) (s : List ℝ) : ∀ (x : ℝ) (rest : List ℝ),
    ioniSqLoop target env lo hi s = some (x, rest) →
    ∃ pre u1 u2, s = pre ++ u1 :: u2 :: rest ∧ sqPairsRejected target env lo hi pre ∧
      x = lo * hi / ((hi - lo) * u1 + lo) ∧ env * u2 ≤ target x := by
  fun_induction ioniSqLoop target env lo hi s with
  | case1 u1 u2 rest x0 hlt ih =>
    intro x r h
    obtain ⟨pre, c, d, hs, hr, hx, hacc⟩ := ih x r h
    refine ⟨u1 :: u2 :: pre, c, d, by simp [hs], ⟨?_, hr⟩, hx, hacc⟩
    have hx0 : x0 = lo * hi / ((hi - lo) * u1 + lo) := by
      simp only [x0]; dist_simp
    dist_simp at hlt; rw [hx0] at hlt; exact hlt
  | case2 u1 u2 rest x0 hlt =>
    intro x r h
    simp only [Option.some.injEq, Prod.mk.injEq] at h
    obtain ⟨hx, hr⟩ := h
    subst hr
    have hx0 : x0 = lo * hi / ((hi - lo) * u1 + lo) := by
      simp only [x0]; dist_simp
    refine ⟨[], u1, u2, rfl, trivial, by rw [← hx, hx0], ?_⟩
    dist_simp at hlt
    rw [← hx]; exact not_lt.mp hlt
  | case3 s hne => intro x r h; simp at h

theorem sqPairsRejected_even (target : ℝ → ℝ) (env lo hi : ℝ) :
    ∀ l : List ℝ, sqPairsRejected target env lo hi l → l.length % 2 = 0
  | [], _ => rfl
  | [_], h => absurd h (by simp [sqPairsRejected])
  | _ :: _ :: t, h => by
    have := sqPairsRejected_even target env lo hi t h.2
    simp only [List.length_cons]; omega

/-! ### ranges of the two proposals -/
/-- 1/x for x uniform on [a, b], 0 < a ≤ b -/
theorem inv_proposal_mem (a b u : ℝ) (ha : 0 < a) (hab : a ≤ b) (hu : Canon u) :
    1 / b ≤ 1 / ((b - a) * u + a) ∧ 1 / ((b - a) * u + a) ≤ 1 / a := by
  obtain ⟨h0, h1, _⟩ := affine_mem hab hu
  have hD : 0 < (b - a) * u + a := by linarith
  exact ⟨one_div_le_one_div_of_le hD h1, one_div_le_one_div_of_le ha h0⟩

/-- lo·hi/x for x uniform on [lo, hi], 0 < lo ≤ hi -/
theorem sq_proposal_mem (lo hi u : ℝ) (hlo : 0 < lo) (hle : lo ≤ hi) (hu : Canon u) :
    lo ≤ lo * hi / ((hi - lo) * u + lo) ∧ lo * hi / ((hi - lo) * u + lo) ≤ hi := by
  obtain ⟨h0, h1, _⟩ := affine_mem hle hu
  have hD : 0 < (hi - lo) * u + lo := by linarith
  constructor
  · rw [le_div_iff₀ hD]; nlinarith
  · rw [div_le_iff₀ hD]; nlinarith

/-! ### Møller rejection function -/
theorem moller_t_bounds (gamma : ℝ) (hg : 1 ≤ gamma) :
    0 < (2 * gamma - 1) / (gamma * gamma) ∧ (2 * gamma - 1) / (gamma * gamma) ≤ 1 := by
  have h : 0 < gamma * gamma := by positivity
  refine ⟨div_pos (by linarith) h, ?_⟩
  rw [div_le_one h]; nlinarith [sq_nonneg (gamma - 1)]

/-- g(ε) ∈ [1 − ε, 9/4 − 5t/4] for t ∈ [0,1], ε ∈ (0, 1/2]; the upper bound is g(1/2) -/
theorem moller_G_bounds (t e : ℝ) (ht0 : 0 ≤ t) (ht1 : t ≤ 1) (he0 : 0 < e) (he1 : e ≤ 1 / 2) :
    1 - e ≤ 1 - t * e + e * e * (1 - t + (1 - t * (1 - e)) / ((1 - e) * (1 - e))) ∧
    1 - t * e + e * e * (1 - t + (1 - t * (1 - e)) / ((1 - e) * (1 - e))) ≤ 9 / 4 - 5 * t / 4 := by
  have hc : 0 < 1 - e := by linarith
  have hcc : 0 < (1 - e) * (1 - e) := by positivity
  have key : 1 - t * e + e * e * (1 - t + (1 - t * (1 - e)) / ((1 - e) * (1 - e)))
      = ((1 - t * e) * ((1 - e) * (1 - e))
          + e * e * ((1 - t) * ((1 - e) * (1 - e)) + (1 - t * (1 - e)))) / ((1 - e) * (1 - e)) := by
    field_simp
  rw [key]
  set d := 1 - 2 * e with hd
  have hd0 : 0 ≤ d := by linarith
  have hd1 : d < 1 := by linarith
  have he : e = (1 - d) / 2 := by linarith
  constructor
  · rw [le_div_iff₀ hcc]
    -- numerator − (1−e)·c² = (1−t)·(…) + t·(…) with both brackets ≥ 0
    have h0 : 0 ≤ (1 - e) * (1 - e) + e * e * ((1 - e) * (1 - e) + 1)
        - (1 - e) * ((1 - e) * (1 - e)) := by nlinarith [mul_pos he0 hcc, mul_pos he0 he0]
    have h1 : 0 ≤ e * e * e := by positivity
    nlinarith [mul_nonneg (sub_nonneg.mpr ht1) h0, mul_nonneg ht0 h1]
  · rw [div_le_iff₀ hcc]
    have q0 : 0 ≤ 5 / 4 * ((1 - e) * (1 - e)) - e * e * ((1 - e) * (1 - e)) - e * e := by
      rw [he]; nlinarith [mul_nonneg hd0 hd0, mul_nonneg (mul_nonneg hd0 hd0) hd0,
        mul_nonneg hd0 (sub_nonneg.mpr (le_of_lt hd1))]
    have q1 : 0 ≤ e * (1 - 2 * e) := mul_nonneg (le_of_lt he0) (by linarith)
    nlinarith [mul_nonneg (sub_nonneg.mpr ht1) q0, mul_nonneg ht0 q1]

theorem moller_g_real (d : Moller ℝ) (e : ℝ) :
    d.g e = 1 - (2 * d.gamma - 1) / (d.gamma * d.gamma) * e
      + e * e * (1 - (2 * d.gamma - 1) / (d.gamma * d.gamma)
          + (1 - (2 * d.gamma - 1) / (d.gamma * d.gamma) * (1 - e)) / ((1 - e) * (1 - e))) := by
  unfold Moller.g; dist_simp

/-! ### Bhabha rejection function -/
theorem bhabha_abs (b1 b2 b3 b4 bsq e0 e : ℝ) (h1 : 0 ≤ b1) (h2 : 0 ≤ b2) (h3 : 0 ≤ b3)
    (h4 : 0 ≤ b4) (hb : 0 ≤ bsq) (he0 : 0 ≤ e0) (hle : e0 ≤ e) (he1 : e ≤ 1) :
    1 + ((e * e) * (e * e) * b4 - e * e * e * b3 + e * e * b2 - e * b1) * bsq
      ≤ 1 + ((1 * 1) * (1 * 1) * b4 - e0 * e0 * e0 * b3 + 1 * 1 * b2 - e0 * b1) * bsq := by
  have he : 0 ≤ e := le_trans he0 hle
  have t4 : 0 ≤ (1 - (e * e) * (e * e)) * b4 := by
    apply mul_nonneg _ h4
    have : e * e ≤ 1 := by nlinarith
    nlinarith [mul_nonneg he he]
  have t3 : 0 ≤ (e * e * e - e0 * e0 * e0) * b3 := by
    apply mul_nonneg _ h3
    nlinarith [mul_nonneg he0 he0, mul_nonneg he he, mul_nonneg he0 he, sq_nonneg (e - e0)]
  have t2 : 0 ≤ (1 - e * e) * b2 := mul_nonneg (by nlinarith) h2
  have t1 : 0 ≤ (e - e0) * b1 := mul_nonneg (by linarith) h1
  nlinarith [mul_nonneg (add_nonneg (add_nonneg t4 t3) (add_nonneg t2 t1)) hb]

/-! ### heavy-particle kinematics -/
theorem ioniBetaSq_bounds (i : IoniIn ℝ) (hm : 0 < i.pMass) (he : 0 ≤ i.energy) :
    0 ≤ ioniBetaSq i ∧ ioniBetaSq i < 1 := by
  unfold ioniBetaSq; dist_simp
  have hs : 0 < i.energy + i.pMass := by linarith
  have h0 : 0 < i.pMass / (i.energy + i.pMass) := div_pos hm hs
  have h1 : i.pMass / (i.energy + i.pMass) ≤ 1 := by rw [div_le_one hs]; linarith
  constructor <;> nlinarith

theorem maxSecondaryEnergy_pos (i : IoniIn ℝ) (hm : 0 < i.pMass) (hme : 0 < i.eMass)
    (he : 0 < i.energy) : 0 < maxSecondaryEnergy i := by
  unfold maxSecondaryEnergy; dist_simp
  have ht : 0 < i.energy / i.pMass := div_pos he hm
  have hr : 0 < i.eMass / i.pMass := div_pos hme hm
  positivity

theorem moller_g_half (d : Moller ℝ) :
    d.g (1 / 2) = 9 / 4 - 5 * ((2 * d.gamma - 1) / (d.gamma * d.gamma)) / 4 := by
  rw [moller_g_real]
  generalize (2 * d.gamma - 1) / (d.gamma * d.gamma) = t
  norm_num
  ring

/-- generic support of the 1/T² proposal loop -/
theorem ioniSqLoop_support (target : ℝ → ℝ) (env lo hi : ℝ) (hlo : 0 < lo) (hle : lo ≤ hi)
    (s rest : List ℝ) (x : ℝ) (hs : CanonAll s)
    (h : ioniSqLoop target env lo hi s = some (x, rest)) :
    lo ≤ x ∧ x ≤ hi ∧ env * 0 ≤ env * 0 ∧
    ∃ pre u1 u2, s = pre ++ u1 :: u2 :: rest ∧ sqPairsRejected target env lo hi pre ∧
      pre.length % 2 = 0 ∧ env * u2 ≤ target x := by
  obtain ⟨pre, u1, u2, hsplit, hrej, hx, hacc⟩ := ioniSqLoop_spec target env lo hi s x rest h
  have hu1 : Canon u1 := hs u1 (by rw [hsplit]; simp)
  obtain ⟨h1, h2⟩ := sq_proposal_mem lo hi u1 hlo hle hu1
  rw [← hx] at h1 h2
  exact ⟨h1, h2, le_refl _, pre, u1, u2, hsplit, hrej, sqPairsRejected_even _ _ _ _ pre hrej, hacc⟩

/-- generic support of the 1/x proposal loop -/
theorem ioniInvLoop_support (g : ℝ → ℝ) (gDen a b : ℝ) (ha : 0 < a) (hab : a ≤ b)
    (s rest : List ℝ) (x : ℝ) (hs : CanonAll s)
    (h : ioniInvLoop g gDen (UniformReal.mk' a b) s = some (x, rest)) :
    1 / b ≤ x ∧ x ≤ 1 / a ∧
    ∃ pre u1 u2, s = pre ++ u1 :: u2 :: rest ∧ invPairsRejected g gDen a b pre ∧
      pre.length % 2 = 0 ∧ gDen * u2 ≤ g x := by
  obtain ⟨pre, u1, u2, hsplit, hrej, hx, hacc⟩ := ioniInvLoop_spec g gDen a b s x rest h
  have hu1 : Canon u1 := hs u1 (by rw [hsplit]; simp)
  obtain ⟨h1, h2⟩ := inv_proposal_mem a b u1 ha hab hu1
  rw [← hx] at h1 h2
  exact ⟨h1, h2, pre, u1, u2, hsplit, hrej, invPairsRejected_even _ _ _ _ pre hrej, hacc⟩

theorem moller_sample_real (d : Moller ℝ) :
    d.sample = ioniInvLoop d.g (d.g (1 / 2)) (UniformReal.mk' (1 / (1 / 2)) (1 / d.minFrac)) := by
  unfold Moller.sample; ioni_simp

theorem bhabha_sample_real (d : Bhabha ℝ) :
    d.sample = ioniInvLoop (fun e => d.g e e) (d.g d.minFrac 1)
      (UniformReal.mk' (1 / 1) (1 / d.minFrac)) := by
  unfold Bhabha.sample; dist_simp

/-! ### MuBB without radiative correction: target ≤ envelope = 1 -/
theorem tmax_sq_le (M t r : ℝ) (hM : 0 < M) (ht : 0 < t) (hr : 0 < r) :
    (2 * (r * M) * t * (t + 2) / (1 + 2 * (t + 1) * r + r * r))
      * (2 * (r * M) * t * (t + 2) / (1 + 2 * (t + 1) * r + r * r))
      ≤ 2 * (M * M * (t * (t + 2))) := by
  have hD : 0 < 1 + 2 * (t + 1) * r + r * r := by positivity
  rw [div_mul_div_comm, div_le_iff₀ (by positivity)]
  have hD2 : 2 * (r * r) * (t * (t + 2))
      ≤ (1 + 2 * (t + 1) * r + r * r) * (1 + 2 * (t + 1) * r + r * r) := by
    have h1 : 2 * (t + 1) * r ≤ 1 + 2 * (t + 1) * r + r * r := by nlinarith [mul_pos hr hr]
    have h2 : 0 < 2 * (t + 1) * r := by positivity
    have h3 : (2 * (t + 1) * r) * (2 * (t + 1) * r)
        ≤ (1 + 2 * (t + 1) * r + r * r) * (1 + 2 * (t + 1) * r + r * r) :=
      mul_le_mul h1 h1 (le_of_lt h2) (le_of_lt hD)
    nlinarith [mul_pos (mul_pos hr hr) ht, mul_pos hr hr]
  have hk : 0 < M * M * (t * (t + 2)) := by positivity
  have : 2 * (r * M) * t * (t + 2) * (2 * (r * M) * t * (t + 2))
      = (M * M * (t * (t + 2))) * (2 * (2 * (r * r) * (t * (t + 2)))) := by ring
  rw [this]
  have := mul_le_mul_of_nonneg_left hD2 (le_of_lt hk)
  nlinarith

theorem muBB_norad_target (i : IoniIn ℝ) (hm : 0 < i.pMass) (hme : 0 < i.eMass)
    (he : 0 < i.energy) (hrad : (MuBB.mk' i).useRad = false) (x : ℝ) (hx0 : 0 < x)
    (hx1 : x ≤ maxSecondaryEnergy i) :
    1 - ioniBetaSq i ≤ (MuBB.mk' i).target x ∧ (MuBB.mk' i).target x ≤ (MuBB.mk' i).envelope ∧
    (MuBB.mk' i).envelope = 1 := by
  have hT := maxSecondaryEnergy_pos i hm hme he
  obtain ⟨hb0, hb1⟩ := ioniBetaSq_bounds i hm (le_of_lt he)
  have hE : 0 < i.energy + i.pMass := by linarith
  -- T_max² ≤ 2 β² E²
  have hkey : maxSecondaryEnergy i * maxSecondaryEnergy i
      ≤ 2 * (ioniBetaSq i * ((i.energy + i.pMass) * (i.energy + i.pMass))) := by
    have hb : ioniBetaSq i * ((i.energy + i.pMass) * (i.energy + i.pMass))
        = i.pMass * i.pMass * (i.energy / i.pMass * (i.energy / i.pMass + 2)) := by
      unfold ioniBetaSq; dist_simp; field_simp; ring
    have hme' : i.eMass = i.eMass / i.pMass * i.pMass := by field_simp
    have hmax : maxSecondaryEnergy i = 2 * (i.eMass / i.pMass * i.pMass) * (i.energy / i.pMass)
        * (i.energy / i.pMass + 2)
        / (1 + 2 * (i.energy / i.pMass + 1) * (i.eMass / i.pMass)
            + i.eMass / i.pMass * (i.eMass / i.pMass)) := by
      unfold maxSecondaryEnergy; dist_simp; rw [← hme']
    rw [hb, hmax]
    exact tmax_sq_le _ _ _ hm (div_pos he hm) (div_pos hme hm)
  have henv : (MuBB.mk' i).envelope = 1 := by
    simp only [MuBB.mk'] at hrad ⊢
    rw [hrad]; simp
  have htarget : (MuBB.mk' i).target x = 1 - ioniBetaSq i / maxSecondaryEnergy i * x
      + 1 / 2 * (x / (i.energy + i.pMass) * (x / (i.energy + i.pMass))) := by
    unfold MuBB.target
    rw [hrad]
    simp only [MuBB.mk', Bool.false_and]
    dist_simp
    rw [if_neg (by simp)]
  rw [htarget, henv]
  have hq : 1 / 2 * (x / (i.energy + i.pMass) * (x / (i.energy + i.pMass)))
      ≤ ioniBetaSq i / maxSecondaryEnergy i * x := by
    have h1 : x * x * maxSecondaryEnergy i
        ≤ 2 * (ioniBetaSq i * ((i.energy + i.pMass) * (i.energy + i.pMass))) * x := by
      have hxT : x * maxSecondaryEnergy i ≤ maxSecondaryEnergy i * maxSecondaryEnergy i :=
        mul_le_mul_of_nonneg_right hx1 (le_of_lt hT)
      nlinarith [mul_le_mul_of_nonneg_left (le_trans hxT hkey) (le_of_lt hx0)]
    rw [show (1 : ℝ) / 2 * (x / (i.energy + i.pMass) * (x / (i.energy + i.pMass)))
          = x * x / (2 * ((i.energy + i.pMass) * (i.energy + i.pMass))) by field_simp,
        show ioniBetaSq i / maxSecondaryEnergy i * x = ioniBetaSq i * x / maxSecondaryEnergy i by ring,
        div_le_div_iff₀ (by positivity) hT]
    nlinarith [h1]
  have hq2 : ioniBetaSq i / maxSecondaryEnergy i * x ≤ ioniBetaSq i := by
    calc ioniBetaSq i / maxSecondaryEnergy i * x
        ≤ ioniBetaSq i / maxSecondaryEnergy i * maxSecondaryEnergy i :=
          mul_le_mul_of_nonneg_left hx1 (div_nonneg hb0 (le_of_lt hT))
      _ = ioniBetaSq i := by field_simp
  have hq3 : 0 ≤ 1 / 2 * (x / (i.energy + i.pMass) * (x / (i.energy + i.pMass))) := by positivity
  exact ⟨by linarith, by linarith, rfl⟩

end CelerVerif.Dist
